(* C09 - headline theorem linkage_spec and corollaries (uses the simulation steps of LinkageSim*.v). *)
From Coq Require Import List NArith Bool Lia Arith.
From Cproc Require Import Lib.LinkageBase Model.Linkage Spec.LinkSpec Proofs.LinkageSim Proofs.LinkageSimObj Proofs.LinkageSimFunc.
Import ListNotations.
Local Open Scope N_scope.

Lemma step_sim : forall m s it, R m s -> ms_nextid m + 1 < two32 -> known_dev s it = false -> sim_goal m s it.
Proof.
  intros m s [| |[sc asm init|sc isinl asm body]| |] HR Hb Hd.
  - apply open_sim; assumption.
  - apply close_sim; assumption.
  - apply decl_obj_sim; assumption.
  - apply decl_func_sim; assumption.
  - apply use_sim; assumption.
  - apply bump_sim; assumption.
Qed.

Lemma steps_sim : forall h m s, R m s -> ms_nextid m + N.of_nat (length h) < two32 -> devs_from s h = false ->
  match spec_steps s h with
  | SOk s' => exists m', steps m h = MOk m' /\ R m' s'
  | SReject => steps m h = MReject
  | SUnspec _ => True
  | SIll => steps m h = MIll
  end.
Proof.
  induction h as [|it h IH]; intros m s HR Hb Hd.
  - simpl. eauto.
  - simpl in Hd. apply orb_false_iff in Hd. destruct Hd as [Hd1 Hd2].
    assert (Hb' : ms_nextid m + 1 < two32) by (simpl length in Hb; lia).
    pose proof (step_sim m s it HR Hb' Hd1) as Hs. unfold sim_goal in Hs.
    simpl. destruct (spec_step s it) as [s'| |r|].
    + destruct Hs as (m' & Hm & HR' & Hn). rewrite Hm. apply IH; auto.
      simpl length in Hb. lia.
    + rewrite Hs. reflexivity.
    + exact I.
    + rewrite Hs. reflexivity.
Qed.

Lemma obs_linked_app : forall a b, obs_linked (a ++ b) = obs_linked a ++ obs_linked b.
Proof. induction a as [|[x id t e|x id e] a IH]; intros b; simpl; auto; destruct (N.eqb id 0); simpl; rewrite IH; auto. Qed.
Lemma obs_anon_app : forall a b, obs_anon (a ++ b) = obs_anon a ++ obs_anon b.
Proof. induction a as [|[x id t e|x id e] a IH]; intros b; simpl; auto; destruct (N.eqb id 0); simpl; rewrite IH; auto. Qed.
Lemma obs_linked_rev : forall l, obs_linked (rev l) = rev (obs_linked l).
Proof.
  induction l as [|[x id t e|x id e] l IH]; simpl; auto; rewrite obs_linked_app, IH; simpl; destruct (N.eqb id 0); simpl; auto using app_nil_r.
Qed.
Lemma obs_anon_rev : forall l, obs_anon (rev l) = rev (obs_anon l).
Proof.
  induction l as [|[x id t e|x id e] l IH]; simpl; auto; rewrite obs_anon_app, IH; simpl; destruct (N.eqb id 0); simpl; auto using app_nil_r.
Qed.

Lemma finish_sim : forall m s, R m s ->
  match spec_finish s with
  | Unspec _ => True
  | o => observe (finish m) = o
  end.
Proof.
  intros [mf nid tent defs refs crash] [sf ent anon srefs] [Hf Hl Hw Ho Ha Hr Hc]; simpl in *.
  unfold spec_finish, finish; cbv beta iota zeta delta [ss_frames ms_frames ss_ent ss_anon ss_refs ms_tent ms_defs ms_refs].
  inversion Hf as [|x y mf' sf' Hxy Hrest]; subst; [reflexivity|].
  inversion Hrest as [|x2 y2 mf2 sf2 Hxy2 Hrest2]; subst.
  2: { destruct x; reflexivity. }
  simpl in Hl.
  assert (Hobs : forall d', observe (FAccept (rev d') (rev refs)) =
            Accept {| st_linked := rev (obs_linked d'); st_anon := rev (obs_anon d'); st_refs := rev (map obs_ref refs) |}).
  { intros d'. simpl. rewrite obs_linked_rev, obs_anon_rev, map_rev. reflexivity. }
  do 3 unfold_all.
  destruct x as [d|], y as [[|t|]|]; try contradiction.
  - (* a file-scope declaration exists *)
    destruct ent as [e|]; [|contradiction]. destruct e, d. red_all.
    repeat gbreak_step; red_all.
    all: unfold flush, defineobj; red_all; try rewrite Hobs; simpl; try rewrite Ho; try reflexivity; try exact I.
    all: gbreak; try rewrite Hobs; simpl; try rewrite Ho; try reflexivity; try exact I; try congruence.
  - destruct Hxy as (L & _). destruct ent as [e|]; [|contradiction]. destruct Hl as (L' & _). congruence.
  - destruct Hxy as (L & _). destruct ent as [e|]; [|contradiction]. destruct Hl as (L' & _). congruence.
  - destruct ent as [e|]; [|rewrite Hobs, Ho; reflexivity].
    destruct e. red_all. gbreak. all: try rewrite Hobs; try rewrite Ho; try reflexivity; try exact I.
Qed.


(* ------------------------------------------------------------------ the headline theorem *)
Lemma R_init : R init_state init_sstate.
Proof. constructor; simpl; auto. repeat constructor. Qed.

Theorem linkage_spec : forall h,
  N.of_nat (length h) < two32 -> known_devs h = false -> specified (LinkSpec.run h) = true ->
  Linkage.run h = LinkSpec.run h.
Proof.
  intros h Hb Hd Hs. unfold Linkage.run, run_events, LinkSpec.run in *. unfold known_devs in Hd.
  pose proof (steps_sim h init_state init_sstate R_init) as H. simpl ms_nextid in H.
  specialize (H Hb Hd).
  destruct (spec_steps init_sstate h) as [s'| |r|].
  - destruct H as (m' & Hm & HR). rewrite Hm. pose proof (finish_sim _ _ HR) as Hf.
    destruct (spec_finish s'); try exact Hf. discriminate Hs.
  - rewrite H. reflexivity.
  - discriminate Hs.
  - rewrite H. reflexivity.
Qed.

(* ------------------------------------------------------------------ the known deviations, kept visible *)
Definition d19_witness : list item :=
  [IDecl (DFunc FSnone true None true); IDecl (DFunc FSextern true None false); IOpen; IUse; IClose].
Definition thread_witness : list item := [IDecl (DObj OSthread None false); IDecl (DObj OSthread None false)].

(* `inline int f(void){..} extern inline int f(void);` - the specification wants an external definition, the model emits none *)
Lemma inline_rule_refuted :
  exists h, N.of_nat (length h) < two32 /\ specified (LinkSpec.run h) = true /\ Linkage.run h <> LinkSpec.run h.
Proof. exists d19_witness. split; [reflexivity|]. split; [reflexivity|]. vm_compute. discriminate. Qed.

(* `_Thread_local int x; _Thread_local int x;` - two definitions of one symbol *)
Lemma thread_tentative_refuted :
  exists h, N.of_nat (length h) < two32 /\ specified (LinkSpec.run h) = true /\ Linkage.run h <> LinkSpec.run h.
Proof. exists thread_witness. split; [reflexivity|]. split; [reflexivity|]. vm_compute. discriminate. Qed.

(* 6.7.4p7 for histories of file-scope function declarations: holds unless a declaration that is not
   `inline`, or is `extern`, follows the body of a so-far-inline definition *)
Definition is_func_decl (it : item) : bool := match it with IDecl (DFunc _ _ _ _) => true | _ => false end.
Fixpoint inline_late_from (s : sstate) (h : list item) : bool :=
  match h with
  | [] => false
  | it :: h' =>
    match it, ss_frames s with
    | IDecl d, _ :: parents => dev_inline_late s (is_nil parents) d
    | _, _ => false
    end || match spec_step s it with SOk s' => inline_late_from s' h' | _ => false end
  end.

Lemma func_devs : forall h s, forallb is_func_decl h = true -> devs_from s h = inline_late_from s h.
Proof.
  induction h as [|it h IH]; intros s Hf; simpl; auto.
  simpl in Hf. apply andb_true_iff in Hf. destruct Hf as [Hi Hf].
  destruct it as [| |[|sc i a b]| |]; try discriminate Hi.
  f_equal.
  - unfold known_dev. destruct (ss_frames s); auto. unfold dev_thread_tentative. simpl. rewrite andb_false_r, orb_false_r. reflexivity.
  - destruct (spec_step s (IDecl (DFunc sc i a b))); auto.
Qed.

Theorem inline_rule_partial : forall h,
  N.of_nat (length h) < two32 -> forallb is_func_decl h = true -> inline_late_from init_sstate h = false ->
  specified (LinkSpec.run h) = true -> Linkage.run h = LinkSpec.run h.
Proof.
  intros h Hb Hf Hd Hs. apply linkage_spec; auto. unfold known_devs. rewrite func_devs; auto.
Qed.

(* ------------------------------------------------------------------ corollaries *)
(* at most one definition of the named symbol *)
Lemma spec_linked_le1 : forall h t, LinkSpec.run h = Accept t -> (length (st_linked t) <= 1)%nat.
Proof.
  intros h t. unfold LinkSpec.run. destruct (spec_steps init_sstate h) as [s| |r|]; try discriminate.
  unfold spec_finish. destruct (ss_frames s) as [|x [|y l]]; try discriminate.
  destruct (ss_ent s) as [e|]; [|intros H; inversion H; simpl; lia].
  destruct (e_kind e), (e_def e), (e_link e), (e_allinline e), (e_anyinline e), (e_used e);
    intros H; inversion H; simpl; lia.
Qed.

Theorem one_definition : forall h t,
  N.of_nat (length h) < two32 -> known_devs h = false -> specified (LinkSpec.run h) = true ->
  Linkage.run h = Accept t -> (length (st_linked t) <= 1)%nat.
Proof.
  intros h t Hb Hd Hs Hr. rewrite (linkage_spec h Hb Hd Hs) in Hr. eapply spec_linked_le1; eauto.
Qed.

(* emittentativedefns: nothing for an object already defined, exactly one definition otherwise *)
Lemma flush_defined : forall n d defs, md_defined d = true -> flush n d defs = Some (d, defs).
Proof. induction n; intros d defs H; simpl; auto. rewrite H. auto. Qed.

Theorem flush_one_definition : forall n d defs d' defs',
  flush n d defs = Some (d', defs') -> md_storage d <> SAuto ->
  (md_defined d = true -> defs' = defs) /\
  (md_defined d = false -> n <> 0%nat -> exists a id t e, defs' = EData a id t e :: defs).
Proof.
  intros n d defs d' defs' H Hs. split.
  - intros Hd. rewrite flush_defined in H by assumption. inversion H; auto.
  - intros Hd Hn. destruct n as [|n]; [congruence|]. simpl in H. rewrite Hd in H.
    unfold defineobj in H.
    destruct (md_storage d) eqn:E; try congruence;
      destruct (md_value d) as [[a id t|]|]; try discriminate;
      rewrite flush_defined in H by reflexivity; inversion H; subst; eauto.
Qed.

(* once an object is (tentatively) defined at file scope the unit ends with exactly one definition of it *)
Definition defd (s : sstate) : Prop :=
  match ss_ent s with Some e => e_kind e = KObj /\ e_def e <> NoDef | None => False end.

Ltac hb H :=
  repeat (simpl in H;
          match type of H with
          | context [match ?x with _ => _ end] => destruct x eqn:?
          | context [if ?x then _ else _] => destruct x eqn:?
          end);
  try discriminate H.

Ltac hb_any :=
  repeat (match goal with
          | H : context [match ?x with _ => _ end] |- _ => destruct x eqn:?; simpl in *; try discriminate
          | H : context [if ?x then _ else _] |- _ => destruct x eqn:?; simpl in *; try discriminate
          | H : _ = _ |- _ => discriminate H
          | H : inr _ = inr _ |- _ => inversion H; clear H; subst
          | H : inl _ = inl _ |- _ => inversion H; clear H; subst
          | H : SOk _ = SOk _ |- _ => inversion H; clear H; subst
          end).

Lemma defd_step : forall s it s', spec_step s it = SOk s' -> defd s -> defd s'.
Proof.
  intros [fr ent anon refs] it s' H Hd. unfold defd in *. simpl in Hd.
  destruct ent as [e|]; [|contradiction]. destruct Hd as [Hk Hn].
  destruct it as [| |d| |]; unfold spec_step, spec_decl, with_sframes in H;
    cbv beta iota zeta delta [ss_frames ss_ent ss_anon ss_refs] in H.
  - hb H; inversion H; subst; simpl; auto.
  - hb H; inversion H; subst; simpl; auto.
  - destruct fr as [|same parents]; [discriminate|].
    destruct (specifier_reject (is_nil parents) d); [discriminate|].
    destruct d as [sc asm init|sc i asm body]; unfold apply_decl, set_frame, redefinition, with_def, with_inline, dspec_kind in H;
      rewrite Hk in H; simpl in H.
    + hb_any; simpl; try (split; [assumption|]; simpl; congruence); auto.
    + hb_any; simpl; try (split; [assumption|]; simpl; congruence); auto.
  - hb H; inversion H; subst; simpl; auto.
  - inversion H; subst; simpl; auto.
Qed.

Lemma defd_steps : forall h s s', spec_steps s h = SOk s' -> defd s -> defd s'.
Proof.
  induction h as [|it h IH]; intros s s' H Hd; simpl in H.
  - inversion H; subst; auto.
  - destruct (spec_step s it) as [s1| | |] eqn:E; try discriminate. eauto using defd_step.
Qed.

Lemma tentative_defd : forall s sc asm s' x,
  spec_step s (IDecl (DObj sc asm false)) = SOk s' -> ss_frames s = [x] -> osc_extern sc = false -> defd s'.
Proof.
  intros [fr ent anon refs] sc asm s' x H Hf He. simpl in Hf. subst fr.
  unfold spec_step, spec_decl in H. cbv beta iota zeta delta [ss_frames ss_ent ss_anon ss_refs] in H.
  unfold decl_linkage, apply_decl, set_frame, new_entity, with_def, dspec_kind in H. simpl in H. rewrite He in H.
  unfold defd.
  hb_any; simpl; try (split; [auto|congruence]).
  all: match goal with H : negb (kind_eqb (e_kind ?e) KObj) = false |- _ => destruct (e_kind e); simpl in *; congruence end.
Qed.

Lemma spec_steps_app : forall h1 h2 s,
  spec_steps s (h1 ++ h2) = match spec_steps s h1 with SOk s1 => spec_steps s1 h2 | r => r end.
Proof.
  induction h1 as [|it h1 IH]; intros h2 s; simpl; auto.
  destruct (spec_step s it); auto.
Qed.

Theorem tentative_one_definition : forall h1 sc asm h2 s1 x t,
  N.of_nat (length (h1 ++ IDecl (DObj sc asm false) :: h2)) < two32 ->
  known_devs (h1 ++ IDecl (DObj sc asm false) :: h2) = false ->
  specified (LinkSpec.run (h1 ++ IDecl (DObj sc asm false) :: h2)) = true ->
  spec_steps init_sstate h1 = SOk s1 -> ss_frames s1 = [x] -> osc_extern sc = false ->
  Linkage.run (h1 ++ IDecl (DObj sc asm false) :: h2) = Accept t ->
  exists d, st_linked t = [d] /\ ld_kind d = KObj.
Proof.
  intros h1 sc asm h2 s1 x t Hb Hd Hs H1 Hx He Hr.
  rewrite (linkage_spec _ Hb Hd Hs) in Hr. unfold LinkSpec.run in Hr.
  rewrite spec_steps_app, H1 in Hr.
  change (spec_steps s1 (IDecl (DObj sc asm false) :: h2))
    with (match spec_step s1 (IDecl (DObj sc asm false)) with SOk s' => spec_steps s' h2 | r => r end) in Hr.
  destruct (spec_step s1 (IDecl (DObj sc asm false))) as [s2| | |] eqn:E2; try discriminate.
  pose proof (tentative_defd _ _ _ _ _ E2 Hx He) as D2.
  destruct (spec_steps s2 h2) as [s3| | |] eqn:E3; try discriminate.
  pose proof (defd_steps _ _ _ E3 D2) as D3. unfold defd in D3.
  unfold spec_finish in Hr. destruct (ss_frames s3) as [|y [|z l]]; try discriminate.
  destruct (ss_ent s3) as [e|]; [|contradiction]. destruct D3 as [K N0]. cbv zeta in Hr. rewrite K in Hr.
  destruct (e_def e); try congruence; inversion Hr; subst; simpl; eexists; split; eauto.
Qed.

(* extern declarations never define *)
Definition extern_only (it : item) : bool :=
  match it with
  | IDecl (DObj sc _ init) => osc_extern sc && negb init
  | IDecl (DFunc sc _ _ body) => fsc_extern sc && negb body
  | _ => true
  end.

Lemma extern_step : forall m it m', step m it = MOk m' -> extern_only it = true ->
  ms_defs m' = ms_defs m /\ ms_tent m' = ms_tent m.
Proof.
  intros m it m' H He. destruct it as [| |[sc asm init|sc i asm body]| |]; simpl in He.
  - unfold step in H. hb H; inversion H; subst; simpl; auto.
  - unfold step in H. hb H; inversion H; subst; simpl; auto.
  - apply andb_true_iff in He. destruct He as [He Hi]. apply negb_true_iff in Hi. subst init.
    unfold step, decl_obj in H. rewrite He in H. hb H; inversion H; subst; simpl; auto.
  - apply andb_true_iff in He. destruct He as [He Hi]. apply negb_true_iff in Hi. subst body.
    unfold step, decl_func in H. hb H; inversion H; subst; simpl; auto.
  - unfold step in H. hb H; inversion H; subst; simpl; auto.
  - unfold step in H. inversion H; subst; simpl; auto.
Qed.

Lemma extern_steps : forall h m m', steps m h = MOk m' -> forallb extern_only h = true ->
  ms_defs m' = ms_defs m /\ ms_tent m' = ms_tent m.
Proof.
  induction h as [|it h IH]; intros m m' H He; simpl in *.
  - inversion H; auto.
  - apply andb_true_iff in He. destruct He as [H1 H2].
    destruct (step m it) as [m1| | |] eqn:E; try discriminate.
    destruct (extern_step _ _ _ E H1) as [A B]. destruct (IH _ _ H H2) as [C D]. split; congruence.
Qed.

Theorem extern_never_defines : forall h t,
  forallb extern_only h = true -> Linkage.run h = Accept t -> st_linked t = [] /\ st_anon t = [].
Proof.
  intros h t He Hr. unfold Linkage.run, run_events in Hr.
  destruct (steps init_state h) as [m| | |] eqn:E; try discriminate.
  destruct (extern_steps _ _ _ E He) as [A B]. simpl in A, B.
  unfold finish in Hr. rewrite A, B in Hr.
  destruct (ms_frames m) as [|[d|] [|y l]]; try discriminate; simpl in Hr; inversion Hr; auto.
Qed.

(* redeclarations inherit the linkage of the prior declaration (decl.c: getlinkage / declcommon) *)
Theorem redecl_inherits : forall parents k asm ex prior d,
  declcommon parents k asm false ex prior = Some d -> ex = true \/ k = KFunc ->
  match prior with
  | Some p => md_link d = md_link p
  | None =>
    match lookup parents with
    | Some p => if link_eqb (md_link p) LNone then md_link d = LExtern else md_link d = md_link p
    | None => md_link d = LExtern
    end
  end.
Proof.
  intros parents k asm ex prior d H Hk.
  assert (Hc : ex || kind_eqb k KFunc = true) by (destruct Hk; subst; [reflexivity|apply orb_true_r]).
  unfold declcommon, getlinkage in H. rewrite Hc in H.
  destruct prior as [p|].
  - hb H; inversion H; reflexivity.
  - destruct (lookup parents) as [p|]; simpl in H.
    + destruct (link_eqb (md_link p) LNone) eqn:E; simpl in H; hb H; inversion H; simpl; auto.
    + hb H; inversion H; simpl; auto.
Qed.

