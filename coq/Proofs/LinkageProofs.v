(* C09 - proofs about Model/Linkage.v against Spec/LinkSpec.v.

   The main result is a forward simulation: a relation R between the compiler's state (declaration
   records per scope, tentative list, output so far) and the specification's entity-centred state is
   preserved by every history item on which the specification is defined and which is not one of the
   two known deviations; at the end of the unit related states yield the same symbol table. *)
From Coq Require Import List NArith Bool Lia Arith.
From Cproc Require Import Lib.LinkageBase Model.Linkage Spec.LinkSpec.
Import ListNotations.

Local Open Scope N_scope.

(* ------------------------------------------------------------------ list facts *)
Lemma fprior_last : forall A (parents : list (option A)),
  (match parents with [_] => lookup parents | _ => last parents None end) = last parents None.
Proof. intros A [|a [|b c]]; try reflexivity. destruct a; reflexivity. Qed.

Lemma last_cons : forall A (x : A) l d, last (x :: l) d = if is_nil l then x else last l d.
Proof. intros A x [|y l] d; reflexivity. Qed.

Lemma is_nil_true : forall A (l : list A), is_nil l = true -> l = [].
Proof. intros A [|x l]; simpl; congruence. Qed.

(* ------------------------------------------------------------------ the simulation relation *)
Definition tolink (l : slink) : linkage := match l with Internal => LIntern | External => LExtern end.
Definition estorage (e : entity) : storage := if e_thread e then SThread else SStatic.

Definition rel_linked (e : entity) (d : mdecl) : Prop :=
  md_kind d = e_kind e /\ md_link d = tolink (e_link e) /\ md_asm d = e_asm e /\
  md_value d = Some (VGlobal (e_asm e) 0 (e_thread e)) /\ md_storage d = estorage e.

Definition frame_rel (ent : option entity) (md : option mdecl) (v : option vis) : Prop :=
  match md, v with
  | None, None => True
  | Some d, Some VLinked => match ent with Some e => rel_linked e d | None => False end
  | Some d, Some (VLocal t) =>
    md_link d = LNone /\ md_kind d = KObj /\
    match md_value d with Some (VGlobal None id t') => id <> 0 /\ t' = t | _ => False end
  | Some d, Some VAuto => md_link d = LNone /\ md_kind d = KObj /\ md_value d = Some VTemp
  | _, _ => False
  end.

Definition def_rel (e : entity) (d : mdecl) : Prop :=
  match e_kind e, e_thread e, e_def e with
  | KObj, false, NoDef => md_defined d = false /\ md_tentative d = false
  | KObj, false, Tentative => md_defined d = false /\ md_tentative d = true
  | KObj, false, Defined => md_defined d = true
  | KObj, true, NoDef => md_defined d = false /\ md_tentative d = false
  | KObj, true, _ => md_defined d = true /\ md_tentative d = false
  | KFunc, _, NoDef => md_defined d = false /\ md_tentative d = false
  | KFunc, _, Defined => md_defined d = true /\ md_tentative d = false
  | KFunc, _, Tentative => False
  end.

Definition file_rel (ent : option entity) (fd : option mdecl) (tent : nat) : Prop :=
  match fd, ent with
  | Some d, Some e =>
    md_link d <> LNone /\ def_rel e d /\ tent = (if md_tentative d then 1%nat else 0%nat) /\
    (e_kind e = KFunc -> md_inlinedefn d = (slink_eqb (e_link e) External && e_allinline e))
  | None, Some e => e_def e = NoDef /\ e_allinline e = true /\ tent = 0%nat
  | None, None => tent = 0%nat
  | Some _, None => False
  end.

Definition ent_wf (ent : option entity) : Prop :=
  match ent with Some e => e_kind e = KFunc -> e_thread e = false | None => True end.

(* what has been printed about the named symbol so far *)
Definition emitted_now (ent : option entity) : list ldef :=
  match ent with
  | None => []
  | Some e =>
    match e_kind e, e_def e with
    | KObj, Defined => [entity_def e]
    | KObj, Tentative => if e_thread e then [entity_def e] else []
    | KFunc, Defined =>
      match e_link e with
      | Internal => [entity_def e]
      | External => if e_allinline e then [] else [entity_def e]
      end
    | _, _ => []
    end
  end.

Record R (m : mstate) (s : sstate) : Prop := {
  R_frames : Forall2 (frame_rel (ss_ent s)) (ms_frames m) (ss_frames s);
  R_file : file_rel (ss_ent s) (last (ms_frames m) None) (ms_tent m);
  R_wf : ent_wf (ss_ent s);
  R_linked : obs_linked (ms_defs m) = emitted_now (ss_ent s);
  R_anon : obs_anon (ms_defs m) = ss_anon s;
  R_refs : map obs_ref (ms_refs m) = ss_refs s;
  R_crash : ms_crash m = false
}.

Definition stable (ent ent' : option entity) : Prop :=
  match ent, ent' with
  | None, _ => True
  | Some e, Some e' => e_kind e' = e_kind e /\ e_link e' = e_link e /\ e_asm e' = e_asm e /\ e_thread e' = e_thread e
  | Some _, None => False
  end.

Lemma frame_rel_stable : forall ent ent' md v, stable ent ent' -> frame_rel ent md v -> frame_rel ent' md v.
Proof.
  intros ent ent' [d|] [[|t|]|]; simpl; auto.
  destruct ent as [e|]; [|tauto]. destruct ent' as [e'|]; simpl; [|tauto].
  unfold rel_linked, estorage. intros (A & B & C & D) (E & F & G & H & I). rewrite A, B, C, D. auto.
Qed.

Lemma frames_stable : forall ent ent' mf sf, stable ent ent' ->
  Forall2 (frame_rel ent) mf sf -> Forall2 (frame_rel ent') mf sf.
Proof. intros ent ent' mf sf S H. induction H; constructor; eauto using frame_rel_stable. Qed.

Lemma stable_refl : forall ent, stable ent ent.
Proof. intros [e|]; simpl; auto. Qed.

Lemma lookup_rel : forall ent mf sf, Forall2 (frame_rel ent) mf sf -> frame_rel ent (lookup mf) (lookup sf).
Proof.
  intros ent mf sf H. induction H; simpl; auto.
  destruct x as [d|], y as [v|]; simpl in *; auto; try tauto.
Qed.

Lemma last_rel : forall ent mf sf, Forall2 (frame_rel ent) mf sf -> frame_rel ent (last mf None) (last sf None).
Proof.
  intros ent mf sf H. induction H; simpl; auto.
  destruct l as [|a l]; inversion H0; subst; auto.
Qed.

Lemma forall2_nil : forall ent mf sf, Forall2 (frame_rel ent) mf sf -> is_nil mf = is_nil sf.
Proof. intros ent mf sf H; inversion H; reflexivity. Qed.

(* ------------------------------------------------------------------ scope items and uses *)
Lemma bump_small : forall n, n + 1 < two32 -> bump n = n + 1 /\ bump n <> 0.
Proof.
  intros n H. unfold bump. rewrite N.mod_small by exact H. split; [reflexivity|lia].
Qed.

Definition sim_goal (m : mstate) (s : sstate) (it : item) : Prop :=
  match spec_step s it with
  | SOk s' => exists m', step m it = MOk m' /\ R m' s' /\ (ms_nextid m <= ms_nextid m' <= ms_nextid m + 1)
  | SReject => step m it = MReject
  | SUnspec _ => True
  | SIll => step m it = MIll
  end.

Lemma open_sim : forall m s, R m s -> ms_nextid m + 1 < two32 -> sim_goal m s IOpen.
Proof.
  intros [mf nid tent defs refs crash] [sf ent anon srefs] [Hf Hl Hw Ho Ha Hr Hc] Hb; simpl in *.
  unfold sim_goal; simpl.
  destruct (bump_small _ Hb) as [Hb1 _].
  inversion Hf as [|x y mf' sf' Hxy Hrest]; subst; simpl; [reflexivity|].
  inversion Hrest as [|x2 y2 mf2 sf2 Hxy2 Hrest2]; subst; simpl.
  - eexists; split; [reflexivity|]. split; [|simpl; rewrite Hb1; lia].
    constructor; simpl; auto. repeat constructor; auto.
  - eexists; split; [reflexivity|]. split; [|simpl; lia].
    constructor; simpl; auto. constructor; simpl; auto.
Qed.

Lemma close_sim : forall m s, R m s -> sim_goal m s IClose.
Proof.
  intros [mf nid tent defs refs crash] [sf ent anon srefs] [Hf Hl Hw Ho Ha Hr Hc]; simpl in *.
  unfold sim_goal; simpl. subst crash.
  inversion Hf as [|x1 y1 m1 s1 H1 R1]; subst; simpl; [reflexivity|].
  inversion R1 as [|x2 y2 m2 s2 H2 R2]; subst; simpl; [reflexivity|].
  inversion R2 as [|x3 y3 m3 s3 H3 R3]; subst; simpl; [reflexivity|].
  inversion R3 as [|x4 y4 m4 s4 H4 R4]; subst; simpl.
  - eexists; split; [reflexivity|]. split; [|simpl; lia]. constructor; simpl; auto.
  - eexists; split; [reflexivity|]. split; [|simpl; lia]. constructor; simpl; auto.
Qed.

Lemma bump_sim : forall m s, R m s -> ms_nextid m + 1 < two32 -> sim_goal m s IBump.
Proof.
  intros [mf nid tent defs refs crash] [sf ent anon srefs] [Hf Hl Hw Ho Ha Hr Hc] Hb; simpl in *.
  unfold sim_goal; simpl. destruct (bump_small _ Hb) as [Hb1 _].
  eexists; split; [reflexivity|]. split; [|simpl; rewrite Hb1; lia]. constructor; simpl; auto.
Qed.

Lemma use_sim : forall m s, R m s -> sim_goal m s IUse.
Proof.
  intros [mf nid tent defs refs crash] [sf ent anon srefs] [Hf Hl Hw Ho Ha Hr Hc]; simpl in *.
  unfold sim_goal, spec_step, step; cbv beta iota zeta delta [ss_frames ms_frames ss_ent ss_anon ss_refs ms_nextid ms_tent ms_defs ms_refs ms_crash].
  pose proof (lookup_rel _ _ _ Hf) as Hlk.
  inversion Hf as [|x1 y1 m1 s1 H1 R1]; subst; [reflexivity|].
  inversion R1 as [|x2 y2 m2 s2 H2 R2]; subst; [reflexivity|].
  remember (x1 :: x2 :: m2) as mf. remember (y1 :: y2 :: s2) as sf.
  clear Heqmf Heqsf H1 H2 R1 R2.
  destruct (lookup mf) as [d|], (lookup sf) as [[|t|]|]; simpl in Hlk; try tauto; try reflexivity.
  - (* linked *)
    destruct ent as [e|]; [|tauto]. destruct Hlk as (K & L & A & V & S). rewrite V.
    eexists; split; [reflexivity|]. split; [|simpl; lia].
    constructor; simpl; auto.
  - (* block-scope static *)
    destruct Hlk as (L & K & V). destruct (md_value d) as [[[a|] id t'|]|]; try tauto. destruct V as [Hid ->].
    eexists; split; [reflexivity|]. split; [|simpl; lia].
    constructor; simpl; auto. destruct (N.eqb_spec id 0); [tauto|reflexivity].
  - (* automatic *)
    destruct Hlk as (L & K & V). rewrite V.
    eexists; split; [reflexivity|]. split; [|simpl; lia].
    constructor; simpl; auto.
Qed.

(* ------------------------------------------------------------------ declarations *)
(* how a declaration step re-establishes R: everything about the untouched parent scopes is packed here *)
Definition intro_stmt (b : bool) (mfil : option mdecl) (ent : option entity) (mpar : list (option mdecl))
           (spar : list (option vis)) (refs : list mref) : Prop :=
  forall ent' d' v nid' tent' defs' anon',
    stable ent ent' ->
    frame_rel ent' (Some d') (Some v) ->
    file_rel ent' (if b then Some d' else mfil) tent' ->
    ent_wf ent' -> obs_linked defs' = emitted_now ent' -> obs_anon defs' = anon' ->
    R {| ms_frames := Some d' :: mpar; ms_nextid := nid'; ms_tent := tent'; ms_defs := defs'; ms_refs := refs; ms_crash := false |}
      {| ss_frames := Some v :: spar; ss_ent := ent'; ss_anon := anon'; ss_refs := map obs_ref refs |}.

Lemma intro_stmt_holds : forall ent mpar spar refs,
  Forall2 (frame_rel ent) mpar spar -> intro_stmt (is_nil mpar) (last mpar None) ent mpar spar refs.
Proof.
  intros ent mpar spar refs Hpar ent' d' v nid' tent' defs' anon' Hs Hfr Hfile Hw Ho Ha.
  constructor; unfold ms_frames, ss_frames, ss_ent, ms_tent, ms_defs, ms_refs, ss_anon, ss_refs, ms_crash; auto.
  - constructor; auto. eapply frames_stable; eauto.
  - rewrite last_cons. assumption.
Qed.

Ltac red_all :=
  cbv beta iota zeta delta [md_kind md_link md_defined md_tentative md_inlinedefn md_storage md_asm md_value
                            e_link e_kind e_def e_allinline e_anyinline e_thread e_asm e_used
                            ss_frames ss_ent ss_anon ss_refs fst snd] in *.

Ltac unfold_all :=
  unfold rel_linked, def_rel, estorage, frame_rel, file_rel, ent_wf, emitted_now, entity_def, stable,
         specifier_reject, decl_linkage, inherit, apply_decl, redefinition, new_entity, with_def, with_inline, set_frame,
         dspec_kind, dspec_asm, dspec_thread, dev_inline_late, dev_thread_tentative,
         getlinkage, asm_clash, kind_clash, mkglobal, defineobj, mkdecl, set_storage, set_value, set_defined, set_tentative,
         set_inlinedefn, set_cur, tolink, symname_of,
         osc_static, osc_extern, osc_thread, osc_thread_only, fsc_static, fsc_extern,
         slink_eqb, kind_eqb, link_eqb, storage_eqb, Bool.eqb, optN_eqb, negb, andb, orb in *.

(* goal-directed case analysis: only what blocks reduction of the goal is destructed; hypotheses prune *)
Ltac gbreak_step :=
  match goal with
  | H : False |- _ => contradiction
  | H : True |- _ => clear H
  | H : _ /\ _ |- _ => destruct H
  | H : ?a = ?a |- _ => clear H
  | H : ?a = ?a -> _ |- _ => specialize (H eq_refl)
  | H : KObj = KFunc -> _ |- _ => clear H
  | H : KFunc = KObj -> _ |- _ => clear H
  | H : ?a = ?b |- _ => first [discriminate H | (is_var a; subst a) | (is_var b; subst b) | (injection H; clear H; intros)]
  | H : ?a <> ?a |- _ => contradiction H; reflexivity
  | H : ?a <> ?b, H' : ?a = ?b |- _ => contradiction
  | |- context [N.eqb ?a ?b] => destruct (N.eqb_spec a b)
  | |- context [match ?x with _ => _ end] => is_var x; destruct x
  | |- context [if ?x then _ else _] => is_var x; destruct x
  end.
Ltac gbreak := repeat (red_all; gbreak_step).

Ltac hbreak_step :=
  match goal with
  | H : context [match ?x with _ => _ end] |- _ => is_var x; destruct x
  | H : context [if ?x then _ else _] |- _ => is_var x; destruct x
  end.
Ltac solve_prem := repeat split; intros; try reflexivity; try assumption; try congruence; try tauto; try lia.
Ltac finish_prem :=
  simpl; do 3 unfold_all; gbreak; simpl in *;
  repeat match goal with H : obs_linked _ = _ |- _ => rewrite H end;
  solve_prem; try (repeat (hbreak_step; gbreak); solve_prem).

Ltac leaf1 Hintro :=
  first
    [ reflexivity
    | exact I
    | (eexists; split; [reflexivity|]; split; [apply Hintro; finish_prem | simpl; lia]) ].
(* last resort: case analysis driven by the hypotheses (they must be contradictory) *)
Ltac leaf Hintro :=
  first [ leaf1 Hintro | (hbreak_step; gbreak; leaf Hintro) ].

Lemma decl_obj_sim : forall m s sc asm init, R m s -> ms_nextid m + 1 < two32 ->
  known_dev s (IDecl (DObj sc asm init)) = false -> sim_goal m s (IDecl (DObj sc asm init)).
Proof.
  intros [mf nid tent defs refs crash] [sf ent anon srefs] sc asm init [Hf Hl Hw Ho Ha Hr Hc] Hb Hdev; simpl in *.
  destruct (bump_small _ Hb) as [Hb1 Hb2].
  inversion Hf as [|msame ssame mpar spar Hsame Hpar]; subst; [reflexivity|].
  pose proof (lookup_rel _ _ _ Hpar) as Hvis. pose proof (last_rel _ _ _ Hpar) as Hfil.
  pose proof (forall2_nil _ _ _ Hpar) as Hnil.
  pose proof (intro_stmt_holds _ _ _ refs Hpar) as Hintro.
  rewrite last_cons in Hl.
  unfold sim_goal, spec_step, step, spec_decl, decl_obj, decl_func, declcommon, known_dev in *.
  cbv beta iota zeta delta [ss_frames ms_frames ss_ent ss_anon ss_refs ms_nextid ms_tent ms_defs ms_refs ms_crash] in *.
  unfold label_ok, decl_linkage, inherit. cbv beta iota zeta delta [ss_frames ss_ent].
  change (lookup (ssame :: spar)) with (match ssame with Some d => Some d | None => lookup spar end).
  rewrite fprior_last. rewrite last_cons. rewrite <- Hnil in *.
  assert (Hnv : is_nil mpar = true -> lookup mpar = None /\ last mpar None = None /\ lookup spar = None /\ last spar None = None).
  { intros Hn. rewrite Hn in Hnil. apply is_nil_true in Hn. symmetry in Hnil. apply is_nil_true in Hnil. subst. auto. }
  remember (lookup mpar) as mvis. remember (lookup spar) as svis.
  remember (last mpar None) as mfil. remember (last spar None) as sfil.
  remember (is_nil mpar) as b.
  clear Heqmvis Heqsvis Heqmfil Heqsfil Heqb Hnil Hpar Hf.
  do 3 unfold_all.
  destruct b; [destruct Hnv as (-> & -> & -> & ->); [reflexivity|]; clear Hvis Hfil | clear Hnv].
  - gbreak. all: leaf Hintro.
  - gbreak. all: leaf Hintro.
Qed.

Lemma decl_func_sim : forall m s sc isinl asm body, R m s -> ms_nextid m + 1 < two32 ->
  known_dev s (IDecl (DFunc sc isinl asm body)) = false -> sim_goal m s (IDecl (DFunc sc isinl asm body)).
Proof.
  intros [mf nid tent defs refs crash] [sf ent anon srefs] sc isinl asm body [Hf Hl Hw Ho Ha Hr Hc] Hb Hdev; simpl in *.
  destruct (bump_small _ Hb) as [Hb1 Hb2].
  inversion Hf as [|msame ssame mpar spar Hsame Hpar]; subst; [reflexivity|].
  pose proof (lookup_rel _ _ _ Hpar) as Hvis. pose proof (last_rel _ _ _ Hpar) as Hfil.
  pose proof (forall2_nil _ _ _ Hpar) as Hnil.
  pose proof (intro_stmt_holds _ _ _ refs Hpar) as Hintro.
  rewrite last_cons in Hl.
  unfold sim_goal, spec_step, step, spec_decl, decl_obj, decl_func, declcommon, known_dev in *.
  cbv beta iota zeta delta [ss_frames ms_frames ss_ent ss_anon ss_refs ms_nextid ms_tent ms_defs ms_refs ms_crash] in *.
  unfold label_ok, decl_linkage, inherit. cbv beta iota zeta delta [ss_frames ss_ent].
  change (lookup (ssame :: spar)) with (match ssame with Some d => Some d | None => lookup spar end).
  rewrite fprior_last. rewrite last_cons. rewrite <- Hnil in *.
  assert (Hnv : is_nil mpar = true -> lookup mpar = None /\ last mpar None = None /\ lookup spar = None /\ last spar None = None).
  { intros Hn. rewrite Hn in Hnil. apply is_nil_true in Hn. symmetry in Hnil. apply is_nil_true in Hnil. subst. auto. }
  remember (lookup mpar) as mvis. remember (lookup spar) as svis.
  remember (last mpar None) as mfil. remember (last spar None) as sfil.
  remember (is_nil mpar) as b.
  clear Heqmvis Heqsvis Heqmfil Heqsfil Heqb Hnil Hpar Hf.
  do 3 unfold_all.
  destruct b; [destruct Hnv as (-> & -> & -> & ->); [reflexivity|]; clear Hvis Hfil | clear Hnv].
  - gbreak. all: leaf Hintro.
  - gbreak. all: leaf Hintro.
Qed.

Lemma step_sim : forall m s it, R m s -> ms_nextid m + 1 < two32 -> known_dev s it = false -> sim_goal m s it.
Proof.
  intros m s [| |[sc asm init|sc isinl asm body]| |] HR Hb Hd.
  - apply open_sim; assumption.
  - apply close_sim; assumption.
  - apply decl_obj_sim; assumption.
  - apply decl_func_sim; assumption.
  - apply use_sim; assumption.
  - apply bump_sim; assumption.
Qed.

Lemma steps_sim : forall h m s, R m s -> ms_nextid m + N.of_nat (length h) < two32 -> devs_from s h = false ->
  match spec_steps s h with
  | SOk s' => exists m', steps m h = MOk m' /\ R m' s'
  | SReject => steps m h = MReject
  | SUnspec _ => True
  | SIll => steps m h = MIll
  end.
Proof.
  induction h as [|it h IH]; intros m s HR Hb Hd.
  - simpl. eauto.
  - simpl in Hd. apply orb_false_iff in Hd. destruct Hd as [Hd1 Hd2].
    assert (Hb' : ms_nextid m + 1 < two32) by (simpl length in Hb; lia).
    pose proof (step_sim m s it HR Hb' Hd1) as Hs. unfold sim_goal in Hs.
    simpl. destruct (spec_step s it) as [s'| |r|].
    + destruct Hs as (m' & Hm & HR' & Hn). rewrite Hm. apply IH; auto.
      simpl length in Hb. lia.
    + rewrite Hs. reflexivity.
    + exact I.
    + rewrite Hs. reflexivity.
Qed.

Lemma obs_linked_app : forall a b, obs_linked (a ++ b) = obs_linked a ++ obs_linked b.
Proof. induction a as [|[x id t e|x id e] a IH]; intros b; simpl; auto; destruct (N.eqb id 0); simpl; rewrite IH; auto. Qed.
Lemma obs_anon_app : forall a b, obs_anon (a ++ b) = obs_anon a ++ obs_anon b.
Proof. induction a as [|[x id t e|x id e] a IH]; intros b; simpl; auto; destruct (N.eqb id 0); simpl; rewrite IH; auto. Qed.
Lemma obs_linked_rev : forall l, obs_linked (rev l) = rev (obs_linked l).
Proof.
  induction l as [|[x id t e|x id e] l IH]; simpl; auto; rewrite obs_linked_app, IH; simpl; destruct (N.eqb id 0); simpl; auto using app_nil_r.
Qed.
Lemma obs_anon_rev : forall l, obs_anon (rev l) = rev (obs_anon l).
Proof.
  induction l as [|[x id t e|x id e] l IH]; simpl; auto; rewrite obs_anon_app, IH; simpl; destruct (N.eqb id 0); simpl; auto using app_nil_r.
Qed.

Lemma finish_sim : forall m s, R m s ->
  match spec_finish s with
  | Unspec _ => True
  | o => observe (finish m) = o
  end.
Proof.
  intros [mf nid tent defs refs crash] [sf ent anon srefs] [Hf Hl Hw Ho Ha Hr Hc]; simpl in *.
  unfold spec_finish, finish; cbv beta iota zeta delta [ss_frames ms_frames ss_ent ss_anon ss_refs ms_tent ms_defs ms_refs].
  inversion Hf as [|x y mf' sf' Hxy Hrest]; subst; [reflexivity|].
  inversion Hrest as [|x2 y2 mf2 sf2 Hxy2 Hrest2]; subst.
  2: { destruct x; reflexivity. }
  simpl in Hl.
  assert (Hobs : forall d', observe (FAccept (rev d') (rev refs)) =
            Accept {| st_linked := rev (obs_linked d'); st_anon := rev (obs_anon d'); st_refs := rev (map obs_ref refs) |}).
  { intros d'. simpl. rewrite obs_linked_rev, obs_anon_rev, map_rev. reflexivity. }
  do 3 unfold_all.
  destruct x as [d|], y as [[|t|]|]; try contradiction.
  - (* a file-scope declaration exists *)
    destruct ent as [e|]; [|contradiction]. destruct e, d. red_all.
    repeat gbreak_step; red_all.
    all: unfold flush, defineobj; red_all; try rewrite Hobs; simpl; try rewrite Ho; try reflexivity; try exact I.
    all: gbreak; try rewrite Hobs; simpl; try rewrite Ho; try reflexivity; try exact I; try congruence.
  - destruct Hxy as (L & _). destruct ent as [e|]; [|contradiction]. destruct Hl as (L' & _). congruence.
  - destruct Hxy as (L & _). destruct ent as [e|]; [|contradiction]. destruct Hl as (L' & _). congruence.
  - destruct ent as [e|]; [|rewrite Hobs, Ho; reflexivity].
    destruct e. red_all. gbreak. all: try rewrite Hobs; try rewrite Ho; try reflexivity; try exact I.
Qed.


(* ------------------------------------------------------------------ the headline theorem *)
Lemma R_init : R init_state init_sstate.
Proof. constructor; simpl; auto. repeat constructor. Qed.

Theorem linkage_spec : forall h,
  N.of_nat (length h) < two32 -> known_devs h = false -> specified (LinkSpec.run h) = true ->
  Linkage.run h = LinkSpec.run h.
Proof.
  intros h Hb Hd Hs. unfold Linkage.run, run_events, LinkSpec.run in *. unfold known_devs in Hd.
  pose proof (steps_sim h init_state init_sstate R_init) as H. simpl ms_nextid in H.
  specialize (H Hb Hd).
  destruct (spec_steps init_sstate h) as [s'| |r|].
  - destruct H as (m' & Hm & HR). rewrite Hm. pose proof (finish_sim _ _ HR) as Hf.
    destruct (spec_finish s'); try exact Hf. discriminate Hs.
  - rewrite H. reflexivity.
  - discriminate Hs.
  - rewrite H. reflexivity.
Qed.

(* ------------------------------------------------------------------ the known deviations, kept visible *)
Definition d19_witness : list item :=
  [IDecl (DFunc FSnone true None true); IDecl (DFunc FSextern true None false); IOpen; IUse; IClose].
Definition thread_witness : list item := [IDecl (DObj OSthread None false); IDecl (DObj OSthread None false)].

(* `inline int f(void){..} extern inline int f(void);` - the specification wants an external definition, the model emits none *)
Lemma inline_rule_refuted :
  exists h, N.of_nat (length h) < two32 /\ specified (LinkSpec.run h) = true /\ Linkage.run h <> LinkSpec.run h.
Proof. exists d19_witness. split; [reflexivity|]. split; [reflexivity|]. vm_compute. discriminate. Qed.

(* `_Thread_local int x; _Thread_local int x;` - two definitions of one symbol *)
Lemma thread_tentative_refuted :
  exists h, N.of_nat (length h) < two32 /\ specified (LinkSpec.run h) = true /\ Linkage.run h <> LinkSpec.run h.
Proof. exists thread_witness. split; [reflexivity|]. split; [reflexivity|]. vm_compute. discriminate. Qed.

(* 6.7.4p7 for histories of file-scope function declarations: holds unless a declaration that is not
   `inline`, or is `extern`, follows the body of a so-far-inline definition *)
Definition is_func_decl (it : item) : bool := match it with IDecl (DFunc _ _ _ _) => true | _ => false end.
Fixpoint inline_late_from (s : sstate) (h : list item) : bool :=
  match h with
  | [] => false
  | it :: h' =>
    match it, ss_frames s with
    | IDecl d, _ :: parents => dev_inline_late s (is_nil parents) d
    | _, _ => false
    end || match spec_step s it with SOk s' => inline_late_from s' h' | _ => false end
  end.

Lemma func_devs : forall h s, forallb is_func_decl h = true -> devs_from s h = inline_late_from s h.
Proof.
  induction h as [|it h IH]; intros s Hf; simpl; auto.
  simpl in Hf. apply andb_true_iff in Hf. destruct Hf as [Hi Hf].
  destruct it as [| |[|sc i a b]| |]; try discriminate Hi.
  f_equal.
  - unfold known_dev. destruct (ss_frames s); auto. unfold dev_thread_tentative. simpl. rewrite andb_false_r, orb_false_r. reflexivity.
  - destruct (spec_step s (IDecl (DFunc sc i a b))); auto.
Qed.

Theorem inline_rule_partial : forall h,
  N.of_nat (length h) < two32 -> forallb is_func_decl h = true -> inline_late_from init_sstate h = false ->
  specified (LinkSpec.run h) = true -> Linkage.run h = LinkSpec.run h.
Proof.
  intros h Hb Hf Hd Hs. apply linkage_spec; auto. unfold known_devs. rewrite func_devs; auto.
Qed.

(* ------------------------------------------------------------------ corollaries *)
(* at most one definition of the named symbol *)
Lemma spec_linked_le1 : forall h t, LinkSpec.run h = Accept t -> (length (st_linked t) <= 1)%nat.
Proof.
  intros h t. unfold LinkSpec.run. destruct (spec_steps init_sstate h) as [s| |r|]; try discriminate.
  unfold spec_finish. destruct (ss_frames s) as [|x [|y l]]; try discriminate.
  destruct (ss_ent s) as [e|]; [|intros H; inversion H; simpl; lia].
  destruct (e_kind e), (e_def e), (e_link e), (e_allinline e), (e_anyinline e), (e_used e);
    intros H; inversion H; simpl; lia.
Qed.

Theorem one_definition : forall h t,
  N.of_nat (length h) < two32 -> known_devs h = false -> specified (LinkSpec.run h) = true ->
  Linkage.run h = Accept t -> (length (st_linked t) <= 1)%nat.
Proof.
  intros h t Hb Hd Hs Hr. rewrite (linkage_spec h Hb Hd Hs) in Hr. eapply spec_linked_le1; eauto.
Qed.

(* emittentativedefns: nothing for an object already defined, exactly one definition otherwise *)
Lemma flush_defined : forall n d defs, md_defined d = true -> flush n d defs = Some (d, defs).
Proof. induction n; intros d defs H; simpl; auto. rewrite H. auto. Qed.

Theorem flush_one_definition : forall n d defs d' defs',
  flush n d defs = Some (d', defs') -> md_storage d <> SAuto ->
  (md_defined d = true -> defs' = defs) /\
  (md_defined d = false -> n <> 0%nat -> exists a id t e, defs' = EData a id t e :: defs).
Proof.
  intros n d defs d' defs' H Hs. split.
  - intros Hd. rewrite flush_defined in H by assumption. inversion H; auto.
  - intros Hd Hn. destruct n as [|n]; [congruence|]. simpl in H. rewrite Hd in H.
    unfold defineobj in H.
    destruct (md_storage d) eqn:E; try congruence;
      destruct (md_value d) as [[a id t|]|]; try discriminate;
      rewrite flush_defined in H by reflexivity; inversion H; subst; eauto.
Qed.

(* once an object is (tentatively) defined at file scope the unit ends with exactly one definition of it *)
Definition defd (s : sstate) : Prop :=
  match ss_ent s with Some e => e_kind e = KObj /\ e_def e <> NoDef | None => False end.

Ltac hb H :=
  repeat (simpl in H;
          match type of H with
          | context [match ?x with _ => _ end] => destruct x eqn:?
          | context [if ?x then _ else _] => destruct x eqn:?
          end);
  try discriminate H.

Ltac hb_any :=
  repeat (match goal with
          | H : context [match ?x with _ => _ end] |- _ => destruct x eqn:?; simpl in *; try discriminate
          | H : context [if ?x then _ else _] |- _ => destruct x eqn:?; simpl in *; try discriminate
          | H : _ = _ |- _ => discriminate H
          | H : inr _ = inr _ |- _ => inversion H; clear H; subst
          | H : inl _ = inl _ |- _ => inversion H; clear H; subst
          | H : SOk _ = SOk _ |- _ => inversion H; clear H; subst
          end).

Lemma defd_step : forall s it s', spec_step s it = SOk s' -> defd s -> defd s'.
Proof.
  intros [fr ent anon refs] it s' H Hd. unfold defd in *. simpl in Hd.
  destruct ent as [e|]; [|contradiction]. destruct Hd as [Hk Hn].
  destruct it as [| |d| |]; unfold spec_step, spec_decl, with_sframes in H;
    cbv beta iota zeta delta [ss_frames ss_ent ss_anon ss_refs] in H.
  - hb H; inversion H; subst; simpl; auto.
  - hb H; inversion H; subst; simpl; auto.
  - destruct fr as [|same parents]; [discriminate|].
    destruct (specifier_reject (is_nil parents) d); [discriminate|].
    destruct d as [sc asm init|sc i asm body]; unfold apply_decl, set_frame, redefinition, with_def, with_inline, dspec_kind in H;
      rewrite Hk in H; simpl in H.
    + hb_any; simpl; try (split; [assumption|]; simpl; congruence); auto.
    + hb_any; simpl; try (split; [assumption|]; simpl; congruence); auto.
  - hb H; inversion H; subst; simpl; auto.
  - inversion H; subst; simpl; auto.
Qed.

Lemma defd_steps : forall h s s', spec_steps s h = SOk s' -> defd s -> defd s'.
Proof.
  induction h as [|it h IH]; intros s s' H Hd; simpl in H.
  - inversion H; subst; auto.
  - destruct (spec_step s it) as [s1| | |] eqn:E; try discriminate. eauto using defd_step.
Qed.

Lemma tentative_defd : forall s sc asm s' x,
  spec_step s (IDecl (DObj sc asm false)) = SOk s' -> ss_frames s = [x] -> osc_extern sc = false -> defd s'.
Proof.
  intros [fr ent anon refs] sc asm s' x H Hf He. simpl in Hf. subst fr.
  unfold spec_step, spec_decl in H. cbv beta iota zeta delta [ss_frames ss_ent ss_anon ss_refs] in H.
  unfold decl_linkage, apply_decl, set_frame, new_entity, with_def, dspec_kind in H. simpl in H. rewrite He in H.
  unfold defd.
  hb_any; simpl; try (split; [auto|congruence]).
  all: match goal with H : negb (kind_eqb (e_kind ?e) KObj) = false |- _ => destruct (e_kind e); simpl in *; congruence end.
Qed.

Lemma spec_steps_app : forall h1 h2 s,
  spec_steps s (h1 ++ h2) = match spec_steps s h1 with SOk s1 => spec_steps s1 h2 | r => r end.
Proof.
  induction h1 as [|it h1 IH]; intros h2 s; simpl; auto.
  destruct (spec_step s it); auto.
Qed.

Theorem tentative_one_definition : forall h1 sc asm h2 s1 x t,
  N.of_nat (length (h1 ++ IDecl (DObj sc asm false) :: h2)) < two32 ->
  known_devs (h1 ++ IDecl (DObj sc asm false) :: h2) = false ->
  specified (LinkSpec.run (h1 ++ IDecl (DObj sc asm false) :: h2)) = true ->
  spec_steps init_sstate h1 = SOk s1 -> ss_frames s1 = [x] -> osc_extern sc = false ->
  Linkage.run (h1 ++ IDecl (DObj sc asm false) :: h2) = Accept t ->
  exists d, st_linked t = [d] /\ ld_kind d = KObj.
Proof.
  intros h1 sc asm h2 s1 x t Hb Hd Hs H1 Hx He Hr.
  rewrite (linkage_spec _ Hb Hd Hs) in Hr. unfold LinkSpec.run in Hr.
  rewrite spec_steps_app, H1 in Hr.
  change (spec_steps s1 (IDecl (DObj sc asm false) :: h2))
    with (match spec_step s1 (IDecl (DObj sc asm false)) with SOk s' => spec_steps s' h2 | r => r end) in Hr.
  destruct (spec_step s1 (IDecl (DObj sc asm false))) as [s2| | |] eqn:E2; try discriminate.
  pose proof (tentative_defd _ _ _ _ _ E2 Hx He) as D2.
  destruct (spec_steps s2 h2) as [s3| | |] eqn:E3; try discriminate.
  pose proof (defd_steps _ _ _ E3 D2) as D3. unfold defd in D3.
  unfold spec_finish in Hr. destruct (ss_frames s3) as [|y [|z l]]; try discriminate.
  destruct (ss_ent s3) as [e|]; [|contradiction]. destruct D3 as [K N0]. cbv zeta in Hr. rewrite K in Hr.
  destruct (e_def e); try congruence; inversion Hr; subst; simpl; eexists; split; eauto.
Qed.

(* extern declarations never define *)
Definition extern_only (it : item) : bool :=
  match it with
  | IDecl (DObj sc _ init) => osc_extern sc && negb init
  | IDecl (DFunc sc _ _ body) => fsc_extern sc && negb body
  | _ => true
  end.

Lemma extern_step : forall m it m', step m it = MOk m' -> extern_only it = true ->
  ms_defs m' = ms_defs m /\ ms_tent m' = ms_tent m.
Proof.
  intros m it m' H He. destruct it as [| |[sc asm init|sc i asm body]| |]; simpl in He.
  - unfold step in H. hb H; inversion H; subst; simpl; auto.
  - unfold step in H. hb H; inversion H; subst; simpl; auto.
  - apply andb_true_iff in He. destruct He as [He Hi]. apply negb_true_iff in Hi. subst init.
    unfold step, decl_obj in H. rewrite He in H. hb H; inversion H; subst; simpl; auto.
  - apply andb_true_iff in He. destruct He as [He Hi]. apply negb_true_iff in Hi. subst body.
    unfold step, decl_func in H. hb H; inversion H; subst; simpl; auto.
  - unfold step in H. hb H; inversion H; subst; simpl; auto.
  - unfold step in H. inversion H; subst; simpl; auto.
Qed.

Lemma extern_steps : forall h m m', steps m h = MOk m' -> forallb extern_only h = true ->
  ms_defs m' = ms_defs m /\ ms_tent m' = ms_tent m.
Proof.
  induction h as [|it h IH]; intros m m' H He; simpl in *.
  - inversion H; auto.
  - apply andb_true_iff in He. destruct He as [H1 H2].
    destruct (step m it) as [m1| | |] eqn:E; try discriminate.
    destruct (extern_step _ _ _ E H1) as [A B]. destruct (IH _ _ H H2) as [C D]. split; congruence.
Qed.

Theorem extern_never_defines : forall h t,
  forallb extern_only h = true -> Linkage.run h = Accept t -> st_linked t = [] /\ st_anon t = [].
Proof.
  intros h t He Hr. unfold Linkage.run, run_events in Hr.
  destruct (steps init_state h) as [m| | |] eqn:E; try discriminate.
  destruct (extern_steps _ _ _ E He) as [A B]. simpl in A, B.
  unfold finish in Hr. rewrite A, B in Hr.
  destruct (ms_frames m) as [|[d|] [|y l]]; try discriminate; simpl in Hr; inversion Hr; auto.
Qed.

(* redeclarations inherit the linkage of the prior declaration (decl.c: getlinkage / declcommon) *)
Theorem redecl_inherits : forall parents k asm ex prior d,
  declcommon parents k asm false ex prior = Some d -> ex = true \/ k = KFunc ->
  match prior with
  | Some p => md_link d = md_link p
  | None =>
    match lookup parents with
    | Some p => if link_eqb (md_link p) LNone then md_link d = LExtern else md_link d = md_link p
    | None => md_link d = LExtern
    end
  end.
Proof.
  intros parents k asm ex prior d H Hk.
  assert (Hc : ex || kind_eqb k KFunc = true) by (destruct Hk; subst; [reflexivity|apply orb_true_r]).
  unfold declcommon, getlinkage in H. rewrite Hc in H.
  destruct prior as [p|].
  - hb H; inversion H; reflexivity.
  - destruct (lookup parents) as [p|]; simpl in H.
    + destruct (link_eqb (md_link p) LNone) eqn:E; simpl in H; hb H; inversion H; simpl; auto.
    + hb H; inversion H; simpl; auto.
Qed.

(* ------------------------------------------------------------------ unit-local names are unique *)
(* mkglobal's counter: every number it hands out is larger than all earlier ones, so $.Lname.N names never repeat
   (as long as the 32-bit counter does not wrap: at most two numbers are taken per history item) *)
Definition val_id0 (d : mdecl) : Prop :=
  md_link d <> LNone /\ match md_value d with Some (VGlobal _ id _) => id = 0 | _ => True end.

Definition ids_ok (m : mstate) : Prop :=
  Forall (fun id => id <= ms_nextid m) (local_ids (ms_defs m)) /\
  NoDup (local_ids (ms_defs m)) /\
  match last (ms_frames m) None with Some d => val_id0 d | None => True end.

Lemma declcommon_file_linked : forall k asm st ex prior d,
  declcommon [] k asm st ex prior = Some d -> md_link d <> LNone.
Proof.
  intros k asm st ex prior d H. unfold declcommon, getlinkage in H. simpl in H.
  destruct prior as [p|].
  - hb H; inversion H; subst. destruct (md_link d); simpl in *; congruence.
  - hb H; inversion H; subst; simpl; congruence.
Qed.

Lemma forall_le_mono : forall l a b, a <= b -> Forall (fun id => id <= a) l -> Forall (fun id => id <= b) l.
Proof. intros l a b Hab H. eapply Forall_impl; [|exact H]. simpl. intros; lia. Qed.

Lemma nodup_fresh : forall l n id, Forall (fun x => x <= n) l -> NoDup l -> n < id -> NoDup (id :: l).
Proof.
  intros l n id Hf Hn Hlt. constructor; auto. intros Hin.
  rewrite Forall_forall in Hf. specialize (Hf _ Hin). lia.
Qed.

Ltac hb_all :=
  repeat (match goal with
          | H : _ = _ |- _ => discriminate H
          | H : MOk _ = MOk _ |- _ => inversion H; clear H; subst
          | H : (_, _) = (_, _) |- _ => inversion H; clear H; subst
          | H : Some _ = Some _ |- _ => inversion H; clear H; subst
          | H : context [match ?x with _ => _ end] |- _ => destruct x eqn:?; simpl in *
          | H : context [if ?x then _ else _] |- _ => destruct x eqn:?; simpl in *
          end).

Lemma ids_step : forall m it m', step m it = MOk m' -> ids_ok m -> ms_nextid m + 2 < two32 ->
  ids_ok m' /\ ms_nextid m <= ms_nextid m' <= ms_nextid m + 2.
Proof.
  intros [fr nid tent defs refs crash] it m' H (Hle & Hnd & Hlast) Hb. unfold ids_ok. simpl in *.
  assert (B1 : bump nid = nid + 1) by (unfold bump; rewrite N.mod_small; lia).
  assert (B2 : bump (nid + 1) = nid + 2) by (unfold bump; rewrite N.mod_small; lia).
  destruct it as [| |[sc asm init|sc i asm body]| |].
  - unfold step in H. simpl in H. destruct fr as [|f [|g fr']]; try discriminate; inversion H; subst; simpl.
    + rewrite B1. repeat split; auto; try lia. eapply forall_le_mono; [|eassumption]; lia.
    + repeat split; auto; try lia.
  - unfold step in H. simpl in H.
    destruct fr as [|a [|b [|c [|d fr']]]]; try discriminate.
    + destruct crash; try discriminate. inversion H; subst; simpl in *. repeat split; auto; lia.
    + inversion H; subst. simpl ms_frames. simpl ms_defs. simpl ms_nextid. repeat split; auto; try lia.
  - (* object declaration *)
    unfold step, decl_obj in H. simpl in H.
    destruct fr as [|prior parents]; try discriminate.
    destruct (negb (is_nil parents) && osc_thread_only sc); try discriminate.
    destruct (kind_clash prior KObj); try discriminate.
    destruct (declcommon parents KObj asm (osc_static sc) (osc_extern sc) prior) as [d|] eqn:Ed; try discriminate.
    assert (Hfile : parents = [] -> md_link d <> LNone) by (intros ->; eapply declcommon_file_linked; eauto).
    assert (Hl' : forall d2, parents <> [] ->
              match last (Some d2 :: parents) None with Some d => val_id0 d | None => True end).
    { intros d2 Hp. rewrite last_cons. destruct parents; [congruence|]. simpl is_nil. cbv iota.
      rewrite last_cons in Hlast. simpl is_nil in Hlast. exact Hlast. }
    unfold mkglobal, defineobj, set_cur, set_storage, set_value, set_defined, set_tentative in H.
    destruct parents as [|p ps].
    + (* file scope *)
      specialize (Hfile eq_refl). clear Hl'.
      destruct (md_link d) eqn:EL; [congruence| |];
        simpl in H; hb_all; simpl;
        unfold val_id0; simpl; rewrite ?EL;
        repeat split; auto; try lia; try congruence.
    + specialize (Hl' ).
      assert (Hl2 : forall d2, match last (Some d2 :: p :: ps) None with Some d => val_id0 d | None => True end)
        by (intros; apply Hl'; congruence).
      clear Hfile Hl'.
      simpl in H. hb_all; simpl ms_defs; simpl ms_nextid; simpl ms_frames; simpl local_ids;
        repeat match goal with |- context [N.eqb ?a ?b] => destruct (N.eqb_spec a b) end;
        rewrite ?B1 in *;
        repeat split; auto; try lia;
        try (eapply forall_le_mono; [|eassumption]; lia);
        try (constructor; [lia|eapply forall_le_mono; [|eassumption]; lia]);
        try (eapply nodup_fresh; eauto; lia).
  - (* function declaration *)
    unfold step, decl_func in H. simpl in H.
    destruct fr as [|prior parents]; try discriminate.
    destruct (kind_clash prior KFunc); try discriminate.
    destruct (negb (is_nil parents) && fsc_static sc); try discriminate.
    destruct (declcommon parents KFunc asm (fsc_static sc) (fsc_extern sc) prior) as [d|] eqn:Ed; try discriminate.
    assert (Hfile : parents = [] -> md_link d <> LNone) by (intros ->; eapply declcommon_file_linked; eauto).
    unfold mkglobal, set_cur, set_value, set_defined, set_inlinedefn in H.
    destruct parents as [|p ps].
    + specialize (Hfile eq_refl).
      destruct (md_link d) eqn:EL; [congruence| |];
        simpl in H; hb_all; simpl;
        unfold val_id0; simpl; rewrite ?EL; rewrite ?B1;
        repeat split; auto; try lia; try congruence;
        try (eapply forall_le_mono; [|eassumption]; lia).
    + assert (Hl2 : forall d2, match last (Some d2 :: p :: ps) None with Some d => val_id0 d | None => True end).
      { intros d2. rewrite last_cons. simpl is_nil. cbv iota. rewrite last_cons in Hlast. exact Hlast. }
      clear Hfile.
      simpl in H. hb_all; simpl ms_defs; simpl ms_nextid; simpl ms_frames; simpl local_ids;
        repeat match goal with |- context [N.eqb ?a ?b] => destruct (N.eqb_spec a b) end;
        rewrite ?B1, ?B2 in *;
        repeat split; auto; try lia;
        try (eapply forall_le_mono; [|eassumption]; lia);
        try (constructor; [lia|eapply forall_le_mono; [|eassumption]; lia]);
        try (eapply nodup_fresh; eauto; lia).
  - unfold step in H. simpl in H. hb H; inversion H; subst; simpl; repeat split; auto; lia.
  - unfold step in H. simpl in H. inversion H; subst; simpl. rewrite B1. repeat split; auto; try lia.
    eapply forall_le_mono; [|eassumption]; lia.
Qed.

Lemma ids_steps : forall h m m', steps m h = MOk m' -> ids_ok m ->
  ms_nextid m + 2 * N.of_nat (length h) < two32 -> ids_ok m'.
Proof.
  induction h as [|it h IH]; intros m m' H Hi Hb; simpl in H.
  - inversion H; subst; auto.
  - destruct (step m it) as [m1| | |] eqn:E; try discriminate.
    simpl length in Hb.
    destruct (ids_step _ _ _ E Hi) as [Hi1 Hn1]; [lia|].
    eapply IH; eauto. lia.
Qed.

Lemma local_ids_app : forall a b, local_ids (a ++ b) = local_ids a ++ local_ids b.
Proof.
  induction a as [|[[x|] id t e|[x|] id e] a IH]; intros b; simpl; auto; destruct (N.eqb id 0); simpl; rewrite IH; auto.
Qed.
Lemma local_ids_rev : forall l, local_ids (rev l) = rev (local_ids l).
Proof.
  induction l as [|[[x|] id t e|[x|] id e] l IH]; simpl; auto; rewrite local_ids_app, IH; simpl;
    try destruct (N.eqb id 0); simpl; auto using app_nil_r.
Qed.

Lemma flush_ids : forall n d defs d' defs', val_id0 d -> flush n d defs = Some (d', defs') -> local_ids defs' = local_ids defs.
Proof.
  intros [|n] d defs d' defs' [Hl Hv] H; simpl in H.
  - inversion H; auto.
  - destruct (md_defined d) eqn:Ed.
    + rewrite flush_defined in H by assumption. inversion H; auto.
    + unfold defineobj in H.
      destruct (md_storage d); destruct (md_value d) as [[a id t|]|]; try discriminate;
        rewrite flush_defined in H by reflexivity; inversion H; subst; auto; simpl; destruct a; reflexivity.
Qed.

Theorem local_names_unique : forall h defs refs,
  2 * N.of_nat (length h) < two32 -> run_events h = FAccept defs refs -> NoDup (local_ids defs).
Proof.
  intros h defs refs Hb Hr. unfold run_events in Hr.
  destruct (steps init_state h) as [m| | |] eqn:E; try discriminate.
  assert (H0 : ids_ok init_state) by (unfold ids_ok; simpl; repeat split; auto; constructor).
  pose proof (ids_steps _ _ _ E H0) as (Hle & Hnd & Hlast); [simpl; lia|].
  unfold finish in Hr.
  destruct (ms_frames m) as [|[d|] [|y l]]; try discriminate; simpl in Hlast.
  - destruct (flush (ms_tent m) d (ms_defs m)) as [[d' defs']|] eqn:F; try discriminate.
    inversion Hr; subst. rewrite local_ids_rev. apply NoDup_rev. rewrite (flush_ids _ _ _ _ _ Hlast F). assumption.
  - inversion Hr; subst. rewrite local_ids_rev. apply NoDup_rev. assumption.
Qed.
