(* C09 - simulation relation between Model/Linkage.v and Spec/LinkSpec.v, scope items and uses, proof tactics.
   (part 1 of the proofs about Model/Linkage.v against Spec/LinkSpec.v; split into files so that they build in parallel)

   The main result is a forward simulation: a relation R between the compiler's state (declaration
   records per scope, tentative list, output so far) and the specification's entity-centred state is
   preserved by every history item on which the specification is defined and which is not one of the
   two known deviations; at the end of the unit related states yield the same symbol table. *)
From Coq Require Import List NArith Bool Lia Arith.
From Cproc Require Import Lib.LinkageBase Model.Linkage Spec.LinkSpec.
Import ListNotations.

Local Open Scope N_scope.

(* ------------------------------------------------------------------ list facts *)
Lemma fprior_last : forall A (parents : list (option A)),
  (match parents with [_] => lookup parents | _ => last parents None end) = last parents None.
Proof. intros A [|a [|b c]]; try reflexivity. destruct a; reflexivity. Qed.

Lemma last_cons : forall A (x : A) l d, last (x :: l) d = if is_nil l then x else last l d.
Proof. intros A x [|y l] d; reflexivity. Qed.

Lemma is_nil_true : forall A (l : list A), is_nil l = true -> l = [].
Proof. intros A [|x l]; simpl; congruence. Qed.

(* ------------------------------------------------------------------ the simulation relation *)
Definition tolink (l : slink) : linkage := match l with Internal => LIntern | External => LExtern end.
Definition estorage (e : entity) : storage := if e_thread e then SThread else SStatic.

Definition rel_linked (e : entity) (d : mdecl) : Prop :=
  md_kind d = e_kind e /\ md_link d = tolink (e_link e) /\ md_asm d = e_asm e /\
  md_value d = Some (VGlobal (e_asm e) 0 (e_thread e)) /\ md_storage d = estorage e.

Definition frame_rel (ent : option entity) (md : option mdecl) (v : option vis) : Prop :=
  match md, v with
  | None, None => True
  | Some d, Some VLinked => match ent with Some e => rel_linked e d | None => False end
  | Some d, Some (VLocal t) =>
    md_link d = LNone /\ md_kind d = KObj /\
    match md_value d with Some (VGlobal None id t') => id <> 0 /\ t' = t | _ => False end
  | Some d, Some VAuto => md_link d = LNone /\ md_kind d = KObj /\ md_value d = Some VTemp
  | _, _ => False
  end.

Definition def_rel (e : entity) (d : mdecl) : Prop :=
  match e_kind e, e_thread e, e_def e with
  | KObj, false, NoDef => md_defined d = false /\ md_tentative d = false
  | KObj, false, Tentative => md_defined d = false /\ md_tentative d = true
  | KObj, false, Defined => md_defined d = true
  | KObj, true, NoDef => md_defined d = false /\ md_tentative d = false
  | KObj, true, _ => md_defined d = true /\ md_tentative d = false
  | KFunc, _, NoDef => md_defined d = false /\ md_tentative d = false
  | KFunc, _, Defined => md_defined d = true /\ md_tentative d = false
  | KFunc, _, Tentative => False
  end.

Definition file_rel (ent : option entity) (fd : option mdecl) (tent : nat) : Prop :=
  match fd, ent with
  | Some d, Some e =>
    md_link d <> LNone /\ def_rel e d /\ tent = (if md_tentative d then 1%nat else 0%nat) /\
    (e_kind e = KFunc -> md_inlinedefn d = (slink_eqb (e_link e) External && e_allinline e))
  | None, Some e => e_def e = NoDef /\ e_allinline e = true /\ tent = 0%nat
  | None, None => tent = 0%nat
  | Some _, None => False
  end.

Definition ent_wf (ent : option entity) : Prop :=
  match ent with Some e => e_kind e = KFunc -> e_thread e = false | None => True end.

(* what has been printed about the named symbol so far *)
Definition emitted_now (ent : option entity) : list ldef :=
  match ent with
  | None => []
  | Some e =>
    match e_kind e, e_def e with
    | KObj, Defined => [entity_def e]
    | KObj, Tentative => if e_thread e then [entity_def e] else []
    | KFunc, Defined =>
      match e_link e with
      | Internal => [entity_def e]
      | External => if e_allinline e then [] else [entity_def e]
      end
    | _, _ => []
    end
  end.

Record R (m : mstate) (s : sstate) : Prop := {
  R_frames : Forall2 (frame_rel (ss_ent s)) (ms_frames m) (ss_frames s);
  R_file : file_rel (ss_ent s) (last (ms_frames m) None) (ms_tent m);
  R_wf : ent_wf (ss_ent s);
  R_linked : obs_linked (ms_defs m) = emitted_now (ss_ent s);
  R_anon : obs_anon (ms_defs m) = ss_anon s;
  R_refs : map obs_ref (ms_refs m) = ss_refs s;
  R_crash : ms_crash m = false
}.

Definition stable (ent ent' : option entity) : Prop :=
  match ent, ent' with
  | None, _ => True
  | Some e, Some e' => e_kind e' = e_kind e /\ e_link e' = e_link e /\ e_asm e' = e_asm e /\ e_thread e' = e_thread e
  | Some _, None => False
  end.

Lemma frame_rel_stable : forall ent ent' md v, stable ent ent' -> frame_rel ent md v -> frame_rel ent' md v.
Proof.
  intros ent ent' [d|] [[|t|]|]; simpl; auto.
  destruct ent as [e|]; [|tauto]. destruct ent' as [e'|]; simpl; [|tauto].
  unfold rel_linked, estorage. intros (A & B & C & D) (E & F & G & H & I). rewrite A, B, C, D. auto.
Qed.

Lemma frames_stable : forall ent ent' mf sf, stable ent ent' ->
  Forall2 (frame_rel ent) mf sf -> Forall2 (frame_rel ent') mf sf.
Proof. intros ent ent' mf sf S H. induction H; constructor; eauto using frame_rel_stable. Qed.

Lemma stable_refl : forall ent, stable ent ent.
Proof. intros [e|]; simpl; auto. Qed.

Lemma lookup_rel : forall ent mf sf, Forall2 (frame_rel ent) mf sf -> frame_rel ent (lookup mf) (lookup sf).
Proof.
  intros ent mf sf H. induction H; simpl; auto.
  destruct x as [d|], y as [v|]; simpl in *; auto; try tauto.
Qed.

Lemma last_rel : forall ent mf sf, Forall2 (frame_rel ent) mf sf -> frame_rel ent (last mf None) (last sf None).
Proof.
  intros ent mf sf H. induction H; simpl; auto.
  destruct l as [|a l]; inversion H0; subst; auto.
Qed.

Lemma forall2_nil : forall ent mf sf, Forall2 (frame_rel ent) mf sf -> is_nil mf = is_nil sf.
Proof. intros ent mf sf H; inversion H; reflexivity. Qed.

(* ------------------------------------------------------------------ scope items and uses *)
Lemma bump_small : forall n, n + 1 < two32 -> bump n = n + 1 /\ bump n <> 0.
Proof.
  intros n H. unfold bump. rewrite N.mod_small by exact H. split; [reflexivity|lia].
Qed.

Definition sim_goal (m : mstate) (s : sstate) (it : item) : Prop :=
  match spec_step s it with
  | SOk s' => exists m', step m it = MOk m' /\ R m' s' /\ (ms_nextid m <= ms_nextid m' <= ms_nextid m + 1)
  | SReject => step m it = MReject
  | SUnspec _ => True
  | SIll => step m it = MIll
  end.

Lemma open_sim : forall m s, R m s -> ms_nextid m + 1 < two32 -> sim_goal m s IOpen.
Proof.
  intros [mf nid tent defs refs crash] [sf ent anon srefs] [Hf Hl Hw Ho Ha Hr Hc] Hb; simpl in *.
  unfold sim_goal; simpl.
  destruct (bump_small _ Hb) as [Hb1 _].
  inversion Hf as [|x y mf' sf' Hxy Hrest]; subst; simpl; [reflexivity|].
  inversion Hrest as [|x2 y2 mf2 sf2 Hxy2 Hrest2]; subst; simpl.
  - eexists; split; [reflexivity|]. split; [|simpl; rewrite Hb1; lia].
    constructor; simpl; auto. repeat constructor; auto.
  - eexists; split; [reflexivity|]. split; [|simpl; lia].
    constructor; simpl; auto. constructor; simpl; auto.
Qed.

Lemma close_sim : forall m s, R m s -> sim_goal m s IClose.
Proof.
  intros [mf nid tent defs refs crash] [sf ent anon srefs] [Hf Hl Hw Ho Ha Hr Hc]; simpl in *.
  unfold sim_goal; simpl. subst crash.
  inversion Hf as [|x1 y1 m1 s1 H1 R1]; subst; simpl; [reflexivity|].
  inversion R1 as [|x2 y2 m2 s2 H2 R2]; subst; simpl; [reflexivity|].
  inversion R2 as [|x3 y3 m3 s3 H3 R3]; subst; simpl; [reflexivity|].
  inversion R3 as [|x4 y4 m4 s4 H4 R4]; subst; simpl.
  - eexists; split; [reflexivity|]. split; [|simpl; lia]. constructor; simpl; auto.
  - eexists; split; [reflexivity|]. split; [|simpl; lia]. constructor; simpl; auto.
Qed.

Lemma bump_sim : forall m s, R m s -> ms_nextid m + 1 < two32 -> sim_goal m s IBump.
Proof.
  intros [mf nid tent defs refs crash] [sf ent anon srefs] [Hf Hl Hw Ho Ha Hr Hc] Hb; simpl in *.
  unfold sim_goal; simpl. destruct (bump_small _ Hb) as [Hb1 _].
  eexists; split; [reflexivity|]. split; [|simpl; rewrite Hb1; lia]. constructor; simpl; auto.
Qed.

Lemma use_sim : forall m s, R m s -> sim_goal m s IUse.
Proof.
  intros [mf nid tent defs refs crash] [sf ent anon srefs] [Hf Hl Hw Ho Ha Hr Hc]; simpl in *.
  unfold sim_goal, spec_step, step; cbv beta iota zeta delta [ss_frames ms_frames ss_ent ss_anon ss_refs ms_nextid ms_tent ms_defs ms_refs ms_crash].
  pose proof (lookup_rel _ _ _ Hf) as Hlk.
  inversion Hf as [|x1 y1 m1 s1 H1 R1]; subst; [reflexivity|].
  inversion R1 as [|x2 y2 m2 s2 H2 R2]; subst; [reflexivity|].
  remember (x1 :: x2 :: m2) as mf. remember (y1 :: y2 :: s2) as sf.
  clear Heqmf Heqsf H1 H2 R1 R2.
  destruct (lookup mf) as [d|], (lookup sf) as [[|t|]|]; simpl in Hlk; try tauto; try reflexivity.
  - (* linked *)
    destruct ent as [e|]; [|tauto]. destruct Hlk as (K & L & A & V & S). rewrite V.
    eexists; split; [reflexivity|]. split; [|simpl; lia].
    constructor; simpl; auto.
  - (* block-scope static *)
    destruct Hlk as (L & K & V). destruct (md_value d) as [[[a|] id t'|]|]; try tauto. destruct V as [Hid ->].
    eexists; split; [reflexivity|]. split; [|simpl; lia].
    constructor; simpl; auto. destruct (N.eqb_spec id 0); [tauto|reflexivity].
  - (* automatic *)
    destruct Hlk as (L & K & V). rewrite V.
    eexists; split; [reflexivity|]. split; [|simpl; lia].
    constructor; simpl; auto.
Qed.

(* ------------------------------------------------------------------ declarations *)
(* how a declaration step re-establishes R: everything about the untouched parent scopes is packed here *)
Definition intro_stmt (b : bool) (mfil : option mdecl) (ent : option entity) (mpar : list (option mdecl))
           (spar : list (option vis)) (refs : list mref) : Prop :=
  forall ent' d' v nid' tent' defs' anon',
    stable ent ent' ->
    frame_rel ent' (Some d') (Some v) ->
    file_rel ent' (if b then Some d' else mfil) tent' ->
    ent_wf ent' -> obs_linked defs' = emitted_now ent' -> obs_anon defs' = anon' ->
    R {| ms_frames := Some d' :: mpar; ms_nextid := nid'; ms_tent := tent'; ms_defs := defs'; ms_refs := refs; ms_crash := false |}
      {| ss_frames := Some v :: spar; ss_ent := ent'; ss_anon := anon'; ss_refs := map obs_ref refs |}.

Lemma intro_stmt_holds : forall ent mpar spar refs,
  Forall2 (frame_rel ent) mpar spar -> intro_stmt (is_nil mpar) (last mpar None) ent mpar spar refs.
Proof.
  intros ent mpar spar refs Hpar ent' d' v nid' tent' defs' anon' Hs Hfr Hfile Hw Ho Ha.
  constructor; unfold ms_frames, ss_frames, ss_ent, ms_tent, ms_defs, ms_refs, ss_anon, ss_refs, ms_crash; auto.
  - constructor; auto. eapply frames_stable; eauto.
  - rewrite last_cons. assumption.
Qed.

Ltac red_all :=
  cbv beta iota zeta delta [md_kind md_link md_defined md_tentative md_inlinedefn md_storage md_asm md_value
                            e_link e_kind e_def e_allinline e_anyinline e_thread e_asm e_used
                            ss_frames ss_ent ss_anon ss_refs fst snd] in *.

Ltac unfold_all :=
  unfold rel_linked, def_rel, estorage, frame_rel, file_rel, ent_wf, emitted_now, entity_def, stable,
         specifier_reject, decl_linkage, inherit, apply_decl, redefinition, new_entity, with_def, with_inline, set_frame,
         dspec_kind, dspec_asm, dspec_thread, dev_inline_late, dev_thread_tentative,
         getlinkage, asm_clash, kind_clash, mkglobal, defineobj, mkdecl, set_storage, set_value, set_defined, set_tentative,
         set_inlinedefn, set_cur, tolink, symname_of,
         osc_static, osc_extern, osc_thread, osc_thread_only, fsc_static, fsc_extern,
         slink_eqb, kind_eqb, link_eqb, storage_eqb, Bool.eqb, optN_eqb, negb, andb, orb in *.

(* goal-directed case analysis: only what blocks reduction of the goal is destructed; hypotheses prune *)
Ltac gbreak_step :=
  match goal with
  | H : False |- _ => contradiction
  | H : True |- _ => clear H
  | H : _ /\ _ |- _ => destruct H
  | H : ?a = ?a |- _ => clear H
  | H : ?a = ?a -> _ |- _ => specialize (H eq_refl)
  | H : KObj = KFunc -> _ |- _ => clear H
  | H : KFunc = KObj -> _ |- _ => clear H
  | H : ?a = ?b |- _ => first [discriminate H | (is_var a; subst a) | (is_var b; subst b) | (injection H; clear H; intros)]
  | H : ?a <> ?a |- _ => contradiction H; reflexivity
  | H : ?a <> ?b, H' : ?a = ?b |- _ => contradiction
  | |- context [N.eqb ?a ?b] => destruct (N.eqb_spec a b)
  | |- context [match ?x with _ => _ end] => is_var x; destruct x
  | |- context [if ?x then _ else _] => is_var x; destruct x
  end.
Ltac gbreak := repeat (red_all; gbreak_step).

Ltac hbreak_step :=
  match goal with
  | H : context [match ?x with _ => _ end] |- _ => is_var x; destruct x
  | H : context [if ?x then _ else _] |- _ => is_var x; destruct x
  end.
Ltac solve_prem := repeat split; intros; try reflexivity; try assumption; try congruence; try tauto; try lia.
Ltac finish_prem :=
  simpl; do 3 unfold_all; gbreak; simpl in *;
  repeat match goal with H : obs_linked _ = _ |- _ => rewrite H end;
  solve_prem; try (repeat (hbreak_step; gbreak); solve_prem).

Ltac leaf1 Hintro :=
  first
    [ reflexivity
    | exact I
    | (eexists; split; [reflexivity|]; split; [apply Hintro; finish_prem | simpl; lia]) ].
(* last resort: case analysis driven by the hypotheses (they must be contradictory) *)
Ltac leaf Hintro :=
  first [ leaf1 Hintro | (hbreak_step; gbreak; leaf Hintro) ].

