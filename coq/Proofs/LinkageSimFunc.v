(* C09 - simulation step for function declarations (decl.c: decl(), case DECLFUNC). *)
From Coq Require Import List NArith Bool Lia Arith.
From Cproc Require Import Lib.LinkageBase Model.Linkage Spec.LinkSpec Proofs.LinkageSim.
Import ListNotations.
Local Open Scope N_scope.

Lemma decl_func_sim : forall m s sc isinl asm body, R m s -> ms_nextid m + 1 < two32 ->
  known_dev s (IDecl (DFunc sc isinl asm body)) = false -> sim_goal m s (IDecl (DFunc sc isinl asm body)).
Proof.
  intros [mf nid tent defs refs crash] [sf ent anon srefs] sc isinl asm body [Hf Hl Hw Ho Ha Hr Hc] Hb Hdev; simpl in *.
  destruct (bump_small _ Hb) as [Hb1 Hb2].
  inversion Hf as [|msame ssame mpar spar Hsame Hpar]; subst; [reflexivity|].
  pose proof (lookup_rel _ _ _ Hpar) as Hvis. pose proof (last_rel _ _ _ Hpar) as Hfil.
  pose proof (forall2_nil _ _ _ Hpar) as Hnil.
  pose proof (intro_stmt_holds _ _ _ refs Hpar) as Hintro.
  rewrite last_cons in Hl.
  unfold sim_goal, spec_step, step, spec_decl, decl_obj, decl_func, declcommon, known_dev in *.
  cbv beta iota zeta delta [ss_frames ms_frames ss_ent ss_anon ss_refs ms_nextid ms_tent ms_defs ms_refs ms_crash] in *.
  unfold label_ok, decl_linkage, inherit. cbv beta iota zeta delta [ss_frames ss_ent].
  change (lookup (ssame :: spar)) with (match ssame with Some d => Some d | None => lookup spar end).
  rewrite fprior_last. rewrite last_cons. rewrite <- Hnil in *.
  assert (Hnv : is_nil mpar = true -> lookup mpar = None /\ last mpar None = None /\ lookup spar = None /\ last spar None = None).
  { intros Hn. rewrite Hn in Hnil. apply is_nil_true in Hn. symmetry in Hnil. apply is_nil_true in Hnil. subst. auto. }
  remember (lookup mpar) as mvis. remember (lookup spar) as svis.
  remember (last mpar None) as mfil. remember (last spar None) as sfil.
  remember (is_nil mpar) as b.
  clear Heqmvis Heqsvis Heqmfil Heqsfil Heqb Hnil Hpar Hf.
  do 3 unfold_all.
  destruct b; [destruct Hnv as (-> & -> & -> & ->); [reflexivity|]; clear Hvis Hfil | clear Hnv].
  - gbreak. all: leaf Hintro.
  - gbreak. all: leaf Hintro.
Qed.

