(* C14: the literal pipeline (Model/Literal.v) against C11 6.4.4.4 / 6.4.5 (Spec/Unicode.v). *)
From Coq Require Import NArith ZArith Arith List Bool Lia.
From Cproc Require Import Lib.UtfSweep Spec.Unicode Spec.CLiteral Model.Utf Model.Literal Proofs.UtfCheck Proofs.UtfProofs.
Import ListNotations.
Open Scope N_scope.

(* ------------------------------------------------------------------ small facts *)
Lemma land_mask32 x : N.land x 0xffffffff = x mod M32.
Proof. change 0xffffffff with (N.ones 32). rewrite N.land_ones. reflexivity. Qed.
Lemma land_mask16 x : N.land x 0xffff = x mod 65536.
Proof. change 0xffff with (N.ones 16). rewrite N.land_ones. reflexivity. Qed.
Lemma land_mask8 x : N.land x 0xff = x mod 256.
Proof. change 0xff with (N.ones 8). rewrite N.land_ones. reflexivity. Qed.

Lemma eqb_false_of_ne a b : a <> b -> (a =? b) = false.
Proof. intros H. apply N.eqb_neq, H. Qed.

(* the first byte of the UTF-8 form of c is c itself (ASCII) or at least 0xC0 *)
Lemma utf8_head c : exists b t, utf8 c = b :: t /\ (b < 0x80 -> b = c) /\ (0x80 <= c -> 0xC0 <= b).
Proof.
  unfold utf8. destruct (c <? 128) eqn:E1; [|destruct (c <? 2048) eqn:E2; [|destruct (c <? 65536) eqn:E3]];
    eexists; eexists; (split; [reflexivity|]); rewrite ?N.ltb_lt, ?N.ltb_ge in *;
    repeat match goal with |- context [?a / ?b] => generalize (a / b); intros ? end; split; intros; lia.
Qed.

Lemma utf8_length c : scalar c -> length (utf8 c) = N.to_nat (utf8_len c).
Proof.
  intros H. destruct (cp_facts c H) as (_ & L & _). rewrite <- L. rewrite Nat2N.id. reflexivity.
Qed.

Lemma skipn_app_exact {A} (a b : list A) : skipn (length a) (a ++ b) = b.
Proof. induction a; simpl; auto. Qed.

(* ------------------------------------------------------------------ decodechar, item by item *)
Lemma decodechar_char c r : scalar c -> c <> 92 -> decodechar (utf8 c ++ r) = DOk c false r.
Proof.
  intros Hs Hn. destruct (utf8_head c) as (b & t & E & Hlo & Hhi).
  assert (Hb : (b =? 92) = false).
  { apply N.eqb_neq. intros ->. destruct (N.lt_ge_cases c 0x80); [apply Hn; symmetry; apply Hlo; lia|].
    specialize (Hhi H). lia. }
  pose proof (utf8dec_app (utf8 c) r c (utf8_len c) (utf8_roundtrip c Hs)) as D.
  rewrite E in *. simpl app in *. unfold decodechar. rewrite Hb. rewrite D.
  f_equal. rewrite <- (utf8_length c Hs). rewrite E.
  change (b :: t ++ r) with ((b :: t) ++ r). apply skipn_app_exact.
Qed.

Lemma simple_cases e v : simple_value e = Some v ->
  (e = 39 /\ v = 39) \/ (e = 34 /\ v = 34) \/ (e = 63 /\ v = 63) \/ (e = 92 /\ v = 92) \/
  (e = 97 /\ v = 7) \/ (e = 98 /\ v = 8) \/ (e = 102 /\ v = 12) \/ (e = 110 /\ v = 10) \/
  (e = 114 /\ v = 13) \/ (e = 116 /\ v = 9) \/ (e = 118 /\ v = 11).
Proof.
  unfold simple_value.
  repeat match goal with
  | |- context [if ?a =? ?b then _ else _] =>
      let E := fresh "E" in let H := fresh "H" in
      destruct (a =? b) eqn:E; [apply N.eqb_eq in E; intros H; inversion H; subst; tauto|]
  end.
  discriminate.
Qed.

Lemma decodechar_simple e v r : simple_value e = Some v -> decodechar (92 :: e :: r) = DOk v false r.
Proof.
  intros H. pose proof (simple_cases e v H) as C.
  repeat (destruct C as [[-> ->]|C]; [reflexivity|]). destruct C as [-> ->]. reflexivity.
Qed.

Lemma octdigit_model d : octdigit d <> None -> isodigit d = true /\ octdigit d = Some (d - 48) /\ 48 <= d <= 55.
Proof.
  unfold octdigit, isodigit, between. destruct ((48 <=? d) && (d <=? 55)) eqn:E; [|congruence].
  intros _. apply andb_true_iff in E. rewrite !N.leb_le in E. auto.
Qed.

Lemma octdigit_none d : octdigit d = None -> isodigit d = false.
Proof. unfold octdigit, isodigit, between. destruct ((48 <=? d) && (d <=? 55)); [discriminate|auto]. Qed.

Lemma hexdigit_model d : hexdigit d <> None -> isxdigit d = true /\ hexdigit d = Some (hexval d) /\ hexval d < 16.
Proof.
  unfold hexdigit, isxdigit, isdigit, hexval, tolower, between.
  destruct ((48 <=? d) && (d <=? 57)) eqn:E1.
  - intros _. apply andb_true_iff in E1. rewrite !N.leb_le in E1.
    assert (F : (57 <? d) = false) by (apply N.ltb_ge; lia). rewrite F. cbn [orb]; cbv iota. repeat split; auto. lia.
  - destruct ((97 <=? d) && (d <=? 102)) eqn:E2.
    + intros _. apply andb_true_iff in E2. rewrite !N.leb_le in E2.
      assert (F : (57 <? d) = true) by (apply N.ltb_lt; lia). rewrite F.
      assert (G : ((65 <=? d) && (d <=? 90)) = false).
      { apply andb_false_iff. right. apply N.leb_gt. lia. }
      rewrite G. cbn [orb]; cbv iota. repeat split; auto; [f_equal; lia | lia].
    + destruct ((65 <=? d) && (d <=? 70)) eqn:E3; [|congruence].
      intros _. apply andb_true_iff in E3. rewrite !N.leb_le in E3.
      assert (F : (57 <? d) = true) by (apply N.ltb_lt; lia). rewrite F.
      assert (G : ((65 <=? d) && (d <=? 90)) = true).
      { apply andb_true_iff. rewrite !N.leb_le. lia. }
      rewrite G. cbn [orb]; cbv iota. repeat split; auto; [f_equal; lia | lia].
Qed.

Lemma hexdigit_none d : hexdigit d = None -> isxdigit d = false.
Proof.
  unfold hexdigit, isxdigit, isdigit, between.
  destruct ((48 <=? d) && (d <=? 57)); [discriminate|].
  destruct ((97 <=? d) && (d <=? 102)); [discriminate|].
  destruct ((65 <=? d) && (d <=? 70)); [discriminate|auto].
Qed.

(* an octal digit is none of the characters tested before it in decodechar's switch *)
Lemma decodechar_oct_entry e s2 : 48 <= e <= 55 ->
  decodechar (92 :: e :: s2) = let (c, r) := octloop 3 0 (e :: s2) in DOk c true r.
Proof.
  intros H. unfold decodechar. rewrite N.eqb_refl.
  rewrite !(eqb_false_of_ne e) by lia. simpl orb. cbv iota.
  assert (I : isodigit e = true) by (unfold isodigit; apply andb_true_iff; rewrite !N.leb_le; lia).
  rewrite I. reflexivity.
Qed.

Lemma next_not_oct (next : list N) :
  match next with d :: _ => octdigit d = None | [] => True end ->
  forall f c, octloop f c next = (c, next).
Proof.
  intros H f c. destruct f; [reflexivity|]. destruct next as [|d n]; [reflexivity|].
  simpl. rewrite (octdigit_none d H). reflexivity.
Qed.

Lemma octloop_step f c d s : isodigit d = true ->
  octloop (S f) c (d :: s) = octloop f (N.land (c * 8 + (d - 48)) 0xffffffff) s.
Proof. intros H. simpl. rewrite H. reflexivity. Qed.

Lemma decodechar_oct ds next : (1 <= length ds <= 3)%nat -> Forall (fun d => octdigit d <> None) ds ->
  ((length ds < 3)%nat -> match next with d :: _ => octdigit d = None | [] => True end) ->
  decodechar (92 :: ds ++ next) = DOk (digits_value 8 octdigit ds) true next.
Proof.
  intros L F NE.
  destruct ds as [|d1 [|d2 [|d3 [|? ?]]]]; simpl in L; try lia.
  - inversion F as [|? ? F1 _]; subst. destruct (octdigit_model d1 F1) as (I1 & V1 & R1).
    simpl app. rewrite decodechar_oct_entry by assumption.
    rewrite octloop_step by assumption. rewrite (next_not_oct next) by (apply NE; simpl; lia).
    unfold digits_value. simpl. rewrite V1. f_equal. rewrite land_mask32. apply N.mod_small. unfold M32. lia.
  - inversion F as [|? ? F1 F']; subst. inversion F' as [|? ? F2 _]; subst.
    destruct (octdigit_model d1 F1) as (I1 & V1 & R1). destruct (octdigit_model d2 F2) as (I2 & V2 & R2).
    simpl app. rewrite decodechar_oct_entry by assumption.
    rewrite !octloop_step by assumption. rewrite (next_not_oct next) by (apply NE; simpl; lia).
    unfold digits_value. simpl fold_left. rewrite V1, V2. f_equal.
    rewrite !land_mask32. rewrite (N.mod_small (0 * 8 + (d1 - 48))) by (unfold M32; lia).
    apply N.mod_small. unfold M32. lia.
  - inversion F as [|? ? F1 F']; subst. inversion F' as [|? ? F2 F'']; subst. inversion F'' as [|? ? F3 _]; subst.
    destruct (octdigit_model d1 F1) as (I1 & V1 & R1). destruct (octdigit_model d2 F2) as (I2 & V2 & R2).
    destruct (octdigit_model d3 F3) as (I3 & V3 & R3).
    simpl app. rewrite decodechar_oct_entry by assumption.
    rewrite !octloop_step by assumption. change (octloop 0 ?c next) with (c, next). cbv beta iota.
    unfold digits_value. simpl fold_left. rewrite V1, V2, V3. f_equal.
    rewrite !land_mask32. rewrite (N.mod_small (0 * 8 + (d1 - 48))) by (unfold M32; lia).
    rewrite (N.mod_small ((0 * 8 + (d1 - 48)) * 8 + (d2 - 48))) by (unfold M32; lia).
    apply N.mod_small. unfold M32. lia.
Qed.

(* hexadecimal: any number of digits, accumulated mod 2^32 *)
Definition hex_step (a d : N) : N := a * 16 + match hexdigit d with Some v => v | None => 0 end.

Lemma hexloop_spec ds : forall c next, Forall (fun d => hexdigit d <> None) ds ->
  match next with d :: _ => hexdigit d = None | [] => True end ->
  hexloop c (ds ++ next) = (fold_left (fun a d => (hex_step a d) mod M32) ds c, next).
Proof.
  induction ds as [|d ds IH]; intros c next F NE.
  - simpl. destruct next as [|d n]; [reflexivity|]. simpl. rewrite (hexdigit_none d NE). reflexivity.
  - inversion F as [|? ? F1 F']; subst. destruct (hexdigit_model d F1) as (I & V & _).
    change ((d :: ds) ++ next) with (d :: ds ++ next). cbn [hexloop fold_left]. rewrite I.
    assert (Q : N.land (c * 16 + hexval d) 0xffffffff = hex_step c d mod M32)
      by (unfold hex_step; rewrite V, land_mask32; reflexivity).
    rewrite Q. apply IH; assumption.
Qed.

Lemma fold_mod ds : forall c, fold_left (fun a d => (hex_step a d) mod M32) ds (c mod M32) = (fold_left hex_step ds c) mod M32.
Proof.
  induction ds as [|d ds IH]; intros c; simpl.
  - reflexivity.
  - rewrite <- IH. f_equal. unfold hex_step.
    rewrite (N.add_mod (c mod M32 * 16)), (N.mul_mod (c mod M32)), N.mod_mod by (unfold M32; lia).
    rewrite <- N.mul_mod, <- N.add_mod by (unfold M32; lia). reflexivity.
Qed.

Lemma decodechar_hex ds next : (1 <= length ds)%nat -> Forall (fun d => hexdigit d <> None) ds ->
  match next with d :: _ => hexdigit d = None | [] => True end ->
  decodechar (92 :: 120 :: ds ++ next) = DOk (digits_value 16 hexdigit ds mod M32) true next.
Proof.
  intros L F NE. destruct ds as [|d ds]; [simpl in L; lia|].
  pose proof F as F0. inversion F as [|? ? F1 _]; subst. destruct (hexdigit_model d F1) as (I & _).
  unfold decodechar. simpl app. cbv beta iota. change (92 =? 92) with true. cbv iota.
  change ((120 =? 39) || (120 =? 34) || (120 =? 63) || (120 =? 92)) with false.
  change (120 =? 97) with false. change (120 =? 98) with false. change (120 =? 102) with false.
  change (120 =? 110) with false. change (120 =? 114) with false. change (120 =? 116) with false.
  change (120 =? 118) with false. change (120 =? 120) with true. cbv iota.
  rewrite I. change (d :: ds ++ next) with ((d :: ds) ++ next).
  rewrite (hexloop_spec (d :: ds) 0 next F0 NE).
  change 0 with (0 mod M32) at 1. rewrite fold_mod. reflexivity.
Qed.

(* ------------------------------------------------------------------ escape_value: one item, any continuation *)
Definition item_hexoct (it : item) : bool := is_escape_num it.

Theorem escape_value q it next : item_wf q it -> no_extend it next ->
  decodechar (render it ++ next) = DOk (item_value it mod M32) (item_hexoct it) next.
Proof.
  destruct it as [c|e|ds|ds]; intros W NE; cbn [render item_value item_hexoct is_escape_num app] in *; simpl in W.
  - destruct W as (S & _ & N92 & _). rewrite decodechar_char by assumption.
    f_equal. symmetry. apply N.mod_small. pose proof (scalar_lt c S). unfold M32. lia.
  - destruct (simple_value e) as [v|] eqn:E; [|congruence].
    rewrite (decodechar_simple e v next E). f_equal. symmetry. apply N.mod_small.
    pose proof (simple_cases e v E) as C.
    repeat (destruct C as [[_ ->]|C]; [unfold M32; lia|]). destruct C as [_ ->]. unfold M32; lia.
  - destruct W as (L & F). rewrite (decodechar_oct ds next L F NE). f_equal. symmetry. apply N.mod_small.
    (* at most three octal digits: below 512 *)
    destruct ds as [|d1 [|d2 [|d3 [|? ?]]]]; simpl in L; try lia;
      repeat match goal with H : Forall _ (_ :: _) |- _ => inversion H; subst; clear H end;
      repeat match goal with H : octdigit ?d <> None |- _ => destruct (octdigit_model d H) as (_ & ?V & ?R); clear H end;
      unfold digits_value; simpl; rewrite ?V, ?V0, ?V1; unfold M32; lia.
  - destruct W as (L & F). rewrite (decodechar_hex ds next L F NE). reflexivity.
Qed.

(* ------------------------------------------------------------------ encodechar on one item *)
Definition width_ok (w : N) : Prop := w = 1 \/ w = 2 \/ w = 4.

Lemma width_of_type tg k : width_ok (ctype_size (kind_type tg k)).
Proof. unfold width_ok. destruct k; simpl; auto. destruct (wchar tg); simpl; auto. Qed.

Lemma small_utf8 v : v < 0x80 -> utf8 v = [v].
Proof. intros H. unfold utf8. apply N.ltb_lt in H. rewrite H. reflexivity. Qed.
Lemma small_utf16 v : v < 0x10000 -> utf16 v = [v].
Proof. intros H. unfold utf16. apply N.ltb_lt in H. rewrite H. reflexivity. Qed.
Lemma small_scalar v : v < 0xD800 -> scalar v.
Proof. unfold scalar. lia. Qed.

Lemma encoder_scalar w c : width_ok w -> scalar c -> encoder w c false = Enc (encode w c).
Proof.
  intros [->|[->| ->]] H; unfold encoder, encode; simpl.
  - unfold encodechar8. simpl. apply utf8enc_spec, H.
  - unfold encodechar16. simpl. apply utf16enc_spec, H.
  - reflexivity.
Qed.

Lemma encoder_small w v : width_ok w -> v < 0x80 -> encoder w v false = Enc [v].
Proof.
  intros W H. rewrite encoder_scalar by (auto; apply small_scalar; lia).
  destruct W as [->|[->| ->]]; unfold encode; simpl; [rewrite small_utf8|rewrite small_utf16|]; auto; lia.
Qed.

Lemma encoder_hexoct w v : width_ok w -> v < 2 ^ (8 * w) -> encoder w (v mod M32) true = Enc [v].
Proof.
  intros [->|[->| ->]] H; unfold encoder; simpl in *.
  - unfold encodechar8. simpl. rewrite land_mask8. rewrite (N.mod_small v M32) by (unfold M32; lia).
    rewrite N.mod_small by lia. reflexivity.
  - unfold encodechar16. simpl. rewrite land_mask16. rewrite (N.mod_small v M32) by (unfold M32; lia).
    rewrite N.mod_small by lia. reflexivity.
  - unfold encodechar32. rewrite N.mod_small by (unfold M32; lia). reflexivity.
Qed.

Lemma simple_value_small e v : simple_value e = Some v -> v < 0x80.
Proof.
  intros H. pose proof (simple_cases e v H) as C.
  repeat (destruct C as [[_ ->]|C]; [lia|]). destruct C as [_ ->]. lia.
Qed.

Lemma encoder_item q w it : width_ok w -> item_wf q it -> in_range w it ->
  encoder w (item_value it mod M32) (item_hexoct it) = Enc (item_elements w it).
Proof.
  intros W Hwf Hr. destruct it as [c|e|ds|ds]; cbn [item_value item_hexoct is_escape_num item_elements] in *.
  - destruct Hwf as (S & _). rewrite N.mod_small by (pose proof (scalar_lt c S); unfold M32; lia).
    apply encoder_scalar; assumption.
  - simpl in Hwf. destruct (simple_value e) as [v|] eqn:E; [|congruence].
    pose proof (simple_value_small e v E). rewrite N.mod_small by (unfold M32; lia).
    apply encoder_small; assumption.
  - apply encoder_hexoct; auto.
  - apply encoder_hexoct; auto.
Qed.

(* ------------------------------------------------------------------ one token body *)
Definition quote (q : N) : Prop := q = 34 \/ q = 39.

Lemma render_head q it : quote q -> item_wf q it -> exists b t, render it = b :: t /\ b <> q.
Proof.
  intros Hq. destruct it as [c|e|ds|ds]; simpl; intros W.
  - destruct W as (S & Nq & N92 & _). destruct (utf8_head c) as (b & t & E & Hlo & Hhi).
    exists b, t. split; [assumption|]. intros ->.
    destruct (N.lt_ge_cases c 0x80) as [L|G].
    + rewrite small_utf8 in E by assumption. inversion E; subst. apply Nq. reflexivity.
    + specialize (Hhi G). destruct Hq; lia.
  - exists 92, [e]. split; [reflexivity|]. destruct Hq; lia.
  - exists 92, ds. split; [reflexivity|]. destruct Hq; lia.
  - exists 92, (120 :: ds). split; [reflexivity|]. destruct Hq; lia.
Qed.

Lemma no_extend_head it a b : hd_error a = hd_error b -> no_extend it a -> no_extend it b.
Proof.
  destruct it; simpl; auto; destruct a, b; simpl; intros H; try discriminate; auto; inversion H; subst; auto.
Qed.

Lemma hd_error_app_tail (a : list N) x r1 r2 : hd_error (a ++ x :: r1) = hd_error (a ++ x :: r2).
Proof. destruct a; reflexivity. Qed.

Lemma decode_part_items w its : width_ok w -> forall fuel rest,
  items_wf 34 its -> Forall (in_range w) its -> (length (render_items its) < fuel)%nat ->
  decode_part fuel (encoder w) (render_items its ++ 34 :: rest) = POk (concat (map (item_elements w) its)).
Proof.
  intros W. induction its as [|it r IH]; intros fuel rest Hwf Hr Hf.
  - destruct fuel; [simpl in Hf; lia|]. reflexivity.
  - destruct Hwf as (Wi & NE & Wr). inversion Hr as [|? ? Ri Rr]; subst.
    destruct fuel as [|f]; [simpl in Hf; lia|].
    destruct (render_head 34 it (or_introl eq_refl) Wi) as (b & t & E & Nb).
    cbn [render_items]. rewrite <- app_assoc.
    assert (D : decodechar (render it ++ render_items r ++ 34 :: rest)
                = DOk (item_value it mod M32) (item_hexoct it) (render_items r ++ 34 :: rest)).
    { apply (escape_value 34); [assumption|].
      apply (no_extend_head it (render_items r ++ [34])); [apply hd_error_app_tail|assumption]. }
    cbn [decode_part]. revert D. rewrite E. cbn [app]. intros D.
    rewrite (eqb_false_of_ne b 34 Nb). rewrite D.
    rewrite (encoder_item 34 w it W Wi Ri).
    rewrite IH; auto.
    cbn [render_items] in Hf. rewrite app_length, E in Hf. simpl in Hf. lia.
Qed.

(* ------------------------------------------------------------------ the token loop *)
Lemma tok_prefix_render p r :
  tok_prefix (render_string p ++ r) = Some (fst p, 34 :: render_items (snd p) ++ [34] ++ r).
Proof.
  destruct p as [k its]. unfold render_string. cbn [fst snd].
  destruct k; cbn [prefix_bytes app]; rewrite <- ?app_assoc; reflexivity.
Qed.

Definition part_src (p : kind * list item) : list N := render_items (snd p) ++ [34; 0].

Lemma collect_spec parts : forall k0 len,
  match merge_kinds k0 (map fst parts) with
  | Some k => exists len', collect (map render_string parts) k0 len = inr (k, len', map part_src parts)
  | None => collect (map render_string parts) k0 len = inl EPrefix
  end.
Proof.
  induction parts as [|p ps IH]; intros k0 len.
  - simpl. eauto.
  - cbn [map collect merge_kinds]. rewrite tok_prefix_render. cbn [app tl].
    set (len' := (len + strlen (34 :: render_items (snd p) ++ 34 :: [0]) + M64 - 2) mod M64).
    destruct p as [k its]. cbn [fst snd] in *.
    destruct k0, k; cbn [kind_eqb negb andb];
      try (specialize (IH K0 len'); destruct (merge_kinds K0 (map fst ps)); [destruct IH as (l & ->); eexists; reflexivity|rewrite IH; reflexivity]);
      try (specialize (IH K8 len'); destruct (merge_kinds K8 (map fst ps)); [destruct IH as (l & ->); eexists; reflexivity|rewrite IH; reflexivity]);
      try (specialize (IH Ku len'); destruct (merge_kinds Ku (map fst ps)); [destruct IH as (l & ->); eexists; reflexivity|rewrite IH; reflexivity]);
      try (specialize (IH KU len'); destruct (merge_kinds KU (map fst ps)); [destruct IH as (l & ->); eexists; reflexivity|rewrite IH; reflexivity]);
      try (specialize (IH KL len'); destruct (merge_kinds KL (map fst ps)); [destruct IH as (l & ->); eexists; reflexivity|rewrite IH; reflexivity]);
      reflexivity.
Qed.

Lemma decode_parts_spec w parts : width_ok w -> string_wf w parts ->
  decode_parts (encoder w) (map part_src parts) = POk (concat (map (item_elements w) (string_items parts))).
Proof.
  intros W. induction parts as [|p ps IH]; intros Hwf; [reflexivity|].
  inversion Hwf as [|? ? [Wp Rp] Wps]; subst.
  cbn [map decode_parts]. unfold part_src at 1 2.
  rewrite (decode_part_items w (snd p) W _ [0] Wp Rp) by (rewrite app_length; simpl; lia).
  rewrite (IH Wps). unfold string_items. cbn [map concat]. rewrite map_app, concat_app. reflexivity.
Qed.

Lemma encoder_zero w : width_ok w -> encoder w 0 false = Enc [0].
Proof. intros [->|[->| ->]]; reflexivity. Qed.

(* ------------------------------------------------------------------ string_elements_spec *)
Theorem string_elements_spec tg parts k :
  merge_kinds K0 (map fst parts) = Some k ->
  let t := kind_type tg k in
  let w := ctype_size t in
  string_wf w parts ->
  exists alloc,
    stringconcat tg (map render_string parts) false
    = SOk t (string_elements w parts) (N.of_nat (length (string_elements w parts))) alloc.
Proof.
  intros M t w Hwf. unfold stringconcat.
  pose proof (collect_spec parts K0 0) as C. rewrite M in C. destruct C as (len & ->).
  cbv zeta. fold t. fold w.
  pose proof (width_of_type tg k) as W. fold t in W. fold w in W.
  rewrite (decode_parts_spec w parts W Hwf), (encoder_zero w W).
  eexists. reflexivity.
Qed.

(* 6.4.5p2 / implementation-defined mixtures: differing prefixes are rejected, whatever the bodies *)
Theorem string_prefix_mismatch_rejected tg parts f :
  merge_kinds K0 (map fst parts) = None ->
  stringconcat tg (map render_string parts) f = SErr EPrefix.
Proof.
  intros M. unfold stringconcat. pose proof (collect_spec parts K0 0) as C. rewrite M in C. rewrite C. reflexivity.
Qed.

(* ------------------------------------------------------------------ character constants *)
Lemma u64_of_Z_small v : v < M64 -> u64_of_Z (Z.of_N v) = v.
Proof.
  intros H. unfold u64_of_Z. rewrite Z.mod_small.
  - apply N2Z.id.
  - split; [apply N2Z.is_nonneg|]. change (2 ^ 64)%Z with (Z.of_N M64). apply N2Z.inj_lt, H.
Qed.

Lemma u64_of_Z_neg v : 128 <= v -> v < 256 -> u64_of_Z (Z.of_N v - 256) = v + M64 - 256.
Proof.
  intros H1 H2. unfold u64_of_Z.
  replace (Z.of_N v - 256)%Z with ((Z.of_N v - 256 + 2 ^ 64) + (-1) * 2 ^ 64)%Z by lia.
  rewrite Z.mod_add by lia. rewrite Z.mod_small by lia.
  apply N2Z.inj. rewrite Z2N.id by lia. unfold M64. lia.
Qed.

Definition const_value (tg : target) (k : kind) (it : item) : N :=
  let chr := item_value it mod M32 in
  if item_hexoct it && kind_eqb k K0 && signedchar tg then sext8_u64 chr
  else if ctype_eqb (const_type tg k) TInt then sext32_u64 chr
  else chr.

Definition const_unrepresentable (tg : target) (k : kind) (it : item) : bool :=
  let t := const_type tg k in
  negb (item_hexoct it) && negb (kind_eqb k K0) && (ctype_size t <? 4) &&
  negb (N.shiftr (item_value it mod M32) (8 * ctype_size t) =? 0).

Lemma charconst_decode tg k it : item_wf 39 it -> no_extend it [39] ->
  charconst tg (render_const k it) =
  if const_unrepresentable tg k it then CErr ERepr else COk (const_type tg k) (const_value tg k it).
Proof.
  intros W NE.
  assert (D : decodechar (render it ++ [39; 0]) = DOk (item_value it mod M32) (item_hexoct it) [39; 0]).
  { apply (escape_value 39); [assumption|]. apply (no_extend_head it [39]); [reflexivity|assumption]. }
  unfold charconst, render_const, const_unrepresentable, const_value.
  destruct k; cbn [prefix_bytes app const_type kind_type kind_eqb]; rewrite <- app_assoc; cbn [app];
    rewrite D; rewrite ?andb_false_r, ?andb_true_r; cbn [andb negb]; reflexivity.
Qed.

Lemma sext32_small v : v < 0x80000000 -> sext32_u64 v = v.
Proof. intros H. unfold sext32_u64. apply N.ltb_lt in H. rewrite H. reflexivity. Qed.

Theorem plain_char_value tg it z : item_wf 39 it -> no_extend it [39] ->
  plain_char_spec tg it = Some z ->
  charconst tg (render_const K0 it) = COk TInt (u64_of_Z z).
Proof.
  intros W NE P. rewrite (charconst_decode tg K0 it W NE).
  unfold const_unrepresentable, const_value. cbn [const_type kind_eqb negb ctype_eqb].
  rewrite andb_false_r. cbn [andb]. f_equal. rewrite andb_true_r.
  destruct it as [c|e|ds|ds]; cbn [plain_char_spec item_hexoct is_escape_num item_value andb] in *.
  - destruct (c <? 128) eqn:E; [|discriminate]. inversion P; subst. apply N.ltb_lt in E.
    rewrite N.mod_small by (unfold M32; lia). rewrite sext32_small by lia.
    rewrite u64_of_Z_small by (unfold M64; lia). reflexivity.
  - simpl in W. destruct (simple_value e) as [v|] eqn:E; [|congruence].
    pose proof (simple_value_small e v E) as S.
    assert (A : (v <? 256) = true) by (apply N.ltb_lt; lia). rewrite A in P.
    assert (B : (128 <=? v) = false) by (apply N.leb_gt; lia). rewrite B, andb_false_r in P.
    inversion P; subst. rewrite N.mod_small by (unfold M32; lia). rewrite sext32_small by lia.
    rewrite u64_of_Z_small by (unfold M64; lia). reflexivity.
  - set (v := digits_value 8 octdigit ds) in *.
    destruct (v <? 256) eqn:A; [|discriminate]. apply N.ltb_lt in A.
    rewrite N.mod_small by (unfold M32; lia). unfold sext8_u64. rewrite land_mask8, N.mod_small by lia.
    rewrite sext32_small by lia.
    destruct (signedchar tg); cbn [andb] in *.
    + destruct (128 <=? v) eqn:B; inversion P; subst.
      * apply N.leb_le in B. assert (C : (v <? 128) = false) by (apply N.ltb_ge; lia). rewrite C.
        rewrite u64_of_Z_neg by lia. reflexivity.
      * apply N.leb_gt in B. assert (C : (v <? 128) = true) by (apply N.ltb_lt; lia). rewrite C.
        rewrite u64_of_Z_small by (unfold M64; lia). reflexivity.
    + inversion P; subst. rewrite u64_of_Z_small by (unfold M64; lia). reflexivity.
  - set (v := digits_value 16 hexdigit ds) in *.
    destruct (v <? 256) eqn:A; [|discriminate]. apply N.ltb_lt in A.
    rewrite N.mod_small by (unfold M32; lia). unfold sext8_u64. rewrite land_mask8, N.mod_small by lia.
    rewrite sext32_small by lia.
    destruct (signedchar tg); cbn [andb] in *.
    + destruct (128 <=? v) eqn:B; inversion P; subst.
      * apply N.leb_le in B. assert (C : (v <? 128) = false) by (apply N.ltb_ge; lia). rewrite C.
        rewrite u64_of_Z_neg by lia. reflexivity.
      * apply N.leb_gt in B. assert (C : (v <? 128) = true) by (apply N.ltb_lt; lia). rewrite C.
        rewrite u64_of_Z_small by (unfold M64; lia). reflexivity.
    + inversion P; subst. rewrite u64_of_Z_small by (unfold M64; lia). reflexivity.
Qed.

Lemma u64_of_Z_neg32 v : 0x80000000 <= v -> v < M32 -> u64_of_Z (Z.of_N v - Z.of_N M32) = v + M64 - M32.
Proof.
  intros H1 H2. unfold u64_of_Z. unfold M32 in *.
  replace (Z.of_N v - Z.of_N 4294967296)%Z with ((Z.of_N v - 4294967296 + 2 ^ 64) + (-1) * 2 ^ 64)%Z by lia.
  rewrite Z.mod_add by lia. rewrite Z.mod_small by lia.
  apply N2Z.inj. rewrite Z2N.id by lia. unfold M64. lia.
Qed.

Lemma shiftr_small v k : v < 2 ^ k -> N.shiftr v k = 0.
Proof. intros H. rewrite N.shiftr_div_pow2. apply N.div_small, H. Qed.

(* prefixed constants (u8, u, U, L) on every target: type by prefix and target, value = the
   specified value of that type; where wchar_t is int, L'\xffffffff' is -1 *)
Theorem wide_char_value tg k it z : target_ok tg -> k <> K0 -> item_wf 39 it -> no_extend it [39] ->
  wide_char_spec tg k it = Some z ->
  charconst tg (render_const k it) = COk (const_type tg k) (u64_of_Z z).
Proof.
  intros TG Hk W NE P. rewrite (charconst_decode tg k it W NE).
  assert (E : kind_eqb k K0 = false) by (destruct k; auto; congruence).
  unfold const_unrepresentable, const_value. rewrite E, !andb_false_r. cbn [andb negb].
  unfold wide_char_spec in P. cbv zeta in P.
  set (t := const_type tg k) in *. set (v := item_value it) in *.
  assert (T : (t = TInt /\ ctype_signed tg t = true) \/
              (ctype_eqb t TInt = false /\ ctype_signed tg t = false)).
  { subst t. destruct k; cbn; try (right; split; reflexivity); try congruence.
    destruct TG as [-> | ->]; cbn; [left|right]; split; reflexivity. }
  assert (B : 2 ^ (8 * ctype_size t) <= M32).
  { subst t. destruct k; cbn; try (unfold M32; lia); destruct TG as [-> | ->]; cbn; unfold M32; lia. }
  destruct (v <? 2 ^ (8 * ctype_size t)) eqn:A; [|discriminate]. apply N.ltb_lt in A.
  rewrite (N.mod_small v M32) by lia.
  rewrite (shiftr_small v (8 * ctype_size t) A). rewrite N.eqb_refl. cbn [negb]. rewrite !andb_false_r.
  f_equal.
  destruct T as [[Tt Ts] | [Tt Ts]].
  - rewrite Tt in *. cbn [ctype_eqb ctype_size] in *. rewrite Ts in P. cbn [andb] in P.
    change (8 * 4) with 32 in *. change (2 ^ 32) with M32 in *. change (2 ^ (32 - 1)) with 0x80000000 in P.
    destruct (0x80000000 <=? v) eqn:C; injection P as P; subst z.
    + apply N.leb_le in C. unfold sext32_u64. assert (F : (v <? 0x80000000) = false) by (apply N.ltb_ge; lia).
      rewrite F. rewrite u64_of_Z_neg32 by assumption. reflexivity.
    + apply N.leb_gt in C. rewrite sext32_small by assumption.
      rewrite u64_of_Z_small by (unfold M64, M32 in *; lia). reflexivity.
  - rewrite Tt. rewrite Ts in P. cbn [andb] in P. injection P as P. subst z.
    rewrite u64_of_Z_small by (unfold M64, M32 in *; lia). reflexivity.
Qed.

(* a source character that does not fit the 8- or 16-bit type of a u8 / u constant is rejected *)
Theorem char_const_unrepresentable_rejected tg k c : k = Ku \/ k = K8 ->
  item_wf 39 (IChar c) -> 2 ^ (8 * ctype_size (const_type tg k)) <= c ->
  charconst tg (render_const k (IChar c)) = CErr ERepr.
Proof.
  intros Hk W Hc. rewrite (charconst_decode tg k (IChar c) W I).
  assert (R : const_unrepresentable tg k (IChar c) = true); [|rewrite R; reflexivity].
  unfold const_unrepresentable. cbn [item_hexoct is_escape_num item_value negb].
  destruct W as (S & _). pose proof (scalar_lt c S) as L.
  rewrite N.mod_small by (unfold M32; lia).
  destruct Hk as [-> | ->]; cbn [kind_eqb negb const_type kind_type ctype_size andb] in *.
  - change (2 <? 4) with true. cbn [andb]. rewrite N.shiftr_div_pow2.
    destruct (c / 2 ^ (8 * 2) =? 0) eqn:Z; [|reflexivity]. apply N.eqb_eq in Z.
    apply N.div_small_iff in Z; [|cbn; lia]. lia.
  - change (1 <? 4) with true. cbn [andb]. rewrite N.shiftr_div_pow2.
    destruct (c / 2 ^ (8 * 1) =? 0) eqn:Z; [|reflexivity]. apply N.eqb_eq in Z.
    apply N.div_small_iff in Z; [|cbn; lia]. lia.
Qed.

(* whatever is accepted has a value that fits the constant's type (for escapes in range; out-of-range
   escapes are the known finding below) *)
Theorem char_const_fits tg k c t v : target_ok tg -> item_wf 39 (IChar c) ->
  charconst tg (render_const k (IChar c)) = COk t v -> v < 2 ^ (8 * ctype_size t).
Proof.
  intros TG W. rewrite (charconst_decode tg k (IChar c) W I).
  destruct (const_unrepresentable tg k (IChar c)) eqn:R; [discriminate|].
  intros H. injection H as <- <-.
  unfold const_unrepresentable, const_value in *. cbn [item_hexoct is_escape_num item_value negb andb] in *.
  destruct W as (S & _). pose proof (scalar_lt c S) as L.
  rewrite N.mod_small in * by (unfold M32; lia).
  destruct k; cbn [kind_eqb negb const_type kind_type ctype_size ctype_eqb andb] in *.
  - rewrite sext32_small by lia. cbn. lia.
  - change (1 <? 4) with true in R. cbn [andb] in R. apply negb_false_iff, N.eqb_eq in R.
    rewrite N.shiftr_div_pow2 in R. apply N.div_small_iff in R; [|cbn; lia]. exact R.
  - change (2 <? 4) with true in R. cbn [andb] in R. apply negb_false_iff, N.eqb_eq in R.
    rewrite N.shiftr_div_pow2 in R. apply N.div_small_iff in R; [|cbn; lia]. exact R.
  - cbn. lia.
  - destruct TG as [-> | ->]; cbn [ctype_eqb ctype_size]; [rewrite sext32_small by lia|]; cbn; lia.
Qed.

(* ------------------------------------------------------------------ findings kept visible *)
(* 6.4.4.4p9: an out-of-range escape is a constraint violation; cproc accepts it and truncates. *)
Definition escape_in_range_statement : Prop :=
  forall tg parts k t el size alloc,
    merge_kinds K0 (map fst parts) = Some k ->
    Forall (fun p => items_wf 34 (snd p)) parts ->
    stringconcat tg (map render_string parts) false = SOk t el size alloc ->
    Forall (in_range (ctype_size t)) (string_items parts).

Lemma scalar_dec c : scalarb c = true -> scalar c.
Proof. apply scalarb_iff. Qed.

Theorem escape_in_range_refuted : ~ escape_in_range_statement.
Proof.
  intros H.
  (* char s[] = BACKSLASH x100 : accepted, elements 0 0 *)
  specialize (H x86_64_sysv [(K0, [IHex [49; 48; 48]])] K0 TChar [0; 0] 2 6 eq_refl).
  assert (W : Forall (fun p => items_wf 34 (snd p)) [(K0, [IHex [49; 48; 48]])]).
  { constructor; [|constructor]. simpl. repeat split; auto.
    repeat constructor; discriminate. }
  specialize (H W eq_refl). inversion H as [|? ? R _]; subst.
  unfold in_range in R. specialize (R eq_refl). vm_compute in R. discriminate.
Qed.

(* ... and the same for character constants: '\777' is accepted (value -1 where char is signed) *)
Theorem char_escape_in_range_refuted :
  exists tg it v, item_wf 39 it /\ no_extend it [39] /\ ~ in_range 1 it /\
                  charconst tg (render_const K0 it) = COk TInt v.
Proof.
  exists x86_64_sysv, (IOct [55; 55; 55]), (M64 - 1).
  split; [|split; [|split]].
  - simpl. split; [lia|]. repeat constructor; discriminate.
  - simpl. intros; lia.
  - intros R. specialize (R eq_refl). vm_compute in R. discriminate.
  - vm_compute. reflexivity.
Qed.

(* the partial statement that does hold: what is in range is never altered (string_elements_spec,
   plain_char_value, wide_char_value above). *)

(* ------------------------------------------------------------------ no_assert: what reaches the encoders *)
Lemma decodechar_plain_scalar s chr r : Forall (fun b => b < 256) s ->
  decodechar s = DOk chr false r -> scalar chr.
Proof.
  intros F. unfold decodechar. destruct s as [|c0 s1]; [discriminate|].
  destruct (c0 =? 92) eqn:E0.
  - destruct s1 as [|e s2]; [discriminate|].
    destruct ((e =? 39) || (e =? 34) || (e =? 63) || (e =? 92)) eqn:E1.
    + intros H. inversion H; subst.
      repeat (apply orb_true_iff in E1; destruct E1 as [E1|E1]); apply N.eqb_eq in E1; subst; apply small_scalar; lia.
    + repeat match goal with
      | |- context [if ?a =? ?b then _ else _] => destruct (a =? b);
          [try (intros H; inversion H; subst; apply small_scalar; lia)|]
      end.
      * destruct s2 as [|d s3]; [discriminate|]. destruct (isxdigit d); [|discriminate].
        destruct (hexloop 0 (d :: s3)). discriminate.
      * destruct (isodigit e); [|discriminate]. destruct (octloop 3 0 (e :: s2)). discriminate.
  - destruct (utf8dec (c0 :: s1) 4) as [c l| |] eqn:D; try discriminate.
    intros H. inversion H; subst. apply (utf8dec_valid_only _ _ _ _ F D).
Qed.

(* Whatever bytes the token holds: the value handed to an encoder is a scalar value, or the
   hexoct path (a plain store) is taken.  Together with enc_no_assert this makes the assert(0)
   of utf8enc and utf16enc unreachable from string literals and character constants. *)
Theorem encoders_no_assert w s chr ho r : width_ok w -> Forall (fun b => b < 256) s ->
  decodechar s = DOk chr ho r -> encoder w chr ho <> AssertFail.
Proof.
  intros W F D. destruct ho.
  - destruct W as [->|[->| ->]]; discriminate.
  - rewrite (encoder_scalar w chr W (decodechar_plain_scalar s chr r F D)). discriminate.
Qed.
