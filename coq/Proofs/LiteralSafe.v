(* C14: the scanner accepts only tokens on which the literal pipeline is safe: decodechar's
   asserts hold, nothing is read past the token's terminating NUL, the loops end within their
   fuel, and stringconcat's buffer (sized from strlen) is large enough for what is written.
   (Before /repo 76ec0fb a NUL byte in the source broke all of this; scan.c now rejects it.) *)
From Coq Require Import NArith Arith List Bool Lia.
From Cproc Require Import Lib.UtfSweep Spec.Unicode Spec.CLiteral Model.Utf Model.Literal.
From Cproc Require Import Proofs.UtfCheck Proofs.UtfProofs Proofs.LiteralProofs.
Import ListNotations.
Open Scope N_scope.

Definition bytes (s : list N) : Prop := Forall (fun b => b < 256) s.

(* ------------------------------------------------------------------ character classes, by enumeration of the 256 bytes *)
Definition class_check (d : N) : bool :=
  Bool.eqb (scan_isodigit d) (isodigit d) &&
  Bool.eqb (isodigit d) (is_some (octdigit d)) &&
  Bool.eqb (isxdigit d) (is_some (hexdigit d)) &&
  Bool.eqb (scan_simple d) (is_some (simple_value d)) &&
  (if isodigit d || isxdigit d || scan_simple d then negb (d =? 0) && negb (is_cont d) else true).

Lemma class_sweep : forall_below 256 class_check = true.
Proof. vm_compute. reflexivity. Qed.

Lemma class_all d : d < 256 ->
  scan_isodigit d = isodigit d /\ isodigit d = is_some (octdigit d) /\ isxdigit d = is_some (hexdigit d) /\
  scan_simple d = is_some (simple_value d) /\
  (isodigit d || isxdigit d || scan_simple d = true -> d <> 0 /\ is_cont d = false).
Proof.
  intros H. pose proof (forall_below_spec 256 _ class_sweep d H) as C. unfold class_check in C.
  repeat (apply andb_true_iff in C; destruct C as [C ?]).
  repeat match goal with E : Bool.eqb _ _ = true |- _ => apply eqb_prop in E end.
  repeat split; auto.
  - match goal with E : (if ?c then _ else _) = true |- _ => rewrite H4 in E end.
    apply andb_true_iff in H0. destruct H0 as [A _]. apply negb_true_iff, N.eqb_neq in A. exact A.
  - match goal with E : (if ?c then _ else _) = true |- _ => rewrite H4 in E end.
    apply andb_true_iff in H0. destruct H0 as [_ A]. apply negb_true_iff in A. exact A.
Qed.

(* ------------------------------------------------------------------ what the scanner lets through *)
(* body of a literal token between the quotes q; `hd q bs` is the byte that follows a prefix of the
   body: the next body byte or the closing quote *)
Inductive wf_body (q : N) : list N -> Prop :=
| wfb_nil : wf_body q []
| wfb_byte b bs : b <> q -> b <> 92 -> b <> 10 -> b <> 0 -> wf_body q bs -> wf_body q (b :: bs)
| wfb_simple e bs : scan_simple e = true -> wf_body q bs -> wf_body q (92 :: e :: bs)
| wfb_oct ds bs : (1 <= length ds <= 3)%nat -> Forall (fun d => isodigit d = true) ds ->
    ((length ds < 3)%nat -> isodigit (hd q bs) = false) -> wf_body q bs -> wf_body q (92 :: ds ++ bs)
| wfb_hex ds bs : (1 <= length ds)%nat -> Forall (fun d => isxdigit d = true) ds ->
    isxdigit (hd q bs) = false -> wf_body q bs -> wf_body q (92 :: 120 :: ds ++ bs).

Lemma take_while_spec f s : forall a b, take_while f s = (a, b) ->
  s = a ++ b /\ Forall (fun c => f c = true) a /\ match b with c :: _ => f c = false | [] => True end.
Proof.
  induction s as [|c r IH]; intros a b H; simpl in H.
  - inversion H; subst. simpl. auto.
  - destruct (f c) eqn:E.
    + destruct (take_while f r) as [a' b'] eqn:T. inversion H; subst.
      destruct (IH a' b eq_refl) as (-> & F & N). simpl. repeat split; auto.
    + inversion H; subst. simpl. auto.
Qed.

(* escape(): shape of what it consumes *)
Inductive esc_shape : list N -> list N -> Prop :=
| es_simple e r : scan_simple e = true -> esc_shape [92; e] r
| es_oct ds r : (1 <= length ds <= 3)%nat -> Forall (fun d => scan_isodigit d = true) ds ->
    ((length ds < 3)%nat -> match r with c :: _ => scan_isodigit c = false | [] => True end) -> esc_shape (92 :: ds) r
| es_hex ds r : (1 <= length ds)%nat -> Forall (fun d => isxdigit d = true) ds ->
    match r with c :: _ => isxdigit c = false | [] => True end -> esc_shape (92 :: 120 :: ds) r.

Lemma scan_escape_spec r0 e r : scan_escape (92 :: r0) = Some (e, r) -> 92 :: r0 = e ++ r /\ esc_shape e r.
Proof.
  unfold scan_escape. destruct r0 as [|c1 r1]; [discriminate|].
  destruct (c1 =? 120) eqn:X.
  - apply N.eqb_eq in X. subst c1. destruct r1 as [|c2 r2]; [discriminate|].
    destruct (isxdigit c2) eqn:H2; [|discriminate].
    destruct (take_while isxdigit (c2 :: r2)) as [ds r'] eqn:T. intros H. inversion H; subst.
    destruct (take_while_spec _ _ _ _ T) as (E & F & N).
    split; [simpl; rewrite E; reflexivity|].
    apply es_hex; auto.
    destruct ds; [|simpl; lia]. simpl in E. subst r. simpl in N. congruence.
  - destruct (scan_isodigit c1) eqn:O1.
    + destruct r1 as [|c2 r2].
      * intros H. inversion H; subst. split; [reflexivity|]. apply (es_oct [c1]); simpl; auto.
      * destruct (scan_isodigit c2) eqn:O2.
        -- destruct r2 as [|c3 r3].
           ++ intros H. inversion H; subst. split; [reflexivity|]. apply (es_oct [c1; c2]); simpl; auto.
           ++ destruct (scan_isodigit c3) eqn:O3; intros H; inversion H; subst; (split; [reflexivity|]).
              ** apply (es_oct [c1; c2; c3]); simpl; auto. intros; lia.
              ** apply (es_oct [c1; c2]); simpl; auto.
        -- intros H. inversion H; subst. split; [reflexivity|]. apply (es_oct [c1]); simpl; auto.
    + destruct (scan_simple c1) eqn:S1; [|discriminate].
      intros H. inversion H; subst. split; [reflexivity|]. apply es_simple, S1.
Qed.

Definition quote_byte (q : N) : Prop := q = 34 \/ q = 39.

Lemma bytes_app a b : bytes (a ++ b) -> bytes a /\ bytes b.
Proof. unfold bytes. apply Forall_app. Qed.

Lemma Forall_scan_iso ds : bytes ds -> Forall (fun d => scan_isodigit d = true) ds ->
  Forall (fun d => isodigit d = true) ds.
Proof.
  induction ds as [|a ds IH]; intros B F; constructor; inversion B; inversion F; subst.
  - rewrite <- (proj1 (class_all a H1)). assumption.
  - auto.
Qed.

Lemma scan_body_wf q : quote_byte q -> forall fuel inp b rest, bytes inp ->
  scan_body fuel q inp = Some (b, rest) ->
  exists body, b = body ++ [q] /\ wf_body q body /\ inp = b ++ rest.
Proof.
  intros Hq. induction fuel as [|f IH]; intros inp b rest Hb H; [discriminate|].
  simpl in H. destruct inp as [|c r]; [discriminate|].
  destruct (c =? 92) eqn:E92.
  - apply N.eqb_eq in E92. subst c.
    destruct (scan_escape (92 :: r)) as [[e r']|] eqn:SE; [|discriminate].
    destruct (scan_body f q r') as [[b' rest']|] eqn:SB; [|discriminate].
    inversion H; subst. destruct (scan_escape_spec _ _ _ SE) as (EQ & SH).
    assert (Hr' : bytes r') by (rewrite EQ in Hb; apply bytes_app in Hb; tauto).
    destruct (IH _ _ _ Hr' SB) as (body' & -> & W' & ->).
    assert (Hd : forall (P : N -> bool), match (body' ++ [q]) ++ rest with c :: _ => P c = false | [] => True end -> P (hd q body') = false).
    { intros P. destruct body'; simpl; auto. }
    assert (He : bytes e) by (rewrite EQ in Hb; apply bytes_app in Hb; tauto).
    inversion SH as [e0 r0 S1 | ds r0 L F NE | ds r0 L F NE]; subst.
    + exists (92 :: e0 :: body'). split; [reflexivity|]. split; [apply wfb_simple; auto|].
      rewrite EQ. simpl. rewrite <- app_assoc. reflexivity.
    + exists (92 :: ds ++ body'). split; [simpl; rewrite <- app_assoc; reflexivity|]. split.
      * apply wfb_oct; auto.
        -- apply Forall_scan_iso; [inversion He; assumption|assumption].
        -- intros L3. specialize (NE L3). apply Hd in NE.
           assert (Q : hd q body' < 256).
           { destruct body'; simpl; [destruct Hq; subst; lia|]. apply bytes_app in Hr'. destruct Hr' as [Hr' _].
             apply bytes_app in Hr'. destruct Hr' as [Hr' _]. inversion Hr'; assumption. }
           rewrite <- (proj1 (class_all _ Q)). assumption.
      * rewrite EQ. simpl. rewrite <- !app_assoc. reflexivity.
    + exists (92 :: 120 :: ds ++ body'). split; [simpl; rewrite <- app_assoc; reflexivity|]. split.
      * apply wfb_hex; auto.
      * rewrite EQ. simpl. rewrite <- !app_assoc. reflexivity.
  - destruct (c =? q) eqn:Eq.
    + apply N.eqb_eq in Eq. subst c. inversion H; subst. exists []. repeat split. constructor.
    + destruct (c =? 0) eqn:E0; [discriminate|]. destruct (c =? 10) eqn:E10; [discriminate|].
      destruct (scan_body f q r) as [[b' rest']|] eqn:SB; [|discriminate].
      inversion H; subst. assert (Hr : bytes r) by (inversion Hb; assumption).
      destruct (IH _ _ _ Hr SB) as (body' & -> & W' & ->).
      exists (c :: body'). split; [reflexivity|]. split; [|reflexivity].
      apply N.eqb_neq in E92, Eq, E0, E10. apply wfb_byte; auto.
Qed.

(* ------------------------------------------------------------------ one step of the decoding loops *)
Lemma is_cont_quote q : quote_byte q -> is_cont q = false.
Proof. intros [-> | ->]; reflexivity. Qed.

Lemma wf_skip_cont q c t : is_cont c = true -> wf_body q (c :: t) -> wf_body q t.
Proof.
  intros C W. inversion W; subst; auto; vm_compute in C; discriminate.
Qed.

Lemma wf_skip_conts q cs : forall t, Forall (fun b => is_cont b = true) cs -> wf_body q (cs ++ t) -> wf_body q t.
Proof.
  induction cs as [|c cs IH]; intros t F W; [assumption|].
  inversion F; subst. apply IH; [assumption|]. apply (wf_skip_cont q c); assumption.
Qed.

Lemma prefix_cont q : is_cont q = false -> forall cs r bs tail,
  Forall (fun b => is_cont b = true) cs -> cs ++ r = bs ++ q :: tail ->
  exists bs', bs = cs ++ bs' /\ r = bs' ++ q :: tail.
Proof.
  intros Hq. induction cs as [|c cs IH]; intros r bs tail F E.
  - exists bs. auto.
  - inversion F as [|? ? Fc F']; subst. destruct bs as [|b bs]; simpl in E; inversion E; subst.
    + congruence.
    + destruct (IH _ _ _ F' H1) as (bs' & -> & ->). exists bs'. auto.
Qed.

Lemma encode_length w c : width_ok w -> scalar c -> (length (encode w c) <= N.to_nat (utf8_len c))%nat.
Proof.
  intros W S. destruct W as [->|[->| ->]]; unfold encode; simpl.
  - rewrite utf8_length by assumption. lia.
  - unfold utf16, utf8_len. destruct (c <? 65536) eqn:E; simpl.
    + destruct (c <? 128); [simpl; lia|]. destruct (c <? 2048); simpl; lia.
    + apply N.ltb_ge in E. assert (A : (c <? 128) = false) by (apply N.ltb_ge; lia).
      assert (B : (c <? 2048) = false) by (apply N.ltb_ge; lia). rewrite A, B. simpl. lia.
  - unfold utf8_len. destruct (c <? 128); [simpl; lia|]. destruct (c <? 2048); [simpl; lia|].
    destruct (c <? 65536); simpl; lia.
Qed.

Lemma Forall_oct_spec ds : Forall (fun d => isodigit d = true) ds -> bytes ds -> Forall (fun d => octdigit d <> None) ds.
Proof.
  induction ds; intros F B; constructor; inversion F; inversion B; subst; auto.
  destruct (class_all a H5) as (_ & E & _). rewrite H1 in E. destruct (octdigit a); [discriminate|discriminate].
Qed.
Lemma Forall_hex_spec ds : Forall (fun d => isxdigit d = true) ds -> bytes ds -> Forall (fun d => hexdigit d <> None) ds.
Proof.
  induction ds; intros F B; constructor; inversion F; inversion B; subst; auto.
  destruct (class_all a H5) as (_ & _ & E & _). rewrite H1 in E. destruct (hexdigit a); [discriminate|discriminate].
Qed.

Lemma hd_next_oct q bs tail : quote_byte q -> bytes bs -> isodigit (hd q bs) = false ->
  match bs ++ q :: tail with d :: _ => octdigit d = None | [] => True end.
Proof.
  intros Hq B H. assert (Q : hd q bs < 256).
  { destruct bs; simpl; [destruct Hq; subst; lia|inversion B; assumption]. }
  destruct (class_all _ Q) as (_ & E & _). rewrite H in E.
  destruct bs; simpl in *; destruct (octdigit _); auto; discriminate.
Qed.
Lemma hd_next_hex q bs tail : quote_byte q -> bytes bs -> isxdigit (hd q bs) = false ->
  match bs ++ q :: tail with d :: _ => hexdigit d = None | [] => True end.
Proof.
  intros Hq B H. assert (Q : hd q bs < 256).
  { destruct bs; simpl; [destruct Hq; subst; lia|inversion B; assumption]. }
  destruct (class_all _ Q) as (_ & _ & E & _). rewrite H in E.
  destruct bs; simpl in *; destruct (hexdigit _); auto; discriminate.
Qed.

Definition step_ok (w q : N) (body tail : list N) : Prop :=
  decodechar (body ++ q :: tail) = DErr EUtf8 \/
  exists chr ho body' u,
    decodechar (body ++ q :: tail) = DOk chr ho (body' ++ q :: tail) /\
    wf_body q body' /\ bytes body' /\ encoder w chr ho = Enc u /\
    (length u + length body' <= length body)%nat /\ (length body' < length body)%nat.

Lemma decode_step w q body tail : width_ok w -> quote_byte q -> bytes body -> bytes tail ->
  wf_body q body -> body <> [] -> step_ok w q body tail.
Proof.
  intros W Hq B Bt Wf Ne. unfold step_ok. pose proof (is_cont_quote q Hq) as Cq.
  assert (Bq : q < 256) by (destruct Hq; subst; lia).
  inversion Wf as [|b bs N1 N2 N3 N4 Wb|e bs S Wb|ds bs L F NE Wb|ds bs L F NE Wb]; subst; [congruence| | | |].
  - (* an ordinary byte: UTF-8 *)
    assert (Ball : bytes ((b :: bs) ++ q :: tail)).
    { apply Forall_app. split; [assumption|]. constructor; assumption. }
    simpl app in *. unfold decodechar. rewrite (eqb_false_of_ne b 92 N2).
    destruct (utf8dec (b :: bs ++ q :: tail) 4) as [c l| |] eqn:D.
    + right.
      destruct (utf8dec_valid_only _ _ _ _ Ball D) as (Sc & Ll & _ & _).
      destruct (utf8dec_shape _ _ _ _ D) as (b0 & cs & r & E & _ & Lc & Fc & _ & _).
      inversion E as [[Eb Er]]. subst b0.
      destruct (prefix_cont q Cq cs r bs tail Fc (eq_sym Er)) as (bs' & -> & ->).
      assert (Wb' : wf_body q bs') by (apply (wf_skip_conts q cs); assumption).
      assert (Lb : N.to_nat l = S (length cs)).
      { rewrite Lc. assert (1 <= l) by (rewrite Ll; unfold utf8_len; destruct (c <? 128); [lia|]; destruct (c <? 2048); [lia|]; destruct (c <? 65536); lia). lia. }
      exists c, false, bs', (encode w c). repeat split.
      * f_equal. rewrite Lb. simpl. rewrite <- app_assoc. apply skipn_app_exact.
      * assumption.
      * inversion B as [|? ? _ B']; subst. apply bytes_app in B'. tauto.
      * apply encoder_scalar; assumption.
      * pose proof (encode_length w c W Sc) as EL. rewrite <- Ll, Lb in EL. simpl. rewrite app_length. lia.
      * simpl. rewrite app_length. lia.
    + left. reflexivity.
    + exfalso. apply (utf8dec_in_bounds b bs q tail 4 Cq D).
  - (* simple escape *)
    right. inversion B as [|? ? _ B1]; subst. inversion B1 as [|? ? Be Bbs]; subst.
    destruct (class_all e Be) as (_ & _ & _ & E & _). rewrite S in E.
    destruct (simple_value e) as [v|] eqn:SV; [|discriminate].
    exists v, false, bs, [v]. simpl app. rewrite (decodechar_simple e v _ SV). repeat split; auto.
    + apply encoder_small; [assumption|]. apply (simple_value_small e v SV).
    + simpl. lia.
    + simpl. lia.
  - (* octal escape *)
    right. inversion B as [|? ? _ B1]; subst. apply bytes_app in B1. destruct B1 as [Bd Bbs].
    simpl app. rewrite <- app_assoc.
    rewrite (decodechar_oct ds (bs ++ q :: tail) L (Forall_oct_spec ds F Bd)
               (fun L3 => hd_next_oct q bs tail Hq Bbs (NE L3))).
    exists (digits_value 8 octdigit ds), true, bs.
    destruct W as [->|[->| ->]]; eexists; (split; [reflexivity|]); (split; [assumption|]); (split; [assumption|]);
      (split; [reflexivity|]); split; simpl; rewrite app_length; lia.
  - (* hexadecimal escape *)
    right. inversion B as [|? ? _ B1]; subst. inversion B1 as [|? ? _ B2]; subst.
    apply bytes_app in B2. destruct B2 as [Bd Bbs].
    simpl app. rewrite <- app_assoc.
    rewrite (decodechar_hex ds (bs ++ q :: tail) L (Forall_hex_spec ds F Bd) (hd_next_hex q bs tail Hq Bbs NE)).
    exists (digits_value 16 hexdigit ds mod M32), true, bs.
    destruct W as [->|[->| ->]]; eexists; (split; [reflexivity|]); (split; [assumption|]); (split; [assumption|]);
      (split; [reflexivity|]); split; simpl; rewrite app_length; lia.
Qed.

(* ------------------------------------------------------------------ the loops *)
Lemma wf_head_not_quote q body : quote_byte q -> wf_body q body ->
  match body with b :: _ => b <> q | [] => True end.
Proof. intros Hq W. inversion W; subst; auto; destruct Hq; subst; discriminate. Qed.

Lemma decode_part_safe w tail : width_ok w -> bytes tail -> forall n body fuel,
  (length body <= n)%nat -> (length body < fuel)%nat -> bytes body -> wf_body 34 body ->
  decode_part fuel (encoder w) (body ++ 34 :: tail) = PErr EUtf8 \/
  exists el, decode_part fuel (encoder w) (body ++ 34 :: tail) = POk el /\ (length el <= length body)%nat.
Proof.
  intros W Bt. induction n as [|n IH]; intros body fuel Ln Lf B Wf.
  - destruct body; [|simpl in Ln; lia]. destruct fuel; [simpl in Lf; lia|]. right. exists []. simpl. auto.
  - destruct fuel as [|f]; [lia|]. destruct body as [|b bs].
    + right. exists []. simpl. auto.
    + pose proof (wf_head_not_quote 34 _ (or_introl eq_refl) Wf) as Nq. cbn beta iota in Nq.
      destruct (decode_step w 34 (b :: bs) tail W (or_introl eq_refl) B Bt Wf ltac:(discriminate)) as [D | (chr & ho & body' & u & D & W' & B' & E & L1 & L2)].
      * left. cbn [decode_part app]. cbn [app] in D. rewrite (eqb_false_of_ne b 34 Nq), D. reflexivity.
      * cbn [decode_part app]. cbn [app] in D. rewrite (eqb_false_of_ne b 34 Nq), D, E.
        destruct (IH body' f) as [R | (el & R & Le)]; auto; try lia; rewrite R.
        -- left. reflexivity.
        -- right. exists (u ++ el). split; [reflexivity|]. rewrite app_length. lia.
Qed.

(* ------------------------------------------------------------------ tokens *)
Definition prefixes : list (list N) := [[]; [117; 56]; [117]; [85]; [76]].

Definition lit_shape (q : N) (t : list N) : Prop :=
  exists pre body, In pre prefixes /\ t = pre ++ q :: body ++ [q] /\ wf_body q body /\ bytes body.

Theorem scan_literal_shape inp t rest : bytes inp -> scan_literal inp = Some (t, rest) ->
  (lit_shape 34 t \/ lit_shape 39 t) /\ inp = t ++ rest.
Proof.
  intros B. unfold scan_literal.
  assert (G : forall pre r, In pre prefixes -> inp = pre ++ r ->
    match r with
    | q :: r' => if is_quote q then match scan_body (S (length r')) q r' with
                                    | Some (b, rest) => Some (pre ++ q :: b, rest) | None => None end else None
    | [] => None end = Some (t, rest) -> (lit_shape 34 t \/ lit_shape 39 t) /\ inp = t ++ rest).
  { intros pre r Hp E H. destruct r as [|q r']; [discriminate|].
    destruct (is_quote q) eqn:Q; [|discriminate].
    assert (Hq : quote_byte q).
    { unfold is_quote in Q. apply orb_true_iff in Q. rewrite !N.eqb_eq in Q. exact Q. }
    destruct (scan_body (S (length r')) q r') as [[b rest']|] eqn:SB; [|discriminate].
    inversion H; subst.
    assert (Br' : bytes r').
    { apply bytes_app in B. destruct B as [_ B]. inversion B; assumption. }
    destruct (scan_body_wf q Hq _ _ _ _ Br' SB) as (body & -> & Wf & ->).
    split.
    - assert (S : lit_shape q (pre ++ q :: body ++ [q])).
      { exists pre, body. repeat split; auto. apply bytes_app in Br'. destruct Br' as [Br' _].
        apply bytes_app in Br'. tauto. }
      destruct Hq; subst; auto.
    - symmetry. rewrite <- (app_assoc pre). reflexivity. }
  destruct inp as [|a [|b r1]].
  - apply (G [] []); simpl; auto.
  - apply (G [] [a]); simpl; auto.
  - destruct (is_prefix_letter a && is_quote b) eqn:P.
    + apply andb_true_iff in P. destruct P as [P _]. unfold is_prefix_letter in P.
      apply (G [a] (b :: r1)); [|reflexivity].
      repeat (apply orb_true_iff in P; destruct P as [P|P]); apply N.eqb_eq in P; subst; simpl; auto 10.
    + destruct r1 as [|c r2]; [apply (G [] [a; b]); simpl; auto|].
      destruct ((a =? 117) && (b =? 56) && is_quote c) eqn:P8.
      * apply andb_true_iff in P8. destruct P8 as [P8 _]. apply andb_true_iff in P8. rewrite !N.eqb_eq in P8.
        destruct P8; subst. apply (G [117; 56] (c :: r2)); simpl; auto.
      * apply (G [] (a :: b :: c :: r2)); simpl; auto.
Qed.

(* ------------------------------------------------------------------ stringconcat on scanned tokens *)
Definition mk_string (pb : list N * list N) : list N := fst pb ++ 34 :: snd pb ++ [34].
Definition pre_kind (pre : list N) : kind :=
  match pre with
  | [117; 56] => K8 | [117] => Ku | [85] => KU | [76] => KL | _ => K0
  end.

Lemma tok_prefix_shape pre body : In pre prefixes ->
  tok_prefix (mk_string (pre, body) ++ [0]) = Some (pre_kind pre, 34 :: body ++ [34; 0]).
Proof.
  unfold mk_string, prefixes. cbn [fst snd In].
  intros [<-|[<-|[<-|[<-|[<-|[]]]]]]; cbn [app]; rewrite <- ?app_assoc; reflexivity.
Qed.

Lemma wf_nonzero q body : quote_byte q -> bytes body -> wf_body q body -> Forall (fun b => b <> 0) body.
Proof.
  intros Hq B W. induction W as [|b bs N1 N2 N3 N4 W IH|e bs S W IH|ds bs L F NE W IH|ds bs L F NE W IH].
  - constructor.
  - inversion B; subst. constructor; auto.
  - inversion B as [|? ? _ B1]; subst. inversion B1 as [|? ? Be Bb]; subst.
    constructor; [lia|]. constructor; auto.
    destruct (class_all e Be) as (_ & _ & _ & _ & Z). apply Z. rewrite S. apply orb_true_r.
  - inversion B as [|? ? _ B1]; subst. apply bytes_app in B1. destruct B1 as [Bd Bb].
    constructor; [lia|]. apply Forall_app. split; auto.
    clear -F Bd. induction ds; constructor; inversion F; inversion Bd; subst; auto.
    destruct (class_all a H5) as (_ & _ & _ & _ & Z). apply Z. rewrite H1. reflexivity.
  - inversion B as [|? ? _ B1]; subst. inversion B1 as [|? ? _ B2]; subst. apply bytes_app in B2. destruct B2 as [Bd Bb].
    constructor; [lia|]. constructor; [lia|]. apply Forall_app. split; auto.
    clear -F Bd. induction ds; constructor; inversion F; inversion Bd; subst; auto.
    destruct (class_all a H5) as (_ & _ & _ & _ & Z). apply Z. rewrite H1. rewrite orb_true_r. reflexivity.
Qed.

Lemma strlen_nonzero s r : Forall (fun b => b <> 0) s -> strlen (s ++ 0 :: r) = N.of_nat (length s).
Proof.
  induction s as [|b s IH]; intros F; [reflexivity|].
  inversion F; subst. cbn [app strlen length]. rewrite (eqb_false_of_ne b 0) by assumption.
  rewrite IH by assumption. lia.
Qed.

Definition tok_ok (pb : list N * list N) : Prop :=
  In (fst pb) prefixes /\ wf_body 34 (snd pb) /\ bytes (snd pb).

Fixpoint total_len (toks : list (list N * list N)) : N :=
  match toks with [] => 0 | pb :: r => N.of_nat (length (snd pb)) + total_len r end.

Lemma collect_safe toks : Forall tok_ok toks -> forall k len,
  collect (map mk_string toks) k len = inl EPrefix \/
  exists kf lf, collect (map mk_string toks) k len = inr (kf, lf, map (fun pb => snd pb ++ [34; 0]) toks) /\
                lf mod M64 = (len + total_len toks) mod M64.
Proof.
  assert (M : M64 <> 0) by (unfold M64; lia).
  induction toks as [|[pre body] ts IH]; intros F k len.
  - right. exists k, len. simpl. rewrite N.add_0_r. auto.
  - inversion F as [|? ? [Hp [Wf B]] F']; subst. cbn [fst snd] in *.
    cbn [map collect]. rewrite (tok_prefix_shape pre body Hp).
    destruct (negb (kind_eqb k (pre_kind pre)) && negb (kind_eqb k K0) && negb (kind_eqb (pre_kind pre) K0)); [left; reflexivity|].
    set (k' := if kind_eqb (pre_kind pre) K0 then k else pre_kind pre).
    assert (SL : strlen (34 :: body ++ [34; 0]) = N.of_nat (length body) + 2).
    { replace (34 :: body ++ [34; 0]) with ((34 :: body ++ [34]) ++ 0 :: []) by (simpl; rewrite <- app_assoc; reflexivity).
      rewrite strlen_nonzero.
      - simpl length. rewrite app_length. simpl. lia.
      - constructor; [lia|]. apply Forall_app. split; [apply (wf_nonzero 34); auto; left; reflexivity|]. constructor; [lia|constructor]. }
    rewrite SL.
    set (len' := (len + (N.of_nat (length body) + 2) + M64 - 2) mod M64).
    destruct (IH F' k' len') as [E | (kf & lf & E & C)]; rewrite E; [left; reflexivity|].
    right. exists kf, lf. split; [reflexivity|].
    rewrite C. unfold len'. cbn [total_len snd].
    replace (len + (N.of_nat (length body) + 2) + M64 - 2) with (len + N.of_nat (length body) + 1 * M64) by lia.
    rewrite N.mod_add by assumption.
    rewrite N.add_mod_idemp_l by assumption. f_equal. lia.
Qed.

Lemma decode_parts_safe w toks : width_ok w -> Forall tok_ok toks ->
  decode_parts (encoder w) (map (fun pb => snd pb ++ [34; 0]) toks) = PErr EUtf8 \/
  exists el, decode_parts (encoder w) (map (fun pb => snd pb ++ [34; 0]) toks) = POk el /\
             N.of_nat (length el) <= total_len toks.
Proof.
  intros W. induction toks as [|[pre body] ts IH]; intros F.
  - right. exists []. simpl. split; [reflexivity|lia].
  - inversion F as [|? ? [Hp [Wf B]] F']; subst. cbn [fst snd] in *. cbn [map decode_parts snd].
    assert (Bt : bytes [0]) by (constructor; [lia|constructor]).
    destruct (decode_part_safe w [0] W Bt (length body) body (S (length (body ++ [34; 0]))) (le_n _)
                ltac:(rewrite app_length; simpl; lia) B Wf) as [E | (el & E & L)]; rewrite E; [left; reflexivity|].
    destruct (IH F') as [E2 | (el2 & E2 & L2)]; rewrite E2; [left; reflexivity|].
    right. exists (el ++ el2). split; [reflexivity|]. rewrite app_length. cbn [total_len snd]. lia.
Qed.

(* Every sequence of string literal tokens the scanner can produce: stringconcat either reports
   differing prefixes or invalid UTF-8, or succeeds having written no more elements than it
   allocated (len, computed from strlen, in elements) - as long as the total length fits size_t. *)
Theorem stringconcat_safe tg toks f : Forall tok_ok toks ->
  match stringconcat tg (map mk_string toks) f with
  | SErr e => e = EPrefix \/ e = EUtf8
  | SOk t el size alloc => size = N.of_nat (length el) /\ (total_len toks + 1 < M64 -> size <= alloc)
  end.
Proof.
  intros F. unfold stringconcat.
  destruct (collect_safe toks F K0 0) as [E | (kf & lf & E & C)]; rewrite E; [left; reflexivity|].
  cbv zeta.
  set (k := if f then K8 else kf).
  pose proof (width_of_type tg k) as W.
  destruct (decode_parts_safe _ toks W F) as [E2 | (el & E2 & L)]; rewrite E2; [right; reflexivity|].
  rewrite (encoder_zero _ W). split; [reflexivity|]. intros Fit.
  assert (M : M64 <> 0) by (unfold M64; lia).
  rewrite <- N.add_mod_idemp_l by assumption. rewrite C. cbn [N.add]. rewrite N.add_mod_idemp_l by assumption.
  rewrite N.mod_small by lia. rewrite app_length. simpl. lia.
Qed.

(* ------------------------------------------------------------------ character constants *)
Definition mk_const (pb : list N * list N) : list N := fst pb ++ 39 :: snd pb ++ [39].

Theorem charconst_safe tg pre body : In pre prefixes -> wf_body 39 body -> bytes body ->
  match charconst tg (mk_const (pre, body)) with
  | COk _ _ => True
  | CErr e => e = EUtf8 \/ e = EMulti \/ e = ERepr
  end.
Proof.
  intros Hp Wf B. assert (Bt : bytes [0]) by (constructor; [lia|constructor]).
  assert (G : forall t (unp : bool),
    match
      match decodechar (body ++ [39; 0]) with
      | DErr e => CErr e
      | DOk chr ho rest =>
          if negb ho && negb unp && (ctype_size t <? 4) && negb (N.shiftr chr (8 * ctype_size t) =? 0) then CErr ERepr
          else match rest with
               | [] => CErr EOver
               | c :: _ => if c =? 39 then COk t (if ho && unp && signedchar tg then sext8_u64 chr
                                                  else if ctype_eqb t TInt then sext32_u64 chr else chr) else CErr EMulti
               end
      end
    with COk _ _ => True | CErr e => e = EUtf8 \/ e = EMulti \/ e = ERepr end).
  { intros t unp. destruct body as [|b bs].
    - (* empty constant: the quote itself is decoded, then the NUL is not a quote *)
      destruct t, unp; vm_compute; auto.
    - destruct (decode_step 4 39 (b :: bs) [0] (or_intror (or_intror eq_refl)) (or_intror eq_refl) B Bt Wf ltac:(discriminate))
        as [D | (chr & ho & body' & u & D & W' & B' & E & L1 & L2)].
      + replace ((b :: bs) ++ [39; 0]) with ((b :: bs) ++ 39 :: [0]) by reflexivity. rewrite D. auto.
      + replace ((b :: bs) ++ [39; 0]) with ((b :: bs) ++ 39 :: [0]) by reflexivity. rewrite D.
        destruct (negb ho && negb unp && (ctype_size t <? 4) && negb (N.shiftr chr (8 * ctype_size t) =? 0)); [auto|].
        destruct body' as [|c r]; simpl.
        * exact I.
        * pose proof (wf_head_not_quote 39 _ (or_intror eq_refl) W') as Nq. simpl in Nq.
          rewrite (eqb_false_of_ne c 39 Nq). auto. }
  unfold charconst, mk_const, prefixes in *. cbn [fst snd In] in *.
  destruct Hp as [<-|[<-|[<-|[<-|[<-|[]]]]]]; cbn [app]; rewrite <- ?app_assoc; cbn [app]; apply G.
Qed.
