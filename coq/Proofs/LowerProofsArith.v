(* LowerProofsArith.v - arithmetic facts that relate Qbe.v's value functions (wrapk, signedk, sextm, eval_ibin,
   eval_cmpi) to Lib/Wrap.v's wrap/sext and to the C specification of Spec/CArith.v. *)
From Coq Require Import ZArith List Bool PArith Lia.
From Cproc Require Import Lib.Wrap Model.Qbe Spec.CArith Spec.Csem.
Local Open Scope Z_scope.

Lemma two8_eq : two8 = 2 ^ 8. Proof. reflexivity. Qed.
Lemma two16_eq : two16 = 2 ^ 16. Proof. reflexivity. Qed.
Lemma two32_eq : two32 = 2 ^ 32. Proof. reflexivity. Qed.
Lemma two64_eq : two64 = 2 ^ 64. Proof. reflexivity. Qed.
Lemma two31_eq : two31 = 2 ^ 31. Proof. reflexivity. Qed.
Lemma two63_eq : two63 = 2 ^ 63. Proof. reflexivity. Qed.

Lemma modk_pow k : modk k = 2 ^ bitsk k.
Proof. destruct k; reflexivity. Qed.
Lemma halfk_pow k : halfk k = 2 ^ (bitsk k - 1).
Proof. destruct k; reflexivity. Qed.
Lemma bitsk_pos k : 0 < bitsk k.
Proof. destruct k; reflexivity. Qed.
Lemma wrapk_wrap k x : wrapk k x = wrap (bitsk k) x.
Proof. unfold wrapk, wrap. rewrite modk_pow. reflexivity. Qed.

Lemma sextm_sext n x : 0 < n -> sextm (2 ^ n) x = sext n x.
Proof.
  intros Hn. unfold sextm, sext. cbv zeta. rewrite (pow2_half n Hn).
  pose proof (pow2_pos (n - 1)).
  destruct (Z.ltb_spec (2 * (x mod (2 * 2 ^ (n - 1)))) (2 * 2 ^ (n - 1)));
  destruct (Z.ltb_spec (x mod (2 * 2 ^ (n - 1))) (2 ^ (n - 1))); lia.
Qed.

Lemma signedk_sext k x : 0 <= x < modk k -> signedk k x = sext (bitsk k) x.
Proof.
  intros Hx. unfold signedk, sext. cbv zeta. rewrite halfk_pow, modk_pow in *.
  rewrite Z.mod_small by assumption. reflexivity.
Qed.

(* ---------- congruences modulo 2^n (as in Proofs/EvalProofs.v) ---------- *)
Lemma wrap_add_congr n a a' b b' : 0 <= n -> wrap n a = wrap n a' -> wrap n b = wrap n b' ->
  wrap n (a + b) = wrap n (a' + b').
Proof.
  unfold wrap. intros Hn E1 E2. pose proof (pow2_pos n Hn).
  rewrite (Z.add_mod a b), (Z.add_mod a' b'), E1, E2 by lia. reflexivity.
Qed.
Lemma wrap_sub_congr n a a' b b' : 0 <= n -> wrap n a = wrap n a' -> wrap n b = wrap n b' ->
  wrap n (a - b) = wrap n (a' - b').
Proof.
  unfold wrap. intros Hn E1 E2. pose proof (pow2_pos n Hn).
  rewrite (Zminus_mod a b), (Zminus_mod a' b'), E1, E2. reflexivity.
Qed.
Lemma wrap_mul_congr n a a' b b' : 0 <= n -> wrap n a = wrap n a' -> wrap n b = wrap n b' ->
  wrap n (a * b) = wrap n (a' * b').
Proof.
  unfold wrap. intros Hn E1 E2. pose proof (pow2_pos n Hn).
  rewrite (Z.mul_mod a b), (Z.mul_mod a' b'), E1, E2 by lia. reflexivity.
Qed.
Lemma wrap_opp_congr n a a' : 0 <= n -> wrap n a = wrap n a' -> wrap n (- a) = wrap n (- a').
Proof.
  intros Hn E. replace (- a) with (0 - a) by lia. replace (- a') with (0 - a') by lia.
  apply wrap_sub_congr; auto.
Qed.

(* narrowing a congruence *)
Lemma wrap_narrow n m a b : 0 <= n <= m -> wrap m a = wrap m b -> wrap n a = wrap n b.
Proof. intros H E. rewrite <- (wrap_wrap_le n m a), <- (wrap_wrap_le n m b), E by assumption. reflexivity. Qed.

(* ---------- the integer types ---------- *)
Lemma wf_ity_of t : wf_ity (ity_of t).
Proof. destruct t as [[] ?| | | |]; unfold wf_ity; simpl; lia. Qed.

Lemma width_ity_of t : width (ity_of t) = sbits t.
Proof. reflexivity. Qed.

Lemma sbits_bounds t : 8 <= sbits t <= 64.
Proof. destruct t as [[] ?| | | |]; unfold sbits; simpl; lia. Qed.

Lemma conv_spec_alt k v : conv_spec k v = if isigned k then sext (width k) v else wrap (width k) v.
Proof. reflexivity. Qed.

Lemma in_range_signed t v : ssigned t = true -> in_range (ity_of t) v ->
  - 2 ^ (sbits t - 1) <= v < 2 ^ (sbits t - 1).
Proof.
  intros Hs [A B]. unfold tmin, tmax in *. simpl in *. rewrite Hs in *. rewrite width_ity_of in *. lia.
Qed.

Lemma in_range_unsigned t v : ssigned t = false -> in_range (ity_of t) v -> 0 <= v < 2 ^ sbits t.
Proof.
  intros Hs [A B]. unfold tmin, tmax in *. simpl in *. rewrite Hs in *. rewrite width_ity_of in *. lia.
Qed.

Lemma conv_spec_range t v : in_range (ity_of t) (conv_spec (ity_of t) v).
Proof.
  pose proof (sbits_bounds t). rewrite conv_spec_alt. unfold in_range, tmin, tmax.
  rewrite width_ity_of. simpl. destruct (ssigned t).
  - pose proof (sext_range (sbits t) v ltac:(lia)). lia.
  - pose proof (wrap_range (sbits t) v ltac:(lia)). lia.
Qed.

Lemma conv_spec_wrap t v : wrap (sbits t) (conv_spec (ity_of t) v) = wrap (sbits t) v.
Proof.
  pose proof (sbits_bounds t). rewrite conv_spec_alt, width_ity_of. simpl.
  destruct (ssigned t); [apply sext_wrap; lia|apply wrap_wrap; lia].
Qed.

Lemma conv_spec_id t v : in_range (ity_of t) v -> conv_spec (ity_of t) v = v.
Proof.
  intros Hr. pose proof (sbits_bounds t). rewrite conv_spec_alt, width_ity_of. simpl.
  destruct (ssigned t) eqn:Hs.
  - apply sext_id; [lia|]. apply in_range_signed; assumption.
  - apply wrap_id. apply in_range_unsigned; assumption.
Qed.

(* a value in the range of its type is determined by its low bits *)
Lemma in_range_sext t v : ssigned t = true -> in_range (ity_of t) v -> sext (sbits t) v = v.
Proof. intros Hs Hr. pose proof (sbits_bounds t). apply sext_id; [lia|]. apply in_range_signed; assumption. Qed.
Lemma in_range_wrap t v : ssigned t = false -> in_range (ity_of t) v -> wrap (sbits t) v = v.
Proof. intros Hs Hr. apply wrap_id. apply in_range_unsigned; assumption. Qed.

Lemma c_in_range_in_range t v : c_in_range t v -> in_range (ity_of t) v.
Proof.
  destruct t; simpl; auto. intros [-> | ->]; unfold in_range, tmin, tmax; simpl; lia.
Qed.

(* the register contents of a represented in-range value, recovered by extension *)
Lemma repr_sext t v x : ssigned t = true -> c_in_range t v -> repr t v x -> sext (sbits t) x = v.
Proof.
  intros Hs Hr E. pose proof (sbits_bounds t). unfold repr in E.
  rewrite (sext_congr (sbits t) x v) by (lia || assumption).
  apply in_range_sext; [assumption|]. apply c_in_range_in_range; assumption.
Qed.
Lemma repr_wrap t v x : ssigned t = false -> c_in_range t v -> repr t v x -> wrap (sbits t) x = v.
Proof.
  intros Hs Hr E. unfold repr in E. rewrite E.
  apply in_range_wrap; [assumption|]. apply c_in_range_in_range; assumption.
Qed.

Lemma arith_result_inv k x v : wf_ity k -> arith_result k x = Some v ->
  wrap (width k) v = wrap (width k) x /\ in_range k v.
Proof.
  intros Hk. unfold arith_result. assert (0 < width k) by (unfold wf_ity, width in *; lia).
  destruct (isigned k) eqn:Hs.
  - destruct (in_rangeb k x) eqn:E; [|discriminate]. intros [= <-]. split; [reflexivity|].
    unfold in_rangeb in E. apply andb_prop in E as [A B]. apply Z.leb_le in A, B. split; assumption.
  - intros [= <-]. split.
    + apply (wrap_wrap (width k) x). lia.
    + unfold in_range, tmin, tmax. rewrite Hs.
      pose proof (Z.mod_pos_bound x (2 ^ width k) ltac:(apply pow2_pos; lia)). lia.
Qed.

Lemma c_convert_range dst v : intlike dst = true -> c_in_range dst (c_convert dst v).
Proof.
  intros Hd. destruct dst; try discriminate; simpl; try apply (conv_spec_range _ v).
  unfold conv_bool_spec. destruct (v =? 0); simpl; auto.
Qed.
