(* LowerProofsBin.v - binop_correct: the opcode funcexpr selects for a binary operator on promoted integer
   operands computes what C11 6.5.5-6.5.12 prescribe whenever the result is defined, for all operand values.
   Also: the operators that only need the low bits (their results are right on sub-int representations too),
   and the witness that the comparison opcodes are NOT right on unextended sub-int operands. *)
From Coq Require Import ZArith List Bool PArith Lia FMapPositive.
From Cproc Require Import Lib.Wrap Model.Qbe Spec.CArith Spec.Csem Model.Lower
  Proofs.LowerProofsExec Proofs.LowerProofsArith Proofs.LowerProofsConv.
Import ListNotations.
Local Open Scope Z_scope.

Lemma prom_facts t : promoted t = true ->
  bitsk (qbase t) = sbits t /\ isint (qbase t) = true /\ modk (qbase t) = 2 ^ sbits t /\
  32 <= sbits t <= 64 /\ width (ity_of t) = sbits t /\ isigned (ity_of t) = ssigned t /\
  (forall v, c_in_range t v <-> in_range (ity_of t) v).
Proof.
  destruct t as [[] ?| | | |]; try discriminate; intros _;
    repeat (split; [first [reflexivity | unfold sbits; simpl; lia]|]); intros v; simpl; tauto.
Qed.

Section Promoted.
Variable t : sty.
Hypothesis Hp : promoted t = true.
Let k := qbase t.
Let N := sbits t.

Lemma Nk : bitsk k = N. Proof. apply (prom_facts t Hp). Qed.
Lemma Nbounds : 32 <= N <= 64. Proof. apply (prom_facts t Hp). Qed.
Lemma modkN : modk k = 2 ^ N. Proof. apply (prom_facts t Hp). Qed.
Lemma halfkN : halfk k = 2 ^ (N - 1). Proof. rewrite halfk_pow, Nk. reflexivity. Qed.
Lemma wrapkN z : wrapk k z = wrap N z. Proof. rewrite wrapk_wrap, Nk. reflexivity. Qed.

Lemma exact_w a x : repr t a x -> 0 <= x < modk k -> x = wrap N a.
Proof. intros E R. rewrite modkN in R. unfold repr in E. fold N in E. rewrite <- E. symmetry. apply wrap_id; assumption. Qed.

Lemma exact_u a x : ssigned t = false -> c_in_range t a -> repr t a x -> 0 <= x < modk k -> x = a.
Proof.
  intros Hs Hr E R. rewrite (exact_w a x E R). apply in_range_wrap; [assumption|]. apply c_in_range_in_range; assumption.
Qed.

Lemma exact_s a x : ssigned t = true -> c_in_range t a -> repr t a x -> 0 <= x < modk k -> signedk k x = a.
Proof.
  intros Hs Hr E R. rewrite signedk_sext by assumption. rewrite Nk. apply repr_sext; assumption.
Qed.

Lemma range_s a : ssigned t = true -> c_in_range t a -> - 2 ^ (N - 1) <= a < 2 ^ (N - 1).
Proof. intros Hs Hr. apply in_range_signed; [assumption|apply c_in_range_in_range; assumption]. Qed.
Lemma range_u a : ssigned t = false -> c_in_range t a -> 0 <= a < 2 ^ N.
Proof. intros Hs Hr. apply in_range_unsigned; [assumption|apply c_in_range_in_range; assumption]. Qed.

Lemma mk_range_s a : ssigned t = true -> - 2 ^ (N - 1) <= a < 2 ^ (N - 1) -> c_in_range t a.
Proof.
  intros Hs R. apply (prom_facts t Hp). unfold in_range, tmin, tmax. rewrite width_ity_of. cbn [isigned ity_of]. rewrite Hs. fold N. lia.
Qed.
Lemma mk_range_u a : ssigned t = false -> 0 <= a < 2 ^ N -> c_in_range t a.
Proof.
  intros Hs R. apply (prom_facts t Hp). unfold in_range, tmin, tmax. rewrite width_ity_of. cbn [isigned ity_of]. rewrite Hs. fold N. lia.
Qed.

(* a result congruent to the mathematical one represents the value arith_result yields *)
Lemma res_congr z v x' : arith_result (ity_of t) z = Some v -> wrap N x' = wrap N z -> repr t v x' /\ c_in_range t v.
Proof.
  intros A W. destruct (arith_result_inv _ _ _ (wf_ity_of t) A) as [E R]. rewrite width_ity_of in E. fold N in E.
  split; [unfold repr; fold N; congruence|apply (prom_facts t Hp); assumption].
Qed.

Lemma arith_signed z v : ssigned t = true -> arith_result (ity_of t) z = Some v -> v = z /\ - 2 ^ (N - 1) <= z < 2 ^ (N - 1).
Proof.
  intros Hs. unfold arith_result. simpl. rewrite Hs. destruct (in_rangeb (ity_of t) z) eqn:B; [|discriminate].
  intros [= <-]. split; [reflexivity|]. unfold in_rangeb, tmin, tmax in B. simpl in B. rewrite Hs in B.
  rewrite width_ity_of in B. fold N in B. apply andb_prop in B as [B1 B2]. apply Z.leb_le in B1, B2. lia.
Qed.

(* ---------- add, sub, mul ---------- *)
Lemma add_sound a b x y v : repr t a x -> repr t b y -> arith_result (ity_of t) (a + b) = Some v ->
  repr t v (wrapk k (x + y)) /\ c_in_range t v.
Proof.
  intros E1 E2 A. apply (res_congr _ _ _ A). pose proof Nbounds. rewrite wrapkN, wrap_wrap by lia.
  apply wrap_add_congr; [lia|exact E1|exact E2].
Qed.
Lemma sub_sound a b x y v : repr t a x -> repr t b y -> arith_result (ity_of t) (a - b) = Some v ->
  repr t v (wrapk k (x - y)) /\ c_in_range t v.
Proof.
  intros E1 E2 A. apply (res_congr _ _ _ A). pose proof Nbounds. rewrite wrapkN, wrap_wrap by lia.
  apply wrap_sub_congr; [lia|exact E1|exact E2].
Qed.
Lemma mul_sound a b x y v : repr t a x -> repr t b y -> arith_result (ity_of t) (a * b) = Some v ->
  repr t v (wrapk k (x * y)) /\ c_in_range t v.
Proof.
  intros E1 E2 A. apply (res_congr _ _ _ A). pose proof Nbounds. rewrite wrapkN, wrap_wrap by lia.
  apply wrap_mul_congr; [lia|exact E1|exact E2].
Qed.
Lemma neg_sound a x v : repr t a x -> arith_result (ity_of t) (- a) = Some v ->
  repr t v (wrapk k (- x)) /\ c_in_range t v.
Proof.
  intros E1 A. apply (res_congr _ _ _ A). pose proof Nbounds. rewrite wrapkN, wrap_wrap by lia.
  apply wrap_opp_congr; [lia|exact E1].
Qed.

(* ---------- division and remainder ---------- *)
Lemma nonzero_s b y : ssigned t = true -> c_in_range t b -> repr t b y -> 0 <= y < modk k -> b <> 0 -> (y =? 0) = false.
Proof.
  intros Hs Hr E R NZ. apply Z.eqb_neq. intros ->. apply NZ. rewrite <- (exact_s b 0 Hs Hr E R).
  unfold signedk. rewrite halfkN. pose proof Nbounds. pose proof (pow2_pos (N - 1) ltac:(lia)).
  destruct (Z.ltb_spec 0 (2 ^ (N - 1))); lia.
Qed.

Lemma trap_guard_s a b : ssigned t = true -> - 2 ^ (N - 1) <= Z.quot a b < 2 ^ (N - 1) ->
  ((a =? - halfk k) && (b =? -1)) = false.
Proof.
  intros Hs R. rewrite halfkN. destruct (Z.eqb_spec a (- 2 ^ (N - 1))) as [->|]; [|reflexivity].
  destruct (Z.eqb_spec b (-1)) as [->|]; [|reflexivity]. exfalso.
  change (-1) with (Z.opp 1) in R. rewrite Z.quot_opp_opp, Z.quot_1_r in R by lia.
  pose proof Nbounds. pose proof (pow2_pos (N - 1) ltac:(lia)). lia.
Qed.

Lemma div_s_sound a b x y v :
  ssigned t = true -> c_in_range t a -> c_in_range t b -> repr t a x -> repr t b y ->
  0 <= x < modk k -> 0 <= y < modk k ->
  binop_spec Div (ity_of t) a b = Some v ->
  exists x', eval_ibin Bdiv k x y = Some x' /\ 0 <= x' < modk k /\ repr t v x' /\ c_in_range t v.
Proof.
  intros Hs Ra Rb Ea Eb Rx Ry S. unfold binop_spec in S.
  destruct (Z.eqb_spec b 0) as [|NZ]; [discriminate|].
  destruct (arith_signed _ _ Hs S) as [-> Rq].
  exists (wrapk k (Z.quot a b)). unfold eval_ibin.
  rewrite (exact_s a x Hs Ra Ea Rx), (exact_s b y Hs Rb Eb Ry), (nonzero_s b y Hs Rb Eb Ry NZ),
    (trap_guard_s a b Hs Rq). cbn [orb].
  split; [reflexivity|]. split; [apply wrapk_range|]. apply (res_congr _ _ _ S).
  pose proof Nbounds. rewrite wrapkN. apply wrap_wrap. lia.
Qed.

Lemma rem_range_s a b : b <> 0 -> - 2 ^ (N - 1) <= a < 2 ^ (N - 1) -> - 2 ^ (N - 1) <= Z.rem a b < 2 ^ (N - 1).
Proof.
  intros NZ R. pose proof (Z.rem_abs a b NZ) as A.
  pose proof (Z.rem_bound_pos (Z.abs a) (Z.abs b) ltac:(lia) ltac:(lia)).
  assert (Z.rem (Z.abs a) (Z.abs b) <= Z.abs a).
  { apply Z.rem_le; lia. }
  pose proof (Z.rem_sign_mul a b NZ). nia.
Qed.

Lemma rem_s_sound a b x y v :
  ssigned t = true -> c_in_range t a -> c_in_range t b -> repr t a x -> repr t b y ->
  0 <= x < modk k -> 0 <= y < modk k ->
  binop_spec Mod (ity_of t) a b = Some v ->
  exists x', eval_ibin Brem k x y = Some x' /\ 0 <= x' < modk k /\ repr t v x' /\ c_in_range t v.
Proof.
  intros Hs Ra Rb Ea Eb Rx Ry S. unfold binop_spec in S.
  destruct (Z.eqb_spec b 0) as [|NZ]; [discriminate|].
  destruct (in_rangeb (ity_of t) (Z.quot a b)) eqn:B; [|discriminate]. injection S as <-.
  assert (Rq : - 2 ^ (N - 1) <= Z.quot a b < 2 ^ (N - 1)).
  { unfold in_rangeb, tmin, tmax in B. simpl in B. rewrite Hs in B. rewrite width_ity_of in B. fold N in B.
    apply andb_prop in B as [B1 B2]. apply Z.leb_le in B1, B2. lia. }
  exists (wrapk k (Z.rem a b)). unfold eval_ibin.
  rewrite (exact_s a x Hs Ra Ea Rx), (exact_s b y Hs Rb Eb Ry), (nonzero_s b y Hs Rb Eb Ry NZ),
    (trap_guard_s a b Hs Rq). cbn [orb].
  split; [reflexivity|]. split; [apply wrapk_range|]. pose proof Nbounds. split.
  - unfold repr. fold N. rewrite wrapkN. apply wrap_wrap. lia.
  - apply (mk_range_s _ Hs). apply rem_range_s; [assumption|apply range_s; assumption].
Qed.

Lemma div_u_sound a b x y v :
  ssigned t = false -> c_in_range t a -> c_in_range t b -> repr t a x -> repr t b y ->
  0 <= x < modk k -> 0 <= y < modk k ->
  binop_spec Div (ity_of t) a b = Some v ->
  exists x', eval_ibin Budiv k x y = Some x' /\ 0 <= x' < modk k /\ repr t v x' /\ c_in_range t v.
Proof.
  intros Hs Ra Rb Ea Eb Rx Ry S. unfold binop_spec in S.
  destruct (Z.eqb_spec b 0) as [|NZ]; [discriminate|].
  rewrite (exact_u a x Hs Ra Ea Rx), (exact_u b y Hs Rb Eb Ry) in *.
  pose proof (range_u a Hs Ra). pose proof (range_u b Hs Rb).
  exists (a / b). unfold eval_ibin. destruct (Z.eqb_spec b 0); [contradiction|].
  assert (0 <= a / b <= a).
  { split; [apply Z.div_pos; lia|]. apply Z.div_le_upper_bound; [lia|]. nia. }
  split; [reflexivity|]. split; [rewrite modkN; lia|].
  apply (res_congr _ _ _ S). rewrite Z.quot_div_nonneg by lia. reflexivity.
Qed.

Lemma rem_u_sound a b x y v :
  ssigned t = false -> c_in_range t a -> c_in_range t b -> repr t a x -> repr t b y ->
  0 <= x < modk k -> 0 <= y < modk k ->
  binop_spec Mod (ity_of t) a b = Some v ->
  exists x', eval_ibin Burem k x y = Some x' /\ 0 <= x' < modk k /\ repr t v x' /\ c_in_range t v.
Proof.
  intros Hs Ra Rb Ea Eb Rx Ry S. unfold binop_spec in S.
  destruct (Z.eqb_spec b 0) as [|NZ]; [discriminate|].
  destruct (in_rangeb (ity_of t) (Z.quot a b)); [|discriminate]. injection S as <-.
  rewrite (exact_u a x Hs Ra Ea Rx), (exact_u b y Hs Rb Eb Ry) in *.
  pose proof (range_u a Hs Ra). pose proof (range_u b Hs Rb).
  exists (a mod b). unfold eval_ibin. destruct (Z.eqb_spec b 0); [contradiction|].
  pose proof (Z.mod_pos_bound a b ltac:(lia)).
  rewrite Z.rem_mod_nonneg by lia.
  split; [reflexivity|]. split; [rewrite modkN; lia|]. split; [reflexivity|].
  apply (mk_range_u _ Hs). lia.
Qed.

(* ---------- shifts: c is the count as the instruction sees it ---------- *)
Lemma shift_guard b : (0 <=? b) && (b <? width (ity_of t)) = true -> 0 <= b < N.
Proof. intros G. apply andb_prop in G as [G1 G2]. apply Z.leb_le in G1. apply Z.ltb_lt in G2. rewrite width_ity_of in G2. fold N in G2. lia. Qed.

Lemma shl_sound a b x yw v :
  c_in_range t a -> repr t a x -> 0 <= x < modk k -> (0 <= b < N -> yw = b) ->
  binop_spec Shl (ity_of t) a b = Some v ->
  exists x', eval_ibin Bshl k x yw = Some x' /\ 0 <= x' < modk k /\ repr t v x' /\ c_in_range t v.
Proof.
  intros Ra Ea Rx Hy S. unfold binop_spec in S.
  destruct ((0 <=? b) && (b <? width (ity_of t))) eqn:G; [|discriminate].
  pose proof (shift_guard b G) as Rb. rewrite (Hy Rb). pose proof Nbounds.
  exists (wrapk k (x * 2 ^ b)). unfold eval_ibin. rewrite Nk, Z.mod_small by lia.
  split; [reflexivity|]. split; [apply wrapk_range|].
  assert (W : wrap N (wrapk k (x * 2 ^ b)) = wrap N (a * 2 ^ b)).
  { rewrite wrapkN, wrap_wrap by lia. apply wrap_mul_congr; [lia|exact Ea|reflexivity]. }
  simpl in S. destruct (ssigned t) eqn:Hs.
  - destruct ((0 <=? a) && (a * 2 ^ b <=? tmax (ity_of t))) eqn:G2; [|discriminate]. injection S as <-.
    split; [exact W|]. apply andb_prop in G2 as [G3 G4]. apply Z.leb_le in G3, G4.
    unfold tmax in G4. simpl in G4. rewrite Hs, width_ity_of in G4. fold N in G4.
    apply (mk_range_s _ Hs). pose proof (pow2_pos b ltac:(lia)). pose proof (pow2_pos (N - 1) ltac:(lia)). nia.
  - injection S as <-. rewrite width_ity_of. fold N. split.
    + unfold repr. fold N. rewrite W. symmetry. apply (wrap_wrap N). lia.
    + apply (mk_range_u _ Hs). apply Z.mod_pos_bound. apply pow2_pos. lia.
Qed.

Lemma div_pow2_range lo hi z p : lo <= 0 -> 0 <= hi -> lo <= z <= hi -> 0 < p -> lo <= z / p <= hi.
Proof.
  intros Hlo Hhi Hz Hp'. pose proof (Z.div_mod z p ltac:(lia)). pose proof (Z.mod_pos_bound z p Hp').
  destruct (Z_lt_le_dec z 0); nia.
Qed.

Lemma shr_sound a b x yw v :
  c_in_range t a -> repr t a x -> 0 <= x < modk k -> (0 <= b < N -> yw = b) ->
  binop_spec Shr (ity_of t) a b = Some v ->
  exists x', eval_ibin (if ssigned t then Bsar else Bshr) k x yw = Some x' /\ 0 <= x' < modk k /\ repr t v x' /\ c_in_range t v.
Proof.
  intros Ra Ea Rx Hy S. unfold binop_spec in S.
  destruct ((0 <=? b) && (b <? width (ity_of t))) eqn:G; [|discriminate]. injection S as <-.
  pose proof (shift_guard b G) as Rb. rewrite (Hy Rb). pose proof Nbounds.
  pose proof (pow2_pos b ltac:(lia)). pose proof (pow2_pos (N - 1) ltac:(lia)).
  destruct (ssigned t) eqn:Hs.
  - exists (wrapk k (a / 2 ^ b)). unfold eval_ibin. rewrite Nk, Z.mod_small by lia.
    rewrite (exact_s a x Hs Ra Ea Rx).
    split; [reflexivity|]. split; [apply wrapk_range|]. split.
    + unfold repr. fold N. rewrite wrapkN. apply wrap_wrap. lia.
    + apply (mk_range_s _ Hs). pose proof (range_s a Hs Ra).
      pose proof (div_pow2_range (- 2 ^ (N - 1)) (2 ^ (N - 1) - 1) a (2 ^ b) ltac:(lia) ltac:(lia) ltac:(lia) ltac:(lia)). lia.
  - exists (a / 2 ^ b). unfold eval_ibin. rewrite Nk, Z.mod_small by lia.
    rewrite (exact_u a x Hs Ra Ea Rx). pose proof (range_u a Hs Ra).
    pose proof (div_pow2_range 0 (2 ^ N - 1) a (2 ^ b) ltac:(lia) ltac:(lia) ltac:(lia) ltac:(lia)).
    split; [reflexivity|]. split; [rewrite modkN; lia|]. split; [reflexivity|].
    apply (mk_range_u _ Hs). lia.
Qed.

(* ---------- bitwise ---------- *)
Lemma bit_range (f : Z -> Z -> Z) a b :
  (forall m x y, 0 <= m -> - 2 ^ m <= x < 2 ^ m -> - 2 ^ m <= y < 2 ^ m -> - 2 ^ m <= f x y < 2 ^ m) ->
  (forall n x y, 0 <= n -> 0 <= x < 2 ^ n -> 0 <= y < 2 ^ n -> 0 <= f x y < 2 ^ n) ->
  c_in_range t a -> c_in_range t b -> c_in_range t (f a b).
Proof.
  intros FS FU Ra Rb. pose proof Nbounds. destruct (ssigned t) eqn:Hs.
  - apply (mk_range_s _ Hs). apply FS; [lia|apply range_s; assumption|apply range_s; assumption].
  - apply (mk_range_u _ Hs). apply FU; [lia|apply range_u; assumption|apply range_u; assumption].
Qed.

Lemma bit_repr (f : Z -> Z -> Z) a b x y :
  (forall n p q, 0 <= n -> wrap n (f p q) = f (wrap n p) (wrap n q)) ->
  repr t a x -> repr t b y -> repr t (f a b) (f x y).
Proof.
  intros W E1 E2. unfold repr in E1, E2 |- *. fold N in E1, E2 |- *. pose proof Nbounds. rewrite !W by lia. rewrite E1, E2. reflexivity.
Qed.

Lemma bit_val_range (f : Z -> Z -> Z) x y :
  (forall n p q, 0 <= n -> 0 <= p < 2 ^ n -> 0 <= q < 2 ^ n -> 0 <= f p q < 2 ^ n) ->
  0 <= x < modk k -> 0 <= y < modk k -> 0 <= f x y < modk k.
Proof. intros FU Rx Ry. rewrite modkN in *. pose proof Nbounds. apply FU; [lia|assumption|assumption]. Qed.

(* ---------- comparisons ---------- *)
Lemma eq_sound a b x y : c_in_range t a -> c_in_range t b -> repr t a x -> repr t b y ->
  0 <= x < modk k -> 0 <= y < modk k -> (x =? y) = (a =? b).
Proof.
  intros Ra Rb Ea Eb Rx Ry. destruct (ssigned t) eqn:Hs.
  - pose proof (exact_s a x Hs Ra Ea Rx) as Sa. pose proof (exact_s b y Hs Rb Eb Ry) as Sb.
    destruct (Z.eqb_spec x y) as [->|NE]; destruct (Z.eqb_spec a b) as [->|NE']; try reflexivity.
    + exfalso. apply NE'. congruence.
    + exfalso. apply NE. rewrite (exact_w _ _ Ea Rx), (exact_w _ _ Eb Ry). reflexivity.
  - rewrite (exact_u a x Hs Ra Ea Rx), (exact_u b y Hs Rb Eb Ry). reflexivity.
Qed.

End Promoted.

(* ------------------------------------------------------------------ the count of a shift *)
Lemma shift_count tr b y : promoted tr = true -> c_in_range tr b -> repr tr b y -> 0 <= y < modk (qbase tr) ->
  0 <= b < 64 -> y = b /\ y mod two32 = b.
Proof.
  intros Hp Rb Eb Ry Hb. pose proof (Nbounds tr Hp).
  assert (y = b).
  { rewrite (exact_w tr Hp b y Eb Ry). apply wrap_id.
    pose proof (pow2_le_mono 6 (sbits tr) ltac:(lia)). change (2 ^ 6) with 64 in *. lia. }
  subst y. split; [reflexivity|]. apply Z.mod_small. unfold two32. lia.
Qed.

(* ------------------------------------------------------------------ the theorem *)
Definition cmp_of (o : CArith.binop) (sg : bool) : option cmpi :=
  match o with
  | CLt => Some (if sg then Cslt else Cult) | CGt => Some (if sg then Csgt else Cugt)
  | CLe => Some (if sg then Csle else Cule) | CGe => Some (if sg then Csge else Cuge)
  | CEq => Some Ceq | CNe => Some Cne | _ => None end.

Lemma b2z_repr_int b : repr (SInt I4 true) (CArith.b2z b) (Qbe.b2z b) /\ c_in_range (SInt I4 true) (CArith.b2z b).
Proof. destruct b; split; try reflexivity; cbv; split; congruence. Qed.

Lemma cmp_sound t o a b x y v c :
  promoted t = true -> c_in_range t a -> c_in_range t b -> repr t a x -> repr t b y ->
  0 <= x < modk (qbase t) -> 0 <= y < modk (qbase t) ->
  cmp_of o (ssigned t) = Some c -> binop_spec o (ity_of t) a b = Some v ->
  repr (SInt I4 true) v (Qbe.b2z (eval_cmpi c (qbase t) x y)) /\ c_in_range (SInt I4 true) v.
Proof.
  intros Hp Ra Rb Ea Eb Rx Ry C S.
  pose proof (eq_sound t Hp a b x y Ra Rb Ea Eb Rx Ry) as EQ.
  destruct (ssigned t) eqn:Hs.
  - pose proof (exact_s t Hp a x Hs Ra Ea Rx) as Sa. pose proof (exact_s t Hp b y Hs Rb Eb Ry) as Sb.
    destruct o; try discriminate; injection C as <-; injection S as <-; unfold eval_cmpi;
      rewrite ?Sa, ?Sb, ?EQ; apply b2z_repr_int.
  - pose proof (exact_u t Hp a x Hs Ra Ea Rx) as Sa. pose proof (exact_u t Hp b y Hs Rb Eb Ry) as Sb.
    destruct o; try discriminate; injection C as <-; injection S as <-; unfold eval_cmpi;
      rewrite ?EQ; subst x y; apply b2z_repr_int.
Qed.

Theorem binop_correct fo o t tr env m l r n x y a b v :
  promoted t = true -> (if is_shift o then promoted tr = true else tr = t) ->
  read env (qbase t) l = Ok x -> 0 <= x < modk (qbase t) -> repr t a x -> c_in_range t a ->
  read env (qbase tr) r = Ok y -> 0 <= y < modk (qbase tr) -> repr tr b y -> c_in_range tr b ->
  binop_spec o (ity_of t) a b = Some v ->
  exists env' x',
    exec fo (env, m) (snd (fst (gbinop o t l r n))) = Ok (env', m) /\
    read env' (binop_cls o t) (fst (fst (gbinop o t l r n))) = Ok x' /\
    0 <= x' < modk (binop_cls o t) /\
    repr (binop_rty o t) v x' /\ c_in_range (binop_rty o t) v /\
    agree_below n env env' /\ ref_lt (snd (gbinop o t l r n)) (fst (fst (gbinop o t l r n))) /\
    (n <= snd (gbinop o t l r n))%positive.
Proof.
  intros Hp Htr Rl Rx Ea Ra Rr Ry Eb Rb S.
  unfold gbinop, ginst. cbn [fst snd].
  (* reduce to: the instruction evaluates to some x' with the wanted properties *)
  enough (exists x', eval_pure fo env (binop_op o t) (binop_cls o t) l (Some r) = Ok x' /\
            0 <= x' < modk (binop_cls o t) /\ repr (binop_rty o t) v x' /\ c_in_range (binop_rty o t) v) as (x' & Ev & Rg & Rp & Rc).
  { destruct (one_inst fo env m n (binop_cls o t) (binop_op o t) l (Some r) x'
                (fun z => repr (binop_rty o t) v z /\ c_in_range (binop_rty o t) v)) as (env' & x'' & A & B & C & (D1 & D2) & F & G & H);
      [destruct o, t as [[] []| | | |]; try discriminate; exact I|exact Ev|exact Rg|split; assumption|].
    exists env', x''. repeat split; try assumption; apply C. }
  pose proof (prom_facts t Hp) as (Fb & Fi & Fm & Fn & _).
  destruct (is_shift o) eqn:SH.
  - (* shifts: the count is read as a word *)
    assert (Hc : 0 <= b < sbits t -> exists yw, read env Kw r = Ok yw /\ yw = b).
    { intros Hb. destruct (shift_count tr b y Htr Rb Eb Ry ltac:(lia)) as [Y1 Y2].
      destruct tr as [[] ?| | | |]; try discriminate; simpl in Rr.
      - exists y. split; assumption.
      - exists (y mod two32). split; [apply read_l_as_w; assumption|assumption]. }
    assert (G : 0 <= b < sbits t).
    { destruct o; try discriminate; unfold binop_spec in S;
        (destruct ((0 <=? b) && (b <? width (ity_of t))) eqn:G; [|discriminate]); apply (shift_guard t b G). }
    destruct (Hc G) as (yw & Ryw & Eyw).
    destruct o; try discriminate.
    + destruct (shl_sound t Hp a b x yw v Ra Ea Rx (fun _ => Eyw) S) as (x' & E1 & E2 & E3 & E4).
      exists x'. split; [|repeat split; try assumption; apply E2].
      assert (binop_op Shl t = Obin Bshl) as -> by (destruct t as [[] []| | | |]; try discriminate; reflexivity).
      apply (eval_bin_inst fo env Bshl (qbase t) l r x yw x'); assumption.
    + destruct (shr_sound t Hp a b x yw v Ra Ea Rx (fun _ => Eyw) S) as (x' & E1 & E2 & E3 & E4).
      exists x'. split; [|repeat split; try assumption; apply E2].
      assert (binop_op Shr t = Obin (if ssigned t then Bsar else Bshr)) as -> by (destruct t as [[] []| | | |]; try discriminate; reflexivity).
      apply (eval_bin_inst fo env _ (qbase t) l r x yw x'); try assumption.
      destruct (ssigned t); assumption.
  - subst tr.
    destruct (is_cmp o) eqn:CM.
    + (* comparisons *)
      destruct (cmp_of o (ssigned t)) as [c|] eqn:C; [|destruct o; discriminate].
      destruct (cmp_sound t o a b x y v c Hp Ra Rb Ea Eb Rx Ry C S) as [E1 E2].
      exists (Qbe.b2z (eval_cmpi c (qbase t) x y)).
      assert (binop_cls o t = Kw) as -> by (unfold binop_cls, binop_rty; rewrite CM; reflexivity).
      assert (binop_rty o t = SInt I4 true) as -> by (unfold binop_rty; rewrite CM; reflexivity).
      split; [|split; [apply b2z_range|split; assumption]].
      assert (binop_op o t = Ocmpi (negb (ssize t <=? 4)) c /\ qbase t = (if negb (ssize t <=? 4) then Kl else Kw)) as [-> Q].
      { destruct t as [[] []| | | |]; try discriminate; destruct o; try discriminate;
          simpl in C; injection C as <-; split; reflexivity. }
      rewrite Q in *. apply (eval_cmpi_inst fo env (negb (ssize t <=? 4)) c Kw l r x y); try assumption. reflexivity.
    + (* arithmetic and bitwise operators *)
      assert (binop_cls o t = qbase t) as -> by (unfold binop_cls, binop_rty; rewrite CM; reflexivity).
      assert (binop_rty o t = t) as -> by (unfold binop_rty; rewrite CM; reflexivity).
      destruct o; try discriminate.
      * (* Mul *) exists (wrapk (qbase t) (x * y)). split; [|split; [apply wrapk_range|apply (mul_sound t Hp a b x y v Ea Eb S)]].
        assert (binop_op Mul t = Obin Bmul) as -> by reflexivity.
        apply (eval_bin_inst fo env Bmul (qbase t) l r x y); try assumption; reflexivity.
      * (* Div *)
        destruct (ssigned t) eqn:Hs.
        -- destruct (div_s_sound t Hp a b x y v Hs Ra Rb Ea Eb Rx Ry S) as (x' & E1 & E2 & E3 & E4).
           exists x'. split; [|repeat split; try assumption; apply E2].
           assert (binop_op Div t = Obin Bdiv) as -> by (destruct t as [[] []| | | |]; try discriminate; reflexivity).
           apply (eval_bin_inst fo env Bdiv (qbase t) l r x y); assumption.
        -- destruct (div_u_sound t Hp a b x y v Hs Ra Rb Ea Eb Rx Ry S) as (x' & E1 & E2 & E3 & E4).
           exists x'. split; [|repeat split; try assumption; apply E2].
           assert (binop_op Div t = Obin Budiv) as -> by (destruct t as [[] []| | | |]; try discriminate; reflexivity).
           apply (eval_bin_inst fo env Budiv (qbase t) l r x y); assumption.
      * (* Mod *)
        destruct (ssigned t) eqn:Hs.
        -- destruct (rem_s_sound t Hp a b x y v Hs Ra Rb Ea Eb Rx Ry S) as (x' & E1 & E2 & E3 & E4).
           exists x'. split; [|repeat split; try assumption; apply E2].
           assert (binop_op Mod t = Obin Brem) as -> by (destruct t as [[] []| | | |]; try discriminate; reflexivity).
           apply (eval_bin_inst fo env Brem (qbase t) l r x y); assumption.
        -- destruct (rem_u_sound t Hp a b x y v Hs Ra Rb Ea Eb Rx Ry S) as (x' & E1 & E2 & E3 & E4).
           exists x'. split; [|repeat split; try assumption; apply E2].
           assert (binop_op Mod t = Obin Burem) as -> by (destruct t as [[] []| | | |]; try discriminate; reflexivity).
           apply (eval_bin_inst fo env Burem (qbase t) l r x y); assumption.
      * (* Add *) exists (wrapk (qbase t) (x + y)). split; [|split; [apply wrapk_range|apply (add_sound t Hp a b x y v Ea Eb S)]].
        assert (binop_op Add t = Obin Badd) as -> by reflexivity.
        apply (eval_bin_inst fo env Badd (qbase t) l r x y); try assumption; reflexivity.
      * (* Sub *) exists (wrapk (qbase t) (x - y)). split; [|split; [apply wrapk_range|apply (sub_sound t Hp a b x y v Ea Eb S)]].
        assert (binop_op Sub t = Obin Bsub) as -> by reflexivity.
        apply (eval_bin_inst fo env Bsub (qbase t) l r x y); try assumption; reflexivity.
      * (* Band *) injection S as <-. exists (Z.land x y).
        split; [|split; [apply (bit_val_range t Hp Z.land x y land_nonneg_range Rx Ry)|split;
                  [apply (bit_repr t Hp Z.land a b x y wrap_land Ea Eb)|apply (bit_range t Hp Z.land a b land_range land_nonneg_range Ra Rb)]]].
        assert (binop_op CArith.Band t = Obin Qbe.Band) as -> by reflexivity.
        apply (eval_bin_inst fo env Qbe.Band (qbase t) l r x y); try assumption; reflexivity.
      * (* Bor *) injection S as <-. exists (Z.lor x y).
        split; [|split; [apply (bit_val_range t Hp Z.lor x y lor_nonneg_range Rx Ry)|split;
                  [apply (bit_repr t Hp Z.lor a b x y wrap_lor Ea Eb)|apply (bit_range t Hp Z.lor a b lor_range lor_nonneg_range Ra Rb)]]].
        assert (binop_op CArith.Bor t = Obin Qbe.Bor) as -> by reflexivity.
        apply (eval_bin_inst fo env Qbe.Bor (qbase t) l r x y); try assumption; reflexivity.
      * (* Xor *) injection S as <-. exists (Z.lxor x y).
        split; [|split; [apply (bit_val_range t Hp Z.lxor x y lxor_nonneg_range Rx Ry)|split;
                  [apply (bit_repr t Hp Z.lxor a b x y wrap_lxor Ea Eb)|apply (bit_range t Hp Z.lxor a b lxor_range lxor_nonneg_range Ra Rb)]]].
        assert (binop_op Xor t = Obin Bxor) as -> by reflexivity.
        apply (eval_bin_inst fo env Bxor (qbase t) l r x y); try assumption; reflexivity.
Qed.
