(* LowerProofsBits.v - bit-fields: the code of funcload (load + funcbits) and of funcstore (shift, mask,
   read-modify-write, store) executed under the IL semantics, for every unit size 1,2,4,8, signedness and position. *)
From Coq Require Import ZArith List Bool PArith Lia FMapPositive.
From Cproc Require Import Lib.Wrap Model.Qbe Spec.CArith Spec.Csem Model.Lower
  Proofs.LowerProofsExec Proofs.LowerProofsArith Proofs.LowerProofsConv Proofs.LowerProofsBitsMath.
Import ListNotations.
Local Open Scope Z_scope.

(* ------------------------------------------------------------------ memory: a load after a store *)
Lemma key_inj o o' : 0 <= o -> 0 <= o' -> key o = key o' -> o = o'.
Proof. unfold key. intros H H' E. apply Z2Pos.inj in E; lia. Qed.

Lemma get_byte_add_same bs o v : get_byte (PM.add (key o) v bs) o = v.
Proof. unfold get_byte. rewrite PM.gss. reflexivity. Qed.

Lemma get_byte_add_other bs o o' v : 0 <= o -> 0 <= o' -> o <> o' -> get_byte (PM.add (key o) v bs) o' = get_byte bs o'.
Proof.
  intros H H' NE. unfold get_byte. rewrite PM.gso; [reflexivity|]. intros E. apply NE. symmetry. apply key_inj; assumption.
Qed.

Lemma storen_other n : forall bs o v o', 0 <= o' < o -> get_byte (storen n bs o v) o' = get_byte bs o'.
Proof.
  induction n as [|n IH]; intros bs o v o' H; [reflexivity|].
  cbn [storen]. rewrite IH by lia. apply get_byte_add_other; lia.
Qed.

Lemma loadn_storen n : forall bs o v, 0 <= o -> loadn n (storen n bs o v) o = v mod 2 ^ (8 * Z.of_nat n).
Proof.
  induction n as [|n IH]; intros bs o v Ho.
  - cbn. symmetry. apply Z.mod_1_r.
  - cbn [loadn storen]. rewrite storen_other by lia. rewrite get_byte_add_same, IH by lia.
    replace (8 * Z.of_nat (S n)) with (8 + 8 * Z.of_nat n) by lia.
    rewrite Z.pow_add_r by lia. change (2 ^ 8) with 256.
    pose proof (pow2_pos (8 * Z.of_nat n) ltac:(lia)).
    rewrite Z.rem_mul_r by lia. reflexivity.
Qed.

Lemma split_addr_nonneg a p o : split_addr a = Some (p, o) -> 0 <= o.
Proof.
  unfold split_addr. destruct (a / BLK); try discriminate. intros [= _ <-].
  apply Z.mod_pos_bound. reflexivity.
Qed.

Lemma mem_load_after_store m a n v m' :
  mem_store m a n v = Some m' -> mem_load m' a n = Some (v mod 2 ^ (8 * Z.of_nat n)).
Proof.
  unfold mem_store, mem_load, find_block_at.
  destruct (split_addr a) as [[p o]|] eqn:SA; [|discriminate].
  destruct (PM.find p m) as [b|]; [|discriminate].
  destruct (o + Z.of_nat n <=? mb_size b) eqn:L; [|discriminate].
  intros [= <-]. rewrite PM.gss. cbn [mb_size mb_bytes]. rewrite L. f_equal.
  apply loadn_storen. apply (split_addr_nonneg a p o SA).
Qed.

Lemma mem_store_defined m a n u v : mem_load m a n = Some u -> exists m', mem_store m a n v = Some m'.
Proof.
  unfold mem_store, mem_load. destruct (find_block_at m a (Z.of_nat n)) as [[[p o] b]|]; [|discriminate].
  intros _. eexists; reflexivity.
Qed.

(* ------------------------------------------------------------------ integer types that can carry a bit-field *)
Definition bf_type (t : sty) : bool := match t with SInt _ _ | SBool => true | _ => false end.

Lemma bf_type_facts t : bf_type t = true ->
  let k := qbase t in
  (if ssize t <=? 4 then Kw else Kl) = k /\ isint k = true /\ 0 < sbits t <= bitsk k /\
  bits_corr (ssize t) = bitsk k - sbits t /\ pnorm t = t /\ modk k = 2 ^ bitsk k /\ bitsk k <= 64 /\
  ld_bytes (qload t) = Z.to_nat (ssize t) /\ st_bytes (qstore t) = Z.to_nat (ssize t) /\
  8 * Z.of_nat (Z.to_nat (ssize t)) = sbits t /\ st_cls (qstore t) = k.
Proof.
  destruct t as [[] []| | | |]; try discriminate; intros _; cbv zeta; repeat split; try reflexivity; cbv; congruence.
Qed.

(* what the type's load leaves in the register: the extended unit *)
Lemma load_result_ext t u : bf_type t = true -> 0 <= u < 2 ^ sbits t ->
  load_result (qload t) (qbase t) u = Some (ext_unit (ssigned t) (sbits t) (bitsk (qbase t)) u).
Proof.
  intros BT Hu. destruct t as [[] []| | | |]; try discriminate; cbn [qload qbase load_result ssigned ext_unit];
    try reflexivity; unfold sbits in *; cbn [ssize zsize bitsk wide] in *.
  - rewrite wrapk_wrap. change two8 with (2 ^ 8). rewrite sextm_sext by lia. reflexivity.
  - rewrite wrapk_wrap. change two16 with (2 ^ 16). rewrite sextm_sext by lia. reflexivity.
  - f_equal. change (8 * 4) with 32 in *. symmetry. rewrite sext_wrap by lia. apply wrap_id. assumption.
  - f_equal. change (8 * 8) with 64 in *. symmetry. rewrite sext_wrap by lia. apply wrap_id. assumption.
Qed.

(* ------------------------------------------------------------------ shift counts *)
Lemma read_count env c : 0 <= c < 64 -> read env Kw (mkint c) = Ok c.
Proof.
  intros H. unfold mkint, read. f_equal. rewrite (Z.mod_small c M64) by (unfold M64; lia).
  apply Z.mod_small. unfold two32. lia.
Qed.

Lemma read_mask env k c : isint k = true -> 0 <= c < 2 ^ 64 -> read env k (mkint c) = Ok (wrapk k c).
Proof.
  intros I H. unfold mkint, read. rewrite (Z.mod_small c M64) by (unfold M64; lia).
  destruct k; try discriminate; reflexivity.
Qed.

Lemma eval_shift fo env b k a0 x c v :
  read env k a0 = Ok x -> isint k = true -> 0 <= c < bitsk k -> bitsk k <= 64 -> shiftop b = true ->
  eval_ibin b k x c = Some v ->
  eval_pure fo env (Obin b) k a0 (Some (mkint c)) = Ok v.
Proof.
  intros R I Hc Hk Sb E. apply (eval_bin_inst fo env b k a0 (mkint c) x c v); try assumption.
  rewrite Sb. apply read_count. lia.
Qed.

Lemma ibin_shl k x c : 0 <= c < bitsk k -> eval_ibin Bshl k x c = Some (wrap (bitsk k) (x * 2 ^ c)).
Proof. intros H. unfold eval_ibin. rewrite Z.mod_small by assumption. rewrite wrapk_wrap. reflexivity. Qed.
Lemma ibin_shr k x c : 0 <= c < bitsk k -> eval_ibin Bshr k x c = Some (x / 2 ^ c).
Proof. intros H. unfold eval_ibin. rewrite Z.mod_small by assumption. reflexivity. Qed.
Lemma ibin_sar k x c : 0 <= c < bitsk k -> 0 <= x < modk k ->
  eval_ibin Bsar k x c = Some (wrap (bitsk k) (sext (bitsk k) x / 2 ^ c)).
Proof.
  intros H Hx. unfold eval_ibin. rewrite Z.mod_small by assumption. rewrite wrapk_wrap, signedk_sext by assumption. reflexivity.
Qed.

(* ------------------------------------------------------------------ head-of-code steps *)
Lemma exec_head_pure fo env m (n : ident) k o a0 a1 v c s' :
  pure_op o -> eval_pure fo env o k a0 a1 = Ok v ->
  exec fo (PM.add n (k, v) env, m) c = Ok s' ->
  exec fo (env, m) (Iop (Some (n, k)) o a0 a1 :: c) = Ok s'.
Proof. intros P E X. eapply exec_cons; [apply exec_pure_inst; eassumption|exact X]. Qed.

Lemma exec_head_load fo env m (n : ident) k l a0 a raw v c s' :
  read env Kl a0 = Ok a -> mem_load m a (ld_bytes l) = Some raw -> load_result l k raw = Some v ->
  exec fo (PM.add n (k, v) env, m) c = Ok s' ->
  exec fo (env, m) (Iop (Some (n, k)) (Oload l) a0 None :: c) = Ok s'.
Proof.
  intros R L LR X. eapply exec_cons; [|exact X]. unfold exec_inst. rewrite R. cbn [bind]. rewrite L, LR. reflexivity.
Qed.

Lemma exec_head_store fo env m s a0 a1 v a m' c s' :
  read env (st_cls s) a0 = Ok v -> read env Kl a1 = Ok a -> mem_store m a (st_bytes s) v = Some m' ->
  exec fo (env, m') c = Ok s' ->
  exec fo (env, m) (Iop None (Ostore s) a0 (Some a1) :: c) = Ok s'.
Proof.
  intros R0 R1 St X. eapply exec_cons; [|exact X]. unfold exec_inst. rewrite R0. cbn [bind read1]. rewrite R1. cbn [bind fst snd].
  rewrite St. reflexivity.
Qed.

(* ------------------------------------------------------------------ funcbits *)
Record bf_pos (t : sty) (before after : Z) : Prop := {
  bp_type : bf_type t = true;
  bp_before : 0 <= before;
  bp_after : 0 <= after;
  bp_width : before + after < sbits t }.

Lemma funcbits_exec fo t env m v (n : positive) raw before after :
  bf_pos t before after -> ref_lt n v ->
  read env (qbase t) v = Ok raw -> 0 <= raw < modk (qbase t) ->
  exists env' x,
    exec fo (env, m) (snd (fst (funcbits t v before after n))) = Ok (env', m) /\
    read env' (qbase t) (fst (fst (funcbits t v before after n))) = Ok x /\
    x = fb_val (ssigned t) (bitsk (qbase t)) (sbits t) before after raw /\
    agree_below n env env' /\
    ref_lt (snd (funcbits t v before after n)) (fst (fst (funcbits t v before after n))) /\
    (n <= snd (funcbits t v before after n))%positive.
Proof.
  intros [BT Hb Ha Hw] Lv R Rr.
  destruct (bf_type_facts t BT) as (Kq & Ik & HS & Corr & _ & Mk & K64 & _).
  set (k := qbase t) in *. set (N := bitsk k) in *. set (S := sbits t) in *.
  unfold funcbits, fb_val. rewrite Kq, Corr. fold k N S.
  destruct (Z.eqb_spec after 0) as [A0|A0].
  - (* no left shift *)
    cbn [gbind gret fst snd]. replace (0 + before) with before by lia.
    destruct (Z.eqb_spec before 0) as [B0|B0].
    + exists env, raw. cbn [gret fst snd app]. repeat split; try assumption; try apply agree_refl; try reflexivity; lia.
    + cbn [ginst fst snd app].
      assert (Cnt : 0 <= before < bitsk k) by (fold N; lia).
      destruct (ssigned t) eqn:Sg.
      * destruct (one_inst fo env m n k (Obin Bsar) v (Some (mkint before)) (wrap N (sext N raw / 2 ^ before)) (fun z => z = wrap N (sext N raw / 2 ^ before)))
          as (env' & x & A & B & C & D & F & G & H); [exact I| |rewrite Mk; apply wrap_range; unfold N; lia|reflexivity|].
        { apply (eval_shift fo env Bsar k v raw before); try assumption; try reflexivity. apply ibin_sar; assumption. }
        exists env', x. repeat split; assumption.
      * destruct (one_inst fo env m n k (Obin Bshr) v (Some (mkint before)) (raw / 2 ^ before) (fun z => z = raw / 2 ^ before))
          as (env' & x & A & B & C & D & F & G & H); [exact I| | |reflexivity|].
        { apply (eval_shift fo env Bshr k v raw before); try assumption; try reflexivity. apply ibin_shr; assumption. }
        { pose proof (pow2_pos before Hb). split; [apply Z.div_pos; lia|]. apply Z.div_lt_upper_bound; [lia|]. nia. }
        exists env', x. repeat split; assumption.
  - (* shl, then the right shift (its count is never 0 here) *)
    assert (Cnt1 : 0 <= after + (N - S) < bitsk k) by (fold N; lia).
    assert (Cnt2 : 0 <= after + (N - S) + before < bitsk k) by (fold N; lia).
    destruct (Z.eqb_spec (after + (N - S) + before) 0) as [Z0|_]; [lia|].
    cbn [gbind ginst fst snd app].
    set (v1 := wrap N (raw * 2 ^ (after + (N - S)))).
    assert (E1 : eval_pure fo env (Obin Bshl) k v (Some (mkint (after + (N - S)))) = Ok v1).
    { apply (eval_shift fo env Bshl k v raw (after + (N - S))); try assumption; try reflexivity. apply ibin_shl; assumption. }
    assert (Rv1 : 0 <= v1 < modk k) by (rewrite Mk; apply wrap_range; unfold N; lia).
    destruct (ssigned t) eqn:Sg.
    + destruct (two_inst fo env m n k (Obin Bshl) v (Some (mkint (after + (N - S)))) v1 k (Obin Bsar) (Some (mkint (after + (N - S) + before)))
                 (wrap N (sext N v1 / 2 ^ (after + (N - S) + before))) (fun z => z = wrap N (sext N v1 / 2 ^ (after + (N - S) + before))))
        as (env' & x & A & B & C & D & F & G & H); [exact I|exact E1|exact I| |rewrite Mk; apply wrap_range; unfold N; lia|reflexivity|].
      { apply (eval_shift fo _ Bsar k (RTmp n) v1 (after + (N - S) + before)); try assumption; try reflexivity.
        - apply read_gss.
        - apply ibin_sar; assumption. }
      exists env', x. repeat split; assumption.
    + destruct (two_inst fo env m n k (Obin Bshl) v (Some (mkint (after + (N - S)))) v1 k (Obin Bshr) (Some (mkint (after + (N - S) + before)))
                 (v1 / 2 ^ (after + (N - S) + before)) (fun z => z = v1 / 2 ^ (after + (N - S) + before)))
        as (env' & x & A & B & C & D & F & G & H); [exact I|exact E1|exact I| | |reflexivity|].
      { apply (eval_shift fo _ Bshr k (RTmp n) v1 (after + (N - S) + before)); try assumption; try reflexivity.
        - apply read_gss.
        - apply ibin_shr; assumption. }
      { pose proof (pow2_pos (after + (N - S) + before) ltac:(lia)). split; [apply Z.div_pos; lia|]. apply Z.div_lt_upper_bound; [lia|]. nia. }
      exists env', x. repeat split; assumption.
Qed.

(* ------------------------------------------------------------------ reading a bit-field *)
(* the register after funcload, as a C value: sign-extended from the register's width for a signed type *)
Definition reg_value (t : sty) (x : Z) : Z := if ssigned t then signedk (qbase t) x else x.

Lemma bf_get_raw sg size before after u :
  bf_get sg size before after u =
    if sg then sext (8 * size - before - after) (bf_raw (8 * size) before after u) else bf_raw (8 * size) before after u.
Proof. reflexivity. Qed.

Lemma fb_val_field t before after raw u :
  bf_pos t before after -> 0 <= u < 2 ^ sbits t ->
  (after = 0 -> raw = ext_unit (ssigned t) (sbits t) (bitsk (qbase t)) u) -> wrap (sbits t) raw = u ->
  let x := fb_val (ssigned t) (bitsk (qbase t)) (sbits t) before after raw in
  0 <= x < modk (qbase t) /\ reg_value t x = bf_get (ssigned t) (ssize t) before after u.
Proof.
  intros [BT Hb Ha Hw] Hu Top Cg x.
  destruct (bf_type_facts t BT) as (_ & Ik & HS & _ & _ & Mk & K64 & _).
  unfold reg_value. rewrite bf_get_raw. fold (sbits t). subst x. rewrite Mk.
  destruct (Z.eq_dec after 0) as [A0|A0].
  - rewrite (Top A0). destruct (ssigned t).
    + assert (E : sext (bitsk (qbase t)) (fb_val true (bitsk (qbase t)) (sbits t) before after (ext_unit true (sbits t) (bitsk (qbase t)) u)) = _ /\ _)
        by (apply fb_signed_top; assumption). destruct E as [E R].
      split; [exact R|]. rewrite signedk_sext by (rewrite Mk; exact R). exact E.
    + assert (E : fb_val false (bitsk (qbase t)) (sbits t) before after (ext_unit false (sbits t) (bitsk (qbase t)) u) = _ /\ _)
        by (apply fb_unsigned_top; assumption). destruct E as [E R].
      split; [exact R|exact E].
  - destruct (ssigned t).
    + assert (E : sext (bitsk (qbase t)) (fb_val true (bitsk (qbase t)) (sbits t) before after raw) = _ /\ _)
        by (apply fb_signed_shl with (u := u); (assumption || lia)). destruct E as [E R].
      split; [exact R|]. rewrite signedk_sext by (rewrite Mk; exact R). exact E.
    + assert (E : fb_val false (bitsk (qbase t)) (sbits t) before after raw = _ /\ _)
        by (apply fb_unsigned_shl with (u := u); (assumption || lia)). destruct E as [E R].
      split; [exact R|exact E].
Qed.

Theorem bits_load_correct fo t env m addr a (n : positive) u before after :
  bf_pos t before after -> ref_lt n addr ->
  read env Kl addr = Ok a -> mem_load m a (Z.to_nat (ssize t)) = Some u -> 0 <= u < 2 ^ sbits t ->
  exists env' x,
    exec fo (env, m) (snd (fst (funcload t addr before after n))) = Ok (env', m) /\
    read env' (qbase t) (fst (fst (funcload t addr before after n))) = Ok x /\
    0 <= x < modk (qbase t) /\
    reg_value t x = bf_get (ssigned t) (ssize t) before after u /\
    agree_below n env env' /\
    ref_lt (snd (funcload t addr before after n)) (fst (fst (funcload t addr before after n))) /\
    (n <= snd (funcload t addr before after n))%positive.
Proof.
  intros BP La R L Hu. pose proof BP as [BT Hb Ha Hw].
  destruct (bf_type_facts t BT) as (_ & Ik & HS & _ & _ & Mk & K64 & LB & _).
  unfold funcload. cbn [gbind ginst fst snd].
  set (raw := ext_unit (ssigned t) (sbits t) (bitsk (qbase t)) u).
  assert (Rraw : 0 <= raw < modk (qbase t)) by (rewrite Mk; apply ext_unit_range; assumption).
  set (env1 := PM.add n (qbase t, raw) env).
  destruct (funcbits_exec fo t env1 m (RTmp n) (Pos.succ n) raw before after BP) as (env' & x & A & B & C & D & F & G);
    [simpl; lia|apply read_gss|exact Rraw|].
  destruct (funcbits t (RTmp n) before after (Pos.succ n)) as [[r c] n'] eqn:FB. cbn [fst snd] in *.
  exists env', x.
  destruct (fb_val_field t before after raw u BP Hu (fun _ => eq_refl) (ext_unit_congr _ _ _ u HS Hu)) as [Rx V].
  rewrite <- C in Rx, V.
  repeat split; try assumption; try apply Rx; try lia.
  - cbn [app]. apply (exec_head_load fo env m n (qbase t) (qload t) addr a u raw); try assumption.
    + rewrite LB. exact L.
    + apply load_result_ext; assumption.
  - apply agree_trans with (m := Pos.succ n) (e2 := env1); [lia|apply agree_add; lia|exact D].
Qed.

(* ------------------------------------------------------------------ writing a bit-field *)
(* [v]: the register holding the value to assign (any bits above the field).  The memory effect of the whole
   sequence is one store of the unit [wrap S (rmw ...)]; the theorem describes that unit bit by bit through
   rmw_field / rmw_outside below. *)
Definition new_unit (t : sty) (before after v u : Z) : Z :=
  wrap (sbits t) (rmw (bitsk (qbase t)) before (sbits t - before - after) v
                      (ext_unit (ssigned t) (sbits t) (bitsk (qbase t)) u)).

(* the register handed to funcbits for the value of the assignment expression: the shifted value, extended from
   the unit's width when the member ends at the top of a 1- or 2-byte unit *)
Definition store_reg (t : sty) (after v1 : Z) : Z :=
  if store_top t after then ext_unit (ssigned t) (sbits t) (bitsk (qbase t)) (wrap (sbits t) v1) else v1.

Lemma store_ext_val t v1 : bf_type t = true -> ssize t < 4 ->
  qbase t = Kw /\ ext_val (store_ext t) Kw v1 = ext_unit (ssigned t) (sbits t) (bitsk (qbase t)) (wrap (sbits t) v1).
Proof.
  intros BT L. destruct t as [[] []| | | |]; try discriminate; cbn [ssize zsize] in L; try lia; split; try reflexivity;
    unfold store_ext, ext_val, ext_unit, sbits; cbn [ssize zsize ssigned qbase bitsk wide Z.eqb Pos.eqb Z.mul Pos.mul].
  - rewrite wrapk_wrap. change two8 with (2 ^ 8). rewrite sextm_sext by lia. rewrite sext_of_wrap by lia. reflexivity.
  - rewrite wrapk_wrap. change two16 with (2 ^ 16). rewrite sextm_sext by lia. rewrite sext_of_wrap by lia. reflexivity.
Qed.

Lemma store_tail_exec fo t env0 envb m addr a (n nb : positive) r0 xr v1 u before after :
  bf_pos t before after ->
  let k := qbase t in let N := bitsk k in let S := sbits t in let w := S - before - after in
  (n < nb)%positive -> ref_lt n addr -> agree_below n env0 envb ->
  read envb Kl addr = Ok a -> read envb k (RTmp n) = Ok v1 -> 0 <= v1 < modk k ->
  read envb k r0 = Ok xr -> 0 <= xr < modk k -> ref_lt nb r0 ->
  mem_load m a (Z.to_nat (ssize t)) = Some u -> 0 <= u < 2 ^ S ->
  exists env' m' x,
    exec fo (envb, m) (snd (fst (funcstore_tail t addr before after (RTmp n) r0 nb))) = Ok (env', m') /\
    mem_store m a (Z.to_nat (ssize t))
      (Z.lor (Z.land v1 (field_mask w before)) (Z.land (ext_unit (ssigned t) S N u) (2 ^ N - 1 - field_mask w before))) = Some m' /\
    mem_load m' a (Z.to_nat (ssize t)) =
      Some (wrap S (Z.lor (Z.land v1 (field_mask w before)) (Z.land (ext_unit (ssigned t) S N u) (2 ^ N - 1 - field_mask w before)))) /\
    read env' k (fst (fst (funcstore_tail t addr before after (RTmp n) r0 nb))) = Ok x /\
    x = fb_val (ssigned t) N S before after xr /\
    agree_below n env0 env' /\ (nb <= snd (funcstore_tail t addr before after (RTmp n) r0 nb))%positive.
Proof.
  intros BP k N S w Lnb La A0 Ra Rn Rv1 Rr Rxr Lr L Hu. pose proof BP as [BT Hb Ha Hw].
  destruct (bf_type_facts t BT) as (_ & Ik & HS & _ & PN & Mk & K64 & LB & SB & S8 & SC).
  fold k N S in Ik, HS, Mk, K64, S8, SC.
  unfold funcstore_tail. fold k. unfold gbind, ginst, ginst0, gret.
  (* funcbits on the prepared value *)
  destruct (funcbits_exec fo t envb m r0 nb xr before after BP Lr Rr Rxr) as (env2 & x & A2 & B2 & C2 & D2 & F2 & G2).
  destruct (funcbits t r0 before after nb) as [[r c] n2] eqn:FB. cbn [fst snd app] in *.
  (* and, load, and, or, store *)
  set (mk := field_mask w before).
  assert (MaskEq : store_mask (ssize t) before after = mk).
  { unfold store_mask. change M64 with (2 ^ 64). replace (ssize t * 8) with S by (unfold S, sbits; lia).
    apply store_mask_eq; unfold S, N in *; lia. }
  rewrite MaskEq.
  assert (Rmk : 0 <= mk < 2 ^ N) by (apply field_mask_range; unfold w; lia).
  assert (Rmk64 : 0 <= mk < 2 ^ 64).
  { pose proof (pow2_le_mono N 64 ltac:(unfold N; lia)). lia. }
  assert (A02 : agree_below n env0 env2).
  { apply agree_trans with (m := nb) (e2 := envb); [lia|exact A0|exact D2]. }
  assert (Rn2 : read env2 k (RTmp n) = Ok v1).
  { rewrite (read_agree nb envb env2 k (RTmp n) D2) by (simpl; lia). exact Rn. }
  set (v2 := Z.land v1 mk).
  assert (E3 : eval_pure fo env2 (Obin Qbe.Band) k (RTmp n) (Some (mkint mk)) = Ok v2).
  { apply (eval_bin_inst fo env2 Qbe.Band k (RTmp n) (mkint mk) v1 (wrapk k mk)); try assumption.
    - apply read_mask; assumption.
    - unfold eval_ibin. rewrite wrapk_wrap. fold N. rewrite wrap_id by assumption. reflexivity. }
  set (env3 := PM.add n2 (k, v2) env2).
  set (old := ext_unit (ssigned t) S N u).
  assert (Rold : 0 <= old < 2 ^ N) by (apply ext_unit_range; assumption).
  assert (Ra3 : read env3 Kl addr = Ok a).
  { unfold env3. rewrite read_gso by (apply ref_lt_mono with n; [lia|assumption]).
    rewrite (read_agree nb envb env2 Kl addr D2) by (apply ref_lt_mono with n; [lia|assumption]). exact Ra. }
  set (env4 := PM.add (Pos.succ n2) (k, old) env3).
  set (nm := 2 ^ N - 1 - mk).
  set (keep := Z.land old nm).
  assert (NotM : wrapk k (M64 - 1 - mk) = nm).
  { rewrite wrapk_wrap. fold N. unfold nm. change M64 with (2 ^ 64).
    replace (2 ^ 64 - 1 - mk) with ((2 ^ N - 1 - mk) + (2 ^ (64 - N) - 1) * 2 ^ N).
    - rewrite wrap_add by (unfold N; lia). apply wrap_id. lia.
    - rewrite (pow2_split N 64) by (unfold N; lia). lia. }
  assert (E5 : eval_pure fo env4 (Obin Qbe.Band) k (RTmp (Pos.succ n2)) (Some (mkint (M64 - 1 - mk))) = Ok keep).
  { apply (eval_bin_inst fo env4 Qbe.Band k (RTmp (Pos.succ n2)) (mkint (M64 - 1 - mk)) old nm); try assumption.
    - apply read_gss.
    - cbn [shiftop]. rewrite <- NotM. apply read_mask; [assumption|]. change M64 with (2 ^ 64). lia.
    - reflexivity. }
  set (env5 := PM.add (Pos.succ (Pos.succ n2)) (k, keep) env4).
  set (v3 := Z.lor v2 keep).
  assert (E6 : eval_pure fo env5 (Obin Qbe.Bor) k (RTmp n2) (Some (RTmp (Pos.succ (Pos.succ n2)))) = Ok v3).
  { apply (eval_bin_inst fo env5 Qbe.Bor k (RTmp n2) (RTmp (Pos.succ (Pos.succ n2))) v2 keep); try assumption.
    - unfold env5, env4. rewrite !read_gso by (simpl; lia). apply read_gss.
    - apply read_gss.
    - reflexivity. }
  set (env6 := PM.add (Pos.succ (Pos.succ (Pos.succ n2))) (k, v3) env5).
  destruct (mem_store_defined m a (Z.to_nat (ssize t)) u v3 L) as [m' St].
  exists env6, m', x.
  assert (R6r : read env6 k r = Ok x).
  { unfold env6, env5, env4, env3. rewrite !read_gso by (apply ref_lt_mono with n2; [lia|assumption]). exact B2. }
  split.
  { apply exec_app_ok with (s1 := (env2, m)); [exact A2|].
    apply (exec_head_pure fo env2 m n2 k (Obin Qbe.Band) (RTmp n) (Some (mkint mk)) v2); [exact I|exact E3|].
    fold env3.
    apply (exec_head_load fo env3 m (Pos.succ n2) k (qload t) addr a u old); try assumption.
    { rewrite LB. exact L. }
    { apply load_result_ext; assumption. }
    fold env4.
    apply (exec_head_pure fo env4 m (Pos.succ (Pos.succ n2)) k (Obin Qbe.Band) (RTmp (Pos.succ n2)) (Some (mkint (M64 - 1 - mk))) keep); [exact I|exact E5|].
    fold env5.
    apply (exec_head_pure fo env5 m (Pos.succ (Pos.succ (Pos.succ n2))) k (Obin Qbe.Bor) (RTmp n2) (Some (RTmp (Pos.succ (Pos.succ n2)))) v3); [exact I|exact E6|].
    fold env6.
    apply (exec_head_store fo env6 m (qstore t) (RTmp (Pos.succ (Pos.succ (Pos.succ n2)))) addr v3 a m'); try reflexivity.
    - rewrite SC. apply read_gss.
    - unfold env6, env5, env4. rewrite !read_gso by (apply ref_lt_mono with n; [lia|assumption]). exact Ra3.
    - rewrite SB. exact St. }
  split; [exact St|].
  split.
  { rewrite (mem_load_after_store m a (Z.to_nat (ssize t)) v3 m' St). rewrite S8. reflexivity. }
  split; [exact R6r|]. split; [exact C2|]. split; [|lia].
  unfold env6, env5, env4, env3.
  repeat (eapply agree_trans with (m := n); [lia| |apply agree_add; lia]). exact A02.
Qed.

Theorem bits_store_correct fo t env m addr a vr v (n : positive) u before after :
  bf_pos t before after -> 0 < before + after -> ref_lt n addr -> ref_lt n vr ->
  read env Kl addr = Ok a -> read env (qbase t) vr = Ok v -> 0 <= v < modk (qbase t) ->
  mem_load m a (Z.to_nat (ssize t)) = Some u -> 0 <= u < 2 ^ sbits t ->
  exists env' m' x,
    exec fo (env, m) (snd (fst (funcstore t addr before after vr n))) = Ok (env', m') /\
    mem_store m a (Z.to_nat (ssize t)) (rmw (bitsk (qbase t)) before (sbits t - before - after) v
                      (ext_unit (ssigned t) (sbits t) (bitsk (qbase t)) u)) = Some m' /\
    mem_load m' a (Z.to_nat (ssize t)) = Some (new_unit t before after v u) /\
    read env' (qbase t) (fst (fst (funcstore t addr before after vr n))) = Ok x /\
    x = fb_val (ssigned t) (bitsk (qbase t)) (sbits t) before after
               (store_reg t after (wrap (bitsk (qbase t)) (v * 2 ^ before))) /\
    agree_below n env env' /\ (n <= snd (funcstore t addr before after vr n))%positive.
Proof.
  intros BP Pos La Lv Ra Rv Hv L Hu. pose proof BP as [BT Hb Ha Hw].
  destruct (bf_type_facts t BT) as (_ & Ik & HS & _ & PN & Mk & K64 & LB & SB & S8 & SC).
  set (k := qbase t) in *. set (N := bitsk k) in *. set (S := sbits t) in *.
  unfold funcstore. rewrite PN. fold k.
  destruct (Z.eqb_spec (before + after) 0) as [Z0|_]; [lia|].
  unfold gbind, ginst, gret.
  (* 1: shl by before *)
  set (v1 := wrap N (v * 2 ^ before)).
  assert (E1 : eval_pure fo env (Obin Bshl) k vr (Some (mkint before)) = Ok v1).
  { apply (eval_shift fo env Bshl k vr v before); try assumption; try reflexivity; [fold N; lia|]. apply ibin_shl. fold N. lia. }
  assert (Rv1 : 0 <= v1 < modk k) by (rewrite Mk; apply wrap_range; unfold N; lia).
  set (env1 := PM.add n (k, v1) env).
  assert (Ra1 : read env1 Kl addr = Ok a) by (unfold env1; rewrite read_gso by assumption; exact Ra).
  unfold store_reg. fold k N S v1.
  destruct (store_top t after) eqn:TOP.
  - (* the member ends at the top of a 1- or 2-byte unit: extend the shifted value first *)
    assert (Sz : ssize t < 4).
    { unfold store_top in TOP. apply andb_prop in TOP as [_ T]. apply Z.ltb_lt in T. exact T. }
    destruct (store_ext_val t v1 BT Sz) as [KW EV]. fold k N S in KW, EV.
    cbv beta iota.
    set (xr := ext_unit (ssigned t) S N (wrap S v1)).
    assert (Rn1 : read env1 Kw (RTmp n) = Ok v1) by (unfold env1; rewrite KW; apply read_gss).
    assert (E2 : eval_pure fo env1 (Oext (store_ext t)) Kw (RTmp n) None = Ok xr).
    { unfold xr. rewrite <- EV. apply eval_ext; [exact Rn1|reflexivity|].
      unfold store_ext. destruct (ssize t =? 1), (ssigned t); exact I. }
    set (envb := PM.add (Pos.succ n) (Kw, xr) env1).
    assert (Rxr : 0 <= xr < modk k).
    { rewrite Mk. apply ext_unit_range; [assumption|]. apply wrap_range. unfold S. lia. }
    destruct (store_tail_exec fo t env envb m addr a n (Pos.succ (Pos.succ n)) (RTmp (Pos.succ n)) xr v1 u before after BP)
      as (env' & m' & x & T1 & T2 & T3 & T4 & T5 & T6 & T7); try assumption; try lia.
    { apply agree_trans with (m := n) (e2 := env1); [lia|apply agree_add; lia|apply agree_add; lia]. }
    { unfold envb. rewrite read_gso by (apply ref_lt_mono with n; [lia|assumption]). exact Ra1. }
    { fold k. unfold envb. rewrite read_gso by (simpl; lia). unfold env1. apply read_gss. }
    { fold k. rewrite KW. unfold envb. apply read_gss. }
    { simpl. lia. }
    destruct (funcstore_tail t addr before after (RTmp n) (RTmp (Pos.succ n)) (Pos.succ (Pos.succ n))) as [[rr cc] nn] eqn:FT.
    cbn [fst snd] in *. exists env', m', x.
    split.
    { cbn [app]. apply (exec_head_pure fo env m n k (Obin Bshl) vr (Some (mkint before)) v1); [exact I|exact E1|].
      fold env1. apply (exec_head_pure fo env1 m (Pos.succ n) Kw (Oext (store_ext t)) (RTmp n) None xr); [exact I|exact E2|].
      fold envb. exact T1. }
    split; [exact T2|]. split; [exact T3|]. split; [exact T4|]. split; [exact T5|]. split; [exact T6|lia].
  - cbv beta iota.
    destruct (store_tail_exec fo t env env1 m addr a n (Pos.succ n) (RTmp n) v1 v1 u before after BP)
      as (env' & m' & x & T1 & T2 & T3 & T4 & T5 & T6 & T7); try assumption; try lia.
    { unfold env1. apply agree_add. lia. }
    { fold k. unfold env1. apply read_gss. }
    { fold k. unfold env1. apply read_gss. }
    { simpl. lia. }
    destruct (funcstore_tail t addr before after (RTmp n) (RTmp n) (Pos.succ n)) as [[rr cc] nn] eqn:FT.
    cbn [fst snd] in *. exists env', m', x.
    split.
    { cbn [app]. apply (exec_head_pure fo env m n k (Obin Bshl) vr (Some (mkint before)) v1); [exact I|exact E1|].
      fold env1. exact T1. }
    split; [exact T2|]. split; [exact T3|]. split; [exact T4|]. split; [exact T5|]. split; [exact T6|lia].
Qed.

(* ------------------------------------------------------------------ load after store *)
Theorem bitfield_load_store t before after v u :
  bf_pos t before after -> 0 <= u < 2 ^ sbits t ->
  let u' := new_unit t before after v u in
  0 <= u' < 2 ^ sbits t /\
  (* a later read of the member yields the assigned value, reduced to the width (sign-extended iff signed) *)
  bf_get (ssigned t) (ssize t) before after u' = bf_value (ssigned t) (ssize t) before after v /\
  (* every bit of the unit outside the member is unchanged *)
  (forall i, 0 <= i < sbits t -> ~ (before <= i < sbits t - after) -> Z.testbit u' i = Z.testbit u i).
Proof.
  intros [BT Hb Ha Hw] Hu u'.
  destruct (bf_type_facts t BT) as (_ & Ik & HS & _ & _ & Mk & K64 & _).
  split; [apply wrap_range; lia|]. split.
  - rewrite bf_get_raw. fold (sbits t). unfold u', new_unit. rewrite rmw_field by (assumption || lia).
    unfold bf_value, bf_width. fold (sbits t). destruct (ssigned t); [|reflexivity].
    apply sext_of_wrap. lia.
  - intros i Hi Out. unfold u', new_unit. rewrite rmw_outside by (assumption || lia).
    pose proof (ext_unit_congr (ssigned t) (sbits t) (bitsk (qbase t)) u HS Hu) as E.
    rewrite <- E at 2. unfold wrap. rewrite Z.mod_pow2_bits_low by lia. reflexivity.
Qed.

(* the value of the assignment expression: the assigned value reduced to the member's width, at every position
   (since the fix of bitfield-assign-value-subword-top; store_reg is what made the difference) *)
Theorem bits_store_value t before after v :
  bf_pos t before after -> 0 <= v < modk (qbase t) ->
  let x := fb_val (ssigned t) (bitsk (qbase t)) (sbits t) before after
                  (store_reg t after (wrap (bitsk (qbase t)) (v * 2 ^ before))) in
  0 <= x < modk (qbase t) /\ reg_value t x = bf_value (ssigned t) (ssize t) before after v.
Proof.
  intros BP Hv x. pose proof BP as [BT Hb Ha Hw].
  destruct (bf_type_facts t BT) as (_ & Ik & HS & _ & _ & Mk & K64 & _).
  set (N := bitsk (qbase t)) in *. set (S := sbits t) in *.
  set (v1 := wrap N (v * 2 ^ before)) in *.
  (* v1, cut to the unit, is a unit whose member holds v *)
  set (uu := wrap S v1).
  assert (Huu : 0 <= uu < 2 ^ S) by (apply wrap_range; lia).
  assert (Fld : bf_raw S before after uu = v mod 2 ^ (S - before - after)).
  { unfold bf_raw. apply Z.bits_inj'. intros j Hj. destruct (Z.ltb_spec j (S - before - after)).
    - rewrite !Z.mod_pow2_bits_low by lia. rewrite Z.div_pow2_bits by lia.
      unfold uu, v1, wrap. rewrite !Z.mod_pow2_bits_low by lia. rewrite Z.mul_pow2_bits by lia. f_equal. lia.
    - rewrite !Z.mod_pow2_bits_high by lia. reflexivity. }
  assert (V : 0 <= x < modk (qbase t) /\ reg_value t x = bf_get (ssigned t) (ssize t) before after uu).
  { apply (fb_val_field t before after (store_reg t after v1) uu BP Huu).
    - intros A0. unfold store_reg, store_top. rewrite A0. cbn [Z.eqb andb].
      destruct (Z.ltb_spec (ssize t) 4) as [Sz|Sz]; [reflexivity|].
      (* a 4- or 8-byte unit fills the register: the extension is the identity *)
      assert (SN : S = N) by (destruct t as [[] []| | | |]; try discriminate; simpl in Sz; try lia; reflexivity).
      unfold uu, ext_unit. fold N S. rewrite SN. assert (W : wrap N v1 = v1) by (apply wrap_id; apply wrap_range; lia).
      rewrite W. destruct (ssigned t); [|reflexivity]. rewrite sext_wrap by lia. symmetry. exact W.
    - unfold store_reg. destruct (store_top t after); [|reflexivity].
      fold N S. apply ext_unit_congr; assumption. }
  destruct V as [Rx V]. split; [exact Rx|].
  rewrite V, bf_get_raw. change (8 * ssize t) with S. rewrite Fld. unfold bf_value, bf_width. change (8 * ssize t) with S.
  destruct (ssigned t); [|reflexivity]. apply sext_of_wrap. lia.
Qed.

(* `struct { signed char a : 3, f : 5; } s; (s.f = 100)` has the value 4 (it was 100 before the fix) *)
Example bits_store_value_top :
  let t := SInt I1 true in
  bf_pos t 3 0 /\ store_top t 0 = true /\
  reg_value t (fb_val (ssigned t) (bitsk (qbase t)) (sbits t) 3 0 (store_reg t 0 (wrap (bitsk (qbase t)) (100 * 2 ^ 3)))) = 4 /\
  bf_value true 1 3 0 100 = 4 /\
  (* without the extension: *)
  reg_value t (fb_val (ssigned t) (bitsk (qbase t)) (sbits t) 3 0 (wrap (bitsk (qbase t)) (100 * 2 ^ 3))) = 100.
Proof. split; [constructor; (reflexivity || (cbv; congruence))|]. repeat split; vm_compute; reflexivity. Qed.
