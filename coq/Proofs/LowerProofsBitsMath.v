(* LowerProofsBitsMath.v - the arithmetic of funcbits (shl, then sar|shr) and of funcstore's read-modify-write
   mask, on integers: extraction of a field from the extended storage unit, insertion bit by bit. *)
From Coq Require Import ZArith Bool Lia.
From Cproc Require Import Lib.Wrap Spec.Csem.
Local Open Scope Z_scope.

(* ---------- small facts ---------- *)
Lemma pow2_add a b : 0 <= a -> 0 <= b -> 2 ^ (a + b) = 2 ^ a * 2 ^ b.
Proof. intros. apply Z.pow_add_r; assumption. Qed.

Lemma mod_div_swap u a b : 0 <= a -> 0 <= b -> (u mod 2 ^ (a + b)) / 2 ^ b = (u / 2 ^ b) mod 2 ^ a.
Proof.
  intros Ha Hb. rewrite (Z.add_comm a b), pow2_add by assumption.
  pose proof (pow2_pos a Ha). pose proof (pow2_pos b Hb).
  rewrite Z.rem_mul_r by lia.
  rewrite (Z.mul_comm (2 ^ b) ((u / 2 ^ b) mod 2 ^ a)), Z.div_add by lia.
  rewrite Z.div_small by (apply Z.mod_pos_bound; lia). lia.
Qed.

Lemma mul_mod_pow u s n : 0 <= s <= n -> (u * 2 ^ s) mod 2 ^ n = (u mod 2 ^ (n - s)) * 2 ^ s.
Proof.
  intros H. replace n with ((n - s) + s) at 1 by lia. rewrite pow2_add by lia.
  pose proof (pow2_pos s ltac:(lia)). pose proof (pow2_pos (n - s) ltac:(lia)).
  rewrite Z.mul_mod_distr_r by lia. reflexivity.
Qed.

(* sign extension commutes with dropping low bits *)
Lemma sext_div S b u : 0 <= b < S -> 0 <= u < 2 ^ S -> sext S u / 2 ^ b = sext (S - b) (u / 2 ^ b).
Proof.
  intros Hb Hu. unfold sext. cbv zeta.
  pose proof (pow2_pos b ltac:(lia)) as Pb. pose proof (pow2_pos (S - b) ltac:(lia)) as Psb.
  pose proof (pow2_pos (S - 1 - b) ltac:(lia)) as Ps1b.
  assert (ES : 2 ^ S = 2 ^ (S - b) * 2 ^ b) by (rewrite <- pow2_add by lia; f_equal; lia).
  assert (ES1 : 2 ^ (S - 1) = 2 ^ (S - 1 - b) * 2 ^ b) by (rewrite <- pow2_add by lia; f_equal; lia).
  assert (EH : 2 ^ (S - b) = 2 * 2 ^ (S - 1 - b)).
  { replace (S - b) with (1 + (S - 1 - b)) by lia. rewrite pow2_add by lia. reflexivity. }
  replace (S - b - 1) with (S - 1 - b) by lia.
  rewrite (Z.mod_small u (2 ^ S)) by assumption.
  assert (Q : 0 <= u / 2 ^ b < 2 ^ (S - b)).
  { split; [apply Z.div_pos; lia|]. apply Z.div_lt_upper_bound; lia. }
  rewrite (Z.mod_small (u / 2 ^ b)) by assumption.
  pose proof (Z.div_mod u (2 ^ b) ltac:(lia)) as DM. pose proof (Z.mod_pos_bound u (2 ^ b) Pb) as MB.
  destruct (Z.ltb_spec u (2 ^ (S - 1))) as [L|L]; destruct (Z.ltb_spec (u / 2 ^ b) (2 ^ (S - 1 - b))) as [L'|L'];
    try reflexivity.
  - exfalso. nia.
  - exfalso. nia.
  - rewrite ES. replace (u - 2 ^ (S - b) * 2 ^ b) with (u + (- 2 ^ (S - b)) * 2 ^ b) by lia.
    rewrite Z.div_add by lia. lia.
Qed.

Lemma sext_scale n s g : 0 <= s -> 0 < n -> 0 <= g < 2 ^ n -> sext (n + s) (g * 2 ^ s) = sext n g * 2 ^ s.
Proof.
  intros Hs Hn Hg. unfold sext. cbv zeta.
  pose proof (pow2_pos s Hs). pose proof (pow2_pos n ltac:(lia)). pose proof (pow2_pos (n - 1) ltac:(lia)).
  rewrite pow2_add by lia. replace (n + s - 1) with ((n - 1) + s) by lia. rewrite pow2_add by lia.
  rewrite (Z.mod_small g) by assumption. rewrite (Z.mod_small (g * 2 ^ s)) by nia.
  destruct (Z.ltb_spec g (2 ^ (n - 1))); destruct (Z.ltb_spec (g * 2 ^ s) (2 ^ (n - 1) * 2 ^ s)); nia.
Qed.

Lemma sext_wrap_small N S z : 0 < S <= N -> - 2 ^ (S - 1) <= z < 2 ^ (S - 1) -> sext N (wrap N z) = z.
Proof.
  intros H R. rewrite sext_of_wrap by lia. apply sext_id; [lia|].
  pose proof (pow2_le_mono (S - 1) (N - 1) ltac:(lia)). lia.
Qed.

(* ---------- the storage unit in a register ---------- *)
(* what load{s,u}{b,h} / loadw / loadl leave in an N-bit register for a unit of S bits holding u *)
Definition ext_unit (sg : bool) (S N u : Z) : Z := if sg then wrap N (sext S u) else u.

Lemma ext_unit_congr sg S N u : 0 < S <= N -> 0 <= u < 2 ^ S -> wrap S (ext_unit sg S N u) = u.
Proof.
  intros H Hu. unfold ext_unit. destruct sg.
  - rewrite wrap_wrap_le by lia. rewrite sext_wrap by lia. apply wrap_id; assumption.
  - apply wrap_id; assumption.
Qed.

Lemma ext_unit_range sg S N u : 0 < S <= N -> 0 <= u < 2 ^ S -> 0 <= ext_unit sg S N u < 2 ^ N.
Proof.
  intros H Hu. unfold ext_unit. destruct sg; [apply wrap_range; lia|].
  pose proof (pow2_le_mono S N ltac:(lia)). lia.
Qed.

(* ---------- funcbits on values ---------- *)
Definition fb_val (sg : bool) (N S before after raw : Z) : Z :=
  let bits := if after =? 0 then 0 else after + (N - S) in
  let v1 := if after =? 0 then raw else wrap N (raw * 2 ^ bits) in
  let bits2 := bits + before in
  if bits2 =? 0 then v1 else if sg then wrap N (sext N v1 / 2 ^ bits2) else v1 / 2 ^ bits2.

(* the field, read as an unsigned number *)
Definition bf_raw (S before after u : Z) : Z := (u / 2 ^ before) mod 2 ^ (S - before - after).

Section Field.
Variables N S before after : Z.
Hypothesis HS : 0 < S <= N.
Hypothesis Hb : 0 <= before.
Hypothesis Ha : 0 <= after.
Hypothesis Hw : before + after < S.
Let w := S - before - after.

Lemma field_range u : 0 <= bf_raw S before after u < 2 ^ w.
Proof. unfold bf_raw. fold w. apply Z.mod_pos_bound. apply pow2_pos. unfold w. lia. Qed.

(* after <> 0: only the low S bits of the register matter *)
Lemma shl_part raw u : 0 < after -> wrap S raw = u -> 0 <= u < 2 ^ S ->
  wrap N (raw * 2 ^ (after + (N - S))) = (u mod 2 ^ (w + before)) * 2 ^ (after + (N - S)).
Proof.
  intros Hap E Hu. unfold wrap at 1.
  rewrite mul_mod_pow by lia. f_equal.
  replace (N - (after + (N - S))) with (w + before) by (unfold w; lia).
  subst u. symmetry. apply (wrap_wrap_le (w + before) S raw). unfold w; lia.
Qed.

Lemma fb_unsigned_shl raw u : 0 < after -> wrap S raw = u -> 0 <= u < 2 ^ S ->
  fb_val false N S before after raw = bf_raw S before after u /\ 0 <= fb_val false N S before after raw < 2 ^ N.
Proof.
  intros Hap E Hu. unfold fb_val. destruct (Z.eqb_spec after 0); [lia|]. cbv zeta.
  destruct (Z.eqb_spec (after + (N - S) + before) 0); [lia|].
  rewrite (shl_part raw u Hap E Hu).
  assert (X : (u mod 2 ^ (w + before)) * 2 ^ (after + (N - S)) / 2 ^ (after + (N - S) + before) = bf_raw S before after u).
  { rewrite (pow2_add (after + (N - S)) before) by lia. pose proof (pow2_pos (after + (N - S)) ltac:(lia)). pose proof (pow2_pos before Hb).
    rewrite <- Z.div_div by lia. rewrite Z.div_mul by lia.
    rewrite mod_div_swap by (unfold w; lia). reflexivity. }
  rewrite X. split; [reflexivity|]. pose proof (field_range u). pose proof (pow2_le_mono w N ltac:(unfold w; lia)). lia.
Qed.

Lemma fb_signed_shl raw u : 0 < after -> wrap S raw = u -> 0 <= u < 2 ^ S ->
  sext N (fb_val true N S before after raw) = sext w (bf_raw S before after u) /\ 0 <= fb_val true N S before after raw < 2 ^ N.
Proof.
  intros Hap E Hu. unfold fb_val. destruct (Z.eqb_spec after 0); [lia|]. cbv zeta.
  destruct (Z.eqb_spec (after + (N - S) + before) 0); [lia|].
  rewrite (shl_part raw u Hap E Hu). split; [|apply wrap_range; lia].
  set (g := u mod 2 ^ (w + before)). set (s := after + (N - S)).
  assert (Hg : 0 <= g < 2 ^ (w + before)) by (apply Z.mod_pos_bound; apply pow2_pos; unfold w; lia).
  assert (EN : N = (w + before) + s) by (unfold w, s; lia).
  assert (SX : sext N (g * 2 ^ s) = sext (w + before) g * 2 ^ s).
  { rewrite EN at 1. apply sext_scale; [unfold s; lia|unfold w; lia|exact Hg]. }
  rewrite SX. pose proof (pow2_pos s ltac:(unfold s; lia)). pose proof (pow2_pos before Hb).
  rewrite (pow2_add s before) by (unfold s; lia). rewrite <- Z.div_div by lia. rewrite Z.div_mul by lia.
  rewrite (sext_div (w + before) before g) by (first [exact Hg|unfold w; lia]).
  replace (w + before - before) with w by lia.
  assert (F : sext w (g / 2 ^ before) = sext w (bf_raw S before after u)).
  { apply sext_congr; [unfold w; lia|]. unfold bf_raw. fold w. unfold wrap, g.
    rewrite mod_div_swap by (unfold w; lia). rewrite Z.mod_mod; [reflexivity|]. pose proof (pow2_pos w ltac:(unfold w; lia)). lia. }
  rewrite F. apply sext_wrap_small with (S := w); [unfold w; lia|]. apply sext_range. unfold w. lia.
Qed.

(* after = 0: no left shift, the register must hold the properly extended unit *)
Lemma fb_unsigned_top u : after = 0 -> 0 <= u < 2 ^ S ->
  fb_val false N S before after (ext_unit false S N u) = bf_raw S before after u /\
  0 <= fb_val false N S before after (ext_unit false S N u) < 2 ^ N.
Proof.
  intros A0 Hu. unfold fb_val, ext_unit, bf_raw. rewrite A0. cbn [Z.eqb]. cbv zeta.
  replace (S - before - 0) with (S - before) by lia. pose proof (pow2_le_mono S N ltac:(lia)).
  pose proof (pow2_pos before Hb).
  assert (Q : 0 <= u / 2 ^ before < 2 ^ (S - before)).
  { split; [apply Z.div_pos; lia|]. apply Z.div_lt_upper_bound; [lia|]. rewrite <- pow2_add by lia.
    replace (before + (S - before)) with S by lia. lia. }
  pose proof (pow2_le_mono (S - before) N ltac:(lia)).
  replace (0 + before) with before by lia. destruct (Z.eqb_spec before 0) as [->|NZ].
  - rewrite Z.pow_0_r, Z.div_1_r in *. replace (S - 0) with S in * by lia. rewrite Z.mod_small by assumption. lia.
  - rewrite Z.mod_small by assumption. lia.
Qed.

Lemma fb_signed_top u : after = 0 -> 0 <= u < 2 ^ S ->
  sext N (fb_val true N S before after (ext_unit true S N u)) = sext w (bf_raw S before after u) /\
  0 <= fb_val true N S before after (ext_unit true S N u) < 2 ^ N.
Proof.
  intros A0 Hu. unfold fb_val, ext_unit, bf_raw. fold w. rewrite A0. cbn [Z.eqb]. cbv zeta.
  replace (0 + before) with before by lia.
  pose proof (sext_range S u ltac:(lia)) as SR.
  assert (SXN : sext N (wrap N (sext S u)) = sext S u) by (apply sext_wrap_small with (S := S); [lia|assumption]).
  destruct (Z.eqb_spec before 0) as [B0|NZ].
  - split; [|apply wrap_range; lia]. rewrite SXN. subst before. rewrite Z.pow_0_r, Z.div_1_r.
    assert (w = S) as -> by (unfold w; lia). symmetry. apply sext_of_wrap. lia.
  - split; [|apply wrap_range; lia]. rewrite SXN.
    rewrite (sext_div S before u) by lia.
    assert (w = S - before) as -> by (unfold w; lia).
    assert (R : - 2 ^ (S - before - 1) <= sext (S - before) (u / 2 ^ before) < 2 ^ (S - before - 1)) by (apply sext_range; lia).
    rewrite sext_wrap_small with (S := S - before) by (lia || assumption).
    symmetry. apply sext_of_wrap. lia.
Qed.

End Field.

(* ---------- the mask ---------- *)
Definition field_mask (w before : Z) : Z := (2 ^ w - 1) * 2 ^ before.

Lemma field_mask_bits w before i : 0 <= w -> 0 <= before -> 0 <= i ->
  Z.testbit (field_mask w before) i = (before <=? i) && (i <? before + w).
Proof.
  intros Hw Hb Hi. unfold field_mask. rewrite <- Z.shiftl_mul_pow2 by assumption.
  rewrite Z.shiftl_spec by assumption. fold (mask w). rewrite mask_ones.
  destruct (Z.leb_spec before i).
  - destruct (Z.ltb_spec i (before + w)).
    + apply Z.ones_spec_low. lia.
    + apply Z.ones_spec_high. lia.
  - apply Z.testbit_neg_r. lia.
Qed.

Lemma field_mask_range w before n : 0 <= w -> 0 <= before -> before + w <= n -> 0 <= field_mask w before < 2 ^ n.
Proof.
  intros Hw Hb Hn. unfold field_mask. pose proof (pow2_pos w Hw). pose proof (pow2_pos before Hb).
  pose proof (pow2_le_mono (before + w) n ltac:(lia)). rewrite pow2_add in * by lia. nia.
Qed.

(* the complement within n bits *)
Lemma notmask_bits w before n i : 0 <= w -> 0 <= before -> before + w <= n -> 0 <= i < n ->
  Z.testbit (2 ^ n - 1 - field_mask w before) i = negb ((before <=? i) && (i <? before + w)).
Proof.
  intros Hw Hb Hn Hi. pose proof (field_mask_range w before n Hw Hb Hn) as R.
  fold (mask n). rewrite mask_ones.
  assert (L : Z.ldiff (field_mask w before) (Z.ones n) = 0).
  { apply Z.bits_inj'. intros j Hj. rewrite Z.ldiff_spec, Z.bits_0.
    destruct (Z.ltb_spec j n).
    - rewrite Z.ones_spec_low by lia. apply andb_false_r.
    - replace (Z.testbit (field_mask w before) j) with false; [reflexivity|].
      symmetry. destruct (Z.eq_dec (field_mask w before) 0) as [->|]; [apply Z.bits_0|].
      apply Z.bits_above_log2; [lia|]. apply Z.lt_le_trans with n; [|assumption]. apply Z.log2_lt_pow2; lia. }
  rewrite (Z.sub_nocarry_ldiff _ _ L), Z.ldiff_spec, Z.ones_spec_low by lia.
  rewrite field_mask_bits by lia. reflexivity.
Qed.

(* ---------- insertion ---------- *)
(* the unit after the read-modify-write: v shifted into place, old contents outside the field *)
Definition rmw (N before w v old : Z) : Z :=
  Z.lor (Z.land (wrap N (v * 2 ^ before)) (field_mask w before))
        (Z.land old (2 ^ N - 1 - field_mask w before)).

Lemma rmw_bits N before w v old i : 0 <= w -> 0 <= before -> before + w <= N -> 0 <= i < N ->
  Z.testbit (rmw N before w v old) i =
    if (before <=? i) && (i <? before + w) then Z.testbit v (i - before) else Z.testbit old i.
Proof.
  intros Hw Hb Hn Hi. unfold rmw. rewrite Z.lor_spec, !Z.land_spec.
  rewrite field_mask_bits, notmask_bits by lia.
  unfold wrap. rewrite Z.mod_pow2_bits_low by lia. rewrite Z.mul_pow2_bits by assumption.
  destruct ((before <=? i) && (i <? before + w)); cbn [negb]; rewrite ?andb_true_r, ?andb_false_r, ?orb_false_r, ?orb_false_l; reflexivity.
Qed.

Lemma rmw_range N before w v old : 0 <= w -> 0 <= before -> before + w <= N -> 0 <= old < 2 ^ N ->
  0 <= rmw N before w v old < 2 ^ N.
Proof.
  intros Hw Hb Hn Ho. unfold rmw. pose proof (field_mask_range w before N Hw Hb Hn).
  pose proof (wrap_range N (v * 2 ^ before) ltac:(lia)).
  apply lor_nonneg_range; [lia| |]; apply land_nonneg_range; lia.
Qed.

(* what a later read of the field sees, and what the other bits are *)
Lemma rmw_field N S before after v old :
  0 < S <= N -> 0 <= before -> 0 <= after -> before + after < S ->
  bf_raw S before after (wrap S (rmw N before (S - before - after) v old)) = v mod 2 ^ (S - before - after).
Proof.
  intros HS Hb Ha Hw. set (w := S - before - after). unfold bf_raw. fold w.
  apply Z.bits_inj'. intros j Hj.
  destruct (Z.ltb_spec j w).
  - rewrite !Z.mod_pow2_bits_low by lia. rewrite Z.div_pow2_bits by lia.
    unfold wrap. rewrite Z.mod_pow2_bits_low by (unfold w in *; lia).
    rewrite rmw_bits by (unfold w in *; lia).
    replace ((before <=? j + before) && (j + before <? before + w)) with true
      by (symmetry; apply andb_true_intro; split; [apply Z.leb_le|apply Z.ltb_lt]; lia).
    f_equal. lia.
  - rewrite !Z.mod_pow2_bits_high by lia. reflexivity.
Qed.

Lemma rmw_outside N S before after v old i :
  0 < S <= N -> 0 <= before -> 0 <= after -> before + after < S ->
  0 <= i < S -> ~ (before <= i < S - after) ->
  Z.testbit (wrap S (rmw N before (S - before - after) v old)) i = Z.testbit old i.
Proof.
  intros HS Hb Ha Hw Hi Out. unfold wrap. rewrite Z.mod_pow2_bits_low by lia.
  rewrite rmw_bits by lia.
  replace ((before <=? i) && (i <? before + (S - before - after))) with false; [reflexivity|].
  symmetry. destruct (Z.leb_spec before i); [|reflexivity]. destruct (Z.ltb_spec i (before + (S - before - after))); [lia|reflexivity].
Qed.

(* -1ull >> (64 - S + before + after) << before, truncated to 64 bits, is the field mask *)
Lemma store_mask_eq S before after :
  0 < S <= 64 -> 0 <= before -> 0 <= after -> before + after < S ->
  (Z.shiftl (Z.shiftr (2 ^ 64 - 1) (64 - S + (before + after))) before) mod 2 ^ 64 = field_mask (S - before - after) before.
Proof.
  intros HS Hb Ha Hw.
  replace (64 - S + (before + after)) with (64 - (S - before - after)) by lia.
  rewrite shiftr_ones_64 by lia. rewrite Z.shiftl_mul_pow2 by assumption. fold (field_mask (S - before - after) before).
  apply Z.mod_small. apply field_mask_range; lia.
Qed.
