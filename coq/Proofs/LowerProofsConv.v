(* LowerProofsConv.v - convert_correct: the instruction sequence qbe.c:convert emits for a pair of integer
   (or _Bool, pointer) types computes the C conversion on every represented operand value. *)
From Coq Require Import ZArith List Bool PArith Lia FMapPositive.
From Cproc Require Import Lib.Wrap Model.Qbe Spec.CArith Spec.Csem Model.Lower
  Proofs.LowerProofsExec Proofs.LowerProofsArith.
Import ListNotations.
Local Open Scope Z_scope.

(* ------------------------------------------------------------------ one instruction *)
Definition pure_op (o : op) : Prop :=
  match o with Ostore _ | Oload _ | Oalloc _ | Ovastart | Ovaarg => False | _ => True end.

Lemma exec_pure_inst fo env m n k o a0 a1 v :
  pure_op o -> eval_pure fo env o k a0 a1 = Ok v ->
  exec_inst fo (env, m) (Iop (Some (n, k)) o a0 a1) = Ok (PM.add n (k, v) env, m).
Proof. intros P E. unfold exec_inst. destruct o; try contradiction; rewrite E; reflexivity. Qed.

Lemma read_l_as_w env r x : read env Kl r = Ok x -> read env Kw r = Ok (x mod two32).
Proof.
  destruct r; simpl; try discriminate.
  - destruct (PM.find t env) as [[[] v]|]; simpl; try discriminate; intros [= <-]; reflexivity.
  - intros [= <-]. f_equal. change two64 with (two32 * two32).
    rewrite Z.rem_mul_r by (unfold two32; lia).
    rewrite Z.mul_comm, Z.mod_add by (unfold two32; lia). symmetry; apply Z.mod_mod. unfold two32; lia.
  - intros [= <-]. reflexivity.
Qed.

Definition ext_val (e : extk) (k : cls) (x : Z) : Z :=
  match e with
  | Esw => wrapk k (sextm two32 x) | Euw => x
  | Esh => wrapk k (sextm two16 x) | Euh => x mod two16
  | Esb => wrapk k (sextm two8 x) | Eub => x mod two8 end.

Lemma eval_ext fo env e k a x :
  read env Kw a = Ok x -> isint k = true -> (match e with Esw | Euw => k = Kl | _ => True end) ->
  eval_pure fo env (Oext e) k a None = Ok (ext_val e k x).
Proof.
  intros R I W. unfold eval_pure. rewrite R. simpl.
  destruct e, k; try discriminate; try reflexivity.
Qed.

Lemma eval_cmpi_inst fo env (w : bool) c k a0 a1 x y :
  let ko := if w then Kl else Kw in
  read env ko a0 = Ok x -> read env ko a1 = Ok y -> isint k = true ->
  eval_pure fo env (Ocmpi w c) k a0 (Some a1) = Ok (b2z (eval_cmpi c ko x y)).
Proof. intros ko R0 R1 I. unfold eval_pure. fold ko. rewrite R0. simpl. rewrite R1. simpl. rewrite I. reflexivity. Qed.

Definition shiftop (b : Qbe.binop) : bool := match b with Bsar | Bshr | Bshl => true | _ => false end.

Lemma eval_bin_inst fo env b k a0 a1 x y v :
  read env k a0 = Ok x -> read env (if shiftop b then Kw else k) a1 = Ok y -> isint k = true ->
  eval_ibin b k x y = Some v ->
  eval_pure fo env (Obin b) k a0 (Some a1) = Ok v.
Proof.
  intros R0 R1 I E. unfold eval_pure. rewrite R0. simpl.
  replace (match b with Bsar | Bshr | Bshl => Kw | _ => k end) with (if shiftop b then Kw else k) by (destruct b; reflexivity).
  rewrite R1. simpl. rewrite I, E. reflexivity.
Qed.

(* ------------------------------------------------------------------ arithmetic of the conversion cells *)
Lemma repr_narrow dst src v x :
  dst <> SBool -> intlike dst = true -> sbits dst <= sbits src -> repr src v x -> repr dst (c_convert dst v) x.
Proof.
  intros NB ID L E. unfold repr in *. pose proof (sbits_bounds dst).
  assert (c_convert dst v = conv_spec (ity_of dst) v) as -> by (destruct dst; try reflexivity; congruence).
  rewrite conv_spec_wrap. apply wrap_narrow with (sbits src); [lia|assumption].
Qed.

Lemma repr_of_value dst v x k :
  dst <> SBool -> intlike dst = true -> sbits dst <= bitsk k -> x = wrapk k v -> repr dst (c_convert dst v) x.
Proof.
  intros NB ID L ->. unfold repr. pose proof (sbits_bounds dst).
  assert (c_convert dst v = conv_spec (ity_of dst) v) as -> by (destruct dst; try reflexivity; congruence).
  rewrite conv_spec_wrap, wrapk_wrap. apply wrap_wrap_le. lia.
Qed.

Lemma wrapk_range k x : 0 <= wrapk k x < modk k.
Proof. unfold wrapk. apply Z.mod_pos_bound. destruct k; reflexivity. Qed.

Lemma repr_mod32 t v x : sbits t <= 32 -> repr t v x -> repr t v (x mod two32).
Proof.
  intros L E. unfold repr in *. rewrite <- E. pose proof (sbits_bounds t).
  rewrite two32_eq. apply (wrap_wrap_le (sbits t) 32 x). lia.
Qed.

Lemma repr_zero_iff t v x : intlike t = true -> c_in_range t v -> repr t v x -> (wrap (sbits t) x =? 0) = (v =? 0).
Proof.
  intros IT Hr E. pose proof (sbits_bounds t). destruct (ssigned t) eqn:Hs.
  - pose proof (repr_sext t v x Hs Hr E) as S. subst v. unfold sext. cbv zeta. fold (wrap (sbits t) x).
    pose proof (wrap_range (sbits t) x ltac:(lia)). pose proof (pow2_half (sbits t) ltac:(lia)).
    pose proof (pow2_pos (sbits t - 1) ltac:(lia)).
    destruct (Z.ltb_spec (wrap (sbits t) x) (2 ^ (sbits t - 1))); [reflexivity|].
    destruct (Z.eqb_spec (wrap (sbits t) x) 0); destruct (Z.eqb_spec (wrap (sbits t) x - 2 ^ sbits t) 0); lia.
  - rewrite (repr_wrap t v x Hs Hr E). reflexivity.
Qed.

Lemma exec_cons fo s i c s1 s2 :
  exec_inst fo s i = Ok s1 -> exec fo s1 c = Ok s2 -> exec fo s (i :: c) = Ok s2.
Proof. intros H1 H2. simpl. rewrite H1. exact H2. Qed.

(* boilerplate of a sequence that ends in one pure instruction *)
Lemma one_inst fo env m (n : ident) k o a0 a1 v (P : Z -> Prop) :
  pure_op o -> eval_pure fo env o k a0 a1 = Ok v -> 0 <= v < modk k -> P v ->
  exists env' x',
    exec fo (env, m) [Iop (Some (n, k)) o a0 a1] = Ok (env', m) /\
    read env' k (RTmp n) = Ok x' /\ 0 <= x' < modk k /\ P x' /\
    agree_below n env env' /\ ref_lt (Pos.succ n) (RTmp n) /\ (n <= Pos.succ n)%positive.
Proof.
  intros Po Ev Rg Pv. exists (PM.add n (k, v) env), v.
  split; [eapply exec_cons; [apply exec_pure_inst; eassumption|reflexivity]|].
  repeat split; try tauto; try lia.
  - apply read_gss.
  - apply agree_add. lia.
  - simpl. lia.
Qed.

Lemma two_inst fo env m (n : ident) k1 o1 a0 a1 v1 k o b1 v (P : Z -> Prop) :
  pure_op o1 -> eval_pure fo env o1 k1 a0 a1 = Ok v1 ->
  pure_op o -> eval_pure fo (PM.add n (k1, v1) env) o k (RTmp n) b1 = Ok v -> 0 <= v < modk k -> P v ->
  exists env' x',
    exec fo (env, m) [Iop (Some (n, k1)) o1 a0 a1; Iop (Some (Pos.succ n, k)) o (RTmp n) b1] = Ok (env', m) /\
    read env' k (RTmp (Pos.succ n)) = Ok x' /\ 0 <= x' < modk k /\ P x' /\
    agree_below n env env' /\ ref_lt (Pos.succ (Pos.succ n)) (RTmp (Pos.succ n)) /\ (n <= Pos.succ (Pos.succ n))%positive.
Proof.
  intros Po1 Ev1 Po Ev Rg Pv. exists (PM.add (Pos.succ n) (k, v) (PM.add n (k1, v1) env)), v.
  split; [eapply exec_cons; [apply exec_pure_inst; eassumption|
           eapply exec_cons; [apply exec_pure_inst; eassumption|reflexivity]]|].
  repeat split; try tauto; try lia.
  - apply read_gss.
  - apply agree_trans with (m := n) (e2 := PM.add n (k1, v1) env); [lia|apply agree_add; lia|apply agree_add; lia].
  - simpl. lia.
Qed.

Lemma b2z_range k b : 0 <= Qbe.b2z b < modk k.
Proof. destruct b, k; cbv; split; congruence. Qed.

Lemma repr_bool b : repr SBool (CArith.b2z b) (Qbe.b2z b).
Proof. destruct b; reflexivity. Qed.

(* the value an extension produces for a represented operand *)
Lemma ext_signed_val t v x k (e : extk) :
  ssigned t = true -> c_in_range t v -> repr t v x ->
  ext_val e k x = wrapk k (sextm (2 ^ sbits t) x) -> ext_val e k x = wrapk k v.
Proof.
  intros Hs Hr E ->. pose proof (sbits_bounds t). rewrite sextm_sext by lia.
  rewrite (repr_sext t v x Hs Hr E). reflexivity.
Qed.

Lemma ext_unsigned_val t v x k :
  ssigned t = false -> c_in_range t v -> repr t v x -> sbits t <= bitsk k -> wrap (sbits t) x = wrapk k v.
Proof.
  intros Hs Hr E L. rewrite (repr_wrap t v x Hs Hr E). rewrite wrapk_wrap. symmetry. apply wrap_id.
  pose proof (in_range_unsigned t v Hs (c_in_range_in_range t v Hr)). pose proof (sbits_bounds t).
  pose proof (pow2_le_mono (sbits t) (bitsk k) ltac:(lia)). lia.
Qed.

Lemma bool_cell t v x y k :
  intlike t = true -> c_in_range t v -> repr t v x -> y = wrap (sbits t) x ->
  repr SBool (c_convert SBool v) (Qbe.b2z (eval_cmpi Cne k y 0)).
Proof.
  intros IT Hr E ->. unfold eval_cmpi. rewrite (repr_zero_iff t v x IT Hr E).
  unfold c_convert, conv_bool_spec. apply repr_bool.
Qed.

Lemma ext_range e k x : isint k = true -> 0 <= x < two32 -> 0 <= ext_val e k x < modk k.
Proof.
  intros I Hx. destruct e; unfold ext_val; try apply wrapk_range.
  - destruct k; try discriminate; unfold modk, wide, two32, two64 in *; lia.
  - pose proof (Z.mod_pos_bound x two16 eq_refl). destruct k; try discriminate; unfold modk, wide, two16, two32, two64 in *; lia.
  - pose proof (Z.mod_pos_bound x two8 eq_refl). destruct k; try discriminate; unfold modk, wide, two8, two32, two64 in *; lia.
Qed.

(* ------------------------------------------------------------------ the theorem *)
Ltac conv_types dst src :=
  destruct dst as [[] []| | | |], src as [[] []| | | |]; try discriminate.

Ltac conv_cbn :=
  cbn [convert convert_steps pnorm ssize zsize ssigned gsteps gbind ginst gret fst snd cs_op cs_cls cs_a1 step1
       Z.eqb Pos.eqb Z.leb Z.ltb Z.compare Pos.compare Pos.compare_cont app qbase] in *.

Definition conv_stmt (dst src : sty) : Prop :=
  forall fo env m l n x v,
  intlike dst = true -> intlike src = true -> ref_lt n l ->
  read env (qbase src) l = Ok x -> 0 <= x < modk (qbase src) ->
  repr src v x -> c_in_range src v ->
  exists env' x',
    exec fo (env, m) (snd (fst (convert dst src l n))) = Ok (env', m) /\
    read env' (qbase dst) (fst (fst (convert dst src l n))) = Ok x' /\
    0 <= x' < modk (qbase dst) /\
    repr dst (c_convert dst v) x' /\
    agree_below n env env' /\
    ref_lt (snd (convert dst src l n)) (fst (fst (convert dst src l n))) /\
    (n <= snd (convert dst src l n))%positive.

Lemma conv_i1s src : conv_stmt (SInt I1 true) src.
Proof.
  intros fo env m l n x v ID IS Ll R Rx E Rv.
  destruct src as [[] []| | | |]; try discriminate; conv_cbn.
  all: try match goal with
  | |- context [exec _ _ []] =>
      (* no instruction: narrowing or same size *)
      first
      [ solve [ exists env, x; repeat split; try assumption; try apply agree_refl; try lia;
          apply (fun a b c => repr_narrow _ _ _ _ a b c E); [discriminate|reflexivity|cbv; congruence] ]
      | solve [ exists env, (x mod two32); repeat split; try (apply read_l_as_w; assumption);
          try apply mod_two32_range; try apply agree_refl; try assumption; try lia;
          apply repr_mod32; [cbv; congruence|];
          apply (fun a b c => repr_narrow _ _ _ _ a b c E); [discriminate|reflexivity|cbv; congruence] ] ]
  end.
  all: try match goal with
  | |- context [exec _ _ (cons (Iop (Some (_, ?kk)) (Oext ?e) _ None) nil)] =>
      let t := match type of E with repr ?t _ _ => t end in
      eapply (one_inst fo env m n kk (Oext e) l None (ext_val e kk x) (fun x' => repr _ (c_convert _ v) x'));
      [ exact I
      | apply eval_ext; [exact R|reflexivity|try reflexivity; exact I]
      | apply ext_range; [reflexivity|exact Rx]
      | apply repr_of_value with (k := kk); [discriminate|reflexivity|cbv; congruence|];
        first
        [ (* signed source *)
          apply (ext_signed_val t v x kk e eq_refl Rv E); reflexivity
        | (* unsigned source, extub / extuh *)
          refine (ext_unsigned_val t v x kk eq_refl Rv E _); cbv; congruence
        | (* extuw *)
          rewrite <- (ext_unsigned_val t v x kk eq_refl Rv E ltac:(cbv; congruence));
          symmetry; apply wrap_id; exact Rx ] ]
  end.
  (* to _Bool through an unsigned extension and a comparison with zero *)
  all: try match goal with
  | |- context [exec _ _ (cons (Iop (Some (_, Kw)) (Oext ?e) _ None) (cons _ nil))] =>
      let t := match type of E with repr ?t _ _ => t end in
      eapply (two_inst fo env m n Kw (Oext e) l None (ext_val e Kw x) Kw (Ocmpi false Cne) (Some (RInt 0))
                (Qbe.b2z (eval_cmpi Cne Kw (ext_val e Kw x) 0)) (fun x' => repr SBool (c_convert SBool v) x'));
      [ exact I
      | apply eval_ext; [exact R|reflexivity|exact I]
      | exact I
      | apply (eval_cmpi_inst fo _ false Cne Kw (RTmp n) (RInt 0) (ext_val e Kw x) 0); [apply read_gss|reflexivity|reflexivity]
      | apply b2z_range
      | apply (bool_cell t v x (ext_val e Kw x) Kw eq_refl Rv E); reflexivity ]
  | |- context [exec _ _ (cons (Iop (Some (_, Kw)) (Ocmpi ?w Cne) _ _) nil)] =>
      let t := match type of E with repr ?t _ _ => t end in
      let ko := constr:(if w then Kl else Kw) in
      eapply (one_inst fo env m n Kw (Ocmpi w Cne) l (Some (RInt 0)) (Qbe.b2z (eval_cmpi Cne ko x 0))
                (fun x' => repr SBool (c_convert SBool v) x'));
      [ exact I
      | apply (eval_cmpi_inst fo env w Cne Kw l (RInt 0) x 0); [exact R|reflexivity|reflexivity]
      | apply b2z_range
      | apply (bool_cell t v x x ko eq_refl Rv E); symmetry; apply wrap_id; exact Rx ]
  end.
Qed.

Lemma conv_i1u src : conv_stmt (SInt I1 false) src.
Proof.
  intros fo env m l n x v ID IS Ll R Rx E Rv.
  destruct src as [[] []| | | |]; try discriminate; conv_cbn.
  all: try match goal with
  | |- context [exec _ _ []] =>
      (* no instruction: narrowing or same size *)
      first
      [ solve [ exists env, x; repeat split; try assumption; try apply agree_refl; try lia;
          apply (fun a b c => repr_narrow _ _ _ _ a b c E); [discriminate|reflexivity|cbv; congruence] ]
      | solve [ exists env, (x mod two32); repeat split; try (apply read_l_as_w; assumption);
          try apply mod_two32_range; try apply agree_refl; try assumption; try lia;
          apply repr_mod32; [cbv; congruence|];
          apply (fun a b c => repr_narrow _ _ _ _ a b c E); [discriminate|reflexivity|cbv; congruence] ] ]
  end.
  all: try match goal with
  | |- context [exec _ _ (cons (Iop (Some (_, ?kk)) (Oext ?e) _ None) nil)] =>
      let t := match type of E with repr ?t _ _ => t end in
      eapply (one_inst fo env m n kk (Oext e) l None (ext_val e kk x) (fun x' => repr _ (c_convert _ v) x'));
      [ exact I
      | apply eval_ext; [exact R|reflexivity|try reflexivity; exact I]
      | apply ext_range; [reflexivity|exact Rx]
      | apply repr_of_value with (k := kk); [discriminate|reflexivity|cbv; congruence|];
        first
        [ (* signed source *)
          apply (ext_signed_val t v x kk e eq_refl Rv E); reflexivity
        | (* unsigned source, extub / extuh *)
          refine (ext_unsigned_val t v x kk eq_refl Rv E _); cbv; congruence
        | (* extuw *)
          rewrite <- (ext_unsigned_val t v x kk eq_refl Rv E ltac:(cbv; congruence));
          symmetry; apply wrap_id; exact Rx ] ]
  end.
  (* to _Bool through an unsigned extension and a comparison with zero *)
  all: try match goal with
  | |- context [exec _ _ (cons (Iop (Some (_, Kw)) (Oext ?e) _ None) (cons _ nil))] =>
      let t := match type of E with repr ?t _ _ => t end in
      eapply (two_inst fo env m n Kw (Oext e) l None (ext_val e Kw x) Kw (Ocmpi false Cne) (Some (RInt 0))
                (Qbe.b2z (eval_cmpi Cne Kw (ext_val e Kw x) 0)) (fun x' => repr SBool (c_convert SBool v) x'));
      [ exact I
      | apply eval_ext; [exact R|reflexivity|exact I]
      | exact I
      | apply (eval_cmpi_inst fo _ false Cne Kw (RTmp n) (RInt 0) (ext_val e Kw x) 0); [apply read_gss|reflexivity|reflexivity]
      | apply b2z_range
      | apply (bool_cell t v x (ext_val e Kw x) Kw eq_refl Rv E); reflexivity ]
  | |- context [exec _ _ (cons (Iop (Some (_, Kw)) (Ocmpi ?w Cne) _ _) nil)] =>
      let t := match type of E with repr ?t _ _ => t end in
      let ko := constr:(if w then Kl else Kw) in
      eapply (one_inst fo env m n Kw (Ocmpi w Cne) l (Some (RInt 0)) (Qbe.b2z (eval_cmpi Cne ko x 0))
                (fun x' => repr SBool (c_convert SBool v) x'));
      [ exact I
      | apply (eval_cmpi_inst fo env w Cne Kw l (RInt 0) x 0); [exact R|reflexivity|reflexivity]
      | apply b2z_range
      | apply (bool_cell t v x x ko eq_refl Rv E); symmetry; apply wrap_id; exact Rx ]
  end.
Qed.

Lemma conv_i2s src : conv_stmt (SInt I2 true) src.
Proof.
  intros fo env m l n x v ID IS Ll R Rx E Rv.
  destruct src as [[] []| | | |]; try discriminate; conv_cbn.
  all: try match goal with
  | |- context [exec _ _ []] =>
      (* no instruction: narrowing or same size *)
      first
      [ solve [ exists env, x; repeat split; try assumption; try apply agree_refl; try lia;
          apply (fun a b c => repr_narrow _ _ _ _ a b c E); [discriminate|reflexivity|cbv; congruence] ]
      | solve [ exists env, (x mod two32); repeat split; try (apply read_l_as_w; assumption);
          try apply mod_two32_range; try apply agree_refl; try assumption; try lia;
          apply repr_mod32; [cbv; congruence|];
          apply (fun a b c => repr_narrow _ _ _ _ a b c E); [discriminate|reflexivity|cbv; congruence] ] ]
  end.
  all: try match goal with
  | |- context [exec _ _ (cons (Iop (Some (_, ?kk)) (Oext ?e) _ None) nil)] =>
      let t := match type of E with repr ?t _ _ => t end in
      eapply (one_inst fo env m n kk (Oext e) l None (ext_val e kk x) (fun x' => repr _ (c_convert _ v) x'));
      [ exact I
      | apply eval_ext; [exact R|reflexivity|try reflexivity; exact I]
      | apply ext_range; [reflexivity|exact Rx]
      | apply repr_of_value with (k := kk); [discriminate|reflexivity|cbv; congruence|];
        first
        [ (* signed source *)
          apply (ext_signed_val t v x kk e eq_refl Rv E); reflexivity
        | (* unsigned source, extub / extuh *)
          refine (ext_unsigned_val t v x kk eq_refl Rv E _); cbv; congruence
        | (* extuw *)
          rewrite <- (ext_unsigned_val t v x kk eq_refl Rv E ltac:(cbv; congruence));
          symmetry; apply wrap_id; exact Rx ] ]
  end.
  (* to _Bool through an unsigned extension and a comparison with zero *)
  all: try match goal with
  | |- context [exec _ _ (cons (Iop (Some (_, Kw)) (Oext ?e) _ None) (cons _ nil))] =>
      let t := match type of E with repr ?t _ _ => t end in
      eapply (two_inst fo env m n Kw (Oext e) l None (ext_val e Kw x) Kw (Ocmpi false Cne) (Some (RInt 0))
                (Qbe.b2z (eval_cmpi Cne Kw (ext_val e Kw x) 0)) (fun x' => repr SBool (c_convert SBool v) x'));
      [ exact I
      | apply eval_ext; [exact R|reflexivity|exact I]
      | exact I
      | apply (eval_cmpi_inst fo _ false Cne Kw (RTmp n) (RInt 0) (ext_val e Kw x) 0); [apply read_gss|reflexivity|reflexivity]
      | apply b2z_range
      | apply (bool_cell t v x (ext_val e Kw x) Kw eq_refl Rv E); reflexivity ]
  | |- context [exec _ _ (cons (Iop (Some (_, Kw)) (Ocmpi ?w Cne) _ _) nil)] =>
      let t := match type of E with repr ?t _ _ => t end in
      let ko := constr:(if w then Kl else Kw) in
      eapply (one_inst fo env m n Kw (Ocmpi w Cne) l (Some (RInt 0)) (Qbe.b2z (eval_cmpi Cne ko x 0))
                (fun x' => repr SBool (c_convert SBool v) x'));
      [ exact I
      | apply (eval_cmpi_inst fo env w Cne Kw l (RInt 0) x 0); [exact R|reflexivity|reflexivity]
      | apply b2z_range
      | apply (bool_cell t v x x ko eq_refl Rv E); symmetry; apply wrap_id; exact Rx ]
  end.
Qed.

Lemma conv_i2u src : conv_stmt (SInt I2 false) src.
Proof.
  intros fo env m l n x v ID IS Ll R Rx E Rv.
  destruct src as [[] []| | | |]; try discriminate; conv_cbn.
  all: try match goal with
  | |- context [exec _ _ []] =>
      (* no instruction: narrowing or same size *)
      first
      [ solve [ exists env, x; repeat split; try assumption; try apply agree_refl; try lia;
          apply (fun a b c => repr_narrow _ _ _ _ a b c E); [discriminate|reflexivity|cbv; congruence] ]
      | solve [ exists env, (x mod two32); repeat split; try (apply read_l_as_w; assumption);
          try apply mod_two32_range; try apply agree_refl; try assumption; try lia;
          apply repr_mod32; [cbv; congruence|];
          apply (fun a b c => repr_narrow _ _ _ _ a b c E); [discriminate|reflexivity|cbv; congruence] ] ]
  end.
  all: try match goal with
  | |- context [exec _ _ (cons (Iop (Some (_, ?kk)) (Oext ?e) _ None) nil)] =>
      let t := match type of E with repr ?t _ _ => t end in
      eapply (one_inst fo env m n kk (Oext e) l None (ext_val e kk x) (fun x' => repr _ (c_convert _ v) x'));
      [ exact I
      | apply eval_ext; [exact R|reflexivity|try reflexivity; exact I]
      | apply ext_range; [reflexivity|exact Rx]
      | apply repr_of_value with (k := kk); [discriminate|reflexivity|cbv; congruence|];
        first
        [ (* signed source *)
          apply (ext_signed_val t v x kk e eq_refl Rv E); reflexivity
        | (* unsigned source, extub / extuh *)
          refine (ext_unsigned_val t v x kk eq_refl Rv E _); cbv; congruence
        | (* extuw *)
          rewrite <- (ext_unsigned_val t v x kk eq_refl Rv E ltac:(cbv; congruence));
          symmetry; apply wrap_id; exact Rx ] ]
  end.
  (* to _Bool through an unsigned extension and a comparison with zero *)
  all: try match goal with
  | |- context [exec _ _ (cons (Iop (Some (_, Kw)) (Oext ?e) _ None) (cons _ nil))] =>
      let t := match type of E with repr ?t _ _ => t end in
      eapply (two_inst fo env m n Kw (Oext e) l None (ext_val e Kw x) Kw (Ocmpi false Cne) (Some (RInt 0))
                (Qbe.b2z (eval_cmpi Cne Kw (ext_val e Kw x) 0)) (fun x' => repr SBool (c_convert SBool v) x'));
      [ exact I
      | apply eval_ext; [exact R|reflexivity|exact I]
      | exact I
      | apply (eval_cmpi_inst fo _ false Cne Kw (RTmp n) (RInt 0) (ext_val e Kw x) 0); [apply read_gss|reflexivity|reflexivity]
      | apply b2z_range
      | apply (bool_cell t v x (ext_val e Kw x) Kw eq_refl Rv E); reflexivity ]
  | |- context [exec _ _ (cons (Iop (Some (_, Kw)) (Ocmpi ?w Cne) _ _) nil)] =>
      let t := match type of E with repr ?t _ _ => t end in
      let ko := constr:(if w then Kl else Kw) in
      eapply (one_inst fo env m n Kw (Ocmpi w Cne) l (Some (RInt 0)) (Qbe.b2z (eval_cmpi Cne ko x 0))
                (fun x' => repr SBool (c_convert SBool v) x'));
      [ exact I
      | apply (eval_cmpi_inst fo env w Cne Kw l (RInt 0) x 0); [exact R|reflexivity|reflexivity]
      | apply b2z_range
      | apply (bool_cell t v x x ko eq_refl Rv E); symmetry; apply wrap_id; exact Rx ]
  end.
Qed.

Lemma conv_i4s src : conv_stmt (SInt I4 true) src.
Proof.
  intros fo env m l n x v ID IS Ll R Rx E Rv.
  destruct src as [[] []| | | |]; try discriminate; conv_cbn.
  all: try match goal with
  | |- context [exec _ _ []] =>
      (* no instruction: narrowing or same size *)
      first
      [ solve [ exists env, x; repeat split; try assumption; try apply agree_refl; try lia;
          apply (fun a b c => repr_narrow _ _ _ _ a b c E); [discriminate|reflexivity|cbv; congruence] ]
      | solve [ exists env, (x mod two32); repeat split; try (apply read_l_as_w; assumption);
          try apply mod_two32_range; try apply agree_refl; try assumption; try lia;
          apply repr_mod32; [cbv; congruence|];
          apply (fun a b c => repr_narrow _ _ _ _ a b c E); [discriminate|reflexivity|cbv; congruence] ] ]
  end.
  all: try match goal with
  | |- context [exec _ _ (cons (Iop (Some (_, ?kk)) (Oext ?e) _ None) nil)] =>
      let t := match type of E with repr ?t _ _ => t end in
      eapply (one_inst fo env m n kk (Oext e) l None (ext_val e kk x) (fun x' => repr _ (c_convert _ v) x'));
      [ exact I
      | apply eval_ext; [exact R|reflexivity|try reflexivity; exact I]
      | apply ext_range; [reflexivity|exact Rx]
      | apply repr_of_value with (k := kk); [discriminate|reflexivity|cbv; congruence|];
        first
        [ (* signed source *)
          apply (ext_signed_val t v x kk e eq_refl Rv E); reflexivity
        | (* unsigned source, extub / extuh *)
          refine (ext_unsigned_val t v x kk eq_refl Rv E _); cbv; congruence
        | (* extuw *)
          rewrite <- (ext_unsigned_val t v x kk eq_refl Rv E ltac:(cbv; congruence));
          symmetry; apply wrap_id; exact Rx ] ]
  end.
  (* to _Bool through an unsigned extension and a comparison with zero *)
  all: try match goal with
  | |- context [exec _ _ (cons (Iop (Some (_, Kw)) (Oext ?e) _ None) (cons _ nil))] =>
      let t := match type of E with repr ?t _ _ => t end in
      eapply (two_inst fo env m n Kw (Oext e) l None (ext_val e Kw x) Kw (Ocmpi false Cne) (Some (RInt 0))
                (Qbe.b2z (eval_cmpi Cne Kw (ext_val e Kw x) 0)) (fun x' => repr SBool (c_convert SBool v) x'));
      [ exact I
      | apply eval_ext; [exact R|reflexivity|exact I]
      | exact I
      | apply (eval_cmpi_inst fo _ false Cne Kw (RTmp n) (RInt 0) (ext_val e Kw x) 0); [apply read_gss|reflexivity|reflexivity]
      | apply b2z_range
      | apply (bool_cell t v x (ext_val e Kw x) Kw eq_refl Rv E); reflexivity ]
  | |- context [exec _ _ (cons (Iop (Some (_, Kw)) (Ocmpi ?w Cne) _ _) nil)] =>
      let t := match type of E with repr ?t _ _ => t end in
      let ko := constr:(if w then Kl else Kw) in
      eapply (one_inst fo env m n Kw (Ocmpi w Cne) l (Some (RInt 0)) (Qbe.b2z (eval_cmpi Cne ko x 0))
                (fun x' => repr SBool (c_convert SBool v) x'));
      [ exact I
      | apply (eval_cmpi_inst fo env w Cne Kw l (RInt 0) x 0); [exact R|reflexivity|reflexivity]
      | apply b2z_range
      | apply (bool_cell t v x x ko eq_refl Rv E); symmetry; apply wrap_id; exact Rx ]
  end.
Qed.

Lemma conv_i4u src : conv_stmt (SInt I4 false) src.
Proof.
  intros fo env m l n x v ID IS Ll R Rx E Rv.
  destruct src as [[] []| | | |]; try discriminate; conv_cbn.
  all: try match goal with
  | |- context [exec _ _ []] =>
      (* no instruction: narrowing or same size *)
      first
      [ solve [ exists env, x; repeat split; try assumption; try apply agree_refl; try lia;
          apply (fun a b c => repr_narrow _ _ _ _ a b c E); [discriminate|reflexivity|cbv; congruence] ]
      | solve [ exists env, (x mod two32); repeat split; try (apply read_l_as_w; assumption);
          try apply mod_two32_range; try apply agree_refl; try assumption; try lia;
          apply repr_mod32; [cbv; congruence|];
          apply (fun a b c => repr_narrow _ _ _ _ a b c E); [discriminate|reflexivity|cbv; congruence] ] ]
  end.
  all: try match goal with
  | |- context [exec _ _ (cons (Iop (Some (_, ?kk)) (Oext ?e) _ None) nil)] =>
      let t := match type of E with repr ?t _ _ => t end in
      eapply (one_inst fo env m n kk (Oext e) l None (ext_val e kk x) (fun x' => repr _ (c_convert _ v) x'));
      [ exact I
      | apply eval_ext; [exact R|reflexivity|try reflexivity; exact I]
      | apply ext_range; [reflexivity|exact Rx]
      | apply repr_of_value with (k := kk); [discriminate|reflexivity|cbv; congruence|];
        first
        [ (* signed source *)
          apply (ext_signed_val t v x kk e eq_refl Rv E); reflexivity
        | (* unsigned source, extub / extuh *)
          refine (ext_unsigned_val t v x kk eq_refl Rv E _); cbv; congruence
        | (* extuw *)
          rewrite <- (ext_unsigned_val t v x kk eq_refl Rv E ltac:(cbv; congruence));
          symmetry; apply wrap_id; exact Rx ] ]
  end.
  (* to _Bool through an unsigned extension and a comparison with zero *)
  all: try match goal with
  | |- context [exec _ _ (cons (Iop (Some (_, Kw)) (Oext ?e) _ None) (cons _ nil))] =>
      let t := match type of E with repr ?t _ _ => t end in
      eapply (two_inst fo env m n Kw (Oext e) l None (ext_val e Kw x) Kw (Ocmpi false Cne) (Some (RInt 0))
                (Qbe.b2z (eval_cmpi Cne Kw (ext_val e Kw x) 0)) (fun x' => repr SBool (c_convert SBool v) x'));
      [ exact I
      | apply eval_ext; [exact R|reflexivity|exact I]
      | exact I
      | apply (eval_cmpi_inst fo _ false Cne Kw (RTmp n) (RInt 0) (ext_val e Kw x) 0); [apply read_gss|reflexivity|reflexivity]
      | apply b2z_range
      | apply (bool_cell t v x (ext_val e Kw x) Kw eq_refl Rv E); reflexivity ]
  | |- context [exec _ _ (cons (Iop (Some (_, Kw)) (Ocmpi ?w Cne) _ _) nil)] =>
      let t := match type of E with repr ?t _ _ => t end in
      let ko := constr:(if w then Kl else Kw) in
      eapply (one_inst fo env m n Kw (Ocmpi w Cne) l (Some (RInt 0)) (Qbe.b2z (eval_cmpi Cne ko x 0))
                (fun x' => repr SBool (c_convert SBool v) x'));
      [ exact I
      | apply (eval_cmpi_inst fo env w Cne Kw l (RInt 0) x 0); [exact R|reflexivity|reflexivity]
      | apply b2z_range
      | apply (bool_cell t v x x ko eq_refl Rv E); symmetry; apply wrap_id; exact Rx ]
  end.
Qed.

Lemma conv_i8s src : conv_stmt (SInt I8 true) src.
Proof.
  intros fo env m l n x v ID IS Ll R Rx E Rv.
  destruct src as [[] []| | | |]; try discriminate; conv_cbn.
  all: try match goal with
  | |- context [exec _ _ []] =>
      (* no instruction: narrowing or same size *)
      first
      [ solve [ exists env, x; repeat split; try assumption; try apply agree_refl; try lia;
          apply (fun a b c => repr_narrow _ _ _ _ a b c E); [discriminate|reflexivity|cbv; congruence] ]
      | solve [ exists env, (x mod two32); repeat split; try (apply read_l_as_w; assumption);
          try apply mod_two32_range; try apply agree_refl; try assumption; try lia;
          apply repr_mod32; [cbv; congruence|];
          apply (fun a b c => repr_narrow _ _ _ _ a b c E); [discriminate|reflexivity|cbv; congruence] ] ]
  end.
  all: try match goal with
  | |- context [exec _ _ (cons (Iop (Some (_, ?kk)) (Oext ?e) _ None) nil)] =>
      let t := match type of E with repr ?t _ _ => t end in
      eapply (one_inst fo env m n kk (Oext e) l None (ext_val e kk x) (fun x' => repr _ (c_convert _ v) x'));
      [ exact I
      | apply eval_ext; [exact R|reflexivity|try reflexivity; exact I]
      | apply ext_range; [reflexivity|exact Rx]
      | apply repr_of_value with (k := kk); [discriminate|reflexivity|cbv; congruence|];
        first
        [ (* signed source *)
          apply (ext_signed_val t v x kk e eq_refl Rv E); reflexivity
        | (* unsigned source, extub / extuh *)
          refine (ext_unsigned_val t v x kk eq_refl Rv E _); cbv; congruence
        | (* extuw *)
          rewrite <- (ext_unsigned_val t v x kk eq_refl Rv E ltac:(cbv; congruence));
          symmetry; apply wrap_id; exact Rx ] ]
  end.
  (* to _Bool through an unsigned extension and a comparison with zero *)
  all: try match goal with
  | |- context [exec _ _ (cons (Iop (Some (_, Kw)) (Oext ?e) _ None) (cons _ nil))] =>
      let t := match type of E with repr ?t _ _ => t end in
      eapply (two_inst fo env m n Kw (Oext e) l None (ext_val e Kw x) Kw (Ocmpi false Cne) (Some (RInt 0))
                (Qbe.b2z (eval_cmpi Cne Kw (ext_val e Kw x) 0)) (fun x' => repr SBool (c_convert SBool v) x'));
      [ exact I
      | apply eval_ext; [exact R|reflexivity|exact I]
      | exact I
      | apply (eval_cmpi_inst fo _ false Cne Kw (RTmp n) (RInt 0) (ext_val e Kw x) 0); [apply read_gss|reflexivity|reflexivity]
      | apply b2z_range
      | apply (bool_cell t v x (ext_val e Kw x) Kw eq_refl Rv E); reflexivity ]
  | |- context [exec _ _ (cons (Iop (Some (_, Kw)) (Ocmpi ?w Cne) _ _) nil)] =>
      let t := match type of E with repr ?t _ _ => t end in
      let ko := constr:(if w then Kl else Kw) in
      eapply (one_inst fo env m n Kw (Ocmpi w Cne) l (Some (RInt 0)) (Qbe.b2z (eval_cmpi Cne ko x 0))
                (fun x' => repr SBool (c_convert SBool v) x'));
      [ exact I
      | apply (eval_cmpi_inst fo env w Cne Kw l (RInt 0) x 0); [exact R|reflexivity|reflexivity]
      | apply b2z_range
      | apply (bool_cell t v x x ko eq_refl Rv E); symmetry; apply wrap_id; exact Rx ]
  end.
Qed.

Lemma conv_i8u src : conv_stmt (SInt I8 false) src.
Proof.
  intros fo env m l n x v ID IS Ll R Rx E Rv.
  destruct src as [[] []| | | |]; try discriminate; conv_cbn.
  all: try match goal with
  | |- context [exec _ _ []] =>
      (* no instruction: narrowing or same size *)
      first
      [ solve [ exists env, x; repeat split; try assumption; try apply agree_refl; try lia;
          apply (fun a b c => repr_narrow _ _ _ _ a b c E); [discriminate|reflexivity|cbv; congruence] ]
      | solve [ exists env, (x mod two32); repeat split; try (apply read_l_as_w; assumption);
          try apply mod_two32_range; try apply agree_refl; try assumption; try lia;
          apply repr_mod32; [cbv; congruence|];
          apply (fun a b c => repr_narrow _ _ _ _ a b c E); [discriminate|reflexivity|cbv; congruence] ] ]
  end.
  all: try match goal with
  | |- context [exec _ _ (cons (Iop (Some (_, ?kk)) (Oext ?e) _ None) nil)] =>
      let t := match type of E with repr ?t _ _ => t end in
      eapply (one_inst fo env m n kk (Oext e) l None (ext_val e kk x) (fun x' => repr _ (c_convert _ v) x'));
      [ exact I
      | apply eval_ext; [exact R|reflexivity|try reflexivity; exact I]
      | apply ext_range; [reflexivity|exact Rx]
      | apply repr_of_value with (k := kk); [discriminate|reflexivity|cbv; congruence|];
        first
        [ (* signed source *)
          apply (ext_signed_val t v x kk e eq_refl Rv E); reflexivity
        | (* unsigned source, extub / extuh *)
          refine (ext_unsigned_val t v x kk eq_refl Rv E _); cbv; congruence
        | (* extuw *)
          rewrite <- (ext_unsigned_val t v x kk eq_refl Rv E ltac:(cbv; congruence));
          symmetry; apply wrap_id; exact Rx ] ]
  end.
  (* to _Bool through an unsigned extension and a comparison with zero *)
  all: try match goal with
  | |- context [exec _ _ (cons (Iop (Some (_, Kw)) (Oext ?e) _ None) (cons _ nil))] =>
      let t := match type of E with repr ?t _ _ => t end in
      eapply (two_inst fo env m n Kw (Oext e) l None (ext_val e Kw x) Kw (Ocmpi false Cne) (Some (RInt 0))
                (Qbe.b2z (eval_cmpi Cne Kw (ext_val e Kw x) 0)) (fun x' => repr SBool (c_convert SBool v) x'));
      [ exact I
      | apply eval_ext; [exact R|reflexivity|exact I]
      | exact I
      | apply (eval_cmpi_inst fo _ false Cne Kw (RTmp n) (RInt 0) (ext_val e Kw x) 0); [apply read_gss|reflexivity|reflexivity]
      | apply b2z_range
      | apply (bool_cell t v x (ext_val e Kw x) Kw eq_refl Rv E); reflexivity ]
  | |- context [exec _ _ (cons (Iop (Some (_, Kw)) (Ocmpi ?w Cne) _ _) nil)] =>
      let t := match type of E with repr ?t _ _ => t end in
      let ko := constr:(if w then Kl else Kw) in
      eapply (one_inst fo env m n Kw (Ocmpi w Cne) l (Some (RInt 0)) (Qbe.b2z (eval_cmpi Cne ko x 0))
                (fun x' => repr SBool (c_convert SBool v) x'));
      [ exact I
      | apply (eval_cmpi_inst fo env w Cne Kw l (RInt 0) x 0); [exact R|reflexivity|reflexivity]
      | apply b2z_range
      | apply (bool_cell t v x x ko eq_refl Rv E); symmetry; apply wrap_id; exact Rx ]
  end.
Qed.

Lemma conv_bool src : conv_stmt (SBool) src.
Proof.
  intros fo env m l n x v ID IS Ll R Rx E Rv.
  destruct src as [[] []| | | |]; try discriminate; conv_cbn.
  all: try match goal with
  | |- context [exec _ _ []] =>
      (* no instruction: narrowing or same size *)
      first
      [ solve [ exists env, x; repeat split; try assumption; try apply agree_refl; try lia;
          apply (fun a b c => repr_narrow _ _ _ _ a b c E); [discriminate|reflexivity|cbv; congruence] ]
      | solve [ exists env, (x mod two32); repeat split; try (apply read_l_as_w; assumption);
          try apply mod_two32_range; try apply agree_refl; try assumption; try lia;
          apply repr_mod32; [cbv; congruence|];
          apply (fun a b c => repr_narrow _ _ _ _ a b c E); [discriminate|reflexivity|cbv; congruence] ] ]
  end.
  all: try match goal with
  | |- context [exec _ _ (cons (Iop (Some (_, ?kk)) (Oext ?e) _ None) nil)] =>
      let t := match type of E with repr ?t _ _ => t end in
      eapply (one_inst fo env m n kk (Oext e) l None (ext_val e kk x) (fun x' => repr _ (c_convert _ v) x'));
      [ exact I
      | apply eval_ext; [exact R|reflexivity|try reflexivity; exact I]
      | apply ext_range; [reflexivity|exact Rx]
      | apply repr_of_value with (k := kk); [discriminate|reflexivity|cbv; congruence|];
        first
        [ (* signed source *)
          apply (ext_signed_val t v x kk e eq_refl Rv E); reflexivity
        | (* unsigned source, extub / extuh *)
          refine (ext_unsigned_val t v x kk eq_refl Rv E _); cbv; congruence
        | (* extuw *)
          rewrite <- (ext_unsigned_val t v x kk eq_refl Rv E ltac:(cbv; congruence));
          symmetry; apply wrap_id; exact Rx ] ]
  end.
  (* to _Bool through an unsigned extension and a comparison with zero *)
  all: try match goal with
  | |- context [exec _ _ (cons (Iop (Some (_, Kw)) (Oext ?e) _ None) (cons _ nil))] =>
      let t := match type of E with repr ?t _ _ => t end in
      eapply (two_inst fo env m n Kw (Oext e) l None (ext_val e Kw x) Kw (Ocmpi false Cne) (Some (RInt 0))
                (Qbe.b2z (eval_cmpi Cne Kw (ext_val e Kw x) 0)) (fun x' => repr SBool (c_convert SBool v) x'));
      [ exact I
      | apply eval_ext; [exact R|reflexivity|exact I]
      | exact I
      | apply (eval_cmpi_inst fo _ false Cne Kw (RTmp n) (RInt 0) (ext_val e Kw x) 0); [apply read_gss|reflexivity|reflexivity]
      | apply b2z_range
      | apply (bool_cell t v x (ext_val e Kw x) Kw eq_refl Rv E); reflexivity ]
  | |- context [exec _ _ (cons (Iop (Some (_, Kw)) (Ocmpi ?w Cne) _ _) nil)] =>
      let t := match type of E with repr ?t _ _ => t end in
      let ko := constr:(if w then Kl else Kw) in
      eapply (one_inst fo env m n Kw (Ocmpi w Cne) l (Some (RInt 0)) (Qbe.b2z (eval_cmpi Cne ko x 0))
                (fun x' => repr SBool (c_convert SBool v) x'));
      [ exact I
      | apply (eval_cmpi_inst fo env w Cne Kw l (RInt 0) x 0); [exact R|reflexivity|reflexivity]
      | apply b2z_range
      | apply (bool_cell t v x x ko eq_refl Rv E); symmetry; apply wrap_id; exact Rx ]
  end.
Qed.

Lemma conv_ptr src : conv_stmt (SPtr) src.
Proof.
  intros fo env m l n x v ID IS Ll R Rx E Rv.
  destruct src as [[] []| | | |]; try discriminate; conv_cbn.
  all: try match goal with
  | |- context [exec _ _ []] =>
      (* no instruction: narrowing or same size *)
      first
      [ solve [ exists env, x; repeat split; try assumption; try apply agree_refl; try lia;
          apply (fun a b c => repr_narrow _ _ _ _ a b c E); [discriminate|reflexivity|cbv; congruence] ]
      | solve [ exists env, (x mod two32); repeat split; try (apply read_l_as_w; assumption);
          try apply mod_two32_range; try apply agree_refl; try assumption; try lia;
          apply repr_mod32; [cbv; congruence|];
          apply (fun a b c => repr_narrow _ _ _ _ a b c E); [discriminate|reflexivity|cbv; congruence] ] ]
  end.
  all: try match goal with
  | |- context [exec _ _ (cons (Iop (Some (_, ?kk)) (Oext ?e) _ None) nil)] =>
      let t := match type of E with repr ?t _ _ => t end in
      eapply (one_inst fo env m n kk (Oext e) l None (ext_val e kk x) (fun x' => repr _ (c_convert _ v) x'));
      [ exact I
      | apply eval_ext; [exact R|reflexivity|try reflexivity; exact I]
      | apply ext_range; [reflexivity|exact Rx]
      | apply repr_of_value with (k := kk); [discriminate|reflexivity|cbv; congruence|];
        first
        [ (* signed source *)
          apply (ext_signed_val t v x kk e eq_refl Rv E); reflexivity
        | (* unsigned source, extub / extuh *)
          refine (ext_unsigned_val t v x kk eq_refl Rv E _); cbv; congruence
        | (* extuw *)
          rewrite <- (ext_unsigned_val t v x kk eq_refl Rv E ltac:(cbv; congruence));
          symmetry; apply wrap_id; exact Rx ] ]
  end.
  (* to _Bool through an unsigned extension and a comparison with zero *)
  all: try match goal with
  | |- context [exec _ _ (cons (Iop (Some (_, Kw)) (Oext ?e) _ None) (cons _ nil))] =>
      let t := match type of E with repr ?t _ _ => t end in
      eapply (two_inst fo env m n Kw (Oext e) l None (ext_val e Kw x) Kw (Ocmpi false Cne) (Some (RInt 0))
                (Qbe.b2z (eval_cmpi Cne Kw (ext_val e Kw x) 0)) (fun x' => repr SBool (c_convert SBool v) x'));
      [ exact I
      | apply eval_ext; [exact R|reflexivity|exact I]
      | exact I
      | apply (eval_cmpi_inst fo _ false Cne Kw (RTmp n) (RInt 0) (ext_val e Kw x) 0); [apply read_gss|reflexivity|reflexivity]
      | apply b2z_range
      | apply (bool_cell t v x (ext_val e Kw x) Kw eq_refl Rv E); reflexivity ]
  | |- context [exec _ _ (cons (Iop (Some (_, Kw)) (Ocmpi ?w Cne) _ _) nil)] =>
      let t := match type of E with repr ?t _ _ => t end in
      let ko := constr:(if w then Kl else Kw) in
      eapply (one_inst fo env m n Kw (Ocmpi w Cne) l (Some (RInt 0)) (Qbe.b2z (eval_cmpi Cne ko x 0))
                (fun x' => repr SBool (c_convert SBool v) x'));
      [ exact I
      | apply (eval_cmpi_inst fo env w Cne Kw l (RInt 0) x 0); [exact R|reflexivity|reflexivity]
      | apply b2z_range
      | apply (bool_cell t v x x ko eq_refl Rv E); symmetry; apply wrap_id; exact Rx ]
  end.
Qed.

Theorem convert_correct fo dst src env m l n x v :
  intlike dst = true -> intlike src = true -> ref_lt n l ->
  read env (qbase src) l = Ok x -> 0 <= x < modk (qbase src) ->
  repr src v x -> c_in_range src v ->
  exists env' x',
    exec fo (env, m) (snd (fst (convert dst src l n))) = Ok (env', m) /\
    read env' (qbase dst) (fst (fst (convert dst src l n))) = Ok x' /\
    0 <= x' < modk (qbase dst) /\
    repr dst (c_convert dst v) x' /\
    agree_below n env env' /\
    ref_lt (snd (convert dst src l n)) (fst (fst (convert dst src l n))) /\
    (n <= snd (convert dst src l n))%positive.
Proof.
  intros ID. revert fo env m l n x v ID. change (conv_stmt dst src).
  destruct dst as [[] []| | | |]; try (intros; discriminate);
    first [apply conv_i1s|apply conv_i1u|apply conv_i2s|apply conv_i2u|apply conv_i4s|apply conv_i4u|apply conv_i8s|apply conv_i8u|apply conv_bool|apply conv_ptr].
Qed.

(* the converted value is a value of the destination type *)
Theorem convert_range dst v : intlike dst = true -> c_in_range dst (c_convert dst v).
Proof. apply c_convert_range. Qed.

(* ------------------------------------------------------------------ integer to floating point *)
(* Floating-point arithmetic is a parameter of the IL semantics ([fops]); what can be stated without it is that the
   conversion instruction is applied to the operand's two's complement pattern in a whole word, whatever the bits
   above a 1- or 2-byte value were: the result is a function of the C value alone.  (Before the fix of
   subint-to-float-unextended the sequence for a char/short source had no extension and this statement was false.) *)
Definition cvt_of (src : sty) : cvt :=
  let src := pnorm src in
  if ssigned src then (if ssize src =? 8 then Csltof else Cswtof) else (if ssize src =? 8 then Cultof else Cuwtof).
Definition word_of (src : sty) (v : Z) : Z := wrapk (if ssize src =? 8 then Kl else Kw) v.

Lemma eval_wtof fo env c k a x :
  c = Cswtof \/ c = Cuwtof -> read env Kw a = Ok x -> isint k = false ->
  eval_pure fo env (Ocvt c) k a None = Ok (wrapk k (f_cvt fo c (wide k) x)).
Proof. intros [-> | ->] R I; unfold eval_pure; rewrite R; cbn [bind]; rewrite I; reflexivity. Qed.

Lemma eval_ltof fo env c k a x :
  c = Csltof \/ c = Cultof -> read env Kl a = Ok x -> isint k = false ->
  eval_pure fo env (Ocvt c) k a None = Ok (wrapk k (f_cvt fo c (wide k) x)).
Proof. intros [-> | ->] R I; unfold eval_pure; rewrite R; cbn [bind]; rewrite I; reflexivity. Qed.

Lemma full_exact t v x : sbits t = bitsk (qbase t) -> repr t v x -> 0 <= x < modk (qbase t) -> x = wrapk (qbase t) v.
Proof.
  intros B E R. rewrite wrapk_wrap, <- B. unfold repr in E. rewrite <- E. symmetry. apply wrap_id.
  rewrite B, <- modk_pow. exact R.
Qed.

Theorem convert_int_float_exact fo dst src env m l n x v :
  sfloat dst = true -> intlike src = true -> ref_lt n l ->
  read env (qbase src) l = Ok x -> 0 <= x < modk (qbase src) ->
  repr src v x -> c_in_range src v ->
  exists env' x',
    exec fo (env, m) (snd (fst (convert dst src l n))) = Ok (env', m) /\
    read env' (qbase dst) (fst (fst (convert dst src l n))) = Ok x' /\
    0 <= x' < modk (qbase dst) /\
    x' = wrapk (qbase dst) (f_cvt fo (cvt_of src) (wide (qbase dst)) (word_of src v)) /\
    agree_below n env env' /\
    ref_lt (snd (convert dst src l n)) (fst (fst (convert dst src l n))) /\
    (n <= snd (convert dst src l n))%positive.
Proof.
  intros FD IS Ll R Rx E Rv.
  destruct dst; try discriminate; destruct src as [[] []| | | |]; try discriminate;
    unfold cvt_of, word_of; conv_cbn.
  all: match goal with
  | |- context [exec _ _ (cons (Iop (Some (_, Kw)) (Oext ?e) _ None) (cons (Iop (Some (_, ?kk)) (Ocvt ?c) _ None) nil))] =>
      let t := match type of E with repr ?t _ _ => t end in
      eapply (two_inst fo env m n Kw (Oext e) l None (ext_val e Kw x) kk (Ocvt c) None
                (wrapk kk (f_cvt fo c (wide kk) (ext_val e Kw x))) (fun z => z = wrapk kk (f_cvt fo c (wide kk) (wrapk Kw v))));
      [ exact I
      | apply eval_ext; [exact R|reflexivity|exact I]
      | exact I
      | apply eval_wtof; [first [left; reflexivity|right; reflexivity]|apply read_gss|reflexivity]
      | apply wrapk_range
      | do 3 f_equal;
        first [ apply (ext_signed_val t v x Kw e eq_refl Rv E); reflexivity
              | refine (ext_unsigned_val t v x Kw eq_refl Rv E _); cbv; congruence ] ]
  | |- context [exec _ _ (cons (Iop (Some (_, ?kk)) (Ocvt ?c) _ None) nil)] =>
      let t := match type of E with repr ?t _ _ => t end in
      eapply (one_inst fo env m n kk (Ocvt c) l None (wrapk kk (f_cvt fo c (wide kk) x))
                (fun z => z = wrapk kk (f_cvt fo c (wide kk) (wrapk (qbase t) v))));
      [ exact I
      | first [ apply eval_wtof; [first [left; reflexivity|right; reflexivity]|exact R|reflexivity]
              | apply eval_ltof; [first [left; reflexivity|right; reflexivity]|exact R|reflexivity] ]
      | apply wrapk_range
      | do 3 f_equal; apply (full_exact t v x eq_refl E Rx) ]
  end.
Qed.

Example convert_subint_float_example :
  convert_steps SFlt (SInt I1 true) = [step1 (Oext Esb) Kw; step1 (Ocvt Cswtof) Ks] /\
  convert_steps SDbl (SInt I2 false) = [step1 (Oext Euh) Kw; step1 (Ocvt Cuwtof) Kd] /\
  convert_steps SDbl (SInt I4 true) = [step1 (Ocvt Cswtof) Kd] /\
  repr (SInt I1 true) 44 300 /\ word_of (SInt I1 true) 44 = 44.
Proof. repeat split; reflexivity. Qed.
