(* LowerProofsCopy.v - funccopy: the emitted load/store chain executed under the IL semantics is exactly
   [copy_count size align] load/store pairs of width min(align,8) at consecutive addresses; the bytes touched are
   [0, copy_count*width), which is [0, size) iff the width divides a non-zero size, and otherwise reaches past
   the object: then the run of the emitted code ends in OOB when the destination block has exactly [size] bytes. *)
From Coq Require Import ZArith List Bool PArith Lia FMapPositive.
From Cproc Require Import Lib.Wrap Model.Qbe Spec.Csem Model.Lower
  Proofs.LowerProofsExec Proofs.LowerProofsArith Proofs.LowerProofsConv Proofs.LowerProofsBits.
Import ListNotations.
Local Open Scope Z_scope.

(* ------------------------------------------------------------------ the four shapes *)
Lemma copy_shapes align :
  (copy_ld align = Lub /\ copy_st align = Sb /\ copy_cls align = Kw /\ copy_width align = 1) \/
  (copy_ld align = Luh /\ copy_st align = Sh /\ copy_cls align = Kw /\ copy_width align = 2) \/
  (copy_ld align = Lw /\ copy_st align = Sw /\ copy_cls align = Kw /\ copy_width align = 4) \/
  (copy_ld align = Ll /\ copy_st align = Sl /\ copy_cls align = Kl /\ copy_width align = 8).
Proof.
  destruct align as [|[p|[p|[p|p|]|]|]|p]; cbn; tauto.
Qed.

Lemma copy_width_pos align : 0 < copy_width align <= 8.
Proof. destruct (copy_shapes align) as [H|[H|[H|H]]]; destruct H as (_ & _ & _ & ->); lia. Qed.

Lemma copy_width_bytes align :
  Z.of_nat (ld_bytes (copy_ld align)) = copy_width align /\ Z.of_nat (st_bytes (copy_st align)) = copy_width align /\
  st_cls (copy_st align) = copy_cls align.
Proof. destruct (copy_shapes align) as [H|[H|[H|H]]]; destruct H as (-> & -> & -> & ->); repeat split. Qed.

(* ------------------------------------------------------------------ denotation *)
Definition copy_pair (align : Z) (m : mem) (s d : Z) : res (Z * mem) :=
  match mem_load m s (ld_bytes (copy_ld align)) with
  | None => Err (OOB s)
  | Some raw =>
      match load_result (copy_ld align) (copy_cls align) raw with
      | None => stuckr BadClass
      | Some v => match mem_store m d (st_bytes (copy_st align)) v with
                  | None => Err (OOB d)
                  | Some m' => Ok (v, m') end
      end
  end.

Fixpoint copy_rest (cnt : nat) (align : Z) (m : mem) (s d : Z) : res mem :=
  match cnt with
  | O => Ok m
  | S c =>
      let s' := wrapk Kl (s + copy_width align) in
      let d' := wrapk Kl (d + copy_width align) in
      do vm <- copy_pair align m s' d'; copy_rest c align (snd vm) s' d'
  end.

Definition copy_sem (size align : Z) (m : mem) (s d : Z) : res mem :=
  do vm <- copy_pair align m s d; copy_rest (Z.to_nat (copy_count size align - 1)) align (snd vm) s d.

Lemma exec_cons_eq fo s i c s1 : exec_inst fo s i = Ok s1 -> exec fo s (i :: c) = exec fo s1 c.
Proof. intros H. cbn [exec]. rewrite H. reflexivity. Qed.

(* ------------------------------------------------------------------ one pair *)
Lemma pair_exec fo env m align (t : ident) srcr dstr s d c :
  read env Kl srcr = Ok s -> read env Kl dstr = Ok d -> ref_lt t dstr ->
  exec fo (env, m) (Iop (Some (t, copy_cls align)) (Oload (copy_ld align)) srcr None ::
                    Iop None (Ostore (copy_st align)) (RTmp t) (Some dstr) :: c) =
  match copy_pair align m s d with
  | Err r => Err r
  | Ok (v, m') => exec fo (PM.add t (copy_cls align, v) env, m') c
  end.
Proof.
  intros Rs Rd Ld. destruct (copy_width_bytes align) as (_ & _ & SC).
  cbn [exec]. unfold exec_inst at 1. rewrite Rs. cbn [bind]. unfold copy_pair.
  destruct (mem_load m s (ld_bytes (copy_ld align))) as [raw|]; [|reflexivity].
  destruct (load_result (copy_ld align) (copy_cls align) raw) as [v|]; [|reflexivity].
  cbn [bind]. unfold exec_inst. rewrite SC, read_gss. cbn [bind read1].
  rewrite read_gso by assumption. rewrite Rd. cbn [bind fst snd].
  destruct (mem_store m d (st_bytes (copy_st align)) v); reflexivity.
Qed.

Lemma read_width env align : read env Kl (mkint (copy_width align)) = Ok (copy_width align).
Proof.
  pose proof (copy_width_pos align). unfold mkint, read. f_equal.
  rewrite (Z.mod_small (copy_width align) M64) by (unfold M64; lia). apply Z.mod_small. unfold two64. lia.
Qed.

(* ------------------------------------------------------------------ the chain *)
Lemma copy_more_exec fo align : forall cnt env m dst src (n : positive) s d,
  ref_lt n dst -> ref_lt n src -> read env Kl src = Ok s -> read env Kl dst = Ok d ->
  match copy_rest cnt align m s d with
  | Ok m' => exists env', exec fo (env, m) (snd (fst (copy_more cnt align dst src n))) = Ok (env', m') /\ agree_below n env env'
  | Err r => exec fo (env, m) (snd (fst (copy_more cnt align dst src n))) = Err r
  end.
Proof.
  induction cnt as [|cnt IH]; intros env m dst src n s d Ld Ls Rs Rd.
  - cbn. exists env. split; [reflexivity|apply agree_refl].
  - cbn [copy_more copy_rest]. unfold gbind, ginst, ginst0. cbn [fst snd].
    set (w := copy_width align). set (s' := wrapk Kl (s + w)). set (d' := wrapk Kl (d + w)).
    set (n1 := Pos.succ n). set (n2 := Pos.succ n1). set (n3 := Pos.succ n2).
    destruct (copy_more cnt align (RTmp n1) (RTmp n) n3) as [[u c] n'] eqn:CM. cbn [fst snd app].
    (* the two adds *)
    assert (E1 : eval_pure fo env (Obin Badd) Kl src (Some (mkint w)) = Ok s').
    { apply (eval_bin_inst fo env Badd Kl src (mkint w) s w); try assumption; try reflexivity. apply read_width. }
    set (env1 := PM.add n (Kl, s') env).
    assert (E2 : eval_pure fo env1 (Obin Badd) Kl dst (Some (mkint w)) = Ok d').
    { apply (eval_bin_inst fo env1 Badd Kl dst (mkint w) d w); try reflexivity.
      - unfold env1. rewrite read_gso by assumption. exact Rd.
      - apply read_width. }
    set (env2 := PM.add n1 (Kl, d') env1).
    assert (X : exec fo (env, m)
                  (Iop (Some (n, Kl)) (Obin Badd) src (Some (mkint w)) :: Iop (Some (n1, Kl)) (Obin Badd) dst (Some (mkint w)) ::
                   Iop (Some (n2, copy_cls align)) (Oload (copy_ld align)) (RTmp n) None ::
                   Iop None (Ostore (copy_st align)) (RTmp n2) (Some (RTmp n1)) :: c) =
                match copy_pair align m s' d' with
                | Err r => Err r
                | Ok (v, m') => exec fo (PM.add n2 (copy_cls align, v) env2, m') c end).
    { etransitivity; [apply exec_cons_eq; apply (exec_pure_inst fo env m n Kl (Obin Badd) src (Some (mkint w)) s' I E1)|].
      fold env1. etransitivity; [apply exec_cons_eq; apply (exec_pure_inst fo env1 m n1 Kl (Obin Badd) dst (Some (mkint w)) d' I E2)|].
      fold env2. apply (pair_exec fo env2 m align n2 (RTmp n) (RTmp n1) s' d' c).
      - unfold env2. rewrite read_gso by (simpl; unfold n1; lia). apply read_gss.
      - apply read_gss.
      - simpl. unfold n2, n1. lia. }
    rewrite X. destruct (copy_pair align m s' d') as [[v m1]|r]; [|reflexivity]. cbn [bind snd].
    set (env3 := PM.add n2 (copy_cls align, v) env2).
    specialize (IH env3 m1 (RTmp n1) (RTmp n) n3 s' d').
    rewrite CM in IH. cbn [fst snd] in IH.
    assert (R3s : read env3 Kl (RTmp n) = Ok s').
    { unfold env3, env2. rewrite !read_gso by (simpl; unfold n2, n1; lia). apply read_gss. }
    assert (R3d : read env3 Kl (RTmp n1) = Ok d').
    { unfold env3. rewrite read_gso by (simpl; unfold n2; lia). apply read_gss. }
    specialize (IH ltac:(simpl; unfold n3, n2; lia) ltac:(simpl; unfold n3, n2, n1; lia) R3s R3d).
    destruct (copy_rest cnt align m1 s' d') as [m'|r]; [|exact IH].
    destruct IH as (env' & A & B). exists env'. split; [exact A|].
    apply agree_trans with (m := n3) (e2 := env3); [unfold n3, n2, n1; lia| |exact B].
    unfold env3, env2, env1.
    repeat (eapply agree_trans with (m := n); [lia| |apply agree_add; unfold n2, n1; lia]). apply agree_refl.
Qed.

Theorem funccopy_exec fo env m dst src (n : positive) size align s d :
  ref_lt n dst -> ref_lt n src -> read env Kl src = Ok s -> read env Kl dst = Ok d ->
  match copy_sem size align m s d with
  | Ok m' => exists env', exec fo (env, m) (snd (fst (funccopy dst src size align n))) = Ok (env', m') /\ agree_below n env env'
  | Err r => exec fo (env, m) (snd (fst (funccopy dst src size align n))) = Err r
  end.
Proof.
  intros Ld Ls Rs Rd. unfold funccopy, copy_sem. unfold gbind, ginst, ginst0. cbn [fst snd].
  set (cnt := Z.to_nat (copy_count size align - 1)).
  destruct (copy_more cnt align dst src (Pos.succ n)) as [[u c] n'] eqn:CM. cbn [fst snd app].
  pose proof (pair_exec fo env m align n src dst s d c Rs Rd Ld) as X.
  destruct (copy_pair align m s d) as [[v m1]|r]; [|exact X]. cbn [bind snd].
  set (env1 := PM.add n (copy_cls align, v) env) in *.
  pose proof (copy_more_exec fo align cnt env1 m1 dst src (Pos.succ n) s d) as H.
  rewrite CM in H. cbn [fst snd] in H.
  specialize (H (ref_lt_mono n (Pos.succ n) dst ltac:(lia) Ld) (ref_lt_mono n (Pos.succ n) src ltac:(lia) Ls)).
  unfold env1 in H. rewrite !read_gso in H by assumption. specialize (H Rs Rd). fold env1 in H.
  destruct (copy_rest cnt align m1 s d) as [m'|r].
  - destruct H as (env' & A & B). exists env'. split; [etransitivity; [exact X|exact A]|].
    apply agree_trans with (m := Pos.succ n) (e2 := env1); [lia|apply agree_add; lia|exact B].
  - etransitivity; [exact X|exact H].
Qed.

(* ------------------------------------------------------------------ coverage *)
(* bytes [0, copy_span) of both objects are accessed *)
Definition copy_span (size align : Z) : Z := copy_count size align * copy_width align.

Theorem copy_span_covers size align : 0 <= size -> size <= copy_span size align < size + copy_width align \/ size = 0.
Proof.
  intros Hs. unfold copy_span, copy_count. pose proof (copy_width_pos align) as W. set (a := copy_width align) in *.
  destruct (Z.eq_dec size 0) as [->|NZ]; [right; reflexivity|left].
  pose proof (Z.div_mod (size + a - 1) a ltac:(lia)). pose proof (Z.mod_pos_bound (size + a - 1) a ltac:(lia)).
  assert (1 <= (size + a - 1) / a) by (apply Z.div_le_lower_bound; lia).
  rewrite Z.max_r by lia. nia.
Qed.

(* exact iff the width divides the (non-zero) size *)
Theorem copy_span_exact size align : 0 <= size ->
  (copy_span size align = size <-> 0 < size /\ size mod copy_width align = 0).
Proof.
  intros Hs. unfold copy_span, copy_count. pose proof (copy_width_pos align) as W. set (a := copy_width align) in *.
  pose proof (Z.div_mod (size + a - 1) a ltac:(lia)) as DM. pose proof (Z.mod_pos_bound (size + a - 1) a ltac:(lia)) as MB.
  pose proof (Z.div_mod size a ltac:(lia)) as DM2. pose proof (Z.mod_pos_bound size a ltac:(lia)) as MB2.
  split.
  - intros E. destruct (Z.eq_dec size 0) as [->|NZ].
    + exfalso. pose proof (Z.le_max_l 1 ((0 + a - 1) / a)). nia.
    + assert (1 <= (size + a - 1) / a) by (apply Z.div_le_lower_bound; lia).
      rewrite Z.max_r in E by lia. split; [lia|].
      rewrite <- E. apply Z.mod_mul. lia.
  - intros [P D]. assert (size = a * (size / a)) by lia.
    assert (Q : (size + a - 1) / a = size / a).
    { replace (size + a - 1) with ((a - 1) + (size / a) * a) by lia. rewrite Z.div_add by lia.
      rewrite Z.div_small by lia. lia. }
    rewrite Q. assert (1 <= size / a) by nia. rewrite Z.max_r by lia. lia.
Qed.

(* the overshoot, for the record: a packed struct of 5 bytes aligned to 4 is copied with two 4-byte pairs *)
Example copy_span_overshoot : copy_span 5 4 = 8 /\ copy_span 0 1 = 1 /\ copy_span 12 4 = 12 /\ copy_span 24 16 = 24.
Proof. repeat split. Qed.
