(* LowerProofsCopyBytes.v - funccopy on byte contents.
   LowerProofsCopy.v shows that the emitted chain executes as [copy_sem]; here the memory effect of [copy_sem] is
   described byte by byte: after the chain, byte d+i is what byte s+i was (i < copy_span), every other byte of
   every block is what it was, blocks and their sizes are the same.  Holds when the two spans are valid and the
   destination does not start inside the source span after its first byte (d <= s or s + span <= d): no overlap,
   exact overlap and "destination below source" are all fine; [funccopy_bytes_overlap_refuted] shows that
   s < d < s + span is not.
   Also the generic part used for zero() (LowerProofsZeroBytes.v): [byte_at], [span_ok], [same_shape],
   [mem_store_bytes]. *)
From Coq Require Import ZArith List Bool PArith Lia FMapPositive.
From Cproc Require Import Lib.Wrap Model.Qbe Spec.Csem Model.Lower
  Proofs.LowerProofsExec Proofs.LowerProofsCopy.
Import ListNotations.
Local Open Scope Z_scope.

(* ------------------------------------------------------------------ the observation: one byte of the memory *)
(* the byte stored at address a; None when a is not inside a live block *)
Definition byte_at (m : mem) (a : Z) : option Z :=
  match split_addr a with
  | Some (p, o) => match PM.find p m with
                   | Some b => if o <? mb_size b then Some (get_byte (mb_bytes b) o) else None
                   | None => None end
  | None => None
  end.

(* [a, a+n) lies in the 64-bit address space, inside the address window of ONE live block and inside that block *)
Definition span_ok (m : mem) (a n : Z) : Prop :=
  exists p o b, a = BLK * Zpos p + o /\ 0 <= o /\ o + n <= BLK /\ a + n <= two64 /\
                PM.find p m = Some b /\ o + n <= mb_size b.

(* the same live blocks with the same sizes *)
Definition same_shape (m m' : mem) : Prop :=
  forall p, option_map mb_size (PM.find p m') = option_map mb_size (PM.find p m).

Lemma same_shape_refl m : same_shape m m.
Proof. intros p. reflexivity. Qed.

Lemma same_shape_trans m1 m2 m3 : same_shape m1 m2 -> same_shape m2 m3 -> same_shape m1 m3.
Proof. intros A B p. rewrite B. apply A. Qed.

Lemma span_ok_shape m m' a n : same_shape m m' -> span_ok m a n -> span_ok m' a n.
Proof.
  intros S (p & o & b & E & O & W & T & F & L). specialize (S p). rewrite F in S. cbn in S.
  destruct (PM.find p m') as [b'|] eqn:F'; [|discriminate]. cbn in S. injection S as S.
  exists p, o, b'. rewrite S. repeat split; assumption.
Qed.

Lemma span_ok_sub m a n k n' : span_ok m a n -> 0 <= k -> 0 <= n' -> k + n' <= n -> span_ok m (a + k) n'.
Proof.
  intros (p & o & b & E & O & W & T & F & L) K N' KN.
  exists p, (o + k), b. repeat split; try assumption; lia.
Qed.

Lemma span_ok_nonneg m a n : span_ok m a n -> 0 <= a /\ a + n <= two64.
Proof. intros (p & o & b & E & O & W & T & F & L). unfold BLK, two32 in E. split; lia. Qed.

(* ------------------------------------------------------------------ addresses *)
Lemma split_addr_some p o : 0 <= o < BLK -> split_addr (BLK * Zpos p + o) = Some (p, o).
Proof.
  intros H. unfold split_addr.
  assert (B : BLK <> 0) by (unfold BLK, two32; lia).
  rewrite (Z.mul_comm BLK), Z.div_add_l by exact B. rewrite Z.div_small by exact H. rewrite Z.add_0_r.
  rewrite Z.add_comm, Z.mod_add by exact B. rewrite Z.mod_small by exact H. reflexivity.
Qed.

Lemma split_addr_inv a p o : split_addr a = Some (p, o) -> a = BLK * Zpos p + o /\ 0 <= o < BLK.
Proof.
  unfold split_addr. intros H.
  assert (B : 0 < BLK) by (unfold BLK, two32; lia).
  pose proof (Z.div_mod a BLK ltac:(lia)) as DM. pose proof (Z.mod_pos_bound a BLK B) as MB.
  destruct (a / BLK) as [|q|q]; try discriminate. injection H as <- <-. split; assumption.
Qed.

Lemma byte_at_in m p o b : 0 <= o < BLK -> PM.find p m = Some b ->
  byte_at m (BLK * Zpos p + o) = if o <? mb_size b then Some (get_byte (mb_bytes b) o) else None.
Proof. intros H F. unfold byte_at. rewrite (split_addr_some p o H), F. reflexivity. Qed.

(* ------------------------------------------------------------------ bytes of a block *)
Lemma key_inj a b : 0 <= a -> 0 <= b -> key a = key b -> a = b.
Proof. unfold key. intros A B E. apply Z2Pos.inj in E; lia. Qed.

Lemma get_byte_gss bs o v : get_byte (PM.add (key o) v bs) o = v.
Proof. unfold get_byte. rewrite PM.gss. reflexivity. Qed.

Lemma get_byte_gso bs o v x : 0 <= o -> 0 <= x -> x <> o -> get_byte (PM.add (key o) v bs) x = get_byte bs x.
Proof.
  intros O X N. unfold get_byte. rewrite PM.gso; [reflexivity|].
  intros E. apply N. apply key_inj; assumption.
Qed.

(* storing what was loaded: the n bytes at o' become the n bytes of [bs] at o (whatever map [bs'] is stored into) *)
Lemma storen_loadn : forall n bs bs' o o' x,
  0 <= o' -> 0 <= x -> (forall j, 0 <= j < Z.of_nat n -> 0 <= get_byte bs (o + j) < 256) ->
  get_byte (storen n bs' o' (loadn n bs o)) x =
    if (o' <=? x) && (x <? o' + Z.of_nat n) then get_byte bs (o + (x - o')) else get_byte bs' x.
Proof.
  induction n as [|n IH]; intros bs bs' o o' x O' X R.
  - cbn [storen loadn]. destruct (Z.leb_spec o' x), (Z.ltb_spec x (o' + Z.of_nat 0)); cbn [andb]; try reflexivity. lia.
  - cbn [storen loadn].
    pose proof (R 0 ltac:(lia)) as R0. rewrite Z.add_0_r in R0.
    set (b0 := get_byte bs o) in *. set (L := loadn n bs (o + 1)).
    assert (E1 : (b0 + 256 * L) mod 256 = b0).
    { rewrite (Z.mul_comm 256 L), Z.mod_add by lia. apply Z.mod_small. exact R0. }
    assert (E2 : (b0 + 256 * L) / 256 = L).
    { rewrite (Z.mul_comm 256 L), Z.div_add by lia. rewrite Z.div_small by exact R0. reflexivity. }
    rewrite E1, E2. unfold L.
    rewrite (IH bs (PM.add (key o') b0 bs') (o + 1) (o' + 1) x); [|lia|exact X|].
    + rewrite Nat2Z.inj_succ.
      destruct (Z.leb_spec (o' + 1) x), (Z.ltb_spec x (o' + 1 + Z.of_nat n)),
               (Z.leb_spec o' x), (Z.ltb_spec x (o' + Z.succ (Z.of_nat n))); cbn [andb]; try (exfalso; lia).
      * f_equal. lia.
      * rewrite get_byte_gso by lia. reflexivity.
      * assert (x = o') as -> by lia. rewrite get_byte_gss. unfold b0. f_equal. lia.
      * rewrite get_byte_gso by lia. reflexivity.
    + intros j J. replace (o + 1 + j) with (o + (j + 1)) by lia. apply R. lia.
Qed.

(* ------------------------------------------------------------------ one store, on bytes *)
(* [f]: the new bytes of the stored range, by offset in the range *)
Lemma mem_store_bytes m d n v p o b (f : Z -> Z) :
  0 < Z.of_nat n ->
  d = BLK * Zpos p + o -> 0 <= o -> o + Z.of_nat n <= BLK -> PM.find p m = Some b -> o + Z.of_nat n <= mb_size b ->
  (forall x, 0 <= x -> get_byte (storen n (mb_bytes b) o v) x =
                        if (o <=? x) && (x <? o + Z.of_nat n) then f (x - o) else get_byte (mb_bytes b) x) ->
  exists m', mem_store m d n v = Some m' /\ same_shape m m' /\
    forall a, byte_at m' a = if (d <=? a) && (a <? d + Z.of_nat n) then Some (f (a - d)) else byte_at m a.
Proof.
  intros Hn E O W F L H.
  unfold mem_store, find_block_at. subst d. rewrite (split_addr_some p o) by lia. rewrite F.
  destruct (Z.leb_spec (o + Z.of_nat n) (mb_size b)) as [_|C]; [|exfalso; lia].
  eexists. split; [reflexivity|]. split.
  - intros q. destruct (Pos.eq_dec q p) as [->|N].
    + rewrite PM.gss, F. reflexivity.
    + rewrite PM.gso by exact N. reflexivity.
  - intros a. unfold byte_at at 1.
    destruct (split_addr a) as [[q x]|] eqn:SA.
    + apply split_addr_inv in SA. destruct SA as [-> X].
      destruct (Pos.eq_dec q p) as [->|N].
      * rewrite PM.gss. cbn [mb_size mb_bytes]. rewrite (H x) by lia.
        rewrite (byte_at_in m p x b X F).
        replace (BLK * Z.pos p + x - (BLK * Z.pos p + o)) with (x - o) by lia.
        destruct (Z.leb_spec o x), (Z.ltb_spec x (o + Z.of_nat n)),
                 (Z.leb_spec (BLK * Z.pos p + o) (BLK * Z.pos p + x)),
                 (Z.ltb_spec (BLK * Z.pos p + x) (BLK * Z.pos p + o + Z.of_nat n)); cbn [andb]; try (exfalso; lia);
          try reflexivity.
        destruct (Z.ltb_spec x (mb_size b)); [reflexivity|exfalso; lia].
      * rewrite PM.gso by exact N. unfold byte_at. rewrite (split_addr_some q x X).
        assert (Z.pos q <> Z.pos p) by congruence. unfold BLK, two32 in *.
        destruct (Z.leb_spec (4294967296 * Z.pos p + o) (4294967296 * Z.pos q + x)),
                 (Z.ltb_spec (4294967296 * Z.pos q + x) (4294967296 * Z.pos p + o + Z.of_nat n)); cbn [andb];
          try reflexivity. exfalso. lia.
    + destruct (Z.leb_spec (BLK * Z.pos p + o) a), (Z.ltb_spec a (BLK * Z.pos p + o + Z.of_nat n)); cbn [andb];
        try (unfold byte_at; rewrite SA; reflexivity).
      exfalso. replace a with (BLK * Z.pos p + (a - BLK * Z.pos p)) in SA by lia.
      rewrite split_addr_some in SA by lia. discriminate.
Qed.

(* a load of a valid span *)
Lemma mem_load_span m a n p o b :
  0 < Z.of_nat n ->
  a = BLK * Zpos p + o -> 0 <= o -> o + Z.of_nat n <= BLK -> PM.find p m = Some b -> o + Z.of_nat n <= mb_size b ->
  mem_load m a n = Some (loadn n (mb_bytes b) o).
Proof.
  intros Hn -> O W F L. unfold mem_load, find_block_at. rewrite (split_addr_some p o) by lia. rewrite F.
  destruct (Z.leb_spec (o + Z.of_nat n) (mb_size b)); [reflexivity|exfalso; lia].
Qed.

(* ------------------------------------------------------------------ one load/store pair *)
Lemma copy_load_raw align raw : load_result (copy_ld align) (copy_cls align) raw = Some raw.
Proof. destruct (copy_shapes align) as [H|[H|[H|H]]]; destruct H as (-> & _ & -> & _); reflexivity. Qed.

Definition bytes_in_range (m : mem) (lo hi : Z) : Prop :=
  forall a v, lo <= a < hi -> byte_at m a = Some v -> 0 <= v < 256.

Lemma copy_pair_bytes align m s d :
  let w := copy_width align in
  span_ok m s w -> span_ok m d w -> bytes_in_range m s (s + w) ->
  exists v m', copy_pair align m s d = Ok (v, m') /\ same_shape m m' /\
    forall a, byte_at m' a = if (d <=? a) && (a <? d + w) then byte_at m (s + (a - d)) else byte_at m a.
Proof.
  intros w (ps & os & bs & Es & Os & Ws & Ts & Fs & Ls) (pd & od & bd & Ed & Od & Wd & Td & Fd & Ld) R.
  destruct (copy_width_bytes align) as (NL & NS & _). fold w in NL, NS.
  pose proof (copy_width_pos align) as WP. fold w in WP.
  unfold copy_pair.
  rewrite (mem_load_span m s (ld_bytes (copy_ld align)) ps os bs) by (rewrite ?NL; (assumption || lia)).
  rewrite copy_load_raw.
  assert (RB : forall j, 0 <= j < Z.of_nat (st_bytes (copy_st align)) -> 0 <= get_byte (mb_bytes bs) (os + j) < 256).
  { intros j J. rewrite NS in J. apply (R (s + j) _ ltac:(lia)).
    rewrite Es, <- Z.add_assoc. rewrite (byte_at_in m ps (os + j) bs) by (assumption || lia).
    destruct (Z.ltb_spec (os + j) (mb_size bs)); [reflexivity|exfalso; lia]. }
  assert (LN : ld_bytes (copy_ld align) = st_bytes (copy_st align)) by (apply Nat2Z.inj; rewrite NL, NS; reflexivity).
  rewrite LN.
  destruct (mem_store_bytes m d (st_bytes (copy_st align)) (loadn (st_bytes (copy_st align)) (mb_bytes bs) os)
              pd od bd (fun j => get_byte (mb_bytes bs) (os + j))) as (m' & ST & SH & B);
    try (rewrite ?NS; (assumption || lia)).
  { intros x X. apply storen_loadn; assumption. }
  rewrite ST. eexists _, m'. split; [reflexivity|]. split; [exact SH|].
  intros a. rewrite B, NS.
  destruct (Z.leb_spec d a), (Z.ltb_spec a (d + w)); cbn [andb]; try reflexivity.
  rewrite Es, <- Z.add_assoc. rewrite (byte_at_in m ps (os + (a - d)) bs) by (assumption || lia).
  destruct (Z.ltb_spec (os + (a - d)) (mb_size bs)); [reflexivity|exfalso; lia].
Qed.

(* ------------------------------------------------------------------ the chain *)
Ltac brk :=
  repeat match goal with
         | |- context [(?a <=? ?b)] => destruct (Z.leb_spec a b)
         | |- context [(?a <? ?b)] => destruct (Z.ltb_spec a b)
         end; cbn [andb]; try (exfalso; lia).

Lemma copy_rest_bytes align : forall cnt m s d,
  let w := copy_width align in
  let n := Z.of_nat cnt * w in
  span_ok m s (w + n) -> span_ok m d (w + n) ->
  d <= s \/ s + w + n <= d ->
  bytes_in_range m (s + w) (s + w + n) ->
  exists m', copy_rest cnt align m s d = Ok m' /\ same_shape m m' /\
    forall a, byte_at m' a = if (d + w <=? a) && (a <? d + w + n) then byte_at m (s + (a - d)) else byte_at m a.
Proof.
  intros cnt m s d w. pose proof (copy_width_pos align) as WP. fold w in WP.
  revert m s d. induction cnt as [|c IH]; intros m s d n Ss Sd DJ R.
  - exists m. split; [reflexivity|]. split; [apply same_shape_refl|].
    intros a. unfold n. cbn. brk; reflexivity.
  - cbn [copy_rest]. fold w.
    assert (N : n = w + Z.of_nat c * w) by (unfold n; rewrite Nat2Z.inj_succ; lia).
    set (n' := Z.of_nat c * w) in *. assert (N' : 0 <= n') by (unfold n'; nia).
    clearbody n n'. subst n.
    destruct (span_ok_nonneg _ _ _ Ss) as [S0 S1]. destruct (span_ok_nonneg _ _ _ Sd) as [D0 D1].
    assert (Ws : wrapk Kl (s + w) = s + w) by (apply Z.mod_small; cbn; unfold two64 in *; lia).
    assert (Wd : wrapk Kl (d + w) = d + w) by (apply Z.mod_small; cbn; unfold two64 in *; lia).
    rewrite Ws, Wd.
    destruct (copy_pair_bytes align m (s + w) (d + w)) as (v & m1 & CP & SH1 & B1).
    { apply (span_ok_sub m s (w + (w + n')) w w Ss); lia. }
    { apply (span_ok_sub m d (w + (w + n')) w w Sd); lia. }
    { fold w. intros a x A. apply R. lia. }
    fold w in B1. rewrite CP. cbn [bind snd].
    destruct (IH m1 (s + w) (d + w)) as (m' & CR & SH2 & B2).
    { apply (span_ok_shape m m1 _ _ SH1). apply (span_ok_sub m s (w + (w + n')) w (w + n') Ss); lia. }
    { apply (span_ok_shape m m1 _ _ SH1). apply (span_ok_sub m d (w + (w + n')) w (w + n') Sd); lia. }
    { lia. }
    { intros a x A. rewrite B1. brk; apply R; lia. }
    exists m'. split; [exact CR|]. split; [eapply same_shape_trans; eassumption|].
    intros a. rewrite B2. rewrite !B1. brk; try reflexivity; f_equal; lia.
Qed.

Theorem copy_sem_bytes size align m s d :
  let span := copy_span size align in
  span_ok m s span -> span_ok m d span ->
  d <= s \/ s + span <= d ->
  bytes_in_range m s (s + span) ->
  exists m', copy_sem size align m s d = Ok m' /\ same_shape m m' /\
    (forall i, 0 <= i < span -> byte_at m' (d + i) = byte_at m (s + i)) /\
    (forall a, ~ (d <= a < d + span) -> byte_at m' a = byte_at m a).
Proof.
  intros span Ss Sd DJ R. pose proof (copy_width_pos align) as WP.
  set (w := copy_width align) in *. set (cnt := Z.to_nat (copy_count size align - 1)).
  assert (C1 : 1 <= copy_count size align) by (unfold copy_count; apply Z.le_max_l).
  assert (SP : span = w + Z.of_nat cnt * w).
  { unfold span, copy_span, cnt. fold w. rewrite Z2Nat.id by lia. lia. }
  remember (Z.of_nat cnt * w) as n eqn:En. assert (N0 : 0 <= n) by (subst n; nia). clearbody span.
  subst span. unfold copy_sem. fold cnt.
  destruct (copy_pair_bytes align m s d) as (v & m1 & CP & SH1 & B1).
  { replace s with (s + 0) by lia. apply (span_ok_sub m s (w + n) 0 w Ss); lia. }
  { replace d with (d + 0) by lia. apply (span_ok_sub m d (w + n) 0 w Sd); lia. }
  { fold w. intros a x A. apply R. lia. }
  fold w in B1. rewrite CP. cbn [bind snd].
  destruct (copy_rest_bytes align cnt m1 s d) as (m' & CR & SH2 & B2); fold w; rewrite <- ?En.
  { apply (span_ok_shape m m1 _ _ SH1). exact Ss. }
  { apply (span_ok_shape m m1 _ _ SH1). exact Sd. }
  { lia. }
  { intros a x A. rewrite B1. brk; apply R; lia. }
  fold w in B2. rewrite <- En in B2. exists m'. split; [exact CR|]. split; [eapply same_shape_trans; eassumption|]. split.
  - intros i I. rewrite B2. rewrite !B1. brk; f_equal; lia.
  - intros a A. rewrite B2. rewrite !B1. brk; reflexivity.
Qed.

(* ------------------------------------------------------------------ the emitted code *)
Theorem funccopy_bytes fo env m dst src (n : positive) size align s d :
  ref_lt n dst -> ref_lt n src -> read env Kl src = Ok s -> read env Kl dst = Ok d ->
  let span := copy_span size align in
  span_ok m s span -> span_ok m d span ->
  d <= s \/ s + span <= d ->
  bytes_in_range m s (s + span) ->
  exists env' m',
    exec fo (env, m) (snd (fst (funccopy dst src size align n))) = Ok (env', m') /\
    agree_below n env env' /\ same_shape m m' /\
    (forall i, 0 <= i < span -> byte_at m' (d + i) = byte_at m (s + i)) /\
    (forall a, ~ (d <= a < d + span) -> byte_at m' a = byte_at m a).
Proof.
  intros Ld Ls Rs Rd span Ss Sd DJ R.
  destruct (copy_sem_bytes size align m s d Ss Sd DJ R) as (m' & CS & SH & B1 & B2).
  pose proof (funccopy_exec fo env m dst src n size align s d Ld Ls Rs Rd) as X. rewrite CS in X.
  destruct X as (env' & EX & AG). exists env', m'. repeat split; assumption.
Qed.

(* when the access width divides the size, the span is the object *)
Corollary funccopy_bytes_exact fo env m dst src (n : positive) size align s d :
  0 < size -> size mod copy_width align = 0 ->
  ref_lt n dst -> ref_lt n src -> read env Kl src = Ok s -> read env Kl dst = Ok d ->
  span_ok m s size -> span_ok m d size ->
  d <= s \/ s + size <= d ->
  bytes_in_range m s (s + size) ->
  exists env' m',
    exec fo (env, m) (snd (fst (funccopy dst src size align n))) = Ok (env', m') /\
    agree_below n env env' /\ same_shape m m' /\
    (forall i, 0 <= i < size -> byte_at m' (d + i) = byte_at m (s + i)) /\
    (forall a, ~ (d <= a < d + size) -> byte_at m' a = byte_at m a).
Proof.
  intros P D. assert (E : copy_span size align = size) by (apply copy_span_exact; [lia|split; assumption]).
  pose proof (funccopy_bytes fo env m dst src n size align s d) as H. cbv zeta in H. rewrite E in H. exact H.
Qed.

(* ------------------------------------------------------------------ a concrete run *)
Definition fo_cb : fops := {| f_bin := fun _ _ _ _ => 0; f_cmp := fun _ _ _ _ => false; f_cvt := fun _ _ _ => 0 |}.

Fixpoint bytes_of_list (l : list Z) (o : Z) (acc : PM.t Z) : PM.t Z :=
  match l with [] => acc | v :: r => bytes_of_list r (o + 1) (PM.add (key o) v acc) end.

(* block 3 (40 bytes): 12 source bytes at offset 4, destination at offset 20, everything else 0xEE / 0xDD;
   block 5 (8 bytes) is a bystander *)
Definition mem_cb : mem :=
  PM.add 3%positive {| mb_size := 40;
                       mb_bytes := bytes_of_list [238;238;238;238; 1;2;3;4;5;6;7;8;9;10;11;255; 238;238;238;238;
                                                  221;221;221;221;221;221;221;221;221;221;221;221; 238;238;238;238] 0
                                                 (PM.empty Z) |}
    (PM.add 5%positive {| mb_size := 8; mb_bytes := bytes_of_list [9;8;7;6;5;4;3;2] 0 (PM.empty Z) |} (PM.empty mblock)).

Definition env_cb : PM.t (cls * Z) :=
  PM.add 1%positive (Kl, BLK * 3 + 4) (PM.add 2%positive (Kl, BLK * 3 + 20) (PM.empty (cls * Z))).

Lemma span_ok_intro m a n p o b :
  a = BLK * Zpos p + o -> 0 <= o -> o + n <= BLK -> a + n <= two64 -> PM.find p m = Some b -> o + n <= mb_size b ->
  span_ok m a n.
Proof. intros. exists p, o, b. repeat split; assumption. Qed.

Ltac span_tac p o :=
  eapply (span_ok_intro _ _ _ p o);
    [reflexivity | cbv; congruence | cbv; congruence | cbv; congruence | vm_compute; reflexivity | cbv; congruence].

(* struct of 12 bytes, alignment 4: the hypotheses of funccopy_bytes hold, and the run gives the 12 source bytes at the
   destination, the guard bytes around it and the other block untouched *)
Example funccopy_bytes_example :
  let s := BLK * 3 + 4 in let d := BLK * 3 + 20 in
  copy_span 12 4 = 12 /\
  span_ok mem_cb s 12 /\ span_ok mem_cb d 12 /\ (d <= s \/ s + 12 <= d) /\ bytes_in_range mem_cb s (s + 12) /\
  exists env' m',
    exec fo_cb (env_cb, mem_cb) (snd (fst (funccopy (RTmp 2%positive) (RTmp 1%positive) 12 4 3%positive))) = Ok (env', m') /\
    map (fun i => byte_at m' (BLK * 3 + i)) [16;17;18;19; 20;21;22;23;24;25;26;27;28;29;30;31; 32;33;34;35; 40] =
      map Some [238;238;238;238; 1;2;3;4;5;6;7;8;9;10;11;255; 238;238;238;238] ++ [None] /\
    map (fun i => byte_at m' (BLK * 3 + i)) [4;5;6;7;8;9;10;11;12;13;14;15] = map Some [1;2;3;4;5;6;7;8;9;10;11;255] /\
    map (fun i => byte_at m' (BLK * 5 + i)) [0;1;2;3;4;5;6;7;8] = map Some [9;8;7;6;5;4;3;2] ++ [None].
Proof.
  cbv zeta. split; [reflexivity|].
  split; [span_tac 3%positive 4|].
  split; [span_tac 3%positive 20|].
  split; [right; cbv; congruence|].
  split.
  - intros a v A.
    unfold BLK, two32 in A.
    assert (a = 12884901892 \/ a = 12884901893 \/ a = 12884901894 \/ a = 12884901895 \/ a = 12884901896 \/
            a = 12884901897 \/ a = 12884901898 \/ a = 12884901899 \/ a = 12884901900 \/ a = 12884901901 \/
            a = 12884901902 \/ a = 12884901903) as I by lia.
    repeat (destruct I as [->|I]; [vm_compute; intros E; injection E as <-; split; congruence|]).
    subst a. vm_compute. intros E; injection E as <-; split; congruence.
  - eexists _, _. split; [vm_compute; reflexivity|]. vm_compute. repeat split.
Qed.

(* the excluded case is really wrong: destination 4 bytes above the source, 8 bytes with 4-byte accesses -
   byte d+4 receives the OLD byte s (already overwritten source), not byte s+4 *)
Example funccopy_bytes_overlap_refuted :
  let s := BLK * 3 + 4 in let d := BLK * 3 + 8 in
  copy_span 8 4 = 8 /\ span_ok mem_cb s 8 /\ span_ok mem_cb d 8 /\ s < d < s + 8 /\
  exists m', copy_sem 8 4 mem_cb s d = Ok m' /\
    byte_at mem_cb (s + 4) = Some 5 /\ byte_at m' (d + 4) = Some 1.
Proof.
  cbv zeta. split; [reflexivity|].
  split; [span_tac 3%positive 4|].
  split; [span_tac 3%positive 8|].
  split; [cbv; split; reflexivity|].
  eexists. split; [vm_compute; reflexivity|]. vm_compute. split; reflexivity.
Qed.
