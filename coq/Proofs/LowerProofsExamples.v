(* LowerProofsExamples.v - concrete instances showing that the hypotheses of the C01 theorems are satisfiable
   and that the emitted sequences are the expected ones. *)
From Coq Require Import ZArith List Bool PArith Lia FMapPositive.
From Cproc Require Import Lib.Wrap Model.Qbe Spec.CArith Spec.Csem Model.Lower
  Proofs.LowerProofsExec Proofs.LowerProofsArith Proofs.LowerProofsConv Proofs.LowerProofsBin
  Proofs.LowerProofsBitsMath Proofs.LowerProofsBits Proofs.LowerProofsCopy Proofs.LowerProofsExpr.
Import ListNotations.
Local Open Scope Z_scope.

Definition fo0 : fops := {| f_bin := fun _ _ _ _ => 0; f_cmp := fun _ _ _ _ => false; f_cvt := fun _ _ _ => 0 |}.
Definition env1 (k : cls) (x : Z) : PM.t (cls * Z) := PM.add 1%positive (k, x) (PM.empty _).
Definition nomem : mem := PM.empty _.

(* (long)(signed char)-1 from a register whose upper bits are garbage: extsb, giving 2^64-1 *)
Example convert_example :
  repr (SInt I1 true) (-1) 767 /\ c_in_range (SInt I1 true) (-1) /\
  snd (fst (convert (SInt I8 true) (SInt I1 true) (RTmp 1%positive) 2%positive)) = [Iop (Some (2%positive, Kl)) (Oext Esb) (RTmp 1%positive) None] /\
  (do s <- exec fo0 (env1 Kw 767, nomem) (snd (fst (convert (SInt I8 true) (SInt I1 true) (RTmp 1%positive) 2%positive)));
   read (fst s) Kl (RTmp 2%positive)) = Ok (2 ^ 64 - 1) /\
  c_convert (SInt I8 true) (-1) = -1 /\ repr (SInt I8 true) (-1) (2 ^ 64 - 1).
Proof. repeat split; try reflexivity; cbv; congruence. Qed.

(* -7 / 2 on int: div, result -3 as 2^32-3; and INT_MIN / -1 is excluded by the specification *)
Example binop_example :
  binop_spec Div (ity_of (SInt I4 true)) (-7) 2 = Some (-3) /\
  binop_op Div (SInt I4 true) = Obin Bdiv /\ binop_op Div (SInt I4 false) = Obin Budiv /\
  eval_ibin Bdiv Kw (2 ^ 32 - 7) 2 = Some (2 ^ 32 - 3) /\
  binop_spec Div (ity_of (SInt I4 true)) (- 2 ^ 31) (-1) = None /\
  binop_op CLt (SInt I8 false) = Ocmpi true Cult /\ binop_op Shr (SInt I4 true) = Obin Bsar.
Proof. repeat split; reflexivity. Qed.

(* the comparison opcodes need extended operands: 257 and 2 represent the signed chars 1 and 2, csltw says 257 >= 2 *)
Example compare_needs_extension :
  repr (SInt I1 true) 1 257 /\ repr (SInt I1 true) 2 2 /\ eval_cmpi Cslt Kw 257 2 = false /\ (1 <? 2) = true.
Proof. repeat split; reflexivity. Qed.

(* struct { unsigned a : 3; int f : 9; } : store 300 into f of a unit holding 0xffffffff, read it back: 300 - 512 *)
Example bitfield_example :
  bf_pos (SInt I4 true) 3 20 /\
  new_unit (SInt I4 true) 3 20 300 (2 ^ 32 - 1) = 2 ^ 32 - 1 - 4088 + 300 * 8 /\
  bf_get true 4 3 20 (new_unit (SInt I4 true) 3 20 300 (2 ^ 32 - 1)) = 300 - 512 /\
  bf_value true 4 3 20 300 = 300 - 512 /\
  store_mask 4 3 20 = 4088.
Proof. split; [constructor; (reflexivity || (cbv; congruence))|]. repeat split; vm_compute; reflexivity. Qed.

(* (a + 1) * 2 on unsigned with a = 2^32 - 1: add, mul; the result wraps to 0 *)
Example expr_example :
  let e := PBin Mul (SInt I4 false) (PBin Add (SInt I4 false) (PTemp (SInt I4 false) 1%positive) (PConst (SInt I4 false) 1)) (PConst (SInt I4 false) 2) in
  wt e = true /\ eval (fun _ => Some (2 ^ 32 - 1)) e = Some 0 /\
  snd (fst (gexpr RTmp e 2%positive)) =
    [Iop (Some (2%positive, Kw)) (Obin Badd) (RTmp 1%positive) (Some (RInt 1));
     Iop (Some (3%positive, Kw)) (Obin Bmul) (RTmp 2%positive) (Some (RInt 2))] /\
  (do s <- exec fo0 (env1 Kw (2 ^ 32 - 1), nomem) (snd (fst (gexpr RTmp e 2%positive))); read (fst s) Kw (RTmp 3%positive)) = Ok 0.
Proof. repeat split; reflexivity. Qed.
