(* LowerProofsExec.v - the straight-line fragment of the IL semantics and its tie to Qbe.step.
   [exec_inst] / [exec] run loads, stores and pure instructions on (environment, memory); [exec_inst_step]
   and [exec_run_state] show that Qbe.step / Qbe.run_state do exactly that on a frame whose code starts
   with these instructions.  Then the basic algebra used by all proofs about emitted sequences:
   append, frame (temporaries below the counter are not touched), reading a fresh temporary. *)
From Coq Require Import ZArith List Bool PArith Lia FMapPositive.
From Cproc Require Import Model.Qbe Spec.Csem Model.Lower.
Import ListNotations.
Local Open Scope Z_scope.

Definition xstate := (PM.t (cls * Z) * mem)%type.

Definition exec_inst (fo : fops) (s : xstate) (i : inst) : res xstate :=
  let (env, m) := s in
  match i with
  | Iop d o a0 a1 =>
      match o with
      | Ostore st =>
          match d with
          | Some _ => stuckr BadClass
          | None => do va <- (do v <- read env (st_cls st) a0; do a <- read1 env Kl a1; Ok (v, a));
                    match mem_store m (snd va) (st_bytes st) (fst va) with
                    | Some m' => Ok (env, m')
                    | None => Err (OOB (snd va)) end
          end
      | Oload l =>
          match d, a1 with
          | Some (t, k), None =>
              do a <- read env Kl a0;
              match mem_load m a (ld_bytes l) with
              | None => Err (OOB a)
              | Some raw => match load_result l k raw with
                            | Some v => Ok (PM.add t (k, v) env, m)
                            | None => stuckr BadClass end
              end
          | _, _ => stuckr BadClass
          end
      | Oalloc _ | Ovastart | Ovaarg => stuckr BadClass      (* not in the straight-line fragment *)
      | _ => match d with
             | None => stuckr BadClass
             | Some (t, k) => do v <- eval_pure fo env o k a0 a1; Ok (PM.add t (k, v) env, m)
             end
      end
  | Icall _ _ _ => stuckr BadCall
  end.

Fixpoint exec (fo : fops) (s : xstate) (c : code) : res xstate :=
  match c with
  | [] => Ok s
  | i :: r => do s' <- exec_inst fo s i; exec fo s' r
  end.

Definition straight (i : inst) : bool :=
  match i with
  | Iop _ (Oalloc _) _ _ | Iop _ Ovastart _ _ | Iop _ Ovaarg _ _ => false
  | Iop _ _ _ _ => true
  | Icall _ _ _ => false
  end.

(* ------------------------------------------------------------------ tie to Qbe.step *)
Definition with_code (st : state) (fr : frame) (rest : list frame) (env : PM.t (cls * Z)) (m : mem) (c : list inst) : state :=
  upd_state st m (upd_frame fr env c (fr_allocs fr) (fr_dst fr) :: rest).

Lemma exec_inst_step fo ge st fr rest i c :
  st_stack st = fr :: rest -> fr_code fr = i :: c -> straight i = true ->
  step fo ge st = match exec_inst fo (fr_env fr, st_mem st) i with
                  | Ok (env', m') => Next (with_code st fr rest env' m' c)
                  | Err r => Final r end.
Proof.
  intros Hs Hc Hstr. unfold step. rewrite Hs, Hc.
  destruct i as [d o a0 a1|]; [|discriminate].
  unfold exec_inst, with_code.
  destruct o; try discriminate;
    try (destruct d as [[t k]|]; [|reflexivity];
         destruct (eval_pure fo (fr_env fr) _ k a0 a1); reflexivity).
  - (* store *)
    destruct d; [reflexivity|].
    destruct (read (fr_env fr) (st_cls s) a0) as [v|]; [|reflexivity]. simpl.
    destruct (read1 (fr_env fr) Kl a1) as [a|]; [|reflexivity]. simpl.
    destruct (mem_store (st_mem st) a (st_bytes s) v); reflexivity.
  - (* load *)
    destruct d as [[t k]|]; [|reflexivity]. destruct a1; [reflexivity|].
    destruct (read (fr_env fr) Kl a0) as [a|]; [|reflexivity]. simpl.
    destruct (mem_load (st_mem st) a (ld_bytes l)); [|reflexivity].
    destruct (load_result l k z); reflexivity.
Qed.

(* a whole straight-line prefix: run_state spends one unit of fuel per instruction *)
Lemma exec_run_state fo ge : forall c1 st fr rest c2 n,
  st_stack st = fr :: rest -> fr_code fr = c1 ++ c2 -> forallb straight c1 = true ->
  run_state fo ge (length c1 + n) st =
    match exec fo (fr_env fr, st_mem st) c1 with
    | Ok (env', m') => run_state fo ge n (with_code st fr rest env' m' c2)
    | Err r => match c1 with [] => run_state fo ge n st | _ => r end
    end.
Proof.
  induction c1 as [|i c1 IH]; intros st fr rest c2 n Hs Hc Hstr.
  - simpl. unfold with_code, upd_state, upd_frame. simpl in Hc.
    destruct st, fr; simpl in *. subst. reflexivity.
  - simpl in Hstr. apply andb_prop in Hstr as [Hi Hr].
    cbn [length Nat.add run_state]. rewrite (exec_inst_step fo ge st fr rest i (c1 ++ c2) Hs Hc Hi).
    cbn [exec]. destruct (exec_inst fo (fr_env fr, st_mem st) i) as [[env' m']|r]; [|reflexivity].
    cbn [bind]. unfold with_code at 1.
    rewrite (IH _ (upd_frame fr env' (c1 ++ c2) (fr_allocs fr) (fr_dst fr)) rest c2 n); try reflexivity; try assumption.
    cbn [upd_frame fr_env upd_state st_mem].
    destruct (exec fo (env', m') c1) as [[env'' m'']|r] eqn:E.
    + unfold with_code, upd_state, upd_frame; reflexivity.
    + destruct c1; [simpl in E; discriminate|reflexivity].
Qed.

(* ------------------------------------------------------------------ algebra of exec *)
Lemma exec_app fo c1 : forall s c2,
  exec fo s (c1 ++ c2) = (do s' <- exec fo s c1; exec fo s' c2).
Proof.
  induction c1 as [|i c1 IH]; intros s c2; [reflexivity|].
  simpl. destruct (exec_inst fo s i); [apply IH|reflexivity].
Qed.

Lemma exec_app_ok fo c1 c2 s s1 s2 :
  exec fo s c1 = Ok s1 -> exec fo s1 c2 = Ok s2 -> exec fo s (c1 ++ c2) = Ok s2.
Proof. intros H1 H2. rewrite exec_app, H1. exact H2. Qed.

(* references that only mention temporaries below n *)
Definition ref_lt (n : positive) (r : ref) : Prop :=
  match r with RTmp t => (t < n)%positive | _ => True end.

(* env' extends env on the temporaries below n *)
Definition agree_below (n : positive) (env env' : PM.t (cls * Z)) : Prop :=
  forall t, (t < n)%positive -> PM.find t env' = PM.find t env.

Lemma agree_refl n env : agree_below n env env.
Proof. intros t _; reflexivity. Qed.

Lemma agree_trans n m e1 e2 e3 :
  (n <= m)%positive -> agree_below n e1 e2 -> agree_below m e2 e3 -> agree_below n e1 e3.
Proof. intros L A B t Ht. rewrite B by lia. apply A; assumption. Qed.

Lemma agree_add n env t kv : (n <= t)%positive -> agree_below n env (PM.add t kv env).
Proof. intros L u Hu. apply PM.gso. lia. Qed.

Lemma read_agree n env env' k r :
  agree_below n env env' -> ref_lt n r -> read env' k r = read env k r.
Proof.
  intros A L. destruct r; try reflexivity. simpl in *. rewrite (A t L). reflexivity.
Qed.

Lemma ref_lt_mono n m r : (n <= m)%positive -> ref_lt n r -> ref_lt m r.
Proof. destruct r; simpl; auto; lia. Qed.

Lemma read_gss env t k v : read (PM.add t (k, v) env) k (RTmp t) = Ok v.
Proof. simpl. rewrite PM.gss. destruct k; reflexivity. Qed.

Lemma read_gss_lw env t v : read (PM.add t (Kl, v) env) Kw (RTmp t) = Ok (v mod two32).
Proof. simpl. rewrite PM.gss. reflexivity. Qed.

Lemma read_gso env t kv k r : ref_lt t r -> read (PM.add t kv env) k r = read env k r.
Proof.
  intros L. destruct r; try reflexivity. simpl in *. rewrite PM.gso by lia. reflexivity.
Qed.

(* values read from any reference are in the range of the class *)
Lemma mod_two32_range x : 0 <= x mod two32 < two32.
Proof. apply Z.mod_pos_bound. reflexivity. Qed.
Lemma mod_two64_range x : 0 <= x mod two64 < two64.
Proof. apply Z.mod_pos_bound. reflexivity. Qed.
