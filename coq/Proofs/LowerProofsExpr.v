(* LowerProofsExpr.v - lower_expr_correct, for the side-effect-free fragment: by induction on the typed tree,
   the code funcexpr emits for constants, computed leaves, casts, unary minus and the arithmetic, bitwise,
   shift and comparison operators computes a register that represents the value Csem.eval prescribes,
   whenever that value is defined.  The representation invariant is the induction invariant. *)
From Coq Require Import ZArith List Bool PArith Lia FMapPositive.
From Cproc Require Import Lib.Wrap Model.Qbe Spec.CArith Spec.Csem Model.Lower
  Proofs.LowerProofsExec Proofs.LowerProofsArith Proofs.LowerProofsConv Proofs.LowerProofsBin.
Import ListNotations.
Local Open Scope Z_scope.

(* every leaf has been computed into a reference below the counter that represents its value *)
Fixpoint leaves_ok (env : PM.t (cls * Z)) (n : positive) (leaf : positive -> ref) (rho : positive -> option Z) (e : pexpr) : Prop :=
  match e with
  | PConst _ _ => True
  | PTemp t x =>
      ref_lt n (leaf x) /\
      forall a, rho x = Some a ->
        exists xv, read env (qbase t) (leaf x) = Ok xv /\ 0 <= xv < modk (qbase t) /\ repr t a xv /\ c_in_range t a
  | PCast _ e1 | PNeg _ e1 => leaves_ok env n leaf rho e1
  | PBin _ _ l r => leaves_ok env n leaf rho l /\ leaves_ok env n leaf rho r
  end.

Lemma leaves_ok_mono env env' n n' leaf rho e :
  agree_below n env env' -> (n <= n')%positive -> leaves_ok env n leaf rho e -> leaves_ok env' n' leaf rho e.
Proof.
  intros A L. induction e; simpl; auto.
  - intros [Lx H]. split; [apply ref_lt_mono with n; assumption|].
    intros a Ha. destruct (H a Ha) as (xv & R & Rest). exists xv. split; [|exact Rest].
    rewrite (read_agree n env env' _ _ A Lx). exact R.
  - intros [H1 H2]. split; auto.
Qed.

Lemma sty_eqb_eq a b : sty_eqb a b = true -> a = b.
Proof.
  destruct a as [[] []| | | |], b as [[] []| | | |]; simpl; intros H; try discriminate; reflexivity.
Qed.

Lemma const_sound t n : match t with SBool => (n =? 0) || (n =? 1) | _ => intlike t end = true ->
  let x := (if ssize t =? 8 then (n mod M64) mod two64 else (n mod M64) mod two32) in
  repr t (c_const t n) x /\ c_in_range t (c_const t n).
Proof.
  intros W x. unfold c_const. split.
  - unfold repr. rewrite conv_spec_wrap. subst x.
    change M64 with (2 ^ 64). change two64 with (2 ^ 64). change two32 with (2 ^ 32).
    destruct t as [[] ?| | | |]; try discriminate; unfold sbits; cbn [ssize zsize Z.eqb Pos.eqb Z.mul Pos.mul];
      try change ((n mod 2 ^ 64) mod 2 ^ 64) with (wrap 64 (wrap 64 n)); try change ((n mod 2 ^ 64) mod 2 ^ 32) with (wrap 32 (wrap 64 n));
      repeat rewrite wrap_wrap_le by lia; reflexivity.
  - destruct t as [[] ?| | | |]; try discriminate; try apply (conv_spec_range _ n).
    simpl. apply orb_prop in W. destruct W as [W|W]; apply Z.eqb_eq in W; subst n; [left|right]; reflexivity.
Qed.

Lemma read_mkint env t n : intlike t = true ->
  read env (qbase t) (mkint n) = Ok (if ssize t =? 8 then (n mod M64) mod two64 else (n mod M64) mod two32).
Proof. destruct t as [[] ?| | | |]; try discriminate; reflexivity. Qed.

Theorem gexpr_correct fo leaf rho m : forall e env (n : positive) v,
  wt e = true -> leaves_ok env n leaf rho e -> eval rho e = Some v ->
  exists env' x',
    exec fo (env, m) (snd (fst (gexpr leaf e n))) = Ok (env', m) /\
    read env' (qbase (ptype e)) (fst (fst (gexpr leaf e n))) = Ok x' /\
    0 <= x' < modk (qbase (ptype e)) /\
    repr (ptype e) v x' /\ c_in_range (ptype e) v /\
    agree_below n env env' /\
    ref_lt (snd (gexpr leaf e n)) (fst (fst (gexpr leaf e n))) /\
    (n <= snd (gexpr leaf e n))%positive.
Proof.
  induction e as [t c|t x|t e1 IH|o t l IHl r IHr|t e1 IH]; intros env n v W LO EV.
  - (* constant *)
    cbn [gexpr gret fst snd ptype]. cbn [wt] in W. cbn [eval] in EV. injection EV as <-.
    assert (IT : intlike t = true) by (destruct t; try discriminate; reflexivity).
    destruct (const_sound t c W) as [Rp Rc].
    exists env, (if ssize t =? 8 then (c mod M64) mod two64 else (c mod M64) mod two32).
    repeat split; try assumption; try apply agree_refl; try (simpl; exact I); try lia;
      try (apply read_mkint; assumption).
    + destruct (ssize t =? 8); apply Z.mod_pos_bound; reflexivity.
    + destruct t as [[] ?| | | |]; try discriminate; cbn; apply Z.mod_pos_bound; reflexivity.
  - (* computed leaf *)
    cbn [gexpr gret fst snd ptype]. cbn [eval] in EV. cbn [leaves_ok] in LO. destruct LO as [Lx H].
    destruct (H v EV) as (xv & R & Rg & Rp & Rc).
    exists env, xv. repeat split; try assumption; try apply Rg; try apply agree_refl; lia.
  - (* cast *)
    cbn [wt] in W. apply andb_prop in W as [W W1]. apply andb_prop in W as [IT IS].
    cbn [eval] in EV. destruct (eval rho e1) as [v1|] eqn:E1; [|discriminate]. cbn [obind] in EV. injection EV as <-.
    cbn [leaves_ok] in LO.
    destruct (IH env n v1 W1 LO eq_refl) as (env1 & x1 & A1 & B1 & C1 & D1 & F1 & G1 & H1 & I1).
    cbn [gexpr ptype]. unfold gbind.
    destruct (gexpr leaf e1 n) as [[r1 c1] n1] eqn:GE. cbn [fst snd] in *.
    destruct (convert_correct fo t (ptype e1) env1 m r1 n1 x1 v1 IT IS H1 B1 C1 D1 F1)
      as (env2 & x2 & A2 & B2 & C2 & D2 & G2 & H2 & I2).
    destruct (convert t (ptype e1) r1 n1) as [[r2 c2] n2] eqn:CV. cbn [fst snd] in *.
    exists env2, x2. repeat split; try assumption; try apply C2.
    + apply exec_app_ok with (s1 := (env1, m)); assumption.
    + apply c_convert_range; assumption.
    + apply agree_trans with (m := n1) (e2 := env1); assumption.
    + lia.
  - (* binary operator *)
    cbn [wt] in W. apply andb_prop in W as [W Wtr]. apply andb_prop in W as [W Wr]. apply andb_prop in W as [W Wl].
    apply andb_prop in W as [Pt Tl]. apply sty_eqb_eq in Tl.
    cbn [eval] in EV. destruct (eval rho l) as [a|] eqn:El; [|discriminate]. cbn [obind] in EV.
    destruct (eval rho r) as [b|] eqn:Er; [|discriminate]. cbn [obind] in EV.
    cbn [leaves_ok] in LO. destruct LO as [LOl LOr].
    destruct (IHl env n a Wl LOl eq_refl) as (env1 & x1 & A1 & B1 & C1 & D1 & F1 & G1 & H1 & I1).
    cbn [gexpr]. unfold gbind.
    destruct (gexpr leaf l n) as [[ra ca] n1] eqn:GL. cbn [fst snd] in *.
    destruct (IHr env1 n1 b Wr (leaves_ok_mono env env1 n n1 leaf rho r G1 I1 LOr) eq_refl)
      as (env2 & x2 & A2 & B2 & C2 & D2 & F2 & G2 & H2 & I2).
    destruct (gexpr leaf r n1) as [[rb cb] n2] eqn:GR. cbn [fst snd] in *.
    rewrite Tl in *.
    assert (Ra2 : read env2 (qbase t) ra = Ok x1) by (rewrite (read_agree n1 env1 env2 _ _ G2 H1); exact B1).
    assert (Htr : if is_shift o then promoted (ptype r) = true else ptype r = t).
    { destruct (is_shift o); [exact Wtr|apply sty_eqb_eq; exact Wtr]. }
    destruct (binop_correct fo o t (ptype r) env2 m ra rb n2 x1 x2 a b v Pt Htr Ra2 C1 D1 F1 B2 C2 D2 F2 EV)
      as (env3 & x3 & A3 & B3 & C3 & D3 & F3 & G3 & H3 & I3).
    destruct (gbinop o t ra rb n2) as [[rc cc] n3] eqn:GB. cbn [fst snd] in *.
    exists env3, x3. unfold ptype. fold (binop_rty o t). fold (binop_cls o t).
    repeat split; try assumption; try apply C3.
    + apply exec_app_ok with (s1 := (env1, m)); [assumption|].
      apply exec_app_ok with (s1 := (env2, m)); assumption.
    + apply agree_trans with (m := n1) (e2 := env1); [assumption|assumption|].
      apply agree_trans with (m := n2) (e2 := env2); assumption.
    + lia.
  - (* unary minus *)
    cbn [wt] in W. apply andb_prop in W as [W W1]. apply andb_prop in W as [Pt Te]. apply sty_eqb_eq in Te.
    cbn [eval] in EV. destruct (eval rho e1) as [a|] eqn:E1; [|discriminate]. cbn [obind] in EV.
    cbn [leaves_ok] in LO.
    destruct (IH env n a W1 LO eq_refl) as (env1 & x1 & A1 & B1 & C1 & D1 & F1 & G1 & H1 & I1).
    cbn [gexpr ptype]. unfold gbind, ginst.
    destruct (gexpr leaf e1 n) as [[r1 c1] n1] eqn:GE. cbn [fst snd] in *. rewrite Te in *.
    destruct (prom_facts t Pt) as (Fb & Fi & _).
    destruct (neg_sound t Pt a x1 v D1 EV) as [Rp Rc].
    destruct (one_inst fo env1 m n1 (qbase t) Oneg r1 None (wrapk (qbase t) (- x1))
                (fun z => repr t v z)) as (env2 & x2 & A2 & B2 & C2 & D2 & G2 & H2 & I2);
      [exact I| |apply wrapk_range|exact Rp|].
    { unfold eval_pure. rewrite B1. cbn [bind]. rewrite Fi. reflexivity. }
    exists env2, x2. repeat split; try assumption; try apply C2.
    + apply exec_app_ok with (s1 := (env1, m)); assumption.
    + apply agree_trans with (m := n1) (e2 := env1); assumption.
    + lia.
Qed.
