(* LowerProofsZeroBytes.v - qbe.c:zero() on byte contents.
   ZeroProofs.zero_spec describes the list of (offset, width) stores of the loop; LowerZero.v turns each into
   `[add] + store 0`.  Here: executing that code from a memory where [base+offset, base+final) is a valid span
   makes every byte of that span 0, leaves every other byte of every block and the block sizes as they were, and
   touches no temporary below the counter.  [final] is where the loop stops: e <= final < e + min(align, 8), and
   final <= e' for every multiple e' >= e of min(align, 8) - so final = e when e is such a multiple, and the
   stores never pass the end of an object whose size is a multiple of its alignment. *)
From Coq Require Import ZArith NArith List Bool PArith Lia FMapPositive.
From Cproc Require Import Lib.Wrap Model.Qbe Spec.Csem Model.Lower Model.Zero Model.LowerZero
  Proofs.ZeroProofs Proofs.LowerProofsExec Proofs.LowerProofsConv Proofs.LowerProofsCopy Proofs.LowerProofsCopyBytes.
Import ListNotations.
Local Open Scope Z_scope.

(* ------------------------------------------------------------------ bytes of a block: storing 0 *)
Lemma storen_zero : forall n bs o x, 0 <= o -> 0 <= x ->
  get_byte (storen n bs o 0) x = if (o <=? x) && (x <? o + Z.of_nat n) then 0 else get_byte bs x.
Proof.
  induction n as [|n IH]; intros bs o x O X.
  - cbn [storen]. destruct (Z.leb_spec o x), (Z.ltb_spec x (o + Z.of_nat 0)); cbn [andb]; try reflexivity. lia.
  - cbn [storen]. change (0 mod 256) with 0. change (0 / 256) with 0.
    rewrite IH by lia. rewrite Nat2Z.inj_succ.
    destruct (Z.leb_spec (o + 1) x), (Z.ltb_spec x (o + 1 + Z.of_nat n)),
             (Z.leb_spec o x), (Z.ltb_spec x (o + Z.succ (Z.of_nat n))); cbn [andb]; try (exfalso; lia);
      try reflexivity.
    + rewrite get_byte_gso by lia. reflexivity.
    + assert (x = o) as -> by lia. apply get_byte_gss.
    + rewrite get_byte_gso by lia. reflexivity.
Qed.

(* ------------------------------------------------------------------ the four widths *)
Lemma store_index_cases w : store_index_ok w = true -> (w = 1 \/ w = 2 \/ w = 4 \/ w = 8)%N.
Proof.
  unfold store_index_ok. rewrite !orb_true_iff, !N.eqb_eq. tauto.
Qed.

Lemma zero_stw_facts w : store_index_ok w = true ->
  Z.of_nat (st_bytes (zero_stw w)) = Z.of_N w /\ 0 < Z.of_N w /\
  forall env, read env (st_cls (zero_stw w)) (RInt 0) = Ok 0.
Proof.
  intros H. destruct (store_index_cases w H) as [-> | [-> | [-> | ->]]]; (split; [reflexivity|split; [reflexivity|]]);
    intros env; reflexivity.
Qed.

(* ------------------------------------------------------------------ one store of zero() *)
Lemma zero_store_exec fo env m addr (n : positive) base o w :
  store_index_ok w = true -> ref_lt n addr -> read env Kl addr = Ok base ->
  span_ok m (base + Z.of_N o) (Z.of_N w) ->
  exists env' m',
    exec fo (env, m) (snd (fst (zero_store addr o w n))) = Ok (env', m') /\
    agree_below n env env' /\ (n <= snd (zero_store addr o w n))%positive /\ same_shape m m' /\
    forall a, byte_at m' a = if (base + Z.of_N o <=? a) && (a <? base + Z.of_N o + Z.of_N w) then Some 0 else byte_at m a.
Proof.
  intros OK La Ra SP. destruct (zero_stw_facts w OK) as (NB & WP & RZ).
  destruct (span_ok_nonneg _ _ _ SP) as [A0 A1].
  destruct SP as (p & ob & b & E & O & W & T & F & L).
  destruct (mem_store_bytes m (base + Z.of_N o) (st_bytes (zero_stw w)) 0 p ob b (fun _ => 0)) as (m' & ST & SH & B);
    try (rewrite ?NB; (assumption || lia)).
  { intros x X. apply storen_zero; assumption. }
  rewrite NB in B.
  unfold zero_store, gbind, ginst0. destruct (N.eqb_spec o 0) as [->|NZ].
  - (* offset 0: the store goes through addr itself *)
    unfold gret. cbn [fst snd app]. change (Z.of_N 0) with 0 in *. rewrite Z.add_0_r in *.
    exists env, m'. split.
    + cbn [exec]. unfold exec_inst. rewrite RZ. cbn [bind read1]. rewrite Ra. cbn [bind fst snd]. rewrite ST. reflexivity.
    + split; [apply agree_refl|]. split; [lia|]. split; [exact SH|exact B].
  - unfold ginst. cbn [fst snd app].
    assert (RO : read env Kl (mkint (Z.of_N o)) = Ok (Z.of_N o mod two64)).
    { unfold mkint, read. f_equal. change M64 with two64. apply Z.mod_mod. unfold two64. lia. }
    assert (EV : eval_pure fo env (Obin Badd) Kl addr (Some (mkint (Z.of_N o))) = Ok (base + Z.of_N o)).
    { apply (eval_bin_inst fo env Badd Kl addr (mkint (Z.of_N o)) base (Z.of_N o mod two64)); try assumption; try reflexivity.
      cbn [eval_ibin]. f_equal. unfold wrapk. change (modk Kl) with two64.
      rewrite Z.add_mod_idemp_r by (unfold two64; lia). apply Z.mod_small. split; assumption || (unfold two64 in *; lia). }
    exists (PM.add n (Kl, base + Z.of_N o) env), m'. split.
    + etransitivity; [apply exec_cons_eq; apply (exec_pure_inst fo env m n Kl (Obin Badd) addr _ _ I EV)|].
      cbn [exec]. unfold exec_inst. rewrite RZ. cbn [bind read1]. rewrite read_gss. cbn [bind fst snd]. rewrite ST. reflexivity.
    + split; [apply agree_add; lia|]. split; [lia|]. split; [exact SH|exact B].
Qed.

(* ------------------------------------------------------------------ the chain of stores *)
Lemma tiles_le : forall st x final, tiles st x final -> (x <= final)%N.
Proof.
  induction st as [|[o w] r IH]; intros x final T.
  - cbn in T. subst. apply N.le_refl.
  - cbn in T. destruct T as [_ T]. apply IH in T. lia.
Qed.

Lemma zero_emit_exec fo addr base : forall st x final env m (n : positive),
  tiles st x final -> Forall store_ok st -> ref_lt n addr -> read env Kl addr = Ok base ->
  ((x < final)%N -> span_ok m (base + Z.of_N x) (Z.of_N final - Z.of_N x)) ->
  exists env' m',
    exec fo (env, m) (snd (fst (zero_emit addr st n))) = Ok (env', m') /\ agree_below n env env' /\ same_shape m m' /\
    forall a, byte_at m' a = if (base + Z.of_N x <=? a) && (a <? base + Z.of_N final) then Some 0 else byte_at m a.
Proof.
  induction st as [|[o w] r IH]; intros x final env m n T SO La Ra SP.
  - cbn in T. subst final. exists env, m. split; [reflexivity|]. split; [apply agree_refl|]. split; [apply same_shape_refl|].
    intros a. brk; reflexivity.
  - cbn [tiles] in T. destruct T as [-> T]. inversion SO as [|? ? [OKW _] SO']; subst. cbn [snd] in OKW.
    pose proof (tiles_le _ _ _ T) as LE. destruct (zero_stw_facts w OKW) as (_ & WP & _).
    assert (XF : (x < final)%N) by lia. specialize (SP XF).
    destruct (zero_store_exec fo env m addr n base x w OKW La Ra) as (env1 & m1 & EX1 & AG1 & LN1 & SH1 & B1).
    { replace (base + Z.of_N x) with (base + Z.of_N x + 0) by lia.
      apply (span_ok_sub m _ _ 0 (Z.of_N w) SP); lia. }
    cbn [zero_emit]. unfold gbind.
    destruct (zero_store addr x w n) as [[u1 c1] n1] eqn:Z1. cbn [fst snd] in EX1, LN1.
    destruct (IH (x + w)%N final env1 m1 n1 T SO') as (env' & m' & EX2 & AG2 & SH2 & B2).
    { apply (ref_lt_mono n n1 addr LN1 La). }
    { rewrite (read_agree n env env1 Kl addr AG1 La). exact Ra. }
    { intros _. apply (span_ok_shape m m1 _ _ SH1). rewrite N2Z.inj_add.
      replace (base + (Z.of_N x + Z.of_N w)) with (base + Z.of_N x + Z.of_N w) by lia.
      apply (span_ok_sub m _ _ (Z.of_N w) _ SP); lia. }
    destruct (zero_emit addr r n1) as [[u2 c2] n2] eqn:Z2. cbn [fst snd] in *.
    exists env', m'. split; [rewrite exec_app, EX1; exact EX2|].
    split; [apply (agree_trans n n1 env env1 env' LN1 AG1 AG2)|].
    split; [eapply same_shape_trans; eassumption|].
    intros a. rewrite B2, B1. rewrite N2Z.inj_add. brk; reflexivity.
Qed.

(* ------------------------------------------------------------------ where the loop stops *)
(* every store starts below `end` and is at most min(align, 8) wide *)
Lemma zero_loop_stores : forall fuel A a x e acc st final,
  okalign A -> okalign a -> (a <= A)%N -> zero_loop fuel A a x e acc = ZDone st final ->
  exists st1, st = acc ++ st1 /\ Forall (fun s => (fst s < e /\ snd s <= A)%N) st1.
Proof.
  induction fuel as [|fuel IH]; intros A a x e acc st final HA Ha Hle Z; [discriminate|].
  cbn [zero_loop] in Z. destruct (okalign_facts A a HA Ha Hle) as (_ & _ & _ & Hdbl).
  assert (NEXT : okalign (if (a <? A)%N then (2 * a)%N else a) /\ ((if (a <? A)%N then (2 * a)%N else a) <= A)%N).
  { destruct (N.ltb_spec a A) as [L|L]; [destruct (Hdbl L) as (P & Q & _); split; assumption|split; assumption]. }
  destruct NEXT as [N1 N2].
  destruct (N.ltb_spec x e) as [Lt|Ge].
  - destruct (cond A x a).
    + destruct (IH _ _ _ _ _ _ _ HA N1 N2 Z) as (st1 & E & F).
      exists ((x, a) :: st1). split; [rewrite E, <- app_assoc; reflexivity|].
      constructor; [cbn [fst snd]; split; assumption|exact F].
    + apply (IH _ _ _ _ _ _ _ HA N1 N2 Z).
  - injection Z as <- <-. exists []. split; [rewrite app_nil_r; reflexivity|constructor].
Qed.

Lemma tiles_bound A e' : okalign A -> (e' mod A = 0)%N -> forall st x final,
  tiles st x final -> Forall store_ok st -> Forall (fun s => (fst s < e' /\ snd s <= A)%N) st ->
  (x <= e')%N -> (final <= e')%N.
Proof.
  intros HA HE. induction st as [|[o w] r IH]; intros x final T SO F X.
  - cbn in T. subst. exact X.
  - cbn [tiles] in T. destruct T as [-> T].
    inversion SO as [|? ? [OKW AL] SO']; subst. inversion F as [|? ? [LT WA] F']; subst. cbn [fst snd] in *.
    apply (IH (x + w)%N final T SO' F').
    destruct (store_index_cases w OKW) as [-> | [-> | [-> | ->]]]; destruct HA as [-> | [-> | [-> | ->]]]; lia.
Qed.

Lemma forallb_store_ok st : Forall store_ok st -> forallb (fun s => store_index_ok (snd s)) st = true.
Proof. induction 1 as [|s r [H _] _ IH]; [reflexivity|]. cbn [forallb]. rewrite H, IH. reflexivity. Qed.

(* ------------------------------------------------------------------ zero(), the emitted code *)
Theorem zero_bytes fo env m addr (n : positive) align offset e base :
  (exists k, align = 2 ^ k)%N -> ref_lt n addr -> read env Kl addr = Ok base ->
  exists g final,
    gzero addr align offset e = Some g /\
    ((offset < e)%N -> (e <= final < e + capalign align)%N) /\ ((e <= offset)%N -> final = offset) /\
    (forall e', (e <= e')%N -> (offset <= e')%N -> (e' mod capalign align = 0)%N -> (final <= e')%N) /\
    (((offset < final)%N -> span_ok m (base + Z.of_N offset) (Z.of_N final - Z.of_N offset)) ->
     exists env' m',
       exec fo (env, m) (snd (fst (g n))) = Ok (env', m') /\ agree_below n env env' /\ same_shape m m' /\
       (forall i, Z.of_N offset <= i < Z.of_N final -> byte_at m' (base + i) = Some 0) /\
       (forall a, ~ (base + Z.of_N offset <= a < base + Z.of_N final) -> byte_at m' a = byte_at m a)).
Proof.
  intros Hp La Ra. pose proof (capalign_ok align Hp) as HA.
  destruct (zero_spec align offset e Hp) as (st & final & Hz & Ht & Hs & Hr1 & Hr2).
  exists (zero_emit addr st), final. split; [unfold gzero; rewrite Hz, (forallb_store_ok st Hs); reflexivity|].
  split; [exact Hr1|]. split; [intros G; rewrite (Hr2 G) in Ht; cbn in Ht; symmetry; exact Ht|]. split.
  - intros e' E1 E2 E3. unfold zero in Hz.
    destruct (zero_loop_stores _ _ _ _ _ _ _ _ HA (or_introl eq_refl) ltac:(destruct HA as [-> | [-> | [-> | ->]]]; lia) Hz)
      as (st1 & E & F). cbn [app] in E. subst st1.
    apply (tiles_bound (capalign align) e' HA E3 st offset final Ht Hs); [|exact E2].
    eapply Forall_impl; [|exact F]. cbn beta. intros s [P Q]. split; [lia|exact Q].
  - intros SP.
    destruct (zero_emit_exec fo addr base st offset final env m n Ht Hs La Ra SP) as (env' & m' & EX & AG & SH & B).
    exists env', m'. split; [exact EX|]. split; [exact AG|]. split; [exact SH|]. split.
    + intros i I. rewrite B. brk; reflexivity.
    + intros a A. rewrite B. brk; reflexivity.
Qed.

(* when `end` is a multiple of min(align, 8): exactly [offset, end) *)
Corollary zero_bytes_exact fo env m addr (n : positive) align offset e base :
  (exists k, align = 2 ^ k)%N -> (offset <= e)%N -> (e mod capalign align = 0)%N ->
  ref_lt n addr -> read env Kl addr = Ok base ->
  ((offset < e)%N -> span_ok m (base + Z.of_N offset) (Z.of_N e - Z.of_N offset)) ->
  exists g env' m',
    gzero addr align offset e = Some g /\
    exec fo (env, m) (snd (fst (g n))) = Ok (env', m') /\ agree_below n env env' /\ same_shape m m' /\
    (forall i, Z.of_N offset <= i < Z.of_N e -> byte_at m' (base + i) = Some 0) /\
    (forall a, ~ (base + Z.of_N offset <= a < base + Z.of_N e) -> byte_at m' a = byte_at m a).
Proof.
  intros Hp LE ME La Ra SP.
  destruct (zero_bytes fo env m addr n align offset e base Hp La Ra) as (g & final & G & R1 & R2 & R3 & X).
  assert (final = e) as ->.
  { pose proof (R3 e (N.le_refl e) LE ME). destruct (N.ltb_spec offset e) as [L|L]; [specialize (R1 L); lia|specialize (R2 L); lia]. }
  destruct (X SP) as (env' & m' & H). exists g, env', m'. split; [exact G|exact H].
Qed.

(* ------------------------------------------------------------------ a concrete run *)
(* block 3 of LowerProofsCopyBytes.mem_cb (40 bytes), alignment 4, zero [5, 14): stores b@5 h@6 w@8 w@12, so the loop
   stops at 16 (overshoot to the next multiple of 4); bytes 5..15 become 0, bytes 4 and 16 keep their contents *)
Example zero_bytes_example :
  let env := PM.add 1%positive (Kl, BLK * 3) (PM.empty (cls * Z)) in
  zero 17 4 5 14 = ZDone [(5, 1); (6, 2); (8, 4); (12, 4)]%N 16%N /\
  span_ok mem_cb (BLK * 3 + 5) (16 - 5) /\
  exists g env' m',
    gzero (RTmp 1%positive) 4 5 14 = Some g /\
    exec fo_cb (env, mem_cb) (snd (fst (g 2%positive))) = Ok (env', m') /\
    map (fun i => byte_at m' (BLK * 3 + i)) [3;4; 5;6;7;8;9;10;11;12;13;14;15; 16;17; 40] =
      map Some [238;1; 0;0;0;0;0;0;0;0;0;0;0; 238;238] ++ [None] /\
    map (fun i => byte_at mem_cb (BLK * 3 + i)) [3;4; 5;6;7;8;9;10;11;12;13;14;15; 16;17; 40] =
      map Some [238;1; 2;3;4;5;6;7;8;9;10;11;255; 238;238] ++ [None].
Proof.
  cbv zeta. split; [vm_compute; reflexivity|].
  split; [span_tac 3%positive 5|].
  eexists _, _, _. split; [vm_compute; reflexivity|]. split; [vm_compute; reflexivity|]. vm_compute. split; reflexivity.
Qed.
