(* Proofs about Model/Map.v: for ANY hash function the table refines a finite map. *)
From Coq Require Import List NArith Arith Bool Lia.
From Cproc Require Import Model.Map.
Import ListNotations.

(* ------------------------------------------------------------------ arithmetic of indices *)

Lemma mask_mod (e : nat) (x : N) : mask (2 ^ e) x = N.to_nat x mod 2 ^ e.
Proof.
  unfold mask.
  assert (H : (N.of_nat (2 ^ e) - 1 = N.ones (N.of_nat e))%N).
  { rewrite N.ones_equiv, Nat2N.inj_pow. simpl. rewrite N.sub_1_r. reflexivity. }
  rewrite H, N.land_ones, N2Nat.inj_mod, N2Nat.inj_pow, Nat2N.id. reflexivity.
Qed.

Lemma pow2_pos e : 0 < 2 ^ e.
Proof. induction e; simpl; lia. Qed.

Section Idx.
  Variable c : nat.
  Hypothesis cpos : 0 < c.

  Lemma pos_lt hm d : (hm + d) mod c < c.
  Proof. apply Nat.mod_upper_bound; lia. Qed.

  Lemma pos_succ hm d : (S ((hm + d) mod c)) mod c = (hm + S d) mod c.
  Proof.
    replace (S ((hm + d) mod c)) with ((hm + d) mod c + 1) by lia.
    replace (hm + S d) with ((hm + d) + 1) by lia.
    rewrite Nat.add_mod_idemp_l by lia. reflexivity.
  Qed.

  Lemma pos_inj hm d1 d2 : d1 < c -> d2 < c -> (hm + d1) mod c = (hm + d2) mod c -> d1 = d2.
  Proof.
    intros H1 H2 E.
    assert (A1 := Nat.div_mod (hm + d1) c ltac:(lia)).
    assert (A2 := Nat.div_mod (hm + d2) c ltac:(lia)).
    rewrite E in A1.
    set (q1 := (hm + d1) / c) in *. set (q2 := (hm + d2) / c) in *.
    set (r := (hm + d2) mod c) in *.
    assert (q1 = q2 \/ q1 < q2 \/ q2 < q1) as [Q|[Q|Q]] by lia.
    - subst q1. rewrite Q in A1. lia.
    - assert (c * q1 + c <= c * q2) by nia. lia.
    - assert (c * q2 + c <= c * q1) by nia. lia.
  Qed.

  Lemma pos_surj hm j : hm < c -> j < c -> exists D, D < c /\ (hm + D) mod c = j.
  Proof.
    intros Hh Hj. destruct (le_lt_dec hm j) as [L|L].
    - exists (j - hm). split; [lia|]. replace (hm + (j - hm)) with j by lia. apply Nat.mod_small; lia.
    - exists (c - hm + j). split; [lia|]. replace (hm + (c - hm + j)) with (j + 1 * c) by lia.
      rewrite Nat.mod_add by lia. apply Nat.mod_small; lia.
  Qed.
End Idx.

(* ------------------------------------------------------------------ the table *)

Section MapProofs.
  Variable key : Type.
  Variable key_eqb : key -> key -> bool.
  Hypothesis key_eqb_spec : forall a b, key_eqb a b = true <-> a = b.
  Variable h : key -> N.

  Notation slot := (option (key * val)).
  Notation keyequal := (keyequal key key_eqb h).
  Notation probe := (probe key key_eqb h).
  Notation keyindex := (keyindex key key_eqb h).
  Notation home := (home key h).
  Notation mapput := (mapput key key_eqb h).
  Notation mapget := (mapget key key_eqb h).
  Notation rehash := (rehash key key_eqb h).
  Notation grow := (grow key key_eqb h).
  Notation step := (step key key_eqb h).
  Notation run := (run key key_eqb h).

  Lemma keyequal_spec a b : keyequal a b = true <-> a = b.
  Proof.
    unfold Map.keyequal. rewrite andb_true_iff, N.eqb_eq, key_eqb_spec.
    split; [tauto|]. intros ->; tauto.
  Qed.

  Lemma keyequal_false a b : keyequal a b = false <-> a <> b.
  Proof.
    destruct (keyequal a b) eqn:E.
    - apply keyequal_spec in E. split; [discriminate|tauto].
    - split; [|reflexivity]. intros _ Hab. apply keyequal_spec in Hab. congruence.
  Qed.

  Definition at_ (sl : list slot) (i : nat) : slot := nth i sl None.
  Definition occupied (sl : list slot) (i : nat) : Prop := at_ sl i <> None.
  Definition Mem (sl : list slot) (k : key) (v : val) : Prop := exists i, at_ sl i = Some (k, v).
  Definition absent (sl : list slot) (k : key) : Prop := forall i v, at_ sl i <> Some (k, v).

  Fixpoint count (sl : list slot) : nat :=
    match sl with [] => 0 | None :: t => count t | Some _ :: t => S (count t) end.

  Definition pow2cap (c : nat) : Prop := exists e, c = 2 ^ e /\ 2 <= e.

  Record Core (sl : list slot) (c : nat) : Prop := {
    core_pow : pow2cap c;
    core_len : length sl = c;
    core_nodup : forall i j k v v', at_ sl i = Some (k, v) -> at_ sl j = Some (k, v') -> i = j;
    core_path : forall j k v, at_ sl j = Some (k, v) ->
                exists d, d < c /\ j = (home c k + d) mod c /\
                          forall d', d' < d -> occupied sl ((home c k + d') mod c)
  }.

  Lemma pow2cap_pos c : pow2cap c -> 4 <= c.
  Proof.
    intros (e & -> & He). destruct e as [|[|e]]; try lia. simpl.
    pose proof (pow2_pos e). lia.
  Qed.

  Lemma home_lt c k : pow2cap c -> home c k < c.
  Proof.
    intros (e & -> & _). unfold Map.home. rewrite mask_mod.
    apply Nat.mod_upper_bound. pose proof (pow2_pos e); lia.
  Qed.

  Lemma next_spec c i : pow2cap c -> next c i = (S i) mod c.
  Proof.
    intros (e & -> & _). unfold next. rewrite mask_mod.
    f_equal. lia.
  Qed.

  Lemma at_lt sl i s : at_ sl i = Some s -> i < length sl.
  Proof.
    unfold at_. intros H. destruct (lt_dec i (length sl)); [assumption|].
    rewrite nth_overflow in H by lia. discriminate.
  Qed.

  (* --------------------------------------------------------------- upd *)

  Lemma upd_length {A} (l : list A) i x : length (upd l i x) = length l.
  Proof. revert i; induction l as [|a l IH]; intros [|i]; simpl; auto. Qed.

  Lemma at_upd_same sl i x : i < length sl -> at_ (upd sl i x) i = x.
  Proof.
    unfold at_. revert i; induction sl as [|a l IH]; intros [|i] H; simpl in *; try lia; auto.
    apply IH; lia.
  Qed.

  Lemma at_upd_other sl i j x : i <> j -> at_ (upd sl i x) j = at_ sl j.
  Proof.
    unfold at_. revert i j; induction sl as [|a l IH]; intros [|i] [|j] H; simpl; auto; try lia.
  Qed.

  Lemma count_upd_none sl i x : at_ sl i = None -> i < length sl ->
    count (upd sl i (Some x)) = S (count sl).
  Proof.
    unfold at_. revert i; induction sl as [|a l IH]; intros [|i] H L; simpl in *; try lia.
    - subst a. reflexivity.
    - destruct a; rewrite IH; auto; lia.
  Qed.

  Lemma count_upd_some sl i x y : at_ sl i = Some y ->
    count (upd sl i (Some x)) = count sl.
  Proof.
    unfold at_. revert i; induction sl as [|a l IH]; intros [|i] H; simpl in *; try discriminate.
    - subst a. reflexivity.
    - destruct a; rewrite IH; auto.
  Qed.

  Lemma count_le sl : count sl <= length sl.
  Proof. induction sl as [|[x|] l IH]; simpl; lia. Qed.

  Lemma count_full sl : count sl = length sl -> forall i, i < length sl -> at_ sl i <> None.
  Proof.
    unfold at_. induction sl as [|[x|] l IH]; simpl; intros H i L; try lia.
    - destruct i; [discriminate|]. apply IH; lia.
    - pose proof (count_le l). lia.
  Qed.

  Lemma exists_empty sl : count sl < length sl -> exists i, i < length sl /\ at_ sl i = None.
  Proof.
    unfold at_. induction sl as [|[x|] l IH]; simpl; intros H; try lia.
    - destruct IH as (i & Li & Hi); [lia|]. exists (S i). split; [lia|assumption].
    - exists 0. split; [lia|reflexivity].
  Qed.

  Lemma count_repeat_none n : count (repeat None n) = 0.
  Proof. induction n; simpl; auto. Qed.

  Lemma at_repeat_none n i : at_ (repeat None n) i = None.
  Proof.
    unfold at_. revert i; induction n; intros [|i]; simpl; auto.
  Qed.

  (* --------------------------------------------------------------- probing *)

  (* walking along the probe path while every slot is occupied by another key *)
  Lemma probe_walk sl c k hm : pow2cap c -> forall n d fuel,
    (forall d', d <= d' < d + n -> exists k' v', at_ sl ((hm + d') mod c) = Some (k', v') /\ k' <> k) ->
    probe sl c (n + fuel) ((hm + d) mod c) k = probe sl c fuel ((hm + d + n) mod c) k.
  Proof.
    intros Hc. pose proof (pow2cap_pos c Hc) as Hpos.
    induction n as [|n IH]; intros d fuel Hocc.
    - simpl. f_equal. f_equal. lia.
    - cbn [Nat.add Map.probe]. destruct (Hocc d ltac:(lia)) as (k' & v' & Hat & Hne).
      unfold at_ in Hat. rewrite Hat.
      apply keyequal_false in Hne. rewrite Hne.
      rewrite next_spec by assumption. rewrite pos_succ by lia.
      replace (hm + S d) with (hm + (S d)) by lia.
      rewrite IH.
      + f_equal. f_equal. lia.
      + intros d' Hd'. apply Hocc. lia.
  Qed.

  Lemma least_or_none (P : nat -> Prop) (dec : forall d, {P d} + {~ P d}) : forall n,
    (exists m, m < n /\ P m /\ forall d, d < m -> ~ P d) \/ (forall d, d < n -> ~ P d).
  Proof.
    induction n as [|n [(m & Lm & Pm & Hm)|Hn]].
    - right. intros d Hd. lia.
    - left. exists m. split; [lia|]. split; assumption.
    - destruct (dec n) as [Pn|Nn].
      + left. exists n. split; [lia|]. split; assumption.
      + right. intros d Hd. destruct (Nat.eq_dec d n) as [->|Hne]; [assumption|]. apply Hn. lia.
  Qed.

  Definition stop_at (sl : list slot) (k : key) (i : nat) : Prop :=
    at_ sl i = None \/ exists v, at_ sl i = Some (k, v).

  Lemma stop_dec sl k i : {stop_at sl k i} + {~ stop_at sl k i}.
  Proof.
    unfold stop_at. destruct (at_ sl i) as [[k' v']|] eqn:E.
    - destruct (key_eqb k' k) eqn:Ek.
      + left. right. apply key_eqb_spec in Ek. subst. eauto.
      + right. intros [H|[v H]]; [discriminate|]. inversion H; subst.
        assert (key_eqb k k = true) by (apply key_eqb_spec; reflexivity). congruence.
    - left. left. reflexivity.
  Qed.

  Lemma not_stop sl k i : ~ stop_at sl k i -> exists k' v', at_ sl i = Some (k', v') /\ k' <> k.
  Proof.
    unfold stop_at. intros H. destruct (at_ sl i) as [[k' v']|] eqn:E.
    - exists k', v'. split; [reflexivity|]. intros ->. apply H. right. eauto.
    - exfalso. apply H. left. reflexivity.
  Qed.

  Lemma first_stop sl c (k : key) hm : length sl = c -> 0 < c -> hm < c -> count sl < c ->
    exists D, D < c /\ stop_at sl k ((hm + D) mod c) /\
      forall d', d' < D -> exists k' v', at_ sl ((hm + d') mod c) = Some (k', v') /\ k' <> k.
  Proof.
    intros Hl Hpos Hh Hcnt.
    destruct (exists_empty sl ltac:(lia)) as (j & Lj & Hj).
    destruct (pos_surj c Hpos hm j Hh ltac:(lia)) as (D0 & LD0 & ED0).
    destruct (least_or_none (fun d => stop_at sl k ((hm + d) mod c)) (fun d => stop_dec sl k _) (S D0))
      as [(m & Lm & Pm & Hm)|Hn].
    - exists m. split; [lia|]. split; [exact Pm|]. intros d' Hd'. apply not_stop. apply Hm. exact Hd'.
    - exfalso. apply (Hn D0 ltac:(lia)). left. rewrite ED0. exact Hj.
  Qed.

  (* --------------------------------------------------------------- keyindex *)

  Lemma keyindex_stop sl c k : Core sl c -> count sl < c ->
    exists D, D < c /\ stop_at sl k ((home c k + D) mod c) /\
      (forall d', d' < D -> exists k' v', at_ sl ((home c k + d') mod c) = Some (k', v') /\ k' <> k) /\
      keyindex sl c k = match at_ sl ((home c k + D) mod c) with
                        | None => Empty ((home c k + D) mod c)
                        | Some _ => Found ((home c k + D) mod c)
                        end.
  Proof.
    intros HC Hcnt. pose proof (core_pow _ _ HC) as Hp. pose proof (pow2cap_pos _ Hp) as Hpos.
    destruct (first_stop sl c k (home c k) (core_len _ _ HC) ltac:(lia) (home_lt c k Hp) Hcnt)
      as (D & LD & Hstop & Hbefore).
    exists D. split; [exact LD|]. split; [exact Hstop|]. split; [exact Hbefore|].
    unfold Map.keyindex.
    assert (W := probe_walk sl c k (home c k) Hp D 0 (c - D)).
    rewrite Nat.add_0_r in W. rewrite (Nat.mod_small (home c k) c) in W by (apply home_lt; assumption).
    replace (D + (c - D)) with c in W by lia.
    rewrite W.
    - destruct (c - D) as [|f] eqn:Ef; [lia|].
      cbn [Map.probe]. destruct Hstop as [Hs|[v Hs]]; unfold at_ in Hs |- *; rewrite Hs.
      + reflexivity.
      + assert (E : keyequal k k = true) by (apply keyequal_spec; reflexivity). rewrite E. reflexivity.
    - intros d' Hd'. apply Hbefore. lia.
  Qed.

  Lemma keyindex_present sl c k v j : Core sl c -> count sl < c -> at_ sl j = Some (k, v) ->
    keyindex sl c k = Found j.
  Proof.
    intros HC Hcnt Hat.
    destruct (keyindex_stop sl c k HC Hcnt) as (D & LD & Hstop & Hbefore & Hki).
    destruct (core_path _ _ HC j k v Hat) as (d & Ld & Ej & Hocc).
    assert (Hpos : 0 < c) by (pose proof (pow2cap_pos _ (core_pow _ _ HC)); lia).
    assert (D = d).
    { destruct (lt_eq_lt_dec D d) as [[L|E]|L]; [|exact E|].
      - (* stop before d: the slot is occupied (path), so it holds k: contradicts uniqueness *)
        exfalso. destruct Hstop as [Hs|[v2 Hs]].
        + apply (Hocc D L). exact Hs.
        + pose proof (core_nodup _ _ HC _ _ _ _ _ Hs Hat) as E. rewrite Ej in E.
          apply pos_inj in E; lia.
      - exfalso. destruct (Hbefore d L) as (k' & v' & Hat' & Hne). rewrite <- Ej in Hat'.
        rewrite Hat in Hat'. inversion Hat'; subst. congruence. }
    subst D. rewrite Hki. rewrite <- Ej. rewrite Hat. reflexivity.
  Qed.

  Lemma keyindex_absent sl c k : Core sl c -> count sl < c -> absent sl k ->
    exists D, D < c /\ keyindex sl c k = Empty ((home c k + D) mod c) /\
      at_ sl ((home c k + D) mod c) = None /\
      forall d', d' < D -> occupied sl ((home c k + d') mod c).
  Proof.
    intros HC Hcnt Habs.
    destruct (keyindex_stop sl c k HC Hcnt) as (D & LD & Hstop & Hbefore & Hki).
    exists D. split; [exact LD|].
    destruct Hstop as [Hs|[v Hs]]; [|exfalso; exact (Habs _ _ Hs)].
    rewrite Hki, Hs. split; [reflexivity|]. split; [reflexivity|].
    intros d' Hd'. destruct (Hbefore d' Hd') as (k' & v' & Hat & _). unfold occupied. rewrite Hat. discriminate.
  Qed.

  Lemma absent_or_mem sl k : absent sl k \/ exists j v, at_ sl j = Some (k, v).
  Proof.
    unfold absent, at_. induction sl as [|s l IH].
    - left. intros [|i] v; simpl; discriminate.
    - destruct IH as [IH|(j & v & Hj)].
      + destruct s as [[k' v']|].
        * destruct (key_eqb k' k) eqn:E.
          -- apply key_eqb_spec in E. subst. right. exists 0, v'. reflexivity.
          -- left. intros [|i] v; simpl; [|apply IH]. intros H. inversion H; subst.
             assert (key_eqb k k = true) by (apply key_eqb_spec; reflexivity). congruence.
        * left. intros [|i] v; simpl; [discriminate|apply IH].
      + right. exists (S j), v. exact Hj.
  Qed.

  (* --------------------------------------------------------------- insertion at the probed slot *)

  Lemma insert_core sl c k v D : Core sl c -> absent sl k -> D < c ->
    at_ sl ((home c k + D) mod c) = None ->
    (forall d', d' < D -> occupied sl ((home c k + d') mod c)) ->
    Core (upd sl ((home c k + D) mod c) (Some (k, v))) c.
  Proof.
    intros HC Habs LD Hnone Hocc.
    assert (Hpos : 0 < c) by (pose proof (pow2cap_pos _ (core_pow _ _ HC)); lia).
    set (e := (home c k + D) mod c) in *.
    assert (Le : e < length sl) by (rewrite (core_len _ _ HC); apply pos_lt; exact Hpos).
    constructor.
    - exact (core_pow _ _ HC).
    - rewrite upd_length. exact (core_len _ _ HC).
    - intros i j k0 v0 v0' Hi Hj.
      destruct (Nat.eq_dec e i) as [Ei|Ei]; destruct (Nat.eq_dec e j) as [Ej|Ej]; try congruence.
      + subst i. rewrite at_upd_same in Hi by exact Le. inversion Hi; subst.
        rewrite at_upd_other in Hj by exact Ej. exfalso. exact (Habs _ _ Hj).
      + subst j. rewrite at_upd_same in Hj by exact Le. inversion Hj; subst.
        rewrite at_upd_other in Hi by exact Ei. exfalso. exact (Habs _ _ Hi).
      + rewrite at_upd_other in Hi, Hj by assumption. exact (core_nodup _ _ HC _ _ _ _ _ Hi Hj).
    - intros j k0 v0 Hj. destruct (Nat.eq_dec e j) as [Ej|Ej].
      + subst j. rewrite at_upd_same in Hj by exact Le. inversion Hj; subst.
        exists D. split; [exact LD|]. split; [reflexivity|].
        intros d' Hd'. unfold occupied. destruct (Nat.eq_dec e ((home c k0 + d') mod c)) as [E|E].
        * rewrite <- E. rewrite at_upd_same by exact Le. discriminate.
        * rewrite at_upd_other by exact E. apply Hocc. exact Hd'.
      + rewrite at_upd_other in Hj by exact Ej.
        destruct (core_path _ _ HC _ _ _ Hj) as (d & Ld & Ed & Hd).
        exists d. split; [exact Ld|]. split; [exact Ed|].
        intros d' Hd'. unfold occupied. destruct (Nat.eq_dec e ((home c k0 + d') mod c)) as [E|E].
        * rewrite <- E. rewrite at_upd_same by exact Le. discriminate.
        * rewrite at_upd_other by exact E. apply Hd. exact Hd'.
  Qed.

  Lemma setval_core sl c i k v v' : Core sl c -> at_ sl i = Some (k, v) ->
    Core (upd sl i (Some (k, v'))) c.
  Proof.
    intros HC Hat. pose proof (at_lt _ _ _ Hat) as Li.
    assert (Hkey : forall j k0 v0, at_ (upd sl i (Some (k, v'))) j = Some (k0, v0) ->
                   exists v1, at_ sl j = Some (k0, v1)).
    { intros j k0 v0 Hj. destruct (Nat.eq_dec i j) as [E|E].
      - subst j. rewrite at_upd_same in Hj by exact Li. inversion Hj; subst. eauto.
      - rewrite at_upd_other in Hj by exact E. eauto. }
    assert (Hoccu : forall j, occupied sl j -> occupied (upd sl i (Some (k, v'))) j).
    { intros j Hj. unfold occupied in *. destruct (Nat.eq_dec i j) as [E|E].
      - subst j. rewrite at_upd_same by exact Li. discriminate.
      - rewrite at_upd_other by exact E. exact Hj. }
    constructor.
    - exact (core_pow _ _ HC).
    - rewrite upd_length. exact (core_len _ _ HC).
    - intros a b k0 v0 v0' Ha Hb.
      destruct (Hkey _ _ _ Ha) as (va & Ha'). destruct (Hkey _ _ _ Hb) as (vb & Hb').
      exact (core_nodup _ _ HC _ _ _ _ _ Ha' Hb').
    - intros j k0 v0 Hj. destruct (Hkey _ _ _ Hj) as (v1 & Hj').
      destruct (core_path _ _ HC _ _ _ Hj') as (d & Ld & Ed & Hd).
      exists d. split; [exact Ld|]. split; [exact Ed|]. intros d' Hd'. apply Hoccu. apply Hd. exact Hd'.
  Qed.

  Lemma core_empty c : pow2cap c -> Core (repeat None c) c.
  Proof.
    intros Hp. constructor.
    - exact Hp.
    - apply repeat_length.
    - intros i j k v v' Hi. rewrite at_repeat_none in Hi. discriminate.
    - intros j k v Hj. rewrite at_repeat_none in Hj. discriminate.
  Qed.

  (* --------------------------------------------------------------- membership under upd *)

  Lemma mem_upd_new sl e k v k0 v0 : e < length sl -> at_ sl e = None ->
    (Mem (upd sl e (Some (k, v))) k0 v0 <-> Mem sl k0 v0 \/ (k0 = k /\ v0 = v)).
  Proof.
    intros Le Hnone. unfold Mem. split.
    - intros (i & Hi). destruct (Nat.eq_dec e i) as [E|E].
      + subst i. rewrite at_upd_same in Hi by exact Le. inversion Hi; subst. right. tauto.
      + rewrite at_upd_other in Hi by exact E. left. eauto.
    - intros [(i & Hi)|(-> & ->)].
      + exists i. rewrite at_upd_other; [exact Hi|]. intros ->. congruence.
      + exists e. apply at_upd_same. exact Le.
  Qed.

  Lemma absent_upd sl e k v k0 : k0 <> k -> absent sl k0 -> absent (upd sl e (Some (k, v))) k0.
  Proof.
    intros Hne Habs i v0 Hi. destruct (Nat.eq_dec e i) as [E|E].
    - subst i. destruct (lt_dec e (length sl)) as [L|L].
      + rewrite at_upd_same in Hi by exact L. inversion Hi; subst. congruence.
      + pose proof (at_lt _ _ _ Hi) as L'. rewrite upd_length in L'. lia.
    - rewrite at_upd_other in Hi by exact E. exact (Habs _ _ Hi).
  Qed.

  (* --------------------------------------------------------------- growth *)

  Definition nodup_list (l : list slot) : Prop :=
    forall i j k v v', at_ l i = Some (k, v) -> at_ l j = Some (k, v') -> i = j.

  Lemma rehash_spec old : forall sl c,
    Core sl c -> count sl + count old < c -> nodup_list old ->
    (forall k v, Mem old k v -> absent sl k) ->
    exists sl', rehash old sl c = Some sl' /\ Core sl' c /\ count sl' = count sl + count old /\
      forall k v, Mem sl' k v <-> Mem sl k v \/ Mem old k v.
  Proof.
    induction old as [|s t IH]; intros sl c HC Hcnt Hnd Hdisj.
    - exists sl. simpl. split; [reflexivity|]. split; [exact HC|]. split; [lia|].
      intros k v. split; [tauto|]. intros [H|(i & Hi)]; [exact H|]. unfold at_ in Hi. destruct i; discriminate.
    - assert (Hnd_t : nodup_list t).
      { intros i j k v v' Hi Hj. assert (S i = S j) by (apply (Hnd (S i) (S j) k v v'); assumption). lia. }
      assert (Hmem_t : forall k v, Mem t k v -> Mem (s :: t) k v).
      { intros k v (i & Hi). exists (S i). exact Hi. }
      destruct s as [[k v]|].
      + assert (Habs : absent sl k) by (apply (Hdisj k v); exists 0; reflexivity).
        simpl in Hcnt.
        destruct (keyindex_absent sl c k HC ltac:(lia) Habs) as (D & LD & Hki & Hnone & Hocc).
        cbn [Map.rehash]. rewrite Hki.
        set (e := (home c k + D) mod c) in *.
        assert (Hpos : 0 < c) by (pose proof (pow2cap_pos _ (core_pow _ _ HC)); lia).
        assert (Le : e < length sl) by (rewrite (core_len _ _ HC); apply pos_lt; exact Hpos).
        destruct (IH (upd sl e (Some (k, v))) c) as (sl' & Hr & HC' & Hc' & Hm').
        * apply insert_core; assumption.
        * rewrite count_upd_none by assumption. lia.
        * exact Hnd_t.
        * intros k0 v0 Hk0. apply absent_upd.
          -- intros ->. destruct Hk0 as (i & Hi).
             assert (S i = 0) by (apply (Hnd (S i) 0 k v0 v); [exact Hi|reflexivity]). lia.
          -- apply (Hdisj k0 v0). apply Hmem_t. exact Hk0.
        * exists sl'. split; [exact Hr|]. split; [exact HC'|]. split.
          -- rewrite Hc'. rewrite count_upd_none by assumption. simpl. lia.
          -- intros k0 v0. rewrite Hm'. rewrite mem_upd_new by assumption. split.
             ++ intros [[H|(-> & ->)]|H]; [left; exact H|right; exists 0; reflexivity|right; apply Hmem_t; exact H].
             ++ intros [H|(i & Hi)]; [left; left; exact H|]. destruct i as [|i].
                ** unfold at_ in Hi. simpl in Hi. inversion Hi; subst. left. right. tauto.
                ** right. exists i. exact Hi.
      + cbn [Map.rehash]. simpl in Hcnt.
        destruct (IH sl c HC Hcnt Hnd_t) as (sl' & Hr & HC' & Hc' & Hm').
        * intros k0 v0 Hk0. apply (Hdisj k0 v0). apply Hmem_t. exact Hk0.
        * exists sl'. split; [exact Hr|]. split; [exact HC'|]. split; [simpl; exact Hc'|].
          intros k0 v0. rewrite Hm'. split.
          -- intros [H|H]; [left; exact H|right; apply Hmem_t; exact H].
          -- intros [H|(i & Hi)]; [left; exact H|]. destruct i as [|i].
             ++ unfold at_ in Hi. simpl in Hi. discriminate.
             ++ right. exists i. exact Hi.
  Qed.

  (* --------------------------------------------------------------- the table invariant *)

  Record Inv (m : map key) : Prop := {
    inv_core : Core (slots m) (cap m);
    inv_len : len m = count (slots m);
    inv_load : 2 * len m <= cap m + 2
  }.

  Lemma pow2cap_double c : pow2cap c -> pow2cap (2 * c).
  Proof. intros (e & -> & He). exists (S e). split; [simpl; lia|lia]. Qed.

  Lemma pow2cap_even c : pow2cap c -> 2 * (c / 2) = c.
  Proof.
    intros (e & -> & He). destruct e as [|e]; [lia|].
    replace (2 ^ S e) with (2 ^ e * 2) by (simpl; lia). rewrite Nat.div_mul by lia. lia.
  Qed.

  Lemma inv_count_lt m : Inv m -> count (slots m) < cap m.
  Proof.
    intros [HC Hl Hload]. pose proof (pow2cap_pos _ (core_pow _ _ HC)). lia.
  Qed.

  Lemma grow_spec m : Inv m ->
    exists m', grow m = Some m' /\ Core (slots m') (cap m') /\ len m' = count (slots m') /\
      2 * len m' <= cap m' /\ len m' = len m /\
      (cap m' = cap m \/ cap m' = 2 * cap m) /\
      forall k v, Mem (slots m') k v <-> Mem (slots m) k v.
  Proof.
    intros HI. destruct HI as [HC Hl Hload]. pose proof (core_pow _ _ HC) as Hp.
    pose proof (pow2cap_pos _ Hp) as Hpos. pose proof (pow2cap_even _ Hp) as Hev.
    unfold Map.grow. destruct (Nat.ltb_spec (cap m / 2) (len m)) as [L|L].
    - destruct (rehash_spec (slots m) (repeat None (2 * cap m)) (2 * cap m)) as (sl' & Hr & HC' & Hc' & Hm').
      + apply core_empty. apply pow2cap_double. exact Hp.
      + rewrite count_repeat_none. lia.
      + exact (core_nodup _ _ HC).
      + intros k v _ i v0 Hi. rewrite at_repeat_none in Hi. discriminate.
      + rewrite Hr. eexists. split; [reflexivity|]. cbn [cap slots len].
        rewrite count_repeat_none in Hc'. simpl in Hc'.
        split; [exact HC'|]. split; [lia|]. split; [lia|]. split; [reflexivity|]. split; [right; reflexivity|].
        intros k v. rewrite Hm'. split; [|tauto]. intros [(i & Hi)|H]; [|exact H].
        rewrite at_repeat_none in Hi. discriminate.
    - exists m. split; [reflexivity|]. split; [exact HC|]. split; [exact Hl|]. split; [lia|].
      split; [reflexivity|]. split; [left; reflexivity|]. tauto.
  Qed.

  (* what mapput returns *)
  Lemma mapput_spec m k : Inv m ->
    exists m' i, mapput m k = Some (m', i) /\ Inv m' /\
      (exists v, at_ (slots m') i = Some (k, v) /\
         ((absent (slots m) k /\ v = 0%N /\ len m' = S (len m)) \/ (Mem (slots m) k v /\ len m' = len m))) /\
      forall k0 v0, k0 <> k -> (Mem (slots m') k0 v0 <-> Mem (slots m) k0 v0).
  Proof.
    intros HI. destruct (grow_spec m HI) as (m1 & Hg & HC1 & Hl1 & Hload1 & Hlen1 & Hcap1 & Hm1).
    unfold Map.mapput. rewrite Hg.
    pose proof (pow2cap_pos _ (core_pow _ _ HC1)) as Hpos.
    assert (Hcnt : count (slots m1) < cap m1) by lia.
    destruct (absent_or_mem (slots m1) k) as [Habs|(j & v & Hj)].
    - destruct (keyindex_absent _ _ k HC1 Hcnt Habs) as (D & LD & Hki & Hnone & Hocc).
      rewrite Hki. set (e := (home (cap m1) k + D) mod cap m1) in *.
      assert (Le : e < length (slots m1)) by (rewrite (core_len _ _ HC1); apply pos_lt; lia).
      eexists. exists e. split; [reflexivity|]. split; [|split].
      + constructor; cbn [cap slots len].
        * apply insert_core; assumption.
        * rewrite count_upd_none by assumption. lia.
        * lia.
      + exists 0%N. cbn [slots len]. split; [apply at_upd_same; exact Le|]. left.
        split; [|split; [reflexivity|lia]].
        intros i v Hi. apply (Habs i v). destruct (Hm1 k v) as [_ H]. destruct (H (ex_intro _ i Hi)) as (i' & Hi').
        exfalso. exact (Habs _ _ Hi').
      + intros k0 v0 Hne. cbn [slots]. rewrite mem_upd_new by assumption. rewrite <- Hm1. split; [|tauto].
        intros [H|(-> & _)]; [exact H|congruence].
    - rewrite (keyindex_present _ _ k v j HC1 Hcnt Hj).
      exists m1, j. split; [reflexivity|]. split; [|split].
      + constructor; [exact HC1|exact Hl1|lia].
      + exists v. split; [exact Hj|]. right. split; [|lia]. apply Hm1. exists j. exact Hj.
      + intros k0 v0 _. apply Hm1.
  Qed.

  Lemma setval_spec m i k v v' : Inv m -> at_ (slots m) i = Some (k, v) ->
    Inv (setval key m i v') /\ Mem (slots (setval key m i v')) k v' /\
    forall k0 v0, k0 <> k -> (Mem (slots (setval key m i v')) k0 v0 <-> Mem (slots m) k0 v0).
  Proof.
    intros [HC Hl Hload] Hat. unfold setval. unfold at_ in Hat. rewrite Hat. fold (at_ (slots m) i) in Hat.
    pose proof (at_lt _ _ _ Hat) as Li. cbn [slots cap len].
    split; [|split].
    - constructor; cbn [slots cap len].
      + eapply setval_core; eassumption.
      + rewrite (count_upd_some _ _ _ _ Hat). exact Hl.
      + exact Hload.
    - exists i. apply at_upd_same. exact Li.
    - intros k0 v0 Hne. unfold Mem. split; intros (j & Hj).
      + destruct (Nat.eq_dec i j) as [E|E].
        * subst j. rewrite at_upd_same in Hj by exact Li. inversion Hj; subst. congruence.
        * rewrite at_upd_other in Hj by exact E. eauto.
      + exists j. rewrite at_upd_other; [exact Hj|]. intros ->. rewrite Hat in Hj. inversion Hj; subst. congruence.
  Qed.

  (* --------------------------------------------------------------- refinement of a finite map *)

  Definition fmap := key -> val.
  Definition fempty : fmap := fun _ => 0%N.
  Definition fupd (f : fmap) (k : key) (v : val) : fmap := fun k' => if key_eqb k' k then v else f k'.

  Definition spec_step (f : fmap) (o : op key) : fmap :=
    match o with OpPut k v => fupd f k v | OpTouch _ => f end.
  Definition spec_run (ops : list (op key)) : fmap := fold_left spec_step ops fempty.

  Definition Rep (m : map key) (f : fmap) : Prop :=
    (forall k v, Mem (slots m) k v -> f k = v) /\ (forall k, absent (slots m) k -> f k = 0%N).

  Lemma key_eqb_refl k : key_eqb k k = true.
  Proof. apply key_eqb_spec. reflexivity. Qed.

  Lemma key_eqb_neq a b : a <> b -> key_eqb a b = false.
  Proof. intros H. destruct (key_eqb a b) eqn:E; [|reflexivity]. apply key_eqb_spec in E. congruence. Qed.

  Lemma mem_unique m k v v' : Inv m -> Mem (slots m) k v -> Mem (slots m) k v' -> v = v'.
  Proof.
    intros [HC _ _] (i & Hi) (j & Hj). pose proof (core_nodup _ _ HC _ _ _ _ _ Hi Hj). subst j.
    rewrite Hi in Hj. inversion Hj. reflexivity.
  Qed.

  Lemma mapget_rep m f k : Inv m -> Rep m f -> mapget m k = Some (f k).
  Proof.
    intros HI [Hmem Habs]. pose proof (inv_count_lt m HI) as Hcnt. pose proof (inv_core _ HI) as HC.
    unfold Map.mapget. destruct (absent_or_mem (slots m) k) as [Ha|(j & v & Hj)].
    - destruct (keyindex_absent _ _ k HC Hcnt Ha) as (D & _ & Hki & _ & _). rewrite Hki.
      rewrite (Habs k Ha). reflexivity.
    - rewrite (keyindex_present _ _ k v j HC Hcnt Hj). unfold at_ in Hj. rewrite Hj.
      f_equal. symmetry. apply Hmem. exists j. exact Hj.
  Qed.

  Lemma step_refines m f o : Inv m -> Rep m f ->
    exists m', step (Some m) o = Some m' /\ Inv m' /\ Rep m' (spec_step f o).
  Proof.
    intros HI [Hmem Habs]. destruct o as [k v|k]; cbn [Map.step spec_step].
    - destruct (mapput_spec m k HI) as (m1 & i & Hput & HI1 & (v1 & Hat & _) & Hother).
      rewrite Hput. destruct (setval_spec m1 i k v1 v HI1 Hat) as (HI2 & Hk & Hother2).
      eexists. split; [reflexivity|]. split; [exact HI2|]. split.
      + intros k0 v0 Hk0. unfold fupd. destruct (key_eqb k0 k) eqn:E.
        * apply key_eqb_spec in E. subst k0. exact (mem_unique _ _ _ _ HI2 Hk Hk0).
        * assert (Hne : k0 <> k) by (intros ->; rewrite key_eqb_refl in E; discriminate).
          apply Hmem. apply Hother; [exact Hne|]. apply Hother2; assumption.
      + intros k0 Ha. unfold fupd. destruct (key_eqb k0 k) eqn:E.
        * apply key_eqb_spec in E. subst k0. destruct Hk as (j & Hj). exfalso. exact (Ha _ _ Hj).
        * assert (Hne : k0 <> k) by (intros ->; rewrite key_eqb_refl in E; discriminate).
          apply Habs. intros j v0 Hj. assert (M : Mem (slots m) k0 v0) by (exists j; exact Hj).
          apply Hother in M; [|exact Hne]. apply Hother2 in M; [|exact Hne]. destruct M as (j' & Hj').
          exact (Ha _ _ Hj').
    - destruct (mapput_spec m k HI) as (m1 & i & Hput & HI1 & (v1 & Hat & Hcase) & Hother).
      rewrite Hput. exists m1. split; [reflexivity|]. split; [exact HI1|]. split.
      + intros k0 v0 Hk0. destruct (stop_dec [Some (k0, v0)] k 0) as [_|_].
        destruct (absent_or_mem [Some (k, 0%N)] k0) as [Hne|(j & vj & Hj)].
        * assert (k0 <> k). { intros ->. apply (Hne 0 0%N). reflexivity. }
          apply Hmem. apply Hother; assumption.
        * destruct j as [|[|j]]; unfold at_ in Hj; simpl in Hj; try discriminate. inversion Hj; subst.
          assert (v0 = v1) by (eapply mem_unique; [exact HI1|exact Hk0|exists i; exact Hat]). subst v0.
          destruct Hcase as [(Ha & -> & _)|(Hm & _)]; [apply Habs; exact Ha|apply Hmem; exact Hm].
        * destruct (absent_or_mem [Some (k, 0%N)] k0) as [Hne|(j & vj & Hj)].
          -- assert (k0 <> k). { intros ->. apply (Hne 0 0%N). reflexivity. }
             apply Hmem. apply Hother; assumption.
          -- destruct j as [|[|j]]; unfold at_ in Hj; simpl in Hj; try discriminate. inversion Hj; subst.
             assert (v0 = v1) by (eapply mem_unique; [exact HI1|exact Hk0|exists i; exact Hat]). subst v0.
             destruct Hcase as [(Ha & -> & _)|(Hm & _)]; [apply Habs; exact Ha|apply Hmem; exact Hm].
      + intros k0 Ha. apply Habs. intros j v0 Hj.
        assert (k0 <> k). { intros ->. exact (Ha _ _ Hat). }
        assert (M : Mem (slots m) k0 v0) by (exists j; exact Hj).
        apply Hother in M; [|assumption]. destruct M as (j' & Hj'). exact (Ha _ _ Hj').
  Qed.

  Lemma run_from ops : forall m f, Inv m -> Rep m f ->
    exists m', fold_left step ops (Some m) = Some m' /\ Inv m' /\ Rep m' (fold_left spec_step ops f).
  Proof.
    induction ops as [|o ops IH]; intros m f HI HR.
    - exists m. simpl. auto.
    - cbn [fold_left]. destruct (step_refines m f o HI HR) as (m1 & Hs & HI1 & HR1).
      rewrite Hs. apply IH; assumption.
  Qed.

  Lemma mapinit_inv c : pow2cap c -> Inv (mapinit key c) /\ Rep (mapinit key c) fempty.
  Proof.
    intros Hp. split.
    - constructor; cbn [mapinit cap slots len].
      + apply core_empty. exact Hp.
      + rewrite count_repeat_none. reflexivity.
      + lia.
    - split; cbn [mapinit slots].
      + intros k v (i & Hi). rewrite at_repeat_none in Hi. discriminate.
      + reflexivity.
  Qed.

  (* The headline: for every history and every hash function the table behaves as a finite map,
     the probe loops never run out of fuel (= they terminate within cap steps), and the
     invariant (power-of-two capacity, load factor, distinct keys, unbroken probe paths) holds. *)
  Theorem map_refines c ops : pow2cap c ->
    exists m, run c ops = Some m /\ Inv m /\ forall k, mapget m k = Some (spec_run ops k).
  Proof.
    intros Hp. destruct (mapinit_inv c Hp) as [HI HR].
    destruct (run_from ops _ _ HI HR) as (m & Hrun & HIm & HRm).
    exists m. split; [exact Hrun|]. split; [exact HIm|]. intros k. apply mapget_rep; assumption.
  Qed.

  Theorem probe_terminates m k : Inv m -> keyindex (slots m) (cap m) k <> OutOfFuel.
  Proof.
    intros HI. pose proof (inv_count_lt m HI) as Hcnt. pose proof (inv_core _ HI) as HC.
    destruct (keyindex_stop _ _ k HC Hcnt) as (D & _ & _ & _ & Hki). rewrite Hki.
    destruct (at_ _ _); discriminate.
  Qed.

  Theorem load_inv c ops m : pow2cap c -> run c ops = Some m ->
    2 * len m <= cap m + 2 /\ len m < cap m /\ len m = count (slots m) /\ pow2cap (cap m).
  Proof.
    intros Hp Hrun. destruct (map_refines c ops Hp) as (m' & Hrun' & HI & _).
    rewrite Hrun in Hrun'. inversion Hrun'; subst m'.
    pose proof (inv_count_lt m HI). destruct HI as [HC Hl Hload].
    split; [exact Hload|]. split; [lia|]. split; [exact Hl|]. exact (core_pow _ _ HC).
  Qed.
End MapProofs.
