(* C06 - typemember / __builtin_offsetof: the member found through anonymous struct/union members
   is the first one of that name in declaration order, and the offset is the sum of the offsets on the way. *)
From Coq Require Import ZArith List Bool Lia.
From Cproc Require Import Model.Layout Spec.AbiLayout Proofs.LayoutArith.
Import ListNotations.
Open Scope Z_scope.
#[local] Arguments Z.add : simpl never.
#[local] Arguments Z.modulo : simpl never.
#[local] Arguments Z.eqb : simpl never.

Definition shift (d : Z) (e : Z * Z * (Z * Z) * cty) : Z * Z * (Z * Z) * cty :=
  let '(n, o, b, m) := e in (n, d + o, b, m).

Lemma fields_shift : forall t base, fields t base = map (shift base) (fields t 0).
Proof.
  fix IH 1. intros t base. destruct t as [s|e es|ms]; try reflexivity.
  cbn [fields]. revert ms. fix IHms 1. intros ms.
  destruct ms as [|[[[[n|] off] bits] mt] ms]; cbn [map].
  - reflexivity.
  - rewrite IHms. cbn [shift]. replace (base + (0 + off)) with (base + off) by lia. reflexivity.
  - rewrite map_app, IHms. f_equal.
    rewrite (IH mt (base + off)), (IH mt (0 + off)), map_map. apply map_ext.
    intros [[[n o] b] m]. cbn [shift]. replace (base + (0 + off + o)) with (base + off + o) by lia. reflexivity.
Qed.

Lemma lookup_shift name d l :
  lookup name (map (shift d) l) =
    match lookup name l with Some (o, b, m) => Some (d + o, b, m) | None => None end.
Proof.
  induction l as [|[[[n o] b] m] l IH]; cbn [map lookup shift]; [reflexivity|].
  destruct (n =? name); [reflexivity|assumption].
Qed.

Lemma lookup_app name l1 l2 :
  lookup name (l1 ++ l2) = match lookup name l1 with Some x => Some x | None => lookup name l2 end.
Proof.
  induction l1 as [|[[[n o] b] m] l IH]; cbn [app lookup]; [reflexivity|].
  destruct (n =? name); [reflexivity|assumption].
Qed.

Lemma w64_add_l a b : w64 (w64 a + b) = w64 (a + b).
Proof. unfold w64. apply Zplus_mod_idemp_l. Qed.

(* typemember = first field of that name in the flattened member list; the accumulated offset is exact modulo 2^64 *)
Theorem typemember_spec : forall t name offset,
  typemember t name offset =
    match lookup name (fields t 0) with
    | Some (o, b, m) => Some (w64 (offset + o), b, m)
    | None => None
    end.
Proof.
  fix IH 1. intros t name offset. destruct t as [s|e es|ms]; try reflexivity.
  cbn [typemember fields]. revert ms. fix IHms 1. intros ms.
  destruct ms as [|[[[[n|] off] bits] mt] ms].
  - reflexivity.
  - cbn [lookup]. destruct (n =? name); [|apply IHms]. replace (0 + off) with off by lia. reflexivity.
  - rewrite lookup_app. rewrite (fields_shift mt (0 + off)), lookup_shift.
    rewrite (IH mt name offset).
    destruct (lookup name (fields mt 0)) as [[[o b] m]|].
    + rewrite w64_add_l. replace (offset + o + off) with (offset + (0 + off + o)) by lia. reflexivity.
    + apply IHms.
Qed.

(* no-wrap corollary: when the sum is below 2^64 the result is the exact offset (7.19p3) *)
Corollary offsetof_exact t name o b m :
  lookup name (fields t 0) = Some (o, b, m) -> 0 <= o < W64 ->
  typemember t name 0 = Some (o, b, m).
Proof. intros H Ho. rewrite typemember_spec, H. rewrite w64_small by lia. reflexivity. Qed.

(* struct { char c; struct { short s; union { int i; char k[5]; }; } in; }: offsetof(in.k[3]) = 2 + ... *)
Example offsetof_example :
  let u := CRecord [(Some 3, 0, (0, 0), CScalar 4); (Some 4, 0, (0, 0), CArray (CScalar 1) 1)] in
  let inner := CRecord [(Some 2, 0, (0, 0), CScalar 2); (None, 4, (0, 0), u)] in
  let t := CRecord [(Some 1, 0, (0, 0), CScalar 1); (Some 5, 4, (0, 0), inner)] in
  offsetof t 5 [DField 4; DIdx 3] = Ok (11, (0, 0)) /\ offsetof t 5 [DField 3] = Ok (8, (0, 0)) /\
  offsetof t 4 [] = Err ENoMember.
Proof. vm_compute. repeat split. Qed.
