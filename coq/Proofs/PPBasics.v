(* C12 - basic lemmas about the PP model: string/kind equality, the macro table. *)
From Coq Require Import List NArith Arith Bool Lia.
From Cproc Require Import Model.PP.
Import ListNotations.

Lemma str_eqb_eq a b : str_eqb a b = true <-> a = b.
Proof.
  revert b; induction a as [|x a IH]; intros [|y b]; simpl; split; try congruence; try discriminate.
  - rewrite andb_true_iff, N.eqb_eq, IH. intros [-> ->]. reflexivity.
  - intros H. inversion H; subst. rewrite andb_true_iff, N.eqb_eq, IH. auto.
Qed.

Lemma str_eqb_refl a : str_eqb a a = true.
Proof. apply str_eqb_eq. reflexivity. Qed.

Lemma str_eqb_neq a b : str_eqb a b = false <-> a <> b.
Proof.
  split.
  - intros H E. apply str_eqb_eq in E. congruence.
  - intros H. destruct (str_eqb a b) eqn:E; auto. apply str_eqb_eq in E. contradiction.
Qed.

Lemma str_eqb_sym a b : str_eqb a b = str_eqb b a.
Proof.
  destruct (str_eqb a b) eqn:E.
  - apply str_eqb_eq in E. subst. symmetry. apply str_eqb_refl.
  - symmetry. apply str_eqb_neq. apply str_eqb_neq in E. congruence.
Qed.

Lemma kind_eqb_eq a b : kind_eqb a b = true <-> a = b.
Proof.
  destruct a, b; simpl; split; try congruence; try discriminate; auto.
  - intros H. apply Nat.eqb_eq in H. congruence.
  - intros H. inversion H. apply Nat.eqb_refl.
Qed.

Lemma kind_eqb_refl a : kind_eqb a a = true.
Proof. apply kind_eqb_eq. reflexivity. Qed.

Lemma is_kind_true k t : is_kind k t = true <-> kind_ t = k.
Proof. unfold is_kind. apply kind_eqb_eq. Qed.

Lemma mem_str_In s l : mem_str s l = true <-> In s l.
Proof.
  unfold mem_str. rewrite existsb_exists. split.
  - intros (x & Hx & E). apply str_eqb_eq in E. subst. exact Hx.
  - intros H. exists s. split; auto. apply str_eqb_refl.
Qed.

Lemma mem_str_false s l : mem_str s l = false <-> ~ In s l.
Proof.
  split.
  - intros H I. apply mem_str_In in I. congruence.
  - intros H. destruct (mem_str s l) eqn:E; auto. apply mem_str_In in E. contradiction.
Qed.

(* the table *)
Lemma macroget_sethide tb n b k :
  macroget (tbl_sethide tb n b) k =
  if str_eqb n k then option_map (with_hide b) (macroget tb k) else macroget tb k.
Proof.
  induction tb as [|[k0 m0] r IH]; simpl.
  - destruct (str_eqb n k); reflexivity.
  - destruct (str_eqb k0 n) eqn:E0.
    + apply str_eqb_eq in E0. subst k0. simpl.
      destruct (str_eqb n k) eqn:E1; reflexivity.
    + simpl. destruct (str_eqb k0 k) eqn:E2.
      * apply str_eqb_eq in E2. subst k0. rewrite str_eqb_sym, E0. reflexivity.
      * exact IH.
Qed.

Lemma macroget_put tb n m k :
  macroget (tbl_put tb n m) k = if str_eqb n k then Some m else macroget tb k.
Proof.
  induction tb as [|[k0 m0] r IH]; simpl.
  - reflexivity.
  - destruct (str_eqb k0 n) eqn:E0.
    + apply str_eqb_eq in E0. subst k0. simpl. destruct (str_eqb n k); reflexivity.
    + simpl. destruct (str_eqb k0 k) eqn:E2.
      * apply str_eqb_eq in E2. subst k0. rewrite str_eqb_sym, E0. reflexivity.
      * exact IH.
Qed.

Definition keys (tb : table) : list str := List.map fst tb.

Lemma macroget_In tb n m : macroget tb n = Some m -> In n (keys tb).
Proof.
  induction tb as [|[k0 m0] r IH]; simpl; try discriminate.
  destruct (str_eqb k0 n) eqn:E.
  - apply str_eqb_eq in E. auto.
  - intros H. right. auto.
Qed.

Lemma macroget_body_In tb n m : macroget tb n = Some m -> In m (List.map snd tb).
Proof.
  induction tb as [|[k0 m0] r IH]; simpl; try discriminate.
  destruct (str_eqb k0 n) eqn:E.
  - intros H. inversion H. auto.
  - intros H. right. auto.
Qed.
