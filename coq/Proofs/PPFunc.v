(* C12 - function-like macros: what is proved, what is refuted.
   * painted_never_expanded (all tables, all states);
   * funclike_refines_refuted: the D29 witness (a parameter used both plainly and with #);
   * funclike_refines_partial: bounded-exhaustive agreement of model and specification for a fixed
     definition prologue (function-like, variadic, #, mutual reference, a function-like name at the end
     of a replacement list) and ALL invocation texts of at most 4 tokens over an 8-token alphabet. *)
From Coq Require Import List NArith Arith Bool Lia String.
From Cproc Require Import Model.PP Spec.MacroSpec Proofs.PPBasics Proofs.PPObj.
Import ListNotations.

(* ------------------------------------------------------------------ painting *)
Lemma painted_never_expanded fuel s t :
  hide t = true -> expand (S fuel) s t = Ok (false, t, s).
Proof.
  intros H. simpl. destruct (negb (is_kind KIdent t)); auto.
  assert (E : match macroget (tbl s) (lit t) with
              | Some m => if mhide m then set_hide t else t
              | None => set_hide t
              end = t).
  { destruct (macroget (tbl s) (lit t)) as [m|]; [destruct (mhide m)|]; auto using set_hide_id. }
  rewrite E, H. reflexivity.
Qed.

(* the flag survives the copies made on the way into and out of an argument list *)
Lemma hide_set_space b t : hide (set_space b t) = hide t.
Proof. reflexivity. Qed.

(* ------------------------------------------------------------------ tokens for examples *)
Definition tI (s : string) (sp : bool) : token := mkTok KIdent (bytes s) sp false.
Definition tN (s : string) (sp : bool) : token := mkTok KNumber (bytes s) sp false.
Definition tLP (sp : bool) : token := mkTok KLparen (bytes "(") sp false.
Definition tRP (sp : bool) : token := mkTok KRparen (bytes ")") sp false.
Definition tCM (sp : bool) : token := mkTok KComma (bytes ",") sp false.
Definition tHS (sp : bool) : token := mkTok KHash (bytes "#") sp false.
Definition tEL (sp : bool) : token := mkTok KEllipsis (bytes "...") sp false.
Definition tNL : token := mkTok KNewline [] false false.

Definition tok_eqb (a b : token) : bool :=
  kind_eqb (kind_ a) (kind_ b) && str_eqb (lit a) (lit b) && Bool.eqb (space a) (space b) && Bool.eqb (hide a) (hide b).

Fixpoint toks_eq (a b : list token) : bool :=
  match a, b with
  | [], [] => true
  | x :: a', y :: b' => tok_eqb x y && toks_eq a' b'
  | _, _ => false
  end.

Lemma tok_eqb_eq a b : tok_eqb a b = true -> a = b.
Proof.
  unfold tok_eqb. rewrite !andb_true_iff. intros [[[K L] S] H].
  apply kind_eqb_eq in K. apply str_eqb_eq in L. apply eqb_prop in S. apply eqb_prop in H.
  destruct a, b; simpl in *; congruence.
Qed.

Lemma toks_eq_eq a : forall b, toks_eq a b = true -> a = b.
Proof.
  induction a as [|x a IH]; intros [|y b]; simpl; try discriminate; auto.
  rewrite andb_true_iff. intros [E R]. apply tok_eqb_eq in E. apply IH in R. congruence.
Qed.

(* model and specification agree on a source text: wherever the specification gives a result, the model
   terminates normally with exactly that token list (kinds, spellings, white-space and hide flags) *)
Definition agree (fuel : nat) (l : list token) : bool :=
  match spec_run fuel [] l with
  | SOk out => match run fuel true [] l with
               | (o, Done) => toks_eq o (dropnl_tok out)
               | _ => false
               end
  | SFuel => false
  | _ => true
  end.

(* ------------------------------------------------------------------ D29 *)
(* #define f(p) #p p
   f(f())                      specified: "f()" ""      cproc: "f" ""  *)
Definition d29_src : list token :=
  [tHS false; tI "define" false; tI "f" true; tLP false; tI "p" false; tRP false; tHS true; tI "p" false; tI "p" true; tNL;
   tI "f" false; tLP false; tI "f" false; tLP false; tRP false; tRP false; tNL].

Theorem funclike_refines_refuted :
  exists l out, spec_run 100 [] l = SOk out /\ fst (run 100 true [] l) <> dropnl_tok out.
Proof.
  exists d29_src. eexists. split; [vm_compute; reflexivity|]. vm_compute. intros E. discriminate E.
Qed.

(* ------------------------------------------------------------------ bounded sweep *)
(* #define f(x) x g
   #define g(y,...) f(__VA_ARGS__) #y
   #define A f
   #define B(x,y) (y A x)                                                       *)
Definition prologue : list token :=
  [tHS false; tI "define" false; tI "f" true; tLP false; tI "x" false; tRP false; tI "x" true; tI "g" true; tNL;
   tHS false; tI "define" false; tI "g" true; tLP false; tI "y" false; tCM false; tEL false; tRP false;
     tI "f" true; tLP false; tI "__VA_ARGS__" false; tRP false; tHS true; tI "y" false; tNL;
   tHS false; tI "define" false; tI "A" true; tI "f" true; tNL;
   tHS false; tI "define" false; tI "B" true; tLP false; tI "x" false; tCM false; tI "y" false; tRP false;
     tLP true; tI "y" false; tI "A" true; tI "x" true; tRP false; tNL].

Definition alphabet : list token :=
  [tI "f" true; tI "g" false; tI "A" true; tI "B" true; tLP false; tRP false; tCM false; tN "1" true].

Fixpoint all_lists {A} (al : list A) (n : nat) : list (list A) :=
  match n with
  | O => [[]]
  | S k => [] :: List.flat_map (fun l => List.map (fun a => a :: l) al) (all_lists al k)
  end.

Lemma all_lists_complete {A} (al : list A) n : forall l,
  List.length l <= n -> Forall (fun a => In a al) l -> In l (all_lists al n).
Proof.
  induction n as [|n IH]; intros l L F.
  - destruct l; simpl in *; [auto|lia].
  - destruct l as [|a l]; simpl; [auto|]. right.
    inversion F; subst. apply in_flat_map. exists l. split.
    + apply IH; auto. simpl in L. lia.
    + apply in_map_iff. exists a. auto.
Qed.

Definition sweep_ok : bool := forallb (fun l => agree 400 (prologue ++ l ++ [tNL])) (all_lists alphabet 4).

Lemma sweep_ok_true : sweep_ok = true.
Proof. vm_compute. reflexivity. Qed.

Theorem funclike_refines_partial :
  forall l, List.length l <= 4 -> Forall (fun t => In t alphabet) l ->
  agree 400 (prologue ++ l ++ [tNL]) = true.
Proof.
  intros l L F. pose proof sweep_ok_true as H. unfold sweep_ok in H.
  rewrite forallb_forall in H. apply H. apply all_lists_complete; auto.
Qed.
