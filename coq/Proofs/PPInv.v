(* C12 - invariants of the whole machine (function-like macros, directives, any table, any source):
   in every state reachable through next(),  macrodepth = number of macro frames on ctx  and  every macro
   whose hide flag is set has a frame on ctx. *)
From Coq Require Import List NArith Arith Bool Lia.
From Cproc Require Import Model.PP Proofs.PPBasics.
Import ListNotations.

Definition mnames (c : list frame) : list str :=
  List.flat_map (fun f => match fmacro f with Some m => [mname m] | None => [] end) c.

Definition hidden_on_stack (tb : table) (c : list frame) : Prop :=
  forall n m, macroget tb n = Some m -> mhide m = true -> In n (mnames c).

Definition GI (s : state) : Prop :=
  depth s = length (mnames (ctx s)) /\ hidden_on_stack (tbl s) (ctx s).

(* ------------------------------------------------------------------ table operations *)
Lemma macroget_remove tb n k :
  macroget (tbl_remove tb n) k = if str_eqb n k then None else macroget tb k.
Proof.
  induction tb as [|[k0 m0] r IH]; simpl.
  - destruct (str_eqb n k); reflexivity.
  - destruct (str_eqb k0 n) eqn:E0.
    + apply str_eqb_eq in E0. subst k0. rewrite IH. destruct (str_eqb n k); reflexivity.
    + simpl. destruct (str_eqb k0 k) eqn:E2.
      * apply str_eqb_eq in E2. subst k0. rewrite str_eqb_sym, E0. reflexivity.
      * exact IH.
Qed.

(* a directive never sets a hide flag *)
Definition no_new_hidden (tb tb' : table) : Prop :=
  forall n m', macroget tb' n = Some m' -> mhide m' = true ->
               exists m, macroget tb n = Some m /\ mhide m = true.

Lemma nnh_refl tb : no_new_hidden tb tb.
Proof. intros n m H1 H2. eauto. Qed.

Lemma define_nnh tb name l tb' t r : define tb name l = Ok (tb', t, r) -> no_new_hidden tb tb'.
Proof.
  unfold define. destruct (negb (is_kind KIdent name)); [discriminate|].
  destruct (scan l) as [t0 l1].
  match goal with |- match ?h with _ => _ end = _ -> _ => destruct h as [[[[func ps] t1] l0]| |] end; try discriminate.
  destruct (is_kind KIdent t1 && str_eqb (lit t1) s_vaargs && negb (macrovarargs func ps)); [discriminate|].
  destruct (body_loop func l0 t1 ps (macroparam ps t1) []) as [[[[ps' body] tend] rest]| |]; try discriminate.
  assert (P : no_new_hidden tb (tbl_put tb (lit name) (mkMacro func (lit name) false ps' [] body))).
  { intros n m' G H. rewrite macroget_put in G. destruct (str_eqb (lit name) n).
    - inversion G; subst. simpl in H. discriminate.
    - eauto. }
  destruct (macroget tb (lit name)) as [old|].
  - destruct (macroequal _ old); [|discriminate]. intros E. inversion E; subst. exact P.
  - intros E. inversion E; subst. exact P.
Qed.

Lemma undef_nnh tb name l tb' t r : undef tb name l = Ok (tb', t, r) -> no_new_hidden tb tb'.
Proof.
  unfold undef. destruct (negb (is_kind KIdent name)); [discriminate|].
  destruct (scan l) as [t0 r0]. intros E. inversion E; subst.
  intros n m' G H. rewrite macroget_remove in G. destruct (str_eqb (lit name) n); [discriminate|eauto].
Qed.

Ltac fin E :=
  match type of E with
  | (if ?c then _ else _) = _ => destruct c; [|discriminate]; inversion E; subst
  end.

Lemma directive_nnh tb l tb' l' : directive tb l = Ok (tb', l') -> no_new_hidden tb tb'.
Proof.
  unfold directive. destruct (scan l) as [t l1].
  destruct (is_kind KNewline t). { intros E. inversion E; subst. apply nnh_refl. }
  destruct (is_kind KNumber t).
  { destruct (line_tail l1) as [te r]. intros E. fin E. apply nnh_refl. }
  destruct (negb (is_kind KIdent t)); [discriminate|].
  destruct (mem_str (lit t) unimplemented); [discriminate|].
  destruct (str_eqb (lit t) s_define).
  { destruct (scan l1) as [n l2]. destruct (define tb n l2) as [[[a b] c]| |] eqn:DF; try discriminate.
    intros E. fin E. eapply define_nnh; eauto. }
  destruct (str_eqb (lit t) s_undef).
  { destruct (scan l1) as [n l2]. destruct (undef tb n l2) as [[[a b] c]| |] eqn:DF; try discriminate.
    intros E. fin E. eapply undef_nnh; eauto. }
  destruct (str_eqb (lit t) s_line).
  { destruct (scan l1) as [n l2]. destruct (is_kind KNumber n); [|discriminate].
    destruct (line_tail l2) as [te r]. intros E. fin E. apply nnh_refl. }
  destruct (str_eqb (lit t) s_pragma); [|discriminate].
  destruct (pragma_skip tb t l1) as [[te r]| |]; try discriminate.
  intros E. fin E. apply nnh_refl.
Qed.

Lemma hos_nnh tb tb' c : hidden_on_stack tb c -> no_new_hidden tb tb' -> hidden_on_stack tb' c.
Proof. intros H N n m G Hm. destruct (N n m G Hm) as (m0 & G0 & H0). eauto. Qed.

(* ------------------------------------------------------------------ the functions, one by one *)
Lemma nextinto_GI : forall fuel s t s', GI s -> nextinto fuel s = Ok (t, s') -> GI s' /\ ctx s' = ctx s.
Proof.
  induction fuel as [|fuel IH]; intros s t s' [D H] E; [discriminate|].
  simpl in E. destruct (scan (src s)) as [t0 l].
  destruct (nl s && is_kind KHash t0).
  - destruct (directive (tbl s) l) as [[tb l']| |] eqn:DR; try discriminate.
    apply IH in E.
    + simpl in E. exact E.
    + split; simpl; auto. eapply hos_nnh; eauto. eapply directive_nnh; eauto.
  - inversion E; subst. simpl. split; [split|]; auto.
Qed.

Lemma same_mnames_ok tb c c' d :
  mnames c' = mnames c -> d = length (mnames c) -> hidden_on_stack tb c ->
  d = length (mnames c') /\ hidden_on_stack tb c'.
Proof.
  intros M D H. split; [rewrite M; exact D|]. intros n m G Hm. rewrite M. eauto.
Qed.

Lemma ctxnext_go_GI : forall c tb d o c' tb' d',
  d = length (mnames c) -> hidden_on_stack tb c ->
  ctxnext_go c tb d = Ok (o, c', tb', d') ->
  d' = length (mnames c') /\ hidden_on_stack tb' c'.
Proof.
  induction c as [|f rest IH]; intros tb d o c' tb' d' D H E.
  - simpl in E. inversion E; subst. auto.
  - simpl in E. destruct (fmacro f) as [m|] eqn:FM.
    + assert (MN : mnames (f :: rest) = mname m :: mnames rest) by (unfold mnames; simpl; rewrite FM; reflexivity).
      assert (KEEP : forall ts, mnames (mkFrame ts (Some m) :: rest) = mnames (f :: rest))
        by (intros; unfold mnames; simpl; rewrite FM; reflexivity).
      assert (KEEP2 : forall ts ts', mnames (mkFrame ts' None :: mkFrame ts (Some m) :: rest) = mnames (f :: rest))
        by (intros; unfold mnames; simpl; rewrite FM; reflexivity).
      destruct (if mfunc m then skip_empty_params m (ftoks f) else ftoks f) as [|t ts] eqn:TS.
      * (* pop *)
        unfold macrodone in E. eapply IH; [| |exact E].
        -- rewrite D, MN. reflexivity.
        -- intros n m0 G Hm. rewrite macroget_sethide in G.
           destruct (str_eqb (mname m) n) eqn:EQ.
           ++ destruct (macroget tb n); simpl in G; [|discriminate]. inversion G; subst. simpl in Hm. discriminate.
           ++ specialize (H n m0 G Hm). rewrite MN in H. destruct H as [H|H]; auto.
              subst n. rewrite str_eqb_refl in EQ. discriminate.
      * destruct (mfunc m).
        -- destruct (kind_ t).
           all: try (inversion E; subst; eapply (same_mnames_ok _ (f :: rest)); eauto; fail).
           ++ (* identifier *)
              destruct (macroparam (mparams m) t) as [i|].
              ** destruct (atoks (arg_nth m i)) as [|a ar]; [discriminate|].
                 inversion E; subst. eapply (same_mnames_ok _ (f :: rest)); eauto.
              ** inversion E; subst. eapply (same_mnames_ok _ (f :: rest)); eauto.
           ++ (* # *)
              destruct ts as [|p ts']; [discriminate|].
              destruct (macroparam (mparams m) p) as [i|]; [|discriminate].
              inversion E; subst. eapply (same_mnames_ok _ (f :: rest)); eauto.
        -- inversion E; subst. eapply (same_mnames_ok _ (f :: rest)); eauto.
    + assert (MN : mnames (f :: rest) = mnames rest) by (unfold mnames; simpl; rewrite FM; reflexivity).
      destruct (ftoks f) as [|t ts].
      * eapply IH; [| |exact E]; [rewrite D, MN; reflexivity|].
        intros n m0 G Hm. specialize (H n m0 G Hm). rewrite MN in H. exact H.
      * inversion E; subst.
        assert (MN2 : mnames (mkFrame ts None :: rest) = mnames (f :: rest)) by (unfold mnames; simpl; rewrite FM; reflexivity).
        eapply (same_mnames_ok _ (f :: rest)); eauto.
Qed.

Lemma ctxnext_GI s o s' : GI s -> ctxnext s = Ok (o, s') -> GI s' /\ src s' = src s.
Proof.
  intros [D H] E. unfold ctxnext in E.
  destruct (ctxnext_go (ctx s) (tbl s) (depth s)) as [[[[o0 c] tb] d]| |] eqn:G; try discriminate.
  inversion E; subst. simpl. split; auto.
  eapply ctxnext_go_GI; eauto.
Qed.

Lemma rawnext_GI fuel s t s' : GI s -> rawnext fuel s = Ok (t, s') -> GI s'.
Proof.
  intros I E. unfold rawnext in E.
  destruct (ctxnext s) as [[[t0|] s1]| |] eqn:C; try discriminate.
  - inversion E; subst. eapply ctxnext_GI; eauto.
  - apply ctxnext_GI in C; auto. eapply nextinto_GI; [apply C|exact E].
Qed.

Lemma peek_loop_GI : forall fuel s pend pend' s', GI s -> peek_loop fuel s pend = Ok (pend', s') -> GI s' /\ ctx s' = ctx s.
Proof.
  induction fuel as [|fuel IH]; intros s pend pend' s' I E; [discriminate|].
  simpl in E. destruct (nextinto fuel s) as [[t s1]| |] eqn:N; try discriminate.
  apply nextinto_GI in N; auto. destruct N as [I1 C1].
  destruct (is_kind KNewline t).
  - apply IH in E; auto. destruct E as [I2 C2]. split; auto. congruence.
  - inversion E; subst. auto.
Qed.

Lemma GI_same_mnames s c :
  GI s -> mnames c = mnames (ctx s) -> GI (set_ctx c s).
Proof.
  intros [D H] M. split; simpl.
  - rewrite M. exact D.
  - intros n m G Hm. rewrite M. eauto.
Qed.

Lemma peekparen_GI fuel s b s' : GI s -> peekparen fuel s = Ok (b, s') -> GI s'.
Proof.
  intros I E. unfold peekparen in E.
  destruct (ctxnext s) as [[[t|] s1]| |] eqn:C; try discriminate.
  - apply ctxnext_GI in C; auto. destruct C as [I1 _].
    destruct (is_kind KLparen t); [inversion E; subst; auto|].
    destruct (ctx s1) as [|f rest] eqn:CX; [discriminate|].
    inversion E; subst. apply GI_same_mnames; auto.
    rewrite CX. unfold mnames. simpl. reflexivity.
  - apply ctxnext_GI in C; auto. destruct C as [I1 _].
    destruct (peek_loop fuel s1 []) as [[pend s2]| |] eqn:P; try discriminate.
    apply peek_loop_GI in P; auto. destruct P as [I2 C2].
    destruct pend as [|t pend]; [discriminate|].
    destruct (is_kind KLparen t); inversion E; subst; auto.
Qed.

Lemma expand_collect_GI : forall fuel,
  (forall s t b t' s', GI s -> expand fuel s t = Ok (b, t', s') -> GI s') /\
  (forall s m c t a s', GI s -> collect fuel s m c t = Ok (a, s') -> GI s').
Proof.
  induction fuel as [|fuel [IHe IHc]]; [split; intros; discriminate|].
  split.
  - intros s t b t' s' I E. simpl in E.
    destruct (negb (is_kind KIdent t)); [inversion E; subst; auto|].
    destruct (hide _); [inversion E; subst; auto|].
    destruct (macroget (tbl s) (lit t)) as [m|]; [|inversion E; subst; auto].
    assert (PUSH : forall m' s3 sp, mname m' = mname m -> GI s3 ->
              GI (mkState (src s3) (nl s3) (tbl_sethide (tbl s3) (mname m) true)
                          (ctxpush (mbody m) (Some m') sp :: ctx s3) (S (depth s3)) (dlog s3))).
    { intros m' s3 sp NM [D H].
      assert (MN : mnames (ctxpush (mbody m) (Some m') sp :: ctx s3) = mname m :: mnames (ctx s3)).
      { unfold mnames. simpl. destruct (mbody m); simpl; rewrite NM; reflexivity. }
      split; cbn [depth ctx tbl].
      - rewrite MN. simpl. rewrite D. reflexivity.
      - intros n m0 G Hm. rewrite MN. rewrite macroget_sethide in G.
        destruct (str_eqb (mname m) n) eqn:EQ.
        + left. apply str_eqb_eq. exact EQ.
        + right. eauto. }
    destruct (mfunc m).
    + destruct (peekparen fuel s) as [[[|] s1]| |] eqn:PP; try discriminate.
      * apply peekparen_GI in PP; auto.
        destruct (rawnext fuel s1) as [[t0 s2]| |] eqn:RN; try discriminate.
        apply rawnext_GI in RN; auto.
        destruct (collect fuel s2 m _ t0) as [[a s3]| |] eqn:CL; try discriminate.
        apply IHc in CL; auto.
        destruct (mem_str _ _); [discriminate|].
        inversion E; subst. apply PUSH; auto.
      * inversion E; subst. eapply peekparen_GI; eauto.
    + simpl in E. rewrite Nat.sub_diag in E. simpl in E. inversion E; subst. apply PUSH; auto.
  - intros s m c t a s' I E. simpl in E.
    destruct (Nat.leb (length (mparams m)) (ci c)).
    { destruct (Nat.eqb (length (mparams m)) 0); [|discriminate].
      destruct (is_kind KNewline t).
      - destruct (rawnext fuel s) as [[t1 s1]| |] eqn:RN; try discriminate.
        apply rawnext_GI in RN; auto. eapply IHc; eauto.
      - destruct (is_kind KRparen t); [|discriminate]. inversion E; subst. auto. }
    destruct (is_kind KEof t); [discriminate|].
    match type of E with (if ?brk then _ else _) = _ => destruct brk end.
    { destruct (is_kind KRparen t).
      - destruct (Nat.ltb _ _); [discriminate|]. inversion E; subst. auto.
      - destruct (rawnext fuel s) as [[t1 s1]| |] eqn:RN; try discriminate.
        apply rawnext_GI in RN; auto. eapply IHc; eauto. }
    destruct (ptok (nth_param (mparams m) (ci c))).
    + destruct (expand fuel s t) as [[[[|] t1] s1]| |] eqn:EX; try discriminate;
        apply IHe in EX; auto;
        (destruct (rawnext fuel s1) as [[t2 s2]| |] eqn:RN; try discriminate;
         apply rawnext_GI in RN; auto; eapply IHc; eauto).
    + destruct (rawnext fuel s) as [[t2 s2]| |] eqn:RN; try discriminate.
      apply rawnext_GI in RN; auto. eapply IHc; eauto.
Qed.

Lemma next_GI : forall fuel ppnl s t s', GI s -> next fuel ppnl s = Ok (t, s') -> GI s'.
Proof.
  induction fuel as [|fuel IH]; intros ppnl s t s' I E; [discriminate|].
  simpl in E. destruct (rawnext fuel s) as [[t0 s1]| |] eqn:RN; try discriminate.
  apply rawnext_GI in RN; auto.
  destruct (expand fuel s1 t0) as [[[[|] t1] s2]| |] eqn:EX; try discriminate;
    apply (proj1 (expand_collect_GI fuel)) in EX; auto.
  - eapply IH; eauto.
  - destruct (is_kind KNewline t1 && negb ppnl).
    + eapply IH; eauto.
    + inversion E; subst. auto.
Qed.

(* states between two calls of next(), starting from any table without hidden macros *)
Inductive reach (tb : table) (l : list token) : state -> Prop :=
| reach0 : reach tb l (init_state tb l)
| reachS : forall s F ppnl t s', reach tb l s -> next F ppnl s = Ok (t, s') -> reach tb l s'.

Theorem depth_counts_frames_general tb l s :
  (forall n m, macroget tb n = Some m -> mhide m = false) ->
  reach tb l s ->
  depth s = length (mnames (ctx s)) /\
  (forall n m, macroget (tbl s) n = Some m -> mhide m = true -> In n (mnames (ctx s))).
Proof.
  intros NH R. induction R.
  - split; simpl; auto. intros n m G H. rewrite (NH n m G) in H. discriminate.
  - eapply next_GI; eauto.
Qed.
