(* C12 - refinement for the object-like fragment: on tables of object-like macros and sources without '#',
   the frame machine of pp.c computes exactly the hide-set specification, within an explicit fuel bound
   (which is also the termination theorem of macro expansion for this fragment). *)
From Coq Require Import List NArith Arith Bool Lia.
From Cproc Require Import Model.PP Spec.MacroSpec Proofs.PPBasics.
Import ListNotations.

Definition all_object_like (tb : table) : Prop :=
  forall n m, macroget tb n = Some m -> mfunc m = false /\ mname m = n /\ mhide m = false.

Definition clean_tok (t : token) : Prop := kind_ t <> KEof /\ kind_ t <> KHash.
Definition noeof (t : token) : Prop := kind_ t <> KEof.
Definition clean_bodies (tb : table) : Prop :=
  forall n m, macroget tb n = Some m -> Forall noeof (mbody m).

(* ------------------------------------------------------------------ small facts *)
Lemma set_hide_id t : hide t = true -> set_hide t = t.
Proof. destruct t; simpl; intros ->; reflexivity. Qed.

Lemma filter_true {A} (l : list A) : filter (fun _ => true) l = l.
Proof. induction l; simpl; congruence. Qed.

Lemma hs_union_nil h : hs_union [] h = h.
Proof. unfold hs_union. simpl. apply filter_true. Qed.

Lemma subst_obj l : subst false [] [] [] l = List.map (fun t => mkH t []) l.
Proof. induction l as [|t r IH]; simpl; auto. rewrite IH. reflexivity. Qed.

Lemma hs_add_obj H l : hs_add H (List.map (fun t => mkH t []) l) = List.map (fun t => mkH t H) l.
Proof.
  unfold hs_add. rewrite map_map. apply map_ext. intros t. simpl. rewrite hs_union_nil. reflexivity.
Qed.

Lemma with_hide_twice a b m : with_hide a (with_hide b m) = with_hide a m.
Proof. reflexivity. Qed.

Lemma mem_str_cons s a l : mem_str s (a :: l) = str_eqb s a || mem_str s l.
Proof. reflexivity. Qed.

Lemma sbind_ok {A B} (r : sres A) (f : A -> sres B) b :
  sbind r f = SOk b -> exists a, r = SOk a /\ f a = SOk b.
Proof. destruct r; simpl; try discriminate. intros H. eauto. Qed.

(* ------------------------------------------------------------------ one step of the specification *)
Section Obj.
Variable tb0 : table.
Hypothesis OBJ : all_object_like tb0.

Definition nohash (l : list token) : Prop := Forall clean_tok l.

Definition obj_step (rec : list htok -> list token -> bool -> sres (list htok))
           (pend : list htok) (l : list token) : sres (list htok) :=
  match spop pend l with
  | None => SOk []
  | Some (h, p, r, fromsrc) =>
      let t := tk h in
      let emit (x : htok) (nbol : bool) := sbind (rec p r nbol) (fun o => SOk (x :: o)) in
      if is_kind KNewline t then emit h true
      else if negb (is_kind KIdent t) then emit h false
      else
        match macroget tb0 (lit t) with
        | None => emit (mkH (painted t) (hset h)) false
        | Some m =>
            if hide t || mem_str (lit t) (hset h) then emit (mkH (painted t) (hset h)) false
            else rec (List.map (fun x => mkH x (lit t :: hset h)) (set_space_hd (space t) (mbody m)) ++ p) r false
        end
  end.

Lemma spop_clean pend l h p r fs :
  spop pend l = Some (h, p, r, fs) -> nohash l ->
  nohash r /\ (fs = true -> clean_tok (tk h)) /\ (fs = false -> p = tl pend /\ r = l).
Proof.
  unfold spop. destruct pend as [|x q].
  - destruct l as [|t l']; try discriminate. intros H N. inversion H; subst.
    inversion N as [|? ? Ct Nl]; subst.
    split; [exact Nl|]. split; [intros _; exact Ct|intros; discriminate].
  - intros H N. inversion H; subst. split; [exact N|]. split; [intros; discriminate|auto].
Qed.

Lemma sgo_obj_unfold f pol pend l bol :
  nohash l ->
  sgo (S f) pol tb0 pend l bol = obj_step (sgo f pol tb0) pend l.
Proof.
  intros N. unfold obj_step. simpl.
  destruct (spop pend l) as [[[[h p] r] fs]|] eqn:SP; auto.
  destruct (spop_clean _ _ _ _ _ _ SP N) as (Nr & Cl & _).
  assert (D : fs && bol && is_kind KHash (tk h) = false).
  { destruct fs; simpl; auto. destruct (Cl eq_refl) as [_ C].
    destruct (is_kind KHash (tk h)) eqn:E; [|apply andb_false_r].
    apply is_kind_true in E. contradiction. }
  rewrite D.
  destruct (is_kind KNewline (tk h)); auto.
  destruct (is_kind KIdent (tk h)); simpl; auto.
  destruct (macroget tb0 (lit (tk h))) as [m|] eqn:G; auto.
  destruct (hide (tk h) || mem_str (lit (tk h)) (hset h)); auto.
  destruct (OBJ _ _ G) as (F & _). rewrite F. simpl.
  rewrite subst_obj, hs_add_obj. reflexivity.
Qed.

(* the two readings of 6.10.3.4p4 coincide: no function-like macro is ever invoked *)
Lemma sgo_pol f : forall pend l bol, nohash l -> sgo f true tb0 pend l bol = sgo f false tb0 pend l bol.
Proof.
  induction f as [|f IH]; intros pend l bol N; auto.
  rewrite !sgo_obj_unfold by auto. unfold obj_step.
  destruct (spop pend l) as [[[[h p] r] fs]|] eqn:SP; auto.
  destruct (spop_clean _ _ _ _ _ _ SP N) as (Nr & _).
  rewrite !IH by auto.
  destruct (is_kind KNewline (tk h)); auto.
  destruct (negb (is_kind KIdent (tk h))); auto.
  destruct (macroget tb0 (lit (tk h))); auto.
  destruct (hide (tk h) || mem_str (lit (tk h)) (hset h)); auto.
Qed.

(* ------------------------------------------------------------------ termination of the specification *)
Definition maxbody (tb : table) : nat := fold_right (fun km a => Nat.max (length (mbody (snd km))) a) 0 tb.

Lemma maxbody_ge tb n m : macroget tb n = Some m -> length (mbody m) <= maxbody tb.
Proof.
  induction tb as [|[k0 m0] r IH]; simpl; try discriminate.
  destruct (str_eqb k0 n).
  - intros H. inversion H; subst. lia.
  - intros H. specialize (IH H). lia.
Qed.

Fixpoint W (B k : nat) : nat := match k with O => 1 | S k' => 1 + B * W B k' end.

Lemma W_pos B k : 1 <= W B k.
Proof. destruct k; simpl; lia. Qed.

Definition NK := length (keys tb0).
Definition BB := maxbody tb0.
Definition wt (h : htok) : nat := W BB (NK - length (hset h)).
Definition mu (pend : list htok) (l : list token) : nat :=
  list_sum (List.map wt pend) + length l * W BB NK.

Definition wf_hs (h : htok) : Prop := NoDup (hset h) /\ incl (hset h) (keys tb0).

Lemma list_sum_const {A} (f : A -> nat) (l : list A) c :
  (forall x, In x l -> f x = c) -> list_sum (List.map f l) = length l * c.
Proof.
  induction l as [|x l IH]; simpl; intros H; auto.
Qed.

Lemma set_space_hd_length sp l : length (set_space_hd sp l) = length l.
Proof. destruct l; reflexivity. Qed.

Lemma sgo_terminates pol : forall f pend l bol,
  Forall wf_hs pend -> nohash l -> mu pend l < f ->
  exists out, sgo f pol tb0 pend l bol = SOk out.
Proof.
  induction f as [|f IH]; intros pend l bol WF N LT; [lia|].
  rewrite sgo_obj_unfold by auto. unfold obj_step.
  destruct (spop pend l) as [[[[h p] r] fs]|] eqn:SP; [|eauto].
  destruct (spop_clean _ _ _ _ _ _ SP N) as (Nr & _).
  (* the weight removed by popping *)
  assert (POP : wt h + mu p r = mu pend l /\ Forall wf_hs p /\ wf_hs h).
  { unfold spop in SP. destruct pend as [|x q].
    - destruct l as [|t l']; try discriminate. inversion SP; subst.
      unfold mu, wt. simpl. rewrite Nat.sub_0_r. repeat split; auto; try lia.
      + constructor.
      + intros a [].
    - inversion SP; subst. inversion WF; subst. unfold mu. simpl. repeat split; auto; try lia;
        apply H1. }
  destruct POP as (MU & WFp & WFh).
  assert (EM : forall x nbol, exists out,
             sbind (sgo f pol tb0 p r nbol) (fun o => SOk (x :: o)) = SOk out).
  { intros x nbol. destruct (IH p r nbol WFp Nr) as [o Ho].
    - pose proof (W_pos BB (NK - length (hset h))). unfold wt in MU. lia.
    - rewrite Ho. simpl. eauto. }
  destruct (is_kind KNewline (tk h)); auto.
  destruct (negb (is_kind KIdent (tk h))); auto.
  destruct (macroget tb0 (lit (tk h))) as [m|] eqn:G; auto.
  destruct (hide (tk h) || mem_str (lit (tk h)) (hset h)) eqn:HD; auto.
  apply orb_false_iff in HD. destruct HD as [_ HM]. apply mem_str_false in HM.
  destruct WFh as [ND IN].
  assert (ND' : NoDup (lit (tk h) :: hset h)) by (constructor; auto).
  assert (IN' : incl (lit (tk h) :: hset h) (keys tb0)).
  { intros a [<-|Ha]; auto. eapply macroget_In; eauto. }
  pose proof (NoDup_incl_length ND' IN') as LEN. simpl in LEN. fold NK in LEN.
  apply IH; auto.
  - apply Forall_app. split; auto. apply Forall_forall. intros x Hx.
    apply in_map_iff in Hx. destruct Hx as (t & <- & _). split; auto.
  - unfold mu in *. rewrite map_app, list_sum_app.
    rewrite (list_sum_const wt _ (W BB (NK - S (length (hset h))))).
    + rewrite map_length, set_space_hd_length.
      pose proof (maxbody_ge _ _ _ G) as LB. fold BB in LB.
      unfold wt in MU at 1. replace (NK - length (hset h)) with (S (NK - S (length (hset h)))) in MU by lia.
      cbn [W] in MU.
      assert (length (mbody m) * W BB (NK - S (length (hset h))) <= BB * W BB (NK - S (length (hset h))))
        by (apply Nat.mul_le_mono_r; auto).
      lia.
    + intros x Hx. apply in_map_iff in Hx. destruct Hx as (t & <- & _). reflexivity.
Qed.

(* ------------------------------------------------------------------ the frame machine *)
Definition fname (f : frame) : str := match fmacro f with Some m => mname m | None => [] end.
Definition names (c : list frame) : list str := List.map fname c.

Fixpoint flat (c : list frame) : list htok :=
  match c with
  | [] => []
  | f :: r => List.map (fun t => mkH t (fname f :: names r)) (ftoks f) ++ flat r
  end.

Definition objframe (f : frame) : Prop :=
  (exists m, fmacro f = Some m /\ mfunc m = false) /\ Forall noeof (ftoks f).

Definition tblrel (tb : table) (ns : list str) : Prop :=
  forall n, macroget tb n = option_map (with_hide (mem_str n ns)) (macroget tb0 n).

Record Inv (s : state) : Prop := {
  inv_frames : Forall objframe (ctx s);
  inv_nodup : NoDup (names (ctx s));
  inv_tbl : tblrel (tbl s) (names (ctx s));
  inv_src : nohash (src s);
  inv_depth : depth s = length (ctx s) }.

Lemma tblrel_pop tb n ns :
  tblrel tb (n :: ns) -> ~ In n ns -> tblrel (tbl_sethide tb n false) ns.
Proof.
  intros R NI k. rewrite macroget_sethide. rewrite (R k). rewrite mem_str_cons.
  destruct (str_eqb n k) eqn:E.
  - apply str_eqb_eq in E. subst k. apply mem_str_false in NI. rewrite NI.
    destruct (macroget tb0 n); reflexivity.
  - rewrite str_eqb_sym, E. reflexivity.
Qed.

Lemma tblrel_push tb n ns :
  tblrel tb ns -> tblrel (tbl_sethide tb n true) (n :: ns).
Proof.
  intros R k. rewrite macroget_sethide. rewrite (R k). rewrite mem_str_cons.
  destruct (str_eqb n k) eqn:E.
  - rewrite str_eqb_sym, E. destruct (macroget tb0 k); reflexivity.
  - rewrite str_eqb_sym, E. reflexivity.
Qed.

Lemma ctxnext_go_obj : forall c tb d,
  Forall objframe c -> NoDup (names c) -> tblrel tb (names c) -> d = length c ->
  exists o c' tb' d',
    ctxnext_go c tb d = Ok (o, c', tb', d') /\
    Forall objframe c' /\ NoDup (names c') /\ tblrel tb' (names c') /\ d' = length c' /\
    match o with
    | None => c' = [] /\ flat c = []
    | Some t => flat c = mkH t (names c') :: flat c' /\ noeof t
    end.
Proof.
  induction c as [|f rest IH]; intros tb d FR ND TR DL.
  - simpl. exists None, [], tb, d. repeat split; auto.
  - inversion FR as [|? ? Hf Hrest]; subst. destruct Hf as [(m & Hm & Hfun) Hne].
    simpl. rewrite Hm. rewrite Hfun.
    destruct (ftoks f) as [|t ts] eqn:FT.
    + (* exhausted frame: macrodone, pop *)
      simpl in ND. inversion ND as [|? ? NI ND']; subst.
      unfold fname in NI, TR. simpl in TR. unfold fname in TR at 1. rewrite Hm in NI, TR.
      destruct (IH (tbl_sethide tb (mname m) false) (pred (length (f :: rest))) Hrest ND'
                   (tblrel_pop _ _ _ TR NI) eq_refl)
        as (o & c' & tb' & d' & E & P).
      exists o, c', tb', d'. split; [exact E|]. simpl. try rewrite FT. simpl. exact P.
    + exists (Some t), (mkFrame ts (Some m) :: rest), tb, (length (f :: rest)).
      inversion Hne; subst.
      assert (NM : names (mkFrame ts (Some m) :: rest) = names (f :: rest)).
      { simpl. unfold fname. simpl. rewrite Hm. reflexivity. }
      split; [reflexivity|]. split.
      { constructor; auto. split; simpl; eauto. }
      rewrite NM. repeat split; auto.
      simpl. unfold fname at 3. simpl. unfold fname at 1 2. rewrite Hm. reflexivity.
Qed.

(* rawnext: the head of (flattened context ++ source) *)
Lemma rawnext_obj s fuel :
  Inv s ->
  exists t s', rawnext (S fuel) s = Ok (t, s') /\ Inv s' /\
    match spop (flat (ctx s)) (src s) with
    | None => t = eof_tok /\ flat (ctx s') = [] /\ src s' = []
    | Some (h, p, r, fs) => t = tk h /\ hset h = names (ctx s') /\ p = flat (ctx s') /\ r = src s' /\ noeof t
    end.
Proof.
  intros [FR ND TR NS DP].
  destruct (ctxnext_go_obj _ _ _ FR ND TR DP) as (o & c' & tb' & d' & E & FR' & ND' & TR' & DP' & M).
  unfold rawnext, ctxnext. rewrite E.
  destruct o as [t|].
  - destruct M as [FL NE]. exists t, (mkState (src s) (nl s) tb' c' d' (dlog s)).
    split; auto. split; [constructor; auto|]. simpl.
    rewrite FL. simpl. repeat split; auto.
  - destruct M as [-> FL]. simpl.
    destruct (src s) as [|t l] eqn:SR.
    + exists eof_tok, (mkState [] false tb' [] d' (dlog s)). simpl. try rewrite SR. simpl.
      rewrite andb_false_r. split; auto. split; [constructor; simpl; auto; constructor|].
      rewrite FL. simpl. auto.
    + inversion NS as [|? ? Ct Nl]; subst.
      exists t, (mkState l (is_kind KNewline t) tb' [] 0 (dlog s)). simpl. try rewrite SR. simpl.
      assert (HH : is_kind KHash t = false).
      { destruct (is_kind KHash t) eqn:E'; auto. apply is_kind_true in E'. destruct Ct. contradiction. }
      rewrite HH, andb_false_r. split; auto. split; [constructor; simpl; auto|].
      rewrite FL. simpl. destruct Ct. repeat split; auto.
Qed.

Lemma flat_push body m sp c :
  flat (ctxpush body (Some m) sp :: c) =
  List.map (fun x => mkH x (mname m :: names c)) (set_space_hd sp body) ++ flat c.
Proof. destruct body; reflexivity. Qed.

Lemma noeof_set_space_hd sp l : Forall noeof l -> Forall noeof (set_space_hd sp l).
Proof. destruct l; simpl; auto. intros H. inversion H; subst. constructor; auto. Qed.

Hypothesis CB : clean_bodies tb0.

(* expand on a token fetched from the top frame (its hide set = the names on the stack) *)
Lemma expand_obj s t fuel :
  Inv s -> noeof t ->
  if negb (is_kind KIdent t) then expand (S fuel) s t = Ok (false, t, s)
  else match macroget tb0 (lit t) with
       | None => expand (S fuel) s t = Ok (false, painted t, s)
       | Some m =>
           if hide t || mem_str (lit t) (names (ctx s)) then expand (S fuel) s t = Ok (false, painted t, s)
           else exists s', expand (S fuel) s t = Ok (true, t, s') /\ Inv s' /\ src s' = src s /\
                  flat (ctx s') = List.map (fun x => mkH x (lit t :: names (ctx s)))
                                           (set_space_hd (space t) (mbody m)) ++ flat (ctx s)
       end.
Proof.
  intros [FR ND TR NS DP] NE. simpl.
  destruct (is_kind KIdent t) eqn:KI; simpl; auto.
  rewrite (TR (lit t)).
  destruct (macroget tb0 (lit t)) as [m|] eqn:G; simpl.
  - destruct (OBJ _ _ G) as (F & NM & HD).
    destruct (mem_str (lit t) (names (ctx s))) eqn:MS.
    + rewrite orb_true_r. simpl. reflexivity.
    + rewrite orb_false_r. destruct (hide t) eqn:HT.
      * unfold painted. rewrite set_hide_id by auto. reflexivity.
      * try rewrite HT. rewrite F. simpl. rewrite Nat.sub_diag. simpl.
        eexists. split; [reflexivity|]. rewrite NM. simpl.
        assert (NMS : names (ctxpush (mbody m) (Some (with_hide false m)) (space t) :: ctx s)
                      = lit t :: names (ctx s)).
        { simpl. unfold fname. destruct (mbody m); simpl; rewrite NM; reflexivity. }
        split.
        { constructor; cbn [ctx tbl src depth].
          - constructor; auto. split.
            + exists (with_hide false m). destruct (mbody m); simpl; auto.
            + replace (ftoks (ctxpush (mbody m) (Some (with_hide false m)) (space t)))
                with (set_space_hd (space t) (mbody m)) by (destruct (mbody m); reflexivity).
              apply noeof_set_space_hd. eapply CB; eauto.
          - rewrite NMS. constructor; auto. apply mem_str_false; auto.
          - rewrite NMS. apply tblrel_push. auto.
          - auto.
          - rewrite DP. reflexivity. }
        split; auto.
        destruct (mbody m); simpl; unfold fname; simpl; rewrite ?NM; reflexivity.
  - destruct (hide (set_hide t)) eqn:E; [reflexivity|]. simpl in E. discriminate.
Qed.

(* ------------------------------------------------------------------ simulation *)
Definition is_nl (h : htok) : bool := is_kind KNewline (tk h).

Fixpoint dropnl (l : list htok) : list htok :=
  match l with
  | [] => []
  | h :: r => if is_nl h then dropnl r else l
  end.

Definition related (s : state) (pend : list htok) (l : list token) : Prop :=
  Inv s /\ pend = flat (ctx s) /\ l = src s.

(* next() with PPNEWLINE returns the next token of the output; without it, it first skips new-lines *)
Definition outrel (ppnl : bool) (out : list htok) (h : htok) (out' : list htok) : Prop :=
  if ppnl then out = h :: out'
  else exists nls, forallb is_nl nls = true /\ is_nl h = false /\ out = nls ++ h :: out'.

Definition outend (ppnl : bool) (out : list htok) : Prop :=
  if ppnl then out = [] else forallb is_nl out = true.

Definition next_post (pol : bool) (f : nat) (ppnl : bool) (out : list htok) (t : token) (s' : state) : Prop :=
  (exists f' pend' l' bol' out' h, f' < f /\ sgo f' pol tb0 pend' l' bol' = SOk out' /\
       related s' pend' l' /\ t = tk h /\ noeof t /\ outrel ppnl out h out')
  \/ (t = eof_tok /\ outend ppnl out).

Lemma next_post_mono pol f g ppnl out t s' : f <= g -> next_post pol f ppnl out t s' -> next_post pol g ppnl out t s'.
Proof.
  intros LE [(f' & pend' & l' & bol' & out' & h & LF & R)|E]; [left|right; auto].
  exists f', pend', l', bol', out', h. split; [lia|exact R].
Qed.

Lemma next_S f ppnl s :
  next (S f) ppnl s =
  match rawnext f s with
  | Ok (t, s1) =>
      match expand f s1 t with
      | Ok (true, _, s2) => next f ppnl s2
      | Ok (false, t1, s2) => if is_kind KNewline t1 && negb ppnl then next f ppnl s2 else Ok (t1, s2)
      | Err e => Err e
      | Fuel => Fuel
      end
  | Err e => Err e
  | Fuel => Fuel
  end.
Proof. reflexivity. Qed.

(* one call of next() produces the next token of the specified output; the remaining output is again the
   specification's result on the new state, with less fuel *)
Lemma next_sim pol : forall f pend l bol out s F ppnl,
  sgo f pol tb0 pend l bol = SOk out -> related s pend l -> f < F ->
  exists t s', next F ppnl s = Ok (t, s') /\ next_post pol f ppnl out t s'.
Proof.
  induction f as [|f IH]; intros pend l bol out s F ppnl SG (I & -> & ->) LT; [discriminate|].
  destruct F as [|F]; [lia|]. destruct F as [|F]; [lia|].
  rewrite sgo_obj_unfold in SG by apply I. unfold obj_step in SG.
  destruct (rawnext_obj s F I) as (t & s1 & RN & I1 & M).
  rewrite next_S. rewrite RN.
  destruct (spop (flat (ctx s)) (src s)) as [[[[h p] r] fs]|] eqn:SP.
  - destruct M as (-> & HS & -> & -> & NE).
    pose proof (expand_obj s1 (tk h) F I1 NE) as EX.
    (* an emitted token *)
    assert (EMIT : forall x nbol,
              sbind (sgo f pol tb0 (flat (ctx s1)) (src s1) nbol) (fun o => SOk (x :: o)) = SOk out ->
              expand (S F) s1 (tk h) = Ok (false, tk x, s1) -> noeof (tk x) ->
              exists t s', (match expand (S F) s1 (tk h) with
                            | Ok (true, _, s2) => next (S F) ppnl s2
                            | Ok (false, t1, s2) => if is_kind KNewline t1 && negb ppnl then next (S F) ppnl s2 else Ok (t1, s2)
                            | Err e => Err e
                            | Fuel => Fuel
                            end) = Ok (t, s') /\ next_post pol (S f) ppnl out t s').
    { intros x nbol SB EXE NEX. rewrite EXE.
      apply sbind_ok in SB. destruct SB as (o & SO & EO). inversion EO; subst out.
      destruct (is_kind KNewline (tk x) && negb ppnl) eqn:SK.
      - (* new-line skipped by next() *)
        apply andb_true_iff in SK. destruct SK as [KN PN]. destruct ppnl; [discriminate|].
        destruct (IH _ _ _ _ s1 (S F) false SO (conj I1 (conj eq_refl eq_refl))) as (t' & s' & NX & D); [lia|].
        exists t', s'. split; auto.
        destruct D as [(f' & pend' & l' & bol' & out' & h0 & LF & SG' & REL & TT & NE' & OUT)|[TT OUT]].
        + left. exists f', pend', l', bol', out', h0.
          split; [lia|]. split; [exact SG'|]. split; [exact REL|]. split; [exact TT|]. split; [exact NE'|].
          destruct OUT as (nls & NA & NH & ->). unfold outrel. exists (x :: nls). simpl. unfold is_nl at 1. rewrite KN. auto.
        + right. split; auto. simpl. unfold is_nl at 1. rewrite KN. exact OUT.
      - exists (tk x), s1. split; auto. left.
        exists f, (flat (ctx s1)), (src s1), nbol, o, x.
        split; [lia|]. split; [exact SO|]. split; [exact (conj I1 (conj eq_refl eq_refl))|].
        split; [reflexivity|]. split; [exact NEX|].
        unfold outrel. destruct ppnl; simpl; auto.
        exists []. simpl. split; auto. split; auto. unfold is_nl. rewrite andb_true_r in SK. exact SK. }
    destruct (is_kind KNewline (tk h)) eqn:KN.
    + assert (KI : is_kind KIdent (tk h) = false).
      { destruct (is_kind KIdent (tk h)) eqn:E; auto. apply is_kind_true in E. apply is_kind_true in KN. congruence. }
      rewrite KI in EX. cbn [negb] in EX. eapply EMIT; eauto.
    + destruct (is_kind KIdent (tk h)) eqn:KI; cbn [negb] in SG, EX.
      2:{ eapply EMIT; eauto. }
      destruct (macroget tb0 (lit (tk h))) as [m|] eqn:G.
      2:{ eapply EMIT; eauto. }
      rewrite HS in SG.
      destruct (hide (tk h) || mem_str (lit (tk h)) (names (ctx s1))) eqn:HD.
      { eapply EMIT; eauto. }
      destruct EX as (s2 & EXE & I2 & SR2 & FL2).
      rewrite EXE.
      destruct (IH _ _ _ _ s2 (S F) ppnl SG) as (t' & s' & NX & D).
      { split; [exact I2|]. split; [symmetry; exact FL2|symmetry; exact SR2]. }
      { lia. }
      exists t', s'. split; auto. eapply next_post_mono; [|exact D]. lia.
  - destruct M as (-> & FL & SR). inversion SG; subst out.
    exists eof_tok, s1. split; [reflexivity|]. right. split; auto. destruct ppnl; reflexivity.
Qed.

Lemma run_loop_S F emode s t acc :
  run_loop (S F) emode s t acc =
  if is_kind KEof t then (rev acc, Done)
  else match next F emode s with
       | Ok (t', s') => run_loop F emode s' t' (t :: acc)
       | Err e => (rev (t :: acc), Failed e)
       | Fuel => (rev (t :: acc), OutOfFuel)
       end.
Proof. reflexivity. Qed.

Lemma noeof_kind t : noeof t -> is_kind KEof t = false.
Proof.
  intros H. destruct (is_kind KEof t) eqn:E; auto. apply is_kind_true in E. contradiction.
Qed.

Lemma run_loop_sim pol : forall f pend l bol out s F t acc,
  sgo f pol tb0 pend l bol = SOk out -> related s pend l -> f + 1 < F -> noeof t ->
  run_loop F true s t acc = (rev acc ++ t :: List.map tk out, Done).
Proof.
  induction f as [f IHf] using lt_wf_ind. intros pend l bol out s F t acc SG REL LT NE.
  destruct F as [|F]; [lia|]. rewrite run_loop_S. rewrite (noeof_kind _ NE).
  destruct (next_sim pol f pend l bol out s F true SG REL) as (t' & s' & NX & P); [lia|].
  rewrite NX.
  destruct P as [(f' & pend' & l' & bol' & out' & h & LF & SG' & REL' & TT & NE' & OUT)|[-> OE]].
  - unfold outrel in OUT. subst out t'.
    rewrite (IHf f' LF pend' l' bol' out' s' F (tk h) (t :: acc) SG' REL'); auto; [|lia].
    simpl. rewrite <- app_assoc. reflexivity.
  - unfold outend in OE. subst out. destruct F as [|F]; [lia|]. rewrite run_loop_S. simpl. reflexivity.
Qed.

Lemma dropnl_app nls h out :
  forallb is_nl nls = true -> is_nl h = false -> dropnl (nls ++ h :: out) = h :: out.
Proof.
  induction nls as [|x r IH]; simpl; intros A B.
  - rewrite B. reflexivity.
  - apply andb_true_iff in A. destruct A as [A1 A2]. rewrite A1. auto.
Qed.

Lemma dropnl_all out : forallb is_nl out = true -> dropnl out = [].
Proof.
  induction out as [|x r IH]; simpl; auto. intros A. apply andb_true_iff in A. destruct A as [A1 A2].
  rewrite A1. auto.
Qed.

Lemma with_hide_false_id m : mhide m = false -> with_hide false m = m.
Proof. destruct m; simpl; intros ->; reflexivity. Qed.

Lemma init_related l : nohash l -> related (init_state tb0 l) [] l.
Proof.
  intros N. split; [|split; reflexivity]. constructor; simpl; auto.
  - constructor.
  - intros n. destruct (macroget tb0 n) as [m|] eqn:G; simpl; auto.
    destruct (OBJ _ _ G) as (_ & _ & HD). rewrite with_hide_false_id; auto.
Qed.

Lemma run_obj pol f out l : forall F,
  nohash l -> sgo f pol tb0 [] l true = SOk out -> f + 2 < F ->
  run F true tb0 l = (List.map tk (dropnl out), Done).
Proof.
  intros F N SG LT. unfold run.
  destruct (next_sim pol f [] l true out _ F false SG (init_related l N)) as (t & s' & NX & P); [lia|].
  rewrite NX.
  destruct P as [(f' & pend' & l' & bol' & out' & h & LF & SG' & REL' & TT & NE' & OUT)|[-> OE]].
  - unfold outrel in OUT. destruct OUT as (nls & NA & NH & ->). subst t.
    rewrite (run_loop_sim pol f' pend' l' bol' out' s' F (tk h) [] SG' REL'); auto; [|lia].
    rewrite dropnl_app by auto. reflexivity.
  - unfold outend in OE. rewrite dropnl_all by auto.
    destruct F as [|F]; [lia|]. rewrite run_loop_S. reflexivity.
Qed.

(* ------------------------------------------------------------------ invariants of the reachable states *)
Lemma next_inv : forall F ppnl s t s', Inv s -> next F ppnl s = Ok (t, s') -> Inv s'.
Proof.
  induction F as [|F IH]; intros ppnl s t s' I NX; [discriminate|].
  rewrite next_S in NX. destruct F as [|F].
  { destruct (rawnext 0 s) as [[? ?]| |]; simpl in NX; discriminate. }
  destruct (rawnext_obj s F I) as (t1 & s1 & RN & I1 & M). rewrite RN in NX.
  assert (NE : t1 = eof_tok \/ noeof t1).
  { destruct (spop (flat (ctx s)) (src s)) as [[[[h p] r] fs]|]; [right; apply M|left; apply M]. }
  assert (EX : exists b t2 s2, expand (S F) s1 t1 = Ok (b, t2, s2) /\ Inv s2).
  { destruct NE as [->|NE].
    - exists false, eof_tok, s1. split; [reflexivity|auto].
    - pose proof (expand_obj s1 t1 F I1 NE) as EX.
      destruct (negb (is_kind KIdent t1)); [eauto|].
      destruct (macroget tb0 (lit t1)); [|eauto].
      destruct (hide t1 || mem_str (lit t1) (names (ctx s1))); [eauto|].
      destruct EX as (s2 & E & I2 & _). eauto. }
  destruct EX as (b & t2 & s2 & E & I2). rewrite E in NX.
  destruct b.
  - eapply IH; eauto.
  - destruct (is_kind KNewline t2 && negb ppnl).
    + eapply IH; eauto.
    + inversion NX; subst. exact I2.
Qed.

(* states the preprocessor can be in between two calls of next() *)
Inductive reachable (l : list token) : state -> Prop :=
| reach_init : reachable l (init_state tb0 l)
| reach_next : forall s F ppnl t s', reachable l s -> next F ppnl s = Ok (t, s') -> reachable l s'.

Lemma reachable_inv l s : nohash l -> reachable l s -> Inv s.
Proof.
  intros N R. induction R.
  - apply (init_related l N).
  - eapply next_inv; eauto.
Qed.

(* m.hide <-> a frame of m is on ctx;  macrodepth = number of frames *)
Lemma obj_hide_iff_on_stack l s n m :
  nohash l -> reachable l s -> macroget (tbl s) n = Some m ->
  (mhide m = true <-> In n (names (ctx s))).
Proof.
  intros N R G. pose proof (reachable_inv l s N R) as [_ _ TR _ _].
  rewrite (TR n) in G. destruct (macroget tb0 n) as [m0|]; simpl in G; [|discriminate].
  inversion G; subst. simpl. apply mem_str_In.
Qed.

Lemma obj_depth_counts_frames l s :
  nohash l -> reachable l s -> depth s = length (ctx s) /\ NoDup (names (ctx s)).
Proof.
  intros N R. pose proof (reachable_inv l s N R) as [_ ND _ _ DP]. auto.
Qed.

(* more fuel does not change a result *)
Lemma sgo_mono pol : forall f pend l bol out g,
  nohash l -> sgo f pol tb0 pend l bol = SOk out -> f <= g -> sgo g pol tb0 pend l bol = SOk out.
Proof.
  induction f as [|f IH]; intros pend l bol out g N SG LE; [discriminate|].
  destruct g as [|g]; [lia|].
  rewrite sgo_obj_unfold in * by auto. unfold obj_step in *.
  destruct (spop pend l) as [[[[h p] r] fs]|] eqn:SP; auto.
  destruct (spop_clean _ _ _ _ _ _ SP N) as (Nr & _).
  assert (EM : forall x nbol, sbind (sgo f pol tb0 p r nbol) (fun o => SOk (x :: o)) = SOk out ->
                              sbind (sgo g pol tb0 p r nbol) (fun o => SOk (x :: o)) = SOk out).
  { intros x nbol SB. apply sbind_ok in SB. destruct SB as (o & SO & EO).
    rewrite (IH _ _ _ _ g Nr SO) by lia. exact EO. }
  destruct (is_kind KNewline (tk h)); auto.
  destruct (negb (is_kind KIdent (tk h))); auto.
  destruct (macroget tb0 (lit (tk h))); auto.
  destruct (hide (tk h) || mem_str (lit (tk h)) (hset h)); auto.
  apply IH with (g := g) in SG; auto. lia.
Qed.

End Obj.

Lemma out_eqb_refl a : out_eqb a a = true.
Proof.
  unfold out_eqb. rewrite Nat.eqb_refl. simpl.
  induction a as [|x r IH]; simpl; auto.
  rewrite kind_eqb_refl, str_eqb_refl. simpl. exact IH.
Qed.

Definition bound (tb : table) (l : list token) : nat := length l * W (maxbody tb) (length tb) + 4.

Fixpoint dropnl_tok (l : list token) : list token :=
  match l with
  | [] => []
  | t :: r => if is_kind KNewline t then dropnl_tok r else l
  end.

Lemma dropnl_map l : List.map tk (dropnl l) = dropnl_tok (List.map tk l).
Proof. induction l as [|h r IH]; simpl; auto. unfold is_nl. destruct (is_kind KNewline (tk h)); auto. Qed.

(* objlike_refines: for every table of object-like macros and every source without '#' tokens, with the
   explicit fuel bound  |src| * W(maxbody, |tb|) + 4   (W(B,0) = 1, W(B,k+1) = 1 + B * W(B,k)):
   - the specification terminates with a result `out` (both readings of 6.10.3.4p4 agree),
   - the frame machine of pp.c terminates (status Done) and delivers exactly `out` minus the leading
     new-lines that ppinit()'s first next() skips: same tokens, same white-space and hide flags. *)
Theorem objlike_refines tb l :
  all_object_like tb -> clean_bodies tb -> Forall clean_tok l ->
  forall fuel, bound tb l <= fuel ->
  exists out, spec_run fuel tb l = SOk out /\ run fuel true tb l = (dropnl_tok out, Done).
Proof.
  intros OBJ CB N fuel LE. unfold bound in LE.
  assert (MU : mu tb [] l = length l * W (maxbody tb) (length tb)).
  { unfold mu, NK, BB, keys. simpl. rewrite map_length. reflexivity. }
  destruct (sgo_terminates tb OBJ true (S (mu tb [] l)) [] l true) as (out & SG); auto.
  exists (List.map tk out).
  assert (SGf : sgo fuel true tb [] l true = SOk out).
  { apply (sgo_mono tb OBJ true _ _ _ _ _ fuel N SG). lia. }
  split.
  - unfold spec_run. rewrite <- (sgo_pol tb OBJ fuel [] l true N). rewrite SGf. rewrite out_eqb_refl. reflexivity.
  - rewrite <- dropnl_map. apply (run_obj tb OBJ CB true (S (mu tb [] l)) out l fuel N SG). lia.
Qed.
