(* C12 - stringize() against the spelling of 6.10.3.2p2, macroequal() against 6.10.3p2. *)
From Coq Require Import List NArith Arith Bool Lia.
From Cproc Require Import Model.PP Spec.MacroSpec Proofs.PPBasics.
Import ListNotations.

(* ------------------------------------------------------------------ stringize *)
(* what expandfunc does for a PARAMSTR parameter: buffer = opening quote, stringize every token of the
   argument in order, closing quote *)
Definition stringize_all (l : list token) : str := lit (str_token (fold_left stringize l [c_quote])).

(* tokens as the scanner makes them: a new-line has no spelling; any other token has a non-empty spelling
   that does not end in a space *)
Definition wf_tok (t : token) : Prop :=
  if is_kind KNewline t then lit t = [] else lit t <> [] /\ last (lit t) 0%N <> c_space.

Definition pend_after (p : bool) (l : list token) : bool := fold_left (fun _ t => is_kind KNewline t) l p.

Definition nonempty {A} (l : list A) : bool := match l with [] => false | _ => true end.

Lemma escape_nonempty l : l <> [] -> escape l <> [].
Proof. destruct l; simpl; [congruence|]. intros _. destruct (_ || _); discriminate. Qed.

Lemma escape_last l : last (escape l) 0%N = last l 0%N.
Proof.
  induction l as [|c r IH]; simpl; auto.
  destruct (N.eqb c c_bslash || N.eqb c c_quote).
  - destruct r as [|c' r']; simpl; auto.
    simpl in IH. destruct (N.eqb c' c_bslash || N.eqb c' c_quote); simpl in *; auto.
  - destruct r as [|c' r']; simpl; auto.
    simpl in IH. destruct (N.eqb c' c_bslash || N.eqb c' c_quote); simpl in *; auto.
Qed.

Lemma tok_spelling_props t :
  is_kind KNewline t = false -> wf_tok t -> tok_spelling t <> [] /\ last (tok_spelling t) 0%N <> c_space.
Proof.
  unfold wf_tok, tok_spelling. intros -> [H1 H2].
  destruct (is_kind KString t || is_kind KChar t).
  - split; [apply escape_nonempty; auto| rewrite escape_last; auto].
  - auto.
Qed.

Lemma last_app_ne {A} (a b : list A) d : b <> [] -> last (a ++ b) d = last b d.
Proof.
  intros H. induction a as [|x a IH]; simpl; auto.
  destruct (a ++ b) eqn:E; auto. apply app_eq_nil in E. destruct E; contradiction.
Qed.

Lemma head_rev_last (buf : str) c r : buf = c :: r -> last (rev buf) 0%N = c.
Proof. intros ->. simpl. rewrite last_app_ne by discriminate. reflexivity. Qed.

(* the invariant of the buffer (kept reversed): opening quote, the text X joined so far, and one extra
   space when a new-line has just been stringized *)
Definition buf_ok (buf : str) (X : str) (pend : bool) : Prop :=
  rev buf = c_quote :: X ++ (if pend && nonempty X then [c_space] else []) /\
  (X = [] \/ last X 0%N <> c_space).

Lemma buf_ok_length buf X p : buf_ok buf X p -> Nat.ltb 1 (length buf) = nonempty X.
Proof.
  intros [H _]. assert (L : length buf = length (rev buf)) by (symmetry; apply rev_length).
  rewrite H in L. simpl in L. rewrite app_length in L.
  destruct X; simpl in *.
  - rewrite andb_false_r in L. simpl in L. rewrite L. reflexivity.
  - apply Nat.ltb_lt. lia.
Qed.

Lemma buf_ok_head buf X p :
  buf_ok buf X p -> nonempty X = true ->
  match buf with c :: _ => N.eqb c c_space | [] => false end = p.
Proof.
  intros [H HX] NE. destruct buf as [|c r].
  - simpl in H. discriminate.
  - pose proof (head_rev_last (c :: r) c r eq_refl) as HL. rewrite H in HL.
    destruct X as [|x X']; [discriminate|]. simpl in NE.
    destruct p.
    + assert (E : (if true && nonempty (x :: X') then [c_space] else []) = [c_space]) by reflexivity.
      rewrite E in HL. rewrite app_comm_cons in HL. rewrite last_app_ne in HL by discriminate.
      cbn in HL. subst c. reflexivity.
    + assert (E : (if false && nonempty (x :: X') then [c_space] else []) = @nil N) by reflexivity.
      rewrite E, app_nil_r in HL.
      change (last (c_quote :: x :: X') 0%N) with (last (x :: X') 0%N) in HL.
      destruct HX as [HX|HX]; [discriminate|].
      apply N.eqb_neq. congruence.
Qed.

Lemma stringize_general l : forall buf X pend,
  Forall wf_tok l -> buf_ok buf X pend ->
  buf_ok (fold_left stringize l buf) (X ++ join (negb (nonempty X)) (ws_norm pend l)) (pend_after pend l).
Proof.
  induction l as [|t l IH]; intros buf X pend WF OK; simpl.
  - rewrite app_nil_r. exact OK.
  - inversion WF as [|? ? Wt Wl]; subst.
    destruct (is_kind KNewline t) eqn:NL.
    + (* new-line *)
      unfold wf_tok in Wt. rewrite NL in Wt.
      assert (OK' : buf_ok (stringize buf t) X true).
      { unfold stringize. rewrite NL, Wt.
        assert (L0 : (if is_kind KString t || is_kind KChar t then escape [] else []) = @nil N)
          by (destruct (_ || _); reflexivity).
        rewrite L0. cbn [rev app]. rewrite orb_true_r. cbn [andb].
        rewrite (buf_ok_length _ _ _ OK).
        destruct (nonempty X) eqn:NE.
        - rewrite (buf_ok_head _ _ _ OK NE). destruct OK as [H HX]. rewrite NE in H.
          destruct pend; cbn [negb andb].
          + split; auto. rewrite H. rewrite NE. reflexivity.
          + split; auto. cbn [rev]. rewrite H. cbn [andb]. rewrite NE. rewrite app_nil_r.
            reflexivity.
        - cbn [andb]. destruct OK as [H HX]. split; auto. rewrite H. rewrite NE.
          rewrite !andb_false_r. reflexivity. }
      specialize (IH _ _ _ Wl OK'). exact IH.
    + (* ordinary token *)
      destruct (tok_spelling_props t NL Wt) as [SN SL].
      set (sep := if (space t || pend) && nonempty X then [c_space] else []).
      assert (OK' : buf_ok (stringize buf t) (X ++ sep ++ tok_spelling t) false).
      { unfold stringize. rewrite NL. rewrite orb_false_r.
        rewrite (buf_ok_length _ _ _ OK).
        change (if is_kind KString t || is_kind KChar t then escape (lit t) else lit t) with (tok_spelling t).
        set (sp := tok_spelling t) in *.
        destruct (nonempty X) eqn:NE.
        - rewrite (buf_ok_head _ _ _ OK NE). destruct OK as [H HX]. rewrite NE in H.
          split.
          + rewrite rev_app_distr, rev_involutive. unfold sep.
            destruct pend, (space t); cbn [negb andb orb rev]; rewrite ?H; cbn [nonempty andb orb];
              rewrite ?app_nil_r, <- ?app_assoc; cbn [app]; rewrite ?app_nil_r, <- ?app_assoc;
              reflexivity.
          + right. rewrite app_assoc. rewrite last_app_ne; auto.
        - destruct OK as [H HX]. rewrite NE in H. rewrite andb_false_r in H.
          rewrite andb_false_r. cbn [andb]. split.
          + rewrite rev_app_distr, rev_involutive. rewrite H.
            unfold sep. rewrite andb_false_r. cbn. rewrite !app_nil_r.
            reflexivity.
          + right. rewrite app_assoc. rewrite last_app_ne; auto. }
      specialize (IH _ _ _ Wl OK').
      assert (NE' : nonempty (X ++ sep ++ tok_spelling t) = true).
      { destruct (X ++ sep ++ tok_spelling t) eqn:E; auto.
        apply app_eq_nil in E. destruct E as [_ E]. apply app_eq_nil in E. destruct E. contradiction. }
      rewrite NE' in IH. cbn [negb] in IH.
      assert (EQ : X ++ join (negb (nonempty X)) ((if pend then set_space true t else t) :: ws_norm false l)
                   = (X ++ sep ++ tok_spelling t) ++ join false (ws_norm false l)).
      { simpl. unfold sep.
        assert (TS : tok_spelling (if pend then set_space true t else t) = tok_spelling t)
          by (destruct pend; reflexivity).
        rewrite TS.
        assert (SP : space (if pend then set_space true t else t) = (space t || pend))
          by (destruct pend; simpl; [rewrite orb_true_r|rewrite orb_false_r]; reflexivity).
        rewrite SP. rewrite negb_involutive.
        rewrite <- !app_assoc. reflexivity. }
      rewrite EQ. exact IH.
Qed.

(* stringize_spec: the string literal cproc builds for a `#` parameter is the spelling 6.10.3.2p2
   prescribes, for every argument (new-lines inside the argument, also before the closing parenthesis,
   included) *)
Theorem stringize_spec l :
  Forall wf_tok l -> stringize_all l = spelling l.
Proof.
  intros WF. unfold stringize_all, str_token, spelling. cbn [lit].
  assert (OK : buf_ok [c_quote] [] false) by (split; auto).
  pose proof (stringize_general l [c_quote] [] false WF OK) as H. cbn [app nonempty negb] in H.
  set (buf := fold_left stringize l [c_quote]) in *.
  set (Y := join true (ws_norm false l)) in *.
  assert (G : rev (strip_space buf) = c_quote :: Y).
  { destruct (nonempty Y) eqn:NE.
    - pose proof (buf_ok_head _ _ _ H NE) as HD. pose proof (buf_ok_length _ _ _ H) as LN.
      rewrite NE in LN. destruct H as [H _]. rewrite NE in H.
      unfold strip_space. destruct buf as [|c r]; [discriminate|].
      rewrite LN, HD. destruct (pend_after false l).
      + cbn [andb] in *. cbn [rev] in H. rewrite app_comm_cons in H. apply app_inj_tail in H. apply H.
      + cbn [andb] in *. rewrite app_nil_r in H. exact H.
    - pose proof (buf_ok_length _ _ _ H) as LN. rewrite NE in LN. destruct H as [H _].
      rewrite NE, andb_false_r, app_nil_r in H.
      unfold strip_space. destruct buf as [|c r]; [discriminate|]. rewrite LN. exact H. }
  cbn [rev]. rewrite G. reflexivity.
Qed.

(* non-vacuity and a regression witness: the argument `a <new-line>` (finding `stringize-trailing-newline`,
   fixed in pp.c) *)
Example stringize_spec_trailing_newline :
  let l := [mkTok KIdent [97%N] false false; mkTok KNewline [] false false] in
  Forall wf_tok l /\ stringize_all l = [c_quote; 97%N; c_quote].
Proof.
  split.
  - constructor; [|constructor; [|constructor]].
    + unfold wf_tok. cbn. split; [discriminate|]. unfold c_space. intros E. discriminate E.
    + unfold wf_tok. cbn. reflexivity.
  - vm_compute. reflexivity.
Qed.

(* ------------------------------------------------------------------ macroequal *)
Lemma toks_eqb_spec f a b : toks_eqb f a b = true <-> same_body f a b.
Proof.
  revert f b. induction a as [|t a IH]; intros f [|u b]; simpl; split; intros H;
    try discriminate; try (inversion H; fail).
  - constructor.
  - reflexivity.
  - rewrite !andb_true_iff in H. destruct H as [[[K S] L] R].
    apply sb_cons.
    + apply kind_eqb_eq; auto.
    + apply str_eqb_eq; auto.
    + intros ->. simpl in S. apply eqb_prop; auto.
    + apply IH; auto.
  - inversion H as [|? ? ? ? ? HK HL HS HR]; subst. rewrite !andb_true_iff. repeat split.
    + apply kind_eqb_eq; auto.
    + destruct f; auto. simpl. rewrite HS by reflexivity. apply eqb_reflx.
    + apply str_eqb_eq; auto.
    + apply IH; auto.
Qed.

Lemma params_eqb_spec a b :
  params_eqb a b = true <->
  List.map pname a = List.map pname b /\ List.map pvar a = List.map pvar b /\
  List.map ptok a = List.map ptok b /\ List.map pstr a = List.map pstr b.
Proof.
  revert b. induction a as [|p a IH]; intros [|q b]; simpl; split; intros H; try discriminate; auto;
    try (destruct H as (H & _); discriminate).
  - unfold param_eqb in H. rewrite !andb_true_iff in H. destruct H as [[[[N T] S] V] R].
    apply str_eqb_eq in N. apply eqb_prop in T. apply eqb_prop in S. apply eqb_prop in V.
    apply IH in R. destruct R as (R1 & R2 & R3 & R4). repeat split; f_equal; auto.
  - destruct H as (H1 & H2 & H3 & H4).
    injection H1 as N1 R1. injection H2 as N2 R2. injection H3 as N3 R3. injection H4 as N4 R4.
    unfold param_eqb. rewrite !andb_true_iff. repeat split.
    + apply str_eqb_eq; auto.
    + rewrite N3. apply eqb_reflx.
    + rewrite N4. apply eqb_reflx.
    + rewrite N2. apply eqb_reflx.
    + apply IH. auto.
Qed.

(* macroequal decides "same definition" of 6.10.3p2 (white-space separation included) together with
   equality of the usage flags define() computed *)
Theorem macroequal_spec m1 m2 :
  macroequal m1 m2 = true <->
  same_def m1 m2 /\
  (mfunc m1 = true -> List.map ptok (mparams m1) = List.map ptok (mparams m2) /\
                      List.map pstr (mparams m1) = List.map pstr (mparams m2)).
Proof.
  unfold macroequal, same_def. rewrite !andb_true_iff. split.
  - intros [[K P] B]. apply eqb_prop in K. apply toks_eqb_spec in B.
    destruct (mfunc m1) eqn:F.
    + apply params_eqb_spec in P. destruct P as (P1 & P2 & P3 & P4). repeat split; auto.
    + repeat split; auto; discriminate.
  - intros [(K & P & B) FL]. repeat split.
    + rewrite K. apply eqb_reflx.
    + destruct (mfunc m1) eqn:F; auto. apply params_eqb_spec.
      destruct (P eq_refl) as [P1 P2]. destruct (FL eq_refl) as [P3 P4]. auto.
    + apply toks_eqb_spec; auto.
Qed.
