(* QbeProofs.v - what the checker QbeWf.wf_module guarantees about Qbe.run.
   Proved: determinism (trivial), soundness of the label rule (5) and of the terminator rule (6)
   with respect to the small-step semantics, uniqueness of definitions and of labels (rule 2).
   Stated here, proved in QbeSoundUndef.v (wf_sound, using QbeSoundType/Class/Dom): wf_sound_statement. *)
From Coq Require Import ZArith List Bool PArith FMapPositive Lia.
From Cproc Require Import Model.Qbe Model.QbeWf.
Import ListNotations.
Open Scope Z_scope.

(* ------------------------------------------------------------------ determinism *)
Theorem run_deterministic :
  forall fo m ext nglob entry fuel r1 r2,
    run fo m ext nglob entry fuel = r1 -> run fo m ext nglob entry fuel = r2 -> r1 = r2.
Proof. intros; congruence. Qed.

(* the full soundness statement of the checker; proved as QbeSoundUndef.wf_sound *)
Definition wf_sound_statement : Prop :=
  forall m, wf_module m = true ->
  forall fo ext nglob entry fuel,
    match run fo m ext nglob entry fuel with
    | Stuck (UndefTemp _) | Stuck (NoLabel _) | Stuck BadClass | Stuck (NoType _) | Stuck FellOffEnd => False
    | _ => True
    end.

(* ------------------------------------------------------------------ list helpers *)
Lemma flat_map_nil {A B} (f : A -> list B) l : flat_map f l = [] -> forall x, In x l -> f x = [].
Proof.
  induction l as [|a l IH]; simpl; intros H x Hx; [contradiction|].
  apply app_eq_nil in H. destruct H as [Ha Hl]. destruct Hx as [->|Hx]; auto.
Qed.

(* ------------------------------------------------------------------ consequences of wf_module *)
Lemma wf_func_viol m f : wf_module m = true -> In (Dfunc f) m -> func_viol f = [].
Proof.
  unfold wf_module. destruct (wf_module_list m) eqn:E; [|discriminate]. intros _ Hin.
  unfold wf_module_list in E.
  apply app_eq_nil in E. destruct E as [_ E]. apply app_eq_nil in E. destruct E as [_ E].
  pose proof (flat_map_nil _ _ E _ Hin) as H. simpl in H.
  apply app_eq_nil in H. tauto.
Qed.

Lemma wf_labels m f : wf_module m = true -> In (Dfunc f) m ->
  forall b l, In b (f_blocks f) -> In l (jump_targets (b_jump b)) -> find_suffix l (f_blocks f) <> None.
Proof.
  intros W Hin b l Hb Hl. pose proof (wf_func_viol _ _ W Hin) as V. unfold func_viol in V.
  apply app_eq_nil in V. destruct V as [V _]. unfold labels_viol in V.
  pose proof (flat_map_nil _ _ V _ Hb) as V1. pose proof (flat_map_nil _ _ V1 _ Hl) as V2.
  unfold has_label in V2. destruct (find_suffix l (f_blocks f)); [discriminate|discriminate].
Qed.

Lemma wf_term m f : wf_module m = true -> In (Dfunc f) m ->
  exists b, last_block (f_blocks f) = Some b /\ b_jump b <> None.
Proof.
  intros W Hin. pose proof (wf_func_viol _ _ W Hin) as V. unfold func_viol in V.
  apply app_eq_nil in V. destruct V as [_ V]. apply app_eq_nil in V. destruct V as [V _].
  unfold term_viol in V. destruct (last_block (f_blocks f)) as [b|]; [|discriminate].
  exists b. split; auto. destruct (b_jump b); [discriminate|discriminate].
Qed.

Lemma last_block_app pre b : last_block (pre ++ [b]) = Some b.
Proof.
  induction pre as [|a pre IH]; simpl; auto.
  destruct (pre ++ [b]) eqn:E; [destruct pre; discriminate|]. exact IH.
Qed.

Lemma find_suffix_split l bs b after : find_suffix l bs = Some (b, after) -> exists pre, bs = pre ++ b :: after.
Proof.
  induction bs as [|a bs IH]; simpl; [discriminate|].
  destruct (Pos.eqb (b_label a) l).
  - intros H. inversion H; subst. exists []. reflexivity.
  - intros H. destruct (IH H) as [pre ->]. exists (a :: pre). reflexivity.
Qed.

Lemma mod_funs_in m : forall acc g f, PM.find g (mod_funs m acc) = Some f -> In (Dfunc f) m \/ PM.find g acc = Some f.
Proof.
  induction m as [|d m IH]; simpl; intros acc g f H; auto.
  destruct d as [t|d|f0].
  - destruct (IH _ _ _ H); auto.
  - destruct (IH _ _ _ H); auto.
  - destruct (PM.find (f_name f0) acc) eqn:E.
    + destruct (IH _ _ _ H); auto.
    + destruct (IH _ _ _ H) as [|H1]; auto.
      destruct (Pos.eq_dec g (f_name f0)) as [->|N].
      * rewrite PM.gss in H1. inversion H1; subst. auto.
      * rewrite PM.gso in H1 by exact N. auto.
Qed.

Lemma ge_funs_in m ext g f : PM.find g (ge_funs (mk_genv m ext)) = Some f -> In (Dfunc f) m.
Proof.
  unfold mk_genv; simpl. intros H. destruct (mod_funs_in _ _ _ _ H) as [|H1]; auto.
  rewrite PM.gempty in H1. discriminate.
Qed.

(* ------------------------------------------------------------------ the invariant *)
Definition frame_ok (m : module) (fr : frame) : Prop :=
  In (Dfunc (fr_fn fr)) m /\ exists pre, f_blocks (fr_fn fr) = pre ++ fr_blk fr :: fr_after fr.

Definition state_ok (m : module) (st : state) : Prop := Forall (frame_ok m) (st_stack st).

(* results that are neither a missing label nor a fall off the end *)
Definition benign (r : result) : Prop := (forall l, r <> Stuck (NoLabel l)) /\ r <> Stuck FellOffEnd.

Definition ok_res {A} (x : res A) : Prop := match x with Ok _ => True | Err r => benign r end.

Ltac ben := unfold benign; split; [intros ?|]; discriminate.

Lemma bind_ok {A B} (x : res A) (f : A -> res B) : ok_res x -> (forall a, x = Ok a -> ok_res (f a)) -> ok_res (bind x f).
Proof. destruct x; simpl; auto. Qed.

Lemma read_ok env k r : ok_res (read env k r).
Proof.
  unfold read, stuckr. destruct r; simpl.
  - destruct (PM.find t env) as [[k' v]|]; [|ben]. destruct (cls_eqb k k'); simpl; auto. destruct k, k'; simpl; auto; ben.
  - destruct k; simpl; auto; ben.
  - destruct k; simpl; auto; ben.
  - destruct k; simpl; auto; ben.
  - destruct k; simpl; auto; ben.
Qed.

Lemma read1_ok env k r : ok_res (read1 env k r).
Proof. destruct r; simpl; [apply read_ok|ben]. Qed.

Ltac okr :=
  repeat first
    [ apply bind_ok; [ first [apply read_ok | apply read1_ok] | intros ? _ ]
    | apply read_ok | apply read1_ok
    | match goal with
      | |- ok_res (match ?x with _ => _ end) => destruct x
      | |- ok_res (if ?x then _ else _) => destruct x
      | |- ok_res (Ok _) => exact I
      | |- ok_res (stuckr _) => unfold stuckr; simpl; ben
      | |- ok_res (Err _) => simpl; ben
      end ].

Lemma eval_pure_ok fo env o k a0 a1 : ok_res (eval_pure fo env o k a0 a1).
Proof. unfold eval_pure. destruct o; okr. Qed.

Lemma eval_phis_ok old from ps : forall env, ok_res (eval_phis old from ps env).
Proof.
  induction ps as [|p ps IH]; simpl; intros env; [exact I|].
  destruct (phi_arg from (p_args p)); [|unfold stuckr; simpl; ben].
  apply bind_ok; [apply read_ok|]. intros; apply IH.
Qed.

Lemma eval_args_ok env args : forall sv, ok_res (eval_args env args sv).
Proof.
  induction args as [|a args IH]; simpl; intros sv; [exact I|].
  destruct a as [t r|].
  - apply bind_ok; [apply read_ok|]. intros v _. apply bind_ok; [apply IH|]. intros fv _. destruct sv; exact I.
  - destruct sv; [unfold stuckr; simpl; ben|apply IH].
Qed.

Lemma copy_in_ok st a n : ok_res (copy_in st a n).
Proof. unfold copy_in. okr. Qed.

Lemma agg_size_ok ge t : ok_res (agg_size ge t).
Proof. unfold agg_size. okr. Qed.

Lemma bind_params_ok ge ps : forall st avs env allocs, ok_res (bind_params ge st ps avs env allocs).
Proof.
  induction ps as [|[ty t] ps IH]; intros st avs env allocs; simpl.
  - exact I.
  - destruct avs as [|[ty' v] avs]; [destruct ty; unfold stuckr; simpl; ben|].
    destruct ty as [k|ag]; destruct ty' as [k'|ag']; try (unfold stuckr; simpl; ben).
    + destruct (cls_eqb k k'); [apply IH|unfold stuckr; simpl; ben].
    + apply bind_ok; [apply agg_size_ok|]. intros n _. apply bind_ok; [apply copy_in_ok|]. intros sp _. apply IH.
Qed.

Lemma bind_va_ok ge avs : forall st allocs, ok_res (bind_va ge st avs allocs).
Proof.
  induction avs as [|[ty v] avs IH]; intros st allocs; simpl; [exact I|].
  destruct ty as [k|ag].
  - apply bind_ok; [apply IH|]. intros [[st' l] al] _. exact I.
  - apply bind_ok; [apply agg_size_ok|]. intros n _. apply bind_ok; [apply copy_in_ok|]. intros sp _.
    apply bind_ok; [apply IH|]. intros [[st' l] al] _. exact I.
Qed.

(* the outcome of one step: the invariant is kept, and a final result is benign *)
Definition good (m : module) (s : step_result) : Prop :=
  match s with Next st' => state_ok m st' | Final r => benign r end.

Lemma final_of_good {A} m (x : res A) (f : A -> step_result) :
  ok_res x -> (forall a, x = Ok a -> good m (f a)) -> good m (final_of x f).
Proof. destruct x; simpl; auto. Qed.

Lemma frame_ok_upd m fr env code allocs dst : frame_ok m fr -> frame_ok m (upd_frame fr env code allocs dst).
Proof. unfold frame_ok, upd_frame; simpl; auto. Qed.

Lemma enter_good m fr b after :
  In (Dfunc (fr_fn fr)) m -> (exists pre, f_blocks (fr_fn fr) = pre ++ b :: after) ->
  ok_res (enter fr b after) /\ forall fr', enter fr b after = Ok fr' -> frame_ok m fr'.
Proof.
  intros Hin Hpre. unfold enter. split.
  - apply bind_ok; [apply eval_phis_ok|]. intros; exact I.
  - intros fr'. destruct (eval_phis _ _ _ _); simpl; [|discriminate]. intros H; inversion H; subst; clear H.
    unfold frame_ok; simpl. auto.
Qed.

Lemma goto_good m fr l (W : wf_module m = true) :
  frame_ok m fr -> In l (jump_targets (b_jump (fr_blk fr))) ->
  ok_res (goto fr l) /\ forall fr', goto fr l = Ok fr' -> frame_ok m fr'.
Proof.
  intros [Hin [pre Hpre]] Hl. unfold goto.
  assert (Hb : In (fr_blk fr) (f_blocks (fr_fn fr))) by (rewrite Hpre; apply in_or_app; right; left; reflexivity).
  pose proof (wf_labels _ _ W Hin _ _ Hb Hl) as NL.
  destruct (find_suffix l (f_blocks (fr_fn fr))) as [[b after]|] eqn:E; [|congruence].
  apply enter_good; auto. eapply find_suffix_split; eauto.
Qed.

Lemma do_return_good m ge st fr rest v :
  Forall (frame_ok m) rest -> good m (do_return ge st fr rest v).
Proof.
  intros Hrest. unfold do_return. destruct rest as [|caller rest']; [simpl; ben|].
  inversion Hrest as [|? ? Hc Hr]; subst.
  assert (G : forall st1 env callocs,
             good m (Next (upd_state st1 (free_blocks (fr_allocs fr) (st_mem st1))
                                     (upd_frame caller env (fr_code caller) callocs None :: rest')))).
  { intros. simpl. unfold state_ok; simpl. constructor; auto; try (apply frame_ok_upd; auto). }
  destruct (fr_dst caller) as [[t [k|ty]]|]; [| |apply G].
  - destruct v as [[k' x]|]; [|apply G]. destruct (cls_eqb k k'); [apply G|]. destruct k, k'; try apply G; simpl; ben.
  - destruct v as [[[] x]|]; try (simpl; ben).
    apply final_of_good.
    + apply bind_ok; [apply agg_size_ok|]. intros; apply copy_in_ok.
    + intros sp _. apply G.
Qed.

Lemma entry_frame_good m id f env allocs va (W : wf_module m = true) :
  In (Dfunc f) m -> ok_res (entry_frame id f env allocs va) /\ forall nf, entry_frame id f env allocs va = Ok nf -> frame_ok m nf.
Proof.
  intros Hin. unfold entry_frame. destruct (f_blocks f) as [|b after] eqn:E.
  - destruct (wf_term _ _ W Hin) as [b [Hl _]]. rewrite E in Hl. discriminate.
  - split; [exact I|]. intros nf H; inversion H; subst. unfold frame_ok; simpl. split; auto. exists []. simpl. auto.
Qed.

Lemma do_call_good m ext st fr rest code d f args (W : wf_module m = true) :
  frame_ok m fr -> Forall (frame_ok m) rest -> good m (do_call (mk_genv m ext) st fr rest code d f args).
Proof.
  intros Hfr Hrest. unfold do_call.
  apply final_of_good.
  { apply bind_ok; [apply read_ok|]. intros a _. apply bind_ok; [apply eval_args_ok|]. intros; exact I. }
  intros [a [fixed var]] _.
  destruct (split_addr a) as [[g off]|]; [|simpl; ben].
  destruct (negb (off =? 0)); [simpl; ben|].
  destruct (PM.find g (ge_funs (mk_genv m ext))) as [fn|] eqn:Ef.
  - pose proof (ge_funs_in _ _ _ _ Ef) as Hfn.
    match goal with |- good m (final_of ?x ?k) => assert (OK : ok_res x /\ forall sn, x = Ok sn -> frame_ok m (snd sn)) end.
    { split.
      - apply bind_ok; [apply bind_params_ok|]. intros [[[st1 env] allocs] extra] _.
        apply bind_ok.
        + destruct (f_vararg fn); [apply bind_va_ok|]. destruct extra; destruct var; simpl; try exact I; unfold stuckr; simpl; ben.
        + intros [[st2 va] allocs2] _. apply bind_ok; [apply (entry_frame_good m _ _ _ _ _ W Hfn)|]. intros; exact I.
      - intros [st2 nf]. simpl.
        destruct (bind_params _ _ _ _ _ _) as [[[[st1 env] allocs] extra]|]; simpl; [|discriminate].
        match goal with |- bind ?y _ = _ -> _ => destruct y as [[[st2' va] allocs2]|]; simpl; [|discriminate] end.
        destruct (entry_frame (st_ncall st2') fn env allocs2 va) as [nf'|] eqn:En; simpl; [|discriminate].
        intros H; inversion H; subst. eapply (entry_frame_good m _ _ _ _ _ W Hfn); eauto. }
    destruct OK as [OK1 OK2]. apply final_of_good; auto.
    intros [st2 nf] E. simpl. unfold state_ok; simpl. constructor; [exact (OK2 _ E)|].
    constructor; auto; try (apply frame_ok_upd; auto).
  - destruct (find_ext (ge_ext (mk_genv m ext)) g) as [x|]; [|simpl; ben].
    assert (C : forall tr, good m (match d with
              | Some _ => Final (Stuck BadCall)
              | None => Next {| st_mem := st_mem st; st_next := st_next st; st_ncall := st_ncall st;
                                st_stack := upd_frame fr (fr_env fr) code (fr_allocs fr) None :: rest; st_trace := tr |} end)).
    { intros tr. destruct d; simpl; [ben|]. unfold state_ok; simpl. constructor; auto; try (apply frame_ok_upd; auto). }
    destruct x; destruct fixed as [|[[[]|] v] [|? ?]]; destruct var; try (simpl; ben); try apply C.
Qed.

Lemma step_good m fo ext st (W : wf_module m = true) :
  state_ok m st -> good m (step fo (mk_genv m ext) st).
Proof.
  unfold state_ok. intros Hst. unfold step.
  destruct (st_stack st) as [|fr rest] eqn:Es; [simpl; ben|].
  inversion Hst as [|? ? Hfr Hrest]; subst.
  assert (K : forall mm env' code allocs dst,
             good m (Next (upd_state st mm (upd_frame fr env' code allocs dst :: rest)))).
  { intros. simpl. unfold state_ok; simpl. constructor; auto; try (apply frame_ok_upd; auto). }
  destruct (fr_code fr) as [|i code] eqn:Ec.
  - (* end of block: the jump *)
    assert (J : forall l, In l (jump_targets (b_jump (fr_blk fr))) ->
                good m (final_of (goto fr l) (fun fr' => Next (upd_state st (st_mem st) (fr' :: rest))))).
    { intros l Hl. destruct (goto_good m fr l W Hfr Hl) as [G1 G2]. apply final_of_good; auto.
      intros fr' E. simpl. unfold state_ok; simpl. constructor; auto. }
    destruct (b_jump (fr_blk fr)) as [[l|r l1 l2|[r|]|]|] eqn:Ej.
    + apply J. simpl; auto.
    + apply final_of_good; [apply read_ok|]. intros v _. apply J. simpl. destruct (v =? 0); auto.
    + destruct (f_ret (fr_fn fr)) as [[k|ty]|]; [| |simpl; ben].
      * apply final_of_good; [apply read_ok|]. intros; apply do_return_good; auto.
      * apply final_of_good; [apply read_ok|]. intros; apply do_return_good; auto.
    + apply do_return_good; auto.
    + simpl; ben.
    + (* fall through *)
      destruct Hfr as [Hin [pre Hpre]].
      destruct (fr_after fr) as [|b after] eqn:Ea.
      * exfalso. destruct (wf_term _ _ W Hin) as [b [Hl Hj]]. rewrite Hpre, last_block_app in Hl.
        inversion Hl; subst. congruence.
      * destruct (enter_good m fr b after Hin) as [G1 G2].
        { exists (pre ++ [fr_blk fr]). rewrite Hpre, <- app_assoc. reflexivity. }
        apply final_of_good; auto. intros fr' E. simpl. unfold state_ok; simpl. constructor; auto.
  - destruct i as [d o a0 a1|d f args].
    + destruct o; try (destruct d as [[t k]|]; [apply final_of_good; [apply eval_pure_ok|intros; apply K]|simpl; ben]).
      * (* store *)
        destruct d; [simpl; ben|]. apply final_of_good.
        { apply bind_ok; [apply read_ok|]. intros; apply bind_ok; [apply read1_ok|]. intros; exact I. }
        intros va _. destruct (mem_store _ _ _ _); [apply K|simpl; ben].
      * (* load *)
        destruct d as [[t k]|]; [|simpl; ben]. destruct a1; [simpl; ben|].
        apply final_of_good; [apply read_ok|]. intros a _.
        destruct (mem_load _ _ _); [|simpl; ben]. destruct (load_result _ _ _); [apply K|simpl; ben].
      * (* alloc *)
        destruct d as [[t []]|]; try (simpl; ben). destruct a1; [simpl; ben|].
        apply final_of_good; [apply read_ok|]. intros n _.
        destruct (MAXALLOC <=? n); [simpl; ben|]. simpl. unfold state_ok; simpl. constructor; auto; try (apply frame_ok_upd; auto).
      * (* vastart *)
        destruct d; [simpl; ben|]. destruct a1; [simpl; ben|].
        apply final_of_good; [apply read_ok|]. intros a _. destruct (mem_store _ _ _ _); [apply K|simpl; ben].
      * (* vaarg *)
        destruct d as [[t k]|]; [|simpl; ben]. destruct a1; [simpl; ben|].
        apply final_of_good; [apply read_ok|]. intros a _.
        destruct (mem_load _ _ _) as [c|]; [|simpl; ben].
        destruct (c / VASHIFT); try (simpl; ben).
        destruct (find_frame _ _); [|simpl; ben].
        destruct (nth_error _ _) as [[k' v]|]; [|simpl; ben].
        match goal with |- good m (match ?x with _ => _ end) => destruct x end; [|simpl; ben].
        destruct (mem_store _ _ _ _); [apply K|simpl; ben].
    + apply do_call_good; auto.
Qed.

Lemma run_state_good m fo ext (W : wf_module m = true) :
  forall fuel st, state_ok m st -> benign (run_state fo (mk_genv m ext) fuel st).
Proof.
  induction fuel as [|n IH]; intros st Hst; simpl; [ben|].
  pose proof (step_good m fo ext st W Hst) as G.
  destruct (step fo (mk_genv m ext) st); simpl in G; auto.
Qed.

Lemma run_benign m (W : wf_module m = true) fo ext nglob entry fuel : benign (run fo m ext nglob entry fuel).
Proof.
  unfold run, init_state.
  destruct (PM.find entry (ge_funs (mk_genv m ext))) as [f|] eqn:E; [|simpl; ben].
  pose proof (ge_funs_in _ _ _ _ E) as Hin.
  match goal with |- benign (match bind ?x _ with _ => _ end) =>
    destruct (entry_frame_good m 1%positive f
               (fold_left (fun e (p : rty * ident) => PM.add (snd p) (match fst p with Tbase k => k | Tagg _ => Kl end, 0) e)
                          (f_params f) (PM.empty (cls * Z))) [] [] W Hin) as [G1 G2] end.
  destruct (entry_frame _ _ _ _ _) as [fr|r] eqn:Ef; simpl.
  - apply run_state_good; auto. unfold state_ok; simpl. constructor; auto.
  - exact G1.
Qed.

(* rule (5): a module accepted by the checker never gets stuck on a missing label *)
Theorem wf_labels_sound :
  forall m, wf_module m = true ->
  forall fo ext nglob entry fuel l, run fo m ext nglob entry fuel <> Stuck (NoLabel l).
Proof. intros m W fo ext nglob entry fuel l. exact (proj1 (run_benign m W fo ext nglob entry fuel) l). Qed.

(* rule (6): ... and never falls off the end of a function or enters a function without blocks *)
Theorem wf_terminated_sound :
  forall m, wf_module m = true ->
  forall fo ext nglob entry fuel, run fo m ext nglob entry fuel <> Stuck FellOffEnd.
Proof. intros m W fo ext nglob entry fuel. exact (proj2 (run_benign m W fo ext nglob entry fuel)). Qed.

(* ------------------------------------------------------------------ rule (2): unique definitions and labels *)
Definition inst_def (i : inst) : list ident :=
  match i with Iop (Some (t, _)) _ _ _ => [t] | Icall (Some (t, _)) _ _ => [t] | _ => [] end.
Definition block_def_temps (b : block) : list ident := map p_res (b_phis b) ++ flat_map inst_def (b_insts b).
Definition func_def_temps (f : func) : list ident := map snd (f_params f) ++ flat_map block_def_temps (f_blocks f).

Definition dacc := (PM.t site * list violation)%type.
Definition Inv (acc : dacc) (seen : list ident) : Prop :=
  NoDup seen /\ forall t, In t seen <-> PM.find t (fst acc) <> None.

Lemma NoDup_snoc {A} (l : list A) x : NoDup l -> ~ In x l -> NoDup (l ++ [x]).
Proof.
  induction l as [|a l IH]; simpl; intros ND NI.
  - constructor; [intros []|constructor].
  - inversion ND; subst. constructor.
    + intros H. apply in_app_or in H. destruct H as [H|[H|[]]]; auto.
    + apply IH; auto.
Qed.

Lemma add_def_inv fn bl t s (acc : dacc) :
  snd (add_def fn bl t s acc) = [] -> snd acc = [] /\ forall seen, Inv acc seen -> Inv (add_def fn bl t s acc) (seen ++ [t]).
Proof.
  unfold add_def. destruct (PM.find t (fst acc)) eqn:E; simpl; [discriminate|].
  intros H; split; auto. intros seen [ND M]. split.
  - apply NoDup_snoc; auto. intros Hin. apply M in Hin. congruence.
  - intros t'. simpl. destruct (Pos.eq_dec t' t) as [->|N].
    + rewrite PM.gss. split; [discriminate|]. intros _. apply in_or_app. right. left. reflexivity.
    + rewrite PM.gso by exact N. rewrite <- M. split.
      * intros H1. apply in_app_or in H1. destruct H1 as [|[H1|[]]]; auto. congruence.
      * intros H1. apply in_or_app. auto.
Qed.

Lemma fold_add_inv {X} (step : dacc -> X -> dacc) (g : X -> ident)
      (Hs : forall a x, exists fn bl s, step a x = add_def fn bl (g x) s a) :
  forall xs acc, snd (fold_left step xs acc) = [] ->
                 snd acc = [] /\ forall seen, Inv acc seen -> Inv (fold_left step xs acc) (seen ++ map g xs).
Proof.
  induction xs as [|x xs IH]; simpl; intros acc H.
  - split; auto. intros seen I. rewrite app_nil_r. exact I.
  - destruct (IH _ H) as [H1 H2]. destruct (Hs acc x) as [fn [bl [s E]]]. rewrite E in H1, H2.
    destruct (add_def_inv _ _ _ _ _ H1) as [H3 H4]. split; auto.
    intros seen I. specialize (H2 _ (H4 _ I)). rewrite <- app_assoc in H2. rewrite E. exact H2.
Qed.

Lemma inst_defs_inv fn bl bi mask : forall is i acc,
  snd (inst_defs fn bl bi mask is i acc) = [] ->
  snd acc = [] /\ forall seen, Inv acc seen -> Inv (inst_defs fn bl bi mask is i acc) (seen ++ flat_map inst_def is).
Proof.
  induction is as [|x is IH]; simpl; intros i acc H.
  - split; auto. intros seen I. rewrite app_nil_r. exact I.
  - destruct x as [[[t k]|] o a0 a1|[[t ty]|] f args]; simpl.
    + destruct (IH _ _ H) as [H1 H2]. destruct (add_def_inv _ _ _ _ _ H1) as [H3 H4]. split; auto.
      intros seen I. specialize (H2 _ (H4 _ I)). rewrite <- app_assoc in H2. exact H2.
    + apply IH; auto.
    + destruct (IH _ _ H) as [H1 H2]. destruct (add_def_inv _ _ _ _ _ H1) as [H3 H4]. split; auto.
      intros seen I. specialize (H2 _ (H4 _ I)). rewrite <- app_assoc in H2. exact H2.
    + apply IH; auto.
Qed.

Lemma block_defs_inv fn acc nb :
  snd (block_defs fn acc nb) = [] ->
  snd acc = [] /\ forall seen, Inv acc seen -> Inv (block_defs fn acc nb) (seen ++ block_def_temps (nb_blk nb)).
Proof.
  unfold block_defs. intros H.
  destruct (inst_defs_inv _ _ _ _ _ _ _ H) as [H1 H2].
  destruct (fold_add_inv (fun a p => add_def fn (b_label (nb_blk nb)) (p_res p)
                                       {| s_blk := Zpos (nb_idx nb); s_pos := -1; s_mask := nb_mask nb; s_cls := p_cls p |} a)
                         p_res (fun a x => ex_intro _ _ (ex_intro _ _ (ex_intro _ _ eq_refl))) _ _ H1) as [H3 H4].
  split; auto. intros seen I. specialize (H2 _ (H4 _ I)). unfold block_def_temps. rewrite app_assoc. exact H2.
Qed.

Lemma blocks_defs_inv fn : forall nbs acc,
  snd (fold_left (block_defs fn) nbs acc) = [] ->
  snd acc = [] /\ forall seen, Inv acc seen ->
                   Inv (fold_left (block_defs fn) nbs acc) (seen ++ flat_map (fun nb => block_def_temps (nb_blk nb)) nbs).
Proof.
  induction nbs as [|nb nbs IH]; simpl; intros acc H.
  - split; auto. intros seen I. rewrite app_nil_r. exact I.
  - destruct (IH _ H) as [H1 H2]. destruct (block_defs_inv _ _ _ H1) as [H3 H4]. split; auto.
    intros seen I. specialize (H2 _ (H4 _ I)). rewrite <- app_assoc in H2. exact H2.
Qed.

Lemma number_blocks : forall bs i mask, flat_map (fun nb => block_def_temps (nb_blk nb)) (number bs i mask) = flat_map block_def_temps bs.
Proof. induction bs as [|b bs IH]; simpl; intros; auto. rewrite IH. reflexivity. Qed.

(* every temporary of a function accepted by the checker has exactly one definition
   (parameter, phi or instruction result) *)
Theorem wf_defs_unique :
  forall m f, wf_module m = true -> In (Dfunc f) m -> NoDup (func_def_temps f).
Proof.
  intros m f W Hin. pose proof (wf_func_viol _ _ W Hin) as V. unfold func_viol in V.
  apply app_eq_nil in V. destruct V as [_ V]. apply app_eq_nil in V. destruct V as [_ V].
  apply app_eq_nil in V. destruct V as [_ V]. apply app_eq_nil in V. destruct V as [V _].
  assert (S : snd (func_defs f (number (f_blocks f) 1%positive 1)) = []).
  { destruct (snd (func_defs f (number (f_blocks f) 1%positive 1))) eqn:E; auto.
    simpl in V. apply app_eq_nil in V. destruct V as [_ V]. discriminate. }
  unfold func_defs in S.
  destruct (blocks_defs_inv _ _ _ S) as [S1 I1].
  destruct (fold_add_inv (fun a (p : rty * ident) => add_def (f_name f) 1%positive (snd p)
                                       {| s_blk := 0; s_pos := -1; s_mask := 0; s_cls := rty_cls (fst p) |} a)
                         snd (fun a x => ex_intro _ _ (ex_intro _ _ (ex_intro _ _ eq_refl))) _ _ S1) as [_ I0].
  assert (E0 : Inv (PM.empty site, []) []).
  { split; [constructor|]. intros t; simpl. rewrite PM.gempty. split; [contradiction|congruence]. }
  specialize (I1 _ (I0 _ E0)). simpl in I1. rewrite number_blocks in I1. exact (proj1 I1).
Qed.

Lemma dup_labels_nodup fn : forall bs seen,
  dup_labels fn bs seen = [] ->
  NoDup (map b_label bs) /\ forall l, In l (map b_label bs) -> PM.find l seen = None.
Proof.
  induction bs as [|b bs IH]; simpl; intros seen H.
  - split; [constructor|contradiction].
  - destruct (PM.find (b_label b) seen) eqn:E; [discriminate|].
    destruct (IH _ H) as [ND M]. split.
    + constructor; auto. intros Hin. specialize (M _ Hin). rewrite PM.gss in M. discriminate.
    + intros l [<-|Hl]; auto. specialize (M _ Hl).
      destruct (Pos.eq_dec l (b_label b)) as [->|N]; auto. rewrite PM.gso in M by exact N. exact M.
Qed.

(* the labels of a function accepted by the checker are pairwise distinct *)
Theorem wf_labels_unique :
  forall m f, wf_module m = true -> In (Dfunc f) m -> NoDup (map b_label (f_blocks f)).
Proof.
  intros m f W Hin. pose proof (wf_func_viol _ _ W Hin) as V. unfold func_viol in V.
  apply app_eq_nil in V. destruct V as [_ V]. apply app_eq_nil in V. destruct V as [_ V].
  apply app_eq_nil in V. destruct V as [V _].
  exact (proj1 (dup_labels_nodup _ _ _ V)).
Qed.
