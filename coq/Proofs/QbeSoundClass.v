(* QbeSoundClass.v - soundness of rules (4)/(8) of the checker QbeWf.wf_module with respect to Qbe.run:
   a module accepted by the checker never stops with [Stuck BadClass].

   Invariant over executions: in every frame, every register that is defined holds a value tagged with
   the class recorded for its unique definition site in [func_defs] (parameter, phi, instruction or
   call result), the frame executes a suffix of a block of a function of the module, and the result
   register of a pending call is recorded with the class of the call's result type.  With that,
   [inst_class_ok] / [block_class_viol] = [] exclude every BadClass of [read], [eval_pure] and [step].
   The dominance rule (3) is not needed: reading a register that is not defined yet is
   [Stuck (UndefTemp _)], a different result. *)
From Coq Require Import ZArith List Bool PArith FMapPositive Lia.
From Cproc Require Import Model.Qbe Model.QbeWf Proofs.QbeProofs.
Import ListNotations.
Open Scope Z_scope.

Arguments ok_ref : simpl never.

(* ------------------------------------------------------------------ static part: the definition table *)
Definition fdefs (f : func) : PM.t site := fst (func_defs f (number (f_blocks f) 1%positive 1)).
Arguments fdefs : simpl never.

(* t is recorded with class k *)
Definition has_cls (defs : PM.t site) (t : ident) (k : cls) : Prop :=
  exists s, PM.find t defs = Some s /\ s_cls s = k.

(* b keeps every binding of a *)
Definition dext (a b : dacc) : Prop := forall t s, PM.find t (fst a) = Some s -> PM.find t (fst b) = Some s.

Lemma dext_refl a : dext a a.
Proof. intros t s H; exact H. Qed.
Lemma dext_trans a b c : dext a b -> dext b c -> dext a c.
Proof. intros A B t s H. apply B, A, H. Qed.

Lemma add_def_ext fn bl t s acc : dext acc (add_def fn bl t s acc).
Proof.
  unfold add_def. intros t' s' H. destruct (PM.find t (fst acc)) eqn:E; simpl; auto.
  destruct (Pos.eq_dec t' t) as [->|N]; [congruence|]. rewrite PM.gso by exact N. exact H.
Qed.

Lemma add_def_new fn bl t s acc : snd (add_def fn bl t s acc) = [] -> PM.find t (fst (add_def fn bl t s acc)) = Some s.
Proof. unfold add_def. destruct (PM.find t (fst acc)); simpl; [discriminate|]. intros _. apply PM.gss. Qed.

Lemma has_cls_ext a b t k : dext a b -> has_cls (fst a) t k -> has_cls (fst b) t k.
Proof. intros E [s [H1 H2]]. exists s. split; auto. Qed.

Lemma fold_add_ext {X} (step : dacc -> X -> dacc)
      (Hs : forall a x, exists fn bl t s, step a x = add_def fn bl t s a) :
  forall xs acc, dext acc (fold_left step xs acc).
Proof.
  induction xs as [|x xs IH]; simpl; intros acc; [apply dext_refl|].
  eapply dext_trans; [|apply IH]. destruct (Hs acc x) as (fn & bl & t & s & ->). apply add_def_ext.
Qed.

Lemma fold_add_has {X} (step : dacc -> X -> dacc) (g : X -> ident) (c : X -> cls)
      (Hs : forall a x, exists fn bl s, step a x = add_def fn bl (g x) s a /\ s_cls s = c x) :
  forall xs acc, snd (fold_left step xs acc) = [] ->
                 forall x, In x xs -> has_cls (fst (fold_left step xs acc)) (g x) (c x).
Proof.
  assert (Hs' : forall a x, exists fn bl t s, step a x = add_def fn bl t s a).
  { intros a x. destruct (Hs a x) as (fn & bl & s & E & _). eauto. }
  assert (Hs'' : forall a x, exists fn bl s, step a x = add_def fn bl (g x) s a).
  { intros a x. destruct (Hs a x) as (fn & bl & s & E & _). eauto. }
  induction xs as [|y xs IH]; simpl; intros acc H x Hx; [contradiction|].
  destruct Hx as [->|Hx]; [|apply IH; auto].
  pose proof (proj1 (fold_add_inv step g Hs'' xs _ H)) as H1.
  destruct (Hs acc x) as (fn & bl & s & E & Ec). rewrite E in *.
  apply (has_cls_ext (add_def fn bl (g x) s acc)); [apply fold_add_ext; auto|].
  exists s. split; auto. apply add_def_new; auto.
Qed.

(* the register an instruction defines, with the class recorded for it *)
Definition inst_res (i : inst) : option (ident * cls) :=
  match i with
  | Iop (Some (t, k)) _ _ _ => Some (t, k)
  | Icall (Some (t, ty)) _ _ => Some (t, rty_cls ty)
  | _ => None end.

Lemma inst_defs_ext fn bl bi mask : forall is i acc, dext acc (inst_defs fn bl bi mask is i acc).
Proof.
  induction is as [|x is IH]; simpl; intros i acc; [apply dext_refl|].
  destruct x as [[[t k]|] o a0 a1|[[t ty]|] f args]; try apply IH;
    (eapply dext_trans; [apply add_def_ext|apply IH]).
Qed.

Lemma inst_defs_has fn bl bi mask : forall is i acc,
  snd (inst_defs fn bl bi mask is i acc) = [] ->
  forall x t k, In x is -> inst_res x = Some (t, k) -> has_cls (fst (inst_defs fn bl bi mask is i acc)) t k.
Proof.
  induction is as [|y is IH]; simpl; intros i acc H x t k Hx Hr; [contradiction|].
  destruct Hx as [->|Hx].
  - destruct x as [[[t' k']|] o a0 a1|[[t' ty]|] f args]; simpl in Hr; try discriminate; inversion Hr; subst; clear Hr.
    + pose proof (proj1 (inst_defs_inv _ _ _ _ _ _ _ H)) as H1.
      eapply has_cls_ext; [apply inst_defs_ext|]. eexists; split; [apply add_def_new; exact H1|reflexivity].
    + pose proof (proj1 (inst_defs_inv _ _ _ _ _ _ _ H)) as H1.
      eapply has_cls_ext; [apply inst_defs_ext|]. eexists; split; [apply add_def_new; exact H1|reflexivity].
  - destruct y as [[[t' k']|] o a0 a1|[[t' ty]|] f args]; eapply IH; eauto.
Qed.

Definition phi_step (fn : ident) (nb : nblock) (a : dacc) (p : phi) : dacc :=
  add_def fn (b_label (nb_blk nb)) (p_res p)
          {| s_blk := Zpos (nb_idx nb); s_pos := -1; s_mask := nb_mask nb; s_cls := p_cls p |} a.

Lemma block_defs_eq fn acc nb :
  block_defs fn acc nb =
  inst_defs fn (b_label (nb_blk nb)) (Zpos (nb_idx nb)) (nb_mask nb) (b_insts (nb_blk nb)) 0
            (fold_left (phi_step fn nb) (b_phis (nb_blk nb)) acc).
Proof. reflexivity. Qed.

Lemma phi_step_add fn nb a p : exists fn' bl s, phi_step fn nb a p = add_def fn' bl (p_res p) s a /\ s_cls s = p_cls p.
Proof. unfold phi_step. eexists _, _, _. split; reflexivity. Qed.

Lemma block_defs_ext fn acc nb : dext acc (block_defs fn acc nb).
Proof.
  rewrite block_defs_eq. eapply dext_trans; [|apply inst_defs_ext].
  apply fold_add_ext. intros a p. destruct (phi_step_add fn nb a p) as (f & b & s & E & _). eauto.
Qed.

Lemma block_defs_has fn acc nb : snd (block_defs fn acc nb) = [] ->
  (forall p, In p (b_phis (nb_blk nb)) -> has_cls (fst (block_defs fn acc nb)) (p_res p) (p_cls p)) /\
  (forall x t k, In x (b_insts (nb_blk nb)) -> inst_res x = Some (t, k) -> has_cls (fst (block_defs fn acc nb)) t k).
Proof.
  rewrite block_defs_eq. intros H. split.
  - intros p Hp. pose proof (proj1 (inst_defs_inv _ _ _ _ _ _ _ H)) as H1.
    eapply has_cls_ext; [apply inst_defs_ext|].
    apply (fold_add_has (phi_step fn nb) p_res p_cls (phi_step_add fn nb)); auto.
  - intros x t k Hx Hr. eapply inst_defs_has; eauto.
Qed.

Lemma blocks_defs_ext fn : forall nbs acc, dext acc (fold_left (block_defs fn) nbs acc).
Proof.
  induction nbs as [|nb nbs IH]; simpl; intros acc; [apply dext_refl|].
  eapply dext_trans; [apply block_defs_ext|apply IH].
Qed.

Lemma blocks_defs_has fn : forall nbs acc, snd (fold_left (block_defs fn) nbs acc) = [] ->
  forall nb, In nb nbs ->
  (forall p, In p (b_phis (nb_blk nb)) -> has_cls (fst (fold_left (block_defs fn) nbs acc)) (p_res p) (p_cls p)) /\
  (forall x t k, In x (b_insts (nb_blk nb)) -> inst_res x = Some (t, k) -> has_cls (fst (fold_left (block_defs fn) nbs acc)) t k).
Proof.
  induction nbs as [|y nbs IH]; simpl; intros acc H nb Hnb; [contradiction|].
  destruct Hnb as [->|Hnb]; [|apply IH; auto].
  pose proof (proj1 (blocks_defs_inv _ _ _ H)) as H1.
  destruct (block_defs_has fn acc nb H1) as [A B].
  split; intros; (eapply has_cls_ext; [apply blocks_defs_ext|]); eauto.
Qed.

Lemma number_in : forall bs i mask b, In b bs -> exists nb, In nb (number bs i mask) /\ nb_blk nb = b.
Proof.
  induction bs as [|a bs IH]; simpl; intros i mask b H; [contradiction|].
  destruct H as [->|H].
  - eexists; split; [left; reflexivity|reflexivity].
  - destruct (IH (Pos.succ i) (2 * mask) b H) as [nb [H1 H2]]. exists nb. auto.
Qed.

Definition param_step (fn : ident) (a : dacc) (p : rty * ident) : dacc :=
  add_def fn 1%positive (snd p) {| s_blk := 0; s_pos := -1; s_mask := 0; s_cls := rty_cls (fst p) |} a.

Lemma func_defs_eq f nbs :
  func_defs f nbs = fold_left (block_defs (f_name f)) nbs (fold_left (param_step (f_name f)) (f_params f) (PM.empty site, [])).
Proof. reflexivity. Qed.

Lemma param_step_add fn a p : exists fn' bl s, param_step fn a p = add_def fn' bl (snd p) s a /\ s_cls s = rty_cls (fst p).
Proof. unfold param_step. eexists _, _, _. split; reflexivity. Qed.

Lemma wf_defs_nil m f : wf_module m = true -> In (Dfunc f) m -> snd (func_defs f (number (f_blocks f) 1%positive 1)) = [].
Proof.
  intros W Hin. pose proof (wf_func_viol _ _ W Hin) as V. unfold func_viol in V.
  apply app_eq_nil in V. destruct V as [_ V]. apply app_eq_nil in V. destruct V as [_ V].
  apply app_eq_nil in V. destruct V as [_ V]. apply app_eq_nil in V. destruct V as [V _].
  destruct (snd (func_defs f (number (f_blocks f) 1%positive 1))) eqn:E; auto.
  simpl in V. apply app_eq_nil in V. destruct V as [_ V]. discriminate.
Qed.

(* rule (2), as a table: every definition site of an accepted function is recorded with its class *)
Lemma wf_defs_has m f : wf_module m = true -> In (Dfunc f) m ->
  (forall p, In p (f_params f) -> has_cls (fdefs f) (snd p) (rty_cls (fst p))) /\
  (forall b, In b (f_blocks f) ->
     (forall p, In p (b_phis b) -> has_cls (fdefs f) (p_res p) (p_cls p)) /\
     (forall x t k, In x (b_insts b) -> inst_res x = Some (t, k) -> has_cls (fdefs f) t k)).
Proof.
  intros W Hin. pose proof (wf_defs_nil m f W Hin) as S. unfold fdefs. rewrite func_defs_eq in *.
  split.
  - intros p Hp. pose proof (proj1 (blocks_defs_inv _ _ _ S)) as S1.
    eapply has_cls_ext; [apply blocks_defs_ext|].
    apply (fold_add_has (param_step (f_name f)) snd (fun p => rty_cls (fst p)) (param_step_add (f_name f))); auto.
  - intros b Hb. destruct (number_in _ 1%positive 1 _ Hb) as [nb [Hnb <-]].
    apply blocks_defs_has; auto.
Qed.

(* rule (4): consequences of block_class_viol = [] *)
Lemma wf_block_class m f b : wf_module m = true -> In (Dfunc f) m -> In b (f_blocks f) -> block_class_viol (fdefs f) f b = [].
Proof.
  intros W Hin Hb. pose proof (wf_func_viol _ _ W Hin) as V. unfold func_viol in V.
  apply app_eq_nil in V. destruct V as [_ V]. apply app_eq_nil in V. destruct V as [_ V].
  apply app_eq_nil in V. destruct V as [_ V]. apply app_eq_nil in V. destruct V as [_ V].
  apply app_eq_nil in V. destruct V as [V _]. exact (flat_map_nil _ _ V _ Hb).
Qed.

Lemma insts_class_nil defs fn bl : forall is i, insts_class_viol defs fn bl is i = [] -> forall x, In x is -> inst_class_ok defs x = true.
Proof.
  induction is as [|y is IH]; simpl; intros i H x Hx; [contradiction|].
  apply app_eq_nil in H. destruct H as [H1 H2]. destruct Hx as [->|Hx]; [|eapply IH; eauto].
  destruct (inst_class_ok defs x); [reflexivity|discriminate].
Qed.

Definition jump_class_ok (defs : PM.t site) (f : func) (j : option jump) : Prop :=
  match j with
  | Some (Jnz r _ _) => ok_ref defs Kw r = true
  | Some (Ret (Some r)) => exists t, f_ret f = Some t /\ ok_ref defs (rty_cls t) r = true
  | _ => True end.

Lemma block_class_nil defs f b : block_class_viol defs f b = [] ->
  (forall p, In p (b_phis b) -> forallb (fun a => ok_ref defs (p_cls p) (snd a)) (p_args p) = true) /\
  (forall x, In x (b_insts b) -> inst_class_ok defs x = true) /\
  jump_class_ok defs f (b_jump b).
Proof.
  unfold block_class_viol. intros H. apply app_eq_nil in H. destruct H as [H1 H]. apply app_eq_nil in H. destruct H as [H2 H3].
  split; [|split].
  - intros p Hp. pose proof (flat_map_nil _ _ H1 _ Hp) as Q. simpl in Q.
    destruct (forallb _ (p_args p)); [reflexivity|discriminate].
  - eapply insts_class_nil; eauto.
  - unfold jump_class_ok. destruct (b_jump b) as [[l|r l1 l2|[r|]|]|]; auto.
    + destruct (ok_ref defs Kw r); [reflexivity|discriminate].
    + destruct (f_ret f) as [t|]; [|discriminate]. exists t. split; auto.
      destruct (ok_ref defs (rty_cls t) r); [reflexivity|discriminate].
Qed.

(* ------------------------------------------------------------------ dynamic part *)
Definition nbc (r : result) : Prop := r <> Stuck BadClass.
Definition okc {A} (x : res A) : Prop := match x with Ok _ => True | Err r => nbc r end.

Ltac nb := unfold nbc; discriminate.

Lemma bind_okc {A B} (x : res A) (f : A -> res B) : okc x -> (forall a, x = Ok a -> okc (f a)) -> okc (bind x f).
Proof. destruct x; simpl; auto. Qed.

(* every defined register carries the class recorded for it *)
Definition env_ok (defs : PM.t site) (env : PM.t (cls * Z)) : Prop :=
  forall t k v, PM.find t env = Some (k, v) -> has_cls defs t k.

Lemma env_ok_empty defs : env_ok defs (PM.empty (cls * Z)).
Proof. intros t k v H. rewrite PM.gempty in H. discriminate. Qed.

Lemma env_ok_add defs env t k v : env_ok defs env -> has_cls defs t k -> env_ok defs (PM.add t (k, v) env).
Proof.
  intros E H t' k' v' F. destruct (Pos.eq_dec t' t) as [->|N].
  - rewrite PM.gss in F. inversion F; subst. exact H.
  - rewrite PM.gso in F by exact N. eapply E; eauto.
Qed.

Lemma read_okc defs env k r : env_ok defs env -> ok_ref defs k r = true -> okc (read env k r).
Proof.
  intros E H. unfold read, stuckr. unfold ok_ref in H. destruct r; simpl.
  - destruct (PM.find t env) as [[k' v]|] eqn:F; [|nb].
    destruct (E _ _ _ F) as [s [Fs Ks]]. rewrite Fs, Ks in H.
    destruct k, k'; simpl in *; try exact I; discriminate.
  - destruct k; simpl in *; try exact I; discriminate.
  - destruct k; simpl in *; try exact I; discriminate.
  - destruct k; simpl in *; try exact I; discriminate.
  - destruct k; simpl in *; try exact I; discriminate.
Qed.

Lemma iop_ok_inv defs d o a0 a1 : inst_class_ok defs (Iop d o a0 a1) = true ->
  exists k0 ok1, op_sig o (option_map snd d) = Some (k0, ok1) /\ ok_ref defs k0 a0 = true /\
    match ok1, a1 with Some k1, Some r => ok_ref defs k1 r = true | None, None => True | _, _ => False end.
Proof.
  unfold inst_class_ok. destruct (op_sig o (option_map snd d)) as [[k0 ok1]|]; [|discriminate].
  intros H. apply andb_prop in H. destruct H as [H0 H1]. exists k0, ok1. split; auto. split; auto.
  destruct ok1, a1; auto; discriminate.
Qed.

Definition pure_op (o : op) : bool :=
  match o with Ostore _ | Oload _ | Oalloc _ | Ovastart | Ovaarg => false | _ => true end.

Ltac okc_step :=
  first
    [ exact I
    | apply bind_okc; [ eapply read_okc; eassumption | intros ? _ ]
    | match goal with
      | |- okc (match ?x with _ => _ end) => destruct x
      | |- okc (if ?x then _ else _) => destruct x
      | |- okc (stuckr _) => unfold stuckr, okc; nb
      | |- okc (Err _) => unfold okc; nb
      end ].

Ltac pure_case Hs H1 a1 :=
  simpl in Hs; try discriminate Hs; inversion Hs; subst; clear Hs;
  destruct a1; try contradiction;
  lazy beta iota zeta delta [eval_pure read1 isint cls_eqb negb];
  repeat okc_step.

(* the pure instructions *)
Lemma eval_pure_okc fo defs env t o k a0 a1 :
  env_ok defs env -> pure_op o = true -> inst_class_ok defs (Iop (Some (t, k)) o a0 a1) = true ->
  okc (eval_pure fo env o k a0 a1).
Proof.
  intros E P H. destruct (iop_ok_inv _ _ _ _ _ H) as (k0 & ok1 & Hs & H0 & H1). clear H.
  cbn [option_map snd] in Hs.
  destruct o as [b| |s|l|al|w c|dbl c|e|c| | | |]; try discriminate P; clear P.
  - destruct b; destruct k; pure_case Hs H1 a1.
  - destruct k; pure_case Hs H1 a1.
  - destruct w; destruct k; pure_case Hs H1 a1.
  - destruct dbl; destruct k; pure_case Hs H1 a1.
  - destruct e; destruct k; pure_case Hs H1 a1.
  - destruct c; destruct k; pure_case Hs H1 a1.
  - destruct k; pure_case Hs H1 a1.
  - destruct k; pure_case Hs H1 a1.
Qed.

Lemma eval_phis_okc defs old from : env_ok defs old ->
  forall ps,
  (forall p, In p ps -> has_cls defs (p_res p) (p_cls p) /\
                        forallb (fun a => ok_ref defs (p_cls p) (snd a)) (p_args p) = true) ->
  forall env, env_ok defs env ->
    okc (eval_phis old from ps env) /\ forall env', eval_phis old from ps env = Ok env' -> env_ok defs env'.
Proof.
  intros Eo. induction ps as [|p ps IH]; simpl; intros Hp env E.
  - split; [exact I|]. intros env' H; inversion H; subst; auto.
  - destruct (Hp p (or_introl eq_refl)) as [Hc Ha].
    destruct (phi_arg from (p_args p)) as [a|] eqn:Ea; [|split; [unfold stuckr; simpl; nb|discriminate]].
    assert (Ra : ok_ref defs (p_cls p) a = true).
    { rewrite forallb_forall in Ha. clear - Ha Ea. revert Ea Ha. generalize (p_args p).
      induction l as [|[l' r] l IH]; simpl; [discriminate|]. intros Ea Ha.
      destruct (Pos.eqb l' from).
      - inversion Ea; subst. apply (Ha (l', a)). auto.
      - apply IH; auto. }
    pose proof (read_okc defs old (p_cls p) a Eo Ra) as R.
    destruct (read old (p_cls p) a) as [v|r]; simpl; [|split; [exact R|discriminate]].
    apply IH; [intros; apply Hp; auto|]. apply env_ok_add; auto.
Qed.

Lemma eval_args_okc defs env : env_ok defs env ->
  forall args sv,
  forallb (fun a => match a with Aval t r => ok_ref defs (rty_cls t) r | Avar => true end) args = true ->
  okc (eval_args env args sv).
Proof.
  intros E. induction args as [|a args IH]; simpl; intros sv H; [exact I|].
  apply andb_prop in H. destruct H as [H1 H2]. destruct a as [t r|].
  - apply bind_okc.
    + eapply read_okc; eauto.
    + intros v _. apply bind_okc; [apply IH; auto|]. intros fv _. destruct sv; exact I.
  - destruct sv; [unfold stuckr; simpl; nb|apply IH; auto].
Qed.

Lemma copy_in_okc st a n : okc (copy_in st a n).
Proof. unfold copy_in. repeat okc_step. Qed.

Lemma agg_size_okc ge t : okc (agg_size ge t).
Proof. unfold agg_size. repeat okc_step. Qed.

Lemma bind_params_okc ge defs ps :
  (forall p, In p ps -> has_cls defs (snd p) (rty_cls (fst p))) ->
  forall st avs env allocs, env_ok defs env ->
  okc (bind_params ge st ps avs env allocs) /\
  forall st' env' al' rest, bind_params ge st ps avs env allocs = Ok (st', env', al', rest) -> env_ok defs env'.
Proof.
  induction ps as [|[ty t] ps IH]; intros Hp st avs env allocs E; simpl.
  - split; [exact I|]. intros st' env' al' rest H; inversion H; subst; auto.
  - assert (Hp' : forall p, In p ps -> has_cls defs (snd p) (rty_cls (fst p))) by (intros; apply Hp; simpl; auto).
    pose proof (Hp (ty, t) (or_introl eq_refl)) as Ht. simpl in Ht.
    destruct avs as [|[ty' v] avs]; [split; [destruct ty; unfold stuckr; simpl; nb|destruct ty; discriminate]|].
    destruct ty as [k|ag]; destruct ty' as [k'|ag']; try (split; [unfold stuckr; simpl; nb|discriminate]).
    + destruct (cls_eqb k k'); [|split; [unfold stuckr; simpl; nb|discriminate]].
      apply IH; auto. apply env_ok_add; auto.
    + pose proof (agg_size_okc ge ag) as A. destruct (agg_size ge ag) as [n|]; simpl; [|split; [exact A|discriminate]].
      pose proof (copy_in_okc st v n) as C. destruct (copy_in st v n) as [sp|]; simpl; [|split; [exact C|discriminate]].
      apply IH; auto. apply env_ok_add; auto.
Qed.

Lemma bind_va_okc ge avs : forall st allocs, okc (bind_va ge st avs allocs).
Proof.
  induction avs as [|[ty v] avs IH]; intros st allocs; simpl; [exact I|].
  destruct ty as [k|ag].
  - apply bind_okc; [apply IH|]. intros [[st' l] al] _. exact I.
  - apply bind_okc; [apply agg_size_okc|]. intros n _. apply bind_okc; [apply copy_in_okc|]. intros sp _.
    apply bind_okc; [apply IH|]. intros [[st' l] al] _. exact I.
Qed.

(* ------------------------------------------------------------------ the invariant *)
Definition cframe_ok (m : module) (fr : frame) : Prop :=
  In (Dfunc (fr_fn fr)) m /\
  (exists pre, f_blocks (fr_fn fr) = pre ++ fr_blk fr :: fr_after fr) /\
  (exists pre, b_insts (fr_blk fr) = pre ++ fr_code fr) /\
  env_ok (fdefs (fr_fn fr)) (fr_env fr) /\
  (forall t ty, fr_dst fr = Some (t, ty) -> has_cls (fdefs (fr_fn fr)) t (rty_cls ty)).

Definition cstate_ok (m : module) (st : state) : Prop := Forall (cframe_ok m) (st_stack st).

Definition cgood (m : module) (s : step_result) : Prop :=
  match s with Next st' => cstate_ok m st' | Final r => nbc r end.

Lemma final_of_cgood {A} m (x : res A) (f : A -> step_result) :
  okc x -> (forall a, x = Ok a -> cgood m (f a)) -> cgood m (final_of x f).
Proof. destruct x; simpl; auto. Qed.

Lemma cframe_blk_in m fr : cframe_ok m fr -> In (fr_blk fr) (f_blocks (fr_fn fr)).
Proof. intros (_ & [pre H] & _). rewrite H. apply in_or_app; right; left; reflexivity. Qed.

Lemma cframe_inst_in m fr i code : cframe_ok m fr -> fr_code fr = i :: code -> In i (b_insts (fr_blk fr)).
Proof. intros (_ & _ & [pre H] & _) Ec. rewrite H, Ec. apply in_or_app; right; left; reflexivity. Qed.

Lemma cframe_ok_next m fr i code env allocs dst :
  cframe_ok m fr -> fr_code fr = i :: code -> env_ok (fdefs (fr_fn fr)) env ->
  (forall t ty, dst = Some (t, ty) -> has_cls (fdefs (fr_fn fr)) t (rty_cls ty)) ->
  cframe_ok m (upd_frame fr env code allocs dst).
Proof.
  intros (H1 & H2 & [pre H3] & H4 & H5) Ec E D. unfold cframe_ok, upd_frame; simpl. repeat split; auto.
  exists (pre ++ [i]). rewrite <- app_assoc. simpl. rewrite <- Ec. exact H3.
Qed.

Lemma cframe_ok_ret m caller env allocs :
  cframe_ok m caller -> env_ok (fdefs (fr_fn caller)) env ->
  cframe_ok m (upd_frame caller env (fr_code caller) allocs None).
Proof.
  intros (H1 & H2 & H3 & H4 & H5) E. unfold cframe_ok, upd_frame; simpl. repeat split; auto. intros; discriminate.
Qed.

Lemma enter_cgood m fr b after (W : wf_module m = true) :
  cframe_ok m fr -> (exists pre, f_blocks (fr_fn fr) = pre ++ b :: after) ->
  okc (enter fr b after) /\ forall fr', enter fr b after = Ok fr' -> cframe_ok m fr'.
Proof.
  intros (H1 & H2 & H3 & H4 & H5) [pre Hpre]. unfold enter.
  assert (Hb : In b (f_blocks (fr_fn fr))) by (rewrite Hpre; apply in_or_app; right; left; reflexivity).
  destruct (wf_defs_has m _ W H1) as [_ D]. destruct (D b Hb) as [Dp _].
  destruct (block_class_nil _ _ _ (wf_block_class m _ b W H1 Hb)) as [Cp _].
  destruct (eval_phis_okc (fdefs (fr_fn fr)) (fr_env fr) (b_label (fr_blk fr)) H4 (b_phis b)
              (fun p Hp => conj (Dp p Hp) (Cp p Hp)) (fr_env fr) H4) as [P1 P2].
  destruct (eval_phis _ _ _ _) as [env'|r]; simpl.
  - split; [exact I|]. intros fr' H; inversion H; subst; clear H.
    unfold cframe_ok; simpl. repeat split; eauto. exists []. reflexivity.
  - split; [exact P1|discriminate].
Qed.

Lemma goto_cgood m fr l (W : wf_module m = true) :
  cframe_ok m fr -> okc (goto fr l) /\ forall fr', goto fr l = Ok fr' -> cframe_ok m fr'.
Proof.
  intros Hfr. unfold goto.
  destruct (find_suffix l (f_blocks (fr_fn fr))) as [[b after]|] eqn:E.
  - apply enter_cgood; auto. eapply find_suffix_split; eauto.
  - split; [unfold stuckr; simpl; nb|discriminate].
Qed.

Lemma do_return_cgood m ge st fr rest v :
  Forall (cframe_ok m) rest -> cgood m (do_return ge st fr rest v).
Proof.
  intros Hrest. unfold do_return. destruct rest as [|caller rest']; [simpl; nb|].
  inversion Hrest as [|? ? Hc Hr]; subst.
  assert (G : forall st1 env callocs, env_ok (fdefs (fr_fn caller)) env ->
             cgood m (Next (upd_state st1 (free_blocks (fr_allocs fr) (st_mem st1))
                                      (upd_frame caller env (fr_code caller) callocs None :: rest')))).
  { intros. simpl. unfold cstate_ok; simpl. constructor; auto. apply cframe_ok_ret; auto. }
  pose proof Hc as (_ & _ & _ & Ec & Dc).
  destruct (fr_dst caller) as [[t [k|ty]]|] eqn:Ed; [| |apply G; auto].
  - pose proof (Dc _ _ eq_refl) as Ht. simpl in Ht.
    destruct v as [[k' x]|]; [|apply G; apply env_ok_add; auto].
    destruct (cls_eqb k k'); [apply G; apply env_ok_add; auto|].
    destruct k, k'; try (simpl; nb). apply G; apply env_ok_add; auto.
  - pose proof (Dc _ _ eq_refl) as Ht. simpl in Ht.
    destruct v as [[[] x]|]; try (simpl; nb).
    apply final_of_cgood.
    + apply bind_okc; [apply agg_size_okc|intros; apply copy_in_okc].
    + intros sp _. apply G. apply env_ok_add; auto.
Qed.

Lemma entry_frame_cgood m id f env allocs va :
  In (Dfunc f) m -> env_ok (fdefs f) env ->
  okc (entry_frame id f env allocs va) /\ forall nf, entry_frame id f env allocs va = Ok nf -> cframe_ok m nf.
Proof.
  intros Hin E. unfold entry_frame. destruct (f_blocks f) as [|b after] eqn:Eb; [split; [unfold stuckr; simpl; nb|discriminate]|].
  split; [exact I|]. intros nf H; inversion H; subst. unfold cframe_ok; simpl. repeat split; auto.
  - exists []. simpl. auto.
  - exists []. reflexivity.
  - intros; discriminate.
Qed.

Lemma call_ok_inv defs d f args : inst_class_ok defs (Icall d f args) = true ->
  ok_ref defs Kl f = true /\
  forallb (fun a => match a with Aval t r => ok_ref defs (rty_cls t) r | Avar => true end) args = true.
Proof.
  unfold inst_class_ok. intros H. apply andb_prop in H. destruct H as [H _]. apply andb_prop in H. exact H.
Qed.

Lemma do_call_cgood m ext st fr rest code d f args (W : wf_module m = true) :
  cframe_ok m fr -> fr_code fr = Icall d f args :: code -> Forall (cframe_ok m) rest ->
  cgood m (do_call (mk_genv m ext) st fr rest code d f args).
Proof.
  intros Hfr Ec Hrest. unfold do_call.
  pose proof Hfr as (Hin & _ & _ & Eenv & _).
  pose proof (cframe_blk_in _ _ Hfr) as Hb. pose proof (cframe_inst_in _ _ _ _ Hfr Ec) as Hi.
  destruct (block_class_nil _ _ _ (wf_block_class m _ _ W Hin Hb)) as (_ & Ci & _).
  destruct (call_ok_inv _ _ _ _ (Ci _ Hi)) as [Cf Ca].
  destruct (wf_defs_has m _ W Hin) as [_ D]. destruct (D _ Hb) as [_ Di].
  assert (Dd : forall t ty, d = Some (t, ty) -> has_cls (fdefs (fr_fn fr)) t (rty_cls ty)).
  { intros t ty ->. eapply Di; eauto. }
  assert (Hcaller : forall dst, (dst = d \/ dst = None) -> cframe_ok m (upd_frame fr (fr_env fr) code (fr_allocs fr) dst)).
  { intros dst Hd. eapply cframe_ok_next; eauto. intros t ty E. destruct Hd as [->| ->]; [auto|discriminate]. }
  apply final_of_cgood.
  { apply bind_okc; [eapply read_okc; eauto|]. intros a _. apply bind_okc; [eapply eval_args_okc; eauto|]. intros; exact I. }
  intros [a [fixed var]] _. cbv beta iota.
  destruct (split_addr a) as [[g off]|]; [|simpl; nb].
  destruct (negb (off =? 0)); [simpl; nb|].
  destruct (PM.find g (ge_funs (mk_genv m ext))) as [fn|] eqn:Ef.
  - pose proof (ge_funs_in _ _ _ _ Ef) as Hfn.
    destruct (wf_defs_has m _ W Hfn) as [Dp _].
    destruct (bind_params_okc (mk_genv m ext) (fdefs fn) (f_params fn) Dp st fixed (PM.empty (cls * Z)) [] (env_ok_empty _)) as [B1 B2].
    match goal with |- cgood m (final_of ?x ?k) => assert (OK : okc x /\ forall sn, x = Ok sn -> cframe_ok m (snd sn)) end.
    { split.
      - apply bind_okc; [exact B1|]. intros [[[st1 env] allocs] extra] Eb.
        apply bind_okc.
        + destruct (f_vararg fn); [apply bind_va_okc|]. destruct extra; destruct var; simpl; try exact I; unfold stuckr; simpl; nb.
        + intros [[st2 va] allocs2] _. apply bind_okc; [|intros; exact I].
          apply (entry_frame_cgood m); auto. eapply B2; eauto.
      - intros [st2 nf]. simpl.
        destruct (bind_params _ _ _ _ _ _) as [[[[st1 env] allocs] extra]|] eqn:Eb; simpl; [|discriminate].
        match goal with |- bind ?y _ = _ -> _ => destruct y as [[[st2' va] allocs2]|]; simpl; [|discriminate] end.
        destruct (entry_frame (st_ncall st2') fn env allocs2 va) as [nf'|] eqn:En; simpl; [|discriminate].
        intros H; inversion H; subst. eapply (entry_frame_cgood m); eauto. }
    destruct OK as [OK1 OK2]. apply final_of_cgood; auto.
    intros [st2 nf] E. simpl. unfold cstate_ok; simpl. constructor; [exact (OK2 _ E)|].
    constructor; auto.
  - destruct (find_ext (ge_ext (mk_genv m ext)) g) as [x|]; [|simpl; nb].
    assert (C : forall tr, cgood m (match d with
              | Some _ => Final (Stuck BadCall)
              | None => Next {| st_mem := st_mem st; st_next := st_next st; st_ncall := st_ncall st;
                                st_stack := upd_frame fr (fr_env fr) code (fr_allocs fr) None :: rest; st_trace := tr |} end)).
    { intros tr. destruct d; simpl; [nb|]. unfold cstate_ok; simpl. constructor; auto. }
    destruct x; destruct fixed as [|[[[]|] v] [|? ?]]; destruct var; try (simpl; nb); try apply C.
Qed.

Lemma step_cgood m fo ext st (W : wf_module m = true) :
  cstate_ok m st -> cgood m (step fo (mk_genv m ext) st).
Proof.
  unfold cstate_ok. intros Hst. unfold step.
  destruct (st_stack st) as [|fr rest] eqn:Es; [simpl; nb|].
  inversion Hst as [|? ? Hfr Hrest]; subst.
  pose proof Hfr as (Hin & _ & _ & Eenv & Hdst).
  pose proof (cframe_blk_in _ _ Hfr) as Hb.
  destruct (block_class_nil _ _ _ (wf_block_class m _ _ W Hin Hb)) as (_ & Ci & Cj).
  destruct (fr_code fr) as [|i code] eqn:Ec.
  - (* end of block: the jump *)
    assert (J : forall l, cgood m (final_of (goto fr l) (fun fr' => Next (upd_state st (st_mem st) (fr' :: rest))))).
    { intros l. destruct (goto_cgood m fr l W Hfr) as [G1 G2]. apply final_of_cgood; auto.
      intros fr' E. simpl. unfold cstate_ok; simpl. constructor; auto. }
    unfold jump_class_ok in Cj.
    destruct (b_jump (fr_blk fr)) as [[l|r l1 l2|[r|]|]|] eqn:Ej.
    + apply J.
    + apply final_of_cgood; [eapply read_okc; eauto|]. intros v _. apply J.
    + destruct Cj as [ty [Er Rr]]. rewrite Er. destruct ty as [k|ty].
      * apply final_of_cgood; [eapply read_okc; eauto|]. intros; apply do_return_cgood; auto.
      * apply final_of_cgood; [eapply read_okc; eauto|]. intros; apply do_return_cgood; auto.
    + apply do_return_cgood; auto.
    + simpl; nb.
    + (* fall through *)
      destruct (fr_after fr) as [|b after] eqn:Ea; [simpl; nb|].
      destruct (enter_cgood m fr b after W Hfr) as [G1 G2].
      { destruct Hfr as (_ & [pre Hpre] & _). exists (pre ++ [fr_blk fr]). rewrite Hpre, Ea, <- app_assoc. reflexivity. }
      apply final_of_cgood; auto. intros fr' E. simpl. unfold cstate_ok; simpl. constructor; auto.
  - pose proof (cframe_inst_in _ _ _ _ Hfr Ec) as Hi. pose proof (Ci _ Hi) as Ck.
    destruct (wf_defs_has m _ W Hin) as [_ D]. destruct (D _ Hb) as [_ Di].
    assert (K : forall mm env' allocs, env_ok (fdefs (fr_fn fr)) env' ->
               cgood m (Next (upd_state st mm (upd_frame fr env' code allocs (fr_dst fr) :: rest)))).
    { intros. simpl. unfold cstate_ok; simpl. constructor; auto. eapply cframe_ok_next; eauto. }
    destruct i as [d o a0 a1|d f args]; [|apply do_call_cgood; auto].
    assert (Dt : forall t k, d = Some (t, k) -> has_cls (fdefs (fr_fn fr)) t k).
    { intros t k ->. eapply Di; eauto. }
    destruct (pure_op o) eqn:Po.
    + (* pure instructions *)
      assert (G : cgood m (match d with
                 | None => Final (Stuck BadClass)
                 | Some (t, k) => final_of (eval_pure fo (fr_env fr) o k a0 a1)
                      (fun v => Next (upd_state st (st_mem st)
                          (upd_frame fr (PM.add t (k, v) (fr_env fr)) code (fr_allocs fr) (fr_dst fr) :: rest))) end)).
      { destruct d as [[t k]|].
        - apply final_of_cgood; [eapply eval_pure_okc; eauto|]. intros v _. apply K. apply env_ok_add; auto.
        - exfalso. destruct (iop_ok_inv _ _ _ _ _ Ck) as (k0 & ok1 & Hs & _). simpl in Hs.
          destruct o as [[]| | | | | | |[]|[]| | | |]; simpl in Hs; discriminate. }
      destruct o; try discriminate Po; exact G.
    + destruct (iop_ok_inv _ _ _ _ _ Ck) as (k0 & ok1 & Hs & H0 & H1).
      destruct o; try discriminate Po; clear Po.
      * (* store *)
        destruct d as [[t k]|]; [simpl in Hs; discriminate|]. simpl in Hs. inversion Hs; subst; clear Hs.
        destruct a1 as [r|]; [|contradiction].
        apply final_of_cgood.
        { apply bind_okc; [eapply read_okc; eauto|]. intros; apply bind_okc; [simpl; eapply read_okc; eauto|]. intros; exact I. }
        intros va _. destruct (mem_store _ _ _ _); [apply K; auto|simpl; nb].
      * (* load *)
        destruct d as [[t k]|]; [|simpl in Hs; destruct l; discriminate].
        assert (L : k0 = Kl /\ ok1 = None /\ forall raw, load_result l k raw <> None).
        { destruct l; destruct k; simpl in Hs; try discriminate Hs; inversion Hs; subst; repeat split; intros; simpl; discriminate. }
        destruct L as (-> & -> & L). destruct a1; [contradiction|].
        apply final_of_cgood; [eapply read_okc; eauto|]. intros a _.
        destruct (mem_load _ _ _) as [raw|]; [|simpl; nb]. specialize (L raw).
        destruct (load_result l k raw); [|congruence]. apply K. apply env_ok_add; auto.
      * (* alloc *)
        destruct d as [[t []]|]; simpl in Hs; try discriminate Hs. inversion Hs; subst; clear Hs.
        destruct a1; [contradiction|].
        apply final_of_cgood; [eapply read_okc; eauto|]. intros n _.
        destruct (MAXALLOC <=? n); [simpl; nb|]. simpl. unfold cstate_ok; simpl. constructor; auto.
        eapply cframe_ok_next; eauto. apply env_ok_add; auto.
      * (* vastart *)
        destruct d as [[t k]|]; [simpl in Hs; discriminate|]. simpl in Hs. inversion Hs; subst; clear Hs.
        destruct a1; [contradiction|].
        apply final_of_cgood; [eapply read_okc; eauto|]. intros a _. destruct (mem_store _ _ _ _); [apply K; auto|simpl; nb].
      * (* vaarg *)
        destruct d as [[t k]|]; [|simpl in Hs; discriminate]. simpl in Hs. inversion Hs; subst; clear Hs.
        destruct a1; [contradiction|].
        apply final_of_cgood; [eapply read_okc; eauto|]. intros a _.
        destruct (mem_load _ _ _) as [c|]; [|simpl; nb].
        destruct (c / VASHIFT); try (simpl; nb).
        destruct (find_frame _ _); [|simpl; nb].
        destruct (nth_error _ _) as [[k' v]|]; [|simpl; nb].
        match goal with |- cgood m (match ?x with _ => _ end) => destruct x end; [|simpl; nb].
        destruct (mem_store _ _ _ _); [apply K; apply env_ok_add; auto|simpl; nb].
Qed.

Lemma run_state_cgood m fo ext (W : wf_module m = true) :
  forall fuel st, cstate_ok m st -> nbc (run_state fo (mk_genv m ext) fuel st).
Proof.
  induction fuel as [|n IH]; intros st Hst; simpl; [nb|].
  pose proof (step_cgood m fo ext st W Hst) as G.
  destruct (step fo (mk_genv m ext) st); simpl in G; auto.
Qed.

Lemma init_env_ok defs : forall ps env,
  (forall p, In p ps -> has_cls defs (snd p) (rty_cls (fst p))) -> env_ok defs env ->
  env_ok defs (fold_left (fun e (p : rty * ident) =>
                 PM.add (snd p) (match fst p with Tbase k => k | Tagg _ => Kl end, 0) e) ps env).
Proof.
  induction ps as [|p ps IH]; simpl; intros env Hp E; auto.
  apply IH; [intros; apply Hp; auto|]. apply env_ok_add; auto. apply (Hp p). auto.
Qed.

(* rules (4) and (8): a module accepted by the checker never stops at an operand, result or return
   value of the wrong class, nor at an instruction whose shape (result present/absent, second operand
   present/absent) does not fit its opcode *)
Theorem wf_class_sound :
  forall m, wf_module m = true ->
  forall fo ext nglob entry fuel, run fo m ext nglob entry fuel <> Stuck BadClass.
Proof.
  intros m W fo ext nglob entry fuel. change (nbc (run fo m ext nglob entry fuel)).
  unfold run, init_state.
  destruct (PM.find entry (ge_funs (mk_genv m ext))) as [f|] eqn:E; [|simpl; nb].
  pose proof (ge_funs_in _ _ _ _ E) as Hin.
  destruct (wf_defs_has m _ W Hin) as [Dp _].
  match goal with |- nbc (match bind (entry_frame ?i ?f ?e ?a ?v) _ with _ => _ end) =>
    destruct (entry_frame_cgood m i f e a v Hin (init_env_ok (fdefs f) (f_params f) _ Dp (env_ok_empty _))) as [G1 G2];
    destruct (entry_frame i f e a v) as [fr|r] eqn:Ef; simpl end.
  - apply run_state_cgood; auto. unfold cstate_ok; simpl. constructor; auto.
  - exact G1.
Qed.
