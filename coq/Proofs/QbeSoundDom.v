(* QbeSoundDom.v - static content of rule (3) of the checker QbeWf.wf_module (uses are dominated by
   definitions), in the form needed by the dynamic argument of QbeSoundUndef.v.

   For a function accepted by the checker the tables computed by [ssa_viol] (block numbering, label
   map, successor lists, predecessor lists, reachable set, dominator sets, definition sites) satisfy:
     - the reachable set contains the first block and is closed under the edge relation;
     - along an edge P -> B the dominator set of B is included in {B} + the dominator set of P,
       and the dominator set of the first block is the block itself;
     - a recorded definition site is a real one (parameter, phi of that block, instruction at that index);
     - every use in a reachable block names a register whose site is a parameter, an earlier
       position of the same block, or a block in the dominator set.
   No notion of path is needed: these local facts are what the invariant over executions uses. *)
From Coq Require Import ZArith List Bool PArith FMapPositive Lia.
From Cproc Require Import Model.Qbe Model.QbeWf Proofs.QbeProofs Proofs.QbeSoundClass.
Import ListNotations.
Open Scope Z_scope.
Local Arguments Z.mul : simpl never.

(* ------------------------------------------------------------------ bit sets *)
Definition bsub (a b : Z) : Prop := forall j, Z.testbit a j = true -> Z.testbit b j = true.

Lemma bsub_refl a : bsub a a.
Proof. intros j H; exact H. Qed.
Lemma bsub_trans a b c : bsub a b -> bsub b c -> bsub a c.
Proof. intros A B j H. apply B, A, H. Qed.
Lemma bsub_lor_l a b : bsub a (Z.lor a b).
Proof. intros j H. rewrite Z.lor_spec, H. reflexivity. Qed.
Lemma bsub_lor_r a b : bsub b (Z.lor a b).
Proof. intros j H. rewrite Z.lor_spec, H. apply orb_true_r. Qed.
Lemma bsub_lor a b c : bsub a c -> bsub b c -> bsub (Z.lor a b) c.
Proof. intros A B j H. rewrite Z.lor_spec in H. apply orb_prop in H. destruct H; auto. Qed.
Lemma bsub_0 a : bsub 0 a.
Proof. intros j H. rewrite Z.bits_0 in H. discriminate. Qed.

Lemma bsub_antisym a b : bsub a b -> bsub b a -> a = b.
Proof.
  intros A B. apply Z.bits_inj'. intros j _.
  destruct (Z.testbit a j) eqn:Ea; destruct (Z.testbit b j) eqn:Eb; auto.
  - rewrite (A _ Ea) in Eb. discriminate.
  - rewrite (B _ Eb) in Ea. discriminate.
Qed.

Lemma land_pow2_eqb r k : 0 <= k -> (Z.land r (2 ^ k) =? 0) = negb (Z.testbit r k).
Proof.
  intros Hk. destruct (Z.testbit r k) eqn:E; simpl.
  - apply Z.eqb_neq. intros H.
    assert (T : Z.testbit (Z.land r (2 ^ k)) k = true) by (rewrite Z.land_spec, E, Z.pow2_bits_true; auto).
    rewrite H, Z.bits_0 in T. discriminate.
  - apply Z.eqb_eq. apply Z.bits_inj'. intros j _. rewrite Z.land_spec, Z.bits_0, Z.pow2_bits_eqb by exact Hk.
    destruct (Z.eqb_spec k j) as [<-|N]; [rewrite E; reflexivity|apply andb_false_r].
Qed.

(* ------------------------------------------------------------------ numbering *)
Definition bitpos (nb : nblock) : Z := Zpos (nb_idx nb) - 1.
Definition bit (r : Z) (nb : nblock) : bool := Z.testbit r (bitpos nb).

Lemma number_blk : forall bs i mk, map nb_blk (number bs i mk) = bs.
Proof. induction bs as [|b bs IH]; simpl; intros; auto. rewrite IH. reflexivity. Qed.

Lemma number_spec : forall bs i mk, mk = 2 ^ (Zpos i - 1) ->
  forall nb, In nb (number bs i mk) -> nb_mask nb = 2 ^ bitpos nb /\ (i <= nb_idx nb)%positive.
Proof.
  induction bs as [|b bs IH]; simpl; intros i mk Hm nb H; [contradiction|].
  destruct H as [<-|H]; simpl.
  - unfold bitpos; simpl. split; [exact Hm|lia].
  - destruct (IH (Pos.succ i) (2 * mk)) with (nb := nb) as [A B]; auto.
    + rewrite Hm. rewrite Pos2Z.inj_succ. replace (Z.succ (Zpos i) - 1) with (Z.succ (Zpos i - 1)) by lia.
      rewrite Z.pow_succ_r by lia. reflexivity.
    + split; auto. lia.
Qed.

Lemma number_idx_ge : forall bs i mk nb, In nb (number bs i mk) -> (i <= nb_idx nb)%positive.
Proof.
  induction bs as [|b bs IH]; simpl; intros i mk nb H; [contradiction|].
  destruct H as [<-|H]; simpl; [lia|]. specialize (IH _ _ _ H). lia.
Qed.

Lemma number_idx_nodup : forall bs i mk, NoDup (map nb_idx (number bs i mk)).
Proof.
  induction bs as [|b bs IH]; simpl; intros i mk; constructor; auto.
  intros H. apply in_map_iff in H. destruct H as [nb [E H]].
  apply number_idx_ge in H. lia.
Qed.

Lemma bitpos_nonneg nb : 0 <= bitpos nb.
Proof. unfold bitpos. lia. Qed.

Lemma bitpos_inj a b : bitpos a = bitpos b -> nb_idx a = nb_idx b.
Proof. unfold bitpos. intros H. assert (Zpos (nb_idx a) = Zpos (nb_idx b)) by lia. congruence. Qed.

Lemma nodup_idx_eq (nbs : list nblock) : NoDup (map nb_idx nbs) ->
  forall a b, In a nbs -> In b nbs -> nb_idx a = nb_idx b -> a = b.
Proof.
  induction nbs as [|x nbs IH]; simpl; intros ND a b Ha Hb E; [contradiction|].
  inversion ND as [|? ? N1 N2]; subst.
  destruct Ha as [<-|Ha]; destruct Hb as [<-|Hb]; auto.
  - exfalso. apply N1. rewrite E. apply in_map; auto.
  - exfalso. apply N1. rewrite <- E. apply in_map; auto.
Qed.

(* ------------------------------------------------------------------ label map *)
Definition lm_step (m : PM.t nblock) (nb : nblock) : PM.t nblock :=
  match PM.find (b_label (nb_blk nb)) m with Some _ => m | None => PM.add (b_label (nb_blk nb)) nb m end.

Lemma lm_fold_keep : forall nbs m l nb, PM.find l m = Some nb -> PM.find l (fold_left lm_step nbs m) = Some nb.
Proof.
  induction nbs as [|x nbs IH]; simpl; intros m l nb H; auto.
  apply IH. unfold lm_step. destruct (PM.find (b_label (nb_blk x)) m) eqn:E; auto.
  destruct (Pos.eq_dec l (b_label (nb_blk x))) as [->|N]; [congruence|]. rewrite PM.gso by exact N. exact H.
Qed.

Lemma lm_fold_spec : forall nbs m, NoDup (map (fun nb => b_label (nb_blk nb)) nbs) ->
  (forall nb, In nb nbs -> PM.find (b_label (nb_blk nb)) m = None) ->
  forall nb, In nb nbs -> PM.find (b_label (nb_blk nb)) (fold_left lm_step nbs m) = Some nb.
Proof.
  induction nbs as [|x nbs IH]; simpl; intros m ND Hm nb H; [contradiction|].
  inversion ND as [|? ? N1 N2]; subst.
  destruct H as [<-|H].
  - apply lm_fold_keep. unfold lm_step. rewrite (Hm x) by auto. apply PM.gss.
  - apply IH; auto. intros y Hy. unfold lm_step. rewrite (Hm x) by auto.
    rewrite PM.gso; [apply Hm; auto|]. intros E. apply N1. rewrite <- E.
    apply (in_map (fun nb => b_label (nb_blk nb))). exact Hy.
Qed.

Lemma lm_fold_in : forall nbs m l nb, PM.find l (fold_left lm_step nbs m) = Some nb -> In nb nbs \/ PM.find l m = Some nb.
Proof.
  induction nbs as [|x nbs IH]; simpl; intros m l nb H; auto.
  destruct (IH _ _ _ H) as [H1|H1]; auto.
  unfold lm_step in H1. destruct (PM.find (b_label (nb_blk x)) m) eqn:E; auto.
  destruct (Pos.eq_dec l (b_label (nb_blk x))) as [->|N].
  - rewrite PM.gss in H1. inversion H1; auto.
  - rewrite PM.gso in H1 by exact N. auto.
Qed.

Lemma labmap_spec nbs : NoDup (map (fun nb => b_label (nb_blk nb)) nbs) ->
  forall nb, In nb nbs -> PM.find (b_label (nb_blk nb)) (labmap nbs) = Some nb.
Proof. intros ND nb H. apply (lm_fold_spec nbs (PM.empty nblock)); auto. intros; apply PM.gempty. Qed.

Lemma labmap_in nbs l nb : PM.find l (labmap nbs) = Some nb -> In nb nbs.
Proof.
  intros H. destruct (lm_fold_in nbs (PM.empty nblock) l nb H) as [|H1]; auto.
  rewrite PM.gempty in H1. discriminate.
Qed.

(* ------------------------------------------------------------------ successors *)
Definition succs_at (lm : PM.t nblock) (nb : nblock) (rest : list nblock) : list nblock :=
  match b_jump (nb_blk nb) with
  | None => match rest with n :: _ => [n] | [] => [] end
  | j => flat_map (fun l => match PM.find l lm with Some n => [n] | None => [] end) (jump_targets j)
  end.

Lemma succs_of_in lm : forall npre nb nafter, In (nb, succs_at lm nb nafter) (succs_of lm (npre ++ nb :: nafter)).
Proof. induction npre as [|x npre IH]; simpl; intros nb nafter; [left; reflexivity|right; apply IH]. Qed.

Lemma succs_of_fst lm : forall nbs, map fst (succs_of lm nbs) = nbs.
Proof. induction nbs as [|x nbs IH]; simpl; auto. rewrite IH. reflexivity. Qed.

Lemma succs_at_sub lm (all : list nblock) nb rest :
  (forall l n, PM.find l lm = Some n -> In n all) -> incl rest all -> incl (succs_at lm nb rest) all.
Proof.
  intros Hl Hr. unfold succs_at. destruct (b_jump (nb_blk nb)) as [j|].
  - intros n Hn. apply in_flat_map in Hn. destruct Hn as [l [_ Hn]].
    destruct (PM.find l lm) as [n'|] eqn:E; [|contradiction]. destruct Hn as [<-|[]]. eapply Hl; eauto.
  - destruct rest as [|n rest]; intros x Hx; [contradiction|]. destruct Hx as [<-|[]]. apply Hr. left; reflexivity.
Qed.

Lemma succs_of_sub lm (all : list nblock) :
  (forall l n, PM.find l lm = Some n -> In n all) ->
  forall nbs, incl nbs all -> forall p, In p (succs_of lm nbs) -> incl (snd p) all.
Proof.
  intros Hl. induction nbs as [|x nbs IH]; simpl; intros Hs p Hp; [contradiction|].
  assert (Hs' : incl nbs all) by (intros y Hy; apply Hs; right; exact Hy).
  destruct Hp as [<-|Hp]; [|apply IH; auto]. simpl. apply (succs_at_sub lm all x nbs); auto.
Qed.

(* ------------------------------------------------------------------ predecessor lists *)
Definition plist (m : PM.t (list nblock)) (i : positive) : list nblock :=
  match PM.find i m with Some l => l | None => [] end.

Definition pl_inner (p : nblock) (m : PM.t (list nblock)) (s : nblock) : PM.t (list nblock) :=
  PM.add (nb_idx s) (p :: match PM.find (nb_idx s) m with Some l => l | None => [] end) m.
Definition pl_outer (m : PM.t (list nblock)) (p : nblock * list nblock) : PM.t (list nblock) :=
  fold_left (pl_inner (fst p)) (snd p) m.

Lemma pred_lists_eq sc : pred_lists sc = fold_left pl_outer sc (PM.empty (list nblock)).
Proof. reflexivity. Qed.

Lemma pl_inner_mono p m s x i : In x (plist m i) -> In x (plist (pl_inner p m s) i).
Proof.
  unfold plist, pl_inner. intros H. destruct (Pos.eq_dec i (nb_idx s)) as [->|N].
  - rewrite PM.gss. right. exact H.
  - rewrite PM.gso by exact N. exact H.
Qed.

Lemma pl_inner_fold_mono p : forall ss m x i, In x (plist m i) -> In x (plist (fold_left (pl_inner p) ss m) i).
Proof. induction ss as [|s ss IH]; simpl; intros m x i H; auto. apply IH. apply pl_inner_mono. exact H. Qed.

Lemma pl_inner_fold_adds p : forall ss m s, In s ss -> In p (plist (fold_left (pl_inner p) ss m) (nb_idx s)).
Proof.
  induction ss as [|y ss IH]; simpl; intros m s H; [contradiction|].
  destruct H as [->|H]; [|apply IH; auto].
  apply pl_inner_fold_mono. unfold plist, pl_inner. rewrite PM.gss. left; reflexivity.
Qed.

Lemma pl_outer_fold_mono : forall sc m x i, In x (plist m i) -> In x (plist (fold_left pl_outer sc m) i).
Proof. induction sc as [|q sc IH]; simpl; intros m x i H; auto. apply IH. unfold pl_outer. apply pl_inner_fold_mono. exact H. Qed.

Lemma pred_lists_spec : forall sc p ss s, In (p, ss) sc -> In s ss -> In p (plist (pred_lists sc) (nb_idx s)).
Proof.
  intros sc. rewrite pred_lists_eq. generalize (PM.empty (list nblock)).
  induction sc as [|q sc IH]; simpl; intros m p ss s H Hs; [contradiction|].
  destruct H as [->|H]; [|eapply IH; eauto].
  apply pl_outer_fold_mono. unfold pl_outer; simpl. apply pl_inner_fold_adds. exact Hs.
Qed.

(* ------------------------------------------------------------------ successor masks *)
Definition smask (ss : list nblock) : Z := fold_left (fun a s => Z.lor a (nb_mask s)) ss 0.
Definition sm_step (m : PM.t Z) (p : nblock * list nblock) : PM.t Z := PM.add (nb_idx (fst p)) (smask (snd p)) m.

Lemma succ_masks_eq sc : succ_masks sc = fold_left sm_step sc (PM.empty Z).
Proof. reflexivity. Qed.

Lemma sm_fold_keep : forall sc m i, ~ In i (map (fun p => nb_idx (fst p)) sc) -> PM.find i (fold_left sm_step sc m) = PM.find i m.
Proof.
  induction sc as [|q sc IH]; simpl; intros m i H; auto.
  rewrite IH by tauto. unfold sm_step. apply PM.gso. intros E. apply H. left. congruence.
Qed.

Lemma succ_masks_spec : forall sc, NoDup (map (fun p => nb_idx (fst p)) sc) ->
  forall p ss, In (p, ss) sc -> PM.find (nb_idx p) (succ_masks sc) = Some (smask ss).
Proof.
  intros sc. rewrite succ_masks_eq. generalize (PM.empty Z).
  induction sc as [|q sc IH]; simpl; intros m ND p ss H; [contradiction|].
  inversion ND as [|? ? N1 N2]; subst.
  destruct H as [->|H]; [|apply IH; auto].
  simpl in N1. rewrite sm_fold_keep by exact N1. unfold sm_step; simpl. apply PM.gss.
Qed.

Lemma smask_fold_sub : forall ss a c, bsub a c -> (forall s, In s ss -> bsub (nb_mask s) c) ->
  bsub (fold_left (fun a s => Z.lor a (nb_mask s)) ss a) c.
Proof.
  induction ss as [|s ss IH]; simpl; intros a c A H; auto.
  apply IH; [apply bsub_lor; auto|auto].
Qed.

Lemma smask_fold_has : forall ss a, bsub a (fold_left (fun a s => Z.lor a (nb_mask s)) ss a) /\
  forall s, In s ss -> bsub (nb_mask s) (fold_left (fun a s => Z.lor a (nb_mask s)) ss a).
Proof.
  induction ss as [|s ss IH]; simpl; intros a; [split; [apply bsub_refl|contradiction]|].
  destruct (IH (Z.lor a (nb_mask s))) as [A B]. split.
  - eapply bsub_trans; [apply bsub_lor_l|exact A].
  - intros x [<-|Hx]; [|apply B; auto]. eapply bsub_trans; [apply bsub_lor_r|exact A].
Qed.

(* the set bits of z are bit positions of blocks of nbs *)
Definition bits_in (nbs : list nblock) (z : Z) : Prop :=
  forall j, Z.testbit z j = true -> exists nb, In nb nbs /\ j = bitpos nb.

Lemma bits_in_0 nbs : bits_in nbs 0.
Proof. intros j H. rewrite Z.bits_0 in H. discriminate. Qed.

Lemma bits_in_lor nbs a b : bits_in nbs a -> bits_in nbs b -> bits_in nbs (Z.lor a b).
Proof. intros A B j H. rewrite Z.lor_spec in H. apply orb_prop in H. destruct H; auto. Qed.

Lemma bits_in_mask nbs nb : In nb nbs -> nb_mask nb = 2 ^ bitpos nb -> bits_in nbs (nb_mask nb).
Proof.
  intros H E j T. rewrite E, Z.pow2_bits_eqb in T by apply bitpos_nonneg.
  apply Z.eqb_eq in T. exists nb. auto.
Qed.

Lemma smask_bits nbs : (forall nb, In nb nbs -> nb_mask nb = 2 ^ bitpos nb) ->
  forall ss, incl ss nbs -> bits_in nbs (smask ss).
Proof.
  intros Hm ss. unfold smask. generalize (bits_in_0 nbs). generalize 0.
  induction ss as [|s ss IH]; simpl; intros a A Hs; auto.
  apply IH; [|intros x Hx; apply Hs; right; exact Hx].
  apply bits_in_lor; auto. apply bits_in_mask; [apply Hs; left; reflexivity|apply Hm; apply Hs; left; reflexivity].
Qed.

Lemma succ_masks_bits nbs : (forall nb, In nb nbs -> nb_mask nb = 2 ^ bitpos nb) ->
  forall sc, (forall p, In p sc -> incl (snd p) nbs) ->
  forall i, bits_in nbs (zfind (succ_masks sc) i 0).
Proof.
  intros Hm sc. rewrite succ_masks_eq.
  assert (G : forall sc m, (forall i, bits_in nbs (zfind m i 0)) -> (forall p, In p sc -> incl (snd p) nbs) ->
                           forall i, bits_in nbs (zfind (fold_left sm_step sc m) i 0)).
  { clear sc. induction sc as [|q sc IH]; simpl; intros m A Hs i; auto.
    apply IH; [|intros; apply Hs; auto]. intros i'. unfold zfind, sm_step.
    destruct (Pos.eq_dec i' (nb_idx (fst q))) as [->|N].
    - rewrite PM.gss. apply smask_bits; auto.
    - rewrite PM.gso by exact N. apply A. }
  intros Hs. apply G; auto. intros i. unfold zfind. rewrite PM.gempty. apply bits_in_0.
Qed.

(* ------------------------------------------------------------------ list helpers *)
Lemma filter_length_le {A} (p : A -> bool) : forall l, (length (filter p l) <= length l)%nat.
Proof. induction l as [|x l IH]; simpl; auto. destruct (p x); simpl; lia. Qed.

Lemma filter_length_lt {A} (p q : A -> bool) : forall l,
  (forall x, In x l -> q x = true -> p x = true) ->
  (exists x, In x l /\ p x = true /\ q x = false) ->
  (length (filter q l) < length (filter p l))%nat.
Proof.
  induction l as [|y l IH]; simpl; intros H [x [Hx [Px Qx]]]; [contradiction|].
  assert (LE : (length (filter q l) <= length (filter p l))%nat).
  { clear - H. induction l as [|z l IH]; simpl; auto.
    assert (H' : forall x, y = x \/ In x l -> q x = true -> p x = true) by (intros x [|]; apply H; simpl; auto).
    specialize (IH H').
    destruct (q z) eqn:Q; [rewrite (H z) by (simpl; auto); simpl; lia|].
    destruct (p z); simpl; lia. }
  destruct Hx as [->|Hx].
  - rewrite Px, Qx. simpl. lia.
  - assert (L : (length (filter q l) < length (filter p l))%nat).
    { apply IH; [intros; apply H; auto|]. exists x. auto. }
    destruct (q y) eqn:Q; [rewrite (H y) by auto; simpl; lia|]. destruct (p y); simpl; lia.
Qed.

Lemma forallb_false_ex {A} (p : A -> bool) : forall l, forallb p l = false -> exists x, In x l /\ p x = false.
Proof.
  induction l as [|y l IH]; simpl; intros H; [discriminate|].
  destruct (p y) eqn:E; simpl in H.
  - destruct (IH H) as [x [Hx Px]]. exists x. auto.
  - exists y. auto.
Qed.

(* ------------------------------------------------------------------ reachable set *)
Section Reach.
Variable nbs : list nblock.
Variable sm : PM.t Z.
Hypothesis Hmask : forall nb, In nb nbs -> nb_mask nb = 2 ^ bitpos nb.
(* every successor mask is a union of block masks *)
Hypothesis Hsm : forall i, bits_in nbs (zfind sm i 0).

Definition rp_step (r : Z) (nb : nblock) : Z :=
  if Z.land r (nb_mask nb) =? 0 then r else Z.lor r (zfind sm (nb_idx nb) 0).

Lemma reach_pass_eq l r : reach_pass l sm r = fold_left rp_step l r.
Proof. reflexivity. Qed.

Lemma rp_step_sub r nb : bsub r (rp_step r nb).
Proof. unfold rp_step. destruct (Z.land r (nb_mask nb) =? 0); [apply bsub_refl|apply bsub_lor_l]. Qed.

Lemma pass_closed : forall l r0, incl l nbs ->
  bsub r0 (fold_left rp_step l r0) /\
  forall nb, In nb l -> bit r0 nb = true -> bsub (zfind sm (nb_idx nb) 0) (fold_left rp_step l r0).
Proof.
  induction l as [|x l IH]; simpl; intros r0 Hl; [split; [apply bsub_refl|contradiction]|].
  assert (Hl' : incl l nbs) by (intros y Hy; apply Hl; right; exact Hy).
  destruct (IH (rp_step r0 x) Hl') as [A B]. split.
  - eapply bsub_trans; [apply rp_step_sub|exact A].
  - intros nb [<-|Hnb] Hb.
    + eapply bsub_trans; [|exact A]. unfold rp_step.
      rewrite (Hmask x) by (apply Hl; left; reflexivity). rewrite land_pow2_eqb by apply bitpos_nonneg.
      unfold bit in Hb. rewrite Hb. simpl. apply bsub_lor_r.
    + apply B; auto. unfold bit in *. apply (rp_step_sub r0 x). exact Hb.
Qed.

Lemma pass_new_bits : forall l r0 j, Z.testbit (fold_left rp_step l r0) j = true ->
  Z.testbit r0 j = true \/ exists nb, In nb nbs /\ j = bitpos nb.
Proof.
  induction l as [|x l IH]; simpl; intros r0 j H; auto.
  destruct (IH _ _ H) as [H1|H1]; auto.
  unfold rp_step in H1. destruct (Z.land r0 (nb_mask x) =? 0); auto.
  rewrite Z.lor_spec in H1. apply orb_prop in H1. destruct H1 as [H1|H1]; auto. right. eapply Hsm; eauto.
Qed.

Definition unmarked (r : Z) : nat := length (filter (fun nb => negb (bit r nb)) nbs).

Lemma pass_grows r : reach_pass nbs sm r <> r -> (unmarked (reach_pass nbs sm r) < unmarked r)%nat.
Proof.
  rewrite reach_pass_eq. set (r' := fold_left rp_step nbs r). intros NE.
  assert (S : bsub r r') by (apply pass_closed; apply incl_refl).
  destruct (forallb (fun nb => implb (bit r' nb) (bit r nb)) nbs) eqn:F.
  - exfalso. apply NE. apply bsub_antisym; auto.
    intros j Hj. destruct (pass_new_bits nbs r j Hj) as [H|[nb [Hnb ->]]]; auto.
    rewrite forallb_forall in F. specialize (F nb Hnb). unfold bit in F. rewrite Hj in F. simpl in F. exact F.
  - destruct (forallb_false_ex _ _ F) as [nb [Hnb Hf]].
    unfold unmarked. apply filter_length_lt.
    + intros x Hx Q. destruct (bit r x) eqn:E; auto. unfold bit in *. rewrite (S _ E) in Q. discriminate.
    + exists nb. split; auto. destruct (bit r' nb), (bit r nb); simpl in *; try discriminate; auto.
Qed.

Lemma reach_iter_fix : forall fuel r, (unmarked r < fuel)%nat ->
  reach_pass nbs sm (reach_iter fuel nbs sm r) = reach_iter fuel nbs sm r /\ bsub r (reach_iter fuel nbs sm r).
Proof.
  induction fuel as [|k IH]; intros r Hu; [lia|]. simpl.
  destruct (Z.eqb_spec (reach_pass nbs sm r) r) as [E|NE].
  - split; [exact E|apply bsub_refl].
  - pose proof (pass_grows r NE) as G.
    destruct (IH (reach_pass nbs sm r)) as [A B]; [lia|]. split; auto.
    eapply bsub_trans; [|exact B]. rewrite reach_pass_eq. apply pass_closed. apply incl_refl.
Qed.

Definition reach_of : Z := reach_iter (S (length nbs)) nbs sm 1.

Lemma reach_of_spec :
  bsub 1 reach_of /\
  forall nb, In nb nbs -> bit reach_of nb = true -> bsub (zfind sm (nb_idx nb) 0) reach_of.
Proof.
  destruct (reach_iter_fix (S (length nbs)) 1) as [A B].
  { unfold unmarked. pose proof (filter_length_le (fun nb => negb (bit 1 nb)) nbs). lia. }
  split; [exact B|]. intros nb Hnb Hb. unfold reach_of in *.
  pose proof (proj2 (pass_closed nbs _ (incl_refl nbs)) nb Hnb Hb) as C.
  rewrite <- reach_pass_eq, A in C. exact C.
Qed.
End Reach.

(* ------------------------------------------------------------------ dominator sets *)
Section Dom.
Variable preds : PM.t (list nblock).
Variable full : Z.

Definition dom_nd (dom : PM.t Z) (nb : nblock) : Z :=
  if Pos.eqb (nb_idx nb) 1 then nb_mask nb
  else Z.lor (nb_mask nb)
         (fold_left (fun a p => Z.land a (zfind dom (nb_idx p) full))
                    (match PM.find (nb_idx nb) preds with Some l => l | None => [] end) full).

Definition dp_step (acc : PM.t Z * bool) (nb : nblock) : PM.t Z * bool :=
  let nd := dom_nd (fst acc) nb in
  if nd =? zfind (fst acc) (nb_idx nb) full then acc else (PM.add (nb_idx nb) nd (fst acc), true).

Lemma dom_pass_eq l dom : dom_pass l preds full dom = fold_left dp_step l (dom, false).
Proof. reflexivity. Qed.

Lemma dp_flag_mono : forall l acc, snd acc = true -> snd (fold_left dp_step l acc) = true.
Proof.
  induction l as [|x l IH]; simpl; intros acc H; auto. apply IH. unfold dp_step.
  destruct (_ =? _); auto.
Qed.

Lemma dp_stable : forall l d, snd (fold_left dp_step l (d, false)) = false ->
  fst (fold_left dp_step l (d, false)) = d /\ forall nb, In nb l -> dom_nd d nb = zfind d (nb_idx nb) full.
Proof.
  induction l as [|x l IH]; simpl; intros d H; [split; [reflexivity|contradiction]|].
  unfold dp_step at 2 in H. unfold dp_step at 2. simpl fst in *.
  destruct (Z.eqb_spec (dom_nd d x) (zfind d (nb_idx x) full)) as [E|NE].
  - destruct (IH d H) as [A B]. split; auto. intros nb [<-|Hnb]; auto.
  - rewrite dp_flag_mono in H by reflexivity. discriminate.
Qed.

Lemma dom_iter_spec l : forall fuel d, snd (dom_iter fuel l preds full d) = true ->
  forall nb, In nb l -> dom_nd (fst (dom_iter fuel l preds full d)) nb = zfind (fst (dom_iter fuel l preds full d)) (nb_idx nb) full.
Proof.
  induction fuel as [|k IH]; simpl; intros d H; [discriminate|].
  destruct (snd (dom_pass l preds full d)) eqn:E.
  - apply IH; auto.
  - simpl. rewrite dom_pass_eq in *. destruct (dp_stable l d E) as [A B]. rewrite A. exact B.
Qed.

Lemma fold_land_sub (g : nblock -> Z) : forall l a,
  bsub (fold_left (fun a p => Z.land a (g p)) l a) a /\
  forall p, In p l -> bsub (fold_left (fun a p => Z.land a (g p)) l a) (g p).
Proof.
  induction l as [|x l IH]; simpl; intros a; [split; [apply bsub_refl|contradiction]|].
  destruct (IH (Z.land a (g x))) as [A B].
  assert (L1 : bsub (Z.land a (g x)) a) by (intros j H; rewrite Z.land_spec in H; apply andb_prop in H; tauto).
  assert (L2 : bsub (Z.land a (g x)) (g x)) by (intros j H; rewrite Z.land_spec in H; apply andb_prop in H; tauto).
  split; [eapply bsub_trans; eauto|]. intros p [<-|Hp]; [eapply bsub_trans; eauto|auto].
Qed.

(* along an edge p -> nb the dominator set of nb is within {nb} + that of p *)
Lemma dom_edge dom nb p : dom_nd dom nb = zfind dom (nb_idx nb) full ->
  In p (plist preds (nb_idx nb)) ->
  bsub (zfind dom (nb_idx nb) full) (Z.lor (nb_mask nb) (zfind dom (nb_idx p) full)).
Proof.
  intros E Hp. rewrite <- E. unfold dom_nd. destruct (Pos.eqb (nb_idx nb) 1); [apply bsub_lor_l|].
  apply bsub_lor; [apply bsub_lor_l|]. eapply bsub_trans; [|apply bsub_lor_r].
  apply (proj2 (fold_land_sub (fun p => zfind dom (nb_idx p) full) _ full)). exact Hp.
Qed.

Lemma dom_first dom nb : dom_nd dom nb = zfind dom (nb_idx nb) full -> nb_idx nb = 1%positive ->
  zfind dom (nb_idx nb) full = nb_mask nb.
Proof. intros E H. rewrite <- E. unfold dom_nd. rewrite H. reflexivity. Qed.
End Dom.

(* ------------------------------------------------------------------ recorded sites are real *)
Definition inst_def_at (b : block) (i : Z) (t : ident) : Prop :=
  0 <= i /\ exists x, nth_error (b_insts b) (Z.to_nat i) = Some x /\ In t (inst_def x).

Definition site_orig (f : func) (nbs : list nblock) (t : ident) (s : site) : Prop :=
  (s_blk s = 0 /\ In t (map snd (f_params f))) \/
  exists nb, In nb nbs /\ s_blk s = Zpos (nb_idx nb) /\ s_mask s = nb_mask nb /\
    ((s_pos s = -1 /\ In t (map p_res (b_phis (nb_blk nb)))) \/ inst_def_at (nb_blk nb) (s_pos s) t).

Definition all_orig (P : ident -> site -> Prop) (acc : dacc) : Prop :=
  forall t s, PM.find t (fst acc) = Some s -> P t s.

Lemma add_def_orig P fn bl t s acc : all_orig P acc -> P t s -> all_orig P (add_def fn bl t s acc).
Proof.
  unfold all_orig, add_def. intros A Ps t' s' H. destruct (PM.find t (fst acc)) eqn:E; simpl in H; auto.
  destruct (Pos.eq_dec t' t) as [->|N].
  - rewrite PM.gss in H. inversion H; subst. exact Ps.
  - rewrite PM.gso in H by exact N. auto.
Qed.

Lemma inst_defs_orig P fn bl bi mask : forall is i0 acc,
  all_orig P acc ->
  (forall k x t s, nth_error is k = Some x -> In t (inst_def x) ->
     s_blk s = bi -> s_pos s = i0 + Z.of_nat k -> s_mask s = mask -> P t s) ->
  all_orig P (inst_defs fn bl bi mask is i0 acc).
Proof.
  induction is as [|y is IH]; intros i0 acc A H; [exact A|].
  assert (H' : forall k x t s, nth_error is k = Some x -> In t (inst_def x) ->
                 s_blk s = bi -> s_pos s = i0 + 1 + Z.of_nat k -> s_mask s = mask -> P t s).
  { intros k x t s Hk Ht B1 B2 B3. apply (H (S k) x t s); auto. rewrite B2. lia. }
  assert (H0 : forall t s, In t (inst_def y) -> s_blk s = bi -> s_pos s = i0 -> s_mask s = mask -> P t s).
  { intros t s Ht B1 B2 B3. apply (H O y t s); auto. simpl. lia. }
  destruct y as [[[t k]|] o a0 a1|[[t ty]|] g args]; simpl; apply IH; auto;
    (apply add_def_orig; auto; apply H0; simpl; auto).
Qed.

Lemma block_defs_orig f nbs fn acc nb : In nb nbs ->
  all_orig (site_orig f nbs) acc -> all_orig (site_orig f nbs) (block_defs fn acc nb).
Proof.
  intros Hnb A. rewrite block_defs_eq. apply inst_defs_orig.
  - assert (G : forall ps acc0, incl ps (b_phis (nb_blk nb)) -> all_orig (site_orig f nbs) acc0 ->
                                all_orig (site_orig f nbs) (fold_left (phi_step fn nb) ps acc0)).
    { induction ps as [|p ps IH]; simpl; intros acc0 Hi A0; auto.
      apply IH; [intros x Hx; apply Hi; right; exact Hx|]. unfold phi_step. apply add_def_orig; auto.
      right. exists nb. simpl. repeat split; auto. left. split; auto. apply in_map. apply Hi. left; reflexivity. }
    apply G; auto. apply incl_refl.
  - intros k x t s Hk Ht B1 B2 B3. right. exists nb. repeat split; auto. right.
    unfold inst_def_at. rewrite B2. split; [lia|]. exists x. split; auto.
    replace (Z.to_nat (0 + Z.of_nat k)) with k by lia. exact Hk.
Qed.

Lemma func_defs_orig f nbs : all_orig (site_orig f nbs) (func_defs f nbs).
Proof.
  rewrite func_defs_eq.
  assert (G : forall l acc, incl l nbs -> all_orig (site_orig f nbs) acc ->
                            all_orig (site_orig f nbs) (fold_left (block_defs (f_name f)) l acc)).
  { induction l as [|nb l IH]; simpl; intros acc Hi A; auto.
    apply IH; [intros x Hx; apply Hi; right; exact Hx|]. apply block_defs_orig; auto. apply Hi. left; reflexivity. }
  apply G; [apply incl_refl|].
  assert (G0 : forall ps acc, incl ps (f_params f) -> all_orig (site_orig f nbs) acc ->
                              all_orig (site_orig f nbs) (fold_left (param_step (f_name f)) ps acc)).
  { induction ps as [|p ps IH]; simpl; intros acc Hi A; auto.
    apply IH; [intros x Hx; apply Hi; right; exact Hx|]. unfold param_step. apply add_def_orig; auto.
    left. simpl. split; auto. apply in_map. apply Hi. left; reflexivity. }
  apply G0; [apply incl_refl|]. intros t s H. simpl in H. rewrite PM.gempty in H. discriminate.
Qed.

(* ------------------------------------------------------------------ what the absence of rule-3 violations says *)
Definition use_ok (defs : PM.t site) (nb : nblock) (d : Z) (i : Z) (t : ident) : Prop :=
  exists s, PM.find t defs = Some s /\
    (s_blk s = 0 \/ (s_blk s = Zpos (nb_idx nb) /\ s_pos s < i) \/
     (s_blk s <> Zpos (nb_idx nb) /\ (Z.land d (s_mask s) =? 0) = false)).

Lemma use_viol_nil defs fn nb d i t : use_viol defs fn nb true d i (RTmp t) = [] -> use_ok defs nb d i t.
Proof.
  unfold use_viol, use_ok. destruct (PM.find t defs) as [s|]; [|discriminate]. intros H. exists s. split; auto.
  simpl in H. destruct (Z.eqb_spec (s_blk s) 0) as [E0|N0]; auto.
  destruct (Z.eqb_spec (s_blk s) (Zpos (nb_idx nb))) as [E1|N1].
  - destruct (Z.ltb_spec (s_pos s) i); [auto|discriminate].
  - destruct (Z.land d (s_mask s) =? 0); [discriminate|auto].
Qed.

Lemma insts_use_nil defs fn nb d : forall is i0, insts_use_viol defs fn nb true d is i0 = [] ->
  forall pre x post, is = pre ++ x :: post -> forall t, In (RTmp t) (inst_uses x) ->
    use_ok defs nb d (i0 + Z.of_nat (length pre)) t.
Proof.
  induction is as [|y is IH]; intros i0 H pre x post E t Ht; [destruct pre; discriminate|].
  simpl in H. apply app_eq_nil in H. destruct H as [H1 H2].
  destruct pre as [|z pre]; simpl in E; inversion E; subst.
  - replace (i0 + Z.of_nat (length (@nil inst))) with i0 by (simpl; lia).
    apply use_viol_nil with (fn := fn). exact (flat_map_nil _ _ H1 _ Ht).
  - replace (i0 + Z.of_nat (length (z :: pre))) with (i0 + 1 + Z.of_nat (length pre)) by (simpl length; lia).
    eapply IH; eauto.
Qed.

Lemma phi_viol_nil defs fn lm dom full reach nb pm p :
  phi_viol defs fn lm dom full reach nb pm p = [] ->
  forall l r, In (l, r) (p_args p) ->
  exists pb, PM.find l lm = Some pb /\
    forall t, r = RTmp t -> exists s, PM.find t defs = Some s /\
       ((Z.land reach (nb_mask pb) =? 0) || (Z.land reach (nb_mask nb) =? 0) || (s_blk s =? 0) = true \/
        (Z.land (zfind dom (nb_idx pb) full) (s_mask s) =? 0) = false).
Proof.
  unfold phi_viol. intros H. apply app_eq_nil in H. destruct H as [_ H]. revert H.
  match goal with |- snd (fold_left ?F _ _) = [] -> _ => set (step := F) end.
  generalize (0, @nil violation) as acc. generalize (p_args p) as args.
  assert (G : forall args acc, snd (fold_left step args acc) = [] ->
     snd acc = [] /\ forall l r, In (l, r) args ->
       exists pb, PM.find l lm = Some pb /\
         forall t, r = RTmp t -> exists s, PM.find t defs = Some s /\
           ((Z.land reach (nb_mask pb) =? 0) || (Z.land reach (nb_mask nb) =? 0) || (s_blk s =? 0) = true \/
            (Z.land (zfind dom (nb_idx pb) full) (s_mask s) =? 0) = false)).
  { induction args as [|a args IH]; simpl; intros acc H; [split; [exact H|contradiction]|].
    destruct (IH _ H) as [H1 H2]. clear IH H.
    destruct a as [l0 r0]. unfold step in H1; simpl in H1.
    destruct (PM.find l0 lm) as [pb|] eqn:El; [|simpl in H1; discriminate].
    simpl in H1. apply app_eq_nil in H1. destruct H1 as [_ H1]. apply app_eq_nil in H1. destruct H1 as [V2 H1].
    split; [exact H1|]. intros l r [E|Hin]; [|apply H2; exact Hin]. inversion E; subst l0 r0; clear E.
    exists pb. split; auto. intros t ->.
    destruct (PM.find t defs) as [s|]; [|discriminate]. exists s. split; auto.
    destruct ((Z.land reach (nb_mask pb) =? 0) || (Z.land reach (nb_mask nb) =? 0) || (s_blk s =? 0)); auto.
    right. destruct (Z.land (zfind dom (nb_idx pb) full) (s_mask s) =? 0); [discriminate|reflexivity]. }
  intros args acc H. exact (proj2 (G args acc H)).
Qed.

(* ------------------------------------------------------------------ the tables of one function *)
Definition nbs_of (f : func) : list nblock := number (f_blocks f) 1%positive 1.
Definition lm_of (f : func) : PM.t nblock := labmap (nbs_of f).
Definition sc_of (f : func) : list (nblock * list nblock) := succs_of (lm_of f) (nbs_of f).
Definition sm_of (f : func) : PM.t Z := succ_masks (sc_of f).
Definition preds_of (f : func) : PM.t (list nblock) := pred_lists (sc_of f).
Definition full_of (f : func) : Z := match nbs_of f with [] => 0 | _ => 2 ^ (Z.of_nat (length (nbs_of f)) + 1) - 1 end.
Definition reach_f (f : func) : Z := reach_iter (S (length (nbs_of f))) (nbs_of f) (sm_of f) 1.
Definition di_of (f : func) : PM.t Z * bool :=
  dom_iter (S (S (length (nbs_of f)))) (nbs_of f) (preds_of f) (full_of f) (PM.empty Z).
Definition domof (f : func) (nb : nblock) : Z := zfind (fst (di_of f)) (nb_idx nb) (full_of f).
Definition reachable (f : func) (nb : nblock) : Prop := bit (reach_f f) nb = true.
(* B is a successor of P in the checker's control-flow graph *)
Definition edge (f : func) (P B : nblock) : Prop := exists ss, In (P, ss) (sc_of f) /\ In B ss.

Lemma ssa_viol_eq f : ssa_viol f (nbs_of f) (fdefs f) =
  (if snd (di_of f) then [] else [mkv 3 VDomFuel (f_name f) 1%positive 0 1%positive]) ++
  flat_map (fun nb =>
    flat_map (phi_viol (fdefs f) (f_name f) (lm_of f) (fst (di_of f)) (full_of f) (reach_f f) nb
                       (pred_mask (preds_of f) (nb_idx nb))) (b_phis (nb_blk nb))
    ++ insts_use_viol (fdefs f) (f_name f) nb (negb (Z.land (reach_f f) (nb_mask nb) =? 0)) (domof f nb) (b_insts (nb_blk nb)) 0
    ++ flat_map (use_viol (fdefs f) (f_name f) nb (negb (Z.land (reach_f f) (nb_mask nb) =? 0)) (domof f nb)
                          (Z.of_nat (length (b_insts (nb_blk nb))))) (jump_uses (b_jump (nb_blk nb)))) (nbs_of f).
Proof. reflexivity. Qed.

Lemma wf_ssa m f : wf_module m = true -> In (Dfunc f) m -> ssa_viol f (nbs_of f) (fdefs f) = [].
Proof.
  intros W Hin. pose proof (wf_func_viol _ _ W Hin) as V. unfold func_viol in V.
  apply app_eq_nil in V. destruct V as [_ V]. apply app_eq_nil in V. destruct V as [_ V].
  apply app_eq_nil in V. destruct V as [_ V]. apply app_eq_nil in V. destruct V as [_ V].
  apply app_eq_nil in V. destruct V as [_ V]. apply app_eq_nil in V. destruct V as [V _]. exact V.
Qed.

(* the first block of an accepted function has no phi *)
Lemma wf_entry_nophi m f b after : wf_module m = true -> In (Dfunc f) m -> f_blocks f = b :: after -> b_phis b = [].
Proof.
  intros W Hin E. pose proof (wf_func_viol _ _ W Hin) as V. unfold func_viol in V.
  apply app_eq_nil in V. destruct V as [_ V]. apply app_eq_nil in V. destruct V as [_ V].
  apply app_eq_nil in V. destruct V as [_ V]. apply app_eq_nil in V. destruct V as [_ V].
  apply app_eq_nil in V. destruct V as [_ V]. apply app_eq_nil in V. destruct V as [_ V].
  unfold entry_phi_viol in V. rewrite E in V. destruct (b_phis b); [reflexivity|discriminate].
Qed.

Lemma nbs_mask f nb : In nb (nbs_of f) -> nb_mask nb = 2 ^ bitpos nb.
Proof. intros H. apply (number_spec (f_blocks f) 1%positive 1); auto. Qed.

Lemma nbs_nodup f : NoDup (map nb_idx (nbs_of f)).
Proof. apply number_idx_nodup. Qed.

Lemma nbs_blk f : map nb_blk (nbs_of f) = f_blocks f.
Proof. apply number_blk. Qed.

Lemma nbs_eq f a b : In a (nbs_of f) -> In b (nbs_of f) -> nb_idx a = nb_idx b -> a = b.
Proof. apply nodup_idx_eq. apply nbs_nodup. Qed.

Lemma nbs_split f pre B after : f_blocks f = pre ++ B :: after ->
  exists npre nb nafter, nbs_of f = npre ++ nb :: nafter /\ nb_blk nb = B /\ map nb_blk nafter = after.
Proof.
  intros H. pose proof (nbs_blk f) as E. rewrite H in E.
  apply map_eq_app in E. destruct E as (npre & rest & E1 & E2 & E3).
  apply map_eq_cons in E3. destruct E3 as (nb & nafter & E3 & E4 & E5).
  exists npre, nb, nafter. subst rest. auto.
Qed.

Lemma nbs_first f b after : f_blocks f = b :: after ->
  exists nb nafter, nbs_of f = nb :: nafter /\ nb_blk nb = b /\ map nb_blk nafter = after /\ nb_idx nb = 1%positive.
Proof.
  intros H. unfold nbs_of. rewrite H. simpl. eexists _, _. split; [reflexivity|]. simpl.
  repeat split; auto. apply number_blk.
Qed.

Lemma nbs_labels m f : wf_module m = true -> In (Dfunc f) m ->
  NoDup (map (fun nb => b_label (nb_blk nb)) (nbs_of f)).
Proof.
  intros W Hin. pose proof (wf_labels_unique m f W Hin) as ND.
  rewrite <- (nbs_blk f), map_map in ND. exact ND.
Qed.

Lemma marked_bit f r nb : In nb (nbs_of f) -> (Z.land r (nb_mask nb) =? 0) = negb (bit r nb).
Proof. intros H. rewrite (nbs_mask f nb H). apply land_pow2_eqb. apply bitpos_nonneg. Qed.

Lemma sc_fst f : map fst (sc_of f) = nbs_of f.
Proof. apply succs_of_fst. Qed.

Lemma sc_nodup f : NoDup (map (fun p => nb_idx (fst p)) (sc_of f)).
Proof. rewrite <- (map_map fst nb_idx), sc_fst. apply nbs_nodup. Qed.

Lemma sc_sub f p : In p (sc_of f) -> incl (snd p) (nbs_of f).
Proof.
  apply (succs_of_sub (lm_of f) (nbs_of f)); [|apply incl_refl].
  intros l n H. eapply labmap_in; eauto.
Qed.

Lemma sm_bits f i : bits_in (nbs_of f) (zfind (sm_of f) i 0).
Proof. apply succ_masks_bits; [apply nbs_mask|apply sc_sub]. Qed.

Lemma edge_in f P B : edge f P B -> In P (nbs_of f) /\ In B (nbs_of f).
Proof.
  intros [ss [H1 H2]]. split.
  - rewrite <- sc_fst. apply (in_map fst) in H1. exact H1.
  - apply (sc_sub f _ H1). exact H2.
Qed.

Lemma reach_spec f :
  bsub 1 (reach_f f) /\
  forall nb, In nb (nbs_of f) -> bit (reach_f f) nb = true -> bsub (zfind (sm_of f) (nb_idx nb) 0) (reach_f f).
Proof. apply reach_of_spec; [apply nbs_mask|apply sm_bits]. Qed.

Lemma reach_first f nb : nb_idx nb = 1%positive -> reachable f nb.
Proof.
  intros H. unfold reachable, bit, bitpos. rewrite H. apply (proj1 (reach_spec f)). reflexivity.
Qed.

Lemma reach_edge f P B : edge f P B -> reachable f P -> reachable f B.
Proof.
  intros E R. destruct (edge_in f P B E) as [HP HB]. destruct E as [ss [H1 H2]].
  unfold reachable, bit. apply (proj2 (reach_spec f) P HP R).
  unfold zfind, sm_of. rewrite (succ_masks_spec (sc_of f) (sc_nodup f) P ss H1).
  apply (proj2 (smask_fold_has ss 0) B H2). rewrite (nbs_mask f B HB). apply Z.pow2_bits_true. apply bitpos_nonneg.
Qed.

Lemma dom_eqn m f : wf_module m = true -> In (Dfunc f) m ->
  forall nb, In nb (nbs_of f) -> dom_nd (preds_of f) (full_of f) (fst (di_of f)) nb = domof f nb.
Proof.
  intros W Hin nb Hnb. pose proof (wf_ssa m f W Hin) as V. rewrite ssa_viol_eq in V.
  apply app_eq_nil in V. destruct V as [V _].
  unfold domof, di_of. apply dom_iter_spec; auto. fold (di_of f). destruct (snd (di_of f)); [reflexivity|discriminate].
Qed.

Lemma domof_edge m f P B : wf_module m = true -> In (Dfunc f) m -> edge f P B ->
  bsub (domof f B) (Z.lor (nb_mask B) (domof f P)).
Proof.
  intros W Hin E. destruct (edge_in f P B E) as [HP HB]. destruct E as [ss [H1 H2]].
  unfold domof. apply (dom_edge (preds_of f)); [apply (dom_eqn m f W Hin B HB)|].
  unfold preds_of. eapply pred_lists_spec; eauto.
Qed.

Lemma domof_first m f nb : wf_module m = true -> In (Dfunc f) m -> In nb (nbs_of f) -> nb_idx nb = 1%positive ->
  domof f nb = nb_mask nb.
Proof. intros W Hin Hnb H1. unfold domof. apply (dom_first (preds_of f)); auto. apply (dom_eqn m f W Hin nb Hnb). Qed.

Lemma fdefs_orig f t s : PM.find t (fdefs f) = Some s -> site_orig f (nbs_of f) t s.
Proof. apply (func_defs_orig f (nbs_of f)). Qed.

(* semantic transitions are edges *)
Lemma edge_fall f npre P B nafter :
  nbs_of f = npre ++ P :: B :: nafter -> b_jump (nb_blk P) = None -> edge f P B.
Proof.
  intros E J. exists [B]. split; [|left; reflexivity].
  unfold sc_of. rewrite E. replace [B] with (succs_at (lm_of f) P (B :: nafter)); [apply succs_of_in|].
  unfold succs_at. rewrite J. reflexivity.
Qed.

Lemma find_suffix_label l : forall bs b after, find_suffix l bs = Some (b, after) -> b_label b = l.
Proof.
  induction bs as [|a bs IH]; simpl; intros b after H; [discriminate|].
  destruct (Pos.eqb_spec (b_label a) l) as [E|N]; [inversion H; congruence|eapply IH; eauto].
Qed.

Lemma edge_jump m f npre P nafter l B after : wf_module m = true -> In (Dfunc f) m ->
  nbs_of f = npre ++ P :: nafter -> In l (jump_targets (b_jump (nb_blk P))) ->
  find_suffix l (f_blocks f) = Some (B, after) ->
  exists npre' nbB nafter', nbs_of f = npre' ++ nbB :: nafter' /\ nb_blk nbB = B /\ map nb_blk nafter' = after /\ edge f P nbB.
Proof.
  intros W Hin E Hl F. destruct (find_suffix_split _ _ _ _ F) as [pre Hpre].
  destruct (nbs_split f pre B after Hpre) as (npre' & nbB & nafter' & E1 & E2 & E3).
  exists npre', nbB, nafter'. repeat split; auto.
  assert (HB : In nbB (nbs_of f)) by (rewrite E1; apply in_or_app; right; left; reflexivity).
  assert (L : PM.find l (lm_of f) = Some nbB).
  { rewrite <- (find_suffix_label _ _ _ _ F), <- E2. apply labmap_spec; auto. eapply nbs_labels; eauto. }
  exists (succs_at (lm_of f) P nafter). split; [unfold sc_of; rewrite E; apply succs_of_in|].
  unfold succs_at. destruct (b_jump (nb_blk P)) as [j|]; [|simpl in Hl; contradiction].
  apply in_flat_map. exists l. split; auto. rewrite L. left; reflexivity.
Qed.

(* ------------------------------------------------------------------ availability *)
(* t is recorded, and its site is a parameter, an earlier position of block nb, or a block of nb's
   dominator set other than nb *)
Definition avail (f : func) (nb : nblock) (i : Z) (t : ident) : Prop :=
  exists s, PM.find t (fdefs f) = Some s /\
    (s_blk s = 0 \/ (s_blk s = Zpos (nb_idx nb) /\ s_pos s < i) \/
     (s_blk s <> Zpos (nb_idx nb) /\ 0 < s_blk s /\ Z.testbit (domof f nb) (s_blk s - 1) = true)).

Lemma use_ok_avail f nb i t : use_ok (fdefs f) nb (domof f nb) i t -> avail f nb i t.
Proof.
  intros [s [F H]]. exists s. split; auto. destruct H as [H|[H|[H1 H2]]]; auto.
  destruct (fdefs_orig f t s F) as [[Z0 _]|(nb' & Hnb' & B1 & B2 & _)]; auto.
  right; right. split; auto. split; [lia|].
  rewrite B2, (marked_bit f _ nb' Hnb') in H2. unfold bit, bitpos in H2. rewrite B1.
  destruct (Z.testbit (domof f nb) (Zpos (nb_idx nb') - 1)); [reflexivity|discriminate].
Qed.

(* a site inside block nb lies before the end of the block *)
Lemma site_pos_bound f nb t s : In nb (nbs_of f) -> PM.find t (fdefs f) = Some s -> s_blk s = Zpos (nb_idx nb) ->
  s_pos s < Z.of_nat (length (b_insts (nb_blk nb))).
Proof.
  intros Hnb F B. destruct (fdefs_orig f t s F) as [[Z0 _]|(nb' & Hnb' & B1 & B2 & O)]; [lia|].
  assert (nb' = nb) by (apply (nbs_eq f); auto; congruence). subst nb'.
  destruct O as [[P _]|[P0 (x & Hx & _)]]; [lia|].
  assert (Z.to_nat (s_pos s) < length (b_insts (nb_blk nb)))%nat by (apply nth_error_Some; congruence). lia.
Qed.

Lemma avail_end f P t s : In P (nbs_of f) -> PM.find t (fdefs f) = Some s -> 0 < s_blk s ->
  Z.testbit (domof f P) (s_blk s - 1) = true -> avail f P (Z.of_nat (length (b_insts (nb_blk P)))) t.
Proof.
  intros HP F Pos T. exists s. split; auto.
  destruct (Z.eq_dec (s_blk s) (Zpos (nb_idx P))) as [E|N].
  - right; left. split; auto. eapply site_pos_bound; eauto.
  - right; right. auto.
Qed.

Section Facts.
Variable m : module.
Variable f : func.
Hypothesis W : wf_module m = true.
Hypothesis Hin : In (Dfunc f) m.

Lemma ssa_block nb : In nb (nbs_of f) -> reachable f nb ->
  (forall p, In p (b_phis (nb_blk nb)) ->
     phi_viol (fdefs f) (f_name f) (lm_of f) (fst (di_of f)) (full_of f) (reach_f f) nb (pred_mask (preds_of f) (nb_idx nb)) p = []) /\
  insts_use_viol (fdefs f) (f_name f) nb true (domof f nb) (b_insts (nb_blk nb)) 0 = [] /\
  (forall r, In r (jump_uses (b_jump (nb_blk nb))) ->
     use_viol (fdefs f) (f_name f) nb true (domof f nb) (Z.of_nat (length (b_insts (nb_blk nb)))) r = []).
Proof.
  intros Hnb R. pose proof (wf_ssa m f W Hin) as V. rewrite ssa_viol_eq in V.
  apply app_eq_nil in V. destruct V as [_ V]. pose proof (flat_map_nil _ _ V _ Hnb) as Q. simpl in Q.
  rewrite (marked_bit f _ nb Hnb) in Q. unfold reachable in R. rewrite R in Q. simpl in Q.
  apply app_eq_nil in Q. destruct Q as [Q1 Q]. apply app_eq_nil in Q. destruct Q as [Q2 Q3].
  split; [|split]; auto.
  - intros p Hp. exact (flat_map_nil _ _ Q1 _ Hp).
  - intros r Hr. exact (flat_map_nil _ _ Q3 _ Hr).
Qed.

(* C1: operands of the instruction at position |ipre| *)
Lemma avail_use nb ipre x post t : In nb (nbs_of f) -> reachable f nb ->
  b_insts (nb_blk nb) = ipre ++ x :: post -> In (RTmp t) (inst_uses x) ->
  avail f nb (Z.of_nat (length ipre)) t.
Proof.
  intros Hnb R E Ht. destruct (ssa_block nb Hnb R) as (_ & Q & _).
  apply use_ok_avail. replace (Z.of_nat (length ipre)) with (0 + Z.of_nat (length ipre)) by lia.
  eapply insts_use_nil; eauto.
Qed.

(* C2: operand of the jump *)
Lemma avail_jump nb t : In nb (nbs_of f) -> reachable f nb ->
  In (RTmp t) (jump_uses (b_jump (nb_blk nb))) ->
  avail f nb (Z.of_nat (length (b_insts (nb_blk nb)))) t.
Proof.
  intros Hnb R Ht. destruct (ssa_block nb Hnb R) as (_ & _ & Q).
  apply use_ok_avail. eapply use_viol_nil. apply Q. exact Ht.
Qed.

(* C3: the phi argument selected when B is entered from P *)
Lemma avail_phi P B p t : edge f P B -> reachable f P ->
  In p (b_phis (nb_blk B)) -> In (b_label (nb_blk P), RTmp t) (p_args p) ->
  avail f P (Z.of_nat (length (b_insts (nb_blk P)))) t.
Proof.
  intros E R Hp Ha. destruct (edge_in f P B E) as [HP HB].
  pose proof (reach_edge f P B E R) as RB.
  destruct (ssa_block B HB RB) as (Q & _ & _).
  destruct (phi_viol_nil _ _ _ _ _ _ _ _ _ (Q p Hp) _ _ Ha) as (pb & L & H).
  unfold lm_of in L. rewrite (labmap_spec (nbs_of f) (nbs_labels m f W Hin) P HP) in L. inversion L; subst pb; clear L.
  destruct (H t eq_refl) as (s & F & D).
  rewrite (marked_bit f _ P HP), (marked_bit f _ B HB) in D. unfold reachable in R, RB. rewrite R, RB in D. simpl in D.
  destruct D as [D|D].
  - exists s. split; auto. left. apply Z.eqb_eq. exact D.
  - destruct (fdefs_orig f t s F) as [[Z0 _]|(nb' & Hnb' & B1 & B2 & _)]; [exists s; auto|].
    eapply avail_end; eauto; [lia|].
    rewrite B2, (marked_bit f _ nb' Hnb') in D. unfold bit, bitpos in D. rewrite B1. unfold domof.
    destruct (Z.testbit (zfind (fst (di_of f)) (nb_idx P) (full_of f)) (Zpos (nb_idx nb') - 1)); [reflexivity|discriminate].
Qed.

(* C4: what is available on entry to B was available at the end of P, or is a phi of B *)
Lemma avail_edge P B t : edge f P B -> avail f B 0 t ->
  avail f P (Z.of_nat (length (b_insts (nb_blk P)))) t \/ In t (map p_res (b_phis (nb_blk B))).
Proof.
  intros E [s [F H]]. destruct (edge_in f P B E) as [HP HB].
  destruct H as [H|[[H1 H2]|(H1 & H2 & H3)]].
  - left. exists s. auto.
  - right. destruct (fdefs_orig f t s F) as [[Z0 _]|(nb' & Hnb' & B1 & B2 & O)]; [lia|].
    assert (nb' = B) by (apply (nbs_eq f); auto; congruence). subst nb'.
    destruct O as [[_ O]|[O _]]; [exact O|lia].
  - left. eapply avail_end; eauto.
    pose proof (domof_edge m f P B W Hin E _ H3) as T.
    rewrite Z.lor_spec, (nbs_mask f B HB), Z.pow2_bits_eqb in T by apply bitpos_nonneg.
    apply orb_prop in T. destruct T as [T|T]; auto.
    apply Z.eqb_eq in T. unfold bitpos in T. exfalso. apply H1. lia.
Qed.

(* C6: one instruction further *)
Lemma avail_step nb ipre x post t : In nb (nbs_of f) -> b_insts (nb_blk nb) = ipre ++ x :: post ->
  avail f nb (Z.of_nat (length ipre) + 1) t -> avail f nb (Z.of_nat (length ipre)) t \/ In t (inst_def x).
Proof.
  intros Hnb E [s [F H]].
  destruct H as [H|[[H1 H2]|H]]; [left; exists s; auto| |left; exists s; auto].
  destruct (Z.eq_dec (s_pos s) (Z.of_nat (length ipre))) as [Ep|Np]; [|left; exists s; split; auto; right; left; split; auto; lia].
  right. destruct (fdefs_orig f t s F) as [[Z0 _]|(nb' & Hnb' & B1 & B2 & O)]; [lia|].
  assert (nb' = nb) by (apply (nbs_eq f); auto; congruence). subst nb'.
  destruct O as [[O _]|[_ (y & Hy & Ty)]]; [lia|].
  rewrite Ep, Nat2Z.id, E, nth_error_app2, Nat.sub_diag in Hy by lia. simpl in Hy. inversion Hy; subst. exact Ty.
Qed.

(* C7: at the start of the first block only parameters (and the block's own phis) are available *)
Lemma avail_entry nb t : In nb (nbs_of f) -> nb_idx nb = 1%positive -> avail f nb 0 t ->
  In t (map snd (f_params f)) \/ In t (map p_res (b_phis (nb_blk nb))).
Proof.
  intros Hnb I1 [s [F H]].
  destruct (fdefs_orig f t s F) as [[Z0 Pm]|(nb' & Hnb' & B1 & B2 & O)]; auto.
  destruct H as [H|[[H1 H2]|(H1 & H2 & H3)]]; [lia| |].
  - assert (nb' = nb) by (apply (nbs_eq f); auto; congruence). subst nb'.
    destruct O as [[_ O]|[O _]]; [auto|lia].
  - exfalso. rewrite (domof_first m f nb W Hin Hnb I1), (nbs_mask f nb Hnb), Z.pow2_bits_eqb in H3 by apply bitpos_nonneg.
    apply Z.eqb_eq in H3. unfold bitpos in H3. apply H1. lia.
Qed.
End Facts.
