(* QbeSoundType.v - soundness of rule (7) of the checker QbeWf.wf_module with respect to Qbe.run:
   a module accepted by the checker never stops with [Stuck (NoType _)].

   The semantics produces NoType in one place only, [agg_size] (the size of an aggregate type that has
   no layout in [ge_lay]).  It is called for (a) the aggregate parameters of a callee, (b) the aggregate
   actuals of a variadic call, (c) the aggregate result of a call.  [types_viol] checks that every such
   type name was defined by an earlier [Dtype]; [type_layouts] gives every defined type a layout
   provided the aggregate fields of its body have one, which [types_viol] checks too. *)
From Coq Require Import ZArith List Bool PArith FMapPositive Lia.
From Cproc Require Import Model.Qbe Model.QbeWf Proofs.QbeProofs.
Import ListNotations.
Open Scope Z_scope.

(* ------------------------------------------------------------------ static part: layouts exist *)
Definition lay_has (lay : PM.t (Z * Z)) (u : ident) : Prop := PM.find u lay <> None.

Lemma lay_has_add lay u v sa : lay_has lay u -> lay_has (PM.add v sa lay) u.
Proof.
  unfold lay_has. intros H. destruct (Pos.eq_dec u v) as [->|N].
  - rewrite PM.gss. discriminate.
  - rewrite PM.gso by exact N. exact H.
Qed.

Lemma type_layouts_mono : forall m lay u, lay_has lay u -> lay_has (type_layouts m lay) u.
Proof.
  induction m as [|d m IH]; simpl; intros lay u H; auto.
  destruct d as [t|d|f]; auto.
  apply IH. destruct (typdef_layout lay t); auto. apply lay_has_add; auto.
Qed.

Definition seen_in (seen : PM.t unit) (lay : PM.t (Z * Z)) : Prop :=
  forall u, PM.find u seen <> None -> lay_has lay u.

Lemma fields_layout_some seen lay tn : seen_in seen lay ->
  forall fs off al, fields_type_viol seen tn fs = [] -> fields_layout lay fs off al <> None.
Proof.
  intros S. induction fs as [|[f n] fs IH]; simpl; intros off al H; [discriminate|].
  unfold fields_type_viol in H. simpl in H. apply app_eq_nil in H. destruct H as [H1 H2].
  assert (L : fty_layout lay f <> None).
  { destruct f; simpl; try discriminate.
    destruct (PM.find t seen) eqn:E; [|discriminate]. apply S. congruence. }
  destruct (fty_layout lay f) as [[s a]|]; [|congruence]. apply IH. exact H2.
Qed.

Lemma alts_layout_some seen lay tn : seen_in seen lay ->
  forall alts sz al, flat_map (fields_type_viol seen tn) alts = [] -> alts_layout lay alts sz al <> None.
Proof.
  intros S. induction alts as [|fs alts IH]; simpl; intros sz al H; [discriminate|].
  apply app_eq_nil in H. destruct H as [H1 H2].
  pose proof (fields_layout_some seen lay tn S fs 0 1 H1) as L.
  destruct (fields_layout lay fs 0 1) as [[s a]|]; [|congruence]. apply IH. exact H2.
Qed.

Lemma typdef_layout_some seen lay t : seen_in seen lay -> typdef_viol seen t = [] -> typdef_layout lay t <> None.
Proof.
  intros S H. unfold typdef_viol in H. apply app_eq_nil in H. destruct H as [_ H].
  unfold typdef_layout. destruct (td_body t) as [fs|alts|sz].
  - pose proof (fields_layout_some seen lay (td_name t) S fs 0 1 H) as L.
    destruct (fields_layout lay fs 0 1); [discriminate|congruence].
  - pose proof (alts_layout_some seen lay (td_name t) S alts 0 1 H) as L.
    destruct (alts_layout lay alts 0 1); [discriminate|congruence].
  - discriminate.
Qed.

(* the value types a function mentions: return type, parameters, call results and call arguments *)
Definition arg_rtys (args : list arg) : list rty :=
  flat_map (fun a => match a with Aval t _ => [t] | Avar => [] end) args.
Definition inst_rtys (i : inst) : list rty :=
  match i with
  | Icall d _ args => match d with Some (_, t) => [t] | None => [] end ++ arg_rtys args
  | _ => [] end.
Definition func_rtys (f : func) : list rty :=
  match f_ret f with Some t => [t] | None => [] end
  ++ map fst (f_params f)
  ++ flat_map (fun b => flat_map inst_rtys (b_insts b)) (f_blocks f).

Definition rtys_ok (lay : PM.t (Z * Z)) (l : list rty) : Prop := forall u, In (Tagg u) l -> lay_has lay u.

Lemma rtys_ok_app lay a b : rtys_ok lay a -> rtys_ok lay b -> rtys_ok lay (a ++ b).
Proof. unfold rtys_ok. intros A B u H. apply in_app_or in H. destruct H; auto. Qed.

Lemma rty_viol_ok seen lay fn t : seen_in seen lay -> rty_type_viol seen fn t = [] -> rtys_ok lay [t].
Proof.
  intros S H u [E|[]]. subst t. simpl in H. destruct (PM.find u seen) eqn:F; [|discriminate].
  apply S. congruence.
Qed.

Lemma flat_rtys_ok {X} lay (g : X -> list violation) (h : X -> list rty) :
  (forall x, g x = [] -> rtys_ok lay (h x)) ->
  forall xs, flat_map g xs = [] -> rtys_ok lay (flat_map h xs).
Proof.
  intros G. induction xs as [|x xs IH]; simpl; intros H; [intros u []|].
  apply app_eq_nil in H. destruct H as [H1 H2]. apply rtys_ok_app; auto.
Qed.

Lemma inst_viol_ok seen lay fn i : seen_in seen lay -> inst_type_viol seen fn i = [] -> rtys_ok lay (inst_rtys i).
Proof.
  intros S H. destruct i as [d o a0 a1|d f args]; simpl; [intros u []|].
  simpl in H. apply app_eq_nil in H. destruct H as [H1 H2]. apply rtys_ok_app.
  - destruct d as [[t ty]|]; [|intros u []]. eapply rty_viol_ok; eauto.
  - unfold arg_rtys. revert H2. apply (flat_rtys_ok lay).
    intros [t r|] Hx; [|intros u []]. eapply rty_viol_ok; eauto.
Qed.

Lemma func_viol_ok seen lay f : seen_in seen lay -> func_type_viol seen f = [] -> rtys_ok lay (func_rtys f).
Proof.
  intros S H. unfold func_type_viol in H. apply app_eq_nil in H. destruct H as [H1 H].
  apply app_eq_nil in H. destruct H as [H2 H3]. unfold func_rtys.
  apply rtys_ok_app; [|apply rtys_ok_app].
  - destruct (f_ret f) as [t|]; [|intros u []]. eapply rty_viol_ok; eauto.
  - revert H2.
    generalize (f_params f). induction l as [|[ty t] l IH]; simpl; intros H2; [intros u []|].
    apply app_eq_nil in H2. destruct H2 as [A B].
    change (ty :: map fst l) with ([ty] ++ map fst l). apply rtys_ok_app; auto.
    eapply rty_viol_ok; eauto.
  - revert H3. apply (flat_rtys_ok lay). intros b.
    apply (flat_rtys_ok lay). intros i. apply inst_viol_ok; auto.
Qed.

Lemma rtys_ok_mono m lay l : rtys_ok lay l -> rtys_ok (type_layouts m lay) l.
Proof. intros H u Hu. apply type_layouts_mono. auto. Qed.

(* rule (7), static reading: every type a function mentions has a layout in the final table *)
Lemma types_viol_sound : forall m seen lay,
  types_viol m seen = [] -> seen_in seen lay ->
  forall f, In (Dfunc f) m -> rtys_ok (type_layouts m lay) (func_rtys f).
Proof.
  induction m as [|d m IH]; simpl; intros seen lay H S f Hin; [contradiction|].
  destruct d as [t|d|f0].
  - apply app_eq_nil in H. destruct H as [H1 H2].
    destruct Hin as [Hin|Hin]; [discriminate|].
    pose proof (typdef_layout_some seen lay t S H1) as L.
    destruct (typdef_layout lay t) as [sa|]; [|congruence].
    apply (IH _ _ H2); auto.
    intros u Hu. destruct (Pos.eq_dec u (td_name t)) as [->|N].
    + unfold lay_has. rewrite PM.gss. discriminate.
    + rewrite PM.gso in Hu by exact N. apply lay_has_add. apply S. exact Hu.
  - destruct Hin as [Hin|Hin]; [discriminate|]. apply (IH _ _ H); auto.
  - apply app_eq_nil in H. destruct H as [H1 H2].
    destruct Hin as [Hin|Hin].
    + inversion Hin; subst f0. apply rtys_ok_mono. apply (func_viol_ok seen); auto.
    + apply (IH _ _ H2); auto.
Qed.

Lemma wf_types m : wf_module m = true -> types_viol m (PM.empty unit) = [].
Proof.
  unfold wf_module. destruct (wf_module_list m) eqn:E; [|discriminate]. intros _.
  unfold wf_module_list in E. apply app_eq_nil in E. destruct E as [_ E].
  apply app_eq_nil in E. tauto.
Qed.

Lemma wf_func_rtys m ext f : wf_module m = true -> In (Dfunc f) m -> rtys_ok (ge_lay (mk_genv m ext)) (func_rtys f).
Proof.
  intros W Hin. unfold mk_genv; simpl. apply (types_viol_sound m (PM.empty unit)); auto.
  - apply wf_types; auto.
  - intros u Hu. rewrite PM.gempty in Hu. congruence.
Qed.

(* ------------------------------------------------------------------ dynamic part *)
(* results other than a missing aggregate type *)
Definition nt (r : result) : Prop := forall t, r <> Stuck (NoType t).
Definition okt {A} (x : res A) : Prop := match x with Ok _ => True | Err r => nt r end.

Ltac nts := unfold nt; intros ?; discriminate.

Lemma bind_okt {A B} (x : res A) (f : A -> res B) : okt x -> (forall a, x = Ok a -> okt (f a)) -> okt (bind x f).
Proof. destruct x; simpl; auto. Qed.

Lemma read_okt env k r : okt (read env k r).
Proof.
  unfold read, stuckr. destruct r; simpl.
  - destruct (PM.find t env) as [[k' v]|]; [|nts]. destruct (cls_eqb k k'); simpl; auto. destruct k, k'; simpl; auto; nts.
  - destruct k; simpl; auto; nts.
  - destruct k; simpl; auto; nts.
  - destruct k; simpl; auto; nts.
  - destruct k; simpl; auto; nts.
Qed.

Lemma read1_okt env k r : okt (read1 env k r).
Proof. destruct r; simpl; [apply read_okt|nts]. Qed.

Ltac okr :=
  repeat first
    [ apply bind_okt; [ first [apply read_okt | apply read1_okt] | intros ? _ ]
    | apply read_okt | apply read1_okt
    | match goal with
      | |- okt (match ?x with _ => _ end) => destruct x
      | |- okt (if ?x then _ else _) => destruct x
      | |- okt (Ok _) => exact I
      | |- okt (stuckr _) => unfold stuckr; simpl; nts
      | |- okt (Err _) => simpl; nts
      end ].

Lemma eval_pure_okt fo env o k a0 a1 : okt (eval_pure fo env o k a0 a1).
Proof. unfold eval_pure. destruct o; okr. Qed.

Lemma eval_phis_okt old from ps : forall env, okt (eval_phis old from ps env).
Proof.
  induction ps as [|p ps IH]; simpl; intros env; [exact I|].
  destruct (phi_arg from (p_args p)); [|unfold stuckr; simpl; nts].
  apply bind_okt; [apply read_okt|]. intros; apply IH.
Qed.

(* the actuals carry the types written in the call *)
Lemma eval_args_okt env args : forall sv,
  okt (eval_args env args sv) /\
  forall fx vr, eval_args env args sv = Ok (fx, vr) -> forall ty, In ty (map fst (fx ++ vr)) -> In ty (arg_rtys args).
Proof.
  induction args as [|a args IH]; simpl; intros sv.
  - split; [exact I|]. intros fx vr H; inversion H; subst. simpl. auto.
  - destruct a as [t r|].
    + destruct (IH sv) as [I1 I2]. split.
      * apply bind_okt; [apply read_okt|]. intros v _. apply bind_okt; [exact I1|]. intros fv _. destruct sv; exact I.
      * intros fx vr. destruct (read env _ r) as [v|]; simpl; [|discriminate].
        destruct (eval_args env args sv) as [[fx' vr']|] eqn:E; simpl; [|discriminate].
        specialize (I2 _ _ eq_refl).
        destruct sv; intros H; inversion H; subst; clear H; intros ty Hty; simpl in *.
        -- rewrite map_app in Hty. apply in_app_or in Hty. simpl in Hty.
           destruct Hty as [Hty|[Hty|Hty]]; auto; right; apply I2; rewrite map_app; apply in_or_app; auto.
        -- destruct Hty as [Hty|Hty]; auto.
    + destruct sv; [split; [unfold stuckr; simpl; nts|discriminate]|]. apply IH.
Qed.

Lemma copy_in_okt st a n : okt (copy_in st a n).
Proof. unfold copy_in. okr. Qed.

Lemma agg_size_okt ge t : lay_has (ge_lay ge) t -> okt (agg_size ge t).
Proof. unfold agg_size, lay_has. intros H. destruct (PM.find t (ge_lay ge)) as [[s a]|]; [exact I|congruence]. Qed.

(* binding the formals: the formals' types have layouts; what is left over is a suffix of the actuals *)
Lemma bind_params_okt ge ps : rtys_ok (ge_lay ge) (map fst ps) ->
  forall st avs env allocs,
  okt (bind_params ge st ps avs env allocs) /\
  forall st' env' al' rest, bind_params ge st ps avs env allocs = Ok (st', env', al', rest) ->
    forall ty, In ty (map fst rest) -> In ty (map fst avs).
Proof.
  induction ps as [|[ty t] ps IH]; intros R st avs env allocs; simpl.
  - split; [exact I|]. intros st' env' al' rest H; inversion H; subst. auto.
  - assert (R' : rtys_ok (ge_lay ge) (map fst ps)) by (intros u Hu; apply R; simpl; auto).
    destruct avs as [|[ty' v] avs]; [split; [destruct ty; unfold stuckr; simpl; nts|destruct ty; discriminate]|].
    destruct ty as [k|ag]; destruct ty' as [k'|ag']; try (split; [unfold stuckr; simpl; nts|discriminate]).
    + destruct (cls_eqb k k'); [|split; [unfold stuckr; simpl; nts|discriminate]].
      destruct (IH R' st avs (PM.add t (k, v) env) allocs) as [I1 I2]. split; auto.
      intros st' env' al' rest H ty Hty. simpl. right. eapply I2; eauto.
    + assert (L : lay_has (ge_lay ge) ag) by (apply R; simpl; auto).
      split.
      * apply bind_okt; [apply agg_size_okt; auto|]. intros n _. apply bind_okt; [apply copy_in_okt|]. intros sp _.
        apply (IH R').
      * intros st' env' al' rest. destruct (agg_size ge ag) as [n|]; simpl; [|discriminate].
        destruct (copy_in st v n) as [sp|]; simpl; [|discriminate].
        intros H ty Hty. right. eapply (proj2 (IH R' _ _ _ _)); eauto.
Qed.

Lemma bind_va_okt ge avs : rtys_ok (ge_lay ge) (map fst avs) -> forall st allocs, okt (bind_va ge st avs allocs).
Proof.
  induction avs as [|[ty v] avs IH]; intros R st allocs; simpl; [exact I|].
  assert (R' : rtys_ok (ge_lay ge) (map fst avs)) by (intros u Hu; apply R; simpl; auto).
  destruct ty as [k|ag].
  - apply bind_okt; [apply IH; auto|]. intros [[st' l] al] _. exact I.
  - apply bind_okt; [apply agg_size_okt; apply R; simpl; auto|]. intros n _.
    apply bind_okt; [apply copy_in_okt|]. intros sp _.
    apply bind_okt; [apply IH; auto|]. intros [[st' l] al] _. exact I.
Qed.

(* ------------------------------------------------------------------ the invariant *)
(* a frame executes a suffix of a block of a function of the module, and an aggregate result it waits
   for has a type with a layout *)
Definition tframe_ok (m : module) (lay : PM.t (Z * Z)) (fr : frame) : Prop :=
  In (Dfunc (fr_fn fr)) m /\
  (exists pre, f_blocks (fr_fn fr) = pre ++ fr_blk fr :: fr_after fr) /\
  (exists pre, b_insts (fr_blk fr) = pre ++ fr_code fr) /\
  (forall t u, fr_dst fr = Some (t, Tagg u) -> lay_has lay u).

Definition tstate_ok (m : module) (lay : PM.t (Z * Z)) (st : state) : Prop := Forall (tframe_ok m lay) (st_stack st).

Definition tgood (m : module) (lay : PM.t (Z * Z)) (s : step_result) : Prop :=
  match s with Next st' => tstate_ok m lay st' | Final r => nt r end.

Lemma final_of_tgood {A} m lay (x : res A) (f : A -> step_result) :
  okt x -> (forall a, x = Ok a -> tgood m lay (f a)) -> tgood m lay (final_of x f).
Proof. destruct x; simpl; auto. Qed.

(* the same frame one instruction further *)
Lemma tframe_ok_next m lay fr i code env allocs :
  tframe_ok m lay fr -> fr_code fr = i :: code -> tframe_ok m lay (upd_frame fr env code allocs (fr_dst fr)).
Proof.
  intros (H1 & H2 & [pre H3] & H4) Ec. unfold tframe_ok, upd_frame; simpl. repeat split; auto.
  exists (pre ++ [i]). rewrite <- app_assoc. simpl. rewrite <- Ec. exact H3.
Qed.

Lemma tframe_ok_next_dst m lay fr i code env allocs dst :
  tframe_ok m lay fr -> fr_code fr = i :: code ->
  (forall t u, dst = Some (t, Tagg u) -> lay_has lay u) ->
  tframe_ok m lay (upd_frame fr env code allocs dst).
Proof.
  intros (H1 & H2 & [pre H3] & H4) Ec Hd. unfold tframe_ok, upd_frame; simpl. repeat split; auto.
  exists (pre ++ [i]). rewrite <- app_assoc. simpl. rewrite <- Ec. exact H3.
Qed.

Lemma tframe_ok_ret m lay caller env allocs :
  tframe_ok m lay caller -> tframe_ok m lay (upd_frame caller env (fr_code caller) allocs None).
Proof.
  intros (H1 & H2 & H3 & H4). unfold tframe_ok, upd_frame; simpl. repeat split; auto. intros; discriminate.
Qed.

Lemma enter_tgood m lay fr b after :
  tframe_ok m lay fr -> (exists pre, f_blocks (fr_fn fr) = pre ++ b :: after) ->
  okt (enter fr b after) /\ forall fr', enter fr b after = Ok fr' -> tframe_ok m lay fr'.
Proof.
  intros (H1 & H2 & H3 & H4) Hpre. unfold enter. split.
  - apply bind_okt; [apply eval_phis_okt|]. intros; exact I.
  - intros fr'. destruct (eval_phis _ _ _ _); simpl; [|discriminate]. intros H; inversion H; subst; clear H.
    unfold tframe_ok; simpl. repeat split; auto. exists []. reflexivity.
Qed.

Lemma goto_tgood m lay fr l :
  tframe_ok m lay fr ->
  okt (goto fr l) /\ forall fr', goto fr l = Ok fr' -> tframe_ok m lay fr'.
Proof.
  intros Hfr. unfold goto.
  destruct (find_suffix l (f_blocks (fr_fn fr))) as [[b after]|] eqn:E.
  - apply enter_tgood; auto. eapply find_suffix_split; eauto.
  - split; [unfold stuckr; simpl; nts|discriminate].
Qed.

Lemma do_return_tgood m ext st fr rest v :
  Forall (tframe_ok m (ge_lay (mk_genv m ext))) rest ->
  tgood m (ge_lay (mk_genv m ext)) (do_return (mk_genv m ext) st fr rest v).
Proof.
  intros Hrest. unfold do_return. destruct rest as [|caller rest']; [simpl; nts|].
  inversion Hrest as [|? ? Hc Hr]; subst.
  assert (G : forall st1 env callocs,
             tgood m (ge_lay (mk_genv m ext))
                   (Next (upd_state st1 (free_blocks (fr_allocs fr) (st_mem st1))
                                    (upd_frame caller env (fr_code caller) callocs None :: rest')))).
  { intros. simpl. unfold tstate_ok; simpl. constructor; auto. apply tframe_ok_ret; auto. }
  destruct (fr_dst caller) as [[t [k|ty]]|] eqn:Ed; [| |apply G].
  - destruct v as [[k' x]|]; [|apply G]. destruct (cls_eqb k k'); [apply G|]. destruct k, k'; try apply G; simpl; nts.
  - destruct v as [[[] x]|]; try (simpl; nts).
    apply final_of_tgood.
    + apply bind_okt; [apply agg_size_okt|intros; apply copy_in_okt].
      destruct Hc as (_ & _ & _ & Hd). eapply Hd; eauto.
    + intros sp _. apply G.
Qed.

Lemma entry_frame_tgood m lay id f env allocs va :
  In (Dfunc f) m -> forall nf, entry_frame id f env allocs va = Ok nf -> tframe_ok m lay nf.
Proof.
  intros Hin nf. unfold entry_frame. destruct (f_blocks f) as [|b after] eqn:E; [discriminate|].
  intros H; inversion H; subst. unfold tframe_ok; simpl. repeat split; auto.
  - exists []. simpl. auto.
  - exists []. reflexivity.
  - intros; discriminate.
Qed.

Lemma entry_frame_okt id f env allocs va : okt (entry_frame id f env allocs va).
Proof. unfold entry_frame. destruct (f_blocks f); [unfold stuckr; simpl; nts|exact I]. Qed.

(* the instruction being executed belongs to the function *)
Lemma tframe_inst_rtys m lay fr i code :
  tframe_ok m lay fr -> fr_code fr = i :: code -> forall ty, In ty (inst_rtys i) -> In ty (func_rtys (fr_fn fr)).
Proof.
  intros (H1 & [pre H2] & [pre' H3] & H4) Ec ty Hty. unfold func_rtys.
  apply in_or_app; right. apply in_or_app; right.
  apply in_flat_map. exists (fr_blk fr). split; [rewrite H2; apply in_or_app; right; left; reflexivity|].
  apply in_flat_map. exists i. split; auto. rewrite H3, Ec. apply in_or_app; right; left; reflexivity.
Qed.

Lemma do_call_tgood m ext st fr rest code d f args (W : wf_module m = true) :
  let lay := ge_lay (mk_genv m ext) in
  tframe_ok m lay fr -> fr_code fr = Icall d f args :: code -> Forall (tframe_ok m lay) rest ->
  tgood m lay (do_call (mk_genv m ext) st fr rest code d f args).
Proof.
  intros lay Hfr Ec Hrest. unfold do_call.
  pose proof (wf_func_rtys m ext (fr_fn fr) W (proj1 Hfr)) as Rf. fold lay in Rf.
  assert (Rd : forall t u, d = Some (t, Tagg u) -> lay_has lay u).
  { intros t u ->. apply Rf. eapply tframe_inst_rtys; eauto. simpl. auto. }
  assert (Ra : rtys_ok lay (arg_rtys args)).
  { intros u Hu. apply Rf. eapply tframe_inst_rtys; eauto. simpl. apply in_or_app. auto. }
  apply final_of_tgood.
  { apply bind_okt; [apply read_okt|]. intros a _. apply bind_okt; [apply eval_args_okt|]. intros; exact I. }
  intros [a [fixed var]] Hx. cbv beta iota.
  assert (Ea : eval_args (fr_env fr) args false = Ok (fixed, var)).
  { destruct (read (fr_env fr) Kl f) as [a'|]; simpl in Hx; [|discriminate].
    destruct (eval_args (fr_env fr) args false) as [[fx vr]|]; simpl in Hx; [|discriminate].
    inversion Hx; subst; reflexivity. }
  clear Hx.
  pose proof (proj2 (eval_args_okt (fr_env fr) args false) _ _ Ea) as Hav.
  destruct (split_addr a) as [[g off]|]; [|simpl; nts].
  destruct (negb (off =? 0)); [simpl; nts|].
  destruct (PM.find g (ge_funs (mk_genv m ext))) as [fn|] eqn:Ef.
  - pose proof (ge_funs_in _ _ _ _ Ef) as Hfn.
    pose proof (wf_func_rtys m ext fn W Hfn) as Rn. fold lay in Rn.
    assert (Rp : rtys_ok lay (map fst (f_params fn))).
    { intros u Hu. apply Rn. unfold func_rtys. apply in_or_app; right. apply in_or_app; left. exact Hu. }
    destruct (bind_params_okt (mk_genv m ext) (f_params fn) Rp st fixed (PM.empty (cls * Z)) []) as [B1 B2].
    match goal with |- tgood m lay (final_of ?x ?k) => assert (OK : okt x /\ forall sn, x = Ok sn -> tframe_ok m lay (snd sn)) end.
    { split.
      - apply bind_okt; [exact B1|]. intros [[[st1 env] allocs] extra] Eb.
        apply bind_okt.
        + destruct (f_vararg fn).
          * apply bind_va_okt. intros u Hu. apply Ra. apply Hav.
            rewrite map_app in *. apply in_app_or in Hu. apply in_or_app. destruct Hu as [Hu|Hu]; auto.
            left. eapply B2; eauto.
          * destruct extra; destruct var; simpl; try exact I; unfold stuckr; simpl; nts.
        + intros [[st2 va] allocs2] _. apply bind_okt; [apply entry_frame_okt|]. intros; exact I.
      - intros [st2 nf]. simpl.
        destruct (bind_params _ _ _ _ _ _) as [[[[st1 env] allocs] extra]|]; simpl; [|discriminate].
        match goal with |- bind ?y _ = _ -> _ => destruct y as [[[st2' va] allocs2]|]; simpl; [|discriminate] end.
        destruct (entry_frame (st_ncall st2') fn env allocs2 va) as [nf'|] eqn:En; simpl; [|discriminate].
        intros H; inversion H; subst. eapply entry_frame_tgood; eauto. }
    destruct OK as [OK1 OK2]. apply final_of_tgood; auto.
    intros [st2 nf] E. simpl. unfold tstate_ok; simpl. constructor; [exact (OK2 _ E)|].
    constructor; auto. eapply tframe_ok_next_dst; eauto.
  - destruct (find_ext (ge_ext (mk_genv m ext)) g) as [x|]; [|simpl; nts].
    assert (C : forall tr, tgood m lay (match d with
              | Some _ => Final (Stuck BadCall)
              | None => Next {| st_mem := st_mem st; st_next := st_next st; st_ncall := st_ncall st;
                                st_stack := upd_frame fr (fr_env fr) code (fr_allocs fr) None :: rest; st_trace := tr |} end)).
    { intros tr. destruct d; simpl; [nts|]. unfold tstate_ok; simpl. constructor; auto.
      eapply tframe_ok_next_dst; eauto. }
    destruct x; destruct fixed as [|[[[]|] v] [|? ?]]; destruct var; try (simpl; nts); try apply C.
Qed.

Lemma step_tgood m fo ext st (W : wf_module m = true) :
  let lay := ge_lay (mk_genv m ext) in
  tstate_ok m lay st -> tgood m lay (step fo (mk_genv m ext) st).
Proof.
  intros lay. unfold tstate_ok. intros Hst. unfold step.
  destruct (st_stack st) as [|fr rest] eqn:Es; [simpl; nts|].
  inversion Hst as [|? ? Hfr Hrest]; subst.
  destruct (fr_code fr) as [|i code] eqn:Ec.
  - (* end of block: the jump *)
    assert (J : forall l, tgood m lay (final_of (goto fr l) (fun fr' => Next (upd_state st (st_mem st) (fr' :: rest))))).
    { intros l. destruct (goto_tgood m lay fr l Hfr) as [G1 G2]. apply final_of_tgood; auto.
      intros fr' E. simpl. unfold tstate_ok; simpl. constructor; auto. }
    destruct (b_jump (fr_blk fr)) as [[l|r l1 l2|[r|]|]|] eqn:Ej.
    + apply J.
    + apply final_of_tgood; [apply read_okt|]. intros v _. apply J.
    + destruct (f_ret (fr_fn fr)) as [[k|ty]|]; [| |simpl; nts].
      * apply final_of_tgood; [apply read_okt|]. intros; apply do_return_tgood; auto.
      * apply final_of_tgood; [apply read_okt|]. intros; apply do_return_tgood; auto.
    + apply do_return_tgood; auto.
    + simpl; nts.
    + (* fall through *)
      destruct (fr_after fr) as [|b after] eqn:Ea; [simpl; nts|].
      destruct (enter_tgood m lay fr b after Hfr) as [G1 G2].
      { destruct Hfr as (_ & [pre Hpre] & _). exists (pre ++ [fr_blk fr]). rewrite Hpre, Ea, <- app_assoc. reflexivity. }
      apply final_of_tgood; auto. intros fr' E. simpl. unfold tstate_ok; simpl. constructor; auto.
  - assert (K : forall mm env' allocs,
               tgood m lay (Next (upd_state st mm (upd_frame fr env' code allocs (fr_dst fr) :: rest)))).
    { intros. simpl. unfold tstate_ok; simpl. constructor; auto. eapply tframe_ok_next; eauto. }
    destruct i as [d o a0 a1|d f args].
    + destruct o; try (destruct d as [[t k]|]; [apply final_of_tgood; [apply eval_pure_okt|intros; apply K]|simpl; nts]).
      * (* store *)
        destruct d; [simpl; nts|]. apply final_of_tgood.
        { apply bind_okt; [apply read_okt|]. intros; apply bind_okt; [apply read1_okt|]. intros; exact I. }
        intros va _. destruct (mem_store _ _ _ _); [apply K|simpl; nts].
      * (* load *)
        destruct d as [[t k]|]; [|simpl; nts]. destruct a1; [simpl; nts|].
        apply final_of_tgood; [apply read_okt|]. intros a _.
        destruct (mem_load _ _ _); [|simpl; nts]. destruct (load_result _ _ _); [apply K|simpl; nts].
      * (* alloc *)
        destruct d as [[t []]|]; try (simpl; nts). destruct a1; [simpl; nts|].
        apply final_of_tgood; [apply read_okt|]. intros n _.
        destruct (MAXALLOC <=? n); [simpl; nts|]. simpl. unfold tstate_ok; simpl. constructor; auto.
        eapply tframe_ok_next; eauto.
      * (* vastart *)
        destruct d; [simpl; nts|]. destruct a1; [simpl; nts|].
        apply final_of_tgood; [apply read_okt|]. intros a _. destruct (mem_store _ _ _ _); [apply K|simpl; nts].
      * (* vaarg *)
        destruct d as [[t k]|]; [|simpl; nts]. destruct a1; [simpl; nts|].
        apply final_of_tgood; [apply read_okt|]. intros a _.
        destruct (mem_load _ _ _) as [c|]; [|simpl; nts].
        destruct (c / VASHIFT); try (simpl; nts).
        destruct (find_frame _ _); [|simpl; nts].
        destruct (nth_error _ _) as [[k' v]|]; [|simpl; nts].
        match goal with |- tgood m lay (match ?x with _ => _ end) => destruct x end; [|simpl; nts].
        destruct (mem_store _ _ _ _); [apply K|simpl; nts].
    + apply do_call_tgood; auto.
Qed.

Lemma run_state_tgood m fo ext (W : wf_module m = true) :
  forall fuel st, tstate_ok m (ge_lay (mk_genv m ext)) st -> nt (run_state fo (mk_genv m ext) fuel st).
Proof.
  induction fuel as [|n IH]; intros st Hst; simpl; [nts|].
  pose proof (step_tgood m fo ext st W Hst) as G.
  destruct (step fo (mk_genv m ext) st); simpl in G; auto.
Qed.

(* rule (7): a module accepted by the checker never stops at an aggregate type without layout *)
Theorem wf_notype_sound :
  forall m, wf_module m = true ->
  forall fo ext nglob entry fuel t, run fo m ext nglob entry fuel <> Stuck (NoType t).
Proof.
  intros m W fo ext nglob entry fuel. change (nt (run fo m ext nglob entry fuel)).
  unfold run, init_state.
  destruct (PM.find entry (ge_funs (mk_genv m ext))) as [f|] eqn:E; [|simpl; nts].
  pose proof (ge_funs_in _ _ _ _ E) as Hin.
  match goal with |- nt (match bind (entry_frame ?i ?f ?e ?a ?v) _ with _ => _ end) =>
    pose proof (entry_frame_okt i f e a v) as G1;
    pose proof (entry_frame_tgood m (ge_lay (mk_genv m ext)) i f e a v Hin) as G2;
    destruct (entry_frame i f e a v) as [fr|r] eqn:Ef; simpl end.
  - apply run_state_tgood; auto. unfold tstate_ok; simpl. constructor; auto.
  - exact G1.
Qed.

(* the static content of rule (7) on its own: after the whole module has been read, every aggregate type
   named by a function (return type, parameters, call results, call arguments) has a layout *)
Theorem wf_types_defined :
  forall m ext f u, wf_module m = true -> In (Dfunc f) m -> In (Tagg u) (func_rtys f) ->
    PM.find u (ge_lay (mk_genv m ext)) <> None.
Proof. intros m ext f u W Hin Hu. exact (wf_func_rtys m ext f W Hin u Hu). Qed.
