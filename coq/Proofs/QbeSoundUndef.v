(* QbeSoundUndef.v - soundness of rule (3) of the checker QbeWf.wf_module (every use is dominated by a
   definition; the first block of a function has no phi) with respect to Qbe.run: no [Stuck (UndefTemp _)],
   for arbitrary control flow (loops included), calls and recursion; and the full soundness statement
   wf_sound (QbeProofs.wf_sound_statement).

   The rule "no phi in the first block" (VEntryPhi) is needed: the semantics does not evaluate phis when a
   function is entered, so `@s %x =w phi @s 1  jnz %x, @s, @e` as first block reads %x undefined.  Before
   that rule was added to QbeWf.func_viol the statement was refuted by exactly this module (cex_entry_phi).

   Invariant: in every frame, at position i of block B, every register whose recorded site is a
   parameter, an earlier position of B, or a block of B's dominator set, is defined (or is the result
   the frame is waiting for from a pending call); B is in the checker's reachable set. *)
From Coq Require Import ZArith List Bool PArith FMapPositive Lia.
From Cproc Require Import Model.Qbe Model.QbeWf Proofs.QbeProofs Proofs.QbeSoundType Proofs.QbeSoundClass Proofs.QbeSoundDom.
Import ListNotations.
Open Scope Z_scope.

(* ------------------------------------------------------------------ results and reads *)
Definition nud (r : result) : Prop := forall t, r <> Stuck (UndefTemp t).
Definition oku {A} (x : res A) : Prop := match x with Ok _ => True | Err r => nud r end.

Ltac nu := unfold nud; intros ?; discriminate.

Lemma bind_oku {A B} (x : res A) (f : A -> res B) : oku x -> (forall a, x = Ok a -> oku (f a)) -> oku (bind x f).
Proof. destruct x; simpl; auto. Qed.

Definition defd (env : PM.t (cls * Z)) (t : ident) : Prop := PM.find t env <> None.

Lemma defd_add env t v t' : defd env t -> defd (PM.add t' v env) t.
Proof.
  unfold defd. intros H. destruct (Pos.eq_dec t t') as [->|N]; [rewrite PM.gss; discriminate|].
  rewrite PM.gso by exact N. exact H.
Qed.

Lemma defd_new env t v : defd (PM.add t v env) t.
Proof. unfold defd. rewrite PM.gss. discriminate. Qed.

Definition rd_ok (env : PM.t (cls * Z)) (r : ref) : Prop := forall t, r = RTmp t -> defd env t.
Definition rd1_ok (env : PM.t (cls * Z)) (a : option ref) : Prop := forall r, a = Some r -> rd_ok env r.

Lemma read_oku env k r : rd_ok env r -> oku (read env k r).
Proof.
  intros H. unfold read, stuckr. destruct r; simpl.
  - specialize (H t eq_refl). unfold defd in H. destruct (PM.find t env) as [[k' v]|]; [|congruence].
    destruct (cls_eqb k k'); simpl; auto. destruct k, k'; simpl; auto; nu.
  - destruct k; simpl; auto; nu.
  - destruct k; simpl; auto; nu.
  - destruct k; simpl; auto; nu.
  - destruct k; simpl; auto; nu.
Qed.

Lemma read1_oku env k a : rd1_ok env a -> oku (read1 env k a).
Proof. intros H. destruct a; simpl; [apply read_oku; apply H; reflexivity|nu]. Qed.

Ltac oku_step :=
  first
    [ exact I
    | apply bind_oku; [ first [apply read_oku; assumption | apply read1_oku; assumption] | intros ? _ ]
    | match goal with
      | |- oku (match ?x with _ => _ end) => destruct x
      | |- oku (if ?x then _ else _) => destruct x
      | |- oku (let '(_, _) := ?x in _) => destruct x
      | |- oku (stuckr _) => unfold stuckr, oku; nu
      | |- oku (Err _) => unfold oku; nu
      end ].

Lemma eval_pure_oku fo env o k a0 a1 : rd_ok env a0 -> rd1_ok env a1 -> oku (eval_pure fo env o k a0 a1).
Proof. intros H0 H1. unfold eval_pure. destruct o; repeat oku_step. Qed.

Lemma phi_arg_in l : forall args r, phi_arg l args = Some r -> In (l, r) args.
Proof.
  induction args as [|[l' r'] args IH]; simpl; intros r H; [discriminate|].
  destruct (Pos.eqb_spec l' l) as [E|N]; [inversion H; subst; left; reflexivity|right; apply IH; exact H].
Qed.

Lemma eval_phis_oku old from : forall ps,
  (forall p t, In p ps -> In (from, RTmp t) (p_args p) -> defd old t) ->
  forall env,
    oku (eval_phis old from ps env) /\
    forall env', eval_phis old from ps env = Ok env' ->
      (forall t, defd env t -> defd env' t) /\ (forall p, In p ps -> defd env' (p_res p)).
Proof.
  induction ps as [|p ps IH]; simpl; intros Hp env.
  - split; [exact I|]. intros env' H; inversion H; subst. split; auto. intros p [].
  - destruct (phi_arg from (p_args p)) as [a|] eqn:Ea; [|split; [unfold stuckr; simpl; nu|discriminate]].
    assert (Ra : rd_ok old a).
    { intros t ->. apply (Hp p t); auto. apply phi_arg_in. exact Ea. }
    pose proof (read_oku old (p_cls p) a Ra) as R.
    destruct (read old (p_cls p) a) as [v|r]; simpl; [|split; [exact R|discriminate]].
    destruct (IH (fun q t Hq => Hp q t (or_intror Hq)) (PM.add (p_res p) (p_cls p, v) env)) as [I1 I2].
    split; [exact I1|]. intros env' H. destruct (I2 env' H) as [J1 J2]. split.
    + intros t Ht. apply J1. apply defd_add. exact Ht.
    + intros q [<-|Hq]; [apply J1; apply defd_new|apply J2; exact Hq].
Qed.

Definition args_refs (args : list arg) : list ref :=
  flat_map (fun a => match a with Aval _ r => [r] | Avar => [] end) args.

Lemma eval_args_oku env : forall args sv, (forall r, In r (args_refs args) -> rd_ok env r) -> oku (eval_args env args sv).
Proof.
  induction args as [|a args IH]; simpl; intros sv H; [exact I|].
  destruct a as [t r|].
  - apply bind_oku; [apply read_oku; apply H; simpl; auto|]. intros v _.
    apply bind_oku; [apply IH; intros; apply H; simpl; auto|]. intros fv _. destruct sv; exact I.
  - destruct sv; [unfold stuckr; simpl; nu|apply IH; auto].
Qed.

Lemma copy_in_oku st a n : oku (copy_in st a n).
Proof. unfold copy_in. repeat oku_step. Qed.

Lemma agg_size_oku ge t : oku (agg_size ge t).
Proof. unfold agg_size. repeat oku_step. Qed.

Lemma bind_params_oku ge : forall ps st avs env allocs,
  oku (bind_params ge st ps avs env allocs) /\
  forall st' env' al' rest, bind_params ge st ps avs env allocs = Ok (st', env', al', rest) ->
    (forall t, defd env t -> defd env' t) /\ (forall t, In t (map snd ps) -> defd env' t).
Proof.
  induction ps as [|[ty t] ps IH]; intros st avs env allocs; simpl.
  - split; [exact I|]. intros st' env' al' rest H; inversion H; subst. split; auto. intros t [].
  - destruct avs as [|[ty' v] avs]; [split; [destruct ty; unfold stuckr; simpl; nu|destruct ty; discriminate]|].
    assert (G : forall st1 env1 al1,
               (forall x, defd env x -> defd env1 x) -> defd env1 t ->
               (oku (bind_params ge st1 ps avs env1 al1) /\
                forall st' env' al' rest, bind_params ge st1 ps avs env1 al1 = Ok (st', env', al', rest) ->
                  (forall x, defd env x -> defd env' x) /\ (forall x, t = x \/ In x (map snd ps) -> defd env' x))).
    { intros st1 env1 al1 M T. destruct (IH st1 avs env1 al1) as [I1 I2]. split; auto.
      intros st' env' al' rest H. destruct (I2 _ _ _ _ H) as [J1 J2]. split; auto.
      intros x [<-|Hx]; auto. }
    destruct ty as [k|ag]; destruct ty' as [k'|ag']; try (split; [unfold stuckr; simpl; nu|discriminate]).
    + destruct (cls_eqb k k'); [|split; [unfold stuckr; simpl; nu|discriminate]].
      apply G; [intros; apply defd_add; auto|apply defd_new].
    + pose proof (agg_size_oku ge ag) as A. destruct (agg_size ge ag) as [n|]; simpl; [|split; [exact A|discriminate]].
      pose proof (copy_in_oku st v n) as C. destruct (copy_in st v n) as [sp|]; simpl; [|split; [exact C|discriminate]].
      apply G; [intros; apply defd_add; auto|apply defd_new].
Qed.

Lemma bind_va_oku ge avs : forall st allocs, oku (bind_va ge st avs allocs).
Proof.
  induction avs as [|[ty v] avs IH]; intros st allocs; simpl; [exact I|].
  destruct ty as [k|ag].
  - apply bind_oku; [apply IH|]. intros [[st' l] al] _. exact I.
  - apply bind_oku; [apply agg_size_oku|]. intros n _. apply bind_oku; [apply copy_in_oku|]. intros sp _.
    apply bind_oku; [apply IH|]. intros [[st' l] al] _. exact I.
Qed.

(* ------------------------------------------------------------------ the invariant *)
Definition uframe_ok (m : module) (fr : frame) : Prop :=
  In (Dfunc (fr_fn fr)) m /\
  exists npre nb nafter ipre,
    nbs_of (fr_fn fr) = npre ++ nb :: nafter /\ nb_blk nb = fr_blk fr /\ map nb_blk nafter = fr_after fr /\
    b_insts (fr_blk fr) = ipre ++ fr_code fr /\
    reachable (fr_fn fr) nb /\
    forall t, avail (fr_fn fr) nb (Z.of_nat (length ipre)) t ->
              defd (fr_env fr) t \/ exists ty, fr_dst fr = Some (t, ty).

(* the running frame waits for nothing *)
Definition top_ok (stack : list frame) : Prop := match stack with fr :: _ => fr_dst fr = None | [] => True end.

Definition ustate_ok (m : module) (st : state) : Prop := Forall (uframe_ok m) (st_stack st) /\ top_ok (st_stack st).

Definition ugood (m : module) (s : step_result) : Prop :=
  match s with Next st' => ustate_ok m st' | Final r => nud r end.

Lemma final_of_ugood {A} m (x : res A) (f : A -> step_result) :
  oku x -> (forall a, x = Ok a -> ugood m (f a)) -> ugood m (final_of x f).
Proof. destruct x; simpl; auto. Qed.

Lemma in_mid {A} (pre : list A) x post : In x (pre ++ x :: post).
Proof. apply in_or_app; right; left; reflexivity. Qed.

(* the same frame one instruction further: the environment grew and contains what the instruction
   defines, unless that is the result the frame now waits for *)
Lemma uframe_next m fr x code env' allocs dst :
  uframe_ok m fr -> fr_dst fr = None -> fr_code fr = x :: code ->
  (forall t, defd (fr_env fr) t -> defd env' t) ->
  (forall t, In t (inst_def x) -> defd env' t \/ exists ty, dst = Some (t, ty)) ->
  uframe_ok m (upd_frame fr env' code allocs dst).
Proof.
  intros (Hin & npre & nb & nafter & ipre & E1 & E2 & E3 & E4 & R & A) Dn Ec M Dx.
  split; [exact Hin|]. exists npre, nb, nafter, (ipre ++ [x]). simpl. repeat split; auto.
  - rewrite <- app_assoc. simpl. rewrite <- Ec. exact E4.
  - intros t Ht. rewrite app_length, Nat2Z.inj_add in Ht. simpl length in Ht.
    assert (Hnb : In nb (nbs_of (fr_fn fr))) by (rewrite E1; apply in_mid).
    rewrite Ec, <- E2 in E4.
    destruct (avail_step (fr_fn fr) nb ipre x code t Hnb E4 Ht) as [H|H]; [|apply Dx; exact H].
    destruct (A t H) as [H1|[ty H1]]; [left; apply M; exact H1|congruence].
Qed.

Lemma uframe_ret m caller env' allocs :
  uframe_ok m caller ->
  (forall t, defd (fr_env caller) t -> defd env' t) ->
  (forall t ty, fr_dst caller = Some (t, ty) -> defd env' t) ->
  uframe_ok m (upd_frame caller env' (fr_code caller) allocs None).
Proof.
  intros (Hin & npre & nb & nafter & ipre & E1 & E2 & E3 & E4 & R & A) M D.
  split; [exact Hin|]. exists npre, nb, nafter, ipre. simpl. repeat split; auto.
  intros t Ht. left. destruct (A t Ht) as [H|[ty H]]; [apply M; exact H|eapply D; eauto].
Qed.

(* entering block B from the end of the current block along an edge of the checker's graph *)
Lemma enter_ugood m fr P B npre' nafter' (W : wf_module m = true) :
  In (Dfunc (fr_fn fr)) m -> fr_dst fr = None ->
  In P (nbs_of (fr_fn fr)) -> nb_blk P = fr_blk fr -> reachable (fr_fn fr) P ->
  (forall t, avail (fr_fn fr) P (Z.of_nat (length (b_insts (nb_blk P)))) t -> defd (fr_env fr) t) ->
  nbs_of (fr_fn fr) = npre' ++ B :: nafter' -> edge (fr_fn fr) P B ->
  oku (enter fr (nb_blk B) (map nb_blk nafter')) /\
  forall fr', enter fr (nb_blk B) (map nb_blk nafter') = Ok fr' -> uframe_ok m fr' /\ fr_dst fr' = None.
Proof.
  intros Hin Dn HP EP R A EB Ed. unfold enter.
  destruct (eval_phis_oku (fr_env fr) (b_label (fr_blk fr)) (b_phis (nb_blk B))) with (env := fr_env fr) as [P1 P2].
  { intros p t Hp Ha. apply A. rewrite <- EP in Ha. eapply (avail_phi m (fr_fn fr) W Hin P B); eauto. }
  destruct (eval_phis _ _ _ _) as [env'|r]; simpl; [|split; [exact P1|discriminate]].
  split; [exact I|]. intros fr' H; inversion H; subst; clear H. simpl. split; [|exact Dn].
  destruct (P2 env' eq_refl) as [M Dp].
  split; [exact Hin|]. exists npre', B, nafter', []. simpl. repeat split; auto.
  - eapply reach_edge; eauto.
  - intros t Ht. left. destruct (avail_edge m (fr_fn fr) W Hin P B t Ed Ht) as [H|H].
    + apply M. apply A. exact H.
    + apply in_map_iff in H. destruct H as [p [<- Hp]]. apply Dp. exact Hp.
Qed.

Lemma do_return_ugood m ge st fr rest v :
  Forall (uframe_ok m) rest -> ugood m (do_return ge st fr rest v).
Proof.
  intros Hrest. unfold do_return. destruct rest as [|caller rest']; [simpl; nu|].
  inversion Hrest as [|? ? Hc Hr]; subst.
  assert (G : forall st1 env callocs,
             (forall t, defd (fr_env caller) t -> defd env t) ->
             (forall t ty, fr_dst caller = Some (t, ty) -> defd env t) ->
             ugood m (Next (upd_state st1 (free_blocks (fr_allocs fr) (st_mem st1))
                                      (upd_frame caller env (fr_code caller) callocs None :: rest')))).
  { intros. simpl. split; simpl; [|reflexivity]. constructor; auto. apply uframe_ret; auto. }
  assert (GA : forall st1 t ty k x callocs, fr_dst caller = Some (t, ty) ->
             ugood m (Next (upd_state st1 (free_blocks (fr_allocs fr) (st_mem st1))
                                      (upd_frame caller (PM.add t (k, x) (fr_env caller)) (fr_code caller) callocs None :: rest')))).
  { intros st1 t ty k x callocs Ed. apply G; [intros; apply defd_add; auto|].
    intros t' ty' E'. rewrite Ed in E'. inversion E'; subst. apply defd_new. }
  destruct (fr_dst caller) as [[t [k|ty]]|] eqn:Ed.
  - destruct v as [[k' x]|]; [|eapply GA; eauto]. destruct (cls_eqb k k'); [eapply GA; eauto|].
    destruct k, k'; try (simpl; nu). eapply GA; eauto.
  - destruct v as [[[] x]|]; try (simpl; nu).
    apply final_of_ugood.
    + apply bind_oku; [apply agg_size_oku|intros; apply copy_in_oku].
    + intros sp _. eapply GA; eauto.
  - apply G; auto. intros; discriminate.
Qed.

(* a fresh activation: at the start of the first block only the parameters have to be defined *)
Lemma entry_frame_ugood m id f env allocs va (W : wf_module m = true) :
  In (Dfunc f) m -> (forall t, In t (map snd (f_params f)) -> defd env t) ->
  forall nf, entry_frame id f env allocs va = Ok nf -> uframe_ok m nf /\ fr_dst nf = None.
Proof.
  intros Hin Hp nf. unfold entry_frame. destruct (f_blocks f) as [|b after] eqn:Eb; [discriminate|].
  intros H; inversion H; subst; clear H. simpl. split; [|reflexivity].
  destruct (nbs_first f b after Eb) as (nb & nafter & E1 & E2 & E3 & E4).
  split; [exact Hin|]. exists [], nb, nafter, []. simpl. repeat split; auto.
  - apply reach_first. exact E4.
  - intros t Ht. left.
    assert (Hnb : In nb (nbs_of f)) by (rewrite E1; left; reflexivity).
    destruct (avail_entry m f W Hin nb t Hnb E4 Ht) as [H|H]; [apply Hp; exact H|].
    rewrite E2, (wf_entry_nophi m f b after W Hin Eb) in H. contradiction.
Qed.

Lemma entry_frame_oku id f env allocs va : oku (entry_frame id f env allocs va).
Proof. unfold entry_frame. destruct (f_blocks f); [unfold stuckr; simpl; nu|exact I]. Qed.

Lemma do_call_ugood m ext st fr rest code d f args (W : wf_module m = true) :
  uframe_ok m fr -> fr_dst fr = None -> fr_code fr = Icall d f args :: code -> Forall (uframe_ok m) rest ->
  (forall r, In r (inst_uses (Icall d f args)) -> rd_ok (fr_env fr) r) ->
  ugood m (do_call (mk_genv m ext) st fr rest code d f args).
Proof.
  intros Hfr Dn Ec Hrest Hu. unfold do_call.
  assert (Hcaller : uframe_ok m (upd_frame fr (fr_env fr) code (fr_allocs fr) d)).
  { eapply uframe_next; eauto. intros t Ht. simpl in Ht.
    destruct d as [[t' ty]|]; [|contradiction]. destruct Ht as [<-|[]]. right; eauto. }
  apply final_of_ugood.
  { apply bind_oku; [apply read_oku; apply Hu; simpl; auto|]. intros a _.
    apply bind_oku; [apply eval_args_oku; intros; apply Hu; simpl; auto|]. intros; exact I. }
  intros [a [fixed var]] _. cbv beta iota.
  destruct (split_addr a) as [[g off]|]; [|simpl; nu].
  destruct (negb (off =? 0)); [simpl; nu|].
  destruct (PM.find g (ge_funs (mk_genv m ext))) as [fn|] eqn:Ef.
  - pose proof (ge_funs_in _ _ _ _ Ef) as Hfn.
    destruct (bind_params_oku (mk_genv m ext) (f_params fn) st fixed (PM.empty (cls * Z)) []) as [B1 B2].
    match goal with |- ugood m (final_of ?x ?k) =>
      assert (OK : oku x /\ forall sn, x = Ok sn -> uframe_ok m (snd sn) /\ fr_dst (snd sn) = None) end.
    { split.
      - apply bind_oku; [exact B1|]. intros [[[st1 env] allocs] extra] Eb.
        apply bind_oku.
        + destruct (f_vararg fn); [apply bind_va_oku|]. destruct extra; destruct var; simpl; try exact I; unfold stuckr; simpl; nu.
        + intros [[st2 va] allocs2] _. apply bind_oku; [apply entry_frame_oku|intros; exact I].
      - intros [st2 nf]. simpl.
        destruct (bind_params _ _ _ _ _ _) as [[[[st1 env] allocs] extra]|] eqn:Eb; simpl; [|discriminate].
        match goal with |- bind ?y _ = _ -> _ => destruct y as [[[st2' va] allocs2]|]; simpl; [|discriminate] end.
        destruct (entry_frame (st_ncall st2') fn env allocs2 va) as [nf'|] eqn:En; simpl; [|discriminate].
        intros H; inversion H; subst. eapply (entry_frame_ugood m); eauto.
        exact (proj2 (B2 _ _ _ _ eq_refl)). }
    destruct OK as [OK1 OK2]. apply final_of_ugood; auto.
    intros [st2 nf] E. destruct (OK2 _ E) as [F1 F2]. simpl. split; simpl; [|exact F2].
    constructor; [exact F1|]. constructor; auto.
  - destruct (find_ext (ge_ext (mk_genv m ext)) g) as [x|]; [|simpl; nu].
    assert (C : forall tr, ugood m (match d with
              | Some _ => Final (Stuck BadCall)
              | None => Next {| st_mem := st_mem st; st_next := st_next st; st_ncall := st_ncall st;
                                st_stack := upd_frame fr (fr_env fr) code (fr_allocs fr) None :: rest; st_trace := tr |} end)).
    { intros tr. destruct d; simpl; [nu|]. split; simpl; [|reflexivity]. constructor; auto. }
    destruct x; destruct fixed as [|[[[]|] v] [|? ?]]; destruct var; try (simpl; nu); try apply C.
Qed.

Lemma step_ugood m fo ext st (W : wf_module m = true) :
  ustate_ok m st -> ugood m (step fo (mk_genv m ext) st).
Proof.
  unfold ustate_ok. intros [Hst Htop]. unfold step.
  destruct (st_stack st) as [|fr rest] eqn:Es; [simpl; nu|].
  inversion Hst as [|? ? Hfr Hrest]; subst. simpl in Htop.
  pose proof Hfr as (Hin & npre & nb & nafter & ipre & E1 & E2 & E3 & E4 & R & A).
  assert (Hnb : In nb (nbs_of (fr_fn fr))) by (rewrite E1; apply in_mid).
  assert (A' : forall t, avail (fr_fn fr) nb (Z.of_nat (length ipre)) t -> defd (fr_env fr) t).
  { intros t Ht. destruct (A t Ht) as [H|[ty H]]; [exact H|congruence]. }
  destruct (fr_code fr) as [|i code] eqn:Ec.
  - (* end of block: the jump *)
    rewrite app_nil_r in E4. rewrite <- E4, <- E2 in A'.
    assert (Hj : forall r, In r (jump_uses (b_jump (fr_blk fr))) -> rd_ok (fr_env fr) r).
    { intros r Hr t ->. apply A'. rewrite <- E2 in Hr. eapply avail_jump; eauto. }
    assert (J : forall l, In l (jump_targets (b_jump (fr_blk fr))) ->
                ugood m (final_of (goto fr l) (fun fr' => Next (upd_state st (st_mem st) (fr' :: rest))))).
    { intros l Hl. unfold goto.
      destruct (find_suffix l (f_blocks (fr_fn fr))) as [[b after]|] eqn:F; [|simpl; nu].
      rewrite <- E2 in Hl.
      destruct (edge_jump m (fr_fn fr) npre nb nafter l b after W Hin E1 Hl F) as (npre' & B & nafter' & G1 & G2 & G3 & G4).
      subst b after.
      destruct (enter_ugood m fr nb B npre' nafter' W Hin Htop Hnb E2 R A' G1 G4) as [X1 X2].
      apply final_of_ugood; auto. intros fr' E. destruct (X2 _ E) as [Y1 Y2].
      simpl. split; simpl; [constructor; auto|exact Y2]. }
    destruct (b_jump (fr_blk fr)) as [[l|r l1 l2|[r|]|]|] eqn:Ej.
    + apply J. simpl; auto.
    + apply final_of_ugood; [apply read_oku; apply Hj; simpl; auto|]. intros v _. apply J. simpl. destruct (v =? 0); auto.
    + destruct (f_ret (fr_fn fr)) as [[k|ty]|]; [| |simpl; nu].
      * apply final_of_ugood; [apply read_oku; apply Hj; simpl; auto|]. intros; apply do_return_ugood; auto.
      * apply final_of_ugood; [apply read_oku; apply Hj; simpl; auto|]. intros; apply do_return_ugood; auto.
    + apply do_return_ugood; auto.
    + simpl; nu.
    + (* fall through *)
      destruct (fr_after fr) as [|b after] eqn:Ea; [simpl; nu|].
      apply map_eq_cons in E3. destruct E3 as (B & nafter' & E3 & E5 & E6). subst nafter b after.
      assert (Ed : edge (fr_fn fr) nb B) by (eapply edge_fall; eauto; rewrite E2; exact Ej).
      assert (G1 : nbs_of (fr_fn fr) = (npre ++ [nb]) ++ B :: nafter') by (rewrite <- app_assoc; exact E1).
      destruct (enter_ugood m fr nb B (npre ++ [nb]) nafter' W Hin Htop Hnb E2 R A' G1 Ed) as [X1 X2].
      apply final_of_ugood; auto. intros fr' E. destruct (X2 _ E) as [Y1 Y2].
      simpl. split; simpl; [constructor; auto|exact Y2].
  - assert (Hu : forall r, In r (inst_uses i) -> rd_ok (fr_env fr) r).
    { intros r Hr t ->. apply A'. rewrite <- E2 in E4. eapply avail_use; eauto. }
    destruct i as [d o a0 a1|d f args]; [|apply do_call_ugood; auto].
    assert (H0 : rd_ok (fr_env fr) a0) by (apply Hu; simpl; auto).
    assert (H1 : rd1_ok (fr_env fr) a1) by (intros r ->; apply Hu; simpl; auto).
    assert (K : forall mm env' allocs,
               (forall t, defd (fr_env fr) t -> defd env' t) ->
               (forall t k, d = Some (t, k) -> defd env' t) ->
               ugood m (Next (upd_state st mm (upd_frame fr env' code allocs (fr_dst fr) :: rest)))).
    { intros mm env' allocs M D. simpl. split; simpl; [|exact Htop]. constructor; auto.
      eapply uframe_next; eauto. intros t Ht. left. simpl in Ht.
      destruct d as [[t' k']|]; [|contradiction]. destruct Ht as [<-|[]]. eapply D; eauto. }
    assert (K0 : forall mm allocs, d = None ->
               ugood m (Next (upd_state st mm (upd_frame fr (fr_env fr) code allocs (fr_dst fr) :: rest)))).
    { intros mm allocs ->. apply K; auto. intros; discriminate. }
    assert (K1 : forall mm t k v allocs, d = Some (t, k) ->
               ugood m (Next (upd_state st mm (upd_frame fr (PM.add t (k, v) (fr_env fr)) code allocs (fr_dst fr) :: rest)))).
    { intros mm t k v allocs ->. apply K; [intros; apply defd_add; auto|].
      intros t' k' E'. inversion E'; subst. apply defd_new. }
    destruct o; try (destruct d as [[t k]|]; [apply final_of_ugood; [apply eval_pure_oku; auto|intros; apply K1; reflexivity]|simpl; nu]).
    + (* store *)
      destruct d; [simpl; nu|]. apply final_of_ugood.
      { apply bind_oku; [apply read_oku; auto|]. intros; apply bind_oku; [apply read1_oku; auto|]. intros; exact I. }
      intros va _. destruct (mem_store _ _ _ _); [apply K0; reflexivity|simpl; nu].
    + (* load *)
      destruct d as [[t k]|]; [|simpl; nu]. destruct a1; [simpl; nu|].
      apply final_of_ugood; [apply read_oku; auto|]. intros a _.
      destruct (mem_load _ _ _); [|simpl; nu]. destruct (load_result _ _ _); [apply K1; reflexivity|simpl; nu].
    + (* alloc *)
      destruct d as [[t []]|]; try (simpl; nu). destruct a1; [simpl; nu|].
      apply final_of_ugood; [apply read_oku; auto|]. intros n _.
      destruct (MAXALLOC <=? n); [simpl; nu|].
      exact (K1 (PM.add (st_next st) {| mb_size := n; mb_bytes := PM.empty Z |} (st_mem st)) t Kl (addr_of (st_next st))
                (st_next st :: fr_allocs fr) eq_refl).
    + (* vastart *)
      destruct d; [simpl; nu|]. destruct a1; [simpl; nu|].
      apply final_of_ugood; [apply read_oku; auto|]. intros a _. destruct (mem_store _ _ _ _); [apply K0; reflexivity|simpl; nu].
    + (* vaarg *)
      destruct d as [[t k]|]; [|simpl; nu]. destruct a1; [simpl; nu|].
      apply final_of_ugood; [apply read_oku; auto|]. intros a _.
      destruct (mem_load _ _ _) as [c|]; [|simpl; nu].
      destruct (c / VASHIFT); try (simpl; nu).
      destruct (find_frame _ _); [|simpl; nu].
      destruct (nth_error _ _) as [[k' v]|]; [|simpl; nu].
      match goal with |- ugood m (match ?x with _ => _ end) => destruct x end; [|simpl; nu].
      destruct (mem_store _ _ _ _); [apply K1; reflexivity|simpl; nu].
Qed.

Lemma run_state_ugood m fo ext (W : wf_module m = true) :
  forall fuel st, ustate_ok m st -> nud (run_state fo (mk_genv m ext) fuel st).
Proof.
  induction fuel as [|n IH]; intros st Hst; simpl; [nu|].
  pose proof (step_ugood m fo ext st W Hst) as G.
  destruct (step fo (mk_genv m ext) st); simpl in G; auto.
Qed.

Lemma init_env_defd : forall (ps : list (rty * ident)) env,
  (forall t, defd env t -> defd (fold_left (fun e (p : rty * ident) =>
                 PM.add (snd p) (match fst p with Tbase k => k | Tagg _ => Kl end, 0) e) ps env) t) /\
  (forall t, In t (map snd ps) -> defd (fold_left (fun e (p : rty * ident) =>
                 PM.add (snd p) (match fst p with Tbase k => k | Tagg _ => Kl end, 0) e) ps env) t).
Proof.
  induction ps as [|p ps IH]; simpl; intros env; [split; [auto|intros t []]|].
  destruct (IH (PM.add (snd p) (match fst p with Tbase k => k | Tagg _ => Kl end, 0) env)) as [A B]. split.
  - intros t Ht. apply A. apply defd_add. exact Ht.
  - intros t [<-|Ht]; [apply A; apply defd_new|apply B; exact Ht].
Qed.

(* rule (3): a module accepted by the checker never reads a register before it is defined - arbitrary
   control flow, calls, recursion *)
Theorem wf_undef_sound :
  forall m, wf_module m = true ->
  forall fo ext nglob entry fuel t, run fo m ext nglob entry fuel <> Stuck (UndefTemp t).
Proof.
  intros m W fo ext nglob entry fuel. change (nud (run fo m ext nglob entry fuel)).
  unfold run, init_state.
  destruct (PM.find entry (ge_funs (mk_genv m ext))) as [f|] eqn:E; [|simpl; nu].
  pose proof (ge_funs_in _ _ _ _ E) as Hin.
  match goal with |- nud (match bind (entry_frame ?i ?f ?e ?a ?v) _ with _ => _ end) =>
    pose proof (entry_frame_oku i f e a v) as G1;
    pose proof (entry_frame_ugood m i f e a v W Hin (proj2 (init_env_defd (f_params f) (PM.empty (cls * Z))))) as G2;
    destruct (entry_frame i f e a v) as [fr|r] eqn:Ef; simpl end.
  - destruct (G2 fr eq_refl) as [F1 F2]. apply run_state_ugood; auto. split; simpl; [constructor; auto|exact F2].
  - exact G1.
Qed.

(* ------------------------------------------------------------------ the former counterexample *)
Definition cex_lnk : linkage := {| l_export := true; l_thread := false; l_section := None |}.
Definition cex_fo : fops := {| f_bin := fun _ _ _ _ => 0; f_cmp := fun _ _ _ _ => false; f_cvt := fun _ _ _ => 0 |}.

(* export function w $main() { @s  %x =w phi @s 1   jnz %x, @s, @e   @e  ret 0 } *)
Definition cex_entry_phi : module :=
  [Dfunc {| f_lnk := cex_lnk; f_ret := Some (Tbase Kw); f_name := 1%positive; f_params := []; f_vararg := false;
            f_blocks := [
              {| b_label := 1%positive;
                 b_phis := [{| p_res := 1%positive; p_cls := Kw; p_args := [(1%positive, RInt 1)] |}];
                 b_insts := []; b_jump := Some (Jnz (RTmp 1%positive) 1%positive 2%positive) |};
              {| b_label := 2%positive; b_phis := []; b_insts := []; b_jump := Some (Ret (Some (RInt 0))) |} ] |}].

(* it still gets stuck on the undefined %x, and the only violation reported for it is the new rule *)
Lemma cex_entry_phi_rejected :
  run cex_fo cex_entry_phi [] 1%positive 1%positive 10 = Stuck (UndefTemp 1%positive) /\
  map v_kind (wf_module_list cex_entry_phi) = [VEntryPhi].
Proof. split; vm_compute; reflexivity. Qed.

(* ------------------------------------------------------------------ all five results together *)
(* wf_sound_statement of QbeProofs.v *)
Theorem wf_sound :
  forall m, wf_module m = true ->
  forall fo ext nglob entry fuel,
    match run fo m ext nglob entry fuel with
    | Stuck (UndefTemp _) | Stuck (NoLabel _) | Stuck BadClass | Stuck (NoType _) | Stuck FellOffEnd => False
    | _ => True
    end.
Proof.
  intros m W fo ext nglob entry fuel.
  pose proof (wf_undef_sound m W fo ext nglob entry fuel) as U.
  pose proof (wf_labels_sound m W fo ext nglob entry fuel) as L.
  pose proof (wf_class_sound m W fo ext nglob entry fuel) as C.
  pose proof (wf_notype_sound m W fo ext nglob entry fuel) as T.
  pose proof (wf_terminated_sound m W fo ext nglob entry fuel) as F.
  destruct (run fo m ext nglob entry fuel) as [tr s|a|[]|]; auto; congruence.
Qed.

Theorem wf_sound_holds : wf_sound_statement.
Proof. exact wf_sound. Qed.
