(* C13: the scanner model satisfies the declarative tokenisation rules (via the reference lexer). *)
From Coq Require Import List NArith ZArith Bool Lia.
From Cproc Require Import Gen.Keywords Model.Scan Spec.Lex Spec.LineSpec Proofs.ScanSim Proofs.ScanLex Proofs.ScanLexNum.
Import ListNotations.
Open Scope N_scope.

Lemma scan_tok : forall fuel s cs k lit sp start rest,
  Delivers s cs -> (length cs + 1 < fuel)%nat ->
  l_scankind fuel false (blank cs) = LTok k lit sp start rest ->
  exists t s', scan fuel s = Ok (t, s') /\ tkind t = k /\ tlit t = lit /\ tspace t = sp /\ Delivers s' (map fst rest).
Proof.
  intros fuel s cs k lit sp start rest HD HL E. pose proof (scan_lex fuel s cs HD HL) as P. now rewrite E in P.
Qed.

Lemma map_fst_skipn_blank : forall n cs, map fst (skipn n (blank cs)) = skipn n cs.
Proof. induction n; intros cs; simpl. - apply map_fst_blank. - destruct cs; simpl; auto. Qed.

(* ---- the longest punctuator wins *)
Theorem maximal_munch : forall fuel s cs p k,
  Delivers s cs -> (length cs + 1 < fuel)%nat ->
  In (hd 0 cs) punct_chars -> not_special cs = true -> longest_punct cs p k ->
  exists t s', scan fuel s = Ok (t, s') /\ tkind t = k /\ tlit t = None /\ tspace t = false /\
               Delivers s' (skipn (length p) cs).
Proof.
  intros fuel s cs p k HD HL Hin Hns HP.
  destruct fuel as [|n]; [lia|].
  pose proof (l_maximal_munch n false (blank cs) p k) as M. rewrite map_fst_blank in M.
  specialize (M Hin Hns HP).
  destruct (scan_tok _ _ _ _ _ _ _ _ HD HL M) as (t & s' & A & B & C & D & E).
  exists t, s'. rewrite map_fst_skipn_blank in E. auto.
Qed.

(* ---- preprocessing numbers *)
Definition starts_number (cs : list N) : bool :=
  match cs with
  | c :: r => digit c || ((c =? 46) && match r with d :: _ => digit d | [] => false end)
  | [] => false
  end.

Theorem ppnumber_spec : forall fuel s cs,
  Delivers s cs -> (length cs + 1 < fuel)%nat -> starts_number cs = true ->
  exists t s' pre rest, scan fuel s = Ok (t, s') /\ tkind t = TNUMBER /\ tlit t = Some pre /\
                        cs = pre ++ rest /\ longest_prefix ppnumber cs pre /\ Delivers s' rest.
Proof.
  intros fuel s cs HD HL HS. destruct fuel as [|n]; [lia|].
  destruct cs as [|c r]; [discriminate|]. simpl in HS.
  destruct (digit c) eqn:Ed.
  - pose proof (l_scankind_number n false (c, (0,0)%Z) (blank r) Ed) as E.
    destruct (scan_tok _ _ (c :: r) _ _ _ _ _ HD HL E) as (t & s' & A & B & C & _ & F).
    pose proof (l_ppnumber_spec (c, (0,0)%Z) (blank r) Ed) as LP.
    simpl map in LP. rewrite map_fst_blank in LP. simpl fst in *.
    exists t, s', (c :: fst (l_num false (blank r))), (map fst (snd (l_num false (blank r)))).
    split; [exact A|]. split; [exact B|]. split; [exact C|]. split; [|split; [exact LP|exact F]].
    simpl. f_equal. rewrite <- l_num_split. now rewrite map_fst_blank.
  - simpl in HS. apply andb_true_iff in HS. destruct HS as [H46 Hd]. apply N.eqb_eq in H46. subst c.
    destruct r as [|d r]; [discriminate|].
    pose proof (l_scankind_dot_number n false (46, (0,0)%Z) (d, (0,0)%Z) (blank r) eq_refl Hd) as E.
    destruct (scan_tok _ _ (46 :: d :: r) _ _ _ _ _ HD HL E) as (t & s' & A & B & C & _ & F).
    pose proof (l_ppnumber_spec_dot (46, (0,0)%Z) (d, (0,0)%Z) (blank r) eq_refl Hd) as LP.
    simpl map in LP. rewrite map_fst_blank in LP. simpl fst in *.
    exists t, s', (46 :: d :: fst (l_num false (blank r))), (map fst (snd (l_num false (blank r)))).
    split; [exact A|]. split; [exact B|]. split; [exact C|]. split; [|split; [exact LP|exact F]].
    simpl. f_equal. f_equal. rewrite <- l_num_split. now rewrite map_fst_blank.
Qed.

(* ---- identifiers; encoding prefixes *)
Definition no_prefix_literal (cs : list N) : Prop :=
  forall P q rest, cs = P ++ q :: rest -> enc_prefix P = true -> q <> 39 /\ q <> 34.

Lemma blank_app : forall a b, blank (a ++ b) = blank a ++ blank b.
Proof. intros. unfold blank. apply map_app. Qed.

Lemma blank_split : forall cs (pa : list achar) aq r2, blank cs = pa ++ aq :: r2 ->
  cs = map fst pa ++ fst aq :: map fst r2.
Proof.
  intros cs pa aq r2 H. apply (f_equal (map fst)) in H. rewrite map_fst_blank in H.
  rewrite map_app in H. exact H.
Qed.

Theorem ident_spec : forall fuel s cs,
  Delivers s cs -> (length cs + 1 < fuel)%nat ->
  nondigit (hd 0 cs) = true -> no_prefix_literal cs ->
  exists t s' pre rest, scan fuel s = Ok (t, s') /\ tkind t = TIDENT /\ tlit t = Some pre /\
                        cs = pre ++ rest /\ longest_prefix identifier cs pre /\ Delivers s' rest.
Proof.
  intros fuel s cs HD HL Hn Hno. destruct fuel as [|n]; [lia|].
  destruct cs as [|c r]; [discriminate|]. simpl in Hn.
  assert (E : l_scankind (S n) false (blank (c :: r)) =
              LTok TIDENT (Some (fst (l_span idchar (blank (c :: r))))) false (blank (c :: r))
                   (snd (l_span idchar (blank (c :: r))))).
  { destruct (N.eq_dec c 76) as [E1|N1]; [|destruct (N.eq_dec c 85) as [E2|N2]; [|destruct (N.eq_dec c 117) as [E3|N3]]].
    4:{ apply (l_scankind_ident n false (c, (0,0)%Z) (blank r)); auto. }
    all: apply (l_prefix_ident n false (c, (0,0)%Z) (blank r)); [simpl; auto|];
      intros pa aq r2 Hsplit Hp;
      change ((c, (0,0)%Z) :: blank r) with (blank (c :: r)) in Hsplit;
      apply blank_split in Hsplit;
      destruct (Hno _ _ _ Hsplit Hp); auto. }
  destruct (scan_tok _ _ (c :: r) _ _ _ _ _ HD HL E) as (t & s' & A & B & C & _ & F).
  pose proof (l_ident_spec (c, (0,0)%Z) (blank r) Hn) as LP.
  change ((c, (0,0)%Z) :: blank r) with (blank (c :: r)) in LP. rewrite map_fst_blank in LP.
  exists t, s', (fst (l_span idchar (blank (c :: r)))), (map fst (snd (l_span idchar (blank (c :: r))))).
  split; [exact A|]. split; [exact B|]. split; [exact C|]. split; [|split; [exact LP|exact F]].
  rewrite <- l_span_split. now rewrite map_fst_blank.
Qed.

Theorem prefix_spec : forall fuel s P q rest,
  Delivers s (P ++ q :: rest) -> (length (P ++ q :: rest) + 1 < fuel)%nat ->
  enc_prefix P = true -> (q = 39 \/ q = 34) ->
  match l_quoted (pred fuel) q (blank rest) with
  | QOk lit r2 =>
    exists t s', scan fuel s = Ok (t, s') /\ tkind t = quote_kind q /\ tlit t = Some (P ++ q :: lit) /\
                 Delivers s' (map fst r2)
  | QErr e => exists l, scan fuel s = Error l (msg_of_lerr e)
  | QFuel => False
  end.
Proof.
  intros fuel s P q rest HD HL HP Hq. destruct fuel as [|n]; [lia|]. simpl pred.
  pose proof (scan_lex (S n) s _ HD HL) as SL.
  pose proof (l_prefix_literal n false (blank P) (q, (0,0)%Z) (blank rest)) as E.
  rewrite map_fst_blank in E. specialize (E HP Hq). simpl fst in E.
  match type of E with l_scankind _ _ ?l = _ =>
    assert (E2 : blank (P ++ q :: rest) = l) by (rewrite blank_app; reflexivity) end.
  rewrite E2, E in SL.
  unfold l_quote in SL.
  destruct (l_quoted n q (blank rest)) as [lit r2|e|]; auto.
  destruct SL as (t & s' & A & B & C & _ & F). exists t, s'.
  split; [exact A|]. split; [exact B|]. split; [|exact F].
  rewrite C. now rewrite <- app_assoc.
Qed.

(* ---- comments are white space *)
Definition same_scan (r1 r2 : result (token * scanner)) : Prop :=
  match r1, r2 with
  | Ok (t1, s1), Ok (t2, s2) =>
    tkind t1 = tkind t2 /\ tlit t1 = tlit t2 /\ tspace t1 = tspace t2 /\
    exists cs, Delivers s1 cs /\ Delivers s2 cs
  | Error _ m1, Error _ m2 => m1 = m2
  | _, _ => False
  end.

Lemma same_scan_of_lex : forall fuel s1 s2 cs1 cs2,
  Delivers s1 cs1 -> Delivers s2 cs2 -> (length cs1 + 1 < fuel)%nat -> (length cs2 + 1 < fuel)%nat ->
  l_scankind fuel false (blank cs1) = l_scankind fuel false (blank cs2) ->
  same_scan (scan fuel s1) (scan fuel s2).
Proof.
  intros fuel s1 s2 cs1 cs2 D1 D2 L1 L2 E.
  pose proof (scan_lex fuel s1 cs1 D1 L1) as P1. pose proof (scan_lex fuel s2 cs2 D2 L2) as P2.
  rewrite E in P1. destruct (l_scankind fuel false (blank cs2)) as [k lit sp start rest|e|]; [| |contradiction].
  - destruct P1 as (t1 & s1' & A1 & B1 & C1 & E1 & F1). destruct P2 as (t2 & s2' & A2 & B2 & C2 & E2 & F2).
    rewrite A1, A2. simpl. split; [congruence|]. split; [congruence|]. split; [congruence|]. exists (map fst rest). auto.
  - destruct P1 as (l1 & A1). destruct P2 as (l2 & A2). rewrite A1, A2. reflexivity.
Qed.

Theorem comment_is_space : forall fuel s1 s2 body post,
  Delivers s1 (47 :: 42 :: body ++ 42 :: 47 :: post) -> ~ has_close (body ++ [42]) ->
  Delivers s2 (32 :: post) ->
  (length (47%N :: 42%N :: body ++ 42%N :: 47%N :: post) + 1 < fuel)%nat ->
  same_scan (scan fuel s1) (scan fuel s2).
Proof.
  intros fuel s1 s2 body post D1 Hn D2 L.
  apply (same_scan_of_lex fuel s1 s2 _ _ D1 D2 L).
  { simpl in *. rewrite app_length in L. simpl in L. lia. }
  destruct fuel as [|n]; [lia|].
  change (blank (47 :: 42 :: body ++ 42 :: 47 :: post)) with ((47, (0,0)%Z) :: (42, (0,0)%Z) :: blank (body ++ 42 :: 47 :: post)).
  change (blank (32 :: post)) with ((32, (0,0)%Z) :: blank post).
  rewrite blank_app. change (blank (42 :: 47 :: post)) with ((42, (0,0)%Z) :: (47, (0,0)%Z) :: blank post).
  apply l_block_comment_is_space; auto.
  apply l_block_first_close; auto. now rewrite map_fst_blank.
Qed.

Theorem line_comment_is_space : forall fuel s1 s2 body post,
  Delivers s1 (47 :: 47 :: body ++ 10 :: post) -> ~ In 10 body ->
  Delivers s2 (32 :: 10 :: post) ->
  (length (47%N :: 47%N :: body ++ 10%N :: post) + 1 < fuel)%nat ->
  same_scan (scan fuel s1) (scan fuel s2).
Proof.
  intros fuel s1 s2 body post D1 Hn D2 L.
  apply (same_scan_of_lex fuel s1 s2 _ _ D1 D2 L).
  { simpl in *. rewrite app_length in L. simpl in L. lia. }
  destruct fuel as [|n]; [lia|].
  change (blank (47 :: 47 :: body ++ 10 :: post)) with ((47, (0,0)%Z) :: (47, (0,0)%Z) :: blank (body ++ 10 :: post)).
  change (blank (32 :: 10 :: post)) with ((32, (0,0)%Z) :: blank (10 :: post)).
  rewrite blank_app. change (blank (10 :: post)) with ((10, (0,0)%Z) :: blank post).
  rewrite (l_line_comment_is_space n false _ _ _ (32, (0,0)%Z)); auto.
  rewrite l_upto_nl_first; auto. now rewrite map_fst_blank.
Qed.

(* ---- phase 2: the token stream depends on the text only through its splice-free form *)
Definition strip_tok (t : token) : kind * option (list N) * bool := (tkind t, tlit t, tspace t).
Definition strip_end (e : ending) : option (option msg) :=
  match e with
  | EndEOF => Some None
  | EndError _ m => Some (Some m)
  | EndFuel => None
  | EndUnsupported => None
  end.
Definition strip (r : list token * ending) := (map strip_tok (fst r), strip_end (snd r)).

Lemma ltok_match_strip : forall fl t lt, ltok_match false 0 fl t lt -> strip_tok t = (lkind lt, llit lt, lspace lt).
Proof. intros fl t lt (A & B & C & _). unfold strip_tok. now rewrite A, B, C. Qed.

Lemma Forall2_strip : forall fl toks ltoks, Forall2 (ltok_match false 0 fl) toks ltoks ->
  map strip_tok toks = map (fun lt => (lkind lt, llit lt, lspace lt)) ltoks.
Proof. induction 1; simpl; [reflexivity|]. f_equal; auto. eapply ltok_match_strip; eauto. Qed.

Lemma end_match_strip : forall e le, end_match e le ->
  strip_end e = match le with LEndEOF => Some None | LEndErr x => Some (Some (msg_of_lerr x)) | LEndFuel => None end.
Proof. intros [| |  |] [| |] H; simpl in *; try contradiction; auto. now subst. Qed.

Theorem tokens_phase2 : forall name1 name2 text1 text2 f,
  phase2 text1 = phase2 text2 -> (length text1 + 1 < f)%nat -> (length text2 + 1 < f)%nat ->
  strip (scantokens f f (scanfrom name1 text1)) = strip (scantokens f f (scanfrom name2 text2)).
Proof.
  intros name1 name2 text1 text2 f E L1 L2.
  pose proof (Delivers_Rel _ _ (Delivers_scanfrom name1 text1)) as R1.
  pose proof (Delivers_Rel _ _ (Delivers_scanfrom name2 text2)) as R2.
  rewrite <- E in R2.
  assert (B : (length (blank (phase2 text1)) + 1 < f)%nat).
  { rewrite blank_length. pose proof (logical_len text1) as LL.
    unfold logical, physical in LL.
    assert (length (phase2 text1) = length (phase2a (ann (1,1)%Z text1))) by (rewrite <- (map_fst_logical (1,1)%Z text1); now rewrite map_length).
    lia. }
  destruct (scantokens_sim f f false 0 _ _ _ _ R1 B (fun e => False_ind _ (Bool.diff_false_true e))) as [F1 E1].
  destruct (scantokens_sim f f false 0 _ _ _ _ R2 B (fun e => False_ind _ (Bool.diff_false_true e))) as [F2 E2].
  unfold strip. f_equal.
  - rewrite (Forall2_strip _ _ _ F1), (Forall2_strip _ _ _ F2). reflexivity.
  - rewrite (end_match_strip _ _ E1), (end_match_strip _ _ E2). reflexivity.
Qed.

Definition splits_splice (pre post : list N) : Prop :=
  exists pre' post', pre = pre' ++ [92] /\ post = 10 :: post'.

Lemma phase2_splice : forall n pre post, (length pre <= n)%nat -> ~ splits_splice pre post ->
  phase2 (pre ++ 92 :: 10 :: post) = phase2 (pre ++ post).
Proof.
  induction n; intros pre post L H.
  - destruct pre; [reflexivity|simpl in L; lia].
  - destruct pre as [|a [|b r]].
    + reflexivity.
    + simpl app. destruct (N.eq_dec a 92) as [->|Na].
      * rewrite phase2_bs_other by discriminate.
        change (phase2 (92 :: 10 :: post)) with (phase2 post).
        destruct post as [|y post]; [reflexivity|].
        rewrite phase2_bs_other; [reflexivity|].
        intros ->. apply H. exists [], post. auto.
      * rewrite (phase2_cons_other a (92 :: 10 :: post)), (phase2_cons_other a post) by assumption. reflexivity.
    + change ((a :: b :: r) ++ 92 :: 10 :: post) with (a :: b :: (r ++ 92 :: 10 :: post)).
      change ((a :: b :: r) ++ post) with (a :: b :: (r ++ post)).
      change (phase2 (a :: b :: r ++ 92 :: 10 :: post))
        with (if (a =? 92) && (b =? 10) then phase2 (r ++ 92 :: 10 :: post) else a :: phase2 (b :: r ++ 92 :: 10 :: post)).
      change (phase2 (a :: b :: r ++ post))
        with (if (a =? 92) && (b =? 10) then phase2 (r ++ post) else a :: phase2 (b :: r ++ post)).
      destruct ((a =? 92) && (b =? 10)).
      * apply IHn; [simpl in L; lia|].
        intros (p' & q' & -> & ->). apply H. exists (a :: b :: p'), q'. auto.
      * f_equal. apply (IHn (b :: r)); [simpl in *; lia|].
        intros (p' & q' & E & ->). apply H. exists (a :: p'), q'. split; auto. simpl. now rewrite E.
Qed.

(* inserting a backslash-new-line anywhere (except inside an existing backslash-new-line pair) changes no token *)
Theorem splice_invariance : forall name pre post f,
  ~ splits_splice pre post -> (length (pre ++ post) + 3 < f)%nat ->
  strip (scantokens f f (scanfrom name (pre ++ 92 :: 10 :: post))) =
  strip (scantokens f f (scanfrom name (pre ++ post))).
Proof.
  intros name pre post f H L. apply tokens_phase2.
  - apply (phase2_splice (length pre)); auto.
  - rewrite app_length in *. simpl. lia.
  - lia.
Qed.

(* ---- the specification's punctuator list is the punctuator section of tokstr[] *)
Definition is_punct_kind (k : kind) : bool :=
  (kind_num first_punctuator <=? kind_num k) && (kind_num k <=? kind_num last_punctuator).

Fixpoint rows_eqb (a : list (list N * kind)) (b : list (kind * list N)) : bool :=
  match a, b with
  | [], [] => true
  | (s, k) :: a', (k', s') :: b' => list_eqb s s' && (kind_num k =? kind_num k') && rows_eqb a' b'
  | _, _ => false
  end.

Definition puncts_agree_b : bool :=
  rows_eqb puncts (filter (fun row => is_punct_kind (fst row)) tokstr).

Theorem puncts_agree : puncts_agree_b = true.
Proof. vm_compute. reflexivity. Qed.

(* ---- non-vacuity *)
Example nonvacuous_munch :
  let text := (* a+++b<<=c->d...e..f x##y *) [97; 43; 43; 43; 98; 60; 60; 61; 99; 45; 62; 100; 46; 46; 46; 101; 46; 46; 102; 32; 120; 35; 35; 121] in
  map (fun t => kind_num (tkind t)) (fst (run_scan [] text)) =
  map kind_num [TIDENT; TINC; TADD; TIDENT; TSHLASSIGN; TIDENT; TARROW; TIDENT; TELLIPSIS; TIDENT; TPERIOD; TPERIOD;
                TIDENT; TIDENT; THASHHASH; TIDENT].
Proof. vm_compute. reflexivity. Qed.
