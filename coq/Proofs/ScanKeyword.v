(* keyword(): bisection over a table sorted by strcmp equals association-list lookup. *)
From Coq Require Import List NArith Arith Bool Lia Sorted.
From Cproc Require Import Gen.Keywords Model.Scan Spec.Lex.
Import ListNotations.
Open Scope N_scope.

Lemma strcmp_eq : forall a b, strcmp a b = Eq <-> a = b.
Proof.
  induction a as [|x a IH]; destruct b as [|y b]; simpl; split; try discriminate; auto.
  - destruct (x ?= y) eqn:E; try discriminate. apply N.compare_eq in E. subst. intros H. apply IH in H. now subst.
  - intros H. inversion H; subst. rewrite N.compare_refl. now apply IH.
Qed.

Lemma strcmp_opp : forall a b, strcmp b a = CompOpp (strcmp a b).
Proof.
  induction a as [|x a IH]; destruct b as [|y b]; simpl; auto.
  rewrite (N.compare_antisym x y). destruct (x ?= y); simpl; auto.
Qed.

Lemma strcmp_lt_trans : forall a b c, strcmp a b = Lt -> strcmp b c = Lt -> strcmp a c = Lt.
Proof.
  induction a as [|x a IH]; intros b c H1 H2.
  - destruct b; [discriminate|]. destruct c; [discriminate|reflexivity].
  - destruct b as [|y b]; [discriminate|]. destruct c as [|z c]; [discriminate|]. simpl in *.
    destruct (x ?= y) eqn:E1; try discriminate.
    + apply N.compare_eq in E1. subst y. destruct (x ?= z); auto. eapply IH; eauto.
    + destruct (y ?= z) eqn:E2; try discriminate.
      * apply N.compare_eq in E2. subst z. now rewrite E1.
      * assert (Hxz : (x ?= z) = Lt).
        { apply N.compare_lt_iff. eapply N.lt_trans; apply N.compare_lt_iff; eassumption. }
        now rewrite Hxz.
Qed.

Lemma list_eqb_strcmp : forall a b, list_eqb a b = true <-> strcmp a b = Eq.
Proof.
  intros. rewrite strcmp_eq. revert b. induction a as [|x a IH]; destruct b as [|y b]; simpl; split; try discriminate; auto.
  - rewrite andb_true_iff, N.eqb_eq, IH. intros [-> ->]. reflexivity.
  - intros H; inversion H; subst. rewrite andb_true_iff, N.eqb_eq, IH. auto.
Qed.

Definition lt_row (x y : list N * kind) : Prop := strcmp (fst x) (fst y) = Lt.
Definition sorted (tbl : list (list N * kind)) : Prop := StronglySorted lt_row tbl.

Lemma sorted_nth : forall tbl i j x y, sorted tbl -> (i < j)%nat ->
  nth_error tbl i = Some x -> nth_error tbl j = Some y -> lt_row x y.
Proof.
  induction tbl as [|r tbl IH]; intros i j x y Hs L Hi Hj.
  - destruct i; discriminate.
  - inversion Hs; subst. destruct j as [|j]; [lia|]. simpl in Hj.
    destruct i as [|i]; simpl in Hi.
    + inversion Hi; subst. rewrite Forall_forall in H2. apply H2. eapply nth_error_In; eauto.
    + apply (IH i j x y); auto. lia.
Qed.

Lemma assoc_none : forall tbl s,
  (forall i x, nth_error tbl i = Some x -> strcmp s (fst x) <> Eq) -> assoc tbl s = None.
Proof.
  induction tbl as [|[n k] tbl IH]; intros s H; simpl; [reflexivity|].
  destruct (list_eqb s n) eqn:E.
  - apply list_eqb_strcmp in E. exfalso. apply (H O (n, k)); auto.
  - apply IH. intros i x Hx. apply (H (S i) x). exact Hx.
Qed.

Lemma assoc_nth : forall tbl i n k, sorted tbl -> nth_error tbl i = Some (n, k) -> assoc tbl n = Some k.
Proof.
  induction tbl as [|[n0 k0] tbl IH]; intros i n k Hs H.
  - destruct i; discriminate.
  - simpl. destruct i as [|i]; simpl in H.
    + inversion H; subst. assert (list_eqb n n = true) by (apply list_eqb_strcmp, strcmp_eq; reflexivity).
      now rewrite H0.
    + assert (L : lt_row (n0, k0) (n, k)) by (apply (sorted_nth ((n0, k0) :: tbl) O (S i)); auto; lia).
      unfold lt_row in L. simpl in L.
      destruct (list_eqb n n0) eqn:E.
      * apply list_eqb_strcmp in E. rewrite strcmp_opp, E in L. discriminate.
      * inversion Hs; subst. eapply IH; eauto.
Qed.

Lemma bisect_inv : forall tbl s, sorted tbl -> forall n low high,
  (low <= high <= length tbl)%nat -> (high - low < n)%nat ->
  (forall i x, nth_error tbl i = Some x -> (i < low \/ high <= i)%nat -> strcmp s (fst x) <> Eq) ->
  bisect n tbl s low high = Some (assoc tbl s).
Proof.
  intros tbl s Hs. induction n; intros low high B F Out; [lia|].
  cbn [bisect]. destruct (Nat.ltb low high) eqn:E.
  - apply Nat.ltb_lt in E.
    set (mid := Nat.div (low + high) 2).
    assert (Hm : (low <= mid < high)%nat).
    { unfold mid. split.
      - apply Nat.div_le_lower_bound; lia.
      - apply Nat.div_lt_upper_bound; lia. }
    destruct (nth_error tbl mid) as [[name value]|] eqn:EN.
    2:{ apply nth_error_None in EN. lia. }
    destruct (strcmp s name) eqn:C.
    + apply strcmp_eq in C. subst name. f_equal. symmetry. eapply assoc_nth; eauto.
    + apply IHn; [lia|lia|].
      intros i x Hx [Hi|Hi]; [apply (Out i x Hx); auto|].
      destruct (Nat.eq_dec i mid) as [->|Ne].
      * rewrite EN in Hx. inversion Hx; subst. simpl. congruence.
      * assert (L : lt_row (name, value) x) by (apply (sorted_nth tbl mid i); auto; lia).
        unfold lt_row in L; simpl in L. rewrite (strcmp_lt_trans _ _ _ C L). discriminate.
    + apply IHn; [lia|lia|].
      intros i x Hx [Hi|Hi]; [|apply (Out i x Hx); right; lia].
      destruct (Nat.eq_dec i mid) as [->|Ne].
      * rewrite EN in Hx. inversion Hx; subst. simpl. congruence.
      * destruct (Nat.lt_ge_cases i low) as [Hl|Hl]; [apply (Out i x Hx); auto|].
        assert (L : lt_row x (name, value)) by (apply (sorted_nth tbl i mid); auto; lia).
        unfold lt_row in L; simpl in L.
        intros X. apply strcmp_eq in X. subst s. rewrite L in C. discriminate.
  - apply Nat.ltb_ge in E. f_equal. symmetry. apply assoc_none.
    intros i x Hx. apply (Out i x Hx). lia.
Qed.

Theorem keyword_bisect_correct : forall tbl s, sorted tbl -> keyword_lookup tbl s = Some (assoc tbl s).
Proof.
  intros tbl s Hs. unfold keyword_lookup. apply bisect_inv; auto; try lia.
  intros i x Hx [Hi|Hi]; [lia|]. apply nth_error_None in Hi. congruence.
Qed.

(* a decidable check of sortedness: adjacent rows strictly increasing *)
Fixpoint sortedb (tbl : list (list N * kind)) : bool :=
  match tbl with
  | x :: ((y :: _) as r) => (match strcmp (fst x) (fst y) with Lt => true | _ => false end) && sortedb r
  | _ => true
  end.

Lemma sortedb_sorted : forall tbl, sortedb tbl = true -> sorted tbl.
Proof.
  induction tbl as [|x tbl IH]; intros H; [constructor|].
  destruct tbl as [|y tbl]; [constructor; [constructor|constructor]|].
  simpl in H. apply andb_true_iff in H. destruct H as [H1 H2].
  destruct (strcmp (fst x) (fst y)) eqn:C; try discriminate.
  specialize (IH H2). constructor; auto.
  constructor; [exact C|].
  inversion IH; subst. rewrite Forall_forall in *. intros z Hz. unfold lt_row.
  eapply strcmp_lt_trans; [exact C|]. apply H4. exact Hz.
Qed.

(* the table regenerated from pp.c *)
Theorem keywords_sorted : sorted keywords.
Proof. apply sortedb_sorted. vm_compute. reflexivity. Qed.

Theorem keyword_lookup_assoc : forall s, keyword_lookup keywords s = Some (assoc keywords s).
Proof. intros. apply keyword_bisect_correct, keywords_sorted. Qed.

(* every keyword enumerator with a spelling in tokstr[] is reached by that (canonical) spelling, and every row
   of the table names a keyword enumerator *)
Fixpoint tokstr_of (k : kind) (tbl : list (kind * list N)) : option (list N) :=
  match tbl with
  | (k', s) :: r => if kind_num k =? kind_num k' then Some s else tokstr_of k r
  | [] => None
  end.

Definition is_keyword_kind (k : kind) : bool :=
  (kind_num first_keyword <=? kind_num k) && (kind_num k <=? kind_num last_keyword).

Definition opt_kind_eqb (a : option kind) (k : kind) : bool :=
  match a with Some x => kind_num x =? kind_num k | None => false end.

Definition canonical_ok : bool :=
  forallb (fun row => is_keyword_kind (snd row) &&
                      match tokstr_of (snd row) tokstr with
                      | Some sp => opt_kind_eqb (assoc keywords sp) (snd row)
                      | None => false
                      end) keywords.

Theorem keyword_kinds : canonical_ok = true.
Proof. vm_compute. reflexivity. Qed.

(* the model's keyword() on a token *)
Theorem keyword_spec : forall t,
  keyword t = match tkind t, tlit t with
              | TIDENT, Some l => match assoc keywords l with
                                  | Some k => mktoken k (tloc t) None (tspace t)
                                  | None => t
                                  end
              | _, _ => t
              end.
Proof.
  intros t. unfold keyword. destruct (tkind t); try reflexivity.
  destruct (tlit t) as [l|]; [|reflexivity]. rewrite keyword_lookup_assoc. reflexivity.
Qed.
