(* The reference lexer (Spec/Lex.v, Part 2) satisfies the declarative rules of C11 6.4 (Part 1). *)
From Coq Require Import List NArith ZArith Bool Lia.
From Cproc Require Import Gen.Keywords Spec.Lex.
Import ListNotations.
Open Scope N_scope.

(* ------------------------------------------------------------------ longest punctuator, computed *)
Fixpoint prefixb (p cs : list N) : bool :=
  match p, cs with
  | [], _ => true
  | x :: p', y :: cs' => (y =? x) && prefixb p' cs'
  | _ :: _, [] => false
  end.

Definition best (cs : list N) (acc : option (list N * kind)) (row : list N * kind) : option (list N * kind) :=
  if prefixb (fst row) cs then
    match acc with
    | Some (q, _) => if Nat.ltb (length q) (length (fst row)) then Some row else acc
    | None => Some row
    end
  else acc.

Definition longest_in (tbl : list (list N * kind)) (cs : list N) : option (list N * kind) :=
  fold_left (best cs) tbl None.

Lemma prefixb_spec : forall p cs, prefixb p cs = true <-> is_prefix p cs.
Proof.
  induction p; intros cs; simpl.
  - split; auto. intros _. exists cs. reflexivity.
  - destruct cs as [|y cs].
    + split; [discriminate|]. intros [r H]. discriminate.
    + rewrite andb_true_iff, N.eqb_eq, IHp. split.
      * intros [-> [r ->]]. exists r. reflexivity.
      * intros [r H]. inversion H. split; auto. exists r. reflexivity.
Qed.

Lemma fold_best_inv : forall cs tbl acc,
  (match acc with Some (q, k) => is_prefix q cs | None => True end) ->
  match fold_left (best cs) tbl acc with
  | Some (p, k) =>
    (In (p, k) tbl \/ acc = Some (p, k)) /\ is_prefix p cs /\
    (forall q k', In (q, k') tbl -> is_prefix q cs -> (length q <= length p)%nat) /\
    (match acc with Some (q, _) => (length q <= length p)%nat | None => True end)
  | None => acc = None /\ forall q k', In (q, k') tbl -> ~ is_prefix q cs
  end.
Proof.
  intros cs tbl. induction tbl as [|[q0 k0] tbl IH]; intros acc Hacc; simpl.
  - destruct acc as [[p k]|]; auto. repeat split; auto; intros; contradiction.
  - specialize (IH (best cs acc (q0, k0))).
    unfold best in *. simpl fst in *.
    destruct (prefixb q0 cs) eqn:Ep.
    + apply prefixb_spec in Ep.
      destruct acc as [[qa ka]|].
      * destruct (Nat.ltb (length qa) (length q0)) eqn:El.
        -- apply Nat.ltb_lt in El. specialize (IH Ep).
           destruct (fold_left _ tbl (Some (q0, k0))) as [[p k]|].
           ++ destruct IH as (A & B & C & E). repeat split; auto.
              ** destruct A as [A|A]; [left; right; exact A|]. inversion A; subst. left; left; reflexivity.
              ** intros q k' [X|X] Hq; [inversion X; subst; exact E|eapply C; eauto].
              ** lia.
           ++ destruct IH as [A _]. discriminate.
        -- apply Nat.ltb_ge in El. specialize (IH Hacc).
           destruct (fold_left _ tbl (Some (qa, ka))) as [[p k]|].
           ++ destruct IH as (A & B & C & E). repeat split; auto.
              ** destruct A as [A|A]; [left; right; exact A|right; exact A].
              ** intros q k' [X|X] Hq; [inversion X; subst; lia|eapply C; eauto].
           ++ destruct IH as [A _]. discriminate.
      * specialize (IH Ep).
        destruct (fold_left _ tbl (Some (q0, k0))) as [[p k]|].
        -- destruct IH as (A & B & C & E). repeat split; auto.
           ++ destruct A as [A|A]; [left; right; exact A|]. inversion A; subst. left; left; reflexivity.
           ++ intros q k' [X|X] Hq; [inversion X; subst; exact E|eapply C; eauto].
        -- destruct IH as [A _]. discriminate.
    + assert (Np : ~ is_prefix q0 cs) by (intros X; apply prefixb_spec in X; congruence).
      specialize (IH Hacc).
      destruct (fold_left _ tbl acc) as [[p k]|].
      * destruct IH as (A & B & C & E). repeat split; auto.
        -- destruct A as [A|A]; [left; right; exact A|right; exact A].
        -- intros q k' [X|X] Hq; [inversion X; subst; contradiction|eapply C; eauto].
      * destruct IH as [A B]. split; auto. intros q k' [X|X]; [inversion X; subst; exact Np|eapply B; eauto].
Qed.

Lemma longest_in_sound_gen : forall tbl cs p k, longest_in tbl cs = Some (p, k) ->
  In (p, k) tbl /\ is_prefix p cs /\
  forall q k', In (q, k') tbl -> is_prefix q cs -> (length q <= length p)%nat.
Proof.
  intros tbl cs p k H. pose proof (fold_best_inv cs tbl None I) as F.
  unfold longest_in in H. rewrite H in F. destruct F as (A & B & C & _).
  destruct A as [A|A]; [|discriminate]. split; [exact A|]. split; [exact B|exact C].
Qed.

Lemma longest_in_sound : forall cs p k, longest_in puncts cs = Some (p, k) -> longest_punct cs p k.
Proof. intros cs p k H. exact (longest_in_sound_gen puncts cs p k H). Qed.

Lemma prefix_same_len : forall (p q cs : list N), is_prefix p cs -> is_prefix q cs -> length p = length q -> p = q.
Proof.
  induction p; intros q cs [r1 H1] [r2 H2] L; destruct q; simpl in *; try discriminate; auto.
  subst cs. inversion H2; subst. f_equal. eapply IHp; [eexists; reflexivity|eexists; eassumption|lia].
Qed.

Lemma assoc_fun : forall (tbl : list (list N * kind)) p k k',
  NoDup (map fst tbl) -> In (p, k) tbl -> In (p, k') tbl -> k = k'.
Proof.
  induction tbl as [|[q0 k0] tbl IH]; intros p k k' ND H1 H2; [contradiction|].
  simpl in ND. inversion ND; subst.
  destruct H1 as [H1|H1], H2 as [H2|H2].
  - congruence.
  - inversion H1; subst. exfalso. apply H3. apply (in_map fst) in H2. exact H2.
  - inversion H2; subst. exfalso. apply H3. apply (in_map fst) in H1. exact H1.
  - eapply IH; eauto.
Qed.

Definition puncts_c := Eval vm_compute in puncts.
Lemma puncts_eq : puncts = puncts_c. Proof. vm_compute. reflexivity. Qed.

Fixpoint nodupb (l : list (list N)) : bool :=
  match l with
  | [] => true
  | x :: r => negb (existsb (list_eqb x) r) && nodupb r
  end.

Lemma list_eqb_eq : forall a b, list_eqb a b = true <-> a = b.
Proof.
  induction a; destruct b; simpl; split; try discriminate; auto.
  - rewrite andb_true_iff, N.eqb_eq, IHa. intros [-> ->]. reflexivity.
  - intros H; inversion H; subst. rewrite andb_true_iff, N.eqb_eq, IHa. auto.
Qed.

Lemma nodupb_NoDup : forall l, nodupb l = true -> NoDup l.
Proof.
  induction l; simpl; intros H; [constructor|].
  apply andb_true_iff in H. destruct H as [H1 H2]. constructor; auto.
  intros X. apply negb_true_iff in H1.
  assert (existsb (list_eqb a) l = true). { apply existsb_exists. exists a. split; auto. now apply list_eqb_eq. }
  congruence.
Qed.

Lemma puncts_nodup : NoDup (map fst puncts).
Proof. apply nodupb_NoDup. vm_compute. reflexivity. Qed.

Lemma longest_punct_unique : forall cs p k p' k',
  longest_punct cs p k -> longest_punct cs p' k' -> p = p' /\ k = k'.
Proof.
  intros cs p k p' k' (A & B & C) (A' & B' & C').
  assert (p = p').
  { eapply prefix_same_len; eauto. pose proof (C _ _ A' B'). pose proof (C' _ _ A B). lia. }
  subst p'. split; auto. eapply assoc_fun; eauto using puncts_nodup.
Qed.

(* ------------------------------------------------------------------ maximal munch *)
(* the 25 characters punctuators are made of *)
Definition punct_chars : list N :=
  [33; 35; 37; 38; 40; 41; 42; 43; 44; 45; 46; 47; 58; 59; 60; 61; 62; 63; 91; 93; 94; 123; 124; 125; 126].

(* `.` followed by a digit starts a pp-number; `/` followed by `/` or `*` starts a comment *)
Definition not_special (cs : list N) : bool :=
  match cs with
  | 46 :: c1 :: _ => negb (digit c1)
  | 47 :: c1 :: _ => negb (c1 =? 47) && negb (c1 =? 42)
  | _ => true
  end.

(* Abstraction: the punctuator decision only compares characters with punctuator characters (and tests
   "digit" once), so it depends on the first three characters only through their class. *)
Definition classes : list N := punct_chars ++ [48; 0].
Definition cls (c : N) : N :=
  if existsb (N.eqb c) punct_chars then c else if digit c then 48 else 0.
Definition abs3 (cs : list N) : list N := firstn 3 (map cls cs ++ [0; 0; 0]).

Lemma cls_eqb : forall x k, existsb (N.eqb k) punct_chars = true -> (cls x =? k) = (x =? k).
Proof.
  intros x k Hk. unfold cls. destruct (existsb (N.eqb x) punct_chars) eqn:E; [reflexivity|].
  apply existsb_exists in Hk. destruct Hk as (k0 & Hin & Hk). apply N.eqb_eq in Hk. subst k0.
  destruct (N.eqb_spec x k) as [->|Ne].
  - exfalso. assert (existsb (N.eqb k) punct_chars = true) by (apply existsb_exists; exists k; split; auto; apply N.eqb_refl).
    congruence.
  - unfold punct_chars in Hin. simpl in Hin.
    repeat (destruct Hin as [<-|Hin]; [destruct (digit x); reflexivity|]). contradiction.
Qed.

Lemma cls_digit : forall x, digit (cls x) = digit x.
Proof.
  intros x. unfold cls. destruct (existsb (N.eqb x) punct_chars); [reflexivity|].
  destruct (digit x) eqn:E; reflexivity.
Qed.

Lemma cls_in : forall x, In (cls x) classes.
Proof.
  intros x. unfold cls. destruct (existsb (N.eqb x) punct_chars) eqn:E.
  - apply existsb_exists in E. destruct E as (k & Hin & Hk). apply N.eqb_eq in Hk. subst k.
    unfold classes. apply in_or_app. now left.
  - unfold classes. apply in_or_app. right. destruct (digit x); simpl; auto.
Qed.

Definition dec (r : lres) : option (kind * nat) :=
  match r with
  | LTok k None _ start rest => Some (k, (length start - length rest)%nat)
  | _ => None
  end.

Definition spec_dec (cs : list N) : option (kind * nat) :=
  match longest_in puncts_c cs with
  | Some (p, k) => Some (k, length p)
  | None => None
  end.

Definition dec_eqb (a b : option (kind * nat)) : bool :=
  match a, b with
  | Some (k1, n1), Some (k2, n2) => (kind_num k1 =? kind_num k2) && Nat.eqb n1 n2
  | _, _ => false
  end.

Lemma kind_num_inj : forall a b, kind_num a = kind_num b -> a = b.
Proof.
  assert (H : forall k, nth_error all_kinds (N.to_nat (kind_num k)) = Some k) by (destruct k; reflexivity).
  intros a b E. pose proof (H a) as Ha. rewrite E, H in Ha. congruence.
Qed.

Lemma dec_eqb_eq : forall a b, dec_eqb a b = true -> a = b /\ a <> None.
Proof.
  intros [[k1 n1]|] [[k2 n2]|] H; simpl in H; try discriminate.
  apply andb_true_iff in H. destruct H as [H1 H2]. apply N.eqb_eq, kind_num_inj in H1. apply Nat.eqb_eq in H2.
  subst. split; [reflexivity|discriminate].
Qed.

(* the declarative side depends on the text only through prefix tests against the table *)
Lemma fold_best_ext : forall cs cs' tbl acc,
  (forall row, In row tbl -> prefixb (fst row) cs = prefixb (fst row) cs') ->
  fold_left (best cs) tbl acc = fold_left (best cs') tbl acc.
Proof.
  intros cs cs' tbl. induction tbl as [|row tbl IH]; intros acc H; simpl; [reflexivity|].
  unfold best at 2 4. rewrite (H row (or_introl eq_refl)).
  apply IH. intros; apply H; now right.
Qed.

Lemma prefixb_abs3 : forall p cs,
  (length p <= 3)%nat -> forallb (fun k => existsb (N.eqb k) punct_chars) p = true ->
  prefixb p cs = prefixb p (abs3 cs).
Proof.
  intros p cs Hl Hp.
  assert (G : forall x k, existsb (N.eqb k) punct_chars = true -> (x =? k) = (cls x =? k))
    by (intros; symmetry; now apply cls_eqb).
  assert (Z0 : forall k, existsb (N.eqb k) punct_chars = true -> (0 =? k) = false).
  { intros k Hk. apply existsb_exists in Hk. destruct Hk as (k0 & Hin & Hk). apply N.eqb_eq in Hk. subst k0.
    unfold punct_chars in Hin; simpl in Hin. repeat (destruct Hin as [<-|Hin]; [reflexivity|]). contradiction. }
  unfold abs3.
  destruct p as [|k0 [|k1 [|k2 [|k3 p]]]]; simpl in Hl; try lia; simpl in Hp;
    repeat (match type of Hp with (_ && _) = true => apply andb_true_iff in Hp; destruct Hp as [? Hp] end).
  - reflexivity.
  - destruct cs as [|c0 cs]; cbn [prefixb firstn map app]; [now rewrite Z0|]. now rewrite G.
  - destruct cs as [|c0 [|c1 cs]]; cbn [prefixb firstn map app].
    + now rewrite Z0.
    + now rewrite <- G, Z0, !andb_false_r.
    + now rewrite <- G, <- (G c1).
  - destruct cs as [|c0 [|c1 [|c2 cs]]]; cbn [prefixb firstn map app].
    + now rewrite Z0.
    + now rewrite <- G, Z0, !andb_false_r.
    + now rewrite <- G, <- (G c1), Z0, !andb_false_r.
    + now rewrite <- G, <- (G c1), <- (G c2).
Qed.

Lemma puncts_small : forallb (fun row => Nat.leb (length (fst row)) 3 &&
                                         forallb (fun k => existsb (N.eqb k) punct_chars) (fst row)) puncts_c = true.
Proof. vm_compute. reflexivity. Qed.

Lemma spec_dec_abs3 : forall cs, longest_in puncts_c cs = longest_in puncts_c (abs3 cs).
Proof.
  intros cs. unfold longest_in. apply fold_best_ext. intros row Hin.
  pose proof puncts_small as Hs. rewrite forallb_forall in Hs. specialize (Hs row Hin).
  apply andb_true_iff in Hs. destruct Hs as [H1 H2]. apply Nat.leb_le in H1.
  now apply prefixb_abs3.
Qed.

Lemma not_special_abs3 : forall cs, In (hd 0 cs) punct_chars -> not_special cs = not_special (abs3 cs).
Proof.
  intros cs Hin. destruct cs as [|c0 cs]; [simpl in Hin; unfold punct_chars in Hin; simpl in Hin; intuition discriminate|].
  simpl in Hin. unfold abs3.
  assert (E0 : cls c0 = c0).
  { unfold cls. assert (existsb (N.eqb c0) punct_chars = true) by (apply existsb_exists; exists c0; split; auto; apply N.eqb_refl).
    now rewrite H. }
  destruct cs as [|c1 cs].
  - simpl. rewrite E0. unfold punct_chars in Hin; simpl in Hin.
    repeat (destruct Hin as [<-|Hin]; [reflexivity|]). contradiction.
  - simpl map. simpl app.
    assert (firstn 3 (cls c0 :: cls c1 :: map cls cs ++ [0;0;0]) = c0 :: cls c1 :: firstn 1 (map cls cs ++ [0;0;0])) by (rewrite E0; reflexivity).
    rewrite H. unfold not_special.
    unfold punct_chars in Hin; simpl in Hin.
    repeat (destruct Hin as [<-|Hin]; [try reflexivity|]); try contradiction.
    + now rewrite cls_digit.
    + rewrite !cls_eqb by reflexivity. reflexivity.
Qed.

Ltac crunch :=
  repeat (rewrite ?cls_digit, ?cls_eqb by reflexivity;
          match goal with
          | |- context [N.eqb ?x ?y] => destruct (N.eqb_spec x y); [subst|]; cbn in *; try discriminate
          end).

Lemma cls_self : forall c, In c punct_chars -> cls c = c.
Proof.
  intros c Hin. unfold cls.
  assert (existsb (N.eqb c) punct_chars = true) by (apply existsb_exists; exists c; split; auto; apply N.eqb_refl).
  now rewrite H.
Qed.

Lemma l_punct_abs : forall fuel sp cs,
  In (hd 0 (map fst cs)) punct_chars -> not_special (map fst cs) = true ->
  exists k n, dec (l_scankind 1 false (blank (abs3 (map fst cs)))) = Some (k, n) /\
              l_scankind (S fuel) sp cs = LTok k None sp cs (skipn n cs).
Proof.
  intros fuel sp cs Hin Hns.
  destruct cs as [|[c0 p0] r]; [simpl in Hin; unfold punct_chars in Hin; simpl in Hin; intuition discriminate|].
  simpl in Hin.
  unfold abs3. simpl map. rewrite (cls_self c0 Hin).
  destruct r as [|[c1 p1] [|[c2 p2] r2]]; simpl map; simpl app; simpl firstn;
    unfold punct_chars in Hin; simpl In in Hin;
    repeat (destruct Hin as [Hin|Hin]; [subst c0|]); try contradiction;
    cbn in Hns |- *; rewrite ?cls_digit, ?cls_eqb by reflexivity;
    try (destruct (digit c1); cbn in Hns |- *; try discriminate);
    crunch; eexists; eexists; (split; [reflexivity|reflexivity]).
Qed.

Lemma abs3_shape : forall c cs, exists x1 x2, abs3 (c :: cs) = [cls c; x1; x2] /\ In x1 classes /\ In x2 classes.
Proof.
  intros c cs. unfold abs3.
  assert (Z : In 0 classes) by (unfold classes; apply in_or_app; right; simpl; auto).
  destruct cs as [|c1 [|c2 cs]]; simpl.
  - exists 0, 0. auto.
  - exists (cls c1), 0. split; [reflexivity|]. split; [apply cls_in|exact Z].
  - exists (cls c1), (cls c2). split; [reflexivity|]. split; apply cls_in.
Qed.

Definition decide (o : option (list N * kind)) (x : option (kind * nat)) : bool :=
  match o with Some (p, k) => dec_eqb x (Some (k, length p)) | None => false end.

Definition checkm (l : list N) : bool :=
  if not_special l then decide (longest_in puncts_c l) (dec (l_scankind 1 false (blank l))) else true.

Lemma sweep_m : forallb (fun x0 => forallb (fun x1 => forallb (fun x2 => checkm [x0; x1; x2]) classes) classes) punct_chars = true.
Proof. vm_compute. reflexivity. Qed.

Lemma sweep_m_all : forall c0 x1 x2, In c0 punct_chars -> In x1 classes -> In x2 classes -> checkm [c0; x1; x2] = true.
Proof.
  intros c0 x1 x2 H0 H1 H2. pose proof sweep_m as SW.
  rewrite forallb_forall in SW. specialize (SW c0 H0). rewrite forallb_forall in SW. specialize (SW x1 H1).
  rewrite forallb_forall in SW. exact (SW x2 H2).
Qed.

Lemma decide_some : forall o x, decide o x = true -> exists p k, o = Some (p, k) /\ x = Some (k, length p).
Proof.
  intros [[p k]|] x H; simpl in H; [|discriminate]. exists p, k. split; [reflexivity|].
  apply dec_eqb_eq in H. tauto.
Qed.

Lemma munch_dec2 : forall c0 rest,
  In c0 punct_chars -> not_special (c0 :: rest) = true ->
  exists p' k', longest_in puncts_c (c0 :: rest) = Some (p', k') /\
                dec (l_scankind 1 false (blank (abs3 (c0 :: rest)))) = Some (k', length p').
Proof.
  intros c0 rest Hin Hns.
  destruct (abs3_shape c0 rest) as (x1 & x2 & Ea & I1 & I2).
  rewrite (cls_self c0 Hin) in Ea.
  pose proof (sweep_m_all c0 x1 x2 Hin I1 I2) as SW.
  rewrite <- Ea in SW. unfold checkm in SW.
  rewrite (not_special_abs3 (c0 :: rest) Hin) in Hns. rewrite Hns in SW.
  rewrite <- spec_dec_abs3 in SW.
  exact (decide_some _ _ SW).
Qed.

Theorem l_maximal_munch : forall fuel sp cs p k,
  In (hd 0 (map fst cs)) punct_chars -> not_special (map fst cs) = true ->
  longest_punct (map fst cs) p k ->
  l_scankind (S fuel) sp cs = LTok k None sp cs (skipn (length p) cs).
Proof.
  intros fuel sp cs p k Hin Hns HL.
  destruct (l_punct_abs fuel sp cs Hin Hns) as (k0 & n0 & Hd & HS).
  destruct cs as [|[c0 p0] r]; [simpl in Hin; unfold punct_chars in Hin; simpl in Hin; intuition discriminate|].
  change (map fst ((c0, p0) :: r)) with (c0 :: map fst r) in *. simpl hd in Hin.
  destruct (munch_dec2 c0 (map fst r) Hin Hns) as (p' & k' & M1 & M2).
  rewrite Hd in M2. inversion M2; subst k0 n0.
  assert (EL' : longest_punct (c0 :: map fst r) p' k') by (apply longest_in_sound; rewrite puncts_eq; exact M1).
  destruct (longest_punct_unique _ _ _ _ _ HL EL') as [E1 E2]. subst p k. exact HS.
Qed.
