(* The reference lexer (Spec/Lex.v, Part 2) satisfies the declarative rules of C11 6.4 (Part 1):
   pp-numbers, identifiers, encoding prefixes, comments. *)
From Coq Require Import List NArith ZArith Bool Lia.
From Cproc Require Import Gen.Keywords Spec.Lex.
Import ListNotations.
Open Scope N_scope.

(* ------------------------------------------------------------------ pp-numbers (6.4.8) *)
(* what may follow the first digit, as a recogniser; `allow`: the previous character was e, E, p or P *)
Fixpoint tail_ok (allow : bool) (l : list N) : bool :=
  match l with
  | [] => true
  | c :: r =>
    if expchar c then tail_ok true r
    else if signchar c then allow && tail_ok false r
    else if (c =? 95) || (c =? 46) then tail_ok false r
    else if idchar c then tail_ok false r
    else false
  end.

Lemma expchar_nondigit : forall c, expchar c = true -> nondigit c = true.
Proof.
  intros c H. unfold expchar in H. unfold nondigit.
  repeat (apply orb_true_iff in H; destruct H as [H|H]); apply N.eqb_eq in H; subst; reflexivity.
Qed.

Lemma signchar_not : forall c, signchar c = true -> expchar c = false /\ idchar c = false /\ (c =? 95) = false /\ (c =? 46) = false.
Proof.
  intros c H. unfold signchar in H. apply orb_true_iff in H. destruct H as [H|H]; apply N.eqb_eq in H; subst; repeat split; reflexivity.
Qed.

Lemma nondigit_idchar : forall c, nondigit c = true -> idchar c = true.
Proof. intros. unfold idchar. now rewrite H. Qed.
Lemma digit_idchar : forall c, digit c = true -> idchar c = true.
Proof. intros. unfold idchar. rewrite H. apply orb_true_r. Qed.

Lemma idchar_not_sign : forall c, idchar c = true -> signchar c = false.
Proof.
  intros c H. destruct (signchar c) eqn:E; [|reflexivity].
  apply signchar_not in E. destruct E as (_ & E & _). congruence.
Qed.
Lemma dot_not_sign : signchar 46 = false. Proof. reflexivity. Qed.

(* characters that may extend a pp-number on their own *)
Definition okchar (c : N) : bool := idchar c || (c =? 46).

Lemma tail_ok_snoc : forall t a c, tail_ok a t = true -> okchar c = true -> tail_ok a (t ++ [c]) = true.
Proof.
  induction t as [|x t IH]; intros a c H Hc; simpl in *.
  - destruct (expchar c); [reflexivity|].
    assert (signchar c = false).
    { unfold okchar in Hc. apply orb_true_iff in Hc. destruct Hc as [Hc|Hc]; [now apply idchar_not_sign|].
      apply N.eqb_eq in Hc. subst. reflexivity. }
    rewrite H0. unfold okchar in Hc.
    destruct ((c =? 95) || (c =? 46)) eqn:E; [reflexivity|].
    apply orb_false_iff in E. destruct E as [_ E]. rewrite E, orb_false_r in Hc. now rewrite Hc.
  - destruct (expchar x); [now apply IH|].
    destruct (signchar x).
    { apply andb_true_iff in H. destruct H as [-> H]. simpl. now apply IH. }
    destruct ((x =? 95) || (x =? 46)); [now apply IH|].
    destruct (idchar x); [now apply IH|discriminate].
Qed.

Lemma tail_ok_snoc_exp : forall t a e s, tail_ok a t = true -> expchar e = true -> signchar s = true ->
  tail_ok a (t ++ [e; s]) = true.
Proof.
  induction t as [|x t IH]; intros a e s H He Hs; simpl in *.
  - rewrite He. destruct (signchar_not _ Hs) as (E1 & _). rewrite E1, Hs. reflexivity.
  - destruct (expchar x); [now apply IH|].
    destruct (signchar x).
    { apply andb_true_iff in H. destruct H as [-> H]. simpl. now apply IH. }
    destruct ((x =? 95) || (x =? 46)); [now apply IH|].
    destruct (idchar x); [now apply IH|discriminate].
Qed.

(* every pp-number has the shape  [.] digit tail  *)
Lemma ppnumber_shape : forall n, ppnumber n ->
  (exists d t, n = d :: t /\ digit d = true /\ tail_ok false t = true) \/
  (exists d t, n = 46 :: d :: t /\ digit d = true /\ tail_ok false t = true).
Proof.
  intros n H. induction H.
  - left. exists d, []. auto.
  - right. exists d, []. auto.
  - assert (okchar d = true) by (unfold okchar; now rewrite digit_idchar).
    destruct IHppnumber as [(d0 & t & -> & A & B)|(d0 & t & -> & A & B)]; [left|right];
      exists d0, (t ++ [d]); repeat split; auto using tail_ok_snoc.
  - assert (okchar c = true) by (unfold okchar; now rewrite nondigit_idchar).
    destruct IHppnumber as [(d0 & t & -> & A & B)|(d0 & t & -> & A & B)]; [left|right];
      exists d0, (t ++ [c]); repeat split; auto using tail_ok_snoc.
  - destruct IHppnumber as [(d0 & t & -> & A & B)|(d0 & t & -> & A & B)]; [left|right];
      exists d0, (t ++ [e; s]); repeat split; auto using tail_ok_snoc_exp.
  - assert (okchar 46 = true) by reflexivity.
    destruct IHppnumber as [(d0 & t & -> & A & B)|(d0 & t & -> & A & B)]; [left|right];
      exists d0, (t ++ [46]); repeat split; auto using tail_ok_snoc.
Qed.

(* conversely: anything of that shape is a pp-number *)
Lemma ppnumber_tail : forall t n a,
  ppnumber n -> (a = true -> exists n0 e, n = n0 ++ [e] /\ ppnumber n0 /\ expchar e = true) ->
  tail_ok a t = true -> ppnumber (n ++ t).
Proof.
  induction t as [|c t IH]; intros n a Hn Ha Ht; simpl in Ht.
  - now rewrite app_nil_r.
  - replace (n ++ c :: t) with ((n ++ [c]) ++ t) by (rewrite <- app_assoc; reflexivity).
    destruct (expchar c) eqn:Ee.
    { apply (IH _ true); auto.
      - apply pp_nondigit; auto using expchar_nondigit.
      - intros _. exists n, c. auto. }
    destruct (signchar c) eqn:Es.
    { apply andb_true_iff in Ht. destruct Ht as [-> Ht].
      destruct (Ha eq_refl) as (n0 & e & -> & Hn0 & He).
      apply (IH _ false); auto; [|discriminate].
      rewrite <- app_assoc. simpl. now apply pp_exp_sign. }
    destruct ((c =? 95) || (c =? 46)) eqn:E.
    { apply (IH _ false); auto; [|discriminate].
      apply orb_true_iff in E. destruct E as [E|E]; apply N.eqb_eq in E; subst.
      - apply pp_nondigit; auto.
      - now apply pp_dot. }
    destruct (idchar c) eqn:Ei; [|discriminate].
    apply (IH _ false); auto; [|discriminate].
    unfold idchar in Ei. apply orb_true_iff in Ei. destruct Ei as [Ei|Ei].
    + now apply pp_nondigit.
    + now apply pp_digit_more.
Qed.

Lemma ppnumber_of_shape : forall d t, digit d = true -> tail_ok false t = true -> ppnumber (d :: t).
Proof.
  intros d t Hd Ht. apply (ppnumber_tail t [d] false); auto using pp_digit. discriminate.
Qed.
Lemma ppnumber_of_shape_dot : forall d t, digit d = true -> tail_ok false t = true -> ppnumber (46 :: d :: t).
Proof.
  intros d t Hd Ht. apply (ppnumber_tail t [46; d] false); auto using pp_dot_digit. discriminate.
Qed.

Lemma l_num_split : forall r a, map fst r = fst (l_num a r) ++ map fst (snd (l_num a r)).
Proof.
  induction r as [|x r IH]; intros a; simpl; [reflexivity|].
  destruct (expchar (fst x)); simpl; [now rewrite <- IH|].
  destruct (signchar (fst x)). { destruct a; simpl; [now rewrite <- IH|reflexivity]. }
  destruct ((fst x =? 95) || (fst x =? 46)); simpl; [now rewrite <- IH|].
  destruct (idchar (fst x)); simpl; [now rewrite <- IH|reflexivity].
Qed.

Lemma l_num_ok : forall r a, tail_ok a (fst (l_num a r)) = true.
Proof.
  induction r as [|x r IH]; intros a; simpl; [reflexivity|].
  destruct (expchar (fst x)) eqn:E1; simpl; [now rewrite E1|].
  destruct (signchar (fst x)) eqn:E2. { destruct a; simpl; [now rewrite E1, E2|reflexivity]. }
  destruct ((fst x =? 95) || (fst x =? 46)) eqn:E3; simpl; [now rewrite E1, E2, E3|].
  destruct (idchar (fst x)) eqn:E4; simpl; [now rewrite E1, E2, E3, E4|reflexivity].
Qed.

Lemma l_num_max : forall t r a, tail_ok a t = true -> is_prefix t (map fst r) ->
  (length t <= length (fst (l_num a r)))%nat.
Proof.
  induction t as [|c t IH]; intros r a Ht [q Hq]; simpl; [lia|].
  destruct r as [|x r]; [discriminate|]. simpl in Hq. inversion Hq; subst c.
  assert (Hp : is_prefix t (map fst r)) by (exists q; assumption).
  simpl in Ht |- *.
  destruct (expchar (fst x)); simpl. { specialize (IH r true Ht Hp). lia. }
  destruct (signchar (fst x)).
  { apply andb_true_iff in Ht. destruct Ht as [-> Ht]. simpl. specialize (IH r false Ht Hp). lia. }
  destruct ((fst x =? 95) || (fst x =? 46)); simpl. { specialize (IH r false Ht Hp). lia. }
  destruct (idchar (fst x)); simpl; [|discriminate]. specialize (IH r false Ht Hp). lia.
Qed.

(* the lexeme the lexer takes for a number is the longest pp-number that is a prefix of the text *)
Theorem l_ppnumber_spec : forall x r,
  digit (fst x) = true ->
  longest_prefix ppnumber (map fst (x :: r)) (fst x :: fst (l_num false r)).
Proof.
  intros x r Hd. repeat split.
  - apply ppnumber_of_shape; auto using l_num_ok.
  - exists (map fst (snd (l_num false r))). simpl. f_equal. apply l_num_split.
  - intros pre' Hp [q Hq]. simpl in Hq.
    destruct (ppnumber_shape _ Hp) as [(d & t & -> & A & B)|(d & t & -> & A & B)].
    + inversion Hq; subst. simpl. apply le_n_S. apply l_num_max; auto. exists q. assumption.
    + inversion Hq as [[H0 H1]]. rewrite H0 in Hd. vm_compute in Hd. discriminate Hd.
Qed.

Theorem l_ppnumber_spec_dot : forall x y r,
  fst x = 46 -> digit (fst y) = true ->
  longest_prefix ppnumber (map fst (x :: y :: r)) (46 :: fst y :: fst (l_num false r)).
Proof.
  intros x y r Hx Hd. repeat split.
  - apply ppnumber_of_shape_dot; auto using l_num_ok.
  - exists (map fst (snd (l_num false r))). simpl. rewrite Hx. f_equal. f_equal. apply l_num_split.
  - intros pre' Hp [q Hq]. simpl in Hq. rewrite Hx in Hq.
    destruct (ppnumber_shape _ Hp) as [(d & t & -> & A & B)|(d & t & -> & A & B)].
    + inversion Hq as [[H0 H1]]. rewrite <- H0 in A. vm_compute in A. discriminate A.
    + inversion Hq; subst. simpl. apply le_n_S, le_n_S. apply l_num_max; auto. exists q. assumption.
Qed.

(* ------------------------------------------------------------------ identifiers (6.4.2) *)
Lemma l_span_split : forall f r, map fst r = fst (l_span f r) ++ map fst (snd (l_span f r)).
Proof. induction r as [|x r IH]; simpl; [reflexivity|]. destruct (f (fst x)); simpl; [now rewrite <- IH|reflexivity]. Qed.

Lemma l_span_all : forall f r, Forall (fun c => f c = true) (fst (l_span f r)).
Proof. induction r as [|x r IH]; simpl; [constructor|]. destruct (f (fst x)) eqn:E; simpl; [constructor; auto|constructor]. Qed.

Lemma l_span_max : forall f t r, Forall (fun c => f c = true) t -> is_prefix t (map fst r) ->
  (length t <= length (fst (l_span f r)))%nat.
Proof.
  induction t as [|c t IH]; intros r Ht [q Hq]; simpl; [lia|].
  destruct r as [|x r]; [discriminate|]. simpl in Hq. inversion Hq; subst c.
  inversion Ht as [|? ? Hfx Hft]; subst. simpl. rewrite Hfx. simpl. apply le_n_S. apply IH; auto. exists q. assumption.
Qed.

Theorem l_ident_spec : forall x r,
  nondigit (fst x) = true ->
  longest_prefix identifier (map fst (x :: r)) (fst (l_span idchar (x :: r))).
Proof.
  intros x r Hn. assert (Hi : idchar (fst x) = true) by now apply nondigit_idchar.
  simpl l_span. rewrite Hi. simpl fst. repeat split.
  - auto.
  - apply l_span_all.
  - exists (map fst (snd (l_span idchar r))). simpl. f_equal. apply l_span_split.
  - intros pre' Hp [q Hq]. destruct pre' as [|c t]; [contradiction|].
    destruct Hp as [Hc Ht]. simpl in Hq. inversion Hq; subst. simpl. apply le_n_S.
    apply l_span_max; auto. exists q. assumption.
Qed.

(* ------------------------------------------------------------------ what l_scankind does on each class of first character *)
Lemma digit_cases : forall c, digit c = true -> In c [48; 49; 50; 51; 52; 53; 54; 55; 56; 57].
Proof.
  intros c H. unfold digit in H. apply andb_true_iff in H. destruct H as [H1 H2].
  apply N.leb_le in H1. apply N.leb_le in H2. simpl.
  assert (c = 48 \/ c = 49 \/ c = 50 \/ c = 51 \/ c = 52 \/ c = 53 \/ c = 54 \/ c = 55 \/ c = 56 \/ c = 57) by lia.
  intuition.
Qed.

Theorem l_scankind_number : forall n sp x r,
  digit (fst x) = true ->
  l_scankind (S n) sp (x :: r) = LTok TNUMBER (Some (fst x :: fst (l_num false r))) sp (x :: r) (snd (l_num false r)).
Proof.
  intros n sp [c p] r H. simpl fst in *. apply digit_cases in H. simpl in H.
  repeat (destruct H as [<-|H]; [reflexivity|]). contradiction.
Qed.

Theorem l_scankind_dot_number : forall n sp x y r,
  fst x = 46 -> digit (fst y) = true ->
  l_scankind (S n) sp (x :: y :: r) =
  LTok TNUMBER (Some (46 :: fst y :: fst (l_num false r))) sp (x :: y :: r) (snd (l_num false r)).
Proof.
  intros n sp [c p] [d q] r Hc H. simpl fst in *. subst c. apply digit_cases in H. simpl in H.
  repeat (destruct H as [<-|H]; [reflexivity|]). contradiction.
Qed.

Definition letters : list N :=
  [65;66;67;68;69;70;71;72;73;74;75;76;77;78;79;80;81;82;83;84;85;86;87;88;89;90;
   97;98;99;100;101;102;103;104;105;106;107;108;109;110;111;112;113;114;115;116;117;118;119;120;121;122; 95].

Lemma nondigit_cases : forall c, nondigit c = true -> In c letters.
Proof.
  intros c H. unfold nondigit in H.
  apply orb_true_iff in H. destruct H as [H|H].
  - apply orb_true_iff in H. destruct H as [H|H]; apply andb_true_iff in H; destruct H as [H1 H2];
      apply N.leb_le in H1; apply N.leb_le in H2; unfold letters.
    + assert (exists k, (k < 26)%nat /\ c = 65 + N.of_nat k) by (exists (N.to_nat (c - 65)); split; lia).
      destruct H as (k & Hk & ->).
      do 26 (destruct k as [|k]; [simpl; tauto|]). lia.
    + assert (exists k, (k < 26)%nat /\ c = 97 + N.of_nat k) by (exists (N.to_nat (c - 97)); split; lia).
      destruct H as (k & Hk & ->).
      do 26 (destruct k as [|k]; [simpl; tauto|]). lia.
  - apply N.eqb_eq in H. subst. unfold letters. simpl. tauto.
Qed.

(* an identifier that does not start with L, U or u *)
Theorem l_scankind_ident : forall n sp x r,
  nondigit (fst x) = true -> fst x <> 76 -> fst x <> 85 -> fst x <> 117 ->
  l_scankind (S n) sp (x :: r) =
  LTok TIDENT (Some (fst (l_span idchar (x :: r)))) sp (x :: r) (snd (l_span idchar (x :: r))).
Proof.
  intros n sp [c p] r H N1 N2 N3. simpl fst in *. apply nondigit_cases in H. unfold letters in H. simpl in H.
  repeat (destruct H as [<-|H]; [try reflexivity; try congruence|]). contradiction.
Qed.

(* 6.4.4.4, 6.4.5: L, U, u, u8 are encoding prefixes only when a quote follows immediately *)
Definition quote_kind (q : N) : kind := if q =? 39 then TCHARCONST else TSTRINGLIT.

Theorem l_prefix_literal : forall n sp (pa : list achar) aq r2,
  enc_prefix (map fst pa) = true -> (fst aq = 39 \/ fst aq = 34) ->
  l_scankind (S n) sp (pa ++ aq :: r2) =
  l_quote n (fst aq) (quote_kind (fst aq)) (map fst pa ++ [fst aq]) sp (pa ++ aq :: r2) r2.
Proof.
  intros n sp pa [q pq] r2 Hp Hq. simpl fst in *.
  destruct pa as [|[c0 p0] [|[c1 p1] [|x pa]]]; simpl in Hp; try discriminate.
  - (* one-character prefix *)
    assert (In c0 [76; 85; 117]).
    { simpl. destruct (N.eq_dec c0 76) as [->|]; auto. destruct (N.eq_dec c0 85) as [->|]; auto.
      destruct (N.eq_dec c0 117) as [->|]; auto. exfalso.
      destruct c0 as [|pp]; [discriminate|].
      do 7 (destruct pp as [pp|pp|]; try discriminate); congruence. }
    simpl in H. destruct H as [<-|[<-|[<-|[]]]]; destruct Hq as [-> | ->]; reflexivity.
  - (* u8 *)
    assert (c0 = 117 /\ c1 = 56).
    { destruct c0 as [|pp]; [discriminate|].
      do 7 (destruct pp as [pp|pp|]; try discriminate).
      destruct c1 as [|qq]; [discriminate|].
      do 6 (destruct qq as [qq|qq|]; try discriminate). auto. }
    destruct H as [-> ->]. destruct Hq as [-> | ->]; reflexivity.
  - destruct c0 as [|pp]; [discriminate|].
    do 7 (destruct pp as [pp|pp|]; try discriminate).
    destruct c1 as [|qq]; [discriminate|].
    do 6 (destruct qq as [qq|qq|]; try discriminate).
Qed.

Theorem l_prefix_ident : forall n sp x r,
  (fst x = 76 \/ fst x = 85 \/ fst x = 117) ->
  (forall (pa : list achar) aq r2, x :: r = pa ++ aq :: r2 -> enc_prefix (map fst pa) = true ->
                                   fst aq <> 39 /\ fst aq <> 34) ->
  l_scankind (S n) sp (x :: r) =
  LTok TIDENT (Some (fst (l_span idchar (x :: r)))) sp (x :: r) (snd (l_span idchar (x :: r))).
Proof.
  intros n sp [c p] r Hc Hno. simpl fst in *.
  assert (H1 : forall aq r2, r = aq :: r2 -> fst aq <> 39 /\ fst aq <> 34).
  { intros aq r2 ->. apply (Hno [(c, p)] aq r2); [reflexivity|].
    simpl. destruct Hc as [->|[->| ->]]; reflexivity. }
  assert (H2 : c = 117 -> forall a1 aq r2, r = a1 :: aq :: r2 -> fst a1 = 56 -> fst aq <> 39 /\ fst aq <> 34).
  { intros -> a1 aq r2 -> E. apply (Hno [(117, p); a1] aq r2); [reflexivity|]. simpl. rewrite E. reflexivity. }
  destruct r as [|[c1 p1] r1].
  { destruct Hc as [->|[->| ->]]; reflexivity. }
  destruct (H1 _ _ eq_refl) as [A1 A2]. simpl fst in A1, A2.
  assert (E39 : (c1 =? 39) = false) by (apply N.eqb_neq; assumption).
  assert (E34 : (c1 =? 34) = false) by (apply N.eqb_neq; assumption).
  destruct Hc as [->|[->| ->]].
  - cbn. rewrite E39, E34. unfold l_ident. cbn. reflexivity.
  - cbn. rewrite E39, E34. unfold l_ident. cbn. reflexivity.
  - destruct (N.eqb_spec c1 56) as [->|N56].
    + destruct r1 as [|[c2 p2] r2]; [reflexivity|].
      destruct (H2 eq_refl _ _ _ eq_refl eq_refl) as [B1 B2]. simpl fst in B1, B2.
      assert (F39 : (c2 =? 39) = false) by (apply N.eqb_neq; assumption).
      assert (F34 : (c2 =? 34) = false) by (apply N.eqb_neq; assumption).
      cbn. rewrite F39, F34. unfold l_ident. cbn. reflexivity.
    + cbn. apply N.eqb_neq in N56. rewrite N56. cbn. rewrite E39, E34. unfold l_ident. cbn. reflexivity.
Qed.

(* ------------------------------------------------------------------ comments (6.4.9) *)
Theorem l_block_comment_is_space : forall n sp a b r post asp,
  fst a = 47 -> fst b = 42 -> fst asp = 32 -> l_block r = Some post ->
  l_scankind (S n) sp (a :: b :: r) = l_scankind (S n) sp (asp :: post).
Proof.
  intros n sp [ca pa] [cb pb] r post [cs ps] Ha Hb Hs HB. simpl fst in *. subst. cbn. rewrite HB. reflexivity.
Qed.

Theorem l_block_comment_unterminated : forall n sp a b r,
  fst a = 47 -> fst b = 42 -> l_block r = None ->
  l_scankind (S n) sp (a :: b :: r) = LErr ErrEOFInComment.
Proof.
  intros n sp [ca pa] [cb pb] r Ha Hb HB. simpl fst in *. subst. cbn. rewrite HB. reflexivity.
Qed.

Theorem l_line_comment_is_space : forall n sp a b r asp,
  fst a = 47 -> fst b = 47 -> fst asp = 32 ->
  l_scankind (S n) sp (a :: b :: r) = l_scankind (S n) sp (asp :: l_upto_nl r).
Proof.
  intros n sp [ca pa] [cb pb] r [cs ps] Ha Hb Hs. simpl fst in *. subst. cbn. reflexivity.
Qed.

(* extent of a comment: up to the FIRST star-slash; up to (not including) the next new-line *)
Definition has_close (l : list N) : Prop := exists p q, l = p ++ 42 :: 47 :: q.

Lemma l_block_first_close : forall (body : list achar) s t post,
  fst s = 42 -> fst t = 47 -> ~ has_close (map fst body ++ [42]) ->
  l_block (body ++ s :: t :: post) = Some post.
Proof.
  induction body as [|a body IH]; intros s t post Hs Ht Hn.
  - simpl. rewrite Hs, Ht. reflexivity.
  - simpl app. change (l_block (a :: body ++ s :: t :: post))
      with (match body ++ s :: t :: post with
            | [] => None
            | b :: r' => if (fst a =? 42) && (fst b =? 47) then Some r' else l_block (body ++ s :: t :: post)
            end).
    destruct (body ++ s :: t :: post) as [|b r'] eqn:E. { destruct body; discriminate. }
    destruct ((fst a =? 42) && (fst b =? 47)) eqn:C.
    + exfalso. apply andb_true_iff in C. destruct C as [C1 C2]. apply N.eqb_eq in C1. apply N.eqb_eq in C2.
      apply Hn. destruct body as [|b0 body].
      * simpl in E. inversion E; subst. congruence.
      * simpl in E. inversion E; subst. exists [], (map fst body ++ [42]). simpl. now rewrite C1, C2.
    + rewrite <- E. apply IH; auto. intros (p & q & Hpq). apply Hn. exists (fst a :: p), q. simpl. now rewrite Hpq.
Qed.

Lemma l_upto_nl_first : forall (body : list achar) nl post,
  fst nl = 10 -> ~ In 10 (map fst body) -> l_upto_nl (body ++ nl :: post) = nl :: post.
Proof.
  induction body as [|a body IH]; intros nl post Hn Hb; simpl.
  - now rewrite Hn.
  - destruct (N.eqb_spec (fst a) 10) as [E|E]. { exfalso. apply Hb. simpl. auto. }
    apply IH; auto. intros X. apply Hb. simpl. auto.
Qed.

Lemma l_upto_nl_eof : forall (body : list achar), ~ In 10 (map fst body) -> l_upto_nl body = [].
Proof.
  induction body as [|a body IH]; intros Hb; simpl; [reflexivity|].
  destruct (N.eqb_spec (fst a) 10) as [E|E]. { exfalso. apply Hb. simpl. auto. }
  apply IH. intros X. apply Hb. simpl. auto.
Qed.

(* white space is skipped and sets the space flag *)
Theorem l_space_skip : forall n sp a r, wschar (fst a) = true -> l_scankind (S n) sp (a :: r) = l_scankind n true r.
Proof. intros n sp [c p] r H. simpl fst in H. cbn. rewrite H. reflexivity. Qed.
