(* Shape of the reference lexer's results: where a token starts, that it consumes at least its first
   character, and that exactly the tokens starting with a new-line character are TNEWLINE.  Used to show that
   lex_all (which carries an outer fuel) yields the complete token list. *)
From Coq Require Import List NArith ZArith Bool Lia.
From Cproc Require Import Gen.Keywords Model.Scan Spec.Lex Spec.LineSpec Proofs.ScanSim.
Import ListNotations.
Open Scope N_scope.

Definition shape (k : kind) (start rest : list achar) : Prop :=
  match start with
  | a :: r => suffix rest r /\ (k = TNEWLINE <-> fst a = 10) /\ k <> TEOF
  | [] => k = TEOF /\ rest = []
  end.

Lemma shape_intro : forall k a r rest,
  suffix rest r -> k <> TNEWLINE -> k <> TEOF -> fst a <> 10 -> shape k (a :: r) rest.
Proof. intros. simpl. split; [assumption|]. split; [|assumption]. split; intros; contradiction. Qed.

Lemma p_op2_kind : forall r t1 t2, fst (p_op2 r t1 t2) = t1 \/ fst (p_op2 r t1 t2) = t2.
Proof. intros. unfold p_op2. destruct r; auto. destruct (fst a =? 61); auto. Qed.
Lemma p_op3_kind : forall c r t1 t2 t3,
  fst (p_op3 c r t1 t2 t3) = t1 \/ fst (p_op3 c r t1 t2 t3) = t2 \/ fst (p_op3 c r t1 t2 t3) = t3.
Proof. intros. unfold p_op3. destruct r; auto. destruct (fst a =? 61); auto. destruct (fst a =? c); auto. Qed.
Lemma p_op4_kind : forall c r t1 t2 t3 t4,
  fst (p_op4 c r t1 t2 t3 t4) = t1 \/ fst (p_op4 c r t1 t2 t3 t4) = t2 \/
  fst (p_op4 c r t1 t2 t3 t4) = t3 \/ fst (p_op4 c r t1 t2 t3 t4) = t4.
Proof.
  intros. unfold p_op4. destruct r; auto. destruct (fst a =? 61); auto. destruct (fst a =? c); auto.
  destruct r; auto. destruct (fst a0 =? 61); auto.
Qed.

Ltac kind_ne :=
  match goal with
  | |- fst (p_op2 ?r ?t1 ?t2) <> _ => destruct (p_op2_kind r t1 t2) as [X|X]; rewrite X; discriminate
  | |- fst (p_op3 ?c ?r ?t1 ?t2 ?t3) <> _ => destruct (p_op3_kind c r t1 t2 t3) as [X|[X|X]]; rewrite X; discriminate
  | |- fst (p_op4 ?c ?r ?t1 ?t2 ?t3 ?t4) <> _ =>
    destruct (p_op4_kind c r t1 t2 t3 t4) as [X|[X|[X|X]]]; rewrite X; discriminate
  | |- _ => discriminate
  end.

Ltac ne10 E := apply N.eqb_eq in E; try (match goal with c := _ |- _ => unfold c in E end); rewrite E; discriminate.

Lemma l_quote_shape : forall n q k pre sp a r r0 k' lit sp' start rest,
  l_quote n q k pre sp (a :: r) r0 = LTok k' lit sp' start rest ->
  suffix r0 r -> k <> TNEWLINE -> k <> TEOF -> fst a <> 10 ->
  shape k' start rest /\ suffix start (a :: r).
Proof.
  intros n q k pre sp a r r0 k' lit sp' start rest H HS K1 K2 A.
  unfold l_quote in H. destruct (l_quoted n q r0) as [l2 r2| |] eqn:EQ; try discriminate.
  inversion H; subst. split; [|apply suffix_refl].
  apply shape_intro; auto. eapply suffix_trans; [eapply l_quoted_suffix; eauto|exact HS].
Qed.

Lemma l_ident_shape : forall pre sp a r cs k' lit sp' start rest,
  l_ident pre sp (a :: r) cs = LTok k' lit sp' start rest ->
  suffix (snd (l_span idchar cs)) r -> fst a <> 10 ->
  shape k' start rest /\ suffix start (a :: r).
Proof.
  intros pre sp a r cs k' lit sp' start rest H HS A. unfold l_ident in H. inversion H; subst.
  split; [|apply suffix_refl]. apply shape_intro; [exact HS|discriminate|discriminate|exact A].
Qed.

Lemma l_scankind_shape : forall fuel sp av k lit sp' start rest,
  l_scankind fuel sp av = LTok k lit sp' start rest -> shape k start rest /\ suffix start av.
Proof.
  induction fuel; intros sp av k lit sp' start rest H; [discriminate|].
  destruct av as [|a r].
  { simpl in H. inversion H; subst. simpl. split; [auto|apply suffix_refl]. }
  cbn [l_scankind] in H. set (c := fst a) in *.
  destruct (wschar c) eqn:Ews.
  { apply IHfuel in H. destruct H as [H1 H2]. split; [exact H1|now apply suffix_cons]. }
  destruct (c =? 33) eqn:E33.
  { inversion H; subst; clear H. split; [|apply suffix_refl]. apply shape_intro; [apply p_op2_suffix|kind_ne|kind_ne|ne10 E33]. }
  destruct (c =? 34) eqn:E34.
  { eapply l_quote_shape; eauto; try discriminate. apply suffix_refl. ne10 E34. }
  destruct (c =? 35) eqn:E35.
  { destruct (hd_is r 35); inversion H; subst; clear H; (split; [|apply suffix_refl]);
      apply shape_intro; try discriminate; try (ne10 E35); [apply suffix_tl|apply suffix_refl]. }
  destruct (c =? 37) eqn:E37.
  { inversion H; subst; clear H. split; [|apply suffix_refl]. apply shape_intro; [apply p_op2_suffix|kind_ne|kind_ne|ne10 E37]. }
  destruct (c =? 38) eqn:E38.
  { inversion H; subst; clear H. split; [|apply suffix_refl]. apply shape_intro; [apply p_op3_suffix|kind_ne|kind_ne|ne10 E38]. }
  destruct (c =? 39) eqn:E39.
  { eapply l_quote_shape; eauto; try discriminate. apply suffix_refl. ne10 E39. }
  destruct (c =? 42) eqn:E42.
  { inversion H; subst; clear H. split; [|apply suffix_refl]. apply shape_intro; [apply p_op2_suffix|kind_ne|kind_ne|ne10 E42]. }
  destruct (c =? 43) eqn:E43.
  { inversion H; subst; clear H. split; [|apply suffix_refl]. apply shape_intro; [apply p_op3_suffix|kind_ne|kind_ne|ne10 E43]. }
  destruct (c =? 45) eqn:E45.
  { pose proof (p_op3_suffix c r TSUB TSUBASSIGN TDEC) as HS.
    pose proof (p_op3_kind c r TSUB TSUBASSIGN TDEC) as HK.
    destruct (p_op3 c r TSUB TSUBASSIGN TDEC) as [k1 r1]. simpl in HS, HK.
    destruct HK as [->|[->| ->]].
    - destruct (hd_is r1 62); inversion H; subst; clear H; (split; [|apply suffix_refl]);
        apply shape_intro; try discriminate; try (ne10 E45); auto.
      eapply suffix_trans; [apply suffix_tl|exact HS].
    - inversion H; subst; clear H. split; [|apply suffix_refl]. apply shape_intro; try discriminate; auto. ne10 E45.
    - inversion H; subst; clear H. split; [|apply suffix_refl]. apply shape_intro; try discriminate; auto. ne10 E45. }
  destruct (c =? 47) eqn:E47.
  { pose proof (p_op2_suffix r TDIV TDIVASSIGN) as HS.
    pose proof (p_op2_kind r TDIV TDIVASSIGN) as HK.
    destruct (p_op2 r TDIV TDIVASSIGN) as [k1 r1]. simpl in HS, HK.
    destruct HK as [->| ->].
    - destruct (hd_is r1 47).
      { apply IHfuel in H. destruct H as [H1 H2]. split; [exact H1|].
        eapply suffix_trans; [exact H2|]. eapply suffix_trans; [apply l_upto_nl_suffix|]. apply suffix_cons. exact HS. }
      destruct (hd_is r1 42).
      { destruct (l_block (tl r1)) as [rest0|] eqn:EB; [|discriminate].
        apply IHfuel in H. destruct H as [H1 H2]. split; [exact H1|].
        eapply suffix_trans; [exact H2|]. eapply suffix_trans; [eapply l_block_suffix; eauto|].
        eapply suffix_trans; [apply suffix_tl|]. apply suffix_cons. exact HS. }
      inversion H; subst; clear H. split; [|apply suffix_refl]. apply shape_intro; try discriminate; auto. ne10 E47.
    - inversion H; subst; clear H. split; [|apply suffix_refl]. apply shape_intro; try discriminate; auto. ne10 E47. }
  destruct (c =? 60) eqn:E60.
  { inversion H; subst; clear H. split; [|apply suffix_refl]. apply shape_intro; [apply p_op4_suffix|kind_ne|kind_ne|ne10 E60]. }
  destruct (c =? 61) eqn:E61.
  { inversion H; subst; clear H. split; [|apply suffix_refl]. apply shape_intro; [apply p_op2_suffix|kind_ne|kind_ne|ne10 E61]. }
  destruct (c =? 62) eqn:E62.
  { inversion H; subst; clear H. split; [|apply suffix_refl]. apply shape_intro; [apply p_op4_suffix|kind_ne|kind_ne|ne10 E62]. }
  destruct (c =? 94) eqn:E94.
  { inversion H; subst; clear H. split; [|apply suffix_refl]. apply shape_intro; [apply p_op2_suffix|kind_ne|kind_ne|ne10 E94]. }
  destruct (c =? 124) eqn:E124.
  { inversion H; subst; clear H. split; [|apply suffix_refl]. apply shape_intro; [apply p_op3_suffix|kind_ne|kind_ne|ne10 E124]. }
  destruct (c =? 10) eqn:E10.
  { inversion H; subst; clear H. split; [|apply suffix_refl]. simpl. split; [apply suffix_refl|].
    split; [|discriminate]. split; intros _; [apply N.eqb_eq; exact E10|reflexivity]. }
  assert (N10 : fst a <> 10) by (apply N.eqb_neq; exact E10).
  destruct (c =? 91) eqn:E91. { inversion H; subst; clear H. split; [|apply suffix_refl]. apply shape_intro; try discriminate; auto. apply suffix_refl. }
  destruct (c =? 93) eqn:E93. { inversion H; subst; clear H. split; [|apply suffix_refl]. apply shape_intro; try discriminate; auto. apply suffix_refl. }
  destruct (c =? 40) eqn:E40. { inversion H; subst; clear H. split; [|apply suffix_refl]. apply shape_intro; try discriminate; auto. apply suffix_refl. }
  destruct (c =? 41) eqn:E41. { inversion H; subst; clear H. split; [|apply suffix_refl]. apply shape_intro; try discriminate; auto. apply suffix_refl. }
  destruct (c =? 123) eqn:E123. { inversion H; subst; clear H. split; [|apply suffix_refl]. apply shape_intro; try discriminate; auto. apply suffix_refl. }
  destruct (c =? 125) eqn:E125. { inversion H; subst; clear H. split; [|apply suffix_refl]. apply shape_intro; try discriminate; auto. apply suffix_refl. }
  destruct (c =? 46) eqn:E46.
  { destruct (hd_test digit r).
    { inversion H; subst; clear H. split; [|apply suffix_refl]. apply shape_intro; try discriminate; auto.
      eapply suffix_trans; [apply l_num_suffix|apply suffix_tl]. }
    destruct (hd_is r 46); [destruct (hd_is (tl r) 46)|];
      inversion H; subst; clear H; (split; [|apply suffix_refl]); apply shape_intro; try discriminate; auto;
      try apply suffix_refl.
    eapply suffix_trans; apply suffix_tl. }
  destruct (c =? 126) eqn:E126. { inversion H; subst; clear H. split; [|apply suffix_refl]. apply shape_intro; try discriminate; auto. apply suffix_refl. }
  destruct (c =? 63) eqn:E63. { inversion H; subst; clear H. split; [|apply suffix_refl]. apply shape_intro; try discriminate; auto. apply suffix_refl. }
  destruct (c =? 58) eqn:E58.
  { destruct (hd_is r 58); inversion H; subst; clear H; (split; [|apply suffix_refl]);
      apply shape_intro; try discriminate; auto; [apply suffix_tl|apply suffix_refl]. }
  destruct (c =? 59) eqn:E59. { inversion H; subst; clear H. split; [|apply suffix_refl]. apply shape_intro; try discriminate; auto. apply suffix_refl. }
  destruct (c =? 44) eqn:E44. { inversion H; subst; clear H. split; [|apply suffix_refl]. apply shape_intro; try discriminate; auto. apply suffix_refl. }
  destruct ((c =? 76) || (c =? 85) || (c =? 117)) eqn:Epre.
  { set (r1 := if (c =? 117) && hd_is r 56 then tl r else r) in *.
    assert (HS1 : suffix r1 r) by (unfold r1; destruct ((c =? 117) && hd_is r 56); [apply suffix_tl|apply suffix_refl]).
    destruct (hd_is r1 39).
    { eapply l_quote_shape; eauto; try discriminate. eapply suffix_trans; [apply suffix_tl|exact HS1]. }
    destruct (hd_is r1 34).
    { eapply l_quote_shape; eauto; try discriminate. eapply suffix_trans; [apply suffix_tl|exact HS1]. }
    eapply l_ident_shape; eauto. eapply suffix_trans; [apply l_span_suffix|exact HS1]. }
  destruct (digit c) eqn:Edig.
  { inversion H; subst; clear H. split; [|apply suffix_refl]. apply shape_intro; try discriminate; auto. apply l_num_suffix. }
  destruct (nondigit c) eqn:End.
  { eapply l_ident_shape; eauto. simpl.
    assert (idchar (fst a) = true) by (unfold idchar; fold c; now rewrite End).
    rewrite H0. simpl. apply l_span_suffix. }
  inversion H; subst; clear H. split; [|apply suffix_refl]. apply shape_intro; try discriminate; auto. apply suffix_refl.
Qed.

(* the new-line token: the TNEWLINE leaf *)
Lemma l_scankind_newline_start : forall fuel sp av k lit sp' a r rest,
  l_scankind fuel sp av = LTok k lit sp' (a :: r) rest -> (k = TNEWLINE <-> fst a = 10) /\ k <> TEOF.
Proof. intros. apply l_scankind_shape in H. destruct H as [(_ & A & B) _]. auto. Qed.

Lemma l_scankind_progress : forall fuel sp av k lit sp' start rest,
  l_scankind fuel sp av = LTok k lit sp' start rest -> k <> TEOF -> (length rest < length av)%nat.
Proof.
  intros fuel sp av k lit sp' start rest H K. apply l_scankind_shape in H. destruct H as [H1 H2].
  destruct start as [|a r]; simpl in H1. { destruct H1; contradiction. }
  destruct H1 as (S1 & _). apply suffix_len in S1. apply suffix_len in H2. simpl in H2. lia.
Qed.
