(* C11: the locations the scanner / directive() model attaches to tokens are the presumed locations of
   Spec/LineSpec.v. *)
From Coq Require Import List NArith ZArith Bool Lia.
From Cproc Require Import Gen.Keywords Model.Scan Spec.Lex Spec.LineSpec Proofs.ScanSim Proofs.ScanLexShape.
Import ListNotations.
Open Scope N_scope.

(* ------------------------------------------------------------------ the token list without outer fuel *)
Inductive Lexes (sf : nat) : list achar -> list ltoken -> lend -> Prop :=
| Lx_eof : forall av lit sp start rest,
    l_scankind sf false av = LTok TEOF lit sp start rest -> Lexes sf av [] LEndEOF
| Lx_tok : forall av k lit sp start rest l e,
    l_scankind sf false av = LTok k lit sp start rest -> k <> TEOF -> Lexes sf rest l e ->
    Lexes sf av (mkltoken k lit sp start :: l) e
| Lx_err : forall av x, l_scankind sf false av = LErr x -> Lexes sf av [] (LEndErr x)
| Lx_fuel : forall av, l_scankind sf false av = LFuel -> Lexes sf av [] LEndFuel.

Lemma lex_all_Lexes : forall n sf av, (length av < n)%nat ->
  Lexes sf av (fst (lex_all n sf av)) (snd (lex_all n sf av)).
Proof.
  induction n; intros sf av L; [lia|].
  simpl. destruct (l_scankind sf false av) as [k lit sp start rest|x|] eqn:E.
  - assert (D : k = TEOF \/ k <> TEOF) by (destruct k; auto; right; discriminate).
    destruct D as [->|K].
    + simpl. eapply Lx_eof; eauto.
    + assert (P : (length rest < length av)%nat) by (eapply l_scankind_progress; eauto).
      assert (IH : Lexes sf rest (fst (lex_all n sf rest)) (snd (lex_all n sf rest))) by (apply IHn; lia).
      destruct k; try contradiction; simpl; eapply Lx_tok; eauto.
  - simpl. now apply Lx_err.
  - simpl. now apply Lx_fuel.
Qed.

Lemma Lexes_len : forall sf av l e, Lexes sf av l e -> (length l <= length av)%nat.
Proof.
  induction 1; simpl; try lia.
  apply l_scankind_progress in H; auto. lia.
Qed.

(* ------------------------------------------------------------------ no splice directly after a '.' *)
Definition no_dot_splice (text : list N) : Prop := forall pre post, text <> pre ++ 46 :: 92 :: 10 :: post.

Fixpoint adj_ok (av : list achar) : Prop :=
  match av with
  | a :: ((b :: _) as r) => (fst a = 46 -> snd b = nextpos 46 (snd a)) /\ adj_ok r
  | _ => True
  end.

Lemma adj_ok_dot_adj : forall av, adj_ok av -> dot_adj av.
Proof.
  intros av H pre. revert av H. induction pre as [|x pre IH]; intros av H p y q r E.
  - subst av. simpl in H. destruct H as [H _]. apply H. reflexivity.
  - destruct av as [|a av]; [discriminate|]. inversion E; subst.
    apply (IH (pre ++ (46, p) :: (y, q) :: r)) with (y := y) (r := r); auto.
    simpl in H. destruct (pre ++ (46, p) :: (y, q) :: r); [exact I|]. apply H.
Qed.

Lemma no_dot_splice_tl : forall x text, no_dot_splice (x :: text) -> no_dot_splice text.
Proof. intros x text H pre post E. apply (H (x :: pre) post). simpl. now rewrite E. Qed.

Lemma logical_head : forall y r q, ~ (y = 92 /\ exists r', r = 10 :: r') ->
  exists L, phase2a (ann q (y :: r)) = (y, q) :: L.
Proof.
  intros y r q H. simpl ann. destruct (N.eq_dec y 92) as [->|Ne].
  - destruct r as [|z r]; [eexists; reflexivity|].
    simpl ann. eexists. apply phase2a_bs_other. simpl. intros ->. apply H. split; eauto.
  - eexists. apply phase2a_cons_other. exact Ne.
Qed.

Lemma adj_ok_logical : forall n text p, (length text <= n)%nat -> no_dot_splice text -> adj_ok (phase2a (ann p text)).
Proof.
  induction n; intros text p L H.
  - destruct text; [exact I|simpl in L; lia].
  - destruct text as [|x [|y r]]; [exact I|simpl; exact I|].
    simpl ann.
    change (phase2a ((x, p) :: (y, nextpos x p) :: ann (nextpos y (nextpos x p)) r))
      with (if (x =? 92) && (y =? 10) then phase2a (ann (nextpos y (nextpos x p)) r)
            else (x, p) :: phase2a (ann (nextpos x p) (y :: r))).
    destruct ((x =? 92) && (y =? 10)) eqn:E.
    + apply IHn; [simpl in L; lia|]. apply no_dot_splice_tl with y, no_dot_splice_tl with x. exact H.
    + assert (IH : adj_ok (phase2a (ann (nextpos x p) (y :: r)))).
      { apply IHn; [simpl in *; lia|]. apply no_dot_splice_tl with x. exact H. }
      assert (HH : ~ (y = 92 /\ exists r', r = 10 :: r') \/ x <> 46).
      { destruct (N.eq_dec x 46) as [->|]; [|now right]. left. intros (-> & r' & ->). apply (H [] r'). reflexivity. }
      destruct HH as [HH|HH].
      * destruct (logical_head y r (nextpos x p) HH) as (L0 & EL). rewrite EL in *.
        simpl. split; [|exact IH]. simpl. intros ->. reflexivity.
      * destruct (phase2a (ann (nextpos x p) (y :: r))) as [|b L0]; [exact I|].
        simpl. split; [|exact IH]. simpl. intros; contradiction.
Qed.

Lemma dot_adj_logical : forall text, no_dot_splice text -> dot_adj (logical text).
Proof. intros. apply adj_ok_dot_adj. unfold logical, physical. apply (adj_ok_logical (length text)); auto. Qed.

(* ------------------------------------------------------------------ the invariant between two scan() calls *)
Definition Inv (sf : nat) (d : Z) (fl : list N) (s : scanner) (ltoks : list ltoken) (lend : lend) : Prop :=
  exists av sp, Rel true d s av false sp [] fl /\ dot_adj av /\ (length av + 1 < sf)%nat /\ Lexes sf av ltoks lend.

Lemma scan_Inv : forall sf d fl s ltoks lend,
  Inv sf d fl s ltoks lend ->
  match ltoks with
  | lt :: ltoks' =>
    exists t s', scan sf s = Ok (t, s') /\ ltok_match true d fl t lt /\ lkind lt <> TEOF /\
                 Inv sf d fl s' ltoks' lend
  | [] =>
    (exists t s', scan sf s = Ok (t, s') /\ tkind t = TEOF) \/ (exists l m, scan sf s = Error l m)
  end.
Proof.
  intros sf d fl s ltoks lend (av & sp & R & D & L & X).
  pose proof (scan_sim sf true d s av sp fl R L (fun _ => D)) as P.
  inversion X; subst; rewrite H in P.
  - left. destruct P as (t & s' & A & (M1 & _) & _). eauto.
  - destruct P as (t & s' & A & M & R' & S').
    exists t, s'. split; [exact A|]. split; [exact M|]. split; [exact H0|].
    exists rest, sp0. split; [exact R'|]. split; [eapply dot_adj_suffix; eauto|].
    split; [apply suffix_len in S'; lia|exact H1].
  - right. destruct P as (l & A). eauto.
  - contradiction.
Qed.

(* where a (non-EOF) token starts *)
Lemma Lexes_start : forall sf av lt l e, Lexes sf av (lt :: l) e ->
  exists a r, lstart lt = a :: r /\ (lkind lt = TNEWLINE <-> fst a = 10) /\ lkind lt <> TEOF.
Proof.
  intros sf av lt l e X. inversion X; subst. simpl.
  apply l_scankind_shape in H1. destruct H1 as [H1 _].
  destruct start as [|a r]; simpl in H1. { destruct H1; contradiction. }
  destruct H1 as (_ & A & B). eauto.
Qed.

Lemma scan_Inv2 : forall sf d fl s lt ltoks lend,
  Inv sf d fl s (lt :: ltoks) lend ->
  exists t s' a r, scan sf s = Ok (t, s') /\ ltok_match true d fl t lt /\
                   lstart lt = a :: r /\ (lkind lt = TNEWLINE <-> fst a = 10) /\ lkind lt <> TEOF /\
                   Inv sf d fl s' ltoks lend.
Proof.
  intros sf d fl s lt ltoks lend I.
  assert (St : exists a r, lstart lt = a :: r /\ (lkind lt = TNEWLINE <-> fst a = 10) /\ lkind lt <> TEOF).
  { destruct I as (av & sp & _ & _ & _ & X). eapply Lexes_start; eauto. }
  destruct St as (a & r & S1 & S2 & S3).
  pose proof (scan_Inv _ _ _ _ _ _ I) as P. simpl in P.
  destruct P as (t & s' & A & M & _ & I'). exists t, s', a, r. auto 10.
Qed.

Lemma Inv_len : forall sf d fl s ltoks lend, Inv sf d fl s ltoks lend -> (length ltoks + 1 < sf)%nat.
Proof. intros sf d fl s ltoks lend (av & sp & _ & _ & L & X). apply Lexes_len in X. lia. Qed.

(* ------------------------------------------------------------------ locations of single tokens *)
Definition locmatch (e : ploc) (l : location) : Prop :=
  lfile l = fst (fst e) /\ lline l = (snd (fst e) mod M64)%Z /\ lcol l = (snd e mod M64)%Z.

Lemma tok_loc_nonnl : forall d fl t lt a r,
  ltok_match true d fl t lt -> lstart lt = a :: r -> fst a <> 10 ->
  locmatch (fl, (fst (tokpos lt) + d)%Z, snd (tokpos lt)) (tloc t).
Proof.
  intros d fl t lt [x p] r (_ & _ & _ & M) S N. specialize (M eq_refl). rewrite S in M. simpl in M, N.
  unfold tokpos. rewrite S. simpl. rewrite M. unfold locmatch, convline, convcol; simpl.
  apply N.eqb_neq in N. rewrite N. auto.
Qed.

Lemma tok_loc_nl : forall d fl t lt a r,
  ltok_match true d fl t lt -> lstart lt = a :: r -> fst a = 10 ->
  lline (tloc t) = ((fst (tokpos lt) + 1 + d) mod M64)%Z /\ lfile (tloc t) = fl.
Proof.
  intros d fl t lt [x p] r (_ & _ & _ & M) S N. specialize (M eq_refl). rewrite S in M. simpl in M, N. subst x.
  unfold tokpos. rewrite S. simpl. rewrite M. unfold convline; simpl. auto.
Qed.

Lemma tok_file : forall d fl t lt a r, ltok_match true d fl t lt -> lstart lt = a :: r -> lfile (tloc t) = fl.
Proof.
  intros d fl t lt [x p] r (_ & _ & _ & M) S. specialize (M eq_refl). rewrite S in M. simpl in M. now rewrite M.
Qed.

(* scansetloc re-bases the presumed line: the line after physical line q is line n *)
Lemma Rel_setloc : forall d s av sp fl newfile n q,
  Rel true d s av false sp [] fl ->
  Rel true (n - (q + 1))%Z (scansetloc s newfile n ((q + 1 + d) mod M64)%Z) av false sp [] newfile.
Proof.
  intros d s av sp fl newfile n q [HS (A & B & C & E)]. split.
  - destruct av as [|[x p] av]; simpl in *; [exact HS|].
    destruct HS as (H1 & H2 & H3 & H4). repeat split; auto; destruct (H4 H) as (L1 & L2 & L3); auto.
    rewrite L1. rewrite Zplus_mod_idemp_l, Zplus_mod_idemp_r.
    replace (convline x p + d + (n - (q + 1 + d) mod M64))%Z with (convline x p + d + n - (q + 1 + d) mod M64)%Z by lia.
    rewrite Zminus_mod_idemp_r. f_equal. lia.
  - unfold Fr; simpl. auto.
Qed.

(* strtoull(lit, NULL, 10) reads a digit sequence in range exactly *)
Lemma dec_value_mono : forall l a v, dec_value l a = Some v -> (0 <= a)%Z -> (a <= v)%Z.
Proof.
  induction l as [|c l IH]; intros a v H Ha; simpl in H.
  - inversion H; lia.
  - destruct (digit c); [|discriminate]. apply IH in H; lia.
Qed.

Lemma strtoull10_dec : forall l a v, dec_value l a = Some v -> (0 <= a)%Z -> (v < M64)%Z -> strtoull10_aux l a = v.
Proof.
  induction l as [|c l IH]; intros a v H Ha Hv; simpl in H |- *.
  - now inversion H.
  - change (isdigit c) with (digit c). destruct (digit c); [|discriminate].
    pose proof (dec_value_mono _ _ _ H) as Hm.
    assert ((a * 10 + Z.of_N (c - 48) <? M64)%Z = true) by (apply Z.ltb_lt; lia).
    rewrite H0. apply IH; auto. lia.
Qed.

Lemma line_number_strtoull : forall lit n, line_number lit = Some n ->
  strtoull10 (match lit with Some l => l | None => [] end) = n.
Proof.
  intros [l|] n H; [|discriminate H]. destruct l as [|c r]; [discriminate H|].
  unfold line_number in H.
  destruct (dec_value (c :: r) 0) as [v|] eqn:E; [|discriminate].
  destruct (v <=? 2147483647)%Z eqn:Ev; [|discriminate]. inversion H; subst.
  apply Z.leb_le in Ev. unfold strtoull10. apply strtoull10_dec; auto; [lia|unfold M64; lia].
Qed.

Lemma upto_quote_eq : forall l, upto_quote l = upto_dquote l.
Proof. induction l; simpl; [reflexivity|]. destruct (a =? 34); [reflexivity|now rewrite IHl]. Qed.

Lemma file_plain_line_file : forall lit name, file_plain lit = Some name ->
  line_file (match lit with Some l => l | None => [] end) = name.
Proof.
  intros [l|] name H; [|discriminate H]. destruct l as [|c r]; [discriminate H|].
  assert (Hc : c = 34).
  { destruct c as [|pc]; [discriminate H|]. do 6 (destruct pc as [pc|pc|]; try discriminate H). reflexivity. }
  subst c. unfold file_plain in H.
  destruct (existsb (fun c => c =? 92) (upto_dquote r)); [discriminate|].
  inversion H; subst. unfold line_file. simpl. apply upto_quote_eq.
Qed.

(* keyword() changes neither the location nor whether a token is a new-line or the end *)
Lemma bisect_In : forall n tbl s lo hi k, bisect n tbl s lo hi = Some (Some k) -> exists name, In (name, k) tbl.
Proof.
  induction n; intros tbl s lo hi k H; [discriminate H|]. cbn [bisect] in H.
  destruct (Nat.ltb lo hi); [|discriminate].
  destruct (nth_error tbl (Nat.div (lo + hi) 2)) as [[name v]|] eqn:E; [|discriminate].
  destruct (strcmp s name).
  - inversion H; subst. exists name. eapply nth_error_In; eauto.
  - eapply IHn; eauto.
  - eapply IHn; eauto.
Qed.

Lemma keywords_kinds_ok : Forall (fun row : list N * kind => snd row <> TNEWLINE /\ snd row <> TEOF) keywords.
Proof. unfold keywords. repeat constructor; discriminate. Qed.

Lemma keyword_loc : forall t, tloc (keyword t) = tloc t.
Proof.
  intros t. unfold keyword. destruct (tkind t); try reflexivity. destruct (tlit t); try reflexivity.
  destruct (keyword_lookup keywords l) as [[k|]|]; reflexivity.
Qed.

Lemma keyword_kind : forall t,
  (tkind (keyword t) = TNEWLINE <-> tkind t = TNEWLINE) /\ (tkind (keyword t) = TEOF <-> tkind t = TEOF).
Proof.
  intros t. unfold keyword. destruct (tkind t) eqn:K; try (rewrite K; tauto).
  destruct (tlit t); try (rewrite K; tauto).
  destruct (keyword_lookup keywords l) as [[k|]|] eqn:E; try (rewrite K; tauto).
  simpl. unfold keyword_lookup in E. apply bisect_In in E. destruct E as (name & Hin).
  pose proof keywords_kinds_ok as F. rewrite Forall_forall in F. specialize (F _ Hin). simpl in F.
  split; split; intros X; try discriminate; destruct F; contradiction.
Qed.

(* ------------------------------------------------------------------ directive(), nextinto(), next(), the dump *)
Definition W := walk file_plain.

Lemma W_text_cons : forall nl d fl lt l,
  W (MText nl) d fl (lt :: l) =
  match nl, lkind lt with
  | true, THASH => W MHash d fl l
  | _, TNEWLINE => W (MText true) d fl l
  | _, _ => (fl, (fst (tokpos lt) + d)%Z, snd (tokpos lt)) :: W (MText false) d fl l
  end.
Proof. reflexivity. Qed.

Lemma W_num_cons : forall n f so d fl lt l,
  W (MNum n f so) d fl (lt :: l) =
  match lkind lt with
  | TSTRINGLIT => if so then match file_plain (llit lt) with
                             | Some name => W (MNum n (Some name) false) d fl l
                             | None => []
                             end else []
  | TNUMBER => W (MNum n f false) d fl l
  | TNEWLINE => W (MText true) (n - (fst (tokpos lt) + 1))%Z (match f with Some x => x | None => fl end) l
  | _ => []
  end.
Proof. reflexivity. Qed.

Lemma W_hash_cons : forall d fl lt l,
  W MHash d fl (lt :: l) =
  match lkind lt with
  | TNEWLINE => W (MText true) d fl l
  | TNUMBER => match line_number (llit lt) with Some n => W (MNum n None true) d fl l | None => [] end
  | TIDENT => if match llit lt with Some x => list_eqb x LineSpec.s_line | None => false end
              then W MLineKw d fl l else []
  | _ => []
  end.
Proof. reflexivity. Qed.

Lemma W_linekw_cons : forall d fl lt l,
  W MLineKw d fl (lt :: l) =
  match lkind lt with
  | TNUMBER => match line_number (llit lt) with Some n => W (MNum n None true) d fl l | None => [] end
  | _ => []
  end.
Proof. reflexivity. Qed.

Definition Start (lt : ltoken) : Prop :=
  exists a r, lstart lt = a :: r /\ (lkind lt = TNEWLINE <-> fst a = 10).

(* while (tok.kind == TNUMBER) scan(&tok);  -- the current token t is already scanned *)
Lemma flags_sim : forall sf d fl n f fuel ltoks lend lt t s,
  Inv sf d fl s ltoks lend -> ltok_match true d fl t lt -> Start lt -> (length ltoks < fuel)%nat ->
  W (MNum n f false) d fl (lt :: ltoks) = [] \/
  exists tn s' ltn ltoks',
    skip_numbers fuel sf t s = Ok (tn, s') /\ ltok_match true d fl tn ltn /\ lkind ltn = TNEWLINE /\ Start ltn /\
    Inv sf d fl s' ltoks' lend /\
    W (MNum n f false) d fl (lt :: ltoks) = W (MNum n f false) d fl (ltn :: ltoks') /\
    (length ltoks' <= length ltoks)%nat.
Proof.
  intros sf d fl n f. induction fuel; intros ltoks lend lt t s I M SS L; [lia|].
  assert (K : tkind t = lkind lt) by apply M.
  rewrite W_num_cons. simpl skip_numbers. rewrite K.
  destruct (lkind lt) eqn:KL; try (left; reflexivity).
  - (* TNEWLINE *) right. exists t, s, lt, ltoks.
    split; [reflexivity|]. split; [exact M|]. split; [exact KL|]. split; [exact SS|]. split; [exact I|].
    split; [|lia]. rewrite W_num_cons, KL. reflexivity.
  - (* TNUMBER *)
    destruct ltoks as [|lt2 l2]. { left. reflexivity. }
    destruct (scan_Inv2 _ _ _ _ _ _ _ I) as (t2 & s2 & a & r & A & M2 & S2 & N2 & _ & I2).
    rewrite A. simpl bind.
    destruct (IHfuel l2 lend lt2 t2 s2 I2 M2) as [E|(tn & s' & ltn & l' & B1 & B2 & B3 & B4 & B5 & B6 & B7)].
    { exists a, r. auto. }
    { simpl in L; lia. }
    + left. exact E.
    + right. exists tn, s', ltn, l'.
      split; [exact B1|]. split; [exact B2|]. split; [exact B3|]. split; [exact B4|]. split; [exact B5|].
      split; [exact B6|]. simpl. lia.
Qed.

Lemma Inv_setloc : forall sf d fl s ltoks lend newfile n q,
  Inv sf d fl s ltoks lend ->
  Inv sf (n - (q + 1))%Z newfile (scansetloc s newfile n ((q + 1 + d) mod M64)%Z) ltoks lend.
Proof.
  intros sf d fl s ltoks lend newfile n q (av & sp & R & D & L & X).
  exists av, sp. split; [apply (Rel_setloc d s av sp fl newfile n q R)|]. auto.
Qed.

(* flags, scansetloc, new-line: the end of every line directive *)
Lemma line_end_sim : forall sf d fl n f newfile ltoks lend lt t s,
  Inv sf d fl s ltoks lend -> ltok_match true d fl t lt -> Start lt ->
  newfile = match f with Some x => x | None => fl end ->
  W (MNum n f false) d fl (lt :: ltoks) = [] \/
  exists s' d' fl' ltoks',
    bind (skip_numbers sf sf t s) (fun p'' =>
      let t := fst p'' in
      let s := scansetloc (snd p'') newfile n (lline (tloc t)) in
      match tkind t with
      | TNEWLINE => Ok s
      | _ => Error (tloc t) EExpectedNewlineAfterDirective
      end) = Ok s' /\ Inv sf d' fl' s' ltoks' lend /\
    W (MNum n f false) d fl (lt :: ltoks) = W (MText true) d' fl' ltoks' /\ (length ltoks' <= length ltoks)%nat.
Proof.
  intros sf d fl n f newfile ltoks lend lt t s I M SS Hf.
  assert (L : (length ltoks < sf)%nat) by (apply Inv_len in I; lia).
  destruct (flags_sim sf d fl n f sf ltoks lend lt t s I M SS L)
    as [E|(tn & s' & ltn & l' & B1 & B2 & B3 & (an & rn & Sn & En) & B5 & B6 & B7)]; [now left|].
  right. rewrite B1. simpl bind.
  assert (Kn : tkind tn = TNEWLINE) by (destruct B2 as (X & _); now rewrite X).
  rewrite Kn.
  assert (E10 : fst an = 10) by (apply En; exact B3).
  destruct (tok_loc_nl _ _ _ _ _ _ B2 Sn E10) as [TL _].
  rewrite TL.
  exists (scansetloc s' newfile n ((fst (tokpos ltn) + 1 + d) mod M64)%Z), (n - (fst (tokpos ltn) + 1))%Z, newfile, l'.
  split; [reflexivity|]. split; [apply (Inv_setloc sf d fl s' l' lend newfile n (fst (tokpos ltn)) B5)|]. split; [|exact B7].
  rewrite B6, W_num_cons, B3. subst newfile. reflexivity.
Qed.

(* the code after the label `line:`: tnum (already scanned) carries the line number n *)
Lemma line_part_sim : forall sf d fl n ltoks lend tnum s,
  Inv sf d fl s ltoks lend -> strtoull10 (match tlit tnum with Some l => l | None => [] end) = n ->
  W (MNum n None true) d fl ltoks = [] \/
  exists s' d' fl' ltoks',
    line_part sf tnum s = Ok s' /\ Inv sf d' fl' s' ltoks' lend /\
    W (MNum n None true) d fl ltoks = W (MText true) d' fl' ltoks' /\ (length ltoks' < length ltoks)%nat.
Proof.
  intros sf d fl n ltoks lend tnum s I Hn.
  destruct ltoks as [|lt1 l1]. { left. reflexivity. }
  destruct (scan_Inv2 _ _ _ _ _ _ _ I) as (t1 & s1 & a1 & r1 & A1 & M1 & S1 & N1 & E1 & I1).
  assert (K1 : tkind t1 = lkind lt1) by apply M1.
  assert (SS1 : Start lt1) by (exists a1, r1; auto).
  unfold line_part. rewrite Hn, A1. simpl bind. simpl fst. simpl snd. rewrite K1.
  rewrite W_num_cons.
  destruct (lkind lt1) eqn:KL;
    try (left; reflexivity);
    try (match goal with |- context [W (MNum n None false) d fl l1] => idtac end).
  all: try (
    (* not a string literal: no file name *)
    simpl bind;
    assert (Hf : lfile (tloc t1) = match @None (list N) with Some x => x | None => fl end)
      by (simpl; eapply tok_file; eauto);
    destruct (line_end_sim sf d fl n None (lfile (tloc t1)) l1 lend lt1 t1 s1 I1 M1 SS1 Hf)
      as [E|(s' & d' & fl' & l' & B1 & B2 & B3 & B4)];
    [ left; rewrite W_num_cons, KL in E; exact E
    | right; exists s', d', fl', l'; split; [exact B1|]; split; [exact B2|]; split;
      [rewrite W_num_cons, KL in B3; exact B3|simpl; lia] ]).
  (* TSTRINGLIT *)
  destruct (file_plain (llit lt1)) as [name|] eqn:EF; [|left; reflexivity].
  destruct l1 as [|lt2 l2]. { left. reflexivity. }
  destruct (scan_Inv2 _ _ _ _ _ _ _ I1) as (t2 & s2 & a2 & r2 & A2 & M2 & S2 & N2 & E2 & I2).
  rewrite A2. simpl bind. simpl fst. simpl snd.
  assert (Hl : tlit t1 = llit lt1) by apply M1. rewrite Hl.
  rewrite (file_plain_line_file _ _ EF).
  assert (SS2 : Start lt2) by (exists a2, r2; auto).
  destruct (line_end_sim sf d fl n (Some name) name l2 lend lt2 t2 s2 I2 M2 SS2 eq_refl)
    as [E|(s' & d' & fl' & l' & B1 & B2 & B3 & B4)].
  - left. exact E.
  - right. exists s', d', fl', l'. split; [exact B1|]. split; [exact B2|]. split; [exact B3|simpl; lia].
Qed.

Lemma lit_is_line_only : forall t, tlit t = Some LineSpec.s_line ->
  lit_is t s_if = false /\ lit_is t s_ifdef = false /\ lit_is t s_ifndef = false /\ lit_is t s_elif = false /\
  lit_is t s_endif = false /\ lit_is t s_include = false /\ lit_is t s_define = false /\ lit_is t s_undef = false /\
  lit_is t Scan.s_line = true.
Proof. intros t H. unfold lit_is. rewrite H. repeat split; reflexivity. Qed.

(* directive(): '#' at the beginning of a line has just been scanned *)
Lemma directive_sim : forall sf d fl ltoks lend s,
  Inv sf d fl s ltoks lend ->
  W MHash d fl ltoks = [] \/
  exists s' d' fl' ltoks',
    directive sf s = Ok s' /\ Inv sf d' fl' s' ltoks' lend /\
    W MHash d fl ltoks = W (MText true) d' fl' ltoks' /\ (length ltoks' < length ltoks)%nat.
Proof.
  intros sf d fl ltoks lend s I.
  destruct ltoks as [|lt1 l1]. { left. reflexivity. }
  destruct (scan_Inv2 _ _ _ _ _ _ _ I) as (t1 & s1 & a1 & r1 & A1 & M1 & S1 & N1 & E1 & I1).
  assert (K1 : tkind t1 = lkind lt1) by apply M1.
  assert (Hl : tlit t1 = llit lt1) by apply M1.
  unfold directive. rewrite A1. simpl bind. simpl fst. simpl snd. rewrite K1.
  rewrite W_hash_cons.
  destruct (lkind lt1) eqn:KL; try (left; reflexivity).
  - (* empty directive *)
    right. exists s1, d, fl, l1. split; [reflexivity|]. split; [exact I1|]. split; [reflexivity|simpl; lia].
  - (* # line ... *)
    destruct (llit lt1) as [x|] eqn:EL; [|left; reflexivity].
    destruct (list_eqb x LineSpec.s_line) eqn:EX; [|left; reflexivity].
    assert (x = LineSpec.s_line).
    { clear -EX. revert EX. generalize LineSpec.s_line. induction x; destruct l; simpl; intros; try discriminate; auto.
      apply andb_true_iff in EX. destruct EX as [E1 E2]. apply N.eqb_eq in E1. subst. f_equal. auto. }
    subst x.
    destruct (lit_is_line_only t1 Hl) as (F1 & F2 & F3 & F4 & F5 & F6 & F7 & F8 & F9).
    rewrite F1, F2, F3, F4, F5, F6, F7, F8, F9. simpl orb. cbv iota.
    destruct l1 as [|lt2 l2]. { left. reflexivity. }
    destruct (scan_Inv2 _ _ _ _ _ _ _ I1) as (t2 & s2 & a2 & r2 & A2 & M2 & S2 & N2 & E2 & I2).
    assert (K2 : tkind t2 = lkind lt2) by apply M2.
    assert (Hl2 : tlit t2 = llit lt2) by apply M2.
    rewrite A2. simpl bind. simpl fst. simpl snd. rewrite K2. rewrite W_linekw_cons.
    destruct (lkind lt2) eqn:KL2; try (left; reflexivity).
    destruct (line_number (llit lt2)) as [n|] eqn:LN; [|left; reflexivity].
    rewrite <- Hl2 in LN. apply line_number_strtoull in LN.
    destruct (line_part_sim sf d fl n l2 lend t2 s2 I2 LN) as [E|(s' & d' & fl' & l' & B1 & B2 & B3 & B4)].
    + left. exact E.
    + right. exists s', d', fl', l'. split; [exact B1|]. split; [exact B2|]. split; [exact B3|simpl; lia].
  - (* # N ... *)
    destruct (line_number (llit lt1)) as [n|] eqn:LN; [|left; reflexivity].
    rewrite <- Hl in LN. apply line_number_strtoull in LN.
    destruct (line_part_sim sf d fl n l1 lend t1 s1 I1 LN) as [E|(s' & d' & fl' & l' & B1 & B2 & B3 & B4)].
    + left. exact E.
    + right. exists s', d', fl', l'. split; [exact B1|]. split; [exact B2|]. split; [exact B3|simpl; lia].
Qed.

Definition is_nl (k : kind) : bool := match k with TNEWLINE => true | _ => false end.

(* nextinto(): the next token that is not part of a directive *)
Lemma nextinto_sim : forall sf fuel d fl nl ltoks lend s,
  Inv sf d fl s ltoks lend -> (length ltoks < fuel)%nat ->
  W (MText nl) d fl ltoks = [] \/
  exists t s' d' fl' lt ltoks',
    nextinto fuel sf nl s = Ok (t, is_nl (lkind lt), s') /\ ltok_match true d' fl' t lt /\ Start lt /\
    lkind lt <> TEOF /\ Inv sf d' fl' s' ltoks' lend /\ (length ltoks' < length ltoks)%nat /\
    W (MText nl) d fl ltoks =
    (if is_nl (lkind lt) then W (MText true) d' fl' ltoks'
     else (fl', (fst (tokpos lt) + d')%Z, snd (tokpos lt)) :: W (MText false) d' fl' ltoks').
Proof.
  intros sf. induction fuel; intros d fl nl ltoks lend s I L; [lia|].
  destruct ltoks as [|lt1 l1]. { left. reflexivity. }
  destruct (scan_Inv2 _ _ _ _ _ _ _ I) as (t1 & s1 & a1 & r1 & A1 & M1 & S1 & N1 & E1 & I1).
  assert (K1 : tkind t1 = lkind lt1) by apply M1.
  assert (SS1 : Start lt1) by (exists a1, r1; auto).
  simpl nextinto. rewrite A1. simpl bind. simpl fst. simpl snd. rewrite K1.
  rewrite W_text_cons.
  destruct (match nl, lkind lt1 with true, THASH => true | _, _ => false end) eqn:ED.
  - assert (HD : nl = true /\ lkind lt1 = THASH) by (destruct nl; destruct (lkind lt1); try discriminate ED; auto).
    destruct HD as [-> KL]. rewrite KL.
    destruct (directive_sim sf d fl l1 lend s1 I1) as [E|(s' & d' & fl' & l' & B1 & B2 & B3 & B4)].
    { left. exact E. }
    rewrite B1. simpl bind.
    destruct (IHfuel d' fl' true l' lend s' B2) as [E|(t & s'' & d'' & fl'' & lt & l'' & C1 & C2 & C3 & C4 & C5 & C6 & C7)].
    { simpl in L; lia. }
    + left. rewrite B3. exact E.
    + right. exists t, s'', d'', fl'', lt, l''.
      split; [exact C1|]. split; [exact C2|]. split; [exact C3|]. split; [exact C4|]. split; [exact C5|].
      split; [simpl; lia|]. rewrite B3. exact C7.
  - right. exists t1, s1, d, fl, lt1, l1.
    split. { destruct nl; destruct (lkind lt1); try discriminate ED; reflexivity. }
    split; [exact M1|]. split; [exact SS1|]. split; [exact E1|]. split; [exact I1|].
    split; [simpl; lia|].
    destruct nl; destruct (lkind lt1); try discriminate ED; reflexivity.
Qed.

Definition nonnl (t : token) : bool := negb (is_nl (tkind t)).
Definition outs (toks : list token) : list location := map tloc (filter nonnl toks).

Definition prefix_match (spec : list ploc) (got : list location) : Prop :=
  exists pre rest, got = pre ++ rest /\ Forall2 locmatch spec pre.

Lemma prefix_match_nil : forall got, prefix_match [] got.
Proof. intros. exists [], got. split; [reflexivity|constructor]. Qed.

Lemma prefix_match_cons : forall e l spec got, locmatch e l -> prefix_match spec got -> prefix_match (e :: spec) (l :: got).
Proof. intros e l spec got H (pre & rest & -> & F). exists (l :: pre), rest. split; [reflexivity|now constructor]. Qed.

Lemma is_nl_iff : forall k, is_nl k = true <-> k = TNEWLINE.
Proof. intros k; destruct k; simpl; split; intros; try discriminate; auto. Qed.

(* next(): what it returns, as one step of the specification walk *)
Lemma next_sim : forall sf fuel ppnl d fl nl ltoks lend s,
  Inv sf d fl s ltoks lend -> (length ltoks < fuel)%nat ->
  W (MText nl) d fl ltoks = [] \/
  exists t nl' s' d' fl' ltoks',
    next fuel sf ppnl nl s = Ok (t, nl', s') /\ tkind t <> TEOF /\
    Inv sf d' fl' s' ltoks' lend /\ (length ltoks' < length ltoks)%nat /\
    ((nonnl t = false /\ W (MText nl) d fl ltoks = W (MText nl') d' fl' ltoks') \/
     (nonnl t = true /\ exists e, locmatch e (tloc t) /\ W (MText nl) d fl ltoks = e :: W (MText nl') d' fl' ltoks')).
Proof.
  intros sf. induction fuel; intros ppnl d fl nl ltoks lend s I L; [lia|].
  assert (Lsf : (length ltoks < sf)%nat) by (apply Inv_len in I; lia).
  destruct (nextinto_sim sf sf d fl nl ltoks lend s I Lsf)
    as [E|(t & s' & d' & fl' & lt & l' & C1 & C2 & (a & r & S1 & S2) & C4 & C5 & C6 & C7)]; [now left|].
  assert (K : tkind t = lkind lt) by apply C2.
  simpl next. rewrite C1. simpl bind. rewrite K.
  destruct (is_nl (lkind lt)) eqn:NL.
  - (* a new-line token *)
    apply is_nl_iff in NL. rewrite NL.
    destruct ppnl.
    + right. exists (keyword t), true, s', d', fl', l'.
      destruct (keyword_kind t) as [KN KE].
      split; [reflexivity|]. split. { intros X. apply KE in X. congruence. }
      split; [exact C5|]. split; [exact C6|].
      left. split; [|exact C7].
      unfold nonnl. assert (tkind (keyword t) = TNEWLINE) by (apply KN; congruence). now rewrite H.
    + destruct (IHfuel false d' fl' true l' lend s' C5) as [E|(t2 & nl2 & s2 & d2 & fl2 & l2 & D1 & D2 & D3 & D4 & D5)].
      { lia. }
      * left. rewrite C7. exact E.
      * right. exists t2, nl2, s2, d2, fl2, l2. split; [exact D1|]. split; [exact D2|]. split; [exact D3|].
        split; [lia|]. rewrite C7. exact D5.
  - (* an ordinary token *)
    assert (NN : lkind lt <> TNEWLINE) by (intros X; apply is_nl_iff in X; congruence).
    assert (Hm : (match lkind lt, ppnl with TNEWLINE, false => next fuel sf ppnl false s' | _, _ => Ok (keyword t, false, s') end)
                 = Ok (keyword t, false, s')).
    { destruct (lkind lt); try reflexivity. contradiction. }
    rewrite Hm.
    right. exists (keyword t), false, s', d', fl', l'.
    destruct (keyword_kind t) as [KN KE].
    split; [reflexivity|]. split. { intros X. apply KE in X. congruence. }
    split; [exact C5|]. split; [exact C6|].
    right. split.
    { unfold nonnl. destruct (is_nl (tkind (keyword t))) eqn:X; [|reflexivity].
      apply is_nl_iff in X. apply KN in X. congruence. }
    exists (fl', (fst (tokpos lt) + d')%Z, snd (tokpos lt)). split; [|exact C7].
    rewrite keyword_loc. eapply tok_loc_nonnl; eauto.
    intros X. apply S2 in X. contradiction.
Qed.

Lemma dump_unfold : forall n sf t nl s, tkind t <> TEOF ->
  dump (S n) sf t nl s =
  match next sf sf true nl s with
  | Ok (t', nl', s') => let r := dump n sf t' nl' s' in (t :: fst r, snd r)
  | Error l m => ([t], EndError l m)
  | OutOfFuel => ([t], EndFuel)
  | Unsupported => ([t], EndUnsupported)
  end.
Proof. intros n sf t nl s H. simpl. destruct (tkind t); try reflexivity. contradiction. Qed.

Lemma dump_sim : forall sf fuel d fl nl ltoks lend t s,
  Inv sf d fl s ltoks lend -> tkind t <> TEOF -> (length ltoks < fuel)%nat ->
  exists tail, fst (dump fuel sf t nl s) = t :: tail /\ prefix_match (W (MText nl) d fl ltoks) (outs tail).
Proof.
  intros sf. induction fuel; intros d fl nl ltoks lend t s I T L; [lia|].
  rewrite dump_unfold by exact T.
  assert (Lsf : (length ltoks < sf)%nat) by (apply Inv_len in I; lia).
  destruct (next_sim sf sf true d fl nl ltoks lend s I Lsf)
    as [E|(t' & nl' & s' & d' & fl' & l' & C1 & C2 & C3 & C4 & C5)].
  - rewrite E. destruct (next sf sf true nl s) as [[[t' nl'] s']| | |]; simpl; eexists; (split; [reflexivity|apply prefix_match_nil]).
  - rewrite C1. simpl.
    destruct (IHfuel d' fl' nl' l' lend t' s' C3 C2) as (tail' & F1 & F2). { lia. }
    rewrite F1. exists (t' :: tail'). split; [reflexivity|].
    unfold outs. simpl filter.
    destruct C5 as [(N1 & N2)|(N1 & e & N2 & N3)]; rewrite N1.
    + rewrite N2. exact F2.
    + rewrite N3. simpl map. apply prefix_match_cons; auto.
Qed.

Lemma Inv_init : forall name text, no_dot_splice text ->
  Inv (S (S (length text))) 0 name (scanfrom name text)
      (fst (lex_all (S (S (length text))) (S (S (length text))) (logical text)))
      (snd (lex_all (S (S (length text))) (S (S (length text))) (logical text))).
Proof.
  intros name text H. exists (logical text), false.
  pose proof (logical_len text) as LL.
  split; [apply St_scanfrom|]. split; [now apply dot_adj_logical|]. split; [lia|].
  apply lex_all_Lexes. lia.
Qed.

Lemma run_sim : forall f name s ltoks lend,
  Inv f 0 name s ltoks lend ->
  prefix_match (W (MText true) 0 name ltoks)
    (outs (fst (match next f f false true s with
                | Ok (t, nl, s) => dump f f t nl s
                | Error l m => ([], EndError l m)
                | OutOfFuel => ([], EndFuel)
                | Unsupported => ([], EndUnsupported)
                end))).
Proof.
  intros f name s ltoks lend I.
  assert (Lf : (length ltoks < f)%nat) by (apply Inv_len in I; lia).
  destruct (next_sim f f false 0%Z name true _ _ _ I Lf)
    as [E|(t & nl' & s' & d' & fl' & l' & C1 & C2 & C3 & C4 & C5)].
  - rewrite E. apply prefix_match_nil.
  - rewrite C1.
    destruct (dump_sim f f d' fl' nl' l' _ t s' C3 C2) as (tail & F1 & F2). { lia. }
    rewrite F1. unfold outs. simpl filter.
    destruct C5 as [(N1 & N2)|(N1 & e & N2 & N3)]; rewrite N1.
    + rewrite N2. exact F2.
    + rewrite N3. simpl map. apply prefix_match_cons; auto.
Qed.

(* ---- the headline: presumed locations of all tokens of the -E token stream *)
Theorem loc_spec_partial : forall name text,
  no_dot_splice text ->
  prefix_match (expected file_plain name text) (outs (fst (run name text))).
Proof.
  intros name text H.
  assert (E1 : expected file_plain name text =
               W (MText true) 0 name (fst (lex_all (S (S (length text))) (S (S (length text))) (logical text))))
    by (unfold expected, W; reflexivity).
  assert (E2 : run name text =
               match next (S (S (length text))) (S (S (length text))) false true (scanfrom name text) with
               | Ok (t, nl, s) => dump (S (S (length text))) (S (S (length text))) t nl s
               | Error l m => ([], EndError l m)
               | OutOfFuel => ([], EndFuel)
               | Unsupported => ([], EndUnsupported)
               end) by (unfold run; reflexivity).
  rewrite E1, E2. eapply run_sim. apply Inv_init. exact H.
Qed.

(* ---- the raw scanner stream: physical line and column of every token (no directives involved) *)
Lemma lex_all_starts : forall n sf av, Forall Start (fst (lex_all n sf av)).
Proof.
  induction n; intros sf av; simpl; [constructor|].
  destruct (l_scankind sf false av) as [k lit sp start rest|x|] eqn:E; simpl; try constructor.
  assert (HS : k <> TEOF -> Start (mkltoken k lit sp start)).
  { intros K. apply l_scankind_shape in E. destruct E as [E _].
    destruct start as [|a r]; simpl in E. { destruct E; contradiction. }
    destruct E as (_ & A & _). exists a, r. auto. }
  destruct k; simpl; try constructor; try (apply HS; discriminate); apply IHn.
Qed.

Definition phys_match (t : token) (lt : ltoken) (name : list N) : Prop :=
  lkind lt <> TNEWLINE -> locmatch (name, fst (tokpos lt), snd (tokpos lt)) (tloc t).

Theorem scan_loc_spec : forall name text, no_dot_splice text ->
  let f := S (S (length text)) in
  Forall2 (fun t lt => tkind t = lkind lt /\ phys_match t lt name)
          (fst (run_scan name text)) (fst (lex_all f f (logical text))).
Proof.
  intros name text H f. unfold run_scan. fold f.
  pose proof (logical_len text) as LL.
  destruct (scantokens_sim f f true 0 _ _ _ _ (St_scanfrom true name text)) as [F _].
  { unfold f. lia. }
  { intros _. now apply dot_adj_logical. }
  pose proof (lex_all_starts f f (logical text)) as SS.
  revert SS. induction F; intros SS; constructor.
  - inversion SS; subst. destruct H3 as (a & r & S1 & S2).
    split; [apply H0|]. intros NN.
    replace (fst (tokpos y)) with (fst (tokpos y) + 0)%Z by lia.
    eapply tok_loc_nonnl; eauto. intros X. apply S2 in X. contradiction.
  - apply IHF. now inversion SS.
Qed.

(* decidable form of no_dot_splice *)
Fixpoint no_dot_splice_b (text : list N) : bool :=
  match text with
  | a :: r => negb ((a =? 46) && match r with b :: c :: _ => (b =? 92) && (c =? 10) | _ => false end) && no_dot_splice_b r
  | [] => true
  end.

Lemma no_dot_splice_b_sound : forall text, no_dot_splice_b text = true -> no_dot_splice text.
Proof.
  induction text as [|a r IH]; intros H pre post E.
  - destruct pre; discriminate.
  - simpl in H. apply andb_true_iff in H. destruct H as [H1 H2].
    destruct pre as [|x pre]; simpl in E.
    + inversion E; subst. simpl in H1. discriminate.
    + inversion E; subst. apply (IH H2 pre post). reflexivity.
Qed.

(* ------------------------------------------------------------------ the full-strength statement is false *)
Definition mismatch (spec : list ploc) (got : list location) : Prop :=
  exists i e l, nth_error spec i = Some e /\ nth_error got i = Some l /\ ~ locmatch e l.

Lemma Forall2_nth : forall A B (R : A -> B -> Prop) a b i x,
  Forall2 R a b -> nth_error a i = Some x -> exists y, nth_error b i = Some y /\ R x y.
Proof.
  intros A B R a b i x F. revert i. induction F; intros i Hx; destruct i; simpl in *; try discriminate.
  - inversion Hx; subst. eauto.
  - eauto.
Qed.

Lemma mismatch_not_prefix : forall spec got, mismatch spec got -> ~ prefix_match spec got.
Proof.
  intros spec got (i & e & l & H1 & H2 & H3) (pre & rest & -> & F).
  destruct (Forall2_nth _ _ _ _ _ _ _ F H1) as (y & Hy & Ry).
  assert (nth_error (pre ++ rest) i = Some y).
  { rewrite nth_error_app1; auto. apply nth_error_Some. congruence. }
  congruence.
Qed.

(* `..` followed by backslash-new-line and another character: the push-back restores the old location and the
   line count of the splice is lost (x is reported at 1:4, every later line one too low) *)
Definition text_dotdot : list N := (* a..\<nl>x<nl>b c<nl> *) [97; 46; 46; 92; 10; 120; 10; 98; 32; 99; 10].

Theorem loc_spec_refuted_dotdot :
  mismatch (expected file_plain [] text_dotdot) (outs (fst (run [] text_dotdot))).
Proof.
  exists 3%nat, ([], 2%Z, 1%Z), (mkloc [] 1 4).
  split; [vm_compute; reflexivity|]. split; [vm_compute; reflexivity|].
  intros (A & B & C). vm_compute in B. discriminate.
Qed.

(* escape sequences in the file name of #line are not decoded (source XXX) *)
Definition text_file_escape : list N := (* #line 5 "a\\b.c"<nl>x<nl> *) [35; 108; 105; 110; 101; 32; 53; 32; 34; 97; 92; 92; 98; 46; 99; 34; 10; 120; 10].

Theorem loc_spec_refuted_file_escape :
  mismatch (expected file_full [] text_file_escape) (outs (fst (run [] text_file_escape))).
Proof.
  eexists 0%nat, _, _.
  split; [vm_compute; reflexivity|]. split; [vm_compute; reflexivity|].
  intros (A & B & C). vm_compute in A. discriminate.
Qed.

(* new-line tokens carry the location of the character AFTER the new-line (line + 1, column 0) *)
Example newline_token_convention :
  map (fun t => (lline (tloc t), lcol (tloc t))) (fst (run_scan [] [97; 10; 98])) = [(1, 1); (2, 0); (2, 1)]%Z.
Proof. vm_compute. reflexivity. Qed.

(* ------------------------------------------------------------------ non-vacuity *)
Definition locmatchb (e : ploc) (l : location) : bool :=
  list_eqb (lfile l) (fst (fst e)) && (lline l =? snd (fst e) mod M64)%Z && (lcol l =? snd e mod M64)%Z.
Fixpoint locsb (a : list ploc) (b : list location) : bool :=
  match a, b with
  | [], [] => true
  | x :: a', y :: b' => locmatchb x y && locsb a' b'
  | _, _ => false
  end.

(* marker with flags, blank line, multi-line comment, splice inside a line, #line, `..` without splice *)
Definition text_sample : list N := [35; 32; 55; 32; 34; 102; 46; 104; 34; 32; 49; 10; 10; 47; 42; 32; 99; 10; 32; 42; 47; 32; 120; 32; 92; 10; 32; 121; 10; 35; 108; 105; 110; 101; 32; 49; 48; 48; 10; 122; 46; 46; 119; 10].

Definition f_h : list N := [102; 46; 104].

Example nonvacuous_loc :
  no_dot_splice_b text_sample = true /\
  locsb (expected file_plain [109] text_sample) (outs (fst (run [109] text_sample))) = true /\
  expected file_plain [109] text_sample =
    [(f_h, 9%Z, 5%Z); (f_h, 10%Z, 2%Z); (f_h, 100%Z, 1%Z); (f_h, 100%Z, 2%Z); (f_h, 100%Z, 3%Z); (f_h, 100%Z, 4%Z)].
Proof. vm_compute. auto. Qed.
