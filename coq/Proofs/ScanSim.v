(* The scanner model (Model/Scan.v) refines the reference lexer (Spec/Lex.v).

   `St strict delta s av` relates a scanner state to the annotated logical character stream `av` it is about to
   deliver: the look-ahead is the head, the rest is phase 2 of the unread bytes.  With strict = true the relation
   also says that `s->loc` is the (presumed) position of the look-ahead and that the annotations are the physical
   positions of the unread bytes (used for C11); with strict = false only the characters matter (C13). *)
From Coq Require Import List NArith ZArith Bool Lia.
From Cproc Require Import Gen.Keywords Model.Scan Spec.Lex Spec.LineSpec.
Import ListNotations.
Open Scope N_scope.

Definition convline (x : N) (p : pos) : Z := if x =? 10 then (fst p + 1)%Z else fst p.
Definition convcol (x : N) (p : pos) : Z := if x =? 10 then 0%Z else snd p.

Definition St (strict : bool) (delta : Z) (s : scanner) (av : list achar) : Prop :=
  match av with
  | [] => chr s = None /\ file s = []
  | (x, p) :: av' =>
    chr s = Some x /\ (x = 92 -> forall r, file s <> 10 :: r) /\ map fst av' = phase2 (file s) /\
    (strict = true ->
       lline (sloc s) = ((convline x p + delta) mod M64)%Z /\
       lcol (sloc s) = (convcol x p mod M64)%Z /\
       av' = phase2a (ann (nextpos x p) (file s)))
  end.

(* ------------------------------------------------------------------ phase 2 and annotations *)
Lemma map_fst_ann : forall f p, map fst (ann p f) = f.
Proof. induction f; intros; simpl; [reflexivity|]. now rewrite IHf. Qed.

Lemma phase2_cons_other : forall x f, x <> 92 -> phase2 (x :: f) = x :: phase2 f.
Proof.
  intros x f H. destruct f as [|y f]; simpl; [reflexivity|].
  destruct (N.eqb_spec x 92); [contradiction|]. reflexivity.
Qed.

Lemma phase2_bs_other : forall y f, y <> 10 -> phase2 (92 :: y :: f) = 92 :: phase2 (y :: f).
Proof.
  intros y f H. change (phase2 (92 :: y :: f)) with (if (92 =? 92) && (y =? 10) then phase2 f else 92 :: phase2 (y :: f)).
  destruct (N.eqb_spec y 10); [contradiction|]. reflexivity.
Qed.

Lemma phase2a_cons_other : forall a f, fst a <> 92 -> phase2a (a :: f) = a :: phase2a f.
Proof.
  intros x f H. destruct f as [|y f]; simpl; [reflexivity|].
  destruct (N.eqb_spec (fst x) 92); [contradiction|]. reflexivity.
Qed.

Lemma phase2a_bs_other : forall a b f, fst b <> 10 -> phase2a (a :: b :: f) = a :: phase2a (b :: f).
Proof.
  intros a b f H. change (phase2a (a :: b :: f)) with (if (fst a =? 92) && (fst b =? 10) then phase2a f else a :: phase2a (b :: f)).
  destruct (N.eqb_spec (fst b) 10); [contradiction|]. now rewrite andb_false_r.
Qed.

Lemma map_fst_phase2a : forall n l, (length l <= n)%nat -> map fst (phase2a l) = phase2 (map fst l).
Proof.
  induction n; intros l H.
  - destruct l; [reflexivity|simpl in H; lia].
  - destruct l as [|a [|b r]]; try reflexivity.
    change (phase2a (a :: b :: r)) with (if (fst a =? 92) && (fst b =? 10) then phase2a r else a :: phase2a (b :: r)).
    change (phase2 (map fst (a :: b :: r))) with
        (if (fst a =? 92) && (fst b =? 10) then phase2 (map fst r) else fst a :: phase2 (map fst (b :: r))).
    destruct ((fst a =? 92) && (fst b =? 10)).
    + apply IHn. simpl in H. lia.
    + change (map fst (a :: phase2a (b :: r))) with (fst a :: map fst (phase2a (b :: r))).
      f_equal. apply IHn. simpl in *. lia.
Qed.

Lemma map_fst_logical : forall p f, map fst (phase2a (ann p f)) = phase2 f.
Proof. intros. rewrite (map_fst_phase2a (length (ann p f))) by lia. now rewrite map_fst_ann. Qed.

(* ------------------------------------------------------------------ getloop *)
Lemma inc64_mod : forall a, inc64 (a mod M64) = ((a + 1) mod M64)%Z.
Proof. intros. unfold inc64. now rewrite Zplus_mod_idemp_l. Qed.

Lemma M64_pos : (0 < M64)%Z. Proof. reflexivity. Qed.

Lemma getloop_full : forall n f p delta, (length f <= n)%nat ->
  match phase2a (ann p f) with
  | [] => exists l' c', getloop f ((fst p + delta) mod M64)%Z ((snd p - 1) mod M64)%Z = (None, [], l', c')
  | (x, q) :: rest =>
    exists f', getloop f ((fst p + delta) mod M64)%Z ((snd p - 1) mod M64)%Z
               = (Some x, f', ((convline x q + delta) mod M64)%Z, (convcol x q mod M64)%Z) /\
               rest = phase2a (ann (nextpos x q) f') /\ (x = 92 -> forall r, f' <> 10 :: r)
  end.
Proof.
  induction n; intros f p delta H.
  - destruct f; [|simpl in H; lia]. simpl. eauto.
  - destruct f as [|x f]. { simpl. eauto. }
    assert (Hc : forall a, inc64 ((a - 1) mod M64) = (a mod M64)%Z).
    { intros. rewrite inc64_mod. f_equal. lia. }
    destruct (N.eqb_spec x 10) as [E10|N10].
    + subst x. simpl ann. rewrite phase2a_cons_other by (simpl; discriminate).
      exists f. simpl getloop. unfold convline, convcol, nextpos; simpl.
      rewrite inc64_mod.
      replace (fst p + delta + 1)%Z with (fst p + 1 + delta)%Z by lia.
      repeat split; try discriminate.
    + destruct (N.eqb_spec x 92) as [E92|N92].
      * subst x. destruct f as [|y f].
        { simpl. exists []. unfold convline, convcol; simpl. rewrite Hc. repeat split. intros _ r; discriminate. }
        destruct (N.eqb_spec y 10) as [Ey|Ny].
        -- subst y. simpl ann.
           change (phase2a ((92, p) :: (10, nextpos 92 p) :: ann (nextpos 10 (nextpos 92 p)) f))
             with (phase2a (ann (nextpos 10 (nextpos 92 p)) f)).
           simpl getloop.
           specialize (IHn f (nextpos 10 (nextpos 92 p)) delta).
           unfold nextpos in *; simpl in *.
           rewrite inc64_mod.
           replace ((fst p + delta + 1) mod M64)%Z with ((fst p + 1 + delta) mod M64)%Z by (f_equal; lia).
           change 0%Z with ((1 - 1) mod M64)%Z at 1.
           apply IHn. lia.
        -- simpl ann. rewrite phase2a_bs_other by (simpl; assumption).
           exists (y :: f). simpl getloop.
           destruct (N.eqb_spec y 10); [contradiction|].
           unfold convline, convcol, nextpos; simpl. rewrite Hc. repeat split.
           intros _ r Hr. inversion Hr. contradiction.
      * simpl ann. rewrite phase2a_cons_other by (simpl; assumption).
        exists f. simpl getloop.
        destruct (N.eqb_spec x 10); [contradiction|]. destruct (N.eqb_spec x 92); [contradiction|].
        unfold convline, convcol, nextpos.
        destruct (N.eqb_spec x 10); [contradiction|]. simpl. rewrite Hc. repeat split. intros; contradiction.
Qed.

(* the characters delivered do not depend on the location counters *)
Lemma getloop_indep : forall n f l c l2 c2, (length f <= n)%nat ->
  fst (fst (getloop f l c)) = fst (fst (getloop f l2 c2)).
Proof.
  induction n; intros f l c l2 c2 H.
  - destruct f; [reflexivity|simpl in H; lia].
  - destruct f as [|x f]; [reflexivity|]. simpl.
    destruct (x =? 10); [reflexivity|]. destruct (x =? 92); [|reflexivity].
    destruct f as [|y f]; [reflexivity|]. destruct (y =? 10); [|reflexivity].
    apply IHn. simpl in H. lia.
Qed.

Lemma getloop_chars : forall f l c,
  match phase2 f with
  | [] => exists l' c', getloop f l c = (None, [], l', c')
  | x :: rest => exists f' l' c', getloop f l c = (Some x, f', l', c') /\ rest = phase2 f' /\ (x = 92 -> forall r, f' <> 10 :: r)
  end.
Proof.
  intros f l c.
  pose proof (getloop_full (length f) f (1, 1)%Z 0%Z (le_n _)) as H.
  pose proof (map_fst_logical (1,1)%Z f) as Hm.
  pose proof (getloop_indep (length f) f l c ((fst (1,1) + 0) mod M64)%Z ((snd (1,1) - 1) mod M64)%Z (le_n _)) as Hi.
  destruct (phase2a (ann (1, 1)%Z f)) as [|[x q] rest].
  - simpl in Hm. rewrite <- Hm. destruct H as (l' & c' & H). rewrite H in Hi.
    destruct (getloop f l c) as [[[a b] l1] c1]. simpl in Hi. inversion Hi; subst. eauto.
  - simpl in Hm. rewrite <- Hm. destruct H as (f' & H & Hr & Hw). rewrite H in Hi.
    destruct (getloop f l c) as [[[a b] l1] c1]. simpl in Hi. inversion Hi; subst.
    exists f', l1, c1. repeat split; auto. now rewrite map_fst_logical.
Qed.

(* ------------------------------------------------------------------ nextchar *)
(* the part of the state the scanning functions read besides the stream *)
Definition Fr (s : scanner) (ub sp : bool) (bf fl : list N) : Prop :=
  usebuf s = ub /\ sawspace s = sp /\ buf s = bf /\ lfile (sloc s) = fl.

Lemma nextchar_cons : forall b d s x p av ub sp bf fl,
  St b d s ((x, p) :: av) -> Fr s ub sp bf fl ->
  St b d (nextchar s) av /\ Fr (nextchar s) ub sp (if ub then bf ++ [x] else bf) fl.
Proof.
  intros b d s x p av ub sp bf fl (Hc & Hw & Hm & Hs) (Hu & Hsp & Hb & Hf).
  unfold nextchar.
  destruct b.
  - destruct (Hs eq_refl) as (Hl & Hcol & Hav).
    pose proof (getloop_full (length (file s)) (file s) (nextpos x p) d (le_n _)) as G.
    rewrite <- Hav in G.
    assert (EL : lline (sloc s) = ((fst (nextpos x p) + d) mod M64)%Z).
    { rewrite Hl. unfold convline, nextpos. destruct (x =? 10); reflexivity. }
    assert (EC : lcol (sloc s) = ((snd (nextpos x p) - 1) mod M64)%Z).
    { rewrite Hcol. unfold convcol, nextpos. destruct (x =? 10); simpl; [reflexivity|]. f_equal. lia. }
    rewrite <- EL, <- EC in G.
    destruct av as [|[y q] av'].
    + destruct G as (l' & c' & G). rewrite G. split.
      * unfold St; simpl; auto.
      * unfold Fr; simpl. rewrite Hu, Hsp, Hb, Hf, Hc. destruct ub; auto.
    + destruct G as (f' & G & Gr & Gw). rewrite G. split.
      * unfold St; simpl. repeat split; auto.
        subst av'. now rewrite map_fst_logical.
      * unfold Fr; simpl. rewrite Hu, Hsp, Hb, Hf, Hc. destruct ub; auto.
  - pose proof (getloop_chars (file s) (lline (sloc s)) (lcol (sloc s))) as G.
    rewrite <- Hm in G.
    destruct av as [|[y q] av'].
    + simpl in G. destruct G as (l' & c' & G). rewrite G. split.
      * unfold St; simpl; auto.
      * unfold Fr; simpl. rewrite Hu, Hsp, Hb, Hf, Hc. destruct ub; auto.
    + simpl in G. destruct G as (f' & l' & c' & G & Gr & Gw). rewrite G. split.
      * unfold St; simpl. repeat split; auto; discriminate.
      * unfold Fr; simpl. rewrite Hu, Hsp, Hb, Hf, Hc. destruct ub; auto.
Qed.

Lemma nextchar_nil : forall b d s ub sp bf fl,
  St b d s [] -> Fr s ub sp bf fl ->
  St b d (nextchar s) [] /\ Fr (nextchar s) ub sp (if ub then bf ++ [255] else bf) fl.
Proof.
  intros b d s ub sp bf fl (Hc & Hfile) (Hu & Hsp & Hb & Hf).
  unfold nextchar. rewrite Hfile. simpl. split; [split; reflexivity|].
  unfold Fr; simpl. rewrite Hu, Hsp, Hb, Hf, Hc. destruct ub; auto.
Qed.

Lemma St_chr : forall b d s av, St b d s av -> chr s = match av with a :: _ => Some (fst a) | [] => None end.
Proof. intros b d s [|[x p] av] H; simpl in *; tauto. Qed.

Lemma chr_is_hd : forall b d s av k, St b d s av -> chr_is s k = hd_is av k.
Proof. intros. unfold chr_is. rewrite (St_chr _ _ _ _ H). destruct av; reflexivity. Qed.

Lemma chr_test_hd : forall b d s av f, St b d s av -> chr_test f s = hd_test f av.
Proof. intros. unfold chr_test. rewrite (St_chr _ _ _ _ H). destruct av; reflexivity. Qed.

(* nextchar on any stream *)
Lemma nextchar_tl : forall b d s av ub sp bf fl,
  St b d s av -> Fr s ub sp bf fl ->
  St b d (nextchar s) (tl av) /\
  Fr (nextchar s) ub sp (if ub then bf ++ [match av with a :: _ => fst a | [] => 255 end] else bf) fl.
Proof.
  intros. destruct av as [|[x p] av].
  - now apply nextchar_nil.
  - simpl. eapply nextchar_cons; eauto.
Qed.

(* ------------------------------------------------------------------ the relation used by all simulation lemmas *)
Definition Rel (b : bool) (d : Z) (s : scanner) (av : list achar) (ub sp : bool) (bf fl : list N) : Prop :=
  St b d s av /\ Fr s ub sp bf fl.

Definition hdc (av : list achar) : N := match av with a :: _ => fst a | [] => 255 end.

Lemma Rel_next : forall b d s av ub sp bf fl,
  Rel b d s av ub sp bf fl ->
  Rel b d (nextchar s) (tl av) ub sp (if ub then bf ++ [hdc av] else bf) fl.
Proof. intros b d s av ub sp bf fl [H1 H2]. unfold Rel. now apply nextchar_tl. Qed.

Lemma Rel_next_nb : forall b d s av sp bf fl,
  Rel b d s av false sp bf fl -> Rel b d (nextchar s) (tl av) false sp bf fl.
Proof. intros. now apply Rel_next in H. Qed.

Lemma Rel_next_ub : forall b d s a r sp bf fl,
  Rel b d s (a :: r) true sp bf fl -> Rel b d (nextchar s) r true sp (bf ++ [fst a]) fl.
Proof. intros. now apply Rel_next in H. Qed.

Lemma Rel_chr_is : forall b d s av ub sp bf fl k, Rel b d s av ub sp bf fl -> chr_is s k = hd_is av k.
Proof. intros b d s av ub sp bf fl k [H _]. eapply chr_is_hd; eauto. Qed.

Lemma Rel_chr_test : forall b d s av ub sp bf fl f, Rel b d s av ub sp bf fl -> chr_test f s = hd_test f av.
Proof. intros b d s av ub sp bf fl k [H _]. eapply chr_test_hd; eauto. Qed.

Lemma Rel_chr : forall b d s av ub sp bf fl, Rel b d s av ub sp bf fl ->
  chr s = match av with a :: _ => Some (fst a) | [] => None end.
Proof. intros b d s av ub sp bf fl [H _]. eapply St_chr; eauto. Qed.

Lemma Rel_set_usebuf : forall b d s av ub sp bf fl,
  Rel b d s av ub sp bf fl -> Rel b d (set_usebuf s) av true sp bf fl.
Proof.
  intros b d s av ub sp bf fl [H (A & B & C & D)]. split.
  - destruct av as [|[x p] av]; simpl in *; auto.
  - unfold Fr; simpl; auto.
Qed.

Lemma Rel_set_sawspace : forall b d s av ub sp bf fl,
  Rel b d s av ub sp bf fl -> Rel b d (set_sawspace s) av ub true bf fl.
Proof.
  intros b d s av ub sp bf fl [H (A & B & C & D)]. split.
  - destruct av as [|[x p] av]; simpl in *; auto.
  - unfold Fr; simpl; auto.
Qed.

(* ------------------------------------------------------------------ op2 / op3 / op4 *)
Lemma op2_sim : forall b d s a r sp fl t1 t2,
  Rel b d s (a :: r) false sp [] fl ->
  exists s', op2 s t1 t2 = (fst (p_op2 r t1 t2), s') /\ Rel b d s' (snd (p_op2 r t1 t2)) false sp [] fl.
Proof.
  intros b d s a r sp fl t1 t2 H. apply Rel_next_nb in H. simpl in H.
  unfold op2, p_op2. rewrite (Rel_chr_is _ _ _ _ _ _ _ _ 61 H).
  destruct r as [|c r']; simpl.
  - eauto.
  - destruct (fst c =? 61); simpl; eauto. apply Rel_next_nb in H. eauto.
Qed.

Lemma chr_same_hd : forall b d s av ub sp bf fl x, Rel b d s av ub sp bf fl -> chr_same s (Some x) = hd_is av x.
Proof.
  intros. unfold chr_same. rewrite (Rel_chr _ _ _ _ _ _ _ _ H). destruct av; reflexivity.
Qed.

Lemma op3_sim : forall b d s a r sp fl t1 t2 t3,
  Rel b d s (a :: r) false sp [] fl ->
  exists s', op3 s t1 t2 t3 = (fst (p_op3 (fst a) r t1 t2 t3), s') /\
             Rel b d s' (snd (p_op3 (fst a) r t1 t2 t3)) false sp [] fl.
Proof.
  intros b d s a r sp fl t1 t2 t3 H.
  pose proof (Rel_chr _ _ _ _ _ _ _ _ H) as Hc. simpl in Hc.
  apply Rel_next_nb in H. simpl in H.
  unfold op3, p_op3. rewrite Hc. rewrite (Rel_chr_is _ _ _ _ _ _ _ _ 61 H).
  rewrite (chr_same_hd _ _ _ _ _ _ _ _ (fst a) H).
  destruct r as [|c r']; simpl.
  - eauto.
  - destruct (fst c =? 61); simpl. { apply Rel_next_nb in H. eauto. }
    destruct (fst c =? fst a); simpl; eauto. apply Rel_next_nb in H. eauto.
Qed.

Lemma op4_sim : forall b d s a r sp fl t1 t2 t3 t4,
  Rel b d s (a :: r) false sp [] fl ->
  exists s', op4 s t1 t2 t3 t4 = (fst (p_op4 (fst a) r t1 t2 t3 t4), s') /\
             Rel b d s' (snd (p_op4 (fst a) r t1 t2 t3 t4)) false sp [] fl.
Proof.
  intros b d s a r sp fl t1 t2 t3 t4 H.
  pose proof (Rel_chr _ _ _ _ _ _ _ _ H) as Hc. simpl in Hc.
  apply Rel_next_nb in H. simpl in H.
  unfold op4, p_op4. rewrite Hc. rewrite (Rel_chr_is _ _ _ _ _ _ _ _ 61 H).
  rewrite (chr_same_hd _ _ _ _ _ _ _ _ (fst a) H).
  destruct r as [|c r']; simpl.
  - eauto.
  - destruct (fst c =? 61); simpl. { apply Rel_next_nb in H. eauto. }
    destruct (fst c =? fst a); simpl; eauto.
    apply Rel_next_nb in H. simpl in H. rewrite (Rel_chr_is _ _ _ _ _ _ _ _ 61 H).
    destruct r' as [|e r'']; simpl; eauto.
    destruct (fst e =? 61); simpl; eauto. apply Rel_next_nb in H. eauto.
Qed.

(* ------------------------------------------------------------------ character classes *)
Lemma isalnum_idchar : forall c, isalnum c || (c =? 95) = idchar c.
Proof.
  intros. unfold isalnum, isalpha, isupper, islower, isdigit, idchar, nondigit, digit.
  destruct (65 <=? c), (c <=? 90), (97 <=? c), (c <=? 122), (c =? 95), (48 <=? c), (c <=? 57); reflexivity.
Qed.

Lemma isalnum_idchar' : forall c, (c =? 95) = false -> isalnum c = idchar c.
Proof. intros. rewrite <- isalnum_idchar. rewrite H. now rewrite orb_false_r. Qed.

Lemma isxdigit_hexdigit : forall c, isxdigit c = hexdigit c. Proof. reflexivity. Qed.
Lemma isodigit_octdigit : forall c, isodigit c = octdigit c. Proof. reflexivity. Qed.
Lemma isdigit_digit : forall c, isdigit c = digit c. Proof. reflexivity. Qed.
Lemma simple_escape_esc : forall c, simple_escape c = simple_esc c. Proof. reflexivity. Qed.
Lemma isalpha_nondigit : forall c, isalpha c || (c =? 95) = nondigit c.
Proof. reflexivity. Qed.

Lemma l_span_len : forall f cs, (length (snd (l_span f cs)) <= length cs)%nat.
Proof. induction cs; simpl; [lia|]. destruct (f (fst a)); simpl; lia. Qed.

(* ------------------------------------------------------------------ ident *)
Lemma ident_loop_sim : forall fuel b d s av sp bf fl,
  Rel b d s av true sp bf fl -> (length av < fuel)%nat ->
  exists s', ident_loop fuel s = Ok s' /\
             Rel b d s' (snd (l_span idchar av)) true sp (bf ++ fst (l_span idchar av)) fl.
Proof.
  induction fuel; intros b d s av sp bf fl H L; [lia|].
  simpl. rewrite (Rel_chr_test _ _ _ _ _ _ _ _ isalnum H), (Rel_chr_is _ _ _ _ _ _ _ _ 95 H).
  destruct av as [|a r]; simpl.
  - exists s. rewrite app_nil_r. auto.
  - rewrite isalnum_idchar. destruct (idchar (fst a)) eqn:E; simpl.
    + apply Rel_next_ub in H. destruct (IHfuel _ _ _ _ _ _ _ H) as (s' & A & B). { simpl in L; lia. }
      exists s'. split; auto. rewrite <- app_assoc in B. exact B.
    + exists s. rewrite app_nil_r. auto.
Qed.

(* ------------------------------------------------------------------ number *)
Lemma number_loop_sim : forall fuel b d s a r allow sp bf fl,
  Rel b d s (a :: r) true sp bf fl -> (length r < fuel)%nat ->
  exists s', number_loop fuel allow s = Ok s' /\
             Rel b d s' (snd (l_num allow r)) true sp (bf ++ fst a :: fst (l_num allow r)) fl.
Proof.
  induction fuel; intros b d s a r allow sp bf fl H L; [lia|].
  apply Rel_next_ub in H.
  simpl number_loop.
  rewrite !(Rel_chr_is _ _ _ _ _ _ _ _ _ H), (Rel_chr_test _ _ _ _ _ _ _ _ isalnum H).
  destruct r as [|a2 r2]; simpl.
  - exists (nextchar s). auto.
  - change ((fst a2 =? 101) || (fst a2 =? 69) || (fst a2 =? 112) || (fst a2 =? 80)) with (expchar (fst a2)).
    change ((fst a2 =? 43) || (fst a2 =? 45)) with (signchar (fst a2)).
    assert (Fix : forall al, exists s', number_loop fuel al (nextchar s) = Ok s' /\
              Rel b d s' (snd (cons1 (fst a2) (l_num al r2))) true sp (bf ++ fst a :: fst (cons1 (fst a2) (l_num al r2))) fl).
    { intros al. destruct (IHfuel _ _ _ _ _ al _ _ _ H) as (s' & A & B). { simpl in L; lia. }
      exists s'. split; auto. simpl. rewrite <- app_assoc in B. exact B. }
    destruct (expchar (fst a2)); [apply Fix|].
    destruct (signchar (fst a2)).
    { destruct allow; simpl; [apply Fix|]. exists (nextchar s). auto. }
    destruct ((fst a2 =? 95) || (fst a2 =? 46)) eqn:E; [apply Fix|].
    apply orb_false_iff in E. destruct E as [E _].
    rewrite (isalnum_idchar' _ E).
    destruct (idchar (fst a2)); simpl; [apply Fix|]. exists (nextchar s). auto.
Qed.

(* ------------------------------------------------------------------ escape / quoted literals *)
Definition msg_of_lerr (e : lerr) : msg :=
  match e with
  | ErrHexEscape => EInvalidHexEscape
  | ErrEscape => EInvalidEscape
  | ErrNullIn q => if q =? 39 then ENullInChar else ENullInString
  | ErrNewlineIn q => if q =? 39 then ENewlineInChar else ENewlineInString
  | ErrEOFIn q => if q =? 39 then EEOFInChar else EEOFInString
  | ErrEOFInComment => Scan.EEOFInComment
  end.

Lemma xdigits_loop_sim : forall fuel b d s a r sp bf fl,
  Rel b d s (a :: r) true sp bf fl -> (length r < fuel)%nat ->
  exists s', xdigits_loop fuel s = Ok s' /\
             Rel b d s' (snd (l_span hexdigit r)) true sp (bf ++ fst a :: fst (l_span hexdigit r)) fl.
Proof.
  induction fuel; intros b d s a r sp bf fl H L; [lia|].
  apply Rel_next_ub in H. simpl xdigits_loop.
  rewrite (Rel_chr_test _ _ _ _ _ _ _ _ isxdigit H).
  destruct r as [|a2 r2]; simpl.
  - exists (nextchar s). auto.
  - change isxdigit with hexdigit. destruct (hexdigit (fst a2)); simpl.
    + destruct (IHfuel _ _ _ _ _ _ _ _ H) as (s' & A & B). { simpl in L; lia. }
      exists s'. split; auto. rewrite <- app_assoc in B. exact B.
    + exists (nextchar s). auto.
Qed.

Lemma l_escape_len : forall cs e rest, l_escape cs = inl (e, rest) -> (length rest <= length cs)%nat.
Proof.
  intros cs e rest H. destruct cs as [|a r]; simpl in H; [discriminate|].
  destruct (fst a =? 120).
  { destruct r as [|b r']; [discriminate|]. destruct (hexdigit (fst b)); [|discriminate].
    inversion H; subst. pose proof (l_span_len hexdigit (b :: r')). simpl in *. lia. }
  destruct (octdigit (fst a)).
  { destruct r as [|b r']. { inversion H; subst; simpl; lia. }
    destruct (octdigit (fst b)).
    - destruct r' as [|c r'']. { inversion H; subst; simpl; lia. }
      destruct (octdigit (fst c)); inversion H; subst; simpl; lia.
    - inversion H; subst; simpl; lia. }
  destruct (simple_esc (fst a)); [|discriminate]. inversion H; subst; simpl; lia.
Qed.

(* state at the backslash; cs is what follows it *)
Lemma escape_sim : forall fuel b d s a cs sp bf fl,
  Rel b d s (a :: cs) true sp bf fl -> (length cs < fuel)%nat ->
  match l_escape cs with
  | inl (e, rest) => exists s', escape fuel s = Ok s' /\ Rel b d s' rest true sp (bf ++ fst a :: e) fl
  | inr e => exists l, escape fuel s = Error l (msg_of_lerr e)
  end.
Proof.
  intros fuel b d s a cs sp bf fl H L.
  apply Rel_next_ub in H. unfold escape, l_escape.
  change isodigit with octdigit. change isxdigit with hexdigit. change simple_escape with simple_esc.
  rewrite (Rel_chr_is _ _ _ _ _ _ _ _ 120 H).
  destruct cs as [|c r]; simpl hd_is.
  - cbv iota. rewrite (Rel_chr_test _ _ _ _ _ _ _ _ octdigit H), (Rel_chr_test _ _ _ _ _ _ _ _ simple_esc H).
    simpl. eauto.
  - destruct (fst c =? 120) eqn:Ex.
    + pose proof (Rel_next_ub _ _ _ _ _ _ _ _ H) as H2.
      rewrite (Rel_chr_test _ _ _ _ _ _ _ _ hexdigit H2).
      destruct r as [|x r']; simpl hd_test.
      * simpl. eauto.
      * destruct (hexdigit (fst x)) eqn:Eh; simpl negb; cbv iota.
        -- destruct (xdigits_loop_sim fuel _ _ _ _ _ _ _ _ H2) as (s' & A & B). { simpl in L; lia. }
           exists s'. split; auto.
           simpl l_span. rewrite Eh. simpl. rewrite <- !app_assoc in B. exact B.
        -- eauto.
    + rewrite (Rel_chr_test _ _ _ _ _ _ _ _ octdigit H). simpl hd_test.
      destruct (octdigit (fst c)) eqn:Eo.
      * pose proof (Rel_next_ub _ _ _ _ _ _ _ _ H) as H2.
        rewrite (Rel_chr_test _ _ _ _ _ _ _ _ octdigit H2).
        destruct r as [|x r']; simpl hd_test.
        { exists (nextchar (nextchar s)). split; auto. rewrite <- app_assoc in H2. exact H2. }
        destruct (octdigit (fst x)) eqn:Eo2.
        -- pose proof (Rel_next_ub _ _ _ _ _ _ _ _ H2) as H3.
           rewrite (Rel_chr_test _ _ _ _ _ _ _ _ octdigit H3).
           destruct r' as [|y r'']; simpl hd_test.
           { exists (nextchar (nextchar (nextchar s))). split; auto. rewrite <- !app_assoc in H3. exact H3. }
           destruct (octdigit (fst y)) eqn:Eo3.
           ++ pose proof (Rel_next_ub _ _ _ _ _ _ _ _ H3) as H4.
              eexists. split; [reflexivity|]. rewrite <- !app_assoc in H4. exact H4.
           ++ eexists. split; [reflexivity|]. rewrite <- !app_assoc in H3. exact H3.
        -- eexists. split; [reflexivity|]. rewrite <- !app_assoc in H2. exact H2.
      * rewrite (Rel_chr_test _ _ _ _ _ _ _ _ simple_esc H). simpl hd_test.
        destruct (simple_esc (fst c)).
        -- pose proof (Rel_next_ub _ _ _ _ _ _ _ _ H) as H2.
           eexists. split; [reflexivity|]. rewrite <- !app_assoc in H2. exact H2.
        -- simpl. eauto.
Qed.

Lemma quoted_loop_sim : forall fuel b d s cs q k sp bf fl,
  Rel b d s cs true sp bf fl -> (length cs < fuel)%nat ->
  match l_quoted fuel q cs with
  | QOk lit rest =>
    exists s', quoted_loop fuel q k (msg_of_lerr (ErrNullIn q)) (msg_of_lerr (ErrNewlineIn q)) (msg_of_lerr (ErrEOFIn q)) s = Ok (k, s') /\
               Rel b d s' rest true sp (bf ++ lit) fl
  | QErr e => exists l, quoted_loop fuel q k (msg_of_lerr (ErrNullIn q)) (msg_of_lerr (ErrNewlineIn q)) (msg_of_lerr (ErrEOFIn q)) s = Error l (msg_of_lerr e)
  | QFuel => False
  end.
Proof.
  induction fuel; intros b d s cs q k sp bf fl H L; [lia|].
  simpl quoted_loop. simpl l_quoted.
  rewrite !(Rel_chr_is _ _ _ _ _ _ _ _ _ H). rewrite (Rel_chr _ _ _ _ _ _ _ _ H).
  destruct cs as [|a r]; simpl hd_is; cbv iota.
  - eauto.
  - destruct (fst a =? 92) eqn:E92.
    + pose proof (escape_sim fuel _ _ _ _ _ _ _ _ H) as He.
      assert (Lr : (length r < fuel)%nat) by (simpl in L; lia). specialize (He Lr).
      destruct (l_escape r) as [[e rest]|e] eqn:Ee.
      * destruct He as (s1 & A & B). rewrite A. simpl bind.
        assert (L2 : (length rest < fuel)%nat) by (apply l_escape_len in Ee; lia).
        specialize (IHfuel _ _ _ _ q k _ _ _ B L2).
        destruct (l_quoted fuel q rest) as [lit rest2|e2|]; simpl qcons; auto.
        destruct IHfuel as (s' & A2 & B2). exists s'. split; auto.
        rewrite <- app_assoc in B2. simpl in B2. simpl. exact B2.
      * destruct He as (l & A). rewrite A. simpl. eauto.
    + destruct (fst a =? q) eqn:Eq.
      * apply Rel_next_ub in H. eauto.
      * destruct (fst a =? 0) eqn:E0. { eauto. }
        destruct (fst a =? 10) eqn:E10. { eauto. }
        apply Rel_next_ub in H.
        assert (Lr : (length r < fuel)%nat) by (simpl in L; lia).
        specialize (IHfuel _ _ _ _ q k _ _ _ H Lr).
        destruct (l_quoted fuel q r) as [lit rest2|e2|]; simpl qcons; auto.
        destruct IHfuel as (s' & A2 & B2). exists s'. split; auto.
        rewrite <- app_assoc in B2. exact B2.
Qed.

Lemma l_quoted_len : forall fuel q cs lit rest, l_quoted fuel q cs = QOk lit rest -> (length rest < length cs)%nat.
Proof.
  induction fuel; intros q cs lit rest H; [discriminate|].
  simpl in H. destruct cs as [|a r]; [discriminate|].
  destruct (fst a =? 92).
  { destruct (l_escape r) as [[e r']|e] eqn:Ee; [|discriminate].
    apply l_escape_len in Ee.
    destruct (l_quoted fuel q r') as [l2 r2| |] eqn:Eq; simpl in H; try discriminate.
    inversion H; subst. apply IHfuel in Eq. simpl. lia. }
  destruct (fst a =? q). { inversion H; subst. simpl. lia. }
  destruct (fst a =? 0); [discriminate|].
  destruct (fst a =? 10); [discriminate|].
  destruct (l_quoted fuel q r) as [l2 r2| |] eqn:Eq; simpl in H; try discriminate.
  inversion H; subst. apply IHfuel in Eq. simpl. lia.
Qed.

(* ------------------------------------------------------------------ comments *)
Lemma l_upto_nl_len : forall cs, (length (l_upto_nl cs) <= length cs)%nat.
Proof. induction cs; simpl; [lia|]. destruct (fst a =? 10); simpl; lia. Qed.

Lemma l_block_len : forall cs rest, l_block cs = Some rest -> (length rest < length cs)%nat.
Proof.
  induction cs as [|a r IH]; intros rest H; [discriminate|].
  simpl in H. destruct r as [|b r']; [discriminate|].
  destruct ((fst a =? 42) && (fst b =? 47)).
  - inversion H; subst. simpl. lia.
  - apply IH in H. simpl in *. lia.
Qed.

(* do nextchar(s); while (s->chr != '\n' && s->chr != EOF): state at a character that is consumed unconditionally *)
Lemma linecomment_loop_sim : forall fuel b d s a r sp fl,
  Rel b d s (a :: r) false sp [] fl -> (length r < fuel)%nat ->
  exists s', linecomment_loop fuel s = Ok s' /\ Rel b d s' (l_upto_nl r) false sp [] fl.
Proof.
  induction fuel; intros b d s a r sp fl H L; [lia|].
  apply Rel_next_nb in H. simpl in H. simpl linecomment_loop.
  rewrite (Rel_chr_is _ _ _ _ _ _ _ _ 10 H), (Rel_chr _ _ _ _ _ _ _ _ H).
  destruct r as [|a2 r2]; simpl.
  - eauto.
  - destruct (fst a2 =? 10); simpl; eauto.
    eapply IHfuel; eauto. simpl in L; lia.
Qed.

(* state just after the opening of the comment *)
Lemma blockcomment_loop_sim : forall fuel b d s cs sp fl,
  Rel b d s cs false sp [] fl -> (length cs < fuel)%nat ->
  match l_block cs with
  | Some rest => exists s', blockcomment_loop fuel s = Ok s' /\ Rel b d (nextchar s') rest false sp [] fl
  | None => exists l, blockcomment_loop fuel s = Error l Scan.EEOFInComment
  end.
Proof.
  induction fuel; intros b d s cs sp fl H L; [lia|].
  simpl blockcomment_loop.
  pose proof (Rel_chr _ _ _ _ _ _ _ _ H) as Hc.
  pose proof (Rel_next_nb _ _ _ _ _ _ _ H) as H1.
  rewrite (Rel_chr _ _ _ _ _ _ _ _ H1). rewrite Hc.
  destruct cs as [|a r]; simpl.
  - eauto.
  - destruct r as [|c r']; simpl. { eauto. }
    destruct (fst a =? 42); simpl.
    + destruct (fst c =? 47); simpl.
      * exists (nextchar s). split; auto. apply Rel_next_nb in H1. exact H1.
      * apply (IHfuel _ _ _ (c :: r')); auto. simpl in *; lia.
    + apply (IHfuel _ _ _ (c :: r')); auto. simpl in *; lia.
Qed.

(* ------------------------------------------------------------------ scankind *)
Definition suffix (rest av : list achar) : Prop := exists pre, av = pre ++ rest.

Lemma suffix_refl : forall av, suffix av av. Proof. intros; exists []; reflexivity. Qed.
Lemma suffix_cons : forall a rest av, suffix rest av -> suffix rest (a :: av).
Proof. intros a rest av [pre H]. exists (a :: pre). now rewrite H. Qed.
Lemma suffix_trans : forall a b c, suffix a b -> suffix b c -> suffix a c.
Proof. intros a b c [p1 H1] [p2 H2]. exists (p2 ++ p1). now rewrite H2, H1, app_assoc. Qed.
Lemma suffix_tl : forall av, suffix (tl av) av.
Proof. destruct av; [apply suffix_refl|]. apply suffix_cons, suffix_refl. Qed.
Lemma suffix_len : forall a b, suffix a b -> (length a <= length b)%nat.
Proof. intros a b [p H]. subst. rewrite app_length. lia. Qed.

Lemma l_upto_nl_suffix : forall cs, suffix (l_upto_nl cs) cs.
Proof. induction cs; simpl; [apply suffix_refl|]. destruct (fst a =? 10); [apply suffix_refl|now apply suffix_cons]. Qed.

Lemma l_block_suffix : forall cs rest, l_block cs = Some rest -> suffix rest cs.
Proof.
  induction cs as [|a r IH]; intros rest H; [discriminate|].
  simpl in H. destruct r as [|b r']; [discriminate|].
  destruct ((fst a =? 42) && (fst b =? 47)).
  - inversion H; subst. apply suffix_cons, suffix_cons, suffix_refl.
  - apply suffix_cons. now apply IH.
Qed.

Lemma l_span_suffix : forall f cs, suffix (snd (l_span f cs)) cs.
Proof. induction cs; simpl; [apply suffix_refl|]. destruct (f (fst a)); simpl; [now apply suffix_cons|apply suffix_refl]. Qed.

Lemma l_num_suffix : forall cs al, suffix (snd (l_num al cs)) cs.
Proof.
  induction cs; intros; simpl; [apply suffix_refl|].
  destruct (expchar (fst a)); simpl; [apply suffix_cons, IHcs|].
  destruct (signchar (fst a)). { destruct al; simpl; [apply suffix_cons, IHcs|apply suffix_refl]. }
  destruct ((fst a =? 95) || (fst a =? 46)); simpl; [apply suffix_cons, IHcs|].
  destruct (idchar (fst a)); simpl; [apply suffix_cons, IHcs|apply suffix_refl].
Qed.

Lemma l_escape_suffix : forall cs e rest, l_escape cs = inl (e, rest) -> suffix rest cs.
Proof.
  intros cs e rest H. destruct cs as [|a r]; simpl in H; [discriminate|].
  destruct (fst a =? 120).
  { destruct r as [|b r']; [discriminate|]. destruct (hexdigit (fst b)); [|discriminate].
    inversion H; subst. apply suffix_cons. apply (l_span_suffix hexdigit (b :: r')). }
  destruct (octdigit (fst a)).
  { destruct r as [|b r']. { inversion H; subst. apply suffix_cons, suffix_refl. }
    destruct (octdigit (fst b)).
    - destruct r' as [|c r'']. { inversion H; subst. apply suffix_cons, suffix_cons, suffix_refl. }
      destruct (octdigit (fst c)); inversion H; subst; repeat (first [apply suffix_refl | apply suffix_cons]).
    - inversion H; subst. apply suffix_cons, suffix_refl. }
  destruct (simple_esc (fst a)); [|discriminate]. inversion H; subst. apply suffix_cons, suffix_refl.
Qed.

Lemma l_quoted_suffix : forall fuel q cs lit rest, l_quoted fuel q cs = QOk lit rest -> suffix rest cs.
Proof.
  induction fuel; intros q cs lit rest H; [discriminate|].
  simpl in H. destruct cs as [|a r]; [discriminate|].
  destruct (fst a =? 92).
  { destruct (l_escape r) as [[e r']|e] eqn:Ee; [|discriminate].
    apply l_escape_suffix in Ee.
    destruct (l_quoted fuel q r') as [l2 r2| |] eqn:Eq; simpl in H; try discriminate.
    inversion H; subst. apply IHfuel in Eq. apply suffix_cons. eapply suffix_trans; eauto. }
  destruct (fst a =? q). { inversion H; subst. apply suffix_cons, suffix_refl. }
  destruct (fst a =? 0); [discriminate|].
  destruct (fst a =? 10); [discriminate|].
  destruct (l_quoted fuel q r) as [l2 r2| |] eqn:Eq; simpl in H; try discriminate.
  inversion H; subst. apply IHfuel in Eq. now apply suffix_cons.
Qed.

(* no backslash-new-line directly after a '.' : the character after a '.' is physically adjacent *)
Definition dot_adj (av : list achar) : Prop :=
  forall pre p y q r, av = pre ++ (46, p) :: (y, q) :: r -> q = nextpos 46 p.

Lemma dot_adj_suffix : forall rest av, suffix rest av -> dot_adj av -> dot_adj rest.
Proof.
  intros rest av [pre0 H] D pre p y q r E. subst. apply (D (pre0 ++ pre) p y q r). now rewrite <- app_assoc.
Qed.

Definition tokloc (fl : list N) (d : Z) (start : list achar) (loc : location) : Prop :=
  match start with
  | (x, p) :: _ => loc = mkloc fl ((convline x p + d) mod M64)%Z (convcol x p mod M64)%Z
  | [] => True
  end.

Lemma Rel_loc : forall d s av ub sp bf fl, Rel true d s av ub sp bf fl -> tokloc fl d av (sloc s).
Proof.
  intros d s [|[x p] av] ub sp bf fl [HS (_ & _ & _ & Hf)]; simpl; [exact I|].
  destruct HS as (_ & _ & _ & HS). destruct (HS eq_refl) as (A & B & _).
  destruct (sloc s); simpl in *. subst. reflexivity.
Qed.

Definition lit_b (lit : option (list N)) : bool := match lit with Some _ => true | None => false end.
Definition lit_l (lit : option (list N)) : list N := match lit with Some l => l | None => [] end.

Definition sk_post (b : bool) (d : Z) (fl : list N) (av : list achar) (r : result (kind * location * scanner)) (lr : lres) : Prop :=
  match lr with
  | LTok k lit sp' start rest =>
    exists loc s', r = Ok (k, loc, s') /\
      Rel b d s' rest (lit_b lit) sp' (lit_l lit) fl /\
      (b = true -> tokloc fl d start loc) /\ suffix rest av
  | LErr e => exists l, r = Error l (msg_of_lerr e)
  | LFuel => False
  end.

Lemma p_op2_suffix : forall r t1 t2, suffix (snd (p_op2 r t1 t2)) r.
Proof. intros. unfold p_op2. destruct r; [apply suffix_refl|]. destruct (fst a =? 61); simpl; [apply suffix_tl with (av := a :: r)|apply suffix_refl]. Qed.
Lemma p_op3_suffix : forall c r t1 t2 t3, suffix (snd (p_op3 c r t1 t2 t3)) r.
Proof.
  intros. unfold p_op3. destruct r; [apply suffix_refl|].
  destruct (fst a =? 61); simpl; [apply suffix_tl with (av := a :: r)|].
  destruct (fst a =? c); simpl; [apply suffix_tl with (av := a :: r)|apply suffix_refl].
Qed.
Lemma p_op4_suffix : forall c r t1 t2 t3 t4, suffix (snd (p_op4 c r t1 t2 t3 t4)) r.
Proof.
  intros. unfold p_op4. destruct r; [apply suffix_refl|].
  destruct (fst a =? 61); simpl; [apply suffix_tl with (av := a :: r)|].
  destruct (fst a =? c); simpl; [|apply suffix_refl].
  destruct r as [|e r'']; simpl. { apply suffix_cons, suffix_refl. }
  destruct (fst e =? 61); simpl; repeat (first [apply suffix_refl | apply suffix_cons]).
Qed.

Section Leaves.
Variables (b : bool) (d : Z) (s : scanner) (a : achar) (r : list achar) (sp : bool) (fl : list N).
Hypothesis H : Rel b d s (a :: r) false sp [] fl.
Hypothesis Hloc : b = true -> tokloc fl d (a :: r) (sloc s).

Notation FIN := (fun p : kind * scanner => Ok (fst p, sloc s, snd p)).

Lemma sk_tok : forall (k : kind) (rest : list achar) (s' : scanner),
  Rel b d s' rest false sp [] fl -> suffix rest r ->
  sk_post b d fl (a :: r) (bind (Ok (k, s')) FIN) (LTok k None sp (a :: r) rest).
Proof.
  intros k rest s' HR HS. simpl. exists (sloc s), s'.
  split; [reflexivity|]. split; [exact HR|]. split; [exact Hloc|]. now apply suffix_cons.
Qed.

Lemma sk_one : forall k, sk_post b d fl (a :: r) (bind (one k s) FIN) (LTok k None sp (a :: r) r).
Proof. intros. unfold one. apply sk_tok; [|apply suffix_refl]. apply Rel_next_nb in H. exact H. Qed.

Lemma sk_op : forall (X : kind * scanner) (p : kind * list achar),
  (exists s', X = (fst p, s') /\ Rel b d s' (snd p) false sp [] fl) -> suffix (snd p) r ->
  sk_post b d fl (a :: r) (bind (ret X) FIN) (LTok (fst p) None sp (a :: r) (snd p)).
Proof. intros X p (s' & -> & HR) HS. unfold ret. now apply sk_tok. Qed.

(* a literal: the state has usebuf set and the opening quote is the look-ahead *)
Lemma sk_quote : forall fuel q k pre s1 (cs : list achar) aq,
  Rel b d s1 (aq :: cs) true sp pre fl -> suffix (aq :: cs) (a :: r) -> (length cs < fuel)%nat ->
  sk_post b d fl (a :: r)
    (bind (quoted_loop fuel q k (msg_of_lerr (ErrNullIn q)) (msg_of_lerr (ErrNewlineIn q)) (msg_of_lerr (ErrEOFIn q)) (nextchar s1)) FIN)
    (l_quote fuel q k (pre ++ [fst aq]) sp (a :: r) cs).
Proof.
  intros fuel q k pre s1 cs aq HR HS HL.
  apply Rel_next_ub in HR.
  pose proof (quoted_loop_sim fuel _ _ _ _ q k _ _ _ HR HL) as Q.
  unfold l_quote. destruct (l_quoted fuel q cs) as [lit rest|e|] eqn:EQ.
  - destruct Q as (s' & A & B). rewrite A. simpl. exists (sloc s), s'.
    split; [reflexivity|]. split; [exact B|]. split; [exact Hloc|].
    apply l_quoted_suffix in EQ. eapply suffix_trans; [exact EQ|]. eapply suffix_trans; [|exact HS]. apply suffix_cons, suffix_refl.
  - destruct Q as (l & A). rewrite A. simpl. eauto.
  - exact Q.
Qed.

Lemma sk_ident : forall fuel pre s1 (cs : list achar) ub,
  Rel b d s1 cs ub sp pre fl -> suffix cs (a :: r) -> (length cs < fuel)%nat ->
  sk_post b d fl (a :: r) (bind (ident fuel s1) FIN) (l_ident pre sp (a :: r) cs).
Proof.
  intros fuel pre s1 cs ub HR HS HL. unfold ident, l_ident.
  apply Rel_set_usebuf in HR.
  destruct (ident_loop_sim fuel _ _ _ _ _ _ _ HR HL) as (s' & A & B). rewrite A. simpl.
  exists (sloc s), s'. split; [reflexivity|]. split; [exact B|]. split; [exact Hloc|].
  eapply suffix_trans; [apply l_span_suffix|exact HS].
Qed.

Lemma sk_number : forall fuel pre s1 a1 (cs : list achar),
  Rel b d s1 (a1 :: cs) false sp pre fl -> suffix (a1 :: cs) (a :: r) -> (length cs < fuel)%nat ->
  sk_post b d fl (a :: r) (bind (number fuel s1) FIN)
    (LTok TNUMBER (Some (pre ++ fst a1 :: fst (l_num false cs))) sp (a :: r) (snd (l_num false cs))).
Proof.
  intros fuel pre s1 a1 cs HR HS HL. unfold number.
  apply Rel_set_usebuf in HR.
  destruct (number_loop_sim fuel _ _ _ _ _ false _ _ _ HR HL) as (s' & A & B). rewrite A. simpl.
  exists (sloc s), s'. split; [reflexivity|]. split; [exact B|]. split; [exact Hloc|].
  eapply suffix_trans; [apply l_num_suffix|]. eapply suffix_trans; [|exact HS]. apply suffix_cons, suffix_refl.
Qed.
End Leaves.

Lemma sk_post_suffix : forall b d fl av' av R LR, suffix av' av -> sk_post b d fl av' R LR -> sk_post b d fl av R LR.
Proof.
  intros b d fl av' av R LR HS HP. destruct LR; simpl in *; auto.
  destruct HP as (loc & s' & A & B & C & E). exists loc, s'. repeat (split; auto). eapply suffix_trans; eauto.
Qed.

Lemma Rel_bufadd_dot : forall b d s av sp fl,
  Rel b d s av false sp [] fl ->
  Rel b d (mkscanner (chr s) (usebuf s) (sawspace s) (file s) (sloc s) (bufadd (buf s) (Some 46))) av false sp [46] fl.
Proof.
  intros b d s av sp fl [HS (A & B & C & E)]. split.
  - destruct av as [|[x p] av]; simpl in *; auto.
  - unfold Fr; simpl. rewrite C. auto.
Qed.

Lemma phase2_unget : forall y f, (y = 92 -> forall r, f <> 10 :: r) -> phase2 (y :: f) = y :: phase2 f.
Proof.
  intros y f Hw. destruct (N.eq_dec y 92) as [->|Ne]; [|now apply phase2_cons_other].
  destruct f as [|z f]; [reflexivity|]. apply phase2_bs_other. intros ->. now apply (Hw eq_refl f).
Qed.

Lemma phase2a_unget : forall y q f, (y = 92 -> forall r, f <> 10 :: r) ->
  phase2a ((y, q) :: ann (nextpos y q) f) = (y, q) :: phase2a (ann (nextpos y q) f).
Proof.
  intros y q f Hw. destruct (N.eq_dec y 92) as [->|Ne]; [|now apply phase2a_cons_other].
  destruct f as [|z f]; [reflexivity|]. simpl ann. apply phase2a_bs_other. simpl. intros ->. now apply (Hw eq_refl f).
Qed.

(* the `..` push-back: s1 is at the second '.', s2 = nextchar s1 *)
Lemma Rel_restore_dot : forall b d s1 p2 r' sp fl,
  Rel b d s1 ((46, p2) :: r') false sp [] fl ->
  (b = true -> forall y q r'', r' = (y, q) :: r'' -> q = nextpos 46 p2) ->
  Rel b d (restore_dot (nextchar s1) (sloc s1)) ((46, p2) :: r') false sp [] fl.
Proof.
  intros b d s1 p2 r' sp fl H1 Hadj.
  pose proof (Rel_next_nb _ _ _ _ _ _ _ H1) as H2. simpl in H2.
  destruct H1 as [HS1 (A1 & B1 & C1 & E1)]. destruct H2 as [HS2 (A2 & B2 & C2 & E2)].
  split.
  - unfold St. simpl chr. simpl file. simpl sloc.
    split; [reflexivity|]. split; [discriminate|].
    destruct r' as [|[y q] r''].
    + destruct HS2 as [Hc Hf]. rewrite Hc, Hf. split; [reflexivity|].
      intros Hb. destruct HS1 as (_ & _ & _ & HS1). destruct (HS1 Hb) as (L1 & L2 & _). auto.
    + destruct HS2 as (Hc & Hw & Hm & Hst). rewrite Hc. split.
      * rewrite phase2_unget by exact Hw. simpl. now rewrite Hm.
      * intros Hb. destruct HS1 as (_ & _ & _ & HS1). destruct (HS1 Hb) as (L1 & L2 & _).
        split; [exact L1|]. split; [exact L2|].
        rewrite (Hadj Hb y q r'' eq_refl).
        destruct (Hst Hb) as (_ & _ & Hav).
        assert (Eq : q = nextpos 46 p2) by (apply (Hadj Hb y q r'' eq_refl)).
        simpl ann. rewrite <- Eq. rewrite phase2a_unget by exact Hw. now rewrite <- Hav.
  - unfold Fr, restore_dot; simpl. auto.
Qed.

Ltac t_op2 H Hloc := apply (sk_op _ _ _ _ _ _ _ Hloc); [eapply op2_sim; exact H|apply p_op2_suffix].
Ltac t_op3 H Hloc := apply (sk_op _ _ _ _ _ _ _ Hloc); [eapply op3_sim; exact H|apply p_op3_suffix].
Ltac t_op4 H Hloc := apply (sk_op _ _ _ _ _ _ _ Hloc); [eapply op4_sim; exact H|apply p_op4_suffix].
Ltac t_one H Hloc := apply (sk_one _ _ _ _ _ _ _ H Hloc).

Lemma scankind_sim : forall fuel b d s av sp fl,
  Rel b d s av false sp [] fl -> (length av + 1 < fuel)%nat -> (b = true -> dot_adj av) ->
  sk_post b d fl av (scankind fuel s) (l_scankind fuel sp av).
Proof.
  induction fuel; intros b d s av sp fl H L D; [lia|].
  pose proof (Rel_chr _ _ _ _ _ _ _ _ H) as Hc.
  assert (Hloc : b = true -> tokloc fl d av (sloc s)).
  { intros ->. eapply Rel_loc; eauto. }
  cbn [scankind l_scankind]. rewrite Hc.
  destruct av as [|a r].
  { simpl. exists (sloc s), s. split; [reflexivity|]. split; [exact H|]. split; [auto|apply suffix_refl]. }
  set (c := fst a) in *.
  assert (Lr : (length r < fuel)%nat) by (simpl in L; lia).
  change ((c =? 32) || (c =? 9) || (c =? 12) || (c =? 11)) with (wschar c).
  destruct (wschar c) eqn:Ews.
  { (* white space *)
    pose proof (Rel_next_nb _ _ _ _ _ _ _ (Rel_set_sawspace _ _ _ _ _ _ _ _ H)) as H1. simpl in H1.
    assert (S1 : sk_post b d fl r (scankind fuel (nextchar (set_sawspace s))) (l_scankind fuel true r)).
    { apply IHfuel; auto. { simpl in L; lia. } intros Hb. eapply dot_adj_suffix; [|apply D, Hb]. apply suffix_cons, suffix_refl. }
    destruct (l_scankind fuel true r); simpl in *; auto.
    destruct S1 as (loc & s' & A & B & C & E). exists loc, s'. repeat (split; auto). now apply suffix_cons. }
  destruct (c =? 33) eqn:E33. { t_op2 H Hloc. }
  destruct (c =? 34) eqn:E34.
  { unfold stringlit.
    apply (sk_quote _ _ _ _ _ _ _ Hloc fuel 34 TSTRINGLIT [] (set_usebuf s) r a); auto.
    - eapply Rel_set_usebuf; exact H.
    - apply suffix_refl. }
  pose proof (Rel_next_nb _ _ _ _ _ _ _ H) as H1. simpl in H1.
  destruct (c =? 35) eqn:E35.
  { rewrite (Rel_chr_is _ _ _ _ _ _ _ _ 35 H1). destruct (hd_is r 35); simpl negb; cbv iota.
    - unfold one. apply (sk_tok _ _ _ _ _ _ _ Hloc); [apply Rel_next_nb in H1; exact H1|apply suffix_tl].
    - apply (sk_tok _ _ _ _ _ _ _ Hloc); [exact H1|apply suffix_refl]. }
  destruct (c =? 37) eqn:E37. { t_op2 H Hloc. }
  destruct (c =? 38) eqn:E38. { t_op3 H Hloc. }
  destruct (c =? 39) eqn:E39.
  { unfold charconst.
    apply (sk_quote _ _ _ _ _ _ _ Hloc fuel 39 TCHARCONST [] (set_usebuf s) r a); auto.
    - eapply Rel_set_usebuf; exact H.
    - apply suffix_refl. }
  destruct (c =? 42) eqn:E42. { t_op2 H Hloc. }
  destruct (c =? 43) eqn:E43. { t_op3 H Hloc. }
  destruct (c =? 45) eqn:E45.
  { destruct (op3_sim _ _ _ _ _ _ _ TSUB TSUBASSIGN TDEC H) as (s' & A & B). fold c in A, B.
    rewrite A.
    pose proof (p_op3_suffix c r TSUB TSUBASSIGN TDEC) as HS.
    destruct (p_op3 c r TSUB TSUBASSIGN TDEC) as [k r1] eqn:EP. simpl fst in *; simpl snd in *.
    assert (K : k = TSUB \/ k = TSUBASSIGN \/ k = TDEC).
    { unfold p_op3 in EP. destruct r as [|x r0]; [inversion EP; auto|].
      destruct (fst x =? 61); [inversion EP; auto|]. destruct (fst x =? c); inversion EP; auto. }
    destruct K as [->|[->| ->]].
    - rewrite (Rel_chr_is _ _ _ _ _ _ _ _ 62 B). destruct (hd_is r1 62); simpl negb; cbv iota.
      + unfold one. apply (sk_tok _ _ _ _ _ _ _ Hloc); [apply Rel_next_nb in B; exact B|].
        eapply suffix_trans; [apply suffix_tl|exact HS].
      + apply (sk_tok _ _ _ _ _ _ _ Hloc); auto.
    - apply (sk_tok _ _ _ _ _ _ _ Hloc); auto.
    - apply (sk_tok _ _ _ _ _ _ _ Hloc); auto. }
  destruct (c =? 47) eqn:E47.
  { destruct (op2_sim _ _ _ _ _ _ _ TDIV TDIVASSIGN H) as (s' & A & B).
    rewrite A.
    pose proof (p_op2_suffix r TDIV TDIVASSIGN) as HS.
    destruct (p_op2 r TDIV TDIVASSIGN) as [k r1] eqn:EP. simpl fst in *; simpl snd in *.
    assert (K : k = TDIV \/ k = TDIVASSIGN).
    { unfold p_op2 in EP. destruct r as [|x r0]; [inversion EP; auto|].
      destruct (fst x =? 61); inversion EP; auto. }
    destruct K as [->| ->]; [|apply (sk_tok _ _ _ _ _ _ _ Hloc); auto].
    unfold comment. rewrite (Rel_chr_is _ _ _ _ _ _ _ _ 47 B), (Rel_chr_is _ _ _ _ _ _ _ _ 42 B).
    assert (Lr1 : (length r1 <= length r)%nat) by (apply suffix_len; exact HS).
    destruct (hd_is r1 47) eqn:H47.
    { destruct r1 as [|aq r2]; [discriminate|]. simpl in H47.
      destruct (linecomment_loop_sim fuel _ _ _ _ _ _ _ B) as (s2 & A2 & B2). { simpl in Lr1; lia. }
      rewrite A2. simpl bind.
      assert (E10 : (fst aq =? 10) = false) by (apply N.eqb_eq in H47; rewrite H47; reflexivity).
      simpl l_upto_nl. rewrite E10.
      apply sk_post_suffix with (av' := l_upto_nl r2).
      { eapply suffix_trans; [apply l_upto_nl_suffix|]. apply suffix_cons. eapply suffix_trans; [|exact HS]. apply suffix_cons, suffix_refl. }
      apply IHfuel.
      - eapply Rel_set_sawspace; exact B2.
      - pose proof (l_upto_nl_len r2). simpl in Lr1. lia.
      - intros Hb. eapply dot_adj_suffix; [|apply D, Hb].
        eapply suffix_trans; [apply l_upto_nl_suffix|]. apply suffix_cons. eapply suffix_trans; [|exact HS]. apply suffix_cons, suffix_refl. }
    destruct (hd_is r1 42) eqn:H42.
    { destruct r1 as [|aq r2]; [discriminate|]. simpl tl.
      pose proof (Rel_next_nb _ _ _ _ _ _ _ B) as B1. simpl in B1.
      pose proof (blockcomment_loop_sim fuel _ _ _ _ _ _ B1) as Q.
      assert (Lr2 : (length r2 < fuel)%nat) by (simpl in Lr1; lia). specialize (Q Lr2).
      destruct (l_block r2) as [rest|] eqn:EB.
      - destruct Q as (s2 & A2 & B2). rewrite A2. simpl bind.
        assert (HSr : suffix rest (a :: r)).
        { eapply suffix_trans; [apply l_block_suffix; exact EB|]. apply suffix_cons. eapply suffix_trans; [|exact HS]. apply suffix_cons, suffix_refl. }
        apply sk_post_suffix with (av' := rest); [exact HSr|].
        apply IHfuel.
        + eapply Rel_set_sawspace; exact B2.
        + apply l_block_len in EB. simpl in Lr1. lia.
        + intros Hb. eapply dot_adj_suffix; [exact HSr|apply D, Hb].
      - destruct Q as (l & A2). rewrite A2. simpl. eauto. }
    simpl bind. apply (sk_tok _ _ _ _ _ _ _ Hloc); auto. }
  destruct (c =? 60) eqn:E60. { t_op4 H Hloc. }
  destruct (c =? 61) eqn:E61. { t_op2 H Hloc. }
  destruct (c =? 62) eqn:E62. { t_op4 H Hloc. }
  destruct (c =? 94) eqn:E94. { t_op2 H Hloc. }
  destruct (c =? 124) eqn:E124. { t_op3 H Hloc. }
  destruct (c =? 10) eqn:E10. { t_one H Hloc. }
  destruct (c =? 91) eqn:E91. { t_one H Hloc. }
  destruct (c =? 93) eqn:E93. { t_one H Hloc. }
  destruct (c =? 40) eqn:E40. { t_one H Hloc. }
  destruct (c =? 41) eqn:E41. { t_one H Hloc. }
  destruct (c =? 123) eqn:E123. { t_one H Hloc. }
  destruct (c =? 125) eqn:E125. { t_one H Hloc. }
  destruct (c =? 46) eqn:E46.
  { change isdigit with digit.
    rewrite (Rel_chr_test _ _ _ _ _ _ _ _ digit H1).
    destruct (hd_test digit r) eqn:Hd.
    { destruct r as [|d1 r']; [discriminate|]. simpl tl.
      apply N.eqb_eq in E46. rewrite E46.
      apply (sk_number _ _ _ _ _ _ _ Hloc fuel [46] _ d1 r').
      - apply Rel_bufadd_dot. exact H1.
      - apply suffix_cons, suffix_refl.
      - simpl in Lr. lia. }
    rewrite (Rel_chr_is _ _ _ _ _ _ _ _ 46 H1).
    destruct (hd_is r 46) eqn:Hd2; simpl negb; cbv iota.
    2:{ apply (sk_tok _ _ _ _ _ _ _ Hloc); [exact H1|apply suffix_refl]. }
    pose proof (Rel_next_nb _ _ _ _ _ _ _ H1) as H2.
    rewrite (Rel_chr_is _ _ _ _ _ _ _ _ 46 H2).
    destruct (hd_is (tl r) 46) eqn:Hd3; simpl negb; cbv iota.
    { unfold one. apply (sk_tok _ _ _ _ _ _ _ Hloc); [apply Rel_next_nb in H2; exact H2|].
      eapply suffix_trans; apply suffix_tl. }
    destruct r as [|[y2 p2] r']; [discriminate|]. simpl in Hd2. apply N.eqb_eq in Hd2. subst y2.
    apply (sk_tok _ _ _ _ _ _ _ Hloc); [|apply suffix_refl].
    apply Rel_restore_dot; [exact H1|].
    intros Hb y q r'' ->. apply (D Hb [a] p2 y q r''). reflexivity. }
  destruct (c =? 126) eqn:E126. { t_one H Hloc. }
  destruct (c =? 63) eqn:E63. { t_one H Hloc. }
  destruct (c =? 58) eqn:E58.
  { rewrite (Rel_chr_is _ _ _ _ _ _ _ _ 58 H1). destruct (hd_is r 58); simpl negb; cbv iota.
    - unfold one. apply (sk_tok _ _ _ _ _ _ _ Hloc); [apply Rel_next_nb in H1; exact H1|apply suffix_tl].
    - apply (sk_tok _ _ _ _ _ _ _ Hloc); [exact H1|apply suffix_refl]. }
  destruct (c =? 59) eqn:E59. { t_one H Hloc. }
  destruct (c =? 44) eqn:E44. { t_one H Hloc. }
  destruct ((c =? 76) || (c =? 85) || (c =? 117)) eqn:Epre.
  { pose proof (Rel_next_ub _ _ _ _ _ _ _ _ (Rel_set_usebuf _ _ _ _ _ _ _ _ H)) as P1. simpl in P1. fold c in P1.
    assert (Eb : buf (nextchar (set_usebuf s)) = [c]) by (apply P1).
    rewrite Eb. rewrite (Rel_chr_is _ _ _ _ _ _ _ _ 56 P1).
    set (cond := (c =? 117) && hd_is r 56).
    assert (exists s2 pre r1, (if cond then nextchar (nextchar (set_usebuf s)) else nextchar (set_usebuf s)) = s2 /\
              (if cond then [c; 56] else [c]) = pre /\ (if cond then tl r else r) = r1 /\
              Rel b d s2 r1 true sp pre fl /\ suffix r1 r) as (s2 & pre & r1 & -> & -> & -> & P2 & HS).
    { destruct cond eqn:Ec.
      - exists (nextchar (nextchar (set_usebuf s))), [c; 56], (tl r).
        split; [reflexivity|]. split; [reflexivity|]. split; [reflexivity|]. split; [|apply suffix_tl].
        unfold cond in Ec. apply andb_true_iff in Ec. destruct Ec as [_ Ec].
        destruct r as [|a2 r2]; [discriminate|]. simpl in Ec. apply N.eqb_eq in Ec.
        apply Rel_next_ub in P1. rewrite Ec in P1. exact P1.
      - exists (nextchar (set_usebuf s)), [c], r.
        split; [reflexivity|]. split; [reflexivity|]. split; [reflexivity|]. split; [exact P1|apply suffix_refl]. }
    assert (Lr1 : (length r1 <= length r)%nat) by (apply suffix_len; exact HS).
    rewrite (Rel_chr_is _ _ _ _ _ _ _ _ 39 P2), (Rel_chr_is _ _ _ _ _ _ _ _ 34 P2).
    destruct (hd_is r1 39) eqn:Q39.
    { destruct r1 as [|aq r2]; [discriminate|]. simpl in Q39. apply N.eqb_eq in Q39. simpl tl.
      replace (pre ++ [39]) with (pre ++ [fst aq]) by (rewrite Q39; reflexivity).
      unfold charconst.
      apply (sk_quote _ _ _ _ _ _ _ Hloc fuel 39 TCHARCONST pre (set_usebuf s2) r2 aq).
      - eapply Rel_set_usebuf; exact P2.
      - now apply suffix_cons.
      - simpl in Lr1. lia. }
    destruct (hd_is r1 34) eqn:Q34.
    { destruct r1 as [|aq r2]; [discriminate|]. simpl in Q34. apply N.eqb_eq in Q34. simpl tl.
      replace (pre ++ [34]) with (pre ++ [fst aq]) by (rewrite Q34; reflexivity).
      unfold stringlit.
      apply (sk_quote _ _ _ _ _ _ _ Hloc fuel 34 TSTRINGLIT pre (set_usebuf s2) r2 aq).
      - eapply Rel_set_usebuf; exact P2.
      - now apply suffix_cons.
      - simpl in Lr1. lia. }
    apply (sk_ident _ _ _ _ _ _ _ Hloc fuel pre s2 r1 true); [exact P2|now apply suffix_cons|lia]. }
  change isdigit with digit.
  destruct (digit c) eqn:Edig.
  { apply (sk_number _ _ _ _ _ _ _ Hloc fuel [] s a r); [exact H|apply suffix_refl|exact Lr]. }
  change (isalpha c || (c =? 95)) with (nondigit c).
  destruct (nondigit c) eqn:End.
  { apply (sk_ident _ _ _ _ _ _ _ Hloc fuel [] s (a :: r) false).
    - exact H.
    - apply suffix_refl.
    - simpl in *. lia. }
  unfold one. simpl bind.
  exists (sloc s), (nextchar (set_usebuf s)). split; [reflexivity|]. split.
  { pose proof (Rel_next_ub _ _ _ _ _ _ _ _ (Rel_set_usebuf _ _ _ _ _ _ _ _ H)) as P1. exact P1. }
  split; [exact Hloc|apply suffix_cons, suffix_refl].
Qed.

(* ------------------------------------------------------------------ scan *)
Definition tok_match (b : bool) (d : Z) (fl : list N) (t : token) (k : kind) (lit : option (list N)) (sp : bool) (start : list achar) : Prop :=
  tkind t = k /\ tlit t = lit /\ tspace t = sp /\ (b = true -> tokloc fl d start (tloc t)).

Lemma scan_sim : forall fuel b d s av sp0 fl,
  Rel b d s av false sp0 [] fl -> (length av + 1 < fuel)%nat -> (b = true -> dot_adj av) ->
  match l_scankind fuel false av with
  | LTok k lit sp start rest =>
    exists t s', scan fuel s = Ok (t, s') /\ tok_match b d fl t k lit sp start /\
                 Rel b d s' rest false sp [] fl /\ suffix rest av
  | LErr e => exists l, scan fuel s = Error l (msg_of_lerr e)
  | LFuel => False
  end.
Proof.
  intros fuel b d s av sp0 fl H L D.
  set (s0 := mkscanner (chr s) (usebuf s) false (file s) (sloc s) (buf s)).
  assert (H0 : Rel b d s0 av false false [] fl).
  { destruct H as [HS (A & B & C & E)]. split.
    - destruct av as [|[x p] av]; simpl in *; auto.
    - unfold Fr; simpl; auto. }
  pose proof (scankind_sim fuel b d s0 av false fl H0 L D) as P.
  unfold scan. fold s0.
  destruct (l_scankind fuel false av) as [k lit sp start rest|e|]; simpl in P; auto.
  - destruct P as (loc & s' & A & B & C & E). rewrite A. simpl bind.
    destruct B as [HS (F1 & F2 & F3 & F4)].
    destruct lit as [l|]; simpl in F1, F3; rewrite F1.
    + eexists. eexists. split; [reflexivity|]. split.
      * unfold tok_match; simpl. rewrite F2, F3. auto.
      * split; [|exact E]. split.
        -- destruct rest as [|[x p] rest]; simpl in *; auto.
        -- unfold Fr; simpl. auto.
    + eexists. eexists. split; [reflexivity|]. split.
      * unfold tok_match; simpl. rewrite F2. auto.
      * split; [|exact E]. split; [exact HS|]. unfold Fr; auto.
  - destruct P as (l & A). rewrite A. simpl. eauto.
Qed.

(* ------------------------------------------------------------------ the raw token stream *)
Definition ltok_match (b : bool) (d : Z) (fl : list N) (t : token) (lt : ltoken) : Prop :=
  tok_match b d fl t (lkind lt) (llit lt) (lspace lt) (lstart lt).

Definition end_match (e : ending) (le : lend) : Prop :=
  match e, le with
  | EndEOF, LEndEOF => True
  | EndError _ m, LEndErr x => m = msg_of_lerr x
  | EndFuel, LEndFuel => True
  | _, _ => False
  end.

Lemma scantokens_sim : forall fuel scanfuel b d s av sp0 fl,
  Rel b d s av false sp0 [] fl -> (length av + 1 < scanfuel)%nat -> (b = true -> dot_adj av) ->
  Forall2 (ltok_match b d fl) (fst (scantokens fuel scanfuel s)) (fst (lex_all fuel scanfuel av)) /\
  end_match (snd (scantokens fuel scanfuel s)) (snd (lex_all fuel scanfuel av)).
Proof.
  induction fuel; intros scanfuel b d s av sp0 fl H L D.
  - simpl. split; [constructor|exact I].
  - simpl scantokens. simpl lex_all.
    pose proof (scan_sim scanfuel b d s av sp0 fl H L D) as P.
    destruct (l_scankind scanfuel false av) as [k lit sp start rest|e|]; [| |contradiction].
    + destruct P as (t & s' & A & M & R & S). rewrite A.
      assert (Ek : tkind t = k) by apply M. rewrite Ek.
      assert (IH : Forall2 (ltok_match b d fl) (fst (scantokens fuel scanfuel s')) (fst (lex_all fuel scanfuel rest)) /\
                   end_match (snd (scantokens fuel scanfuel s')) (snd (lex_all fuel scanfuel rest))).
      { apply (IHfuel scanfuel b d s' rest sp fl R).
        - apply suffix_len in S. lia.
        - intros Hb. eapply dot_adj_suffix; [exact S|apply D, Hb]. }
      destruct k; try (simpl; split; [constructor; [exact M|apply IH]|apply IH]).
      simpl. split; [constructor|exact I].
    + destruct P as (l & A). rewrite A. simpl. split; [constructor|reflexivity].
Qed.

(* ------------------------------------------------------------------ initial state *)
Lemma St_scanfrom : forall b name text,
  Rel b 0 (scanfrom name text) (logical text) false false [] name.
Proof.
  intros b name text. unfold scanfrom, logical, physical.
  set (s := mkscanner None false false text (mkloc name 1 0) []).
  unfold nextchar. simpl usebuf. cbv iota. simpl buf. simpl file. simpl sloc. simpl lline. simpl lcol. simpl sawspace. simpl lfile.
  destruct b.
  - pose proof (getloop_full (length text) text (1, 1)%Z 0%Z (le_n _)) as G.
    simpl fst in G. simpl snd in G.
    change ((1 + 0) mod M64)%Z with 1%Z in G. change ((1 - 1) mod M64)%Z with 0%Z in G.
    destruct (phase2a (ann (1, 1)%Z text)) as [|[x q] rest] eqn:EL.
    + destruct G as (l' & c' & G). rewrite G. split; [|unfold Fr; simpl; auto].
      simpl. auto.
    + destruct G as (f' & G & Gr & Gw). rewrite G. split; [|unfold Fr; simpl; auto].
      unfold St; simpl. repeat split; auto. subst rest. now rewrite map_fst_logical.
  - pose proof (getloop_chars text 1%Z 0%Z) as G.
    pose proof (map_fst_logical (1, 1)%Z text) as Hm.
    destruct (phase2a (ann (1, 1)%Z text)) as [|[x q] rest] eqn:EL; simpl in Hm; rewrite <- Hm in G.
    + destruct G as (l' & c' & G). rewrite G. split; [|unfold Fr; simpl; auto]. simpl. auto.
    + destruct G as (f' & l' & c' & G & Gr & Gw). rewrite G. split; [|unfold Fr; simpl; auto].
      unfold St; simpl. repeat split; auto; discriminate.
Qed.

Lemma logical_len : forall text, (length (logical text) <= length text)%nat.
Proof.
  intros. unfold logical, physical.
  assert (forall n l, (length l <= n)%nat -> (length (phase2a l) <= length l)%nat).
  { induction n; intros l H.
    - destruct l; simpl in *; lia.
    - destruct l as [|a [|b r]]; simpl; try lia.
      destruct ((fst a =? 92) && (fst b =? 10)).
      + specialize (IHn r). simpl in H. lia.
      + specialize (IHn (b :: r)). simpl in *. lia. }
  specialize (H (length (ann (1,1)%Z text)) _ (le_n _)).
  assert (forall p t, length (ann p t) = length t) by (intros p t; revert p; induction t; intros; simpl; auto).
  rewrite H0 in H. exact H.
Qed.

(* ------------------------------------------------------------------ location-free view (C13) *)
(* The scanner is at a token boundary and the logical characters ahead of it are cs *)
Definition Delivers (s : scanner) (cs : list N) : Prop :=
  usebuf s = false /\ buf s = [] /\
  match cs with
  | [] => chr s = None /\ file s = []
  | x :: r => chr s = Some x /\ r = phase2 (file s) /\ (x = 92 -> forall f, file s <> 10 :: f)
  end.

Lemma map_fst_blank : forall cs, map fst (blank cs) = cs.
Proof. induction cs; simpl; [reflexivity|]. now rewrite IHcs. Qed.

Lemma blank_length : forall cs, length (blank cs) = length cs.
Proof. intros. unfold blank. apply map_length. Qed.

Lemma Delivers_Rel : forall s cs, Delivers s cs ->
  Rel false 0 s (blank cs) false (sawspace s) [] (lfile (sloc s)).
Proof.
  intros s cs (A & B & C). split; [|unfold Fr; auto].
  destruct cs as [|x r]; simpl in *; [exact C|].
  destruct C as (C1 & C2 & C3). repeat split; auto; try discriminate.
  fold (blank r). rewrite map_fst_blank. exact C2.
Qed.

Lemma Rel_Delivers : forall d s av sp fl, Rel false d s av false sp [] fl -> Delivers s (map fst av).
Proof.
  intros d s av sp fl [HS (A & B & C & E)]. split; [exact A|]. split; [exact C|].
  destruct av as [|[x p] av]; simpl in *; [exact HS|].
  destruct HS as (H1 & H2 & H3 & _). auto.
Qed.

Lemma Delivers_scanfrom : forall name text, Delivers (scanfrom name text) (phase2 text).
Proof.
  intros. pose proof (St_scanfrom false name text) as H. apply Rel_Delivers in H.
  unfold logical, physical in H. now rewrite map_fst_logical in H.
Qed.

Lemma scan_lex : forall fuel s cs, Delivers s cs -> (length cs + 1 < fuel)%nat ->
  match l_scankind fuel false (blank cs) with
  | LTok k lit sp start rest =>
    exists t s', scan fuel s = Ok (t, s') /\ tkind t = k /\ tlit t = lit /\ tspace t = sp /\
                 Delivers s' (map fst rest)
  | LErr e => exists l, scan fuel s = Error l (msg_of_lerr e)
  | LFuel => False
  end.
Proof.
  intros fuel s cs H L. apply Delivers_Rel in H.
  pose proof (scan_sim fuel false 0 s (blank cs) _ _ H) as P.
  rewrite blank_length in P. specialize (P L (fun e => False_ind _ (Bool.diff_false_true e))).
  destruct (l_scankind fuel false (blank cs)); auto.
  destruct P as (t & s' & A & (M1 & M2 & M3 & _) & R & _).
  exists t, s'. split; [exact A|]. split; [exact M1|]. split; [exact M2|]. split; [exact M3|].
  eapply Rel_Delivers; exact R.
Qed.
