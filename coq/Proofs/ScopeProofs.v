(* scope.c refines a stack of pairs of finite maps: lookup = innermost frame that binds the name,
   the two name spaces are independent, leaving a scope restores the outer view. *)
From Coq Require Import List NArith Arith Bool Lia.
From Cproc Require Import Model.Map Model.Scope Proofs.MapProofs.
Import ListNotations.

Section ScopeProofs.
  Variable key : Type.
  Variable key_eqb : key -> key -> bool.
  Hypothesis key_eqb_spec : forall a b, key_eqb a b = true <-> a = b.
  Variable h : key -> N.

  Notation fmap := (fmap key).
  Notation fupd := (fupd key key_eqb).
  Notation Inv := (Inv key h).
  Notation Rep := (Rep key).

  Definition TblRep (t : option (map key)) (f : fmap) : Prop :=
    match t with
    | None => forall k, f k = 0%N
    | Some m => Inv m /\ Rep m f
    end.

  Lemma pow2cap_32 : pow2cap 32.
  Proof. exists 5. split; [reflexivity|lia]. Qed.

  Lemma tblput_spec t f k v : TblRep t f ->
    exists t', tblput key key_eqb h t k v = Some t' /\ TblRep t' (fupd f k v).
  Proof.
    intros HT. unfold tblput.
    set (m := match t with Some m => m | None => mapinit key 32 end).
    assert (HI : Inv m /\ Rep m f).
    { destruct t as [m0|]; [exact HT|]. subst m. destruct (mapinit_inv key h 32 pow2cap_32) as [A [B C]].
      split; [exact A|]. split.
      - intros k0 v0 Hm. rewrite HT. apply (B k0 v0 Hm).
      - intros k0 _. apply HT. }
    destruct HI as [HI HR].
    destruct (step_refines key key_eqb key_eqb_spec h m f (OpPut k v) HI HR) as (m' & Hs & HI' & HR').
    cbn [Map.step] in Hs.
    destruct (Map.mapput key key_eqb h m k) as [[m1 i]|]; [|discriminate].
    inversion Hs; subst m'. eexists. split; [reflexivity|]. split; assumption.
  Qed.

  Lemma tblget_spec t f k : TblRep t f -> tblget key key_eqb h t k = Some (f k).
  Proof.
    intros HT. destruct t as [m|]; cbn [tblget].
    - destruct HT as [HI HR]. apply mapget_rep; assumption.
    - rewrite HT. reflexivity.
  Qed.

  (* ---------------------------------------------------------------- the specification *)
  Definition sframe := (fmap * fmap)%type.
  Definition fzero : fmap := fun _ => 0%N.

  Definition spec_sstep (s : option (list sframe)) (o : sop key) : option (list sframe) :=
    match s with
    | None => None
    | Some s =>
      match o with
      | SPush => Some ((fzero, fzero) :: s)
      | SPop => match s with _ :: (_ :: _) => Some (tl s) | _ => None end
      | SPutDecl k v => match s with [] => None | (d, t) :: r => Some ((fupd d k v, t) :: r) end
      | SPutTag k v => match s with [] => None | (d, t) :: r => Some ((d, fupd t k v) :: r) end
      end
    end.
  Definition spec_srun (ops : list (sop key)) := fold_left spec_sstep ops (Some [(fzero, fzero)]).

  (* the entity C scoping selects: the binding of the innermost frame that has one *)
  Fixpoint spec_get (sel : sframe -> fmap) (s : list sframe) (k : key) (recurse : bool) : val :=
    match s with
    | [] => 0%N
    | f :: r => if N.eqb (sel f k) 0 then (if recurse then spec_get sel r k recurse else 0%N) else sel f k
    end.

  Definition FRep (fr : frame key) (sf : sframe) : Prop :=
    TblRep (decls fr) (fst sf) /\ TblRep (tags fr) (snd sf).

  Lemma scopeget_spec_decl s ss k rc : Forall2 FRep s ss ->
    scopegetdecl key key_eqb h s k rc = Some (spec_get fst ss k rc).
  Proof.
    intros HF. induction HF as [|fr sf s ss [Hd Ht] _ IH]; [reflexivity|].
    unfold scopegetdecl in *. cbn [scopeget spec_get]. rewrite (tblget_spec _ _ k Hd).
    destruct (N.eqb (fst sf k) 0); [|reflexivity]. destruct rc; [exact IH|reflexivity].
  Qed.

  Lemma scopeget_spec_tag s ss k rc : Forall2 FRep s ss ->
    scopegettag key key_eqb h s k rc = Some (spec_get snd ss k rc).
  Proof.
    intros HF. induction HF as [|fr sf s ss [Hd Ht] _ IH]; [reflexivity|].
    unfold scopegettag in *. cbn [scopeget spec_get]. rewrite (tblget_spec _ _ k Ht).
    destruct (N.eqb (snd sf k) 0); [|reflexivity]. destruct rc; [exact IH|reflexivity].
  Qed.

  Lemma sstep_refines s ss o : Forall2 FRep s ss ->
    match spec_sstep (Some ss) o with
    | Some ss' => exists s', sstep key key_eqb h (Some s) o = Some s' /\ Forall2 FRep s' ss'
    | None => sstep key key_eqb h (Some s) o = None
    end.
  Proof.
    intros HF. destruct o as [| |k v|k v]; cbn [spec_sstep sstep].
    - exists (mkscope key s). split; [reflexivity|]. constructor; [|exact HF].
      split; cbn; intros; reflexivity.
    - inversion HF as [|fr sf s1 ss1 H1 HF1]; subst; [reflexivity|].
      inversion HF1 as [|fr2 sf2 s2 ss2 H2 HF2]; subst; [reflexivity|].
      eexists. split; [reflexivity|]. exact HF1.
    - inversion HF as [|fr [d t] s1 ss1 [Hd Ht] HF1]; subst; [reflexivity|].
      cbn [fst snd] in *. destruct (tblput_spec _ _ k v Hd) as (t' & Hp & HT').
      unfold scopeputdecl. rewrite Hp. eexists. split; [reflexivity|].
      constructor; [|exact HF1]. split; assumption.
    - inversion HF as [|fr [d t] s1 ss1 [Hd Ht] HF1]; subst; [reflexivity|].
      cbn [fst snd] in *. destruct (tblput_spec _ _ k v Ht) as (t' & Hp & HT').
      unfold scopeputtag. rewrite Hp. eexists. split; [reflexivity|].
      constructor; [|exact HF1]. split; assumption.
  Qed.

  Lemma srun_from ops : forall s ss, Forall2 FRep s ss ->
    match fold_left spec_sstep ops (Some ss) with
    | Some ss' => exists s', fold_left (sstep key key_eqb h) ops (Some s) = Some s' /\ Forall2 FRep s' ss'
    | None => fold_left (sstep key key_eqb h) ops (Some s) = None
    end.
  Proof.
    induction ops as [|o ops IH]; intros s ss HF.
    - cbn. exists s. auto.
    - cbn [fold_left]. pose proof (sstep_refines s ss o HF) as Hs.
      destruct (spec_sstep (Some ss) o) as [ss'|].
      + destruct Hs as (s' & Hs & HF'). rewrite Hs. apply IH. exact HF'.
      + rewrite Hs. clear. induction ops; [reflexivity|exact IHops].
  Qed.

  (* every use of a name, at any point of any history of scope operations, resolves to the
     innermost binding, separately in the ordinary and the tag name space *)
  Theorem scope_innermost ops :
    match spec_srun ops with
    | Some ss => exists s, srun key key_eqb h ops = Some s /\
                 forall k rc, scopegetdecl key key_eqb h s k rc = Some (spec_get fst ss k rc) /\
                              scopegettag key key_eqb h s k rc = Some (spec_get snd ss k rc)
    | None => srun key key_eqb h ops = None
    end.
  Proof.
    unfold spec_srun, srun.
    assert (H0 : Forall2 FRep [mkframe None None] [(fzero, fzero)]).
    { constructor; [|constructor]. split; cbn; intros; reflexivity. }
    generalize (srun_from ops _ _ H0).
    match goal with |- match ?x with _ => _ end -> match ?y with _ => _ end =>
      change y with x; destruct x as [ss|] end; intros H; [|exact H].
    destruct H as (s & Hs & HF). exists s. split; [exact Hs|]. intros k rc.
    split; [apply scopeget_spec_decl|apply scopeget_spec_tag]; exact HF.
  Qed.
End ScopeProofs.
