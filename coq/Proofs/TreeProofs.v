(* Proofs about Model/Tree.v (the AVL index of a switch's case constants). *)
From Coq Require Import ZArith NArith List Bool Lia Sorting.Sorted.
From Cproc Require Import Model.Tree.
Import ListNotations.
Open Scope Z_scope.
Arguments balance : simpl never.
Arguments rot : simpl never.

(* ------------------------------------------------------------------ predicates *)
Fixpoint allt (P : N -> Prop) (t : tree) : Prop :=
  match t with Leaf => True | Node k _ l r => P k /\ allt P l /\ allt P r end.

(* binary-search-tree order, strict (no duplicate keys) *)
Fixpoint bst (t : tree) : Prop :=
  match t with
  | Leaf => True
  | Node k _ l r => allt (fun x => (x < k)%N) l /\ allt (fun x => (k < x)%N) r /\ bst l /\ bst r
  end.

(* AVL balance, on the REAL heights *)
Fixpoint balanced (t : tree) : Prop :=
  match t with
  | Leaf => True
  | Node _ _ l r => balanced l /\ balanced r /\ -1 <= rheight l - rheight r <= 1
  end.

(* every stored height field equals the real height of its subtree *)
Fixpoint heights_ok (t : tree) : Prop :=
  match t with
  | Leaf => True
  | Node _ h l r => heights_ok l /\ heights_ok r /\ h = Z.max (rheight l) (rheight r) + 1
  end.

(* the working invariant: the same two facts phrased on the stored heights *)
Fixpoint avl (t : tree) : Prop :=
  match t with
  | Leaf => True
  | Node _ h l r =>
    avl l /\ avl r /\ h = Z.max (height l) (height r) + 1 /\ -1 <= height l - height r <= 1
  end.

Lemma rheight_nonneg t : 0 <= rheight t.
Proof. induction t; simpl; lia. Qed.

Lemma avl_height t : avl t -> height t = rheight t.
Proof.
  induction t as [|k h l IHl r IHr]; simpl; auto.
  intros (Hl & Hr & Hh & _). rewrite <- IHl, <- IHr; auto.
Qed.

Lemma avl_spec t : avl t <-> balanced t /\ heights_ok t.
Proof.
  induction t as [|k h l IHl r IHr]; simpl.
  - tauto.
  - split.
    + intros (Hl & Hr & Hh & Hb).
      pose proof (avl_height l Hl). pose proof (avl_height r Hr).
      apply IHl in Hl. apply IHr in Hr. repeat split; try tauto; lia.
    + intros ((Bl & Br & Bb) & (Ol & Or & Oh)).
      assert (Al : avl l) by tauto. assert (Ar : avl r) by tauto.
      pose proof (avl_height l Al). pose proof (avl_height r Ar).
      repeat split; auto; lia.
Qed.

Lemma avl_nonneg t : avl t -> 0 <= height t.
Proof. intros H. rewrite (avl_height t H). apply rheight_nonneg. Qed.

Lemma avl_node_pos k h l r : avl (Node k h l r) -> 1 <= h.
Proof.
  simpl. intros (Hl & Hr & Hh & _).
  pose proof (avl_nonneg l Hl). pose proof (avl_nonneg r Hr). lia.
Qed.

Lemma avl_height0 t : avl t -> height t = 0 -> t = Leaf.
Proof.
  destruct t; auto. intros H E. pose proof (avl_node_pos _ _ _ _ H). simpl in E. lia.
Qed.

(* ------------------------------------------------------------------ elements / order *)
Lemma allt_In P t : allt P t <-> forall x, In x (elements t) -> P x.
Proof.
  induction t as [|k h l IHl r IHr]; simpl.
  - split; [intros _ x []|auto].
  - rewrite IHl, IHr. split.
    + intros (Hk & Hl & Hr) x Hx. apply in_app_or in Hx. destruct Hx as [Hx|[Hx|Hx]]; subst; auto.
    + intros H. repeat split.
      * apply H. apply in_or_app. right. left. reflexivity.
      * intros x Hx. apply H. apply in_or_app. auto.
      * intros x Hx. apply H. apply in_or_app. right. right. assumption.
Qed.

Lemma ss_app (l : list N) k r :
  StronglySorted N.lt (l ++ k :: r) <->
  StronglySorted N.lt l /\ StronglySorted N.lt r /\
  Forall (fun x => (x < k)%N) l /\ Forall (fun x => (k < x)%N) r.
Proof.
  induction l as [|a l IH]; simpl.
  - split.
    + intros H. inversion H; subst. repeat split; auto. constructor.
    + intros (_ & Hr & _ & Hk). constructor; auto.
  - split.
    + intros H. inversion H as [|? ? Hs Hf]; subst. apply IH in Hs. destruct Hs as (Sl & Sr & Fl & Fr).
      apply Forall_app in Hf. destruct Hf as (Fal & Fakr). inversion Fakr; subst.
      repeat split; auto. constructor; auto.
    + intros (Sal & Sr & Fal & Fr). inversion Sal; subst. inversion Fal; subst.
      constructor.
      * apply IH. repeat split; auto.
      * apply Forall_app. split; auto. constructor; auto.
        eapply Forall_impl; [|exact Fr]. simpl. intros; lia.
Qed.

(* the in-order key sequence of a search tree is strictly increasing, and conversely *)
Lemma bst_sorted t : bst t <-> StronglySorted N.lt (elements t).
Proof.
  induction t as [|k h l IHl r IHr]; simpl.
  - split; auto. constructor.
  - rewrite ss_app, <- IHl, <- IHr, !allt_In, !Forall_forall. tauto.
Qed.

Lemma rot_elements dir x t d : rot dir x = Some (t, d) -> elements t = elements x.
Proof.
  unfold rot. destruct x as [|kx hx xl xr]; [discriminate|].
  destruct dir.
  - destruct xr as [|ky hy yl yr]; [discriminate|].
    destruct (height yr <? height yl).
    + destruct yl as [|kz hz zl zr]; [discriminate|]. intros E; inversion E; subst; clear E. simpl.
      repeat (rewrite <- app_assoc; simpl). reflexivity.
    + intros E; inversion E; subst; clear E. simpl. repeat (rewrite <- app_assoc; simpl). reflexivity.
  - destruct xl as [|ky hy yl yr]; [discriminate|].
    destruct (height yl <? height yr).
    + destruct yr as [|kz hz zl zr]; [discriminate|]. intros E; inversion E; subst; clear E. simpl.
      repeat (rewrite <- app_assoc; simpl). reflexivity.
    + intros E; inversion E; subst; clear E. simpl. repeat (rewrite <- app_assoc; simpl). reflexivity.
Qed.

Lemma balance_elements x t d : balance x = Some (t, d) -> elements t = elements x.
Proof.
  unfold balance. destruct x as [|k h l r]; [discriminate|].
  destruct (_ <? 3).
  - intros E; inversion E; subst. reflexivity.
  - apply rot_elements.
Qed.

Lemma balance_bst x t d : balance x = Some (t, d) -> bst x -> bst t.
Proof. intros E. rewrite !bst_sorted, (balance_elements _ _ _ E). auto. Qed.

(* the element set grows by exactly the inserted key (no search-tree hypothesis needed) *)
Lemma insert_In k t t' go nw :
  insert k t = Some (t', go, nw) -> forall x, In x (elements t') <-> x = k \/ In x (elements t).
Proof.
  revert t' go nw. induction t as [|k' h l IHl r IHr]; intros t' go nw; simpl.
  - intros E; inversion E; subst. simpl. intuition.
  - destruct (N.eqb_spec k k') as [->|Hne].
    + intros E; inversion E; subst. simpl. intros x. rewrite !in_app_iff. simpl. intuition.
    + destruct (N.ltb k' k).
      * destruct (insert k r) as [[[r' g] n]|] eqn:Er; [|discriminate].
        specialize (IHr _ _ _ eq_refl).
        assert (Hx : forall x, In x (elements (Node k' h l r')) <-> x = k \/ In x (elements (Node k' h l r))).
        { intros x. simpl. rewrite !in_app_iff. simpl. rewrite IHr. intuition. }
        destruct g.
        -- destruct (balance (Node k' h l r')) as [[t'' d]|] eqn:Eb; [|discriminate].
           intros E; inversion E; subst. intros x. rewrite (balance_elements _ _ _ Eb). apply Hx.
        -- intros E; inversion E; subst. exact Hx.
      * destruct (insert k l) as [[[l' g] n]|] eqn:El; [|discriminate].
        specialize (IHl _ _ _ eq_refl).
        assert (Hx : forall x, In x (elements (Node k' h l' r)) <-> x = k \/ In x (elements (Node k' h l r))).
        { intros x. simpl. rewrite !in_app_iff. simpl. rewrite IHl. intuition. }
        destruct g.
        -- destruct (balance (Node k' h l' r)) as [[t'' d]|] eqn:Eb; [|discriminate].
           intros E; inversion E; subst. intros x. rewrite (balance_elements _ _ _ Eb). apply Hx.
        -- intros E; inversion E; subst. exact Hx.
Qed.

Lemma insert_bst k t t' go nw : insert k t = Some (t', go, nw) -> bst t -> bst t'.
Proof.
  revert t' go nw. induction t as [|k' h l IHl r IHr]; intros t' go nw; simpl.
  - intros E _; inversion E; subst. simpl. auto.
  - destruct (N.eqb_spec k k') as [->|Hne].
    + intros E; inversion E; subst. auto.
    + destruct (N.ltb_spec k' k) as [Hlt|Hge].
      * destruct (insert k r) as [[[r' g] n]|] eqn:Er; [|discriminate].
        intros E (Al & Ar & Bl & Br).
        assert (B' : bst (Node k' h l r')).
        { simpl. repeat split; auto; [|eapply IHr; eauto].
          apply allt_In. intros x Hx. apply (insert_In _ _ _ _ _ Er) in Hx.
          destruct Hx as [->|Hx]; auto. rewrite allt_In in Ar. auto. }
        destruct g.
        -- destruct (balance (Node k' h l r')) as [[t'' d]|] eqn:Eb; [|discriminate].
           inversion E; subst. eapply balance_bst; eauto.
        -- inversion E; subst. exact B'.
      * destruct (insert k l) as [[[l' g] n]|] eqn:El; [|discriminate].
        intros E (Al & Ar & Bl & Br).
        assert (B' : bst (Node k' h l' r)).
        { simpl. repeat split; auto; [|eapply IHl; eauto].
          apply allt_In. intros x Hx. apply (insert_In _ _ _ _ _ El) in Hx.
          destruct Hx as [->|Hx]; [lia|]. rewrite allt_In in Al. auto. }
        destruct g.
        -- destruct (balance (Node k' h l' r)) as [[t'' d]|] eqn:Eb; [|discriminate].
           inversion E; subst. eapply balance_bst; eauto.
        -- inversion E; subst. exact B'.
Qed.

(* the `new` flag: false exactly when the key was already in the tree *)
Lemma insert_new k t t' go nw :
  bst t -> insert k t = Some (t', go, nw) -> (nw = false <-> In k (elements t)).
Proof.
  revert t' go nw. induction t as [|k' h l IHl r IHr]; intros t' go nw; simpl.
  - intros _ E; inversion E; subst. split; [discriminate|intros []].
  - intros (Al & Ar & Bl & Br). rewrite allt_In in Al, Ar.
    destruct (N.eqb_spec k k') as [->|Hne].
    + intros E; inversion E; subst. split; auto. intros _. apply in_or_app. right. left. reflexivity.
    + destruct (N.ltb_spec k' k) as [Hlt|Hge].
      * destruct (insert k r) as [[[r' g] n]|] eqn:Er; [|discriminate].
        specialize (IHr _ _ _ Br eq_refl).
        intros E. assert (nw = n).
        { destruct g; [destruct (balance _) as [[? ?]|]; [|discriminate]|]; inversion E; auto. }
        subst n. rewrite IHr, in_app_iff. simpl. split; auto.
        intros [H|[H|H]]; auto; [apply Al in H; lia | congruence].
      * destruct (insert k l) as [[[l' g] n]|] eqn:El; [|discriminate].
        specialize (IHl _ _ _ Bl eq_refl).
        intros E. assert (nw = n).
        { destruct g; [destruct (balance _) as [[? ?]|]; [|discriminate]|]; inversion E; auto. }
        subst n. rewrite IHl, in_app_iff. simpl. split; auto.
        intros [H|[H|H]]; auto; [congruence | apply Ar in H; lia].
Qed.

Lemma memb_In k t : memb k t = true <-> In k (elements t).
Proof.
  unfold memb. rewrite existsb_exists. split.
  - intros (x & Hx & E). apply N.eqb_eq in E. subst. auto.
  - intros H. exists k. split; auto. apply N.eqb_refl.
Qed.

Lemma new_flag_spec k t t' go nw :
  bst t -> insert k t = Some (t', go, nw) -> nw = negb (memb k t).
Proof.
  intros B E. pose proof (insert_new _ _ _ _ _ B E) as H. rewrite <- memb_In in H.
  destruct nw, (memb k t); simpl; auto; intuition congruence.
Qed.

(* ------------------------------------------------------------------ balance *)
(* the unsigned test of balance() on a difference that can only be -2..2 *)
Lemma utest d : -2 <= d <= 2 -> ((d + 1) mod 2 ^ 32 <? 3) = ((-1 <=? d) && (d <=? 1)).
Proof.
  intros H. assert (d = -2 \/ d = -1 \/ d = 0 \/ d = 1 \/ d = 2) as [-> | [-> | [-> | [-> | ->]]]] by lia;
  reflexivity.
Qed.

(* "one child is strictly deeper": what an insertion that made the subtree grow leaves behind *)
Definition lopsided (t : tree) : Prop :=
  match t with Leaf => False | Node _ _ l r => height l <> height r end.

(* balance() on a node whose right child has just grown by one *)
Lemma balance_right k h l r' :
  avl l -> avl r' ->
  h = Z.max (height l) (height r' - 1) + 1 -> -1 <= height l - (height r' - 1) <= 1 ->
  height r' = 1 \/ lopsided r' ->
  exists t d, balance (Node k h l r') = Some (t, d) /\ avl t /\
              (d = 0 -> height t = h) /\ (d <> 0 -> height t = h + 1 /\ lopsided t).
Proof.
  intros Al Ar Hh Hb Hg.
  pose proof (avl_nonneg l Al) as Nl. pose proof (avl_nonneg r' Ar) as Nr.
  unfold balance. rewrite utest by lia.
  destruct (Z.leb_spec (-1) (height l - height r')); simpl.
  - destruct (Z.leb_spec (height l - height r') 1); [|lia].
    eexists _, _. split; [reflexivity|].
    destruct (Z.ltb_spec (height l) (height r')); simpl; repeat split; auto; try lia.
  - (* right side deeper by two: rot(p, n, 1) *)
    destruct (Z.ltb_spec (height l) (height r')); [|lia]. unfold rot.
    destruct r' as [|ky hy yl yr]; [simpl in *; lia|]. simpl.
    simpl in Ar. destruct Ar as (Ayl & Ayr & Hy & By). simpl in Hg, Hh, Hb, H, H0.
    pose proof (avl_nonneg yl Ayl). pose proof (avl_nonneg yr Ayr).
    destruct (Z.ltb_spec (height yr) (height yl)).
    + destruct yl as [|kz hz zl zr]; [simpl in *; lia|].
      simpl in Ayl. destruct Ayl as (Azl & Azr & Hz & Bz). simpl in *.
      pose proof (avl_nonneg zl Azl). pose proof (avl_nonneg zr Azr).
      eexists _, _. split; [reflexivity|]. simpl.
      repeat split; auto; try lia.
    + eexists _, _. split; [reflexivity|]. simpl.
      repeat split; auto; try lia.
Qed.

(* balance() on a node whose left child has just grown by one *)
Lemma balance_left k h l' r :
  avl l' -> avl r ->
  h = Z.max (height l' - 1) (height r) + 1 -> -1 <= (height l' - 1) - height r <= 1 ->
  height l' = 1 \/ lopsided l' ->
  exists t d, balance (Node k h l' r) = Some (t, d) /\ avl t /\
              (d = 0 -> height t = h) /\ (d <> 0 -> height t = h + 1 /\ lopsided t).
Proof.
  intros Al Ar Hh Hb Hg.
  pose proof (avl_nonneg l' Al) as Nl. pose proof (avl_nonneg r Ar) as Nr.
  unfold balance. rewrite utest by lia.
  destruct (Z.leb_spec (-1) (height l' - height r)); simpl; [|lia].
  destruct (Z.leb_spec (height l' - height r) 1); simpl.
  - eexists _, _. split; [reflexivity|].
    destruct (Z.ltb_spec (height l') (height r)); simpl; repeat split; auto; try lia.
  - (* left side deeper by two: rot(p, n, 0) *)
    destruct (Z.ltb_spec (height l') (height r)); [lia|]. unfold rot.
    destruct l' as [|ky hy yl yr]; [simpl in *; lia|]. simpl.
    simpl in Al. destruct Al as (Ayl & Ayr & Hy & By). simpl in Hg, Hh, Hb, H, H0, H1.
    pose proof (avl_nonneg yl Ayl). pose proof (avl_nonneg yr Ayr).
    destruct (Z.ltb_spec (height yl) (height yr)).
    + destruct yr as [|kz hz zl zr]; [simpl in *; lia|].
      simpl in Ayr. destruct Ayr as (Azl & Azr & Hz & Bz). simpl in *.
      pose proof (avl_nonneg zl Azl). pose proof (avl_nonneg zr Azr).
      eexists _, _. split; [reflexivity|]. simpl.
      repeat split; auto; try lia.
    + eexists _, _. split; [reflexivity|]. simpl.
      repeat split; auto; try lia.
Qed.

(* what insert promises about heights: go = false: same height; go = true: one more, and the
   result is either the fresh leaf or strictly deeper on one side *)
Definition grew (t t' : tree) (go : bool) : Prop :=
  if go then height t' = height t + 1 /\ (height t' = 1 \/ lopsided t')
  else height t' = height t.

(* insertion never dereferences a null child, keeps the AVL invariant, and the early stop of the
   rebalancing loop is sound (go = false only when the height of the subtree is unchanged) *)
Lemma insert_avl k t :
  avl t -> exists t' go nw, insert k t = Some (t', go, nw) /\ avl t' /\ grew t t' go.
Proof.
  induction t as [|k' h l IHl r IHr]; simpl.
  - intros _. eexists _, _, _. split; [reflexivity|]. simpl. repeat split; auto; lia.
  - intros (Al & Ar & Hh & Hb).
    destruct (N.eqb k k').
    + eexists _, _, _. split; [reflexivity|]. simpl. repeat split; auto; lia.
    + destruct (N.ltb k' k).
      * destruct (IHr Ar) as (r' & go & nw & E & Ar' & G). rewrite E.
        destruct go; simpl in G.
        -- destruct G as (G1 & G2).
           destruct (balance_right k' h l r' Al Ar') as (t'' & d & Eb & At & D0 & D1); auto; try lia.
           rewrite Eb. eexists _, _, _. split; [reflexivity|]. split; auto.
           destruct (Z.eqb_spec d 0); simpl.
           ++ auto.
           ++ destruct (D1 n) as (D2 & D3). split; auto.
        -- eexists _, _, _. split; [reflexivity|]. simpl. rewrite G. repeat split; auto; lia.
      * destruct (IHl Al) as (l' & go & nw & E & Al' & G). rewrite E.
        destruct go; simpl in G.
        -- destruct G as (G1 & G2).
           destruct (balance_left k' h l' r Al' Ar) as (t'' & d & Eb & At & D0 & D1); auto; try lia.
           rewrite Eb. eexists _, _, _. split; [reflexivity|]. split; auto.
           destruct (Z.eqb_spec d 0); simpl.
           ++ auto.
           ++ destruct (D1 n) as (D2 & D3). split; auto.
        -- eexists _, _, _. split; [reflexivity|]. simpl. rewrite G. repeat split; auto; lia.
Qed.

(* ------------------------------------------------------------------ whole histories *)
Definition tree_inv (t : tree) : Prop := bst t /\ balanced t /\ heights_ok t.

Lemma insert_all_inv ks : forall t,
  bst t -> avl t ->
  exists t', insert_all ks t = Some t' /\ bst t' /\ avl t' /\
             (forall x, In x (elements t') <-> In x ks \/ In x (elements t)).
Proof.
  induction ks as [|k ks IH]; intros t B A; simpl.
  - exists t. repeat split; auto. tauto.
  - destruct (insert_avl k t A) as (t1 & go & nw & E & A1 & _). rewrite E.
    pose proof (insert_bst _ _ _ _ _ E B) as B1.
    destruct (IH t1 B1 A1) as (t' & E' & B' & A' & I').
    exists t'. repeat split; auto.
    + intros H. apply I' in H. rewrite (insert_In _ _ _ _ _ E) in H. intuition.
    + intros H. apply I'. rewrite (insert_In _ _ _ _ _ E). intuition.
Qed.

(* HEADLINE: for every insertion sequence into the empty tree, no undefined behaviour, and the
   result is a search tree, AVL-balanced, with every stored height equal to the real height;
   its key set is the set of inserted keys. *)
Theorem avl_inv : forall ks : list N,
  exists t, insert_all ks Leaf = Some t /\ bst t /\ balanced t /\ heights_ok t /\
            (forall x, In x (elements t) <-> In x ks).
Proof.
  intros ks. destruct (insert_all_inv ks Leaf) as (t & E & B & A & I); simpl; auto.
  exists t. apply avl_spec in A. destruct A as (A1 & A2).
  split; [exact E|]. split; [exact B|]. split; [exact A1|]. split; [exact A2|].
  intros x. rewrite I. simpl. tauto.
Qed.

(* an existing key: the tree is returned untouched and no rebalancing is requested *)
Lemma insert_dup k t t' go nw :
  insert k t = Some (t', go, nw) -> nw = false -> t' = t /\ go = false.
Proof.
  revert t' go nw. induction t as [|k' h l IHl r IHr]; simpl; intros t' go nw E Hn.
  - inversion E; subst; discriminate.
  - destruct (N.eqb k k'); [inversion E; auto|].
    destruct (N.ltb k' k).
    + destruct (insert k r) as [[[r' g] n]|] eqn:Er; [|discriminate].
      assert (n = nw) by (destruct g; [destruct (balance _) as [[? ?]|]; [|discriminate]|]; inversion E; auto).
      subst n. destruct (IHr _ _ _ eq_refl Hn) as (-> & ->). inversion E; auto.
    + destruct (insert k l) as [[[l' g] n]|] eqn:El; [|discriminate].
      assert (n = nw) by (destruct g; [destruct (balance _) as [[? ?]|]; [|discriminate]|]; inversion E; auto).
      subst n. destruct (IHl _ _ _ eq_refl Hn) as (-> & ->). inversion E; auto.
Qed.

(* one step, on any tree satisfying the invariant (so also for trees not built from Leaf) *)
Theorem insert_step : forall k t,
  tree_inv t ->
  exists t' go nw, insert k t = Some (t', go, nw) /\ tree_inv t' /\
    nw = negb (memb k t) /\
    (forall x, In x (elements t') <-> x = k \/ In x (elements t)) /\
    (nw = false -> t' = t).
Proof.
  intros k t (B & Bal & Ok). assert (A : avl t) by (apply avl_spec; auto).
  destruct (insert_avl k t A) as (t' & go & nw & E & A' & _).
  exists t', go, nw. split; auto. split.
  - split; [eapply insert_bst; eauto|apply avl_spec; auto].
  - split; [eapply new_flag_spec; eauto|]. split; [eapply insert_In; eauto|].
    intros Hn. eapply insert_dup; eauto.
Qed.

(* ------------------------------------------------------------------ logarithmic height *)
Fixpoint fibp (n : nat) : N * N :=
  match n with O => (0, 1)%N | S m => let '(a, b) := fibp m in (b, (a + b)%N) end.
Definition fib (n : nat) : N := fst (fibp n).

Lemma fib_S n : fib (S n) = snd (fibp n).
Proof. unfold fib. simpl. destruct (fibp n). reflexivity. Qed.

Lemma fib_SS n : fib (S (S n)) = (fib (S n) + fib n)%N.
Proof.
  rewrite (fib_S (S n)). simpl. rewrite (fib_S n). unfold fib. destruct (fibp n). simpl. lia.
Qed.

Lemma fib_mono_S n : (fib n <= fib (S n))%N.
Proof.
  destruct n; [vm_compute; discriminate|]. rewrite fib_SS. lia.
Qed.

Lemma fib_mono m n : (m <= n)%nat -> (fib m <= fib n)%N.
Proof.
  induction 1; [lia|]. pose proof (fib_mono_S m0). lia.
Qed.

(* a balanced tree of height n has at least fib(n+2) - 1 nodes *)
Lemma height_log_nat t : forall n,
  balanced t -> rheight t = Z.of_nat n -> (fib (n + 2) <= size t + 1)%N.
Proof.
  induction t as [|k h l IHl r IHr]; intros n; simpl.
  - intros _ H. assert (n = 0)%nat by lia. subst. vm_compute. discriminate.
  - intros (Bl & Br & Bb) H.
    pose proof (rheight_nonneg l). pose proof (rheight_nonneg r).
    specialize (IHl (Z.to_nat (rheight l)) Bl ltac:(lia)).
    specialize (IHr (Z.to_nat (rheight r)) Br ltac:(lia)).
    destruct n as [|n]; [lia|].
    replace (S n + 2)%nat with (S (S (n + 1))) by lia. rewrite fib_SS.
    destruct (Z.le_ge_cases (rheight r) (rheight l)).
    + assert (Z.to_nat (rheight l) = n) by lia. subst n.
      replace (S (Z.to_nat (rheight l) + 1)) with (Z.to_nat (rheight l) + 2)%nat by lia.
      assert (fib (Z.to_nat (rheight l) + 1) <= fib (Z.to_nat (rheight r) + 2))%N by (apply fib_mono; lia).
      lia.
    + assert (Z.to_nat (rheight r) = n) by lia. subst n.
      replace (S (Z.to_nat (rheight r) + 1)) with (Z.to_nat (rheight r) + 2)%nat by lia.
      assert (fib (Z.to_nat (rheight r) + 1) <= fib (Z.to_nat (rheight l) + 2))%N by (apply fib_mono; lia).
      lia.
Qed.

Theorem height_log : forall t,
  balanced t -> (fib (Z.to_nat (rheight t) + 2) - 1 <= size t)%N.
Proof.
  intros t B. pose proof (rheight_nonneg t).
  pose proof (height_log_nat t (Z.to_nat (rheight t)) B ltac:(lia)). lia.
Qed.

(* fewer than 2^64 nodes (every node is a distinct object in a 64-bit address space): height <= 91 *)
Theorem height_bound : forall t,
  balanced t -> (size t < 2 ^ 64)%N -> rheight t <= 91.
Proof.
  intros t B S. pose proof (rheight_nonneg t).
  destruct (Z.le_gt_cases (rheight t) 91); auto. exfalso.
  pose proof (height_log_nat t (Z.to_nat (rheight t)) B ltac:(lia)) as Hl.
  assert (fib 94 <= fib (Z.to_nat (rheight t) + 2))%N by (apply fib_mono; lia).
  assert (fib 94 = 19740274219868223167)%N by (vm_compute; reflexivity).
  assert (2 ^ 64 = 18446744073709551616)%N by (vm_compute; reflexivity).
  lia.
Qed.

Lemma path_len_height k t : path_len k t <= rheight t + 1.
Proof.
  induction t as [|k' h l IHl r IHr]; simpl; [lia|].
  destruct (N.eqb k k'); [pose proof (rheight_nonneg l); lia|].
  destruct (N.ltb k' k); lia.
Qed.

(* the path array a[MAXH] of treeinsert never overflows *)
Theorem path_fits : forall k t,
  balanced t -> (size t < 2 ^ 64)%N -> path_len k t <= 92 /\ 92 < MAXH.
Proof.
  intros k t B S. pose proof (height_bound t B S). pose proof (path_len_height k t).
  split; [lia|]. vm_compute. reflexivity.
Qed.

(* every stored height fits a C int with a wide margin: Z arithmetic on heights is faithful *)
Theorem stored_height_bound : forall t,
  balanced t -> heights_ok t -> (size t < 2 ^ 64)%N -> 0 <= height t <= 91.
Proof.
  intros t B O S. assert (A : avl t) by (apply avl_spec; auto).
  rewrite (avl_height t A). split; [apply rheight_nonneg|apply height_bound; auto].
Qed.

(* ------------------------------------------------------------------ non-vacuity *)
(* ascending 1..7: single (left) rotations at the 3rd, 5th, 6th and 7th insertion, and an early
   stop of the rebalancing loop (go = false below the root) *)
Example rotations_single :
  insert_all [1;2;3;4;5;6;7]%N Leaf =
  Some (Node 4 3 (Node 2 2 (Node 1 1 Leaf Leaf) (Node 3 1 Leaf Leaf))
                 (Node 6 2 (Node 5 1 Leaf Leaf) (Node 7 1 Leaf Leaf))) /\
  insert 3%N (Node 1 2 Leaf (Node 2 1 Leaf Leaf)) =
    Some (Node 2 2 (Node 1 1 Leaf Leaf) (Node 3 1 Leaf Leaf), false, true) /\
  (* early stop: inserting 4 into the 3-node tree changes the height of the right child only *)
  insert 4%N (Node 2 2 (Node 1 1 Leaf Leaf) (Node 3 1 Leaf Leaf)) =
    Some (Node 2 3 (Node 1 1 Leaf Leaf) (Node 3 2 Leaf (Node 4 1 Leaf Leaf)), true, true) /\
  insert 1%N (Node 4 3 (Node 2 2 Leaf (Node 3 1 Leaf Leaf)) (Node 6 2 (Node 5 1 Leaf Leaf) (Node 7 1 Leaf Leaf))) =
    Some (Node 4 3 (Node 2 2 (Node 1 1 Leaf Leaf) (Node 3 1 Leaf Leaf)) (Node 6 2 (Node 5 1 Leaf Leaf) (Node 7 1 Leaf Leaf)), false, true).
Proof. vm_compute. repeat split. Qed.

(* [5;3;4]: a double rotation (left-right) *)
Example rotation_double :
  insert_all [5;3;4]%N Leaf = Some (Node 4 2 (Node 3 1 Leaf Leaf) (Node 5 1 Leaf Leaf)) /\
  insert_all [3;5;4]%N Leaf = Some (Node 4 2 (Node 3 1 Leaf Leaf) (Node 5 1 Leaf Leaf)) /\
  insert 4%N (Node 5 2 (Node 3 1 Leaf Leaf) Leaf) = Some (Node 4 2 (Node 3 1 Leaf Leaf) (Node 5 1 Leaf Leaf), false, true) /\
  insert 5%N (Node 4 2 (Node 3 1 Leaf Leaf) (Node 5 1 Leaf Leaf)) = Some (Node 4 2 (Node 3 1 Leaf Leaf) (Node 5 1 Leaf Leaf), false, false).
Proof. vm_compute. repeat split. Qed.

(* the crash value is not vacuous: on a tree that violates the invariant rot() dereferences NULL *)
Example crash_reachable_without_invariant :
  insert 9%N (Node 5 7 Leaf (Node 8 1 Leaf Leaf)) <> None /\
  balance (Node 5 1 Leaf (Node 8 5 Leaf Leaf)) = Some (Node 8 2 (Node 5 1 Leaf Leaf) Leaf, 1) /\
  balance (Node 5 1 (Node 1 (-1) Leaf Leaf) (Node 8 5 Leaf (Node 9 (-3) Leaf Leaf))) = None.
Proof. vm_compute. repeat split. discriminate. Qed.
