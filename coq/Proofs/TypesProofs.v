(* C05: lemmas and main theorems relating Model/Types.v (cproc's typing code) to Spec/CTypes.v (C11).
   Finite statements are proved by complete enumeration (forallb ... = true by vm_compute, lifted with
   forallb_forall); statements about all 64-bit values, all types or all suffix spellings by reasoning. *)
From Coq Require Import ZArith List Bool Lia.
From Cproc Require Import Model.Types Spec.CTypes.
Import ListNotations.
Open Scope Z_scope.

(* ------------------------------------------------------------------ glue between model and spec *)
(* the integer/floating type an arithmetic type behaves as (an enum: its base, 6.7.2.2p4) *)
Definition erase (t : ty) : option basic :=
  match t with TBasic b => Some b | TEnum _ b => Some b | _ => None end.

Definition abi_of (tg : target) : abi := mkabi (signedchar tg) (wchar tg).
Definition wopt (w : Z) : option Z := if w =? NOWIDTH then None else Some w.

Definition obasic_eqb (a b : option basic) : bool :=
  match a, b with Some x, Some y => basic_eqb x y | None, None => true | _, _ => false end.

Lemma basic_eqb_eq a b : basic_eqb a b = true <-> a = b.
Proof. destruct a, b; simpl; split; intro H; try reflexivity; try discriminate H. Qed.

Lemma basic_eqb_refl a : basic_eqb a a = true.
Proof. destruct a; reflexivity. Qed.

Lemma obasic_eqb_eq a b : obasic_eqb a b = true <-> a = b.
Proof.
  destruct a, b; simpl; split; intro H; try reflexivity; try discriminate H.
  - f_equal. now apply basic_eqb_eq.
  - inversion H. apply basic_eqb_refl.
Qed.

Lemma same_object_eq a b : same_object a b = true -> a = b.
Proof.
  destruct a, b; simpl; intro H; try discriminate H; try reflexivity.
  - f_equal. now apply basic_eqb_eq.
  - apply andb_true_iff in H. destruct H as [H1 H2]. apply Z.eqb_eq in H1. apply basic_eqb_eq in H2. congruence.
  - apply Z.eqb_eq in H. congruence.
  - apply Z.eqb_eq in H. congruence.
Qed.

Lemma sweep3 {A B C : Type} (f : A -> B -> C -> bool) la lb lc :
  forallb (fun a => forallb (fun b => forallb (f a b) lc) lb) la = true ->
  forall a b c, In a la -> In b lb -> In c lc -> f a b c = true.
Proof.
  intros H a b c Ha Hb Hc.
  rewrite forallb_forall in H. specialize (H a Ha).
  rewrite forallb_forall in H. specialize (H b Hb).
  rewrite forallb_forall in H. exact (H c Hc).
Qed.

Lemma sweep2 {A B : Type} (f : A -> B -> bool) la lb :
  forallb (fun a => forallb (f a) lb) la = true ->
  forall a b, In a la -> In b lb -> f a b = true.
Proof.
  intros H a b Ha Hb.
  rewrite forallb_forall in H. specialize (H a Ha).
  rewrite forallb_forall in H. exact (H b Hb).
Qed.

(* ------------------------------------------------------------------ targets *)
Theorem targets_spec : map abi_of alltargs = abis.
Proof. reflexivity. Qed.

(* ------------------------------------------------------------------ rank *)
Theorem rank_spec : forall a b i,
  In a int_basics -> In b int_basics ->
  (typerank (TBasic a) <? typerank (TBasic b)) = (c_rank a <? c_rank b)
  /\ typerank (TEnum i a) = typerank (TBasic a)
  /\ 0 < typerank (TBasic a).
Proof.
  intros a b i Ha Hb.
  destruct a; simpl in Ha; try (exfalso; intuition discriminate);
  destruct b; simpl in Hb; try (exfalso; intuition discriminate);
  repeat split; reflexivity.
Qed.

(* ------------------------------------------------------------------ integer promotions *)
(* the types typepromote can return for an integer operand *)
Definition promoted_universe : list ty :=
  [TBasic BInt; TBasic BUInt] ++ filter (fun t => typerank t >? typerank (TBasic BInt)) int_universe.

Definition promote_ok (tg : target) (t : ty) (w : Z) : bool :=
  implb (valid_width t w)
    (obasic_eqb (erase (typepromote tg t w))
                (option_map (fun b => default_promote (abi_of tg) b (wopt w)) (erase t))
     && (same_object (typepromote tg t w) t
         || match typepromote tg t w with TBasic _ => true | _ => false end)
     && obasic_eqb (erase (otype (exprpromote tg (mkop t w None)))) (erase (typepromote tg t w))
     && implb (has (prop t) PROPINT)
          (existsb (same_object (typepromote tg t w)) promoted_universe
           && obasic_eqb (erase (typepromote tg t w))
                         (option_map (fun b => int_promote (abi_of tg) b (wopt w)) (erase t))
           && same_object (typepromote tg (typepromote tg t w) NOWIDTH) (typepromote tg t w))).

Lemma promote_sweep :
  forallb (fun tg => forallb (fun t => forallb (promote_ok tg t) widths) real_universe) alltargs = true.
Proof. vm_compute. reflexivity. Qed.

Lemma promote_facts tg t w :
  In tg alltargs -> In t real_universe -> In w widths -> valid_width t w = true -> promote_ok tg t w = true.
Proof. intros. now apply (sweep3 promote_ok alltargs real_universe widths promote_sweep). Qed.

(* Bound: the three targets, every basic arithmetic type and two enum types per integer base,
   "not a bit-field" and every bit-field width 1..64 that fits the type. *)
Theorem promote_spec : forall tg t w b,
  In tg alltargs -> In t real_universe -> In w widths -> valid_width t w = true -> erase t = Some b ->
  erase (typepromote tg t w) = Some (default_promote (abi_of tg) b (wopt w))
  /\ (typepromote tg t w = t \/ exists b', typepromote tg t w = TBasic b').
Proof.
  intros tg t w b Htg Ht Hw Hv He.
  pose proof (promote_facts tg t w Htg Ht Hw Hv) as H.
  unfold promote_ok in H. rewrite Hv in H. simpl in H.
  apply andb_true_iff in H. destruct H as [H _].
  apply andb_true_iff in H. destruct H as [H _].
  apply andb_true_iff in H. destruct H as [H1 H2].
  apply obasic_eqb_eq in H1. rewrite He in H1. simpl in H1. split; [exact H1|].
  apply orb_true_iff in H2. destruct H2 as [H2|H2].
  - left. now apply same_object_eq.
  - right. destruct (typepromote tg t w); try discriminate H2. eauto.
Qed.

(* a bit-field that fills its storage unit is not an EXPRBITFIELD in the C (bits.before = bits.after = 0):
   it is typed with width -1; that makes no difference *)
Lemma promote_fullwidth_sweep :
  forallb (fun tg => forallb (fun t =>
     same_object (typepromote tg t ((8 * size t) mod M32)) (typepromote tg t NOWIDTH)) int_universe) alltargs = true.
Proof. vm_compute. reflexivity. Qed.

Theorem promote_fullwidth : forall tg t, In tg alltargs -> In t int_universe ->
  typepromote tg t (8 * size t) = typepromote tg t NOWIDTH.
Proof.
  intros tg t Htg Ht.
  pose proof (sweep2 _ alltargs int_universe promote_fullwidth_sweep tg t Htg Ht) as H.
  apply same_object_eq in H. rewrite <- H. f_equal.
  unfold int_universe in Ht. repeat (apply in_app_or in Ht; destruct Ht as [Ht|Ht]);
  apply in_map_iff in Ht; destruct Ht as (b & <- & Hb); destruct b; reflexivity.
Qed.

(* ------------------------------------------------------------------ usual arithmetic conversions *)
(* typecommonreal = float/assert head, then `core` on the promoted operands (definitional) *)
Definition head (t1 t2 : ty) : option (option ty) :=
  if negb (has (prop t1) PROPREAL && has (prop t2) PROPREAL) then Some None
  else if is_basic t1 BLDouble || is_basic t2 BLDouble then Some (Some (TBasic BLDouble))
  else if is_basic t1 BDouble || is_basic t2 BDouble then Some (Some (TBasic BDouble))
  else if is_basic t1 BFloat || is_basic t2 BFloat then Some (Some (TBasic BFloat))
  else None.

Definition core (tg : target) (t1 t2 : ty) : option ty :=
  let t1 := enum_base_of t1 in
  let t2 := enum_base_of t2 in
  if same_object t1 t2 then Some t1
  else if Bool.eqb (issigned tg t1) (issigned tg t2) then
    Some (if typerank t1 >? typerank t2 then t1 else t2)
  else
    let '(t1, t2) := if issigned tg t1 then (t2, t1) else (t1, t2) in
    if typerank t1 >=? typerank t2 then Some t1
    else if size t1 <? size t2 then Some t2
    else if is_basic t2 BLong then Some (TBasic BULong)
    else if is_basic t2 BLLong then Some (TBasic BULLong)
    else None.

Lemma commonreal_unfold tg t1 w1 t2 w2 :
  typecommonreal tg t1 w1 t2 w2 =
  match head t1 t2 with
  | Some r => r
  | None => core tg (typepromote tg t1 w1) (typepromote tg t2 w2)
  end.
Proof.
  unfold typecommonreal, head, core.
  destruct (negb (has (prop t1) PROPREAL && has (prop t2) PROPREAL)); [reflexivity|].
  destruct (is_basic t1 BLDouble || is_basic t2 BLDouble); [reflexivity|].
  destruct (is_basic t1 BDouble || is_basic t2 BDouble); [reflexivity|].
  destruct (is_basic t1 BFloat || is_basic t2 BFloat); reflexivity.
Qed.

Definition head_spec (b1 b2 : basic) : option basic :=
  if basic_eqb b1 BLDouble || basic_eqb b2 BLDouble then Some BLDouble
  else if basic_eqb b1 BDouble || basic_eqb b2 BDouble then Some BDouble
  else if basic_eqb b1 BFloat || basic_eqb b2 BFloat then Some BFloat
  else None.

Definition core_spec (a : abi) (p1 p2 : basic) : basic :=
  if basic_eqb p1 p2 then p1
  else if Bool.eqb (is_signed a p1) (is_signed a p2) then
    if c_rank p1 <? c_rank p2 then p2 else p1
  else
    let u := if is_signed a p1 then p2 else p1 in
    let s := if is_signed a p1 then p1 else p2 in
    if c_rank s <=? c_rank u then u
    else if represents (range a s None) (range a u None) then s
    else corresponding_unsigned s.

Lemma uac_unfold a b1 w1 b2 w2 :
  uac a b1 w1 b2 w2 =
  match head_spec b1 b2 with
  | Some r => r
  | None => core_spec a (int_promote a b1 w1) (int_promote a b2 w2)
  end.
Proof.
  unfold uac, head_spec, core_spec.
  destruct (basic_eqb b1 BLDouble || basic_eqb b2 BLDouble); [reflexivity|].
  destruct (basic_eqb b1 BDouble || basic_eqb b2 BDouble); [reflexivity|].
  destruct (basic_eqb b1 BFloat || basic_eqb b2 BFloat); reflexivity.
Qed.

Definition obasic_of (t : ty) : basic := match erase t with Some b => b | None => BBool end.

Definition head_ok (t1 t2 : ty) : bool :=
  match head t1 t2, head_spec (obasic_of t1) (obasic_of t2) with
  | Some (Some r), Some b => same_object r (TBasic b)
  | None, None => has (prop t1) PROPINT && has (prop t2) PROPINT
  | _, _ => false
  end.

Lemma head_sweep : forallb (fun t1 => forallb (head_ok t1) real_universe) real_universe = true.
Proof. vm_compute. reflexivity. Qed.

Definition core_ok (tg : target) (p1 p2 : ty) : bool :=
  match core tg p1 p2 with
  | Some r => obasic_eqb (erase r) (Some (core_spec (abi_of tg) (obasic_of p1) (obasic_of p2)))
              && match r with TBasic _ => true | _ => false end
  | None => false
  end.

Lemma core_sweep :
  forallb (fun tg => forallb (fun p1 => forallb (core_ok tg p1) promoted_universe) promoted_universe) alltargs = true.
Proof. vm_compute. reflexivity. Qed.

Lemma existsb_same_object_In t l : existsb (same_object t) l = true -> In t l.
Proof.
  intro H. apply existsb_exists in H. destruct H as (x & Hx & Hs). apply same_object_eq in Hs. now subst.
Qed.

Lemma promote_int_facts tg t w b :
  In tg alltargs -> In t real_universe -> In w widths -> valid_width t w = true -> erase t = Some b ->
  has (prop t) PROPINT = true ->
  In (typepromote tg t w) promoted_universe
  /\ erase (typepromote tg t w) = Some (int_promote (abi_of tg) b (wopt w))
  /\ typepromote tg (typepromote tg t w) NOWIDTH = typepromote tg t w.
Proof.
  intros Htg Ht Hw Hv He Hi.
  pose proof (promote_facts tg t w Htg Ht Hw Hv) as H.
  unfold promote_ok in H. rewrite Hv, Hi in H. simpl in H.
  apply andb_true_iff in H. destruct H as [_ H].
  apply andb_true_iff in H. destruct H as [H H4].
  apply andb_true_iff in H. destruct H as [H1 H2].
  repeat split.
  - now apply existsb_same_object_In.
  - apply obasic_eqb_eq in H2. rewrite He in H2. exact H2.
  - now apply same_object_eq.
Qed.

Lemma exprpromote_type tg t w c :
  otype (exprpromote tg (mkop t w c)) = otype (exprpromote tg (mkop t w None)).
Proof.
  unfold exprpromote, exprconvert. cbn [otype owidth].
  destruct (typecompatible t (typepromote tg t w)); reflexivity.
Qed.

(* exprpromote leaves an expression whose type is compatible with the promoted type as it is (an enum
   with base int stays that enum): the same type up to erasure *)
Lemma exprpromote_erase tg t w c :
  In tg alltargs -> In t real_universe -> In w widths -> valid_width t w = true ->
  erase (otype (exprpromote tg (mkop t w c))) = erase (typepromote tg t w).
Proof.
  intros Htg Ht Hw Hv. rewrite exprpromote_type.
  pose proof (promote_facts tg t w Htg Ht Hw Hv) as H.
  unfold promote_ok in H. rewrite Hv in H. cbn [implb] in H.
  apply andb_true_iff in H. destruct H as [H _].
  apply andb_true_iff in H. destruct H as [_ H].
  now apply obasic_eqb_eq.
Qed.

(* Bound: as promote_spec, for both operands.  The result is always one of the basic types. *)
Theorem uac_spec : forall tg t1 w1 t2 w2 b1 b2,
  In tg alltargs -> In t1 real_universe -> In t2 real_universe -> In w1 widths -> In w2 widths ->
  valid_width t1 w1 = true -> valid_width t2 w2 = true ->
  erase t1 = Some b1 -> erase t2 = Some b2 ->
  typecommonreal tg t1 w1 t2 w2 = Some (TBasic (uac (abi_of tg) b1 (wopt w1) b2 (wopt w2))).
Proof.
  intros tg t1 w1 t2 w2 b1 b2 Htg Ht1 Ht2 Hw1 Hw2 Hv1 Hv2 He1 He2.
  rewrite commonreal_unfold, uac_unfold.
  pose proof (sweep2 head_ok real_universe real_universe head_sweep t1 t2 Ht1 Ht2) as Hh.
  unfold head_ok, obasic_of in Hh. rewrite He1, He2 in Hh.
  destruct (head t1 t2) as [[r|]|]; destruct (head_spec b1 b2) as [b|]; try discriminate Hh.
  - apply same_object_eq in Hh. subst r. reflexivity.
  - apply andb_true_iff in Hh. destruct Hh as [Hi1 Hi2].
    destruct (promote_int_facts tg t1 w1 b1 Htg Ht1 Hw1 Hv1 He1 Hi1) as (Pa & Pb & _).
    destruct (promote_int_facts tg t2 w2 b2 Htg Ht2 Hw2 Hv2 He2 Hi2) as (Qa & Qb & _).
    pose proof (sweep3 core_ok alltargs promoted_universe promoted_universe core_sweep tg _ _ Htg Pa Qa) as Hc.
    unfold core_ok, obasic_of in Hc. rewrite Pb, Qb in Hc.
    destruct (core tg (typepromote tg t1 w1) (typepromote tg t2 w2)) as [r|]; [|discriminate Hc].
    apply andb_true_iff in Hc. destruct Hc as [Hc Hb]. apply obasic_eqb_eq in Hc.
    destruct r; try discriminate Hb. simpl in Hc. congruence.
Qed.

(* ------------------------------------------------------------------ typehasint *)
(* the value an `unsigned long long` carrier stands for when `sign` says it is a negated magnitude *)
Definition sval (sign : bool) (i : Z) : Z := if sign && (2 ^ 63 <=? i) then i - 2 ^ 64 else i.

Ltac bsolve :=
  repeat match goal with
         | |- context [Z.leb ?a ?b] => destruct (Z.leb_spec a b)
         | |- context [Z.ltb ?a ?b] => destruct (Z.ltb_spec a b)
         end; simpl; try reflexivity; try lia.

Lemma hasint_basic (sc : bool) n w b i sign :
  is_integer b = true -> b <> BBool -> 0 <= i < 2 ^ 64 ->
  typehasint (mktarget n sc w) (TBasic b) i sign
  = (lo (mkabi sc w) b <=? sval sign i) && (sval sign i <=? hi (mkabi sc w) b).
Proof.
  intros Hi Hb Hr.
  unfold typehasint, sval, lo, hi. rewrite !Z.geb_leb.
  destruct b; try discriminate Hi; try congruence; destruct sc; destruct sign;
  cbn [issigned bsigned signedchar basic_signed_init basic_row size basic_size fst snd b2z andb
       range is_signed char_signed bits];
  match goal with
  | |- context [Z.shiftl ?a ?b mod ?m] =>
      let v := eval vm_compute in (Z.shiftl a b mod m) in change (Z.shiftl a b mod m) with v
  | _ => idtac
  end;
  match goal with
  | |- context [Z.shiftr ?a ?b] =>
      let v := eval vm_compute in (Z.shiftr a b) in change (Z.shiftr a b) with v
  | _ => idtac
  end;
  change (2 ^ 63) with 9223372036854775808 in *;
  change (2 ^ 64) with 18446744073709551616 in *;
  cbn [Z.sub Z.opp Z.pow Z.pow_pos Pos.iter Z.mul Pos.mul Z.add Pos.add Pos.succ Z.pos_sub Pos.pred_double
       Z.succ_double Z.pred_double Z.double];
  bsolve.
Qed.

(* typehasint t i sign  <->  the value fits t.  For every target record (not only the three), every
   integer type other than _Bool (basic or enum) and every 64-bit carrier. *)
Theorem hasint_spec : forall tg t b i sign,
  erase t = Some b -> is_integer b = true -> b <> BBool -> 0 <= i < 2 ^ 64 ->
  typehasint tg t i sign
  = (lo (abi_of tg) b <=? sval sign i) && (sval sign i <=? hi (abi_of tg) b).
Proof.
  intros [n sc w] t b i sign He Hi Hb Hr. unfold abi_of. simpl signedchar. simpl wchar.
  destruct t; try discriminate He; inversion He; subst.
  - now apply hasint_basic.
  - rewrite <- (hasint_basic sc n w b i sign Hi Hb Hr). reflexivity.
Qed.

(* _Bool is treated as an 8-bit unsigned type by typehasint (matters only for `enum E : _Bool`) *)
Theorem hasint_bool_refuted : exists tg, typehasint tg (TBasic BBool) 2 false = true /\ hi (abi_of tg) BBool = 1.
Proof. exists (mktarget 0 true BInt). split; reflexivity. Qed.

(* ------------------------------------------------------------------ integer constants *)
Local Opaque typehasint.

Theorem inttype_spec : forall tg v decimal s sfx,
  0 <= v < 2 ^ 64 -> In sfx (suffix_spellings s) ->
  inttype tg v decimal sfx = literal_type (abi_of tg) v decimal s.
Proof.
  intros tg v decimal s sfx Hv Hin.
  assert (HS : forall b, is_integer b = true -> b <> BBool ->
            typehasint tg (TBasic b) v false = (lo (abi_of tg) b <=? v) && (v <=? hi (abi_of tg) b)).
  { intros b Hi Hb. rewrite (hasint_spec tg (TBasic b) b v false eq_refl Hi Hb Hv). reflexivity. }
  destruct s; simpl in Hin; repeat (destruct Hin as [<-|Hin]; [|]); try contradiction;
  destruct decimal; unfold inttype, literal_type; simpl;
  rewrite ?HS by (try reflexivity; discriminate); reflexivity.
Qed.

Local Transparent typehasint.

(* conversely, every suffix inttype accepts is one of the spellings of 6.4.4.1 (before /repo 'fix: reject the integer
   suffixes lL and Ll' this was refuted by `lL`) *)
Lemma str_eqb_eq : forall a b, str_eqb a b = true -> a = b.
Proof.
  induction a as [|x a IH]; destruct b as [|y b]; simpl; intros H; try discriminate; [reflexivity|].
  apply andb_true_iff in H. destruct H as [H1 H2]. apply Z.eqb_eq in H1. subst. f_equal. apply IH. exact H2.
Qed.

Lemma suffix_index_found : forall l, Nat.eqb (suffix_index limits l 0) 6 = false ->
  In l [[]; [117]; [108]; [117;108]; [108;117]; [108;108]; [117;108;108]; [108;108;117]].
Proof.
  intros l H. unfold limits in H. cbn [suffix_index negb] in H.
  destruct (str_eqb l []) eqn:E0; [apply str_eqb_eq in E0; subst; simpl; tauto|].
  destruct (str_eqb l [117]) eqn:E1; [apply str_eqb_eq in E1; subst; simpl; tauto|].
  destruct (str_eqb l [108]) eqn:E2; [apply str_eqb_eq in E2; subst; simpl; tauto|].
  destruct (str_eqb l [117;108]) eqn:E3; [apply str_eqb_eq in E3; subst; simpl; tauto|].
  destruct (str_eqb l [108;117]) eqn:E4; [apply str_eqb_eq in E4; subst; simpl; tauto|].
  destruct (str_eqb l [108;108]) eqn:E5; [apply str_eqb_eq in E5; subst; simpl; tauto|].
  destruct (str_eqb l [117;108;108]) eqn:E6; [apply str_eqb_eq in E6; subst; simpl; tauto|].
  destruct (str_eqb l [108;108;117]) eqn:E7; [apply str_eqb_eq in E7; subst; simpl; tauto|].
  simpl in H. discriminate.
Qed.

Lemma tolower_u : forall c, tolower c = 117 -> c = 117 \/ c = 85.
Proof. intros c. unfold tolower. destruct ((65 <=? c) && (c <=? 90)) eqn:E; lia. Qed.
Lemma tolower_l : forall c, tolower c = 108 -> c = 108 \/ c = 76.
Proof. intros c. unfold tolower. destruct ((65 <=? c) && (c <=? 90)) eqn:E; lia. Qed.

Ltac pick_spelling :=
  first [ exists SNone; cbn; tauto | exists SU; cbn; tauto | exists SL; cbn; tauto | exists SUL; cbn; tauto
        | exists SLL; cbn; tauto | exists SULL; cbn; tauto ].

Theorem inttype_suffix_complete : forall tg v decimal sfx b,
  inttype tg v decimal sfx = Some b -> exists s, In sfx (suffix_spellings s).
Proof.
  intros tg v decimal sfx b H. unfold inttype in H.
  destruct (mixed_ll sfx) eqn:M; [discriminate|].
  destruct (Nat.eqb (suffix_index limits (map tolower sfx) 0) (length limits)) eqn:E; [discriminate|]. clear H.
  apply suffix_index_found in E.
  destruct sfx as [|c1 [|c2 [|c3 [|c4 r]]]]; simpl in E;
    repeat (destruct E as [E|E]; [try discriminate E|]); try contradiction;
    try (injection E as E1 E2 E3); try (injection E as E1 E2); try (injection E as E1);
    repeat match goal with
           | H : _ = tolower _ |- _ => symmetry in H
           | H : tolower _ = 117 |- _ => apply tolower_u in H; destruct H; subst
           | H : tolower _ = 108 |- _ => apply tolower_l in H; destruct H; subst
           end;
    try (simpl in M; discriminate M); pick_spelling.
Qed.

(* the rejection itself: `1lL` and `1Ll` have no type *)
Theorem inttype_mixed_ll_rejected : forall tg v decimal,
  inttype tg v decimal [108; 76] = None /\ inttype tg v decimal [76; 108] = None /\
  inttype tg v decimal [117; 76; 108] = None /\ inttype tg v decimal [108; 76; 85] = None.
Proof. intros. repeat split; reflexivity. Qed.

Theorem floattype_spec : forall sfx b, In (sfx, b) float_suffixes -> floattype sfx = Some b.
Proof.
  intros sfx b H. simpl in H.
  repeat (destruct H as [H|H]; [inversion H; subst; reflexivity|]). contradiction.
Qed.

(* ------------------------------------------------------------------ character constants, strings, sizeof *)
Theorem charconst_spec_all : forall tg p, In tg alltargs ->
  charconst_type tg p = charconst_spec (abi_of tg) p.
Proof. intros tg p _. destruct p; reflexivity. Qed.

Theorem string_elem_spec_partial : forall tg p, p <> Pu8 ->
  string_elem tg p = string_elem_spec (abi_of tg) p.
Proof. intros tg p H. destruct p; try reflexivity. congruence. Qed.

(* C11 gives u8"..." the element type char; the code follows C23 (unsigned char) *)
Theorem string_elem_u8_refuted : exists tg, string_elem tg Pu8 <> string_elem_spec (abi_of tg) Pu8.
Proof. exists (mktarget 0 true BInt). discriminate. Qed.

(* 6.4.5p6: a string literal of n code units (terminator included) has type "array of n elem" *)
Theorem strlit_type_spec : forall tg p n, p <> Pu8 -> 0 < n ->
  strlit_type tg p n = strlit_spec (abi_of tg) p n.
Proof.
  intros tg p n H Hn. unfold strlit_type, strlit_spec.
  destruct (Z.eqb_spec n 0); [lia|]. destruct p; try congruence; reflexivity.
Qed.

Theorem strlit_decay_spec : forall tg p n, p <> Pu8 -> 0 < n ->
  decay (strlit_type tg p n) 0 = decay (strlit_spec (abi_of tg) p n) 0.
Proof. intros tg p n H Hn. rewrite (strlit_type_spec tg p n H Hn). reflexivity. Qed.

Theorem sizeof_spec : sizeof_type = size_t /\ ptrdiff_type = ptrdiff_t.
Proof. split; reflexivity. Qed.

(* ------------------------------------------------------------------ compatibility *)
Section TyInd.
  Variable P : ty -> Prop.
  Hypothesis Hvoid : P TVoid.
  Hypothesis Hbasic : forall b, P (TBasic b).
  Hypothesis Henum : forall i b, P (TEnum i b).
  Hypothesis Hptr : forall b q, P b -> P (TPtr b q).
  Hypothesis Harr : forall b q l, P b -> P (TArr b q l).
  Hypothesis Hfunc : forall r q ps v, P r -> Forall P ps -> P (TFunc r q ps v).
  Hypothesis Hstruct : forall i, P (TStruct i).
  Hypothesis Hunion : forall i, P (TUnion i).
  Hypothesis Hnull : P TNullptr.

  Fixpoint ty_ind' (t : ty) : P t :=
    match t with
    | TVoid => Hvoid
    | TBasic b => Hbasic b
    | TEnum i b => Henum i b
    | TPtr b q => Hptr b q (ty_ind' b)
    | TArr b q l => Harr b q l (ty_ind' b)
    | TFunc r q ps v =>
        Hfunc r q ps v (ty_ind' r)
          ((fix go (l : list ty) : Forall P l :=
              match l with
              | [] => Forall_nil P
              | x :: l' => Forall_cons x (ty_ind' x) (go l')
              end) ps)
    | TStruct i => Hstruct i
    | TUnion i => Hunion i
    | TNullptr => Hnull
    end.
End TyInd.

Fixpoint list_compat (f : ty -> ty -> bool) (l1 l2 : list ty) : bool :=
  match l1, l2 with
  | [], [] => true
  | p1 :: l1', p2 :: l2' => f p1 p2 && list_compat f l1' l2'
  | _, _ => false
  end.

Lemma typecompatible_func r1 q1 ps1 v1 r2 q2 ps2 v2 :
  typecompatible (TFunc r1 q1 ps1 v1) (TFunc r2 q2 ps2 v2)
  = Bool.eqb v1 v2 && list_compat typecompatible ps1 ps2 && (q1 =? q2) && typecompatible r1 r2.
Proof.
  simpl. f_equal. f_equal. f_equal.
  revert ps2. induction ps1 as [|p ps1 IH]; intros [|p2 ps2]; simpl; try reflexivity.
  rewrite IH. reflexivity.
Qed.

Lemma same_object_refl_atomic t : atomic t -> same_object t t = true.
Proof.
  destruct t; simpl; intro H; try contradiction; try reflexivity;
  rewrite ?Z.eqb_refl, ?basic_eqb_refl; reflexivity.
Qed.

Theorem compat_refl : forall t, typecompatible t t = true.
Proof.
  induction t using ty_ind'; try reflexivity.
  - simpl. apply basic_eqb_refl.
  - simpl. rewrite Z.eqb_refl, basic_eqb_refl. reflexivity.
  - simpl. rewrite Z.eqb_refl, IHt. reflexivity.
  - simpl. rewrite Z.eqb_refl, IHt. destruct l; simpl; rewrite ?Z.eqb_refl; reflexivity.
  - rewrite typecompatible_func. rewrite Bool.eqb_reflx, Z.eqb_refl, IHt.
    assert (list_compat typecompatible ps ps = true) as ->.
    { induction H as [|x l Hx Hl IH]; simpl; [reflexivity|]. rewrite Hx, IH. reflexivity. }
    reflexivity.
  - simpl. apply Z.eqb_refl.
  - simpl. apply Z.eqb_refl.
Qed.

Lemma basic_eqb_sym a b : basic_eqb a b = basic_eqb b a.
Proof. destruct a, b; reflexivity. Qed.

Lemma alen_ok_sym a b : alen_ok a b = alen_ok b a.
Proof. destruct a, b; simpl; try reflexivity. apply Z.eqb_sym. Qed.

Lemma same_object_sym a b : same_object a b = same_object b a.
Proof.
  destruct a, b; simpl; try reflexivity; rewrite ?(Z.eqb_sym id), ?(Z.eqb_sym i); try apply basic_eqb_sym;
  try reflexivity.
  rewrite (basic_eqb_sym base). reflexivity.
Qed.

Theorem compat_sym : forall t1 t2, typecompatible t1 t2 = typecompatible t2 t1.
Proof.
  induction t1 using ty_ind'; intros t2; destruct t2;
    try reflexivity; try (simpl; apply basic_eqb_sym).
  - simpl. rewrite (Z.eqb_sym i), (basic_eqb_sym b). reflexivity.
  - simpl. rewrite (Z.eqb_sym q), IHt1. reflexivity.
  - simpl. rewrite (Z.eqb_sym q), IHt1, (alen_ok_sym l). reflexivity.
  - rewrite !typecompatible_func.
    rewrite (Z.eqb_sym q), IHt1.
    replace (Bool.eqb v vararg) with (Bool.eqb vararg v) by (destruct v, vararg; reflexivity).
    f_equal. f_equal. f_equal.
    revert params. induction H as [|x l Hx Hl IH]; intros [|y l2]; simpl; try reflexivity.
    rewrite Hx, IH. reflexivity.
  - simpl. apply Z.eqb_sym.
  - simpl. apply Z.eqb_sym.
Qed.

Lemma len_compatible_iff a b : alen_ok a b = true <-> len_compatible a b.
Proof. destruct a, b; simpl; try tauto. apply Z.eqb_eq. Qed.

Lemma compat_sound : forall t1 t2, typecompatible t1 t2 = true -> Compatible t1 t2.
Proof.
  induction t1 using ty_ind'; intros t2 Hc; destruct t2; simpl in Hc; try discriminate Hc;
    try (apply C_same; exact I).
  - apply basic_eqb_eq in Hc. subst. apply C_same. exact I.
  - apply basic_eqb_eq in Hc. subst. apply C_enum_r.
  - apply basic_eqb_eq in Hc. subst. apply C_enum_l.
  - apply andb_true_iff in Hc. destruct Hc as [A B]. apply Z.eqb_eq in A. apply basic_eqb_eq in B.
    subst. apply C_same. exact I.
  - apply andb_true_iff in Hc. destruct Hc as [A B]. apply Z.eqb_eq in A. subst. apply C_ptr. auto.
  - apply andb_true_iff in Hc. destruct Hc as [Hc B]. apply andb_true_iff in Hc. destruct Hc as [L A].
    apply Z.eqb_eq in A. subst. apply C_arr; [auto|]. now apply len_compatible_iff.
  - change (typecompatible (TFunc t1 q ps v) (TFunc t2 q0 params vararg) = true) in Hc.
    rewrite typecompatible_func in Hc.
    apply andb_true_iff in Hc. destruct Hc as [Hc R]. apply andb_true_iff in Hc. destruct Hc as [Hc Q].
    apply andb_true_iff in Hc. destruct Hc as [V L].
    apply Z.eqb_eq in Q. apply Bool.eqb_prop in V. subst.
    apply C_func; [auto|].
    revert params L. induction H as [|x l Hx Hl IH]; intros [|y l2] L; simpl in L; try discriminate L.
    + constructor.
    + apply andb_true_iff in L. destruct L as [L1 L2]. constructor; auto.
  - apply Z.eqb_eq in Hc. subst. apply C_same. exact I.
  - apply Z.eqb_eq in Hc. subst. apply C_same. exact I.
Qed.

Lemma compat_complete : forall t1 t2, Compatible t1 t2 -> typecompatible t1 t2 = true.
Proof.
  induction t1 using ty_ind'; intros t2 Hc; inversion Hc; subst; try apply compat_refl;
    try (simpl; apply basic_eqb_refl).
  - simpl. rewrite Z.eqb_refl. simpl. auto.
  - simpl. rewrite Z.eqb_refl, IHt1 by assumption.
    match goal with H : len_compatible _ _ |- _ => apply len_compatible_iff in H; rewrite H end. reflexivity.
  - rewrite typecompatible_func. rewrite Bool.eqb_reflx, Z.eqb_refl, IHt1 by assumption.
    assert (list_compat typecompatible ps ps2 = true) as ->; [|reflexivity].
    match goal with HF : Forall2 Compatible ps ps2 |- _ => revert HF end.
    clear Hc. generalize ps2. induction H as [|x l Hx Hl IH]; intros l2 HF; inversion HF; subst; simpl; [reflexivity|].
    rewrite Hx by assumption. rewrite IH by assumption. reflexivity.
Qed.

(* typecompatible decides 6.2.7 compatibility on the whole (infinite) type universe of the model *)
Theorem compat_spec : forall t1 t2, typecompatible t1 t2 = true <-> Compatible t1 t2.
Proof. intros. split; [apply compat_sound|apply compat_complete]. Qed.

(* typeadjust (6.7.6.3p7-8): array of T -> qualified pointer to T, function -> pointer to function *)
Theorem typeadjust_spec : forall t tq pq,
  match t with
  | TArr b q _ => typeadjust t tq pq = Some (TPtr b (Z.lor tq q), pq)
  | TFunc _ _ _ _ => tq = 0 -> typeadjust t tq pq = Some (TPtr t 0, 0)
  | _ => typeadjust t tq pq = Some (t, tq)
  end.
Proof. intros. destruct t; try reflexivity. intros ->. reflexivity. Qed.

(* ------------------------------------------------------------------ binary and unary operators *)
Definition flags_ok (t : ty) : bool :=
  match erase t with
  | Some b => Bool.eqb (has (prop t) PROPINT) (is_integer b) && has (prop t) PROPARITH
              && has (prop t) PROPREAL && has (prop t) PROPSCALAR && negb (is_ptr t)
  | None => false
  end.

Lemma flags_sweep : forallb flags_ok real_universe = true.
Proof. vm_compute. reflexivity. Qed.

Lemma flags t b : In t real_universe -> erase t = Some b ->
  has (prop t) PROPINT = is_integer b /\ has (prop t) PROPARITH = true
  /\ has (prop t) PROPREAL = true /\ has (prop t) PROPSCALAR = true.
Proof.
  intros Ht He. pose proof flags_sweep as H. rewrite forallb_forall in H. specialize (H t Ht).
  unfold flags_ok in H. rewrite He in H.
  repeat (apply andb_true_iff in H; destruct H as [H ?]). apply Bool.eqb_prop in H. auto.
Qed.

Definition agree (m : option ty) (s : option basic) : Prop :=
  match m, s with
  | Some r, Some b => erase r = Some b
  | None, None => True
  | _, _ => False
  end.

(* Bound: as uac_spec, every binary operator, any constant-ness of the operands. *)
Theorem binop_type_spec : forall tg op t1 w1 c1 t2 w2 c2 b1 b2,
  In tg alltargs -> In t1 real_universe -> In t2 real_universe -> In w1 widths -> In w2 widths ->
  valid_width t1 w1 = true -> valid_width t2 w2 = true ->
  erase t1 = Some b1 -> erase t2 = Some b2 ->
  agree (binop_type tg op (mkop t1 w1 c1) (mkop t2 w2 c2))
        (binop_spec (abi_of tg) op (b1, wopt w1) (b2, wopt w2)).
Proof.
  intros tg op t1 w1 c1 t2 w2 c2 b1 b2 Htg Ht1 Ht2 Hw1 Hw2 Hv1 Hv2 He1 He2.
  destruct (flags t1 b1 Ht1 He1) as (I1 & A1 & R1 & S1).
  destruct (flags t2 b2 Ht2 He2) as (I2 & A2 & R2 & S2).
  pose proof (uac_spec tg t1 w1 t2 w2 b1 b2 Htg Ht1 Ht2 Hw1 Hw2 Hv1 Hv2 He1 He2) as Hr.
  assert (Hp : erase (otype (exprpromote tg (mkop t1 w1 c1))) = Some (int_promote (abi_of tg) b1 (wopt w1))
               \/ is_integer b1 = false).
  { destruct (is_integer b1) eqn:E; [left|right; reflexivity].
    rewrite (exprpromote_erase tg t1 w1 c1 Htg Ht1 Hw1 Hv1).
    exact (proj1 (proj2 (promote_int_facts tg t1 w1 b1 Htg Ht1 Hw1 Hv1 He1 I1))). }
  unfold binop_type, binop_spec, commonreal; cbn [otype owidth oconst];
  rewrite ?A1, ?A2, ?R1, ?R2, ?S1, ?S2, ?I1, ?I2, ?Hr; cbn [andb negb orb];
  destruct op; cbn [agree erase]; try reflexivity;
  destruct (is_integer b1) eqn:E1, (is_integer b2); cbn [andb negb orb agree erase]; auto;
  destruct Hp as [Hp|Hp]; try exact Hp; discriminate Hp.
Qed.

Definition unop_ok (tg : target) (t : ty) (w : Z) : bool :=
  implb (valid_width t w)
    (forallb (fun op =>
       match unop_type tg op (mkop t w None), option_map (fun b => unop_spec (abi_of tg) op (b, wopt w)) (erase t) with
       | Some r, Some (Some b) => obasic_eqb (erase r) (Some b)
       | None, Some None => true
       | _, _ => false
       end) [UPlus; UMinus; UBnot; ULnot]).

Lemma unop_sweep :
  forallb (fun tg => forallb (fun t => forallb (unop_ok tg t) widths) real_universe) alltargs = true.
Proof. vm_compute. reflexivity. Qed.

Theorem unop_type_spec : forall tg op t w b,
  In tg alltargs -> In t real_universe -> In w widths -> valid_width t w = true -> erase t = Some b ->
  agree (unop_type tg op (mkop t w None)) (unop_spec (abi_of tg) op (b, wopt w)).
Proof.
  intros tg op t w b Htg Ht Hw Hv He.
  pose proof (sweep3 unop_ok alltargs real_universe widths unop_sweep tg t w Htg Ht Hw) as H.
  unfold unop_ok in H. rewrite Hv in H. cbn [implb] in H. rewrite forallb_forall in H.
  assert (Hop : In op [UPlus; UMinus; UBnot; ULnot]) by (destruct op; simpl; auto).
  specialize (H op Hop). rewrite He in H. cbn [option_map] in H.
  unfold agree.
  destruct (unop_type tg op (mkop t w None)); destruct (unop_spec (abi_of tg) op (b, wopt w));
    try discriminate H; auto.
  now apply obasic_eqb_eq.
Qed.

(* ---- pointer arithmetic (all types, no bound) ---- *)
Definition object_ptr (p : ty) : Prop :=
  match p with TPtr b _ => incomplete b = false /\ is_func b = false | _ => False end.

Definition int_operand (t : ty) : Prop := has (prop t) PROPINT = true.

Lemma int_not_ptr t : int_operand t -> is_ptr t = false /\ has (prop t) PROPARITH = true.
Proof.
  unfold int_operand. destruct t; simpl; try discriminate; auto.
  destruct b; simpl; try discriminate; auto.
Qed.

(* 6.5.6p8: pointer +- integer has the type of the pointer operand; 6.5.6p9: the difference of two
   pointers to compatible object types is ptrdiff_t *)
Theorem ptr_arith_spec : forall tg p t wp wt cp ct,
  object_ptr p -> int_operand t ->
  binop_type tg OAdd (mkop p wp cp) (mkop t wt ct) = Some p
  /\ binop_type tg OAdd (mkop t wt ct) (mkop p wp cp) = Some p
  /\ binop_type tg OSub (mkop p wp cp) (mkop t wt ct) = Some p
  /\ binop_type tg OSub (mkop t wt ct) (mkop p wp cp) = None.
Proof.
  intros tg p t wp wt cp ct Hp Ht. destruct (int_not_ptr t Ht) as [Np At].
  destruct p; simpl in Hp; try contradiction. destruct Hp as [Hc Hf].
  unfold binop_type; cbn [otype owidth oconst prop]. unfold int_operand in Ht.
  rewrite Ht, At, Np. cbn [is_ptr ptr_base andb orb negb has PROPSCALAR PROPARITH Z.land].
  replace (has PROPSCALAR PROPARITH) with false by reflexivity.
  replace (has PROPSCALAR PROPINT) with false by reflexivity.
  cbn [andb orb negb]. rewrite ?Ht. cbn [andb orb negb otype is_ptr ptr_base]. rewrite ?Hc, ?Hf.
  cbn [andb orb negb]. auto.
Qed.

Theorem ptr_diff_spec : forall tg b1 q1 b2 q2 w1 w2 c1 c2,
  object_ptr (TPtr b1 q1) ->
  binop_type tg OSub (mkop (TPtr b1 q1) w1 c1) (mkop (TPtr b2 q2) w2 c2)
  = if typecompatible b1 b2 then Some (TBasic ptrdiff_t) else None.
Proof.
  intros tg b1 q1 b2 q2 w1 w2 c1 c2 [Hc Hf].
  unfold binop_type; cbn [otype owidth oconst prop is_ptr ptr_base].
  replace (has PROPSCALAR PROPARITH) with false by reflexivity.
  replace (has PROPSCALAR PROPINT) with false by reflexivity.
  cbn [andb orb negb]. rewrite Hc, Hf. reflexivity.
Qed.

(* ------------------------------------------------------------------ conditional operator *)
(* both operands arithmetic (6.5.15p5): the usual arithmetic conversions, also when the two operands have
   the same type *)
Theorem cond_arith_spec_all : forall tg t1 w1 c1 t2 w2 c2 b1 b2,
  In tg alltargs -> In t1 real_universe -> In t2 real_universe -> In w1 widths -> In w2 widths ->
  valid_width t1 w1 = true -> valid_width t2 w2 = true ->
  erase t1 = Some b1 -> erase t2 = Some b2 ->
  cond_type tg (mkop t1 w1 c1) (mkop t2 w2 c2)
  = Some (TBasic (cond_arith_spec (abi_of tg) (b1, wopt w1) (b2, wopt w2))).
Proof.
  intros tg t1 w1 c1 t2 w2 c2 b1 b2 Htg Ht1 Ht2 Hw1 Hw2 Hv1 Hv2 He1 He2.
  destruct (flags t1 b1 Ht1 He1) as (_ & A1 & _).
  destruct (flags t2 b2 Ht2 He2) as (_ & A2 & _).
  unfold cond_type, commonreal, cond_arith_spec; cbn [otype owidth fst snd].
  rewrite A1, A2. cbn [andb]. now apply uac_spec.
Qed.

(* pointer operands (6.5.15p6), any pointed-to types: composite-compatible bases give a pointer to the
   (left) base with the union of the qualifiers, void on either side gives qualified void *)
Theorem cond_ptr_spec : forall tg b1 q1 b2 q2 w1 w2,
  cond_type tg (mkop (TPtr b1 q1) w1 None) (mkop (TPtr b2 q2) w2 None)
  = if same_object b1 TVoid || same_object b2 TVoid then Some (TPtr TVoid (Z.lor q1 q2))
    else if typecompatible b1 b2 then Some (TPtr b1 (Z.lor q1 q2)) else None.
Proof. intros. reflexivity. Qed.

(* the `lt == rt` shortcut agrees with the structural path on pointers (see Model/Types.v header) *)
Theorem cond_same_pointer : forall tg b q w1 w2,
  cond_type tg (mkop (TPtr b q) w1 None) (mkop (TPtr b q) w2 None) = Some (TPtr b q)
  \/ (same_object b TVoid = true /\
      cond_type tg (mkop (TPtr b q) w1 None) (mkop (TPtr b q) w2 None) = Some (TPtr TVoid q)).
Proof.
  intros. rewrite cond_ptr_spec. rewrite Z.lor_diag.
  destruct (same_object b TVoid) eqn:E; simpl.
  - right. auto.
  - left. rewrite compat_refl. reflexivity.
Qed.

(* a null pointer constant against a pointer gives the pointer's type (6.5.15p6) *)
Theorem cond_null_spec : forall tg p w v,
  is_ptr p = true ->
  cond_type tg (mkop (TBasic BInt) NOWIDTH (Some 0)) (mkop p w v) = Some p
  /\ cond_type tg (mkop p w None) (mkop (TBasic BInt) NOWIDTH (Some 0)) = Some p.
Proof.
  intros tg p w v Hp. destruct p; try discriminate Hp. split; reflexivity.
Qed.

(* 6.3.2.3p3: only an integer constant 0 or such a constant cast to an UNQUALIFIED pointer to void is a null pointer constant
   (since /repo bc52b9e, 'fix: only an unqualified null pointer to void is a null pointer constant') *)
Theorem nullpointer_qualified_void : forall q w v, q <> 0 ->
  nullpointer (mkop (TPtr TVoid q) w (Some v)) = false.
Proof.
  intros q w v Hq. unfold nullpointer. cbn.
  destruct (q =? 0) eqn:E; [apply Z.eqb_eq in E; contradiction|]. reflexivity.
Qed.
Theorem nullpointer_void_zero : forall w, nullpointer (mkop (TPtr TVoid 0) w (Some 0)) = true.
Proof. reflexivity. Qed.

(* ------------------------------------------------------------------ assignment conversion *)
(* 6.5.16.1p1 on the pointer bullet: accepted iff the right operand is a null pointer constant, or a
   pointer whose qualifiers the left side has and whose base is compatible or void on either side.
   (The standard wants "object type" beside void: a function pointer <-> void * is let through.) *)
Theorem exprassign_ptr_spec : forall e bt qt,
  exprassign_ok e (TPtr bt qt) = true <->
  nullpointer e = true
  \/ (exists be qe, otype e = TPtr be qe
        /\ (same_object bt TVoid = true \/ same_object be TVoid = true \/ Compatible bt be)
        /\ Z.land qe qt = qe).
Proof.
  intros e bt qt. unfold exprassign_ok. cbn [kind_of ptr_base ptr_qual].
  destruct (nullpointer e); [split; auto|].
  destruct (otype e) eqn:E; cbn [is_ptr negb ptr_base ptr_qual];
    try (split; [discriminate|intros [H|(be & qe & H & _)]; discriminate]).
  split.
  - intro H.
    destruct (same_object bt TVoid) eqn:E1; cbn [negb andb] in H.
    + right. exists t, q. apply Z.eqb_eq in H. auto.
    + destruct (same_object t TVoid) eqn:E2; cbn [negb andb] in H.
      * right. exists t, q. apply Z.eqb_eq in H. auto.
      * destruct (typecompatible bt t) eqn:E3; cbn [negb] in H; [|discriminate H].
        right. exists t, q. apply Z.eqb_eq in H. apply compat_spec in E3. auto.
  - intros [H|(be & qe & H & Hb & Hq)]; [discriminate H|]. inversion H; subst be qe.
    apply Z.eqb_eq in Hq.
    destruct (same_object bt TVoid) eqn:E1; cbn [negb andb]; [exact Hq|].
    destruct (same_object t TVoid) eqn:E2; cbn [negb andb]; [exact Hq|].
    destruct Hb as [Hb|[Hb|Hb]]; try discriminate Hb.
    apply compat_spec in Hb. rewrite Hb. exact Hq.
Qed.

(* arithmetic <- arithmetic (6.5.16.1p1 first bullet), struct/union <- compatible type *)
Theorem exprassign_arith_spec : forall e t b,
  erase t = Some b -> b <> BBool ->
  exprassign_ok e t = has (prop (otype e)) PROPARITH.
Proof.
  intros e t b He Hb. destruct t; try discriminate He; inversion He; subst.
  - destruct b; try congruence; reflexivity.
  - reflexivity.
Qed.

Theorem exprassign_struct_spec : forall e i,
  (exprassign_ok e (TStruct i) = true <-> Compatible (TStruct i) (otype e))
  /\ (exprassign_ok e (TUnion i) = true <-> Compatible (TUnion i) (otype e)).
Proof. intros. split; apply compat_spec. Qed.

(* simple assignment (6.5.16.1): accepted iff the left type is a complete scalar/struct/union type and
   the right operand converts as if by assignment; the expression has the left operand's type *)
Theorem assign_type_spec : forall l r,
  (assign_type l r = Some l <-> assign_left_ok l = true /\ exprassign_ok r l = true)
  /\ (assign_type l r = None \/ assign_type l r = Some l).
Proof.
  intros l r. unfold assign_type.
  destruct (assign_left_ok l), (exprassign_ok r l); cbn [andb]; split; auto; split;
    intuition discriminate.
Qed.

(* ------------------------------------------------------------------ enum base type *)
Lemma find_some_first {A} (f : A -> bool) l x : find f l = Some x -> In x l /\ f x = true.
Proof. apply find_some. Qed.

(* whatever base tagspec chooses can represent every enumerator: -minmag .. maxv *)
Theorem enum_base_spec : forall tg minmag maxv b,
  0 <= minmag <= 2 ^ 63 -> 0 <= maxv < 2 ^ 64 ->
  enum_base tg minmag maxv = Some b ->
  enum_base_ok (abi_of tg) b minmag maxv.
Proof.
  intros tg mn mx b Hmn Hmx H. unfold enum_base in H.
  destruct ((mn <=? 2147483648) && (mx <=? 2147483647)) eqn:E.
  - apply andb_true_iff in E. destruct E as [E1 E2]. apply Z.leb_le in E1. apply Z.leb_le in E2.
    inversion H; subst. unfold enum_base_ok.
    destruct (Z.eqb_spec mn 0); subst; (split; [reflexivity|]); unfold lo, hi; simpl; lia.
  - apply find_some in H. destruct H as [Hin Hh].
    apply andb_true_iff in Hh. destruct Hh as [H1 H2].
    assert (Hb : is_integer b = true /\ b <> BBool).
    { simpl in Hin. destruct (0 <? mn); simpl in Hin;
      destruct Hin as [<-|[<-|[<-|[]]]]; split; try reflexivity; discriminate. }
    destruct Hb as [Hi Hb].
    rewrite (hasint_spec tg (TBasic b) b mx false eq_refl Hi Hb Hmx) in H1.
    assert (Hr : 0 <= (- mn) mod M64 < 2 ^ 64) by (apply Z.mod_pos_bound; reflexivity).
    rewrite (hasint_spec tg (TBasic b) b _ true eq_refl Hi Hb Hr) in H2.
    apply andb_true_iff in H1. destruct H1 as [_ H1]. apply Z.leb_le in H1.
    apply andb_true_iff in H2. destruct H2 as [H2 _]. apply Z.leb_le in H2.
    unfold sval in *. cbn [andb] in *.
    unfold enum_base_ok. split; [exact Hi|]. split; [|exact H1].
    destruct (Z.eq_dec mn 0) as [->|Hne].
    + assert (L : lo (abi_of tg) b <= 0).
      { unfold lo, abi_of. destruct b; simpl; try lia; destruct (signedchar tg); simpl; lia. }
      lia.
    + unfold M64 in *.
      assert (Em : (- mn) mod 2 ^ 64 = 2 ^ 64 - mn).
      { rewrite Z.mod_opp_l_nz; [|lia|rewrite Z.mod_small; lia]. rewrite Z.mod_small; lia. }
      rewrite Em in H2.
      destruct (2 ^ 63 <=? 2 ^ 64 - mn) eqn:E3.
      * lia.
      * apply Z.leb_gt in E3. lia.
Qed.
