(* C14: the decidable per-code-point and per-byte-sequence checks that are evaluated exhaustively
   (files UtfCp*.v, UtfDec*.v, one chunk of the finite domain each so they build in parallel),
   and the lemmas that lift them.  Main theorems are in UtfProofs.v. *)
From Coq Require Import NArith List Bool Lia.
From Cproc Require Import Lib.UtfSweep Spec.Unicode Model.Utf.
Import ListNotations.
Open Scope N_scope.

Definition enc_is (e : enc) (l : list N) : bool :=
  match e with Enc u => list_eqb u l | AssertFail => false end.
Definition dec_is (d : dec) (c l : N) : bool :=
  match d with Dec c' l' => (c' =? c) && (l' =? l) | _ => false end.
Definition dec_rejects (d : dec) : bool :=
  match d with Dec _ _ => false | _ => true end.
Definition opt_is (o : option N) (c : N) : bool :=
  match o with Some x => x =? c | None => false end.

(* every proper non-empty prefix of the encoding is refused: with the true length as n the
   answer is Invalid (n < l), with a larger n the read runs off the end (OutOfBounds) *)
Definition truncations_rejected (s : list N) : bool :=
  forallb (fun k => let p := firstn k s in
                    match utf8dec p (N.of_nat k) with Invalid => true | _ => false end &&
                    match utf8dec p 4 with OutOfBounds => true | _ => false end)
          (seq 1 (length s - 1)).

(* the specification encoders with / and mod by powers of two written as shifts and masks:
   same functions (lemmas below), much cheaper to evaluate 1.1 million times *)
Definition utf8_fast (c : N) : list N :=
  if c <? 0x80 then [c]
  else if c <? 0x800 then [0xC0 + N.shiftr c 6; 0x80 + N.land c 63]
  else if c <? 0x10000 then [0xE0 + N.shiftr c 12; 0x80 + N.land (N.shiftr c 6) 63; 0x80 + N.land c 63]
  else [0xF0 + N.shiftr c 18; 0x80 + N.land (N.shiftr c 12) 63; 0x80 + N.land (N.shiftr c 6) 63; 0x80 + N.land c 63].
Definition utf16_fast (c : N) : list N :=
  if c <? 0x10000 then [c]
  else [0xD800 + N.shiftr (c - 0x10000) 10; 0xDC00 + N.land (c - 0x10000) 1023].

Lemma shr_div a n : N.shiftr a n = a / 2 ^ n.
Proof. apply N.shiftr_div_pow2. Qed.
Lemma land63 a : N.land a 63 = a mod 64.
Proof. change 63 with (N.ones 6). rewrite N.land_ones. reflexivity. Qed.
Lemma land1023 a : N.land a 1023 = a mod 1024.
Proof. change 1023 with (N.ones 10). rewrite N.land_ones. reflexivity. Qed.

Lemma utf8_fast_eq c : utf8_fast c = utf8 c.
Proof.
  unfold utf8_fast, utf8. rewrite !land63, !shr_div.
  change (2 ^ 6) with 64. change (2 ^ 12) with 4096. change (2 ^ 18) with 262144. reflexivity.
Qed.
Lemma utf16_fast_eq c : utf16_fast c = utf16 c.
Proof.
  unfold utf16_fast, utf16. rewrite land1023, shr_div. change (2 ^ 10) with 1024. reflexivity.
Qed.

Definition cp_check (c : N) : bool :=
  if scalarb c then
    let u := utf8_fast c in
    let l := utf8_len c in
    let v := utf16_fast c in
    enc_is (utf8enc c) u &&
    (N.of_nat (length u) =? l) &&
    forallb (fun b => b <? 256) u &&
    rfc3629_char u &&
    dec_is (utf8dec u 4) c l &&
    dec_is (utf8dec u l) c l &&
    truncations_rejected u &&
    enc_is (utf16enc c) v &&
    forallb (fun x => x <? 65536) v &&
    opt_is (utf16_decode v) c
  else
    (* surrogates: both encoders run into assert(0) *)
    match utf8enc c, utf16enc c with AssertFail, AssertFail => true | _, _ => false end.


(* ------------------------------------------------------------------ code points, in 8 chunks *)
Definition cp_chunk (k : N) : bool := forall2_below 0x220 256 (fun c => cp_check (k * 0x22000 + c)).

Lemma cp_chunk_spec k : cp_chunk k = true -> forall c, k * 0x22000 <= c < (k + 1) * 0x22000 -> cp_check c = true.
Proof.
  intros H c Hc. unfold cp_chunk in H.
  assert (P : (0 < 256)%nat) by lia.
  pose proof (forall2_below_spec 0x220 256 _ P H (c - k * 0x22000)) as H1. cbv beta in H1.
  replace (k * 0x22000 + (c - k * 0x22000)) with c in H1 by lia. apply H1.
  change (N.of_nat 544 * N.of_nat 256) with 0x22000. lia.
Qed.

(* ------------------------------------------------------------------ the decoder on structured byte sequences *)
(* what an answer of the decoder on exactly the bytes s must look like *)
Definition good (s : list N) : bool :=
  match utf8dec s 4 with
  | Dec c l => scalarb c && (l =? N.of_nat (length s)) && (utf8_len c =? l) && list_eqb (utf8_fast c) s
  | Invalid => true
  | OutOfBounds => false
  end.

Definition dec2_check : bool :=
  forall_below 32 (fun y => forall_below 64 (fun x1 => good [0xc0 + y; 0x80 + x1])).
Definition dec3_check : bool :=
  forall_below 16 (fun y => forall_below 64 (fun x1 => forall_below 64 (fun x2 => good [0xe0 + y; 0x80 + x1; 0x80 + x2]))).
Definition dec4_check (y : N) : bool :=
  forall_below 64 (fun x1 => forall_below 64 (fun x2 => forall_below 64 (fun x3 =>
    good [0xf0 + y; 0x80 + x1; 0x80 + x2; 0x80 + x3]))).

Lemma dec2_spec : dec2_check = true -> forall y x1, y < 32 -> x1 < 64 -> good [0xc0 + y; 0x80 + x1] = true.
Proof.
  intros H y x1 Hy H1.
  pose proof (forall_below_spec _ _ H y Hy) as A. cbv beta in A.
  exact (forall_below_spec _ _ A x1 H1).
Qed.
Lemma dec3_spec : dec3_check = true -> forall y x1 x2, y < 16 -> x1 < 64 -> x2 < 64 ->
  good [0xe0 + y; 0x80 + x1; 0x80 + x2] = true.
Proof.
  intros H y x1 x2 Hy H1 H2.
  pose proof (forall_below_spec _ _ H y Hy) as A. cbv beta in A.
  pose proof (forall_below_spec _ _ A x1 H1) as B. cbv beta in B.
  exact (forall_below_spec _ _ B x2 H2).
Qed.
Lemma dec4_spec y : dec4_check y = true -> forall x1 x2 x3, x1 < 64 -> x2 < 64 -> x3 < 64 ->
  good [0xf0 + y; 0x80 + x1; 0x80 + x2; 0x80 + x3] = true.
Proof.
  intros H x1 x2 x3 H1 H2 H3. unfold dec4_check in H.
  pose proof (forall_below_spec _ _ H x1 H1) as A. cbv beta in A.
  pose proof (forall_below_spec _ _ A x2 H2) as B. cbv beta in B.
  exact (forall_below_spec _ _ B x3 H3).
Qed.

(* ------------------------------------------------------------------ single bytes *)
Definition lead_len (b : N) : N :=
  if b <? 0x80 then 1
  else if N.land b 0xe0 =? 0xc0 then 2
  else if N.land b 0xf0 =? 0xe0 then 3
  else if N.land b 0xf8 =? 0xf0 then 4
  else 0.
Definition is_cont (b : N) : bool := N.land b 0xc0 =? 0x80.

Definition byte_check (b : N) : bool :=
  Bool.eqb (is_cont b) (between 0x80 0xbf b) &&
  (if lead_len b =? 2 then between 0xc0 0xdf b else true) &&
  (if lead_len b =? 3 then between 0xe0 0xef b else true) &&
  (if lead_len b =? 4 then between 0xf0 0xf7 b else true).

Lemma byte_sweep : forall_below 256 byte_check = true.
Proof. vm_compute. reflexivity. Qed.

Lemma byte_all b : b < 256 -> byte_check b = true.
Proof. intros H. exact (forall_below_spec 256 _ byte_sweep b H). Qed.
