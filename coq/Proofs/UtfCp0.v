(* C14: exhaustive evaluation of cp_check on code points 0x0 .. 0x21fff (chunk 0 of 8). *)
From Coq Require Import NArith.
From Cproc Require Import Proofs.UtfCheck.
Lemma cp_chunk_0 : cp_chunk 0 = true.
Proof. vm_cast_no_check (eq_refl true). Qed.
