(* C14: exhaustive evaluation of cp_check on code points 0x22000 .. 0x43fff (chunk 1 of 8). *)
From Coq Require Import NArith.
From Cproc Require Import Proofs.UtfCheck.
Lemma cp_chunk_1 : cp_chunk 1 = true.
Proof. vm_cast_no_check (eq_refl true). Qed.
