(* C14: exhaustive evaluation of cp_check on code points 0x44000 .. 0x65fff (chunk 2 of 8). *)
From Coq Require Import NArith.
From Cproc Require Import Proofs.UtfCheck.
Lemma cp_chunk_2 : cp_chunk 2 = true.
Proof. vm_cast_no_check (eq_refl true). Qed.
