(* C14: exhaustive evaluation of cp_check on code points 0x66000 .. 0x87fff (chunk 3 of 8). *)
From Coq Require Import NArith.
From Cproc Require Import Proofs.UtfCheck.
Lemma cp_chunk_3 : cp_chunk 3 = true.
Proof. vm_cast_no_check (eq_refl true). Qed.
