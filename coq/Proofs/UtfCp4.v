(* C14: exhaustive evaluation of cp_check on code points 0x88000 .. 0xa9fff (chunk 4 of 8). *)
From Coq Require Import NArith.
From Cproc Require Import Proofs.UtfCheck.
Lemma cp_chunk_4 : cp_chunk 4 = true.
Proof. vm_cast_no_check (eq_refl true). Qed.
