(* C14: exhaustive evaluation of cp_check on code points 0xaa000 .. 0xcbfff (chunk 5 of 8). *)
From Coq Require Import NArith.
From Cproc Require Import Proofs.UtfCheck.
Lemma cp_chunk_5 : cp_chunk 5 = true.
Proof. vm_cast_no_check (eq_refl true). Qed.
