(* C14: exhaustive evaluation of cp_check on code points 0xcc000 .. 0xedfff (chunk 6 of 8). *)
From Coq Require Import NArith.
From Cproc Require Import Proofs.UtfCheck.
Lemma cp_chunk_6 : cp_chunk 6 = true.
Proof. vm_cast_no_check (eq_refl true). Qed.
