(* C14: exhaustive evaluation of cp_check on code points 0xee000 .. 0x10ffff (chunk 7 of 8). *)
From Coq Require Import NArith.
From Cproc Require Import Proofs.UtfCheck.
Lemma cp_chunk_7 : cp_chunk 7 = true.
Proof. vm_cast_no_check (eq_refl true). Qed.
