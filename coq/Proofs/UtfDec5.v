(* C14: exhaustive evaluation of the decoder on lead byte 0xf5 with all 64^3 continuation-byte triples. *)
From Coq Require Import NArith.
From Cproc Require Import Proofs.UtfCheck.
Lemma dec4_chunk_5 : dec4_check 5 = true.
Proof. vm_cast_no_check (eq_refl true). Qed.
