(* C14: exhaustive evaluation of the decoder on lead byte 0xf6 with all 64^3 continuation-byte triples. *)
From Coq Require Import NArith.
From Cproc Require Import Proofs.UtfCheck.
Lemma dec4_chunk_6 : dec4_check 6 = true.
Proof. vm_cast_no_check (eq_refl true). Qed.
