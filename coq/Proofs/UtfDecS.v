(* C14: exhaustive evaluation of the decoder on all two- and three-byte candidates
   (lead byte 0xc0..0xdf / 0xe0..0xef, continuation bytes 0x80..0xbf). *)
From Coq Require Import NArith.
From Cproc Require Import Proofs.UtfCheck.
Lemma dec2_all : dec2_check = true.
Proof. vm_cast_no_check (eq_refl true). Qed.
Lemma dec3_all : dec3_check = true.
Proof. vm_cast_no_check (eq_refl true). Qed.
