(* C14: main theorems about utf.c's model (Model/Utf.v) against Spec/Unicode.v. *)
From Coq Require Import NArith Arith List Bool Lia.
From Cproc Require Import Lib.UtfSweep Spec.Unicode Model.Utf Proofs.UtfCheck.
From Cproc Require Import Proofs.UtfCp0 Proofs.UtfCp1 Proofs.UtfCp2 Proofs.UtfCp3 Proofs.UtfCp4 Proofs.UtfCp5 Proofs.UtfCp6 Proofs.UtfCp7.
From Cproc Require Import Proofs.UtfDecS Proofs.UtfDec0 Proofs.UtfDec1 Proofs.UtfDec2 Proofs.UtfDec3 Proofs.UtfDec4 Proofs.UtfDec5 Proofs.UtfDec6 Proofs.UtfDec7.
Import ListNotations.
Open Scope N_scope.

(* ------------------------------------------------------------------ lifting the sweeps *)
Lemma cp_all c : c < 0x110000 -> cp_check c = true.
Proof.
  intros H.
  destruct (N.lt_ge_cases c (1 * 0x22000)); [apply (cp_chunk_spec 0 cp_chunk_0); lia|].
  destruct (N.lt_ge_cases c (2 * 0x22000)); [apply (cp_chunk_spec 1 cp_chunk_1); lia|].
  destruct (N.lt_ge_cases c (3 * 0x22000)); [apply (cp_chunk_spec 2 cp_chunk_2); lia|].
  destruct (N.lt_ge_cases c (4 * 0x22000)); [apply (cp_chunk_spec 3 cp_chunk_3); lia|].
  destruct (N.lt_ge_cases c (5 * 0x22000)); [apply (cp_chunk_spec 4 cp_chunk_4); lia|].
  destruct (N.lt_ge_cases c (6 * 0x22000)); [apply (cp_chunk_spec 5 cp_chunk_5); lia|].
  destruct (N.lt_ge_cases c (7 * 0x22000)); [apply (cp_chunk_spec 6 cp_chunk_6); lia|].
  apply (cp_chunk_spec 7 cp_chunk_7); lia.
Qed.

Lemma scalarb_iff c : scalarb c = true <-> scalar c.
Proof.
  unfold scalarb, scalar. rewrite orb_true_iff, andb_true_iff, !N.ltb_lt, N.leb_le. tauto.
Qed.

Lemma scalar_lt c : scalar c -> c < 0x110000.
Proof. unfold scalar. lia. Qed.

Lemma enc_is_eq e l : enc_is e l = true -> e = Enc l.
Proof. destruct e; simpl; [|discriminate]. rewrite list_eqb_eq. congruence. Qed.
Lemma dec_is_eq d c l : dec_is d c l = true -> d = Dec c l.
Proof.
  destruct d; simpl; try discriminate. rewrite andb_true_iff, !N.eqb_eq. intros [-> ->]. reflexivity.
Qed.
Lemma opt_is_eq o c : opt_is o c = true -> o = Some c.
Proof. destruct o; simpl; [|discriminate]. rewrite N.eqb_eq. congruence. Qed.

(* all facts of cp_check for a scalar value, in terms of the specification encoders *)
Lemma cp_facts c : scalar c ->
  utf8enc c = Enc (utf8 c) /\
  N.of_nat (length (utf8 c)) = utf8_len c /\
  Forall (fun b => b < 256) (utf8 c) /\
  rfc3629_char (utf8 c) = true /\
  utf8dec (utf8 c) 4 = Dec c (utf8_len c) /\
  utf8dec (utf8 c) (utf8_len c) = Dec c (utf8_len c) /\
  truncations_rejected (utf8 c) = true /\
  utf16enc c = Enc (utf16 c) /\
  Forall (fun u => u < 65536) (utf16 c) /\
  utf16_decode (utf16 c) = Some c.
Proof.
  intros Hs. pose proof (cp_all c (scalar_lt c Hs)) as H. unfold cp_check in H.
  rewrite (proj2 (scalarb_iff c) Hs) in H. cbv zeta in H.
  rewrite utf8_fast_eq, utf16_fast_eq in H.
  repeat (apply andb_true_iff in H; destruct H as [H ?]).
  repeat split; auto using enc_is_eq, dec_is_eq, opt_is_eq.
  - apply N.eqb_eq; assumption.
  - apply Forall_forall. intros b Hb.
    match goal with F : forallb _ (utf8 c) = true |- _ => rewrite forallb_forall in F; apply N.ltb_lt, F, Hb end.
  - apply Forall_forall. intros b Hb.
    match goal with F : forallb _ (utf16 c) = true |- _ => rewrite forallb_forall in F; apply N.ltb_lt, F, Hb end.
Qed.

(* ------------------------------------------------------------------ encoders *)
Theorem utf8enc_spec c : scalar c -> utf8enc c = Enc (utf8 c).
Proof. intros H. apply (cp_facts c H). Qed.

Theorem utf16enc_spec c : scalar c -> utf16enc c = Enc (utf16 c).
Proof. intros H. apply (cp_facts c H). Qed.

Theorem utf8_roundtrip c : scalar c -> utf8dec (utf8 c) 4 = Dec c (utf8_len c).
Proof. intros H. apply (cp_facts c H). Qed.

Theorem utf8_roundtrip_exact_n c : scalar c -> utf8dec (utf8 c) (utf8_len c) = Dec c (utf8_len c).
Proof. intros H. apply (cp_facts c H). Qed.

(* stated on the model's own encoder, as in DESIGN.md *)
Theorem utf8_roundtrip_model c : scalar c ->
  exists bs, utf8enc c = Enc bs /\ N.of_nat (length bs) = utf8_len c /\ utf8dec bs 4 = Dec c (utf8_len c).
Proof.
  intros H. exists (utf8 c). destruct (cp_facts c H) as (A & B & _ & _ & C & _). auto.
Qed.

Theorem utf16_roundtrip c : scalar c ->
  exists us, utf16enc c = Enc us /\ Forall (fun u => u < 65536) us /\ utf16_decode us = Some c.
Proof.
  intros H. exists (utf16 c). destruct (cp_facts c H) as (_ & _ & _ & _ & _ & _ & _ & A & B & C). auto.
Qed.

Theorem utf8_wellformed c : scalar c -> rfc3629_char (utf8 c) = true.
Proof. intros H. apply (cp_facts c H). Qed.

(* the assert(0) of the encoders is unreachable on scalar values ... *)
Theorem enc_no_assert c : scalar c -> utf8enc c <> AssertFail /\ utf16enc c <> AssertFail.
Proof.
  intros H. rewrite (utf8enc_spec c H), (utf16enc_spec c H). split; discriminate.
Qed.

(* ... and reached on everything else that fits uint_least32_t *)
Lemma sub32_ge a b : b <= a -> a < M32 -> sub32 a b = a - b.
Proof.
  intros H1 H2. unfold sub32. change 0xffffffff with (N.ones 32). rewrite N.land_ones.
  change (2 ^ 32) with M32. replace (a + M32 - b) with (a - b + 1 * M32) by lia.
  rewrite N.mod_add by (unfold M32; lia). apply N.mod_small. lia.
Qed.

Theorem enc_assert_nonscalar c : c < M32 -> ~ scalar c -> utf8enc c = AssertFail /\ utf16enc c = AssertFail.
Proof.
  intros Hc Hn.
  destruct (N.lt_ge_cases c 0x110000) as [L|G].
  - pose proof (cp_all c L) as H. unfold cp_check in H.
    destruct (scalarb c) eqn:E; [exfalso; apply Hn, scalarb_iff, E|].
    destruct (utf8enc c), (utf16enc c); try discriminate. auto.
  - assert (A : (c <? 0x80) = false) by (apply N.ltb_ge; lia).
    assert (B : (c <? 0x800) = false) by (apply N.ltb_ge; lia).
    assert (C : (c <? 0xd800) = false) by (apply N.ltb_ge; lia).
    assert (D : (sub32 c 0xe000 <? 0x2000) = false) by (rewrite sub32_ge by lia; apply N.ltb_ge; lia).
    assert (E : (sub32 c 0x10000 <? 0x100000) = false) by (rewrite sub32_ge by lia; apply N.ltb_ge; lia).
    unfold utf8enc, utf16enc. rewrite A, B, C, D, E. simpl. auto.
Qed.

(* ------------------------------------------------------------------ shape of what the decoder reads *)
Lemma cont_shape k : forall x t x', cont x k t = ContOk x' ->
  exists cs r, t = cs ++ r /\ length cs = k /\ Forall (fun b => is_cont b = true) cs /\ cont x k cs = ContOk x'.
Proof.
  induction k as [|k IH]; intros x t x' H; simpl in H.
  - exists [], t. simpl. auto.
  - destruct t as [|b t]; [discriminate|].
    destruct (N.land b 192 =? 128) eqn:E; simpl in H; [|discriminate].
    destruct (IH _ _ _ H) as (cs & r & -> & L & F & C).
    exists (b :: cs), r. simpl. rewrite E. simpl. repeat split; auto.
Qed.

Lemma cont_app k : forall x cs r x', cont x k cs = ContOk x' -> cont x k (cs ++ r) = ContOk x'.
Proof.
  induction k as [|k IH]; intros x cs r x' H; simpl in *; [assumption|].
  destruct cs as [|b cs]; [discriminate|]. simpl.
  destruct (negb (N.land b 192 =? 128)); [discriminate|]. apply IH, H.
Qed.

(* the decoder looks at the lead byte and at exactly l-1 continuation bytes; n only matters for
   the test n < l *)
Lemma utf8dec_shape s n c l : utf8dec s n = Dec c l ->
  exists b cs r, s = b :: cs ++ r /\ lead_len b = l /\ length cs = N.to_nat (l - 1) /\
                 Forall (fun b => is_cont b = true) cs /\ utf8dec (b :: cs) 4 = Dec c l /\
                 (1 <= n -> l <= n).
Proof.
  destruct s as [|b t]; [discriminate|]. unfold utf8dec, lead_len.
  destruct (b <? 128) eqn:E.
  - intros H. inversion H; subst. exists c, [], t. simpl. rewrite !E. repeat split; auto.
  - destruct (N.land b 224 =? 192) eqn:E2; [|destruct (N.land b 240 =? 224) eqn:E3; [|destruct (N.land b 248 =? 240) eqn:E4]];
      cbv iota beta; try discriminate;
      (destruct (n <? _) eqn:En; [discriminate|]);
      match goal with |- context [cont ?x0 ?k t] => destruct (cont x0 k t) as [x| |] eqn:C; try discriminate end;
      apply cont_shape in C; destruct C as (cs & r & -> & L & F & C);
      intros H; exists b, cs, r;
      repeat (match goal with Hx : _ = false |- _ => rewrite Hx | Hx : _ = true |- _ => rewrite Hx end);
      cbv iota beta;
      change (4 <? 2) with false; change (4 <? 3) with false; change (4 <? 4) with false; cbv iota;
      rewrite C;
      (match type of H with (if ?a then _ else _) = _ => destruct a; [discriminate|] end);
      (match type of H with (if ?a then _ else _) = _ => destruct a; [discriminate|] end);
      inversion H; subst; repeat split; auto; intros _; apply N.ltb_ge in En; exact En.
Qed.

Lemma utf8dec_app s r c l : utf8dec s 4 = Dec c l -> utf8dec (s ++ r) 4 = Dec c l.
Proof.
  destruct s as [|b t]; [discriminate|]. simpl app. unfold utf8dec.
  destruct (b <? 128); [auto|].
  destruct (if N.land b 224 =? 192 then Some (N.land b 31, 2)
            else if N.land b 240 =? 224 then Some (N.land b 15, 3)
            else if N.land b 248 =? 240 then Some (N.land b 7, 4) else None) as [[x0 l0]|]; [|auto].
  destruct (4 <? l0); [auto|].
  destruct (cont x0 (N.to_nat (l0 - 1)) t) eqn:C; try discriminate.
  rewrite (cont_app _ _ _ r _ C). auto.
Qed.

(* bytes in terms of ranges *)
Lemma cont_byte_form b : b < 256 -> is_cont b = true -> exists x, x < 64 /\ b = 0x80 + x.
Proof.
  intros Hb Hc. pose proof (byte_all b Hb) as H. unfold byte_check in H.
  repeat (apply andb_true_iff in H; destruct H as [H ?]).
  rewrite Hc in H. apply eqb_prop in H. symmetry in H. unfold between in H.
  apply andb_true_iff in H. rewrite !N.leb_le in H. exists (b - 0x80). clear -H. lia.
Qed.

Lemma lead_form b lo hi : between lo hi b = true -> exists y, y < hi - lo + 1 /\ b = lo + y.
Proof.
  unfold between. intros H. apply andb_true_iff in H. rewrite !N.leb_le in H. exists (b - lo). lia.
Qed.

Lemma good_facts s c l : good s = true -> utf8dec s 4 = Dec c l ->
  scalar c /\ l = N.of_nat (length s) /\ utf8_len c = l /\ utf8 c = s.
Proof.
  unfold good. intros H D. rewrite D in H.
  repeat (apply andb_true_iff in H; destruct H as [H ?]).
  rewrite utf8_fast_eq in *. repeat split.
  - apply scalarb_iff; assumption.
  - apply N.eqb_eq; assumption.
  - apply N.eqb_eq; assumption.
  - apply list_eqb_eq; assumption.
Qed.

Lemma dec4_all y : y < 8 -> dec4_check y = true.
Proof.
  intros H.
  assert (C : y = 0 \/ y = 1 \/ y = 2 \/ y = 3 \/ y = 4 \/ y = 5 \/ y = 6 \/ y = 7) by lia.
  destruct C as [->|[->|[->|[->|[->|[->|[->| ->]]]]]]].
  - exact dec4_chunk_0. - exact dec4_chunk_1. - exact dec4_chunk_2. - exact dec4_chunk_3.
  - exact dec4_chunk_4. - exact dec4_chunk_5. - exact dec4_chunk_6. - exact dec4_chunk_7.
Qed.

Lemma lead_len_cases b cs c l : lead_len b = l -> utf8dec (b :: cs) 4 = Dec c l ->
  l = 1 \/ l = 2 \/ l = 3 \/ l = 4.
Proof.
  unfold lead_len, utf8dec. destruct (b <? 128); [intros <-; auto|].
  destruct (N.land b 224 =? 192); [intros <-; auto|].
  destruct (N.land b 240 =? 224); [intros <-; auto|].
  destruct (N.land b 248 =? 240); [intros <-; auto|].
  intros _ H. discriminate.
Qed.

(* ------------------------------------------------------------------ the decoder accepts only
   shortest-form UTF-8 of scalar values, and reports exactly the bytes it covers *)
Theorem utf8dec_valid_only s n c l :
  Forall (fun b => b < 256) s -> utf8dec s n = Dec c l ->
  scalar c /\ l = utf8_len c /\ firstn (N.to_nat l) s = utf8 c /\ (1 <= n -> l <= n).
Proof.
  intros Hs H.
  destruct (utf8dec_shape s n c l H) as (b & cs & r & -> & Hl & Hlen & Hc & Hd & Hn).
  assert (Hb : b < 256) by (inversion Hs; assumption).
  assert (Hcs : Forall (fun b => b < 256) cs).
  { inversion Hs; subst. match goal with F : Forall _ (cs ++ r) |- _ => apply Forall_app in F; tauto end. }
  pose proof (lead_len_cases b cs c l Hl Hd) as L.
  assert (Hfirst : firstn (N.to_nat l) (b :: cs ++ r) = b :: cs).
  { assert (E : N.to_nat l = S (length cs)).
    { rewrite Hlen. destruct L as [->|[->|[->| ->]]]; reflexivity. }
    rewrite E. simpl. f_equal. rewrite firstn_app, firstn_all, Nat.sub_diag. simpl. apply app_nil_r. }
  rewrite Hfirst.
  pose proof (byte_all b Hb) as HB. unfold byte_check in HB.
  repeat (apply andb_true_iff in HB; destruct HB as [HB ?]).
  assert (G : good (b :: cs) = true).
  { destruct L as [->|[->|[->| ->]]].
    - simpl in Hlen. destruct cs; [|discriminate]. unfold good. rewrite Hd.
      unfold lead_len in Hl. unfold utf8dec in Hd. destruct (b <? 128) eqn:E.
      + inversion Hd; subst. apply N.ltb_lt in E.
        assert (S1 : scalarb c = true) by (apply scalarb_iff; unfold scalar; lia).
        rewrite S1. unfold utf8_len, utf8_fast. apply N.ltb_lt in E. rewrite E. simpl.
        rewrite N.eqb_refl. reflexivity.
      + destruct (N.land b 224 =? 192); [discriminate|]. destruct (N.land b 240 =? 224); [discriminate|].
        destruct (N.land b 248 =? 240); discriminate.
    - rewrite Hl in *. simpl in Hlen. destruct cs as [|b1 [|? ?]]; try discriminate.
      match goal with A : (if 2 =? 2 then _ else _) = true |- _ =>
        destruct (lead_form b 0xc0 0xdf A) as (y & Hy & ->) end.
      inversion Hc; subst. inversion Hcs; subst.
      destruct (cont_byte_form b1) as (x1 & K1 & ->); auto.
      apply (dec2_spec dec2_all); assumption.
    - rewrite Hl in *. simpl in Hlen. destruct cs as [|b1 [|b2 [|? ?]]]; try discriminate.
      match goal with A : (if 3 =? 3 then _ else _) = true |- _ =>
        destruct (lead_form b 0xe0 0xef A) as (y & Hy & ->) end.
      inversion Hc as [|? ? Hc1 Hc']; subst. inversion Hc' as [|? ? Hc2 ?]; subst.
      inversion Hcs as [|? ? Hb1 Hcs']; subst. inversion Hcs' as [|? ? Hb2 ?]; subst.
      destruct (cont_byte_form b1) as (x1 & K1 & ->); auto.
      destruct (cont_byte_form b2) as (x2 & K2 & ->); auto.
      apply (dec3_spec dec3_all); assumption.
    - rewrite Hl in *. simpl in Hlen. destruct cs as [|b1 [|b2 [|b3 [|? ?]]]]; try discriminate.
      match goal with A : (if 4 =? 4 then _ else _) = true |- _ =>
        destruct (lead_form b 0xf0 0xf7 A) as (y & Hy & ->) end.
      inversion Hc as [|? ? Hc1 Hc']; subst. inversion Hc' as [|? ? Hc2 Hc'']; subst.
      inversion Hc'' as [|? ? Hc3 ?]; subst.
      inversion Hcs as [|? ? Hb1 Hcs']; subst. inversion Hcs' as [|? ? Hb2 Hcs'']; subst.
      inversion Hcs'' as [|? ? Hb3 ?]; subst.
      destruct (cont_byte_form b1) as (x1 & K1 & ->); auto.
      destruct (cont_byte_form b2) as (x2 & K2 & ->); auto.
      destruct (cont_byte_form b3) as (x3 & K3 & ->); auto.
      apply (dec4_spec y (dec4_all y Hy)); assumption. }
  destruct (good_facts _ _ _ G Hd) as (A & B & C & D).
  repeat split; auto.
Qed.

(* what is accepted is well-formed per the ABNF of RFC 3629 section 4 *)
Corollary utf8dec_accepts_wellformed_only s n c l :
  Forall (fun b => b < 256) s -> utf8dec s n = Dec c l -> rfc3629_char (firstn (N.to_nat l) s) = true.
Proof.
  intros Hs H. destruct (utf8dec_valid_only s n c l Hs H) as (A & _ & -> & _).
  apply utf8_wellformed, A.
Qed.

(* ------------------------------------------------------------------ truncated sequences *)
Lemma cont_oob_then_invalid k : forall x p b r,
  cont x k p = ContOOB -> is_cont b = false -> cont x k (p ++ b :: r) = ContInvalid.
Proof.
  induction k as [|k IH]; intros x p b r H Hb; simpl in H; [discriminate|].
  destruct p as [|a p]; simpl.
  - unfold is_cont in Hb. rewrite Hb. reflexivity.
  - destruct (negb (N.land a 192 =? 128)); [discriminate|]. apply IH; assumption.
Qed.

(* A proper, non-empty prefix of the encoding of a scalar value is never accepted: followed by a
   byte that is not a continuation byte (the closing quote, a NUL, any ASCII character, a new lead
   byte) the decoder answers Invalid; at the very end of the buffer it would read past the end
   (excluded in Literal.v: the token is NUL-terminated and NUL is not a continuation byte); with
   the remaining length passed as n it answers Invalid as well. *)
Theorem utf8dec_rejects_truncated c k : scalar c -> (0 < k < length (utf8 c))%nat ->
  (forall b r, is_cont b = false -> utf8dec (firstn k (utf8 c) ++ b :: r) 4 = Invalid) /\
  utf8dec (firstn k (utf8 c)) (N.of_nat k) = Invalid /\
  utf8dec (firstn k (utf8 c)) 4 = OutOfBounds.
Proof.
  intros Hs Hk. destruct (cp_facts c Hs) as (_ & _ & _ & _ & _ & _ & T & _).
  unfold truncations_rejected in T. rewrite forallb_forall in T.
  assert (I : In k (seq 1 (length (utf8 c) - 1))) by (apply in_seq; lia).
  specialize (T k I). cbv zeta in T. apply andb_true_iff in T. destruct T as [T1 T2].
  destruct (utf8dec (firstn k (utf8 c)) (N.of_nat k)) eqn:E1; try discriminate.
  destruct (utf8dec (firstn k (utf8 c)) 4) eqn:E2; try discriminate.
  repeat split; auto.
  intros b r Hb. revert E2. remember (firstn k (utf8 c)) as p eqn:Ep.
  destruct p as [|a p]; [intros _|].
  - (* k > 0 and the encoding is non-empty, so the prefix is non-empty *)
    exfalso. destruct (utf8 c); simpl in *; [lia|]. destruct k; [lia|discriminate].
  - simpl app. unfold utf8dec. destruct (a <? 128); [discriminate|].
    destruct (if N.land a 224 =? 192 then Some (N.land a 31, 2)
              else if N.land a 240 =? 224 then Some (N.land a 15, 3)
              else if N.land a 248 =? 240 then Some (N.land a 7, 4) else None) as [[x0 l0]|]; [|discriminate].
    destruct (4 <? l0); [discriminate|].
    destruct (cont x0 (N.to_nat (l0 - 1)) p) eqn:C; try discriminate.
    + destruct ((1114112 <=? x) || (sub32 x 55296 <? 2048)); [discriminate|].
      destruct (x <? (if l0 =? 2 then 128 else if l0 =? 3 then 2048 else 65536)); discriminate.
    + intros _. rewrite (cont_oob_then_invalid _ _ _ _ _ C Hb). reflexivity.
Qed.

(* the decoder never reads past a byte that is not a continuation byte, in particular never past
   the terminating NUL of a C string *)
Lemma cont_in_bounds k : forall x p b r, is_cont b = false -> cont x k (p ++ b :: r) <> ContOOB.
Proof.
  induction k as [|k IH]; intros x p b r Hb; simpl; [discriminate|].
  destruct p as [|a p]; simpl.
  - unfold is_cont in Hb. rewrite Hb. discriminate.
  - destruct (negb (N.land a 192 =? 128)); [discriminate|]. apply IH, Hb.
Qed.

Theorem utf8dec_in_bounds a p b r n : is_cont b = false -> utf8dec (a :: p ++ b :: r) n <> OutOfBounds.
Proof.
  intros Hb. unfold utf8dec. destruct (a <? 128); [discriminate|].
  destruct (if N.land a 224 =? 192 then Some (N.land a 31, 2)
            else if N.land a 240 =? 224 then Some (N.land a 15, 3)
            else if N.land a 248 =? 240 then Some (N.land a 7, 4) else None) as [[x0 l0]|]; [|discriminate].
  destruct (n <? l0); [discriminate|].
  pose proof (cont_in_bounds (N.to_nat (l0 - 1)) x0 p b r Hb) as C.
  destruct (cont x0 (N.to_nat (l0 - 1)) (p ++ b :: r)); try congruence; try discriminate.
  destruct ((1114112 <=? x) || (sub32 x 55296 <? 2048)); [discriminate|].
  destruct (x <? (if l0 =? 2 then 128 else if l0 =? 3 then 2048 else 65536)); discriminate.
Qed.
