(* qbe.c:zero() terminates, emits only 1/2/4/8-byte naturally aligned stores that tile the range
   exactly from `offset`, and overshoots `end` by less than the (capped) alignment. *)
From Coq Require Import List NArith ZArith Lia ZifyN ZifyBool Bool.
From Cproc Require Import Model.Zero.
Import ListNotations.
Ltac Zify.zify_post_hook ::= Z.div_mod_to_equations.
Local Open Scope N_scope.

Definition okalign (A : N) : Prop := A = 1 \/ A = 2 \/ A = 4 \/ A = 8.

(* stores tile [start, stop) contiguously *)
Fixpoint tiles (st : list (N * N)) (start stop : N) : Prop :=
  match st with
  | [] => start = stop
  | (o, w) :: r => o = start /\ tiles r (start + w) stop
  end.

Lemma tiles_app st1 st2 a b c : tiles st1 a b -> tiles st2 b c -> tiles (st1 ++ st2) a c.
Proof.
  revert a; induction st1 as [|[o w] r IH]; simpl; intros a H1 H2.
  - subst. exact H2.
  - destruct H1 as [-> H1]. split; [reflexivity|]. eapply IH; eassumption.
Qed.

Definition store_ok (s : N * N) : Prop := store_index_ok (snd s) = true /\ fst s mod snd s = 0.

Lemma land_low (A x : N) : okalign A -> N.land x (A - 1) = x mod A.
Proof.
  intros [-> | [-> | [-> | ->]]].
  - change (1 - 1) with (N.ones 0). rewrite N.land_ones. reflexivity.
  - change (2 - 1) with (N.ones 1). rewrite N.land_ones. reflexivity.
  - change (4 - 1) with (N.ones 2). rewrite N.land_ones. reflexivity.
  - change (8 - 1) with (N.ones 3). rewrite N.land_ones. reflexivity.
Qed.

(* the heart of the loop: what the bit test decides, for the finitely many (A, a, offset mod 8) *)
(* cond as a function of the residue m = x mod A, for the finitely many (A, a, m) *)
Definition cond_m (A a m : N) : bool := negb (N.land (A - m) a =? 0).

Definition cond_table_ok : bool :=
  forallb (fun A => forallb (fun a => forallb (fun m =>
    if (a <=? A) && (m <? A) && (m mod a =? 0) then
      (if a =? A then cond_m A a m else true) &&
      (if a <? A then (if cond_m A a m then (m + a) mod (2 * a) =? 0 else m mod (2 * a) =? 0) else true)
    else true) [0;1;2;3;4;5;6;7]) [1;2;4;8]) [1;2;4;8].

Lemma cond_table : cond_table_ok = true.
Proof. vm_compute. reflexivity. Qed.

Lemma cond_m_spec A a m : okalign A -> okalign a -> a <= A -> m < A -> m mod a = 0 ->
  (a = A -> cond_m A a m = true) /\
  (a < A -> cond_m A a m = true -> (m + a) mod (2 * a) = 0) /\
  (a < A -> cond_m A a m = false -> m mod (2 * a) = 0).
Proof.
  intros HA Ha Hle Hm Hma.
  pose proof cond_table as T. unfold cond_table_ok in T.
  rewrite forallb_forall in T.
  assert (InA : In A [1;2;4;8]) by (destruct HA as [-> | [-> | [-> | ->]]]; simpl; tauto).
  specialize (T A InA). rewrite forallb_forall in T.
  assert (Ina : In a [1;2;4;8]) by (destruct Ha as [-> | [-> | [-> | ->]]]; simpl; tauto).
  specialize (T a Ina). rewrite forallb_forall in T.
  assert (Inm : In m [0;1;2;3;4;5;6;7]).
  { assert (m = 0 \/ m = 1 \/ m = 2 \/ m = 3 \/ m = 4 \/ m = 5 \/ m = 6 \/ m = 7)
      by (destruct HA as [-> | [-> | [-> | ->]]]; lia).
    simpl. intuition. }
  specialize (T m Inm).
  assert (G : (a <=? A) && (m <? A) && (m mod a =? 0) = true).
  { rewrite !andb_true_iff. repeat split; [apply N.leb_le|apply N.ltb_lt|apply N.eqb_eq]; assumption. }
  rewrite G in T. apply andb_true_iff in T. destruct T as [T1 T2].
  split; [|split].
  - intros E. rewrite <- N.eqb_eq in E. rewrite E in T1. exact T1.
  - intros L C. rewrite <- N.ltb_lt in L. rewrite L, C in T2. apply N.eqb_eq. exact T2.
  - intros L C. rewrite <- N.ltb_lt in L. rewrite L, C in T2. apply N.eqb_eq. exact T2.
Qed.

Lemma mod_mod_dvd x A d : okalign A -> okalign d -> d <= A -> (x mod A) mod d = x mod d.
Proof.
  intros HA Hd Hle.
  destruct HA as [-> | [-> | [-> | ->]]]; destruct Hd as [-> | [-> | [-> | ->]]]; lia.
Qed.

Lemma cond_spec A a x : okalign A -> okalign a -> a <= A -> x mod a = 0 ->
  (a = A -> cond A x a = true) /\
  (a < A -> cond A x a = true -> (x + a) mod (2 * a) = 0) /\
  (a < A -> cond A x a = false -> x mod (2 * a) = 0).
Proof.
  intros HA Ha Hle Hx.
  assert (Hc : cond A x a = cond_m A a (x mod A)) by (unfold cond, cond_m; rewrite (land_low A x HA); reflexivity).
  assert (Hm : x mod A < A) by (apply N.mod_lt; destruct HA as [-> | [-> | [-> | ->]]]; discriminate).
  assert (Hma : (x mod A) mod a = 0) by (rewrite mod_mod_dvd by assumption; exact Hx).
  destruct (cond_m_spec A a (x mod A) HA Ha Hle Hm Hma) as (S1 & S2 & S3).
  rewrite Hc. split; [exact S1|split].
  - intros L C. specialize (S2 L C).
    assert (H2a : okalign (2 * a)) by (destruct HA as [-> | [-> | [-> | ->]]]; destruct Ha as [-> | [-> | [-> | ->]]]; unfold okalign; lia).
    assert (L2 : 2 * a <= A) by (destruct HA as [-> | [-> | [-> | ->]]]; destruct Ha as [-> | [-> | [-> | ->]]]; lia).
    rewrite <- (mod_mod_dvd (x + a) A (2 * a)) by assumption.
    rewrite <- S2. rewrite <- (mod_mod_dvd (x mod A + a) A (2 * a)) by assumption.
    f_equal. rewrite N.add_mod_idemp_l by (destruct HA as [-> | [-> | [-> | ->]]]; discriminate). reflexivity.
  - intros L C. specialize (S3 L C).
    assert (H2a : okalign (2 * a)) by (destruct HA as [-> | [-> | [-> | ->]]]; destruct Ha as [-> | [-> | [-> | ->]]]; unfold okalign; lia).
    assert (L2 : 2 * a <= A) by (destruct HA as [-> | [-> | [-> | ->]]]; destruct Ha as [-> | [-> | [-> | ->]]]; lia).
    rewrite <- (mod_mod_dvd x A (2 * a)) by assumption. exact S3.
Qed.

Lemma okalign_facts A a : okalign A -> okalign a -> a <= A ->
  1 <= a /\ 1 <= A / a /\ 0 < A /\
  (a < A -> okalign (2 * a) /\ 2 * a <= A /\ A / (2 * a) < A / a).
Proof.
  intros HA Ha Hle.
  destruct HA as [-> | [-> | [-> | ->]]]; destruct Ha as [-> | [-> | [-> | ->]]];
    try (exfalso; lia); unfold okalign;
    (split; [lia|split; [vm_compute; discriminate|split; [lia|intros L; try (exfalso; lia);
       (split; [lia|split; [lia|vm_compute; reflexivity]])]]]).
Qed.

Lemma fuel_step_store (fuel : nat) x e a q q' : x < e -> 1 <= a -> q' <= q ->
  (N.to_nat (e - x) + N.to_nat q <= S fuel)%nat ->
  (N.to_nat (e - (x + a)) + N.to_nat q' <= fuel)%nat.
Proof. intros. lia. Qed.

Lemma fuel_step_double (fuel : nat) x e q q' : q' < q ->
  (N.to_nat (e - x) + N.to_nat q <= S fuel)%nat ->
  (N.to_nat (e - x) + N.to_nat q' <= fuel)%nat.
Proof. intros. lia. Qed.

Lemma zero_loop_spec : forall fuel A a x e acc,
  okalign A -> okalign a -> a <= A -> x mod a = 0 ->
  (N.to_nat (e - x) + N.to_nat (A / a) <= fuel)%nat ->
  Forall store_ok acc ->
  exists st final, zero_loop fuel A a x e acc = ZDone (acc ++ st) final /\
    tiles st x final /\ Forall store_ok st /\
    (x < e -> e <= final < e + A) /\ (e <= x -> final = x /\ st = []).
Proof.
  induction fuel as [|fuel IH]; intros A a x e acc HA Ha Hle Hx Hfuel Hacc;
    destruct (okalign_facts A a HA Ha Hle) as (Hapos & Hdivpos & HApos & Hdbl).
  - exfalso. clear - Hfuel Hdivpos. lia.
  - cbn [zero_loop]. destruct (N.ltb_spec x e) as [Hlt|Hge].
    + destruct (cond_spec A a x HA Ha Hle Hx) as (Heq & Htrue & Hfalse).
      destruct (cond A x a) eqn:Ec.
      * (* a store of a bytes at x *)
        assert (Hst : store_ok (x, a)).
        { split; cbn [fst snd]; [|exact Hx]. unfold store_index_ok.
          destruct Ha as [-> | [-> | [-> | ->]]]; reflexivity. }
        assert (Hacc' : Forall store_ok (acc ++ [(x, a)]))
          by (apply Forall_app; split; [exact Hacc|constructor; [exact Hst|constructor]]).
        destruct (N.ltb_spec a A) as [HaA|HaA].
        -- destruct (Hdbl HaA) as (H2ok & H2le & H2lt).
           destruct (IH A (2 * a) (x + a) e (acc ++ [(x, a)]) HA H2ok H2le (Htrue HaA eq_refl)
                        (fuel_step_store fuel x e a (A / a) (A / (2 * a)) Hlt Hapos (N.lt_le_incl _ _ H2lt) Hfuel) Hacc')
             as (st & final & Hz & Ht & Hs & Hr1 & Hr2).
           rewrite Hz. exists ((x, a) :: st), final. rewrite <- app_assoc. split; [reflexivity|].
           split; [split; [reflexivity|exact Ht]|]. split; [constructor; assumption|].
           split; [|intros Hc; exfalso; clear - Hc Hlt; lia]. intros _.
           destruct (N.ltb_spec (x + a) e) as [H1|H1].
           ++ apply Hr1. exact H1.
           ++ destruct (Hr2 H1) as [-> _]. clear - H1 Hlt HaA. lia.
        -- assert (a = A) by (clear - HaA Hle; lia). subst a.
           assert (HxA : (x + A) mod A = 0).
           { rewrite N.add_mod by (clear - HApos; lia). rewrite Hx, N.mod_same by (clear - HApos; lia). reflexivity. }
           destruct (IH A A (x + A) e (acc ++ [(x, A)]) HA HA (N.le_refl A) HxA
                        (fuel_step_store fuel x e A (A / A) (A / A) Hlt Hapos (N.le_refl _) Hfuel) Hacc')
             as (st & final & Hz & Ht & Hs & Hr1 & Hr2).
           rewrite Hz. exists ((x, A) :: st), final. rewrite <- app_assoc. split; [reflexivity|].
           split; [split; [reflexivity|exact Ht]|]. split; [constructor; assumption|].
           split; [|intros Hc; exfalso; clear - Hc Hlt; lia]. intros _.
           destruct (N.ltb_spec (x + A) e) as [H1|H1].
           ++ apply Hr1. exact H1.
           ++ destruct (Hr2 H1) as [-> _]. clear - H1 Hlt. lia.
      * (* no store: a doubles (cond false is impossible when a = A) *)
        destruct (N.ltb_spec a A) as [HaA|HaA].
        -- destruct (Hdbl HaA) as (H2ok & H2le & H2lt).
           destruct (IH A (2 * a) x e acc HA H2ok H2le (Hfalse HaA eq_refl)
                        (fuel_step_double fuel x e (A / a) (A / (2 * a)) H2lt Hfuel) Hacc)
             as (st & final & Hz & Ht & Hs & Hr1 & Hr2).
           rewrite Hz. exists st, final. split; [reflexivity|]. split; [exact Ht|]. split; [exact Hs|].
           split; [exact Hr1|intros Hc; exfalso; clear - Hc Hlt; lia].
        -- assert (a = A) by (clear - HaA Hle; lia). discriminate (Heq H).
    + exists [], x. rewrite app_nil_r. split; [reflexivity|]. split; [reflexivity|]. split; [constructor|].
      split; [intros Hc; exfalso; clear - Hc Hge; lia|intros; split; reflexivity].
Qed.

Lemma capalign_ok align : (exists k, align = 2 ^ k) -> okalign (capalign align).
Proof.
  intros [k ->]. unfold capalign, okalign.
  destruct (N.ltb_spec 8 (2 ^ k)) as [H|H]; [auto|].
  assert (Hk : k < 4).
  { destruct (N.lt_ge_cases k 4) as [L|G]; [exact L|].
    exfalso. assert (2 ^ 4 <= 2 ^ k) by (apply N.pow_le_mono_r; [discriminate|exact G]).
    change (2 ^ 4) with 16 in *. lia. }
  assert (k = 0 \/ k = 1 \/ k = 2 \/ k = 3) as [-> | [-> | [-> | ->]]] by lia; vm_compute; tauto.
Qed.

(* For every power-of-two alignment and every range: the loop ends within (e - offset) + 8 iterations,
   the stores are naturally aligned, 1/2/4/8 bytes wide (the store-opcode table index is in bounds),
   tile the range from `offset` without gaps, cover it, and stop before e + min(align, 8). *)
Theorem zero_spec align offset e :
  (exists k, align = 2 ^ k) ->
  exists st final, zero (N.to_nat (e - offset) + 8) align offset e = ZDone st final /\
    tiles st offset final /\ Forall store_ok st /\
    (offset < e -> e <= final < e + capalign align) /\ (e <= offset -> st = []).
Proof.
  intros Hp. pose proof (capalign_ok align Hp) as HA. unfold zero.
  destruct (zero_loop_spec (N.to_nat (e - offset) + 8) (capalign align) 1 offset e []) as (st & final & Hz & Ht & Hs & Hr1 & Hr2).
  - exact HA.
  - left. reflexivity.
  - destruct HA as [-> | [-> | [-> | ->]]]; lia.
  - apply N.mod_1_r.
  - rewrite N.div_1_r. destruct HA as [-> | [-> | [-> | ->]]]; lia.
  - constructor.
  - exists st, final. split; [exact Hz|]. split; [exact Ht|]. split; [exact Hs|]. split; [exact Hr1|].
    intros H. apply Hr2 in H. tauto.
Qed.
