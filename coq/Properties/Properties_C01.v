(* C01 - compiled programs behave as the C abstract machine prescribes (PARTIAL: the scalar core, proved for all
   operand values; control flow, calls, initialisation and memory layout are carried by the correspondence check).
   Only statements, each closed by `exact`, with Print Assumptions beneath; Examples for non-vacuity.

   Reading guide.  [repr t v x]: register contents x represent the C value v of type t (the low 8*size bits agree;
   the bits above are arbitrary because a narrowing conversion emits no instruction).  [exec] is the straight-line
   fragment of the IL semantics; C01_exec_is_step / C01_exec_run_state show that Qbe.step / Qbe.run_state do exactly
   that.  Code is produced by the model of qbe.c (Model/Lower.v) at temporary counter n; [agree_below n env env']:
   the temporaries that existed before are untouched. *)
From Coq Require Import ZArith List Bool PArith FMapPositive.
From Cproc Require Import Lib.Wrap Model.Qbe Spec.CArith Spec.Csem Model.Lower
  Proofs.LowerProofsExec Proofs.LowerProofsArith Proofs.LowerProofsConv Proofs.LowerProofsBin
  Proofs.LowerProofsBitsMath Proofs.LowerProofsBits Proofs.LowerProofsCopy Proofs.LowerProofsExpr Proofs.LowerProofsExamples
  Model.Zero Model.LowerZero Proofs.LowerProofsCopyBytes Proofs.LowerProofsZeroBytes.
Import ListNotations.
Local Open Scope Z_scope.

(* ---- the straight-line executor is Qbe.step *)
Theorem C01_exec_is_step :
  forall fo ge st fr rest i c,
  st_stack st = fr :: rest -> fr_code fr = i :: c -> straight i = true ->
  step fo ge st = match exec_inst fo (fr_env fr, st_mem st) i with
                  | Ok (env', m') => Next (with_code st fr rest env' m' c)
                  | Err r => Final r end.
Proof. exact exec_inst_step. Qed.
Print Assumptions C01_exec_is_step.

Theorem C01_exec_run_state :
  forall fo ge c1 st fr rest c2 n,
  st_stack st = fr :: rest -> fr_code fr = c1 ++ c2 -> forallb straight c1 = true ->
  run_state fo ge (length c1 + n) st =
    match exec fo (fr_env fr, st_mem st) c1 with
    | Ok (env', m') => run_state fo ge n (with_code st fr rest env' m' c2)
    | Err r => match c1 with [] => run_state fo ge n st | _ => r end
    end.
Proof. exact exec_run_state. Qed.
Print Assumptions C01_exec_run_state.

(* ---- (a) conversions: all 10 x 10 pairs of the integer types, _Bool and pointers, all values *)
Theorem C01_convert_correct :
  forall fo dst src env m l n x v,
  intlike dst = true -> intlike src = true -> ref_lt n l ->
  read env (qbase src) l = Ok x -> 0 <= x < modk (qbase src) ->
  repr src v x -> c_in_range src v ->
  exists env' x',
    exec fo (env, m) (snd (fst (convert dst src l n))) = Ok (env', m) /\
    read env' (qbase dst) (fst (fst (convert dst src l n))) = Ok x' /\
    0 <= x' < modk (qbase dst) /\
    repr dst (c_convert dst v) x' /\
    agree_below n env env' /\
    ref_lt (snd (convert dst src l n)) (fst (fst (convert dst src l n))) /\
    (n <= snd (convert dst src l n))%positive.
Proof. exact convert_correct. Qed.
Print Assumptions C01_convert_correct.

Theorem C01_convert_range : forall dst v, intlike dst = true -> c_in_range dst (c_convert dst v).
Proof. exact convert_range. Qed.
Print Assumptions C01_convert_range.

(* integer to floating point: floating-point arithmetic is a parameter of the IL semantics, so the statement is that
   the conversion instruction receives the value's two's complement pattern in a whole word (a char/short source
   is extended first - the fix of subint-to-float-unextended): the result depends on the C value alone *)
Theorem C01_convert_int_float_exact :
  forall fo dst src env m l n x v,
  sfloat dst = true -> intlike src = true -> ref_lt n l ->
  read env (qbase src) l = Ok x -> 0 <= x < modk (qbase src) ->
  repr src v x -> c_in_range src v ->
  exists env' x',
    exec fo (env, m) (snd (fst (convert dst src l n))) = Ok (env', m) /\
    read env' (qbase dst) (fst (fst (convert dst src l n))) = Ok x' /\
    0 <= x' < modk (qbase dst) /\
    x' = wrapk (qbase dst) (f_cvt fo (cvt_of src) (wide (qbase dst)) (word_of src v)) /\
    agree_below n env env' /\
    ref_lt (snd (convert dst src l n)) (fst (fst (convert dst src l n))) /\
    (n <= snd (convert dst src l n))%positive.
Proof. exact convert_int_float_exact. Qed.
Print Assumptions C01_convert_int_float_exact.

Example C01_convert_subint_float_example :
  convert_steps SFlt (SInt I1 true) = [step1 (Oext Esb) Kw; step1 (Ocvt Cswtof) Ks] /\
  convert_steps SDbl (SInt I2 false) = [step1 (Oext Euh) Kw; step1 (Ocvt Cuwtof) Kd] /\
  convert_steps SDbl (SInt I4 true) = [step1 (Ocvt Cswtof) Kd] /\
  repr (SInt I1 true) 44 300 /\ word_of (SInt I1 true) 44 = 44.
Proof. exact convert_subint_float_example. Qed.

Example C01_convert_nonvacuous :
  repr (SInt I1 true) (-1) 767 /\ c_in_range (SInt I1 true) (-1) /\
  snd (fst (convert (SInt I8 true) (SInt I1 true) (RTmp 1%positive) 2%positive)) = [Iop (Some (2%positive, Kl)) (Oext Esb) (RTmp 1%positive) None] /\
  (do s <- exec fo0 (env1 Kw 767, nomem) (snd (fst (convert (SInt I8 true) (SInt I1 true) (RTmp 1%positive) 2%positive)));
   read (fst s) Kl (RTmp 2%positive)) = Ok (2 ^ 64 - 1) /\
  c_convert (SInt I8 true) (-1) = -1 /\ repr (SInt I8 true) (-1) (2 ^ 64 - 1).
Proof. exact convert_example. Qed.

(* ---- (b) binary operators on promoted operands (int, unsigned, long, unsigned long, long long, ...): whenever
   C defines the result, the selected opcode computes a register representing it; never a division trap *)
Theorem C01_binop_correct :
  forall fo o t tr env m l r n x y a b v,
  promoted t = true -> (if is_shift o then promoted tr = true else tr = t) ->
  read env (qbase t) l = Ok x -> 0 <= x < modk (qbase t) -> repr t a x -> c_in_range t a ->
  read env (qbase tr) r = Ok y -> 0 <= y < modk (qbase tr) -> repr tr b y -> c_in_range tr b ->
  binop_spec o (ity_of t) a b = Some v ->
  exists env' x',
    exec fo (env, m) (snd (fst (gbinop o t l r n))) = Ok (env', m) /\
    read env' (binop_cls o t) (fst (fst (gbinop o t l r n))) = Ok x' /\
    0 <= x' < modk (binop_cls o t) /\
    repr (binop_rty o t) v x' /\ c_in_range (binop_rty o t) v /\
    agree_below n env env' /\ ref_lt (snd (gbinop o t l r n)) (fst (fst (gbinop o t l r n))) /\
    (n <= snd (gbinop o t l r n))%positive.
Proof. exact binop_correct. Qed.
Print Assumptions C01_binop_correct.

Example C01_binop_nonvacuous :
  binop_spec Div (ity_of (SInt I4 true)) (-7) 2 = Some (-3) /\
  binop_op Div (SInt I4 true) = Obin Bdiv /\ binop_op Div (SInt I4 false) = Obin Budiv /\
  eval_ibin Bdiv Kw (2 ^ 32 - 7) 2 = Some (2 ^ 32 - 3) /\
  binop_spec Div (ity_of (SInt I4 true)) (- 2 ^ 31) (-1) = None /\
  binop_op CLt (SInt I8 false) = Ocmpi true Cult /\ binop_op Shr (SInt I4 true) = Obin Bsar.
Proof. exact binop_example. Qed.

(* why every consumer re-extends: the comparison opcodes are wrong on unextended sub-int registers *)
Example C01_compare_needs_extension :
  repr (SInt I1 true) 1 257 /\ repr (SInt I1 true) 2 2 /\ eval_cmpi Cslt Kw 257 2 = false /\ (1 <? 2) = true.
Proof. exact compare_needs_extension. Qed.

(* ---- the induction over expression trees (constants, computed leaves, casts, unary minus, binary operators) *)
Theorem C01_expr_correct :
  forall fo leaf rho m e env (n : positive) v,
  wt e = true -> leaves_ok env n leaf rho e -> eval rho e = Some v ->
  exists env' x',
    exec fo (env, m) (snd (fst (gexpr leaf e n))) = Ok (env', m) /\
    read env' (qbase (ptype e)) (fst (fst (gexpr leaf e n))) = Ok x' /\
    0 <= x' < modk (qbase (ptype e)) /\
    repr (ptype e) v x' /\ c_in_range (ptype e) v /\
    agree_below n env env' /\
    ref_lt (snd (gexpr leaf e n)) (fst (fst (gexpr leaf e n))) /\
    (n <= snd (gexpr leaf e n))%positive.
Proof. exact gexpr_correct. Qed.
Print Assumptions C01_expr_correct.

Example C01_expr_nonvacuous :
  let e := PBin Mul (SInt I4 false) (PBin Add (SInt I4 false) (PTemp (SInt I4 false) 1%positive) (PConst (SInt I4 false) 1)) (PConst (SInt I4 false) 2) in
  wt e = true /\ eval (fun _ => Some (2 ^ 32 - 1)) e = Some 0 /\
  snd (fst (gexpr RTmp e 2%positive)) =
    [Iop (Some (2%positive, Kw)) (Obin Badd) (RTmp 1%positive) (Some (RInt 1));
     Iop (Some (3%positive, Kw)) (Obin Bmul) (RTmp 2%positive) (Some (RInt 2))] /\
  (do s <- exec fo0 (env1 Kw (2 ^ 32 - 1), nomem) (snd (fst (gexpr RTmp e 2%positive))); read (fst s) Kw (RTmp 3%positive)) = Ok 0.
Proof. exact expr_example. Qed.

(* ---- (c) bit-fields: unit sizes 1, 2, 4, 8 (bf_type), any position with before + after < 8 * size *)
Theorem C01_bits_load_correct :
  forall fo t env m addr a (n : positive) u before after,
  bf_pos t before after -> ref_lt n addr ->
  read env Kl addr = Ok a -> mem_load m a (Z.to_nat (ssize t)) = Some u -> 0 <= u < 2 ^ sbits t ->
  exists env' x,
    exec fo (env, m) (snd (fst (funcload t addr before after n))) = Ok (env', m) /\
    read env' (qbase t) (fst (fst (funcload t addr before after n))) = Ok x /\
    0 <= x < modk (qbase t) /\
    reg_value t x = bf_get (ssigned t) (ssize t) before after u /\
    agree_below n env env' /\
    ref_lt (snd (funcload t addr before after n)) (fst (fst (funcload t addr before after n))) /\
    (n <= snd (funcload t addr before after n))%positive.
Proof. exact bits_load_correct. Qed.
Print Assumptions C01_bits_load_correct.

(* the whole read-modify-write sequence has the memory effect of ONE store of the unit [new_unit] *)
Theorem C01_bits_store_correct :
  forall fo t env m addr a vr v (n : positive) u before after,
  bf_pos t before after -> 0 < before + after -> ref_lt n addr -> ref_lt n vr ->
  read env Kl addr = Ok a -> read env (qbase t) vr = Ok v -> 0 <= v < modk (qbase t) ->
  mem_load m a (Z.to_nat (ssize t)) = Some u -> 0 <= u < 2 ^ sbits t ->
  exists env' m' x,
    exec fo (env, m) (snd (fst (funcstore t addr before after vr n))) = Ok (env', m') /\
    mem_store m a (Z.to_nat (ssize t)) (rmw (bitsk (qbase t)) before (sbits t - before - after) v
                      (ext_unit (ssigned t) (sbits t) (bitsk (qbase t)) u)) = Some m' /\
    mem_load m' a (Z.to_nat (ssize t)) = Some (new_unit t before after v u) /\
    read env' (qbase t) (fst (fst (funcstore t addr before after vr n))) = Ok x /\
    x = fb_val (ssigned t) (bitsk (qbase t)) (sbits t) before after
               (store_reg t after (wrap (bitsk (qbase t)) (v * 2 ^ before))) /\
    agree_below n env env' /\ (n <= snd (funcstore t addr before after vr n))%positive.
Proof. exact bits_store_correct. Qed.
Print Assumptions C01_bits_store_correct.

(* load after store returns the stored value wrapped to the width (sign-extended iff signed); every other bit
   of the unit is unchanged *)
Theorem C01_bitfield_load_store :
  forall t before after v u,
  bf_pos t before after -> 0 <= u < 2 ^ sbits t ->
  let u' := new_unit t before after v u in
  0 <= u' < 2 ^ sbits t /\
  bf_get (ssigned t) (ssize t) before after u' = bf_value (ssigned t) (ssize t) before after v /\
  (forall i, 0 <= i < sbits t -> ~ (before <= i < sbits t - after) -> Z.testbit u' i = Z.testbit u i).
Proof. exact bitfield_load_store. Qed.
Print Assumptions C01_bitfield_load_store.

(* the value of the assignment expression itself (the register x of C01_bits_store_correct): the assigned value
   reduced to the member's width, at every position - since the fix of bitfield-assign-value-subword-top *)
Theorem C01_bits_store_value :
  forall t before after v,
  bf_pos t before after -> 0 <= v < modk (qbase t) ->
  let x := fb_val (ssigned t) (bitsk (qbase t)) (sbits t) before after
                  (store_reg t after (wrap (bitsk (qbase t)) (v * 2 ^ before))) in
  0 <= x < modk (qbase t) /\ reg_value t x = bf_value (ssigned t) (ssize t) before after v.
Proof. exact bits_store_value. Qed.
Print Assumptions C01_bits_store_value.

(* `struct { signed char a : 3, f : 5; } s; (s.f = 100)` is 4; without the extension it was 100 *)
Example C01_bits_store_value_top :
  let t := SInt I1 true in
  bf_pos t 3 0 /\ store_top t 0 = true /\
  reg_value t (fb_val (ssigned t) (bitsk (qbase t)) (sbits t) 3 0 (store_reg t 0 (wrap (bitsk (qbase t)) (100 * 2 ^ 3)))) = 4 /\
  bf_value true 1 3 0 100 = 4 /\
  reg_value t (fb_val (ssigned t) (bitsk (qbase t)) (sbits t) 3 0 (wrap (bitsk (qbase t)) (100 * 2 ^ 3))) = 100.
Proof. exact bits_store_value_top. Qed.

Example C01_bitfield_nonvacuous :
  bf_pos (SInt I4 true) 3 20 /\
  new_unit (SInt I4 true) 3 20 300 (2 ^ 32 - 1) = 2 ^ 32 - 1 - 4088 + 300 * 8 /\
  bf_get true 4 3 20 (new_unit (SInt I4 true) 3 20 300 (2 ^ 32 - 1)) = 300 - 512 /\
  bf_value true 4 3 20 300 = 300 - 512 /\
  store_mask 4 3 20 = 4088.
Proof. exact bitfield_example. Qed.

(* ---- (d) aggregate copy: the emitted chain is [copy_count] load/store pairs of width min(align, 8) at
   consecutive addresses (copy_sem), faults included; the bytes touched are [0, copy_span) *)
Theorem C01_funccopy_exec :
  forall fo env m dst src (n : positive) size align s d,
  ref_lt n dst -> ref_lt n src -> read env Kl src = Ok s -> read env Kl dst = Ok d ->
  match copy_sem size align m s d with
  | Ok m' => exists env', exec fo (env, m) (snd (fst (funccopy dst src size align n))) = Ok (env', m') /\ agree_below n env env'
  | Err r => exec fo (env, m) (snd (fst (funccopy dst src size align n))) = Err r
  end.
Proof. exact funccopy_exec. Qed.
Print Assumptions C01_funccopy_exec.

Theorem C01_copy_span_covers :
  forall size align, 0 <= size -> size <= copy_span size align < size + copy_width align \/ size = 0.
Proof. exact copy_span_covers. Qed.
Print Assumptions C01_copy_span_covers.

(* exactly the object iff the width divides its non-zero size; otherwise the copy reaches past the object *)
Theorem C01_copy_span_exact :
  forall size align, 0 <= size -> (copy_span size align = size <-> 0 < size /\ size mod copy_width align = 0).
Proof. exact copy_span_exact. Qed.
Print Assumptions C01_copy_span_exact.

Example C01_copy_nonvacuous : copy_span 5 4 = 8 /\ copy_span 0 1 = 1 /\ copy_span 12 4 = 12 /\ copy_span 24 16 = 24.
Proof. exact copy_span_overshoot. Qed.

(* ---- (d') aggregate copy on byte contents.  [byte_at m a]: the byte at address a (None outside live blocks);
   [span_ok m a n]: [a, a+n) is inside the 64-bit address space, inside the address window of one live block and
   inside that block; [same_shape]: same live blocks, same sizes; [bytes_in_range]: the source bytes are bytes
   (the memory of Qbe.v maps offsets to arbitrary integers; stores only ever write v mod 256).
   After the emitted chain: byte d+i is what byte s+i was for every i < copy_span (= size when the access width
   divides the size, C01_copy_span_exact), every other byte is what it was, the temporaries below n are untouched.
   Overlap: none, exact (d = s) or destination below source; s < d < s + span is excluded and really wrong
   (C01_funccopy_bytes_overlap_refuted). *)
Theorem C01_funccopy_bytes :
  forall fo env m dst src (n : positive) size align s d,
  ref_lt n dst -> ref_lt n src -> read env Kl src = Ok s -> read env Kl dst = Ok d ->
  let span := copy_span size align in
  span_ok m s span -> span_ok m d span ->
  d <= s \/ s + span <= d ->
  bytes_in_range m s (s + span) ->
  exists env' m',
    exec fo (env, m) (snd (fst (funccopy dst src size align n))) = Ok (env', m') /\
    agree_below n env env' /\ same_shape m m' /\
    (forall i, 0 <= i < span -> byte_at m' (d + i) = byte_at m (s + i)) /\
    (forall a, ~ (d <= a < d + span) -> byte_at m' a = byte_at m a).
Proof. exact funccopy_bytes. Qed.
Print Assumptions C01_funccopy_bytes.

(* the usual case: the access width min(align, 8) divides the size - exactly the object *)
Theorem C01_funccopy_bytes_exact :
  forall fo env m dst src (n : positive) size align s d,
  0 < size -> size mod copy_width align = 0 ->
  ref_lt n dst -> ref_lt n src -> read env Kl src = Ok s -> read env Kl dst = Ok d ->
  span_ok m s size -> span_ok m d size ->
  d <= s \/ s + size <= d ->
  bytes_in_range m s (s + size) ->
  exists env' m',
    exec fo (env, m) (snd (fst (funccopy dst src size align n))) = Ok (env', m') /\
    agree_below n env env' /\ same_shape m m' /\
    (forall i, 0 <= i < size -> byte_at m' (d + i) = byte_at m (s + i)) /\
    (forall a, ~ (d <= a < d + size) -> byte_at m' a = byte_at m a).
Proof. exact funccopy_bytes_exact. Qed.
Print Assumptions C01_funccopy_bytes_exact.

(* 12-byte struct, alignment 4, inside a 40-byte block with guard bytes and a bystander block *)
Example C01_funccopy_bytes_nonvacuous :
  let s := BLK * 3 + 4 in let d := BLK * 3 + 20 in
  copy_span 12 4 = 12 /\
  span_ok mem_cb s 12 /\ span_ok mem_cb d 12 /\ (d <= s \/ s + 12 <= d) /\ bytes_in_range mem_cb s (s + 12) /\
  exists env' m',
    exec fo_cb (env_cb, mem_cb) (snd (fst (funccopy (RTmp 2%positive) (RTmp 1%positive) 12 4 3%positive))) = Ok (env', m') /\
    map (fun i => byte_at m' (BLK * 3 + i)) [16;17;18;19; 20;21;22;23;24;25;26;27;28;29;30;31; 32;33;34;35; 40] =
      map Some [238;238;238;238; 1;2;3;4;5;6;7;8;9;10;11;255; 238;238;238;238] ++ [None] /\
    map (fun i => byte_at m' (BLK * 3 + i)) [4;5;6;7;8;9;10;11;12;13;14;15] = map Some [1;2;3;4;5;6;7;8;9;10;11;255] /\
    map (fun i => byte_at m' (BLK * 5 + i)) [0;1;2;3;4;5;6;7;8] = map Some [9;8;7;6;5;4;3;2] ++ [None].
Proof. exact funccopy_bytes_example. Qed.

(* destination 4 bytes above the source, 8 bytes copied with 4-byte accesses: byte d+4 receives the old byte s *)
Example C01_funccopy_bytes_overlap_refuted :
  let s := BLK * 3 + 4 in let d := BLK * 3 + 8 in
  copy_span 8 4 = 8 /\ span_ok mem_cb s 8 /\ span_ok mem_cb d 8 /\ s < d < s + 8 /\
  exists m', copy_sem 8 4 mem_cb s d = Ok m' /\
    byte_at mem_cb (s + 4) = Some 5 /\ byte_at m' (d + 4) = Some 1.
Proof. exact funccopy_bytes_overlap_refuted. Qed.

(* ---- zero() of funcinit on byte contents.  [gzero addr align offset end] is the code zero() emits (Model/Zero.v's
   loop, each (offset, width) as `[add] + store 0`, Model/LowerZero.v).  For every power-of-two alignment and every
   range: the code exists, the loop stops at [final] with end <= final < end + min(align, 8), final <= every
   multiple of min(align, 8) that is >= end (so no store passes the end of an object whose size is a multiple of
   its alignment, and final = end when end is such a multiple), and executing it makes all bytes of
   [base+offset, base+final) zero and leaves every other byte as it was. *)
Theorem C01_zero_bytes :
  forall fo env m addr (n : positive) align offset e base,
  (exists k, align = 2 ^ k)%N -> ref_lt n addr -> read env Kl addr = Ok base ->
  exists g final,
    gzero addr align offset e = Some g /\
    ((offset < e)%N -> (e <= final < e + capalign align)%N) /\ ((e <= offset)%N -> final = offset) /\
    (forall e', (e <= e')%N -> (offset <= e')%N -> (e' mod capalign align = 0)%N -> (final <= e')%N) /\
    (((offset < final)%N -> span_ok m (base + Z.of_N offset) (Z.of_N final - Z.of_N offset)) ->
     exists env' m',
       exec fo (env, m) (snd (fst (g n))) = Ok (env', m') /\ agree_below n env env' /\ same_shape m m' /\
       (forall i, Z.of_N offset <= i < Z.of_N final -> byte_at m' (base + i) = Some 0) /\
       (forall a, ~ (base + Z.of_N offset <= a < base + Z.of_N final) -> byte_at m' a = byte_at m a)).
Proof. exact zero_bytes. Qed.
Print Assumptions C01_zero_bytes.

Theorem C01_zero_bytes_exact :
  forall fo env m addr (n : positive) align offset e base,
  (exists k, align = 2 ^ k)%N -> (offset <= e)%N -> (e mod capalign align = 0)%N ->
  ref_lt n addr -> read env Kl addr = Ok base ->
  ((offset < e)%N -> span_ok m (base + Z.of_N offset) (Z.of_N e - Z.of_N offset)) ->
  exists g env' m',
    gzero addr align offset e = Some g /\
    exec fo (env, m) (snd (fst (g n))) = Ok (env', m') /\ agree_below n env env' /\ same_shape m m' /\
    (forall i, Z.of_N offset <= i < Z.of_N e -> byte_at m' (base + i) = Some 0) /\
    (forall a, ~ (base + Z.of_N offset <= a < base + Z.of_N e) -> byte_at m' a = byte_at m a).
Proof. exact zero_bytes_exact. Qed.
Print Assumptions C01_zero_bytes_exact.

(* alignment 4, zero [5, 14) of a 40-byte block: stores b@5 h@6 w@8 w@12, the loop stops at 16 *)
Example C01_zero_bytes_nonvacuous :
  let env := PM.add 1%positive (Kl, BLK * 3) (PM.empty (cls * Z)) in
  zero 17 4 5 14 = ZDone [(5, 1); (6, 2); (8, 4); (12, 4)]%N 16%N /\
  span_ok mem_cb (BLK * 3 + 5) (16 - 5) /\
  exists g env' m',
    gzero (RTmp 1%positive) 4 5 14 = Some g /\
    exec fo_cb (env, mem_cb) (snd (fst (g 2%positive))) = Ok (env', m') /\
    map (fun i => byte_at m' (BLK * 3 + i)) [3;4; 5;6;7;8;9;10;11;12;13;14;15; 16;17; 40] =
      map Some [238;1; 0;0;0;0;0;0;0;0;0;0;0; 238;238] ++ [None] /\
    map (fun i => byte_at mem_cb (BLK * 3 + i)) [3;4; 5;6;7;8;9;10;11;12;13;14;15; 16;17; 40] =
      map Some [238;1; 2;3;4;5;6;7;8;9;10;11;255; 238;238] ++ [None].
Proof. exact zero_bytes_example. Qed.
