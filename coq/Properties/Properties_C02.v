(* C02 - the self-compiled compiler is indistinguishable from the reference-built one.
   LEVEL: translation validation, PARTIAL.  No theorem below quantifies over all inputs of the real stage-2
   compiler; the equality stage 1 = stage 2 is DECIDED per input by props/c02.py.  These statements are what proof
   contributes (see Proofs/BootstrapProofs.v).  Only statements, each closed by `exact`. *)
From Coq Require Import List Arith.
From Cproc Require Import Model.Qbe Proofs.QbeProofs Proofs.BootstrapProofs.
Import ListNotations.

(* The behaviour of a stage given by IL is a function of the IL: for every module, externals, entry and fuel the
   interpreter that DEFINES the IL's semantics has exactly one result. *)
Theorem C02_stage_behaviour_deterministic :
  forall fo m ext nglob entry fuel r1 r2,
    run fo m ext nglob entry fuel = r1 -> run fo m ext nglob entry fuel = r2 -> r1 = r2.
Proof. exact run_deterministic. Qed.
Print Assumptions C02_stage_behaviour_deterministic.

(* Byte-identical IL (hence equal modules) means the same behaviour: this is why comparing stage 2's IL for the
   compiler's sources with stage 1's IL is a complete check of "stage 3 = stage 2". *)
Theorem C02_equal_il_equal_behaviour :
  forall fo m1 m2 ext nglob entry fuel,
    m1 = m2 -> run fo m1 ext nglob entry fuel = run fo m2 ext nglob entry fuel.
Proof. exact il_behaviour_functional. Qed.
Print Assumptions C02_equal_il_equal_behaviour.

(* For ANY deterministic execution function, linker and reference build: if the self-compiled compiler reproduces
   the reference build's output on each of the compiler's own source files (finitely many: checked on every run),
   then the next stage equals it on ALL inputs ... *)
Theorem C02_fixed_point_stable :
  forall (source input output il program : Type) (inp : source -> input) (il_of : output -> il)
         (link : list il -> program) (exec : program -> input -> output) (srcs : list source) (stage1 : input -> output),
    fixed_point source input output il program inp il_of link exec srcs stage1 ->
    forall i, stage source input output il program inp il_of link exec srcs stage1 2 i
            = stage source input output il program inp il_of link exec srcs stage1 1 i.
Proof. exact fixed_point_stable. Qed.
Print Assumptions C02_fixed_point_stable.

(* ... and so does every later stage: iterating the bootstrap changes nothing. *)
Theorem C02_bootstrap_chain_stable :
  forall (source input output il program : Type) (inp : source -> input) (il_of : output -> il)
         (link : list il -> program) (exec : program -> input -> output) (srcs : list source) (stage1 : input -> output),
    fixed_point source input output il program inp il_of link exec srcs stage1 ->
    forall n i, stage source input output il program inp il_of link exec srcs stage1 (S n) i
              = stage source input output il program inp il_of link exec srcs stage1 1 i.
Proof. exact bootstrap_chain_stable. Qed.
Print Assumptions C02_bootstrap_chain_stable.

(* Agreement observed on a corpus between the reference build and stage 2 carries over to every later stage. *)
Theorem C02_equiv_on_transfers :
  forall (source input output il program : Type) (inp : source -> input) (il_of : output -> il)
         (link : list il -> program) (exec : program -> input -> output) (srcs : list source) (stage1 : input -> output)
         (I : list input),
    fixed_point source input output il program inp il_of link exec srcs stage1 ->
    equiv_on (stage source input output il program inp il_of link exec srcs stage1 0)
             (stage source input output il program inp il_of link exec srcs stage1 1) I ->
    forall n, equiv_on (stage source input output il program inp il_of link exec srcs stage1 0)
                       (stage source input output il program inp il_of link exec srcs stage1 (S n)) I.
Proof. exact equiv_on_transfers. Qed.
Print Assumptions C02_equiv_on_transfers.

(* Non-vacuity: the hypothesis is satisfiable in a model whose execution function depends on the program ... *)
Example C02_fixed_point_satisfiable :
  fixed_point nat nat nat nat (list nat) (fun s => s) (fun o => o) (fun l => l) toy_exec [3; 5] (fun i => i) /\
  stage nat nat nat nat (list nat) (fun s => s) (fun o => o) (fun l => l) toy_exec [3; 5] (fun i => i) 3 7 = 7.
Proof. exact fixed_point_satisfiable. Qed.
Print Assumptions C02_fixed_point_satisfiable.

(* ... and it is needed: a compiler that miscompiles itself drifts from stage to stage. *)
Example C02_stage_drift_without_fixed_point :
  let st := stage nat nat nat nat (list nat) (fun s => s) (fun o => o) (fun l => l) drift_exec [0] (fun i => i + 1) in
  ~ fixed_point nat nat nat nat (list nat) (fun s => s) (fun o => o) (fun l => l) drift_exec [0] (fun i => i + 1) /\
  st 2 0 <> st 1 0.
Proof. exact stage_drift. Qed.
Print Assumptions C02_stage_drift_without_fixed_point.
