(* C03 - every successful compilation yields a well-formed backend IL module.
   Translation validation: the emitted module is checked by the executable QbeWf.wf_module; the
   theorems below say what acceptance by that checker means with respect to the formal semantics Qbe.run.
   Only statements, each closed by `exact`, with Print Assumptions beneath. *)
From Coq Require Import ZArith List Bool PArith FMapPositive.
From Cproc Require Import Model.Qbe Model.QbeWf Proofs.QbeProofs.
From Cproc Require Import Proofs.QbeSoundType Proofs.QbeSoundClass Proofs.QbeSoundDom Proofs.QbeSoundUndef.
Import ListNotations.
Open Scope Z_scope.

(* Qbe.run is a function: a module has one behaviour for given float operations, externals, entry and fuel. *)
Theorem C03_run_deterministic :
  forall fo m ext nglob entry fuel r1 r2,
    run fo m ext nglob entry fuel = r1 -> run fo m ext nglob entry fuel = r2 -> r1 = r2.
Proof. exact run_deterministic. Qed.
Print Assumptions C03_run_deterministic.

(* Rule (5): for every module the checker accepts, every floating-point implementation, every set of
   externals, every entry point and every amount of fuel, execution never stops at a jump to a missing label. *)
Theorem C03_wf_labels_sound :
  forall m, wf_module m = true ->
  forall fo ext nglob entry fuel l, run fo m ext nglob entry fuel <> Stuck (NoLabel l).
Proof. exact wf_labels_sound. Qed.
Print Assumptions C03_wf_labels_sound.

(* Rule (6): ... and never runs past the last instruction of a function (every function has a block, the
   last block is terminated, a block without jump has a successor). *)
Theorem C03_wf_terminated_sound :
  forall m, wf_module m = true ->
  forall fo ext nglob entry fuel, run fo m ext nglob entry fuel <> Stuck FellOffEnd.
Proof. exact wf_terminated_sound. Qed.
Print Assumptions C03_wf_terminated_sound.

(* Rule (2): in every function of an accepted module the parameters, phi results and instruction results
   are pairwise distinct temporaries, and the block labels are pairwise distinct. *)
Theorem C03_wf_defs_unique :
  forall m f, wf_module m = true -> In (Dfunc f) m -> NoDup (func_def_temps f).
Proof. exact wf_defs_unique. Qed.
Print Assumptions C03_wf_defs_unique.

Theorem C03_wf_labels_unique :
  forall m f, wf_module m = true -> In (Dfunc f) m -> NoDup (map b_label (f_blocks f)).
Proof. exact wf_labels_unique. Qed.
Print Assumptions C03_wf_labels_unique.

(* ------------------------------------------------------------------ non-vacuity *)
Definition nolnk := {| l_export := true; l_thread := false; l_section := None |}.
Definition fo0 : fops := {| f_bin := fun _ _ _ _ => 0; f_cmp := fun _ _ _ _ => false; f_cvt := fun _ _ _ => 0 |}.

(* function w $main() { @s jnz 1, @a, @b  @a jmp @j  @b jmp @j  @j %1 =w phi @a 1, @b 2; %2 =w add %1, 41; ret %2 } *)
Definition ex_main : func :=
  {| f_lnk := nolnk; f_ret := Some (Tbase Kw); f_name := 1%positive; f_params := []; f_vararg := false;
     f_blocks := [
       {| b_label := 1%positive; b_phis := []; b_insts := []; b_jump := Some (Jnz (RInt 1) 2%positive 3%positive) |};
       {| b_label := 2%positive; b_phis := []; b_insts := []; b_jump := Some (Jmp 4%positive) |};
       {| b_label := 3%positive; b_phis := []; b_insts := []; b_jump := Some (Jmp 4%positive) |};
       {| b_label := 4%positive;
          b_phis := [{| p_res := 1%positive; p_cls := Kw; p_args := [(2%positive, RInt 1); (3%positive, RInt 2)] |}];
          b_insts := [Iop (Some (2%positive, Kw)) (Obin Badd) (RTmp 1%positive) (Some (RInt 41))];
          b_jump := Some (Ret (Some (RTmp 2%positive))) |} ] |}.

Example C03_example_accepted_and_runs :
  wf_module [Dfunc ex_main] = true /\ run fo0 [Dfunc ex_main] [] 1%positive 1%positive 10 = Done [] 42.
Proof. split; vm_compute; reflexivity. Qed.

(* the checker is not trivially true: D22's shape (a phi naming a block that ends in `ret`) is rejected,
   and so is a use that is not dominated by its definition *)
Definition ex_d22 : func :=
  {| f_lnk := nolnk; f_ret := Some (Tbase Kw); f_name := 1%positive; f_params := [(Tbase Kw, 1%positive)]; f_vararg := false;
     f_blocks := [
       {| b_label := 1%positive; b_phis := []; b_insts := []; b_jump := Some (Ret (Some (RInt 0))) |};
       {| b_label := 2%positive; b_phis := []; b_insts := [Iop (Some (2%positive, Kw)) (Ocmpi false Cne) (RTmp 1%positive) (Some (RInt 0))]; b_jump := None |};
       {| b_label := 3%positive;
          b_phis := [{| p_res := 3%positive; p_cls := Kw; p_args := [(1%positive, RInt 1); (2%positive, RTmp 2%positive)] |}];
          b_insts := []; b_jump := Some (Ret None) |} ] |}.

Definition ex_nodom : func :=
  {| f_lnk := nolnk; f_ret := Some (Tbase Kw); f_name := 1%positive; f_params := [(Tbase Kw, 1%positive)]; f_vararg := false;
     f_blocks := [
       {| b_label := 1%positive; b_phis := []; b_insts := []; b_jump := Some (Jnz (RTmp 1%positive) 2%positive 3%positive) |};
       {| b_label := 2%positive; b_phis := []; b_insts := [Iop (Some (2%positive, Kw)) Ocopy (RInt 5) None]; b_jump := None |};
       {| b_label := 3%positive; b_phis := []; b_insts := []; b_jump := Some (Ret (Some (RTmp 2%positive))) |} ] |}.

Example C03_example_rejected :
  wf_module [Dfunc ex_d22] = false /\ wf_module [Dfunc ex_nodom] = false.
Proof. split; vm_compute; reflexivity. Qed.

(* ------------------------------------------------------------------ soundness of rules (7), (4)/(8), (3) *)
(* Rule (7): for every accepted module, all float operations, externals, entries and fuel, execution never
   stops at an aggregate type without layout (parameters of a callee, aggregate actuals of a variadic call,
   aggregate call results are the only places where the semantics asks for a layout). *)
Theorem C03_wf_notype_sound :
  forall m, wf_module m = true ->
  forall fo ext nglob entry fuel t, run fo m ext nglob entry fuel <> Stuck (NoType t).
Proof. exact wf_notype_sound. Qed.
Print Assumptions C03_wf_notype_sound.

(* ... statically: every aggregate type named by a function (return type, parameters, call results, call
   arguments) has a layout once the module has been read. *)
Theorem C03_wf_types_defined :
  forall m ext f u, wf_module m = true -> In (Dfunc f) m -> In (Tagg u) (func_rtys f) ->
    PM.find u (ge_lay (mk_genv m ext)) <> None.
Proof. exact wf_types_defined. Qed.
Print Assumptions C03_wf_types_defined.

(* Rules (4)/(8): ... and never stops at an operand, result or return value of the wrong class, or at an
   instruction whose shape does not fit its opcode.  Full statement (no dominance hypothesis is needed: a
   read of a register that is not defined yet is the different result Stuck (UndefTemp _)). *)
Theorem C03_wf_class_sound :
  forall m, wf_module m = true ->
  forall fo ext nglob entry fuel, run fo m ext nglob entry fuel <> Stuck BadClass.
Proof. exact wf_class_sound. Qed.
Print Assumptions C03_wf_class_sound.

(* Rule (3): ... and never reads a register before it is defined - arbitrary control flow (loops, unreachable
   blocks), calls and recursion included.  (Uses the rule "no phi in the first block of a function", VEntryPhi:
   the semantics evaluates no phi on function entry.) *)
Theorem C03_wf_undef_sound :
  forall m, wf_module m = true ->
  forall fo ext nglob entry fuel t, run fo m ext nglob entry fuel <> Stuck (UndefTemp t).
Proof. exact wf_undef_sound. Qed.
Print Assumptions C03_wf_undef_sound.

(* All five together: the soundness of the checker (QbeProofs.wf_sound_statement). *)
Theorem C03_wf_sound :
  forall m, wf_module m = true ->
  forall fo ext nglob entry fuel,
    match run fo m ext nglob entry fuel with
    | Stuck (UndefTemp _) | Stuck (NoLabel _) | Stuck BadClass | Stuck (NoType _) | Stuck FellOffEnd => False
    | _ => True
    end.
Proof. exact wf_sound. Qed.
Print Assumptions C03_wf_sound.

(* The rule VEntryPhi is necessary: `@s %x =w phi @s 1  jnz %x, @s, @e` as first block runs into
   Stuck (UndefTemp %x), and that rule is the only one that rejects it (before the rule existed this module
   refuted the soundness statement). *)
Theorem C03_entry_phi_rule_needed :
  run cex_fo cex_entry_phi [] 1%positive 1%positive 10 = Stuck (UndefTemp 1%positive) /\
  map v_kind (wf_module_list cex_entry_phi) = [VEntryPhi].
Proof. exact cex_entry_phi_rejected. Qed.
Print Assumptions C03_entry_phi_rule_needed.

(* non-vacuity: an aggregate type, three functions, an aggregate passed by value, alloc/store/load, calls,
   four blocks and a phi:
     type :pair = { w, w }
     function w $add(w %a, w %b) { @s %c =w add %a, %b  ret %c }
     function w $sum(:pair %p) { @s %x =w loadw %p  %q =l add %p, 4  %y =w loadw %q  %z =w call $add(w %x, w %y)  ret %z }
     function w $main() { @s %m =l alloc4 8  storew 40, %m  %n =l add %m, 4  storew 2, %n  %c =w call $sum(:pair %m)
                             jnz %c, @a, @b   @a jmp @j   @b jmp @j   @j %r =w phi @a %c, @b 7  ret %r } *)
Definition ex_blk (l : ident) (ps : list phi) (is : list inst) (j : jump) : block :=
  {| b_label := l; b_phis := ps; b_insts := is; b_jump := Some j |}.
Definition ex_add : func :=
  {| f_lnk := nolnk; f_ret := Some (Tbase Kw); f_name := 2%positive;
     f_params := [(Tbase Kw, 1%positive); (Tbase Kw, 2%positive)]; f_vararg := false;
     f_blocks := [ex_blk 1%positive [] [Iop (Some (3%positive, Kw)) (Obin Badd) (RTmp 1%positive) (Some (RTmp 2%positive))] (Ret (Some (RTmp 3%positive)))] |}.
Definition ex_sum : func :=
  {| f_lnk := nolnk; f_ret := Some (Tbase Kw); f_name := 3%positive;
     f_params := [(Tagg 1%positive, 1%positive)]; f_vararg := false;
     f_blocks := [ex_blk 1%positive []
       [Iop (Some (2%positive, Kw)) (Oload Lw) (RTmp 1%positive) None;
        Iop (Some (3%positive, Kl)) (Obin Badd) (RTmp 1%positive) (Some (RInt 4));
        Iop (Some (4%positive, Kw)) (Oload Lw) (RTmp 3%positive) None;
        Icall (Some (5%positive, Tbase Kw)) (RGlo 2%positive false) [Aval (Tbase Kw) (RTmp 2%positive); Aval (Tbase Kw) (RTmp 4%positive)]]
       (Ret (Some (RTmp 5%positive)))] |}.
Definition ex_main2 : func :=
  {| f_lnk := nolnk; f_ret := Some (Tbase Kw); f_name := 1%positive; f_params := []; f_vararg := false;
     f_blocks := [
       ex_blk 1%positive []
         [Iop (Some (1%positive, Kl)) (Oalloc 4) (RInt 8) None;
          Iop None (Ostore Sw) (RInt 40) (Some (RTmp 1%positive));
          Iop (Some (2%positive, Kl)) (Obin Badd) (RTmp 1%positive) (Some (RInt 4));
          Iop None (Ostore Sw) (RInt 2) (Some (RTmp 2%positive));
          Icall (Some (3%positive, Tbase Kw)) (RGlo 3%positive false) [Aval (Tagg 1%positive) (RTmp 1%positive)]]
         (Jnz (RTmp 3%positive) 2%positive 3%positive);
       ex_blk 2%positive [] [] (Jmp 4%positive);
       ex_blk 3%positive [] [] (Jmp 4%positive);
       ex_blk 4%positive [{| p_res := 4%positive; p_cls := Kw; p_args := [(2%positive, RTmp 3%positive); (3%positive, RInt 7)] |}] []
         (Ret (Some (RTmp 4%positive)))] |}.
Definition ex_mod : module :=
  [Dtype {| td_name := 1%positive; td_align := None; td_body := TStruct [(Fw, 1); (Fw, 1)] |};
   Dfunc ex_add; Dfunc ex_sum; Dfunc ex_main2].

Example C03_example_sound_hypotheses :
  wf_module ex_mod = true /\
  run fo0 ex_mod [] 3%positive 1%positive 100 = Done [] 42.
Proof. repeat split; vm_compute; reflexivity. Qed.

(* ... and a loop: the phi of @l reads %n, defined later in @l itself, along the back edge
     function w $main() { @s jmp @l   @l %i =w phi @s 0, @l %n  %n =w add %i, 1  %c =w csltw %n, 5  jnz %c, @l, @e   @e ret %n } *)
Definition ex_loop : module :=
  [Dfunc {| f_lnk := nolnk; f_ret := Some (Tbase Kw); f_name := 1%positive; f_params := []; f_vararg := false;
            f_blocks := [
              ex_blk 1%positive [] [] (Jmp 2%positive);
              ex_blk 2%positive
                [{| p_res := 1%positive; p_cls := Kw; p_args := [(1%positive, RInt 0); (2%positive, RTmp 2%positive)] |}]
                [Iop (Some (2%positive, Kw)) (Obin Badd) (RTmp 1%positive) (Some (RInt 1));
                 Iop (Some (3%positive, Kw)) (Ocmpi false Cslt) (RTmp 2%positive) (Some (RInt 5))]
                (Jnz (RTmp 3%positive) 2%positive 3%positive);
              ex_blk 3%positive [] [] (Ret (Some (RTmp 2%positive)))] |}].

Example C03_example_sound_hypotheses_loop :
  wf_module ex_loop = true /\
  run fo0 ex_loop [] 1%positive 1%positive 100 = Done [] 5.
Proof. repeat split; vm_compute; reflexivity. Qed.

(* the rules are not trivially true: an aggregate type used before its definition, an integer operand where
   a double is expected, a result on a store, and a `ret` of a value in a function without return type are
   all rejected *)
Definition ex_one (ret : option rty) (is : list inst) (j : jump) : func :=
  {| f_lnk := nolnk; f_ret := ret; f_name := 1%positive; f_params := [(Tbase Kl, 9%positive)]; f_vararg := false;
     f_blocks := [ex_blk 1%positive [] is j] |}.

Example C03_example_rejected_type_class :
  wf_module [Dfunc ex_sum; Dtype {| td_name := 1%positive; td_align := None; td_body := TStruct [(Fw, 2)] |}] = false /\
  wf_module [Dfunc (ex_one None [Iop (Some (1%positive, Kd)) (Obin Badd) (RInt 1) (Some (RDbl 0))] (Ret None))] = false /\
  wf_module [Dfunc (ex_one None [Iop (Some (1%positive, Kw)) (Ostore Sw) (RInt 1) (Some (RTmp 9%positive))] (Ret None))] = false /\
  wf_module [Dfunc (ex_one None [] (Ret (Some (RInt 1))))] = false /\
  wf_module [Dfunc (ex_one (Some (Tbase Kw)) [] (Ret (Some (RInt 1))))] = true.
Proof. repeat split; vm_compute; reflexivity. Qed.

(* ------------------------------------------------------------------ the block-list builder of qbe.c *)
From Cproc Require Import Model.Builder Proofs.BuilderProofs.
From Coq Require Import NArith.

(* For every number of parameters, every value of mkblock's label counter and every sequence of builder
   operations (mkblock, funcinst, funclabel, funcjmp, funcjnz, funcret, funchlt, phi temporaries) in which no
   block is passed to funclabel twice: emitfunc terminates and prints exactly the labelled blocks in order;
   labels are pairwise distinct; result temporaries are pairwise distinct and differ from the parameter
   temporaries; no instruction was added to a block after its jump; the last block is terminated. *)
Theorem C03_builder_inv :
  forall nparams labelid0 ops,
    let s := run_ops nparams labelid0 ops in
    NoDup (s_placed s) ->
    exists bl, emitfunc (S (length (s_placed s))) s = Some bl /\
      map fst bl = s_placed s /\
      NoDup (map fst bl) /\
      NoDup (flat_map (fun p => block_temps (snd p)) bl) /\
      (forall p t, In p bl -> In t (block_temps (snd p)) -> (nparams < Npos t)%N) /\
      (forall p i, In p bl -> In i (k_insts (snd p)) -> i_late i = false) /\
      (exists p, last bl p = p /\ In p bl /\ closed (k_jump (snd p)) = true).
Proof. exact builder_inv. Qed.
Print Assumptions C03_builder_inv.

(* the hypothesis is necessary for the faithful model of funclabel: labelling a block twice makes the block
   list cyclic, emitfunc does not terminate (D25; the front end diagnoses `l: l:` since commit 39cee13) *)
Theorem C03_builder_label_twice_refuted : forall fuel, emitfunc fuel (run_ops 0 0 twice) = None.
Proof. exact builder_label_twice_refuted. Qed.
Print Assumptions C03_builder_label_twice_refuted.

(* non-vacuity: `return x; y = 1; if (..) ..` — an instruction after a return opens a dead block *)
Definition ex_ops : list bop :=
  [OMkblock; OLabel 9%positive; OInst true; ORet; OInst true; OInst false; OMkblock; OMkblock; OJnz 11%positive 12%positive;
   OLabel 11%positive; OInst true; OJmp 12%positive; OJmp 9%positive; OLabel 12%positive; OPhi 12%positive].

Example C03_example_builder :
  NoDup (s_placed (run_ops 2 7 ex_ops)) /\
  option_map (map fst) (emitfunc 6 (run_ops 2 7 ex_ops)) = Some [8; 9; 10; 11; 12]%positive /\
  option_map (map (fun p => block_temps (snd p))) (emitfunc 6 (run_ops 2 7 ex_ops)) = Some [[]; [3]; [4]; [5]; [6]]%positive.
Proof.
  split; [|split; vm_compute; reflexivity].
  vm_compute. repeat constructor; simpl; intuition discriminate.
Qed.
