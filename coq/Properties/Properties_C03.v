(* C03 - every successful compilation yields a well-formed backend IL module.
   Translation validation: the emitted module is checked by the executable QbeWf.wf_module; the
   theorems below say what acceptance by that checker means with respect to the formal semantics Qbe.run.
   Only statements, each closed by `exact`, with Print Assumptions beneath. *)
From Coq Require Import ZArith List Bool PArith FMapPositive.
From Cproc Require Import Model.Qbe Model.QbeWf Proofs.QbeProofs.
Import ListNotations.
Open Scope Z_scope.

(* Qbe.run is a function: a module has one behaviour for given float operations, externals, entry and fuel. *)
Theorem C03_run_deterministic :
  forall fo m ext nglob entry fuel r1 r2,
    run fo m ext nglob entry fuel = r1 -> run fo m ext nglob entry fuel = r2 -> r1 = r2.
Proof. exact run_deterministic. Qed.
Print Assumptions C03_run_deterministic.

(* Rule (5): for every module the checker accepts, every floating-point implementation, every set of
   externals, every entry point and every amount of fuel, execution never stops at a jump to a missing label. *)
Theorem C03_wf_labels_sound :
  forall m, wf_module m = true ->
  forall fo ext nglob entry fuel l, run fo m ext nglob entry fuel <> Stuck (NoLabel l).
Proof. exact wf_labels_sound. Qed.
Print Assumptions C03_wf_labels_sound.

(* Rule (6): ... and never runs past the last instruction of a function (every function has a block, the
   last block is terminated, a block without jump has a successor). *)
Theorem C03_wf_terminated_sound :
  forall m, wf_module m = true ->
  forall fo ext nglob entry fuel, run fo m ext nglob entry fuel <> Stuck FellOffEnd.
Proof. exact wf_terminated_sound. Qed.
Print Assumptions C03_wf_terminated_sound.

(* Rule (2): in every function of an accepted module the parameters, phi results and instruction results
   are pairwise distinct temporaries, and the block labels are pairwise distinct. *)
Theorem C03_wf_defs_unique :
  forall m f, wf_module m = true -> In (Dfunc f) m -> NoDup (func_def_temps f).
Proof. exact wf_defs_unique. Qed.
Print Assumptions C03_wf_defs_unique.

Theorem C03_wf_labels_unique :
  forall m f, wf_module m = true -> In (Dfunc f) m -> NoDup (map b_label (f_blocks f)).
Proof. exact wf_labels_unique. Qed.
Print Assumptions C03_wf_labels_unique.

(* ------------------------------------------------------------------ non-vacuity *)
Definition nolnk := {| l_export := true; l_thread := false; l_section := None |}.
Definition fo0 : fops := {| f_bin := fun _ _ _ _ => 0; f_cmp := fun _ _ _ _ => false; f_cvt := fun _ _ _ => 0 |}.

(* function w $main() { @s jnz 1, @a, @b  @a jmp @j  @b jmp @j  @j %1 =w phi @a 1, @b 2; %2 =w add %1, 41; ret %2 } *)
Definition ex_main : func :=
  {| f_lnk := nolnk; f_ret := Some (Tbase Kw); f_name := 1%positive; f_params := []; f_vararg := false;
     f_blocks := [
       {| b_label := 1%positive; b_phis := []; b_insts := []; b_jump := Some (Jnz (RInt 1) 2%positive 3%positive) |};
       {| b_label := 2%positive; b_phis := []; b_insts := []; b_jump := Some (Jmp 4%positive) |};
       {| b_label := 3%positive; b_phis := []; b_insts := []; b_jump := Some (Jmp 4%positive) |};
       {| b_label := 4%positive;
          b_phis := [{| p_res := 1%positive; p_cls := Kw; p_args := [(2%positive, RInt 1); (3%positive, RInt 2)] |}];
          b_insts := [Iop (Some (2%positive, Kw)) (Obin Badd) (RTmp 1%positive) (Some (RInt 41))];
          b_jump := Some (Ret (Some (RTmp 2%positive))) |} ] |}.

Example C03_example_accepted_and_runs :
  wf_module [Dfunc ex_main] = true /\ run fo0 [Dfunc ex_main] [] 1%positive 1%positive 10 = Done [] 42.
Proof. split; vm_compute; reflexivity. Qed.

(* the checker is not trivially true: D22's shape (a phi naming a block that ends in `ret`) is rejected,
   and so is a use that is not dominated by its definition *)
Definition ex_d22 : func :=
  {| f_lnk := nolnk; f_ret := Some (Tbase Kw); f_name := 1%positive; f_params := [(Tbase Kw, 1%positive)]; f_vararg := false;
     f_blocks := [
       {| b_label := 1%positive; b_phis := []; b_insts := []; b_jump := Some (Ret (Some (RInt 0))) |};
       {| b_label := 2%positive; b_phis := []; b_insts := [Iop (Some (2%positive, Kw)) (Ocmpi false Cne) (RTmp 1%positive) (Some (RInt 0))]; b_jump := None |};
       {| b_label := 3%positive;
          b_phis := [{| p_res := 3%positive; p_cls := Kw; p_args := [(1%positive, RInt 1); (2%positive, RTmp 2%positive)] |}];
          b_insts := []; b_jump := Some (Ret None) |} ] |}.

Definition ex_nodom : func :=
  {| f_lnk := nolnk; f_ret := Some (Tbase Kw); f_name := 1%positive; f_params := [(Tbase Kw, 1%positive)]; f_vararg := false;
     f_blocks := [
       {| b_label := 1%positive; b_phis := []; b_insts := []; b_jump := Some (Jnz (RTmp 1%positive) 2%positive 3%positive) |};
       {| b_label := 2%positive; b_phis := []; b_insts := [Iop (Some (2%positive, Kw)) Ocopy (RInt 5) None]; b_jump := None |};
       {| b_label := 3%positive; b_phis := []; b_insts := []; b_jump := Some (Ret (Some (RTmp 2%positive))) |} ] |}.

Example C03_example_rejected :
  wf_module [Dfunc ex_d22] = false /\ wf_module [Dfunc ex_nodom] = false.
Proof. split; vm_compute; reflexivity. Qed.

(* ------------------------------------------------------------------ the block-list builder of qbe.c *)
From Cproc Require Import Model.Builder Proofs.BuilderProofs.
From Coq Require Import NArith.

(* For every number of parameters, every value of mkblock's label counter and every sequence of builder
   operations (mkblock, funcinst, funclabel, funcjmp, funcjnz, funcret, funchlt, phi temporaries) in which no
   block is passed to funclabel twice: emitfunc terminates and prints exactly the labelled blocks in order;
   labels are pairwise distinct; result temporaries are pairwise distinct and differ from the parameter
   temporaries; no instruction was added to a block after its jump; the last block is terminated. *)
Theorem C03_builder_inv :
  forall nparams labelid0 ops,
    let s := run_ops nparams labelid0 ops in
    NoDup (s_placed s) ->
    exists bl, emitfunc (S (length (s_placed s))) s = Some bl /\
      map fst bl = s_placed s /\
      NoDup (map fst bl) /\
      NoDup (flat_map (fun p => block_temps (snd p)) bl) /\
      (forall p t, In p bl -> In t (block_temps (snd p)) -> (nparams < Npos t)%N) /\
      (forall p i, In p bl -> In i (k_insts (snd p)) -> i_late i = false) /\
      (exists p, last bl p = p /\ In p bl /\ closed (k_jump (snd p)) = true).
Proof. exact builder_inv. Qed.
Print Assumptions C03_builder_inv.

(* the hypothesis is necessary for the faithful model of funclabel: labelling a block twice makes the block
   list cyclic, emitfunc does not terminate (D25; the front end diagnoses `l: l:` since commit 39cee13) *)
Theorem C03_builder_label_twice_refuted : forall fuel, emitfunc fuel (run_ops 0 0 twice) = None.
Proof. exact builder_label_twice_refuted. Qed.
Print Assumptions C03_builder_label_twice_refuted.

(* non-vacuity: `return x; y = 1; if (..) ..` — an instruction after a return opens a dead block *)
Definition ex_ops : list bop :=
  [OMkblock; OLabel 9%positive; OInst true; ORet; OInst true; OInst false; OMkblock; OMkblock; OJnz 11%positive 12%positive;
   OLabel 11%positive; OInst true; OJmp 12%positive; OJmp 9%positive; OLabel 12%positive; OPhi 12%positive].

Example C03_example_builder :
  NoDup (s_placed (run_ops 2 7 ex_ops)) /\
  option_map (map fst) (emitfunc 6 (run_ops 2 7 ex_ops)) = Some [8; 9; 10; 11; 12]%positive /\
  option_map (map (fun p => block_temps (snd p))) (emitfunc 6 (run_ops 2 7 ex_ops)) = Some [[]; [3]; [4]; [5]; [6]]%positive.
Proof.
  split; [|split; vm_compute; reflexivity].
  vm_compute. repeat constructor; simpl; intuition discriminate.
Qed.
