(* C04 - constant expressions fold to the value run-time evaluation would give.
   Only statements, each closed by `exact`, with Print Assumptions beneath.
   Model: Model/Eval.v (eval.c function for function, on 64-bit carriers), parametrised by the floating-point
   operations F (the integer theorems hold for ANY F; the extracted model uses Flocq's binary64).
   Specification: Spec/CArith.v (operators on mathematical integers with C's definedness conditions) and
   Spec/CArithExpr.v (value of a whole integer constant expression).
   [repr k v] is the canonical 64-bit carrier of v at integer type k (sign/zero extended), [val k c] its inverse. *)
From Coq Require Import ZArith Bool List Lia.
From Cproc Require Import Lib.Wrap Spec.CArith Spec.CArithExpr Model.EvalFloat Model.Eval Proofs.EvalProofs Proofs.EvalProofsExpr Proofs.EvalProofsFloat.
Import ListNotations.
Local Open Scope Z_scope.

(* the twelve integer types of each target are instances of the quantification `wf_ity k` below *)
Theorem C04_all_types_wf : forall sc k, In k (c_int_types sc) -> wf_ity k.
Proof. exact all_types_wf. Qed.
Print Assumptions C04_all_types_wf.

(* the `(x ^ m) - m` idiom *)
Theorem C04_xor_sub_sext : forall n x, 0 < n ->
  Z.lxor (Z.land x (2 ^ n - 1)) (2 ^ (n - 1)) - 2 ^ (n - 1) = sext n x.
Proof. exact xor_sub_sext. Qed.
Print Assumptions C04_xor_sub_sext.

(* cast(): for every integer type and EVERY 64-bit pattern, truncation + sign extension = representation mod 2^N *)
Theorem C04_cast_wrap : forall (F : fops) k c, wf_ity k -> cast F (TInt k) c = repr k c.
Proof. exact cast_wrap. Qed.
Print Assumptions C04_cast_wrap.

Theorem C04_val_repr : forall k v, wf_ity k -> in_range k v -> val k (repr k v) = v.
Proof. exact val_repr. Qed.
Print Assumptions C04_val_repr.

(* binary(): every integer operator, every type, all operand values for which C defines the result *)
Theorem C04_fold_correct : forall (F : fops) op k kr l r v,
  wf_ity k -> wf_ity kr -> in_range k l -> in_range kr r ->
  (is_shift op = false -> kr = k) ->
  binop_spec op k l r = Some v ->
  binary F (bop_of op) (TInt k) (TInt (binop_type op k)) (repr k l) (repr kr r) = Val (repr (binop_type op k) v)
  /\ in_range (binop_type op k) v.
Proof. exact fold_correct. Qed.
Print Assumptions C04_fold_correct.

Theorem C04_fold_neg_correct : forall (F : fops) k l v, wf_ity k -> in_range k l ->
  unop_spec Neg k l = Some v ->
  unary F UNeg (TInt k) (TInt k) (repr k l) = Val (repr k v) /\ in_range k v.
Proof. exact fold_neg_correct. Qed.
Print Assumptions C04_fold_neg_correct.

(* ~x, compiled as x ^ mkconstexpr(t, -1) *)
Theorem C04_fold_bnot_correct : forall (F : fops) k l v, wf_ity k -> in_range k l ->
  unop_spec Bnot k l = Some v ->
  binary F OXor (TInt k) (TInt k) (repr k l) (M64 - 1) = Val (repr k v) /\ in_range k v.
Proof. exact fold_bnot_correct. Qed.
Print Assumptions C04_fold_bnot_correct.

(* integer -> integer conversions, and conversions to _Bool *)
Theorem C04_conv_correct : forall (F : fops) k kb v, wf_ity k -> wf_ity kb -> in_range kb v ->
  cast_const F (TInt k) (TInt kb) (repr kb v) = Val (repr k (conv_spec k v)) /\ in_range k (conv_spec k v).
Proof. exact conv_correct. Qed.
Print Assumptions C04_conv_correct.

Theorem C04_cast_bool_spec : forall (F : fops) kb v, wf_ity kb -> in_range kb v ->
  cast_const F TBool (TInt kb) (repr kb v) = Val (conv_bool_spec v).
Proof. exact cast_bool_spec. Qed.
Print Assumptions C04_cast_bool_spec.

(* && and ||: int 0/1; decided by the left operand alone when it can be; otherwise left unfolded *)
Theorem C04_logical_fold_spec : forall (F : fops) t lt lc rt rc, is_float lt = false -> is_float rt = false ->
  eval_binary F t OLand (EConst lt lc) (EConst rt rc) = same (EConst t (land_spec lc rc)) /\
  eval_binary F t OLor (EConst lt lc) (EConst rt rc) = same (EConst t (lor_spec lc rc)).
Proof. exact logical_fold_spec. Qed.
Print Assumptions C04_logical_fold_spec.

Theorem C04_logical_short_circuit : forall (F : fops) t lt lc r0, is_float lt = false ->
  (lc = 0 -> eval_binary F t OLand (EConst lt lc) r0 = same (EConst t 0)) /\
  (lc <> 0 -> eval_binary F t OLor (EConst lt lc) r0 = same (EConst t 1)).
Proof. exact logical_short_circuit. Qed.
Print Assumptions C04_logical_short_circuit.

Theorem C04_logical_undetermined : forall (F : fops) t lt lc r0, is_float lt = false -> is_const r0 = false ->
  (lc <> 0 -> eval_binary F t OLand (EConst lt lc) r0 = same (EBin t OLand (EConst lt lc) r0)) /\
  (lc = 0 -> eval_binary F t OLor (EConst lt lc) r0 = same (EBin t OLor (EConst lt lc) r0)).
Proof. exact logical_undetermined. Qed.
Print Assumptions C04_logical_undetermined.

(* the guards of eval() make every host division defined: no expression tree (constants of any value, any
   nesting, any float operations) makes the folder execute x/0, x%0 or LLONG_MIN / -1 *)
Theorem C04_no_trap : forall (F : fops) e, div_typed e = true -> eval F e <> Stop STrap.
Proof. exact no_trap. Qed.
Print Assumptions C04_no_trap.

Theorem C04_shift_count_bound : forall r, 0 <= Z.land r 63 < 64.
Proof. exact shift_count_bound. Qed.
Print Assumptions C04_shift_count_bound.

(* whole expressions: every well-typed integer constant expression with a defined value folds to the
   canonical representation of that value, in its type *)
Theorem C04_eval_sound_partial : forall (F : fops) e v, sem e = Some v -> rhs_quiet F e ->
  eval F e = same (EConst (type_of e) (crepr (type_of e) v)) /\ sem_ok (type_of e) v.
Proof. exact eval_sound_partial. Qed.
Print Assumptions C04_eval_sound_partial.

(* FINDING (unevaluated-operand-diagnosed): without rhs_quiet the statement is false of the code *)
Theorem C04_eval_sound_refuted : ~ eval_sound_total.
Proof. exact eval_sound_refuted. Qed.
Print Assumptions C04_eval_sound_refuted.

(* ?: with an integer constant condition is folded by condexpr to the selected operand, converted *)
Theorem C04_cond_fold_partial : forall (F : fops) t ct cv a b, is_int ct = true ->
  condfold F t (EConst ct cv) a b = same (exprconvert (if cv =? 0 then b else a) t).
Proof. exact cond_fold_partial. Qed.
Print Assumptions C04_cond_fold_partial.

Theorem C04_cond_fold_correct : forall (F : fops) t c a b vc, sem c = Some vc -> rhs_quiet F c ->
  condfold F t c a b = same (exprconvert (cond_spec vc a b) t).
Proof. exact cond_fold_correct. Qed.
Print Assumptions C04_cond_fold_correct.

(* KNOWN FINDING (cond-float-condition-not-folded): a floating constant condition is not folded *)
Theorem C04_cond_fold_float_refuted : forall (F : fops), ~ cond_fold_total F.
Proof. exact cond_fold_float_refuted. Qed.
Print Assumptions C04_cond_fold_float_refuted.

(* address constants: (P + C1) +- C2 is re-associated to P + (C1 +- C2) modulo 2^64 *)
Theorem C04_reassoc_partial : forall (F : fops) t P c1 c2,
  eval_binary F t OAdd (EBin TPtr OAdd P (EConst (TInt t_ulong) c1)) (EConst (TInt t_ulong) c2)
    = same (EBin t OAdd P (EConst (TInt t_ulong) (repr t_ulong (c1 + c2)))) /\
  eval_binary F t OSub (EBin TPtr OAdd P (EConst (TInt t_ulong) c1)) (EConst (TInt t_ulong) c2)
    = same (EBin t OAdd P (EConst (TInt t_ulong) (repr t_ulong (c1 - c2)))).
Proof. exact reassoc_partial. Qed.
Print Assumptions C04_reassoc_partial.

(* ... in either operand order (fixed finding addr-const-swapped-reassoc-crash: `long z = 3 + (long)&a[1];`) *)
Theorem C04_reassoc_swapped : forall (F : fops) t P c1 c2,
  eval_binary F t OAdd (EConst (TInt t_ulong) c2) (EBin TPtr OAdd P (EConst (TInt t_ulong) c1))
    = same (EBin t OAdd P (EConst (TInt t_ulong) (repr t_ulong (c1 + c2)))).
Proof. exact reassoc_swapped. Qed.
Print Assumptions C04_reassoc_swapped.

(* a floating constant with suffix f is rounded to float (fixed finding float-literal-not-rounded) *)
Theorem C04_floatlit_correct : forall (F : fops) suffix_f bits, floatlit F suffix_f bits = floatlit_spec F suffix_f bits.
Proof. exact floatlit_correct. Qed.
Print Assumptions C04_floatlit_correct.

(* floating -> integer conversions (Flocq binary64): the range tests `!(f >= -0x1p63 && f < 0x1p63)` and
   `!(f > -1.0 && f < 0x1p64)` make the host conversion defined, and a folded conversion is the truncated value
   reduced to the target type *)
Theorem C04_float_to_int_guard_signed : forall c z,
  fge c mtwo63 = true -> flt c two63 = true -> f_trunc c = Some z -> - 2 ^ 63 <= z < 2 ^ 63.
Proof. exact float_to_int_guard_signed. Qed.
Print Assumptions C04_float_to_int_guard_signed.

Theorem C04_float_to_int_guard_unsigned : forall c z,
  fgt c mone = true -> flt c two64 = true -> f_trunc c = Some z -> 0 <= z < 2 ^ 64.
Proof. exact float_to_int_guard_unsigned. Qed.
Print Assumptions C04_float_to_int_guard_unsigned.

Theorem C04_float_to_int_fold : forall k sz c v, wf_ity k ->
  cast_const flocq_ops (TInt k) (TFloat sz) c = Val v ->
  exists z, f_trunc c = Some z /\
            (if isigned k then - 2 ^ 63 <= z < 2 ^ 63 else 0 <= z < 2 ^ 64) /\ v = repr k z.
Proof. exact float_to_int_fold. Qed.
Print Assumptions C04_float_to_int_fold.

(* ... and the unsigned guard rejects nothing whose integral part is representable
   (fixed finding float-to-unsigned-negative-fraction-rejected: `(unsigned char)-0.5` is 0, not an error) *)
Theorem C04_float_to_unsigned_total : forall k c z, wf_ity k -> isigned k = false ->
  f_trunc c = Some z -> in_range k z -> cast_const flocq_ops (TInt k) (TFloat 8) c <> Diag.
Proof. exact float_to_unsigned_total. Qed.
Print Assumptions C04_float_to_unsigned_total.

(* the undefined host conversion is never reached: for every integer type, either float size and EVERY 64-bit
   pattern - NaNs of any sign/payload, +inf and -inf included - the conversion of a constant yields a value or a
   diagnostic (fixed in /repo 1b74a9a, found by C19: both old range tests were false for a NaN).  No side condition
   on k or sz is needed. *)
Theorem C04_float_to_int_never_host_ub : forall k sz c,
  cast_const flocq_ops (TInt k) (TFloat sz) c <> HostUB.
Proof. exact float_to_int_never_host_ub. Qed.
Print Assumptions C04_float_to_int_never_host_ub.

(* ... in fact for every pair of types eval()'s EXPRCAST case can meet *)
Theorem C04_cast_const_never_host_ub : forall t lt c, cast_const flocq_ops t lt c <> HostUB.
Proof. exact cast_const_never_host_ub. Qed.
Print Assumptions C04_cast_const_never_host_ub.

(* ... and a NaN is diagnosed, whatever the integer type *)
Theorem C04_nan_to_int_diag : forall k sz c, is_nan_bits c = true ->
  cast_const flocq_ops (TInt k) (TFloat sz) c = Diag.
Proof. exact nan_to_int_diag. Qed.
Print Assumptions C04_nan_to_int_diag.

(* ---- non-vacuity ---- *)
(* fold_correct: hypotheses satisfiable at the boundaries; INT_MIN / -1 and 1 << 31 are (rightly) excluded *)
Example C04_nonvacuous_fold :
  wf_ity t_int /\ in_range t_int (-2147483648) /\ in_range t_int (-1) /\
  binop_spec Div t_int (-7) 2 = Some (-3) /\ binop_spec Mod t_int (-7) 2 = Some (-1) /\
  binop_spec Div t_int (-2147483648) (-1) = None /\ binop_spec Shl t_int 1 31 = None /\
  binop_spec Shr t_int (-16) 2 = Some (-4) /\ binop_spec Add t_uint 4294967295 1 = Some 0 /\
  binop_spec CLt t_uint 4294967295 1 = Some 0 /\ binop_spec Mul t_long 3037000500 3037000500 = None /\
  binary flocq_ops ODiv (TInt t_int) (TInt t_int) (repr t_int (-7)) (repr t_int 2) = Val (repr t_int (-3)) /\
  repr t_int (-3) = 18446744073709551613.
Proof. unfold wf_ity, in_range. vm_compute. intuition congruence. Qed.

(* eval_sound_partial on a nested tree:  (unsigned char)300 + (-5 >> 1) * 2 < 1u  &&  !(3 % 2 == 0)  *)
Example C04_nonvacuous_eval :
  let i := TInt t_int in
  let c v := EConst i (repr t_int v) in
  let e := EBin i OLand
             (EBin i OLess
                (ECast (TInt t_uint) (EBin i OAdd (ECast i (ECast (TInt t_uchar) (c 300)))
                                                  (EBin i OMul (EBin i OShr (ENeg i (c 5)) (c 1)) (c 2))))
                (EConst (TInt t_uint) 1))
             (EBin i OEql (EBin i OEql (EBin i OMod (c 3) (c 2)) (c 0)) (c 0)) in
  sem e = Some 0 /\ rhs_quiet flocq_ops e /\ eval flocq_ops e = same (EConst i 0) /\
  sem (EBin i OAdd (ECast i (ECast (TInt t_uchar) (c 300))) (EBin i OMul (EBin i OShr (ENeg i (c 5)) (c 1)) (c 2))) = Some 38.
Proof. vm_compute. repeat split; eauto. Qed.

(* float_to_int_fold: (long)-3.75 folds to -3, (unsigned char)255.9 to 255, (long)0x1p63 is diagnosed *)
Example C04_nonvacuous_float :
  cast_const flocq_ops (TInt t_long) (TFloat 8) 0xc00e000000000000 = Val (repr t_long (-3)) /\
  cast_const flocq_ops (TInt t_uchar) (TFloat 8) 0x406ffccccccccccd = Val 255 /\
  cast_const flocq_ops (TInt t_long) (TFloat 8) two63 = Diag /\
  cast_const flocq_ops (TInt t_uchar) (TFloat 8) 0xbfe0000000000000 = Val 0 /\
  cast_const flocq_ops (TInt t_uint) (TFloat 8) mone = Diag /\
  floatlit flocq_ops true 0x3fb999999999999a = 0x3fb99999a0000000 /\
  f_trunc 0xc00e000000000000 = Some (-3).
Proof. vm_compute. repeat split; reflexivity. Qed.

(* NaN (quiet, negative quiet with payload, signalling), +inf and -inf are diagnosed for signed and unsigned targets;
   the last finite doubles inside the ranges still fold *)
Example C04_nan_inf_diag :
  is_nan_bits nanbits = true /\ is_nan_bits 0xfff8000000000001 = true /\ is_nan_bits 0x7ff0000000000001 = true /\
  cast_const flocq_ops (TInt t_int) (TFloat 8) nanbits = Diag /\
  cast_const flocq_ops (TInt t_uint) (TFloat 4) nanbits = Diag /\
  cast_const flocq_ops (TInt t_long) (TFloat 8) 0xfff8000000000001 = Diag /\
  cast_const flocq_ops (TInt t_ulong) (TFloat 8) 0x7ff0000000000001 = Diag /\
  cast_const flocq_ops (TInt t_schar) (TFloat 4) 0x7ff0000000000000 = Diag /\
  cast_const flocq_ops (TInt t_uchar) (TFloat 8) 0x7ff0000000000000 = Diag /\
  cast_const flocq_ops (TInt t_long) (TFloat 8) 0xfff0000000000000 = Diag /\
  cast_const flocq_ops (TInt t_ulong) (TFloat 4) 0xfff0000000000000 = Diag /\
  cast_const flocq_ops (TInt t_long) (TFloat 8) mtwo63 = Val (repr t_long (- 2 ^ 63)) /\
  cast_const flocq_ops (TInt t_long) (TFloat 8) 0x43dfffffffffffff = Val (repr t_long (2 ^ 63 - 1024)) /\
  cast_const flocq_ops (TInt t_ulong) (TFloat 8) 0x43efffffffffffff = Val (repr t_ulong (2 ^ 64 - 2048)) /\
  cast_const flocq_ops (TInt t_ulong) (TFloat 8) 0xbfefffffffffffff = Val 0.
Proof. vm_compute. repeat split; reflexivity. Qed.
