(* C05 - every expression is given the type C11 assigns it.
   Only statements, each closed by `exact`, with Print Assumptions beneath, plus non-vacuity Examples.
   Model: Model/Types.v (type.c, expr.c, targ.c, decl.c:tagspec).  Specification: Spec/CTypes.v (C11 + LP64 ABIs).
   Glue (Proofs/TypesProofs.v): erase t = the basic type an arithmetic type behaves as (enum -> base);
   abi_of tg = the ABI record of a target; wopt w = None for "not a bit-field" ((unsigned)-1), Some w else;
   agree m s = both reject, or both accept and erase (model type) = spec type.
   (Earlier *_refuted statements for string-literal arrays, bitwise operators on floating operands, ?: on equal
   narrow types, unchecked `=` and enum-with-base-long-long were retired when /repo was fixed: notes/C05.md.)
   FINITE-DOMAIN statements are marked [bound]: the domain is alltargs (3 targets) x real_universe (the 15 basic
   arithmetic types and two distinct enum types for each of the 12 integer bases) x widths ("not a bit-field"
   and every width 1..64 that fits the declared type); they are proved by complete enumeration. *)
From Coq Require Import ZArith List Bool Lia.
From Cproc Require Import Model.Types Spec.CTypes Proofs.TypesProofs.
Import ListNotations.
Open Scope Z_scope.

(* ---- targets, rank ---- *)
Theorem C05_targets_spec : map abi_of alltargs = abis.
Proof. exact targets_spec. Qed.
Print Assumptions C05_targets_spec.

(* 6.3.1.1p1: typerank orders the integer types as the conversion rank does; an enum has its base's rank *)
Theorem C05_rank_spec : forall a b i,
  In a int_basics -> In b int_basics ->
  (typerank (TBasic a) <? typerank (TBasic b)) = (c_rank a <? c_rank b)
  /\ typerank (TEnum i a) = typerank (TBasic a)
  /\ 0 < typerank (TBasic a).
Proof. exact rank_spec. Qed.
Print Assumptions C05_rank_spec.

(* ---- 6.3.1.1p2 integer promotions / 6.5.2.2p6 default argument promotions  [bound] ---- *)
Theorem C05_promote_spec : forall tg t w b,
  In tg alltargs -> In t real_universe -> In w widths -> valid_width t w = true -> erase t = Some b ->
  erase (typepromote tg t w) = Some (default_promote (abi_of tg) b (wopt w))
  /\ (typepromote tg t w = t \/ exists b', typepromote tg t w = TBasic b').
Proof. exact promote_spec. Qed.
Print Assumptions C05_promote_spec.

Theorem C05_promote_fullwidth : forall tg t, In tg alltargs -> In t int_universe ->
  typepromote tg t (8 * size t) = typepromote tg t NOWIDTH.
Proof. exact promote_fullwidth. Qed.
Print Assumptions C05_promote_fullwidth.

Example C05_promote_nonvacuous :
  let tg := mktarget 1 false BUInt in
  In tg alltargs /\ In (TBasic BUInt) real_universe /\ In 31 widths /\ In 32 widths /\ In 33 widths
  /\ valid_width (TBasic BUInt) 31 = true /\ valid_width (TBasic BLong) 33 = true
  /\ typepromote tg (TBasic BUInt) 31 = TBasic BInt
  /\ typepromote tg (TBasic BUInt) 32 = TBasic BUInt
  /\ typepromote tg (TBasic BLong) 32 = TBasic BInt
  /\ typepromote tg (TBasic BLong) 33 = TBasic BLong
  /\ typepromote tg (TBasic BChar) NOWIDTH = TBasic BInt
  /\ typepromote tg (TEnum 1 BUShort) NOWIDTH = TBasic BInt
  /\ typepromote tg (TBasic BFloat) NOWIDTH = TBasic BDouble.
Proof. vm_compute. intuition. Qed.

(* ---- 6.3.1.8 usual arithmetic conversions  [bound] ---- *)
Theorem C05_uac_spec : forall tg t1 w1 t2 w2 b1 b2,
  In tg alltargs -> In t1 real_universe -> In t2 real_universe -> In w1 widths -> In w2 widths ->
  valid_width t1 w1 = true -> valid_width t2 w2 = true ->
  erase t1 = Some b1 -> erase t2 = Some b2 ->
  typecommonreal tg t1 w1 t2 w2 = Some (TBasic (uac (abi_of tg) b1 (wopt w1) b2 (wopt w2))).
Proof. exact uac_spec. Qed.
Print Assumptions C05_uac_spec.

Example C05_uac_nonvacuous :
  let tg := mktarget 0 true BInt in
  typecommonreal tg (TBasic BLong) NOWIDTH (TBasic BUInt) NOWIDTH = Some (TBasic BLong)
  /\ typecommonreal tg (TBasic BLLong) NOWIDTH (TBasic BULong) NOWIDTH = Some (TBasic BULLong)
  /\ typecommonreal tg (TBasic BUInt) 31 (TBasic BInt) NOWIDTH = Some (TBasic BInt)
  /\ typecommonreal tg (TBasic BUInt) 32 (TBasic BInt) NOWIDTH = Some (TBasic BUInt)
  /\ typecommonreal tg (TBasic BChar) NOWIDTH (TBasic BFloat) NOWIDTH = Some (TBasic BFloat)
  /\ typecommonreal tg (TBasic BULong) NOWIDTH (TEnum 1 BLLong) NOWIDTH = Some (TBasic BULLong)
  /\ typecommonreal tg (TBasic BLong) NOWIDTH (TEnum 1 BLong) NOWIDTH = Some (TBasic BLong)
  /\ valid_width (TBasic BUInt) 31 = true.
Proof. vm_compute. intuition. Qed.

(* ---- result type of every binary operator on arithmetic operands  [bound] ---- *)
Theorem C05_binop_type_spec : forall tg op t1 w1 c1 t2 w2 c2 b1 b2,
  In tg alltargs -> In t1 real_universe -> In t2 real_universe -> In w1 widths -> In w2 widths ->
  valid_width t1 w1 = true -> valid_width t2 w2 = true ->
  erase t1 = Some b1 -> erase t2 = Some b2 ->
  agree (binop_type tg op (mkop t1 w1 c1) (mkop t2 w2 c2))
        (binop_spec (abi_of tg) op (b1, wopt w1) (b2, wopt w2)).
Proof. exact binop_type_spec. Qed.
Print Assumptions C05_binop_type_spec.

Theorem C05_unop_type_spec : forall tg op t w b,
  In tg alltargs -> In t real_universe -> In w widths -> valid_width t w = true -> erase t = Some b ->
  agree (unop_type tg op (mkop t w None)) (unop_spec (abi_of tg) op (b, wopt w)).
Proof. exact unop_type_spec. Qed.
Print Assumptions C05_unop_type_spec.

Example C05_binop_nonvacuous :
  let tg := mktarget 2 false BInt in
  binop_type tg OShl (mkop (TBasic BUChar) NOWIDTH None) (mkop (TBasic BLong) NOWIDTH None) = Some (TBasic BInt)
  /\ binop_type tg OLess (mkop (TBasic BDouble) NOWIDTH None) (mkop (TBasic BLong) NOWIDTH None) = Some (TBasic BInt)
  /\ binop_type tg OMod (mkop (TBasic BDouble) NOWIDTH None) (mkop (TBasic BLong) NOWIDTH None) = None
  /\ binop_type tg OBand (mkop (TBasic BDouble) NOWIDTH None) (mkop (TBasic BInt) NOWIDTH None) = None
  /\ binop_type tg OMul (mkop (TBasic BChar) NOWIDTH None) (mkop (TBasic BUInt) NOWIDTH None) = Some (TBasic BUInt)
  /\ unop_type tg UBnot (mkop (TBasic BUShort) NOWIDTH None) = Some (TBasic BInt)
  /\ unop_type tg UMinus (mkop (TBasic BFloat) NOWIDTH None) = Some (TBasic BFloat).
Proof. vm_compute. intuition. Qed.

(* ---- pointer arithmetic, all types (no bound) ---- *)
Theorem C05_ptr_arith_spec : forall tg p t wp wt cp ct,
  object_ptr p -> int_operand t ->
  binop_type tg OAdd (mkop p wp cp) (mkop t wt ct) = Some p
  /\ binop_type tg OAdd (mkop t wt ct) (mkop p wp cp) = Some p
  /\ binop_type tg OSub (mkop p wp cp) (mkop t wt ct) = Some p
  /\ binop_type tg OSub (mkop t wt ct) (mkop p wp cp) = None.
Proof. exact ptr_arith_spec. Qed.
Print Assumptions C05_ptr_arith_spec.

Theorem C05_ptr_diff_spec : forall tg b1 q1 b2 q2 w1 w2 c1 c2,
  object_ptr (TPtr b1 q1) ->
  binop_type tg OSub (mkop (TPtr b1 q1) w1 c1) (mkop (TPtr b2 q2) w2 c2)
  = if typecompatible b1 b2 then Some (TBasic ptrdiff_t) else None.
Proof. exact ptr_diff_spec. Qed.
Print Assumptions C05_ptr_diff_spec.

(* ---- 6.5.15 conditional operator ---- *)
Theorem C05_cond_arith_spec : forall tg t1 w1 c1 t2 w2 c2 b1 b2,
  In tg alltargs -> In t1 real_universe -> In t2 real_universe -> In w1 widths -> In w2 widths ->
  valid_width t1 w1 = true -> valid_width t2 w2 = true ->
  erase t1 = Some b1 -> erase t2 = Some b2 ->
  cond_type tg (mkop t1 w1 c1) (mkop t2 w2 c2)
  = Some (TBasic (cond_arith_spec (abi_of tg) (b1, wopt w1) (b2, wopt w2))).
Proof. exact cond_arith_spec_all. Qed.
Print Assumptions C05_cond_arith_spec.

Example C05_cond_nonvacuous :
  let tg := mktarget 0 true BInt in
  cond_type tg (mkop (TBasic BChar) NOWIDTH None) (mkop (TBasic BChar) NOWIDTH None) = Some (TBasic BInt)
  /\ cond_type tg (mkop (TBasic BUInt) 3 None) (mkop (TBasic BUInt) 3 None) = Some (TBasic BInt)
  /\ cond_type tg (mkop (TStruct 1) NOWIDTH None) (mkop (TStruct 1) NOWIDTH None) = Some (TStruct 1)
  /\ cond_type tg (mkop (TStruct 1) NOWIDTH None) (mkop (TStruct 2) NOWIDTH None) = None
  /\ cond_type tg (mkop (TPtr (TBasic BInt) QUALCONST) NOWIDTH None) (mkop (TPtr TVoid QUALVOLATILE) NOWIDTH None)
     = Some (TPtr TVoid (Z.lor QUALCONST QUALVOLATILE)).
Proof. vm_compute. intuition. Qed.

Theorem C05_cond_ptr_spec : forall tg b1 q1 b2 q2 w1 w2,
  cond_type tg (mkop (TPtr b1 q1) w1 None) (mkop (TPtr b2 q2) w2 None)
  = if same_object b1 TVoid || same_object b2 TVoid then Some (TPtr TVoid (Z.lor q1 q2))
    else if typecompatible b1 b2 then Some (TPtr b1 (Z.lor q1 q2)) else None.
Proof. exact cond_ptr_spec. Qed.
Print Assumptions C05_cond_ptr_spec.

Theorem C05_cond_null_spec : forall tg p w v,
  is_ptr p = true ->
  cond_type tg (mkop (TBasic BInt) NOWIDTH (Some 0)) (mkop p w v) = Some p
  /\ cond_type tg (mkop p w None) (mkop (TBasic BInt) NOWIDTH (Some 0)) = Some p.
Proof. exact cond_null_spec. Qed.
Print Assumptions C05_cond_null_spec.

(* ---- typehasint and 6.4.4.1 integer constants: ALL 64-bit values ---- *)
Theorem C05_hasint_spec : forall tg t b i sign,
  erase t = Some b -> is_integer b = true -> b <> BBool -> 0 <= i < 2 ^ 64 ->
  typehasint tg t i sign
  = (lo (abi_of tg) b <=? sval sign i) && (sval sign i <=? hi (abi_of tg) b).
Proof. exact hasint_spec. Qed.
Print Assumptions C05_hasint_spec.

Theorem C05_hasint_bool_refuted :
  exists tg, typehasint tg (TBasic BBool) 2 false = true /\ hi (abi_of tg) BBool = 1.
Proof. exact hasint_bool_refuted. Qed.
Print Assumptions C05_hasint_bool_refuted.

Theorem C05_inttype_spec : forall tg v decimal s sfx,
  0 <= v < 2 ^ 64 -> In sfx (suffix_spellings s) ->
  inttype tg v decimal sfx = literal_type (abi_of tg) v decimal s.
Proof. exact inttype_spec. Qed.
Print Assumptions C05_inttype_spec.

Theorem C05_nullpointer_qualified_void : forall q w v, q <> 0 ->
  nullpointer (mkop (TPtr TVoid q) w (Some v)) = false.
Proof. exact nullpointer_qualified_void. Qed.
Print Assumptions C05_nullpointer_qualified_void.

Theorem C05_inttype_suffix_complete : forall tg v decimal sfx b,
  inttype tg v decimal sfx = Some b -> exists s, In sfx (suffix_spellings s).
Proof. exact inttype_suffix_complete. Qed.
Print Assumptions C05_inttype_suffix_complete.

Theorem C05_inttype_mixed_ll_rejected : forall tg v decimal,
  inttype tg v decimal [108; 76] = None /\ inttype tg v decimal [76; 108] = None /\
  inttype tg v decimal [117; 76; 108] = None /\ inttype tg v decimal [108; 76; 85] = None.
Proof. exact inttype_mixed_ll_rejected. Qed.
Print Assumptions C05_inttype_mixed_ll_rejected.

Theorem C05_floattype_spec : forall sfx b, In (sfx, b) float_suffixes -> floattype sfx = Some b.
Proof. exact floattype_spec. Qed.
Print Assumptions C05_floattype_spec.

Example C05_inttype_nonvacuous :
  let tg := mktarget 0 true BInt in
  In [85; 108] (suffix_spellings SUL)
  /\ inttype tg 2147483647 true [] = Some BInt
  /\ inttype tg 2147483648 true [] = Some BLong
  /\ inttype tg 2147483648 false [] = Some BUInt
  /\ inttype tg 4294967296 false [] = Some BLong
  /\ inttype tg 9223372036854775808 false [] = Some BULong
  /\ inttype tg 9223372036854775808 true [] = None
  /\ inttype tg 9223372036854775808 false [76; 76] = Some BULLong
  /\ inttype tg 1 true [85; 108] = Some BULong
  /\ inttype tg 1 true [120] = None
  /\ typehasint tg (TBasic BInt) (2 ^ 64 - 2147483648) true = true
  /\ typehasint tg (TBasic BInt) (2 ^ 64 - 2147483649) true = false.
Proof. vm_compute. intuition. Qed.

(* ---- character constants, string literals, sizeof ---- *)
Theorem C05_charconst_spec : forall tg p, In tg alltargs ->
  charconst_type tg p = charconst_spec (abi_of tg) p.
Proof. exact charconst_spec_all. Qed.
Print Assumptions C05_charconst_spec.

Theorem C05_string_elem_spec_partial : forall tg p, p <> Pu8 ->
  string_elem tg p = string_elem_spec (abi_of tg) p.
Proof. exact string_elem_spec_partial. Qed.
Print Assumptions C05_string_elem_spec_partial.

Theorem C05_string_elem_u8_refuted : exists tg, string_elem tg Pu8 <> string_elem_spec (abi_of tg) Pu8.
Proof. exact string_elem_u8_refuted. Qed.
Print Assumptions C05_string_elem_u8_refuted.

Theorem C05_strlit_type_spec : forall tg p n, p <> Pu8 -> 0 < n ->
  strlit_type tg p n = strlit_spec (abi_of tg) p n.
Proof. exact strlit_type_spec. Qed.
Print Assumptions C05_strlit_type_spec.

Theorem C05_strlit_decay_spec : forall tg p n, p <> Pu8 -> 0 < n ->
  decay (strlit_type tg p n) 0 = decay (strlit_spec (abi_of tg) p n) 0.
Proof. exact strlit_decay_spec. Qed.
Print Assumptions C05_strlit_decay_spec.

Theorem C05_sizeof_spec : sizeof_type = size_t /\ ptrdiff_type = ptrdiff_t.
Proof. exact sizeof_spec. Qed.
Print Assumptions C05_sizeof_spec.

(* ---- 6.2.7 compatibility: ALL types of the model (unbounded nesting) ---- *)
Theorem C05_compat_refl : forall t, typecompatible t t = true.
Proof. exact compat_refl. Qed.
Print Assumptions C05_compat_refl.

Theorem C05_compat_sym : forall t1 t2, typecompatible t1 t2 = typecompatible t2 t1.
Proof. exact compat_sym. Qed.
Print Assumptions C05_compat_sym.

Theorem C05_compat_spec : forall t1 t2, typecompatible t1 t2 = true <-> Compatible t1 t2.
Proof. exact compat_spec. Qed.
Print Assumptions C05_compat_spec.

Theorem C05_typeadjust_spec : forall t tq pq,
  match t with
  | TArr b q _ => typeadjust t tq pq = Some (TPtr b (Z.lor tq q), pq)
  | TFunc _ _ _ _ => tq = 0 -> typeadjust t tq pq = Some (TPtr t 0, 0)
  | _ => typeadjust t tq pq = Some (t, tq)
  end.
Proof. exact typeadjust_spec. Qed.
Print Assumptions C05_typeadjust_spec.

Example C05_compat_nonvacuous :
  let fp1 := TPtr (TFunc (TBasic BInt) 0 [TPtr (TBasic BChar) QUALCONST; TEnum 3 BUInt] true) 0 in
  let fp2 := TPtr (TFunc (TBasic BInt) 0 [TPtr (TBasic BChar) QUALCONST; TBasic BUInt] true) 0 in
  let fp3 := TPtr (TFunc (TBasic BInt) 0 [TPtr (TBasic BChar) 0; TBasic BUInt] true) 0 in
  typecompatible fp1 fp2 = true /\ typecompatible fp2 fp3 = false
  /\ typecompatible (TArr (TBasic BInt) 0 (AConst 3)) (TArr (TBasic BInt) 0 AIncomplete) = true
  /\ typecompatible (TArr (TBasic BInt) 0 (AConst 3)) (TArr (TBasic BInt) 0 (AConst 4)) = false
  /\ typecompatible (TEnum 1 BUInt) (TEnum 2 BUInt) = false
  /\ typecompatible (TBasic BChar) (TBasic BSChar) = false
  /\ Compatible fp1 fp2.
Proof.
  cbv zeta. repeat split; try reflexivity.
  apply compat_spec. reflexivity.
Qed.

(* ---- assignment conversion (exprassign) ---- *)
Theorem C05_exprassign_ptr_spec : forall e bt qt,
  exprassign_ok e (TPtr bt qt) = true <->
  nullpointer e = true
  \/ (exists be qe, otype e = TPtr be qe
        /\ (same_object bt TVoid = true \/ same_object be TVoid = true \/ Compatible bt be)
        /\ Z.land qe qt = qe).
Proof. exact exprassign_ptr_spec. Qed.
Print Assumptions C05_exprassign_ptr_spec.

Theorem C05_exprassign_arith_spec : forall e t b,
  erase t = Some b -> b <> BBool ->
  exprassign_ok e t = has (prop (otype e)) PROPARITH.
Proof. exact exprassign_arith_spec. Qed.
Print Assumptions C05_exprassign_arith_spec.

Theorem C05_exprassign_struct_spec : forall e i,
  (exprassign_ok e (TStruct i) = true <-> Compatible (TStruct i) (otype e))
  /\ (exprassign_ok e (TUnion i) = true <-> Compatible (TUnion i) (otype e)).
Proof. exact exprassign_struct_spec. Qed.
Print Assumptions C05_exprassign_struct_spec.

Theorem C05_assign_type_spec : forall l r,
  (assign_type l r = Some l <-> assign_left_ok l = true /\ exprassign_ok r l = true)
  /\ (assign_type l r = None \/ assign_type l r = Some l).
Proof. exact assign_type_spec. Qed.
Print Assumptions C05_assign_type_spec.

Example C05_assign_nonvacuous :
  assign_type (TPtr (TBasic BInt) 0) (mkop (TPtr (TBasic BLong) 0) NOWIDTH None) = None
  /\ assign_type (TPtr (TBasic BInt) QUALCONST) (mkop (TPtr (TBasic BInt) 0) NOWIDTH None) = Some (TPtr (TBasic BInt) QUALCONST)
  /\ assign_type (TPtr (TBasic BInt) 0) (mkop (TPtr (TBasic BInt) QUALCONST) NOWIDTH None) = None
  /\ assign_type (TPtr (TBasic BInt) 0) (mkop (TBasic BInt) NOWIDTH (Some 0)) = Some (TPtr (TBasic BInt) 0)
  /\ assign_type (TPtr (TBasic BInt) 0) (mkop (TBasic BInt) NOWIDTH (Some 5)) = None
  /\ assign_type (TBasic BShort) (mkop (TBasic BDouble) NOWIDTH None) = Some (TBasic BShort)
  /\ assign_type (TArr (TBasic BInt) 0 (AConst 3)) (mkop (TBasic BInt) NOWIDTH None) = None.
Proof. vm_compute. intuition. Qed.

(* ---- enum base type (decl.c:tagspec), all 64-bit enumerator values ---- *)
Theorem C05_enum_base_spec : forall tg minmag maxv b,
  0 <= minmag <= 2 ^ 63 -> 0 <= maxv < 2 ^ 64 ->
  enum_base tg minmag maxv = Some b ->
  enum_base_ok (abi_of tg) b minmag maxv.
Proof. exact enum_base_spec. Qed.
Print Assumptions C05_enum_base_spec.

Example C05_enum_base_nonvacuous :
  let tg := mktarget 0 true BInt in
  enum_base tg 0 5 = Some BUInt /\ enum_base tg 1 5 = Some BInt
  /\ enum_base tg 0 4294967296 = Some BULong /\ enum_base tg 1 4294967296 = Some BLong
  /\ enum_base tg 1 (2 ^ 63) = None.
Proof. vm_compute. intuition. Qed.
