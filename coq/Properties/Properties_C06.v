(* C06 - object layout equals the platform ABI.
   Only statements, each closed by `exact`, with Print Assumptions beneath; non-vacuity Examples.
   Model: Model/Layout.v (addmember, structdecl, tagspec's finish and enum loop, declarator's array size,
   typehasint, typemember, designator).  Specification: Spec/AbiLayout.v. *)
From Coq Require Import ZArith List Bool Lia.
From Cproc Require Import Model.Layout Spec.AbiLayout Proofs.LayoutArith Proofs.LayoutProofs Proofs.LayoutInv
  Proofs.LayoutRefute Proofs.EnumProofs Proofs.OffsetofProofs.
Import ListNotations.
Open Scope Z_scope.

(* ALIGNUP(x, n) = (x + n - 1) & -n in 64-bit arithmetic rounds up to a multiple of n, for powers of two, unless it wraps *)
Theorem C06_alignup_spec :
  forall x n, 0 <= x -> x + n <= W64 -> pow2 n -> alignup x n = roundup x n.
Proof. exact alignup_spec. Qed.
Print Assumptions C06_alignup_spec.

(* layout_abi: for EVERY member sequence (structs and unions; plain, anonymous, bit-field, unnamed and
   zero-width bit-field, flexible array, _Alignas, packed) on which the System-V / RISC-V rule set defines a layout
   that fits in 2^62 bytes, cproc's addmember/structdecl/tagspec arithmetic computes exactly that layout:
   sizeof, _Alignof, flexible flag, the offset of every member, the storage unit and bit position of every bit-field. *)
Theorem C06_layout_abi :
  forall (is_struct pack : bool) (its : list item) (r : tinfo * list member),
    Forall wf_item its -> (is_struct = false -> pack = false) -> (pack = true -> Forall no_alignas its) ->
    spec_layout rules_sysv is_struct pack its = Some r -> t_size (fst r) <= 2 ^ 62 ->
    record_layout is_struct pack its = Ok r.
Proof. exact layout_abi. Qed.
Print Assumptions C06_layout_abi.

(* layout_inv: ... and that layout is well-formed (see layout_ok in Proofs/LayoutInv.v): alignment a power of two
   dividing the size; plain members at multiples of their effective alignment; bit-field units naturally aligned with
   before + width + after = 8 * unit size; every member and unit inside the record; bit ranges of distinct struct
   members ordered and disjoint; union members at offset 0. *)
Theorem C06_layout_inv :
  forall (is_struct pack : bool) (its : list item) (r : tinfo * list member),
    Forall wf_item its -> (is_struct = false -> pack = false) -> (pack = true -> Forall no_alignas its) ->
    spec_layout rules_sysv is_struct pack its = Some r -> t_size (fst r) <= 2 ^ 62 ->
    record_layout is_struct pack its = Ok r /\ layout_ok is_struct pack its (fst r) (snd r).
Proof. exact layout_inv. Qed.
Print Assumptions C06_layout_inv.

(* the same invariants for every layout of the specification itself, under either rule set (no size bound) *)
Theorem C06_spec_inv :
  forall (r : rules) (is_struct pack : bool) (its : list item) (ti : tinfo) (ms : list member),
    Forall wf_item its -> spec_layout r is_struct pack its = Some (ti, ms) -> layout_ok is_struct pack its ti ms.
Proof. exact spec_inv. Qed.
Print Assumptions C06_spec_inv.

Theorem C06_struct_members_disjoint :
  forall pack its ti ms (i j : nat) a b,
    layout_ok true pack its ti ms -> (i < j)%nat -> nth_error ms i = Some a -> nth_error ms j = Some b ->
    hi a <= lo b.
Proof. exact struct_members_disjoint. Qed.
Print Assumptions C06_struct_members_disjoint.

(* aarch64: the full-strength statement is FALSE of the faithful model (D14, known finding
   aarch64-unnamed-bitfield-align): struct A { char c; int :3; } is 2/1 in cproc, 4/4 under AAPCS64 *)
Theorem C06_layout_abi_aarch64_refuted :
  exists its r m, Forall wf_item its /\
    spec_layout rules_aapcs64 true false its = Some r /\ record_layout true false its = Ok m /\
    (t_size (fst r), t_align (fst r)) = (4, 4) /\ (t_size (fst m), t_align (fst m)) = (2, 1).
Proof. exact layout_abi_aarch64_refuted. Qed.
Print Assumptions C06_layout_abi_aarch64_refuted.

(* packed struct with an _Alignas member: size not rounded to the alignment (D15, known finding
   packed-alignas-size-not-rounded): struct __attribute__((packed)) P { _Alignas(4) int a; char b; } has size 5 *)
Theorem C06_packed_alignas_refuted :
  exists its r m, Forall wf_item its /\
    spec_layout rules_sysv true true its = Some r /\ record_layout true true its = Ok m /\
    t_size (fst r) = 8 /\ t_size (fst m) = 5 /\ t_align (fst m) = 4 /\ t_size (fst m) mod t_align (fst m) <> 0.
Proof. exact packed_alignas_refuted. Qed.
Print Assumptions C06_packed_alignas_refuted.

(* enumerations *)
Theorem C06_typehasint_spec :
  forall t i sign, valid_itype t -> 0 <= i < W64 -> typehasint t i sign = in_range t (mval sign i).
Proof. exact typehasint_spec. Qed.
Print Assumptions C06_typehasint_spec.

Theorem C06_enum_type_spec :
  forall es b cs,
    Forall wf_einput es -> enum_type None es = Ok (b, cs) ->
    exists allint, spec_enum None es = Some (b, allint, map cval cs) /\
      Forall (fun c => in_range b (cval c) = true) cs /\
      Forall (fun c => snd c = if allint then tint else mkI self_id (i_size b) (i_signed b)) cs.
Proof. exact enum_type_spec. Qed.
Print Assumptions C06_enum_type_spec.

Theorem C06_enum_fixed_spec :
  forall base es b cs,
    valid_itype base -> Forall wf_einput es -> enum_type (Some base) es = Ok (b, cs) ->
    b = base /\ spec_enum (Some base) es = Some (base, false, map cval cs) /\
    Forall (fun c => snd c = selfty base) cs.
Proof. exact enum_fixed_spec. Qed.
Print Assumptions C06_enum_fixed_spec.

(* arrays: an accepted array type has exactly size * length bytes (no wrap-around), and every array that fits is accepted *)
Theorem C06_array_size_no_overflow :
  forall base n sgn t,
    0 <= t_size base -> 0 <= n < W64 -> array_type base (Some (n, sgn)) = Ok t ->
    t_size t = spec_array_size (t_size base) n /\ 0 <= t_size t < W64 /\ t_align t = t_align base /\
    (sgn = true -> n < P63) /\ t_incomplete t = false.
Proof. exact array_size_no_overflow. Qed.
Print Assumptions C06_array_size_no_overflow.

Theorem C06_array_size_complete :
  forall base n sgn,
    0 < t_size base -> 0 <= n -> t_incomplete base = false -> t_func base = false ->
    (sgn = true -> n < P63) -> t_size base * n < W64 ->
    exists t, array_type base (Some (n, sgn)) = Ok t.
Proof. exact array_size_complete. Qed.
Print Assumptions C06_array_size_complete.

(* offsetof: member lookup through anonymous members finds the first field of that name, offset = sum on the way *)
Theorem C06_typemember_spec :
  forall t name offset,
    typemember t name offset =
      match lookup name (fields t 0) with
      | Some (o, b, m) => Some (w64 (offset + o), b, m)
      | None => None
      end.
Proof. exact typemember_spec. Qed.
Print Assumptions C06_typemember_spec.

(* regression statements for defects fixed in /repo during this work *)
Theorem C06_union_unnamed_bitfield_size :
  exists r, spec_layout rules_sysv false false union_unnamed_witness = Some r /\
            record_layout false false union_unnamed_witness = Ok r /\ t_size (fst r) = 3.
Proof. exact union_unnamed_bitfield_size. Qed.
Print Assumptions C06_union_unnamed_bitfield_size.

Theorem C06_bitfield_width_sentinel_rejected :
  forall b t a, structdecl b (INamed t a (Some M1)) = Err EBfWidth /\ structdecl b (IUnnamedBf t M1) = Err EBfWidth.
Proof. exact bitfield_width_sentinel_rejected. Qed.
Print Assumptions C06_bitfield_width_sentinel_rejected.

Theorem C06_enum_fixed_unsigned_first_accepted :
  enum_type (Some tuint) [None; None] = Ok (tuint, [(0, mkI self_id 4 false); (1, mkI self_id 4 false)]).
Proof. exact enum_fixed_unsigned_first_accepted. Qed.
Print Assumptions C06_enum_fixed_unsigned_first_accepted.

(* Non-vacuity: struct { char c; int a:3; int b:7; long l:33; short :0; unsigned char u:2; } meets every hypothesis of
   layout_abi / layout_inv and has the non-trivial layout gcc and clang produce (16/8, l at bits 18..50, u in byte 8). *)
Example C06_nonvacuous :
  let its := [INamed (ity 1) 0 None; INamed (ity 4) 0 (Some 3); INamed (ity 4) 0 (Some 7); INamed (ity 8) 0 (Some 33);
              IUnnamedBf (ity 2) 0; INamed (ity 1) 0 (Some 2)] in
  Forall wf_item its /\
  exists r, spec_layout rules_sysv true false its = Some r /\ t_size (fst r) <= 2 ^ 62 /\
    (t_size (fst r), t_align (fst r)) = (16, 8) /\
    map (fun m => (m_offset m, m_before m, m_after m)) (snd r) = [(0, 0, 0); (0, 8, 21); (0, 11, 14); (0, 18, 13); (8, 0, 6)].
Proof.
  split.
  - assert (Hbf : forall s w, pow2 s -> s <= 8 -> 0 <= w < 100 -> wf_item (INamed (ity s) 0 (Some w))).
    { intros s w Hp Hs Hw. cbn [wf_item]. split; [apply wf_ity; assumption|]. split; [left; reflexivity|unfold M1; lia]. }
    constructor; [wf_plain0|]. constructor; [apply Hbf; [auto|lia|lia]|]. constructor; [apply Hbf; [auto|lia|lia]|].
    constructor; [apply Hbf; [auto|lia|lia]|]. constructor; [wf_ubf|]. constructor; [apply Hbf; [auto|lia|lia]|]. constructor.
  - eexists. split; [vm_compute; reflexivity|]. split; [vm_compute; discriminate|]. split; reflexivity.
Qed.

Example C06_nonvacuous_enum :
  Forall wf_einput [Some (2147483647, tint); None; None; Some (M1, tint); Some (2147483648, tuint)] /\
  enum_type None [Some (2147483647, tint); None; None]
    = Ok (tuint, [(2147483647, mkI 100 4 false); (2147483648, mkI 100 4 false); (2147483649, mkI 100 4 false)]).
Proof. split; [apply enum_examples|apply enum_examples]. Qed.
