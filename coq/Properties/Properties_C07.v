(* C07 - placeholder while the proofs are being built *)
From Coq Require Import NArith.
From Cproc Require Import Model.Init.
Example C07_placeholder : w64 5 = 5%N.
Proof. reflexivity. Qed.
