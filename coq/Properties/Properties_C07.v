(* C07 - initialised objects contain exactly the specified initial image.
   Only statements, each closed by `exact`, with Print Assumptions beneath; Examples for non-vacuity.
   Models: Model/Init.v (init.c), Model/DataEmit.v (qbe.c emitdata/dataitem), Model/AutoInit.v (qbe.c funcinit/funcstore),
   Model/Zero.v (qbe.c zero).  Specification: Spec/InitSpec.v (leaf writes overlaid in source order on a zero object). *)
From Coq Require Import List NArith Bool Sorted.
From Cproc Require Import Lib.InitBits Model.Init Model.DataEmit Model.AutoInit Spec.InitSpec
  Proofs.InitProofs Proofs.DataEmitProofs Proofs.AutoInitProofs.
Import ListNotations.
Local Open Scope N_scope.

(* ---- init.c:initadd.  Pre l last n: p->last lies in the list, ranges are non-empty, the list is ordered (an entry
   precedes the entries after it and the entries nested in it), the new range is disjoint from / nested in / covering
   each old range (laminar, as sub-objects of one object are), and the entries before p->last are ones the loop would
   walk past. *)
Theorem C07_initadd_denote : forall en l last n, Pre l last n ->
  denote en (fst (initadd l last n)) = write en (denote en l) (leaf_of n).
Proof. exact initadd_denote. Qed.
Print Assumptions C07_initadd_denote.

Theorem C07_initadd_sorted : forall l last n, Pre l last n ->
  Inv (fst (initadd l last n)) /\ Forall nonempty (fst (initadd l last n)) /\
  nth_error (fst (initadd l last n)) (pred (snd (initadd l last n))) = Some n.
Proof. exact initadd_sorted. Qed.
Print Assumptions C07_initadd_sorted.

Theorem C07_initadd_last_irrelevant : forall l last n, Pre l last n -> fst (initadd l last n) = fst (initadd l 0 n).
Proof. exact initadd_last_irrelevant. Qed.
Print Assumptions C07_initadd_last_irrelevant.

(* later initializers override earlier ones: a list built by adding entries in source order denotes their overlay *)
Theorem C07_built_denote : forall en l src, built l src -> denote en l = overlay en (map leaf_of src).
Proof. exact built_denote. Qed.
Print Assumptions C07_built_denote.

(* without laminarity the statement is false (sub-objects of two different members of a union) *)
Theorem C07_initadd_partial_overlap_refuted :
  exists en l n, Inv l /\ Forall nonempty l /\ nonempty n /\
    denote en (fst (initadd l 0 n)) <> write en (denote en l) (leaf_of n).
Proof. exact initadd_partial_overlap_refuted. Qed.
Print Assumptions C07_initadd_partial_overlap_refuted.

(* ---- qbe.c:emitdata on a sorted list of non-overlapping entries: no assertion fires, exactly `size` bytes are
   emitted, and they are the specified image (gaps, bit-field neighbours, string tails and the trailing part zero) *)
Theorem C07_emitdata_image : forall en size l,
  size * 8 < M64 -> Forall wf_entry l -> sorted_disjoint l -> within size l ->
  exists items, emitdata size l = DOk items /\
    N.of_nat (length (items_bytes (symaddr en) items)) = size /\
    bytes_num (items_bytes (symaddr en) items) = image en size (map leaf_of l).
Proof. exact emitdata_image. Qed.
Print Assumptions C07_emitdata_image.

Theorem C07_static_image : forall en size l src,
  built l src -> size * 8 < M64 -> Forall wf_entry l -> sorted_disjoint l -> within size l ->
  exists items, emitdata size l = DOk items /\
    N.of_nat (length (items_bytes (symaddr en) items)) = size /\
    bytes_num (items_bytes (symaddr en) items) = image en size (map leaf_of src).
Proof. exact static_image. Qed.
Print Assumptions C07_static_image.

(* D18: with two members of a union initialised emitdata fails its own assertion *)
Theorem C07_union_two_members_refuted :
  exists size l, Forall wf_entry l /\ Inv l /\ within size l /\ emitdata size l = DAssertCurString.
Proof. exact union_two_members_refuted. Qed.
Print Assumptions C07_union_two_members_refuted.

(* ---- qbe.c:funcinit / zero / funcstore: the emitted stores leave the specified image in the object, whatever
   the memory held before, when no entry is nested in an earlier one *)
Theorem C07_funcinit_image_partial : forall en size align l,
  (exists k, align = 2 ^ k) -> Forall wf_auto l -> sorted_disjoint l ->
  exists ops, funcinit size align l = AOk ops /\
    forall mem0, exec_all en mem0 ops mod 2 ^ (8 * size) = image en size (map leaf_of l).
Proof. exact funcinit_image_partial. Qed.
Print Assumptions C07_funcinit_image_partial.

Theorem C07_auto_image : forall en size align l src,
  built l src -> (exists k, align = 2 ^ k) -> Forall wf_auto l -> sorted_disjoint l ->
  exists ops, funcinit size align l = AOk ops /\
    forall mem0, exec_all en mem0 ops mod 2 ^ (8 * size) = image en size (map leaf_of src).
Proof. exact auto_image. Qed.
Print Assumptions C07_auto_image.

(* ... and it is false with a nested entry (finding funcinit-zero-after-covered-entry) *)
Theorem C07_funcinit_image_refuted :
  exists en size align l, (exists k, align = 2 ^ k) /\ Forall wf_auto l /\ Inv l /\
    exists ops, funcinit size align l = AOk ops /\ exec_all en 0 ops mod 2 ^ (8 * size) <> image en size (map leaf_of l).
Proof. exact funcinit_image_refuted. Qed.
Print Assumptions C07_funcinit_image_refuted.

(* ---- non-vacuity *)
Example C07_initadd_nonvacuous :
  Pre [ex_S; ex_x] 2 ex_y /\ initadd [ex_S; ex_x] 2 ex_y = ([ex_S; ex_x; ex_y], 3%nat) /\
  Pre [ex_S; ex_x; ex_y] 0 ex_x /\ fst (initadd [ex_S; ex_x; ex_y] 0 ex_x) = [ex_S; ex_x; ex_y].
Proof. exact initadd_nonvacuous. Qed.

Example C07_emitdata_nonvacuous :
  Forall wf_entry ex_list /\ sorted_disjoint ex_list /\ within 40 ex_list /\
  emitdata 40 ex_list =
    DOk [IInt 1 [87]; IInt 1 [85]; IInt 1 [300]; IZero 5; IRef 3 12; IStr [97; 98; 0]; IZero 2; IZero 5;
         IInt 1 [224]; IInt 1 [255]; IInt 1 [255]; IInt 1 [255]; IInt 1 [255]; IInt 1 [15]; IZero 8].
Proof. exact emitdata_image_nonvacuous. Qed.

Example C07_funcinit_nonvacuous :
  Forall wf_auto ex_list /\ sorted_disjoint ex_list /\
  exists ops, funcinit 40 8 ex_list = AOk ops /\ length ops = 17%nat /\
    exec_all (mkenv (fun s => 4096 * s) (fun _ => 0)) (2 ^ 400 - 1) ops mod 2 ^ 320 =
    image (mkenv (fun s => 4096 * s) (fun _ => 0)) 40 (map leaf_of ex_list).
Proof. exact funcinit_image_nonvacuous. Qed.
